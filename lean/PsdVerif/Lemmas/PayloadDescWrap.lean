/-
C01 payload unit 6 — the descriptor-wrapping payloads: laws of `SmartObjectLayerData`, `PlacedLayerData`,
`TypeToolObjectSetting`.
-/
import PsdVerif.Lemmas.PayloadLinked
import PsdVerif.Model.PayloadDescWrap

namespace PsdVerif.Payload
open PsdVerif PsdVerif.Codec

/-- a `DescriptorBlock2` written with `padding=1` (no filler) -/
theorem block2_step (tb : Descriptor.Tables) {b : Descriptor.Block2} (hwf : b.WF tb) (hf : b.Fits tb) {d : B} {p : Nat} {rest : B}
    (h : At d p (b.encT tb 1 ++ rest)) :
    Descriptor.Block2.dec tb d p = .ok (b, p + (b.encT tb 1).length) ∧ At d (p + (b.encT tb 1).length) rest := by
  refine ⟨?_, h.right⟩
  rw [Descriptor.Block2.length_encT, padAmount_one, Nat.add_zero]
  exact Descriptor.Block2.dec_at hwf hf h.left

theorem readF64List_step {n : Nat} {vs : List UInt64} (hn : vs.length = n) {d : B} {p : Nat} {rest : B}
    (h : At d p (listT f64T vs ++ rest)) :
    readCount readF64 n d p = .ok (vs, p + 8 * n) ∧ At d (p + 8 * n) rest := by
  have hl := length_listT_const f64T 8 vs (fun v _ => length_f64T v)
  rw [hn] at hl
  obtain ⟨e, h'⟩ := Psd.readCount_step readF64 f64T vs
    (fun v _ d p h => by rw [(readF64_step h.nil_right).1, length_f64T]) h
  rw [hn, hl] at e
  rw [hl] at h'
  exact ⟨e, h'⟩

namespace SmartObjectLayerData
variable (tb : Descriptor.Tables)

theorem encP_eq (pad : Nat) (x : SmartObjectLayerData) : encP tb pad x = (encT tb pad x, (encT tb pad x).length) := by
  simp only [encP, encT, bodyT, Descriptor.Block.encW_eq, wBytes_eq, wSeq_eq, wPad_eq, List.append_assoc]

theorem rt (pad : Nat) : (codec tb pad).RtAnywhere := by
  intro x hwf hf d p h
  obtain ⟨hvalid, hdata⟩ := hwf
  obtain ⟨fv, fd⟩ := hf
  have hk : ∀ k ∈ GP.smartObjectKinds, k.length = 4 := by decide
  have e4 := pack4s_of_length (hk _ hvalid.1)
  have h : At d p (x.kind ++ (beBytes 4 x.version ++ (x.data.encT tb 1 ++ zeros (padAmount (bodyT tb x).length pad)))) := by
    simpa only [codec, encT, bodyT, e4, List.append_assoc] using h
  obtain ⟨e1, h⟩ := readN_step h (hk _ hvalid.1)
  obtain ⟨e2, h⟩ := readU_step h fv
  obtain ⟨e3, _⟩ := LinkedLayer.block_step tb hdata fd h
  simp only [codec, dec, bind, Except.bind, e1, e2, e3]
  rw [if_pos hvalid]
  simp only [bodyT, List.length_append, length_pack4s, length_beBytes, Nat.add_assoc]

theorem count (pad : Nat) : (codec tb pad).Count := encP_eq tb pad

end SmartObjectLayerData

namespace PlacedLayerData
variable (tb : Descriptor.Tables)

theorem encP_eq (pad : Nat) (x : PlacedLayerData) : encP tb pad x = (encT tb pad x, (encT tb pad x).length) := by
  simp only [encP, encT, bodyT, Descriptor.Block2.encW_eq, wPascal_eq, wBytes_eq, wSeq_eq, wPad_eq, List.append_assoc]

theorem rt (pad : Nat) : (codec tb pad).RtAnywhere := by
  intro x hwf hf d p h
  obtain ⟨hvalid, hk4, hwarp⟩ := hwf
  obtain ⟨fv, fu, f1, f2, f3, f4, f8, fw⟩ := hf
  have e4 := pack4s_of_length hk4
  have h : At d p (x.kind ++ (beBytes 4 x.version ++ (pascalT 1 x.uuid ++ (beBytes 4 x.page ++ (beBytes 4 x.totalPages ++
      (beBytes 4 x.antiAlias ++ (beBytes 4 x.layerType ++ (listT f64T x.transform ++ (x.warp.encT tb 1 ++
      zeros (padAmount (bodyT tb x).length pad)))))))))) := by
    simpa only [codec, encT, bodyT, e4, List.append_assoc] using h
  have hL : (bodyT tb x).length = 4 + (4 + ((pascalT 1 x.uuid).length + (4 + (4 + (4 + (4 + (8 * 8 + (x.warp.encT tb 1).length))))))) := by
    have hl := length_listT_const f64T 8 x.transform (fun v _ => length_f64T v)
    simp only [bodyT, List.length_append, length_pack4s, length_beBytes, hl, f8]; omega
  obtain ⟨e1, h⟩ := readN_step h hk4
  obtain ⟨e2, h⟩ := readU_step h fv
  obtain ⟨e3, h⟩ := readPascal_step h fu
  obtain ⟨e4', h⟩ := readU_step h f1
  obtain ⟨e5, h⟩ := readU_step h f2
  obtain ⟨e6, h⟩ := readU_step h f3
  obtain ⟨e7, h⟩ := readU_step h f4
  obtain ⟨e8, h⟩ := readF64List_step f8 h
  obtain ⟨e9, _⟩ := block2_step tb hwarp fw h
  simp only [codec, dec, bind, Except.bind, e1, e2, e3, e4', e5, e6, e7, e8, e9]
  rw [if_pos hvalid]
  simp only [hL, Nat.add_assoc]

theorem count (pad : Nat) : (codec tb pad).Count := encP_eq tb pad

end PlacedLayerData

namespace TypeToolObjectSetting
variable (tb : Descriptor.Tables)

theorem encP_eq (pad : Nat) (x : TypeToolObjectSetting) : encP tb pad x = (encT tb pad x, (encT tb pad x).length) := by
  simp only [encP, encT, bodyT, Descriptor.Block.encW_eq, wBytes_eq, wSeq_eq, wPad_eq, List.append_assoc]

theorem rt (pad : Nat) : (codec tb pad).RtAnywhere := by
  intro x hwf hf d p h
  obtain ⟨hvalid, htext, hwarp⟩ := hwf
  obtain ⟨fv, f6, ftv, ftext, fwv, fwarp, fl, ft, fr, fb⟩ := hf
  have h : At d p (beBytes 2 x.version ++ (listT f64T x.transform ++ (beBytes 2 x.textVersion ++ (x.textData.encT tb 1 ++
      (beBytes 2 x.warpVersion ++ (x.warp.encT tb 1 ++ (i32T x.left ++ (i32T x.top ++ (i32T x.right ++ (i32T x.bottom ++
      zeros (padAmount (bodyT tb x).length pad))))))))))) := by
    simpa only [codec, encT, bodyT, List.append_assoc] using h
  have hL : (bodyT tb x).length = 2 + (8 * 6 + (2 + ((x.textData.encT tb 1).length + (2 + ((x.warp.encT tb 1).length +
      (4 + (4 + (4 + 4)))))))) := by
    have hl := length_listT_const f64T 8 x.transform (fun v _ => length_f64T v)
    simp only [bodyT, List.length_append, length_beBytes, length_i32T, hl, f6]; omega
  obtain ⟨e1, h⟩ := readU_step h fv
  obtain ⟨e2, h⟩ := readF64List_step f6 h
  obtain ⟨e3, h⟩ := readU_step h ftv
  obtain ⟨e4, h⟩ := LinkedLayer.block_step tb htext ftext h
  obtain ⟨e5, h⟩ := readU_step h fwv
  obtain ⟨e6, h⟩ := LinkedLayer.block_step tb hwarp fwarp h
  obtain ⟨e7, h⟩ := readI32_step h fl
  obtain ⟨e8, h⟩ := readI32_step h ft
  obtain ⟨e9, h⟩ := readI32_step h fr
  obtain ⟨e10, _⟩ := readI32_step h fb
  simp only [codec, dec, bind, Except.bind, e1, e2, e3, e4, e5, e6, e7, e8, e9, e10]
  rw [if_pos hvalid]
  simp only [hL, Nat.add_assoc]

theorem count (pad : Nat) : (codec tb pad).Count := encP_eq tb pad

end TypeToolObjectSetting

end PsdVerif.Payload
