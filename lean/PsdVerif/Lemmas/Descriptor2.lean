/-
C01 descriptors — the round trip of every value class, by mutual structural induction
(value / list of values / list of keyed items), the fuel bound, and the `written` accumulator.
-/
import PsdVerif.Lemmas.Descriptor1

namespace PsdVerif.Descriptor
open PsdVerif PsdVerif.Codec

/-! ### `_read_body` on a written body, given the law of its items -/

theorem readBody_step {tb : Tables} {rec : Tag → R DVal} {nm : Str} {cid : Key} {items : Items}
    (hitems : ∀ (d : B) (p : Nat) (rest : B), At d p (encItemsT tb items ++ rest) →
      readCount (keyed tb rec) items.length d p = .ok (items, p + (encItemsT tb items).length) ∧
        At d (p + (encItemsT tb items).length) rest)
    (hnm : StrWF nm) (fnm : StrFits nm) (hcid : KeyWF tb cid) (fcid : KeyFits tb cid)
    (hlen : items.length < 4294967296) (hnd : KeysNodup items)
    {d : B} {p : Nat} {rest : B} (h : At d p (bodyT tb nm cid items ++ rest)) :
    readBody tb rec d p = .ok ((nm, cid, items), p + (bodyT tb nm cid items).length) ∧
      At d (p + (bodyT tb nm cid items).length) rest := by
  unfold bodyT at h ⊢
  simp only [List.append_assoc] at h
  obtain ⟨r1, h⟩ := readStr_step hnm fnm h
  obtain ⟨r2, h⟩ := readKey_step hcid fcid h
  obtain ⟨r3, h⟩ := readU_step (w := 4) h (by simpa using hlen)
  obtain ⟨r4, h⟩ := hitems _ _ _ h
  unfold readBody
  rw [rbind_ok r1, rbind_ok r2, rbind_ok r3, rbind_ok r4, rpure_eq, dictOf_of_nodup items hnd]
  simp only [List.length_append, length_beBytes, Nat.add_assoc] at h ⊢
  exact ⟨trivial, h⟩

/-! ### the main induction -/

mutual
theorem decBody_val (tb : Tables) (v : DVal) : ∀ (fuel : Nat) (d : B) (p : Nat) (rest : B),
    WF tb v → Fits tb v → need v ≤ fuel → At d p (encT tb v ++ rest) →
    decBody tb fuel v.tag d p = .ok (v, p + (encT tb v).length) ∧ At d (p + (encT tb v).length) rest := by
  intro fuel d p rest hwf hf hfuel h
  cases fuel with
  | zero => cases v <;> simp [need] at hfuel
  | succ fuel =>
  unfold decBody
  cases v with
  | int t z =>
    simp only [encT, Fits] at h hf ⊢
    obtain ⟨r1, h⟩ := readI32_step h hf
    have : decWith tb (decBody tb fuel) (DVal.int t z).tag = decInt t := by cases t <;> rfl
    rw [this]; unfold decInt
    rw [rbind_ok r1, rpure_eq, length_i32T]
    exact ⟨rfl, h⟩
  | large z =>
    simp only [encT, Fits] at h hf ⊢
    obtain ⟨r1, h⟩ := readI64_step h hf
    simp only [DVal.tag, decWith]
    rw [rbind_ok r1, rpure_eq, length_i64T]
    exact ⟨rfl, h⟩
  | bool b =>
    simp only [encT] at h ⊢
    obtain ⟨r1, h⟩ := readBool_step h
    simp only [DVal.tag, decWith]
    rw [rbind_ok r1, rpure_eq, length_boolT]
    exact ⟨rfl, h⟩
  | double bits =>
    simp only [encT, Fits] at h hf ⊢
    obtain ⟨r1, h⟩ := readF64_step h hf
    simp only [DVal.tag, decWith]
    rw [rbind_ok r1, rpure_eq, length_f64T]
    exact ⟨rfl, h⟩
  | unitFloat u bits =>
    simp only [encT, Fits, WF] at h hf hwf ⊢
    rw [unitT_eq hwf] at h ⊢
    simp only [List.append_assoc] at h
    obtain ⟨r1, h⟩ := readN_step h hwf.1
    obtain ⟨r2, h⟩ := readF64_step h hf
    simp only [DVal.tag, decWith]
    rw [rbind_ok r1, rbind_ok r2, rbind_ok (unitOf_ok hwf d _), rpure_eq]
    simp only [List.length_append, length_f64T, hwf.1, Nat.add_assoc] at h ⊢
    exact ⟨trivial, h⟩
  | unitFloats u vs =>
    simp only [encT, Fits, WF] at h hf hwf ⊢
    rw [unitT_eq hwf] at h ⊢
    simp only [List.append_assoc] at h
    obtain ⟨r1, h⟩ := readN_step h hwf.1
    obtain ⟨r2, h⟩ := readU_step (w := 4) h (by simpa using hf.1)
    obtain ⟨r3, h⟩ := readF64s_step h hf.2
    simp only [DVal.tag, decWith]
    rw [rbind_ok r1, rbind_ok r2, rbind_ok (unitOf_ok hwf d _), rbind_ok r3, rpure_eq]
    simp only [List.length_append, length_beBytes, hwf.1, Nat.add_assoc] at h ⊢
    exact ⟨trivial, h⟩
  | string s =>
    simp only [encT, Fits, WF] at h hf hwf ⊢
    obtain ⟨r1, h⟩ := readStr_step hwf hf h
    simp only [DVal.tag, decWith]
    rw [rbind_ok r1, rpure_eq]
    exact ⟨rfl, h⟩
  | enumerated ty en =>
    simp only [encT, Fits, WF] at h hf hwf ⊢
    simp only [List.append_assoc] at h
    obtain ⟨r1, h⟩ := readKey_step hwf.1 hf.1 h
    obtain ⟨r2, h⟩ := readKey_step hwf.2 hf.2 h
    simp only [DVal.tag, decWith]
    rw [rbind_ok r1, rbind_ok r2, rpure_eq]
    simp only [List.length_append, Nat.add_assoc] at h ⊢
    exact ⟨trivial, h⟩
  | enumRef nm cid ty en =>
    simp only [encT, Fits, WF] at h hf hwf ⊢
    simp only [List.append_assoc] at h
    obtain ⟨r1, h⟩ := readStr_step hwf.1 hf.1 h
    obtain ⟨r2, h⟩ := readKey_step hwf.2.1 hf.2.1 h
    obtain ⟨r3, h⟩ := readKey_step hwf.2.2.1 hf.2.2.1 h
    obtain ⟨r4, h⟩ := readKey_step hwf.2.2.2 hf.2.2.2 h
    simp only [DVal.tag, decWith]
    rw [rbind_ok r1, rbind_ok r2, rbind_ok r3, rbind_ok r4, rpure_eq]
    simp only [List.length_append, Nat.add_assoc] at h ⊢
    exact ⟨trivial, h⟩
  | klass t nm cid =>
    simp only [encT, Fits, WF] at h hf hwf ⊢
    simp only [List.append_assoc] at h
    obtain ⟨r1, h⟩ := readStr_step hwf.1 hf.1 h
    obtain ⟨r2, h⟩ := readKey_step hwf.2 hf.2 h
    have : decWith tb (decBody tb fuel) (DVal.klass t nm cid).tag = decClass tb t := by cases t <;> rfl
    rw [this]; unfold decClass
    rw [rbind_ok r1, rbind_ok r2, rpure_eq]
    simp only [List.length_append, Nat.add_assoc] at h ⊢
    exact ⟨trivial, h⟩
  | property nm cid kid =>
    simp only [encT, Fits, WF] at h hf hwf ⊢
    simp only [List.append_assoc] at h
    obtain ⟨r1, h⟩ := readStr_step hwf.1 hf.1 h
    obtain ⟨r2, h⟩ := readKey_step hwf.2.1 hf.2.1 h
    obtain ⟨r3, h⟩ := readKey_step hwf.2.2 hf.2.2 h
    simp only [DVal.tag, decWith]
    rw [rbind_ok r1, rbind_ok r2, rbind_ok r3, rpure_eq]
    simp only [List.length_append, Nat.add_assoc] at h ⊢
    exact ⟨trivial, h⟩
  | name nm cid val =>
    simp only [encT, Fits, WF] at h hf hwf ⊢
    simp only [List.append_assoc] at h
    obtain ⟨r1, h⟩ := readStr_step hwf.1 hf.1 h
    obtain ⟨r2, h⟩ := readKey_step hwf.2.1 hf.2.1 h
    obtain ⟨r3, h⟩ := readStr_step hwf.2.2 hf.2.2 h
    simp only [DVal.tag, decWith]
    rw [rbind_ok r1, rbind_ok r2, rbind_ok r3, rpure_eq]
    simp only [List.length_append, Nat.add_assoc] at h ⊢
    exact ⟨trivial, h⟩
  | offset nm cid val =>
    simp only [encT, Fits, WF] at h hf hwf ⊢
    simp only [List.append_assoc] at h
    obtain ⟨r1, h⟩ := readStr_step hwf.1 hf.1 h
    obtain ⟨r2, h⟩ := readKey_step hwf.2 hf.2.1 h
    obtain ⟨r3, h, hz⟩ := readU32_step h hf.2.2
    simp only [DVal.tag, decWith]
    rw [rbind_ok r1, rbind_ok r2, rbind_ok r3, rpure_eq, hz]
    simp only [List.length_append, length_u32T, Nat.add_assoc] at h ⊢
    exact ⟨trivial, h⟩
  | raw t data =>
    simp only [encT, Fits] at h hf ⊢
    obtain ⟨r1, h⟩ := readLenBlock_step h (by simpa using hf) (by decide)
    have : decWith tb (decBody tb fuel) (DVal.raw t data).tag = decRaw t := by cases t <;> rfl
    rw [this]; unfold decRaw
    rw [rbind_ok r1, rpure_eq]
    exact ⟨rfl, h⟩
  | list t items =>
    simp only [encT, Fits, WF, need] at h hf hwf hfuel ⊢
    simp only [List.append_assoc] at h
    obtain ⟨r1, h⟩ := readU_step (w := 4) h (by simpa using hf.1)
    obtain ⟨r2, h⟩ := decBody_list tb items fuel d _ rest hwf hf.2 (by omega) h
    have : decWith tb (decBody tb fuel) (DVal.list t items).tag = decList (decBody tb fuel) t := by cases t <;> rfl
    rw [this]; unfold decList
    rw [rbind_ok r1, rbind_ok r2, rpure_eq]
    simp only [List.length_append, length_beBytes, Nat.add_assoc] at h ⊢
    exact ⟨trivial, h⟩
  | desc t nm cid items =>
    simp only [Fits, WF, need] at hf hwf hfuel
    have hb : encT tb (.desc t nm cid items) = bodyT tb nm cid items := by simp only [encT, bodyT]
    rw [hb] at h ⊢
    obtain ⟨r1, h⟩ := readBody_step (rec := decBody tb fuel)
      (fun d' p' rest' h' => decBody_items tb items fuel d' p' rest' hwf.2.2.2 hf.2.2.2 (by omega) h')
      hwf.1 hf.1 hwf.2.1 hf.2.1 hf.2.2.1 hwf.2.2.1 h
    have : decWith tb (decBody tb fuel) (DVal.desc t nm cid items).tag = decDesc tb (decBody tb fuel) t := by
      cases t <;> rfl
    rw [this]; unfold decDesc
    rw [rbind_ok r1, rpure_eq]
    exact ⟨rfl, h⟩
  | objArray c nm cid items =>
    simp only [Fits, WF, need] at hf hwf hfuel
    have hb : encT tb (.objArray c nm cid items) = u32T c ++ bodyT tb nm cid items := by simp only [encT, bodyT]
    rw [hb] at h ⊢
    simp only [List.append_assoc] at h
    obtain ⟨r0, h, hz⟩ := readU32_step h hf.1
    obtain ⟨r1, h⟩ := readBody_step (rec := decBody tb fuel)
      (fun d' p' rest' h' => decBody_items tb items fuel d' p' rest' hwf.2.2.2 hf.2.2.2.2 (by omega) h')
      hwf.1 hf.2.1 hwf.2.1 hf.2.2.1 hf.2.2.2.1 hwf.2.2.1 h
    simp only [DVal.tag, decWith]
    rw [rbind_ok r0, rbind_ok r1, rpure_eq, hz]
    simp only [List.length_append, length_u32T, Nat.add_assoc] at h ⊢
    exact ⟨trivial, h⟩

theorem decBody_list (tb : Tables) (vs : List DVal) : ∀ (fuel : Nat) (d : B) (p : Nat) (rest : B),
    WFList tb vs → FitsList tb vs → needList vs ≤ fuel → At d p (encListT tb vs ++ rest) →
    readCount (tagged (decBody tb fuel)) vs.length d p = .ok (vs, p + (encListT tb vs).length) ∧
      At d (p + (encListT tb vs).length) rest := by
  intro fuel d p rest hwf hf hfuel h
  cases vs with
  | nil =>
    simp only [encListT, List.nil_append, List.length_nil, Nat.add_zero, readCount] at h ⊢
    exact ⟨trivial, h⟩
  | cons v vs =>
    simp only [encListT, WFList, FitsList, needList, List.append_assoc] at h hwf hf hfuel
    obtain ⟨r0, h⟩ := readTag_step h
    obtain ⟨r1, h⟩ := decBody_val tb v fuel d _ (encListT tb vs ++ rest) hwf.1 hf.1 (by omega) h
    obtain ⟨r2, h⟩ := decBody_list tb vs fuel d _ rest hwf.2 hf.2 (by omega) h
    have ht : tagged (decBody tb fuel) d p = .ok (v, p + 4 + (encT tb v).length) := by
      unfold tagged; rw [rbind_ok r0]; exact r1
    simp only [List.length_cons, readCount, ht, r2, encListT]
    simp only [List.length_append, Tag.length_bytes, Nat.add_assoc] at h ⊢
    exact ⟨trivial, h⟩

theorem decBody_items (tb : Tables) (its : Items) : ∀ (fuel : Nat) (d : B) (p : Nat) (rest : B),
    WFItems tb its → FitsItems tb its → needItems its ≤ fuel → At d p (encItemsT tb its ++ rest) →
    readCount (keyed tb (decBody tb fuel)) its.length d p = .ok (its, p + (encItemsT tb its).length) ∧
      At d (p + (encItemsT tb its).length) rest := by
  intro fuel d p rest hwf hf hfuel h
  cases its with
  | nil =>
    simp only [encItemsT, List.nil_append, List.length_nil, Nat.add_zero, readCount] at h ⊢
    exact ⟨trivial, h⟩
  | cons kv its =>
    obtain ⟨k, v⟩ := kv
    simp only [encItemsT, WFItems, FitsItems, needItems, List.append_assoc] at h hwf hf hfuel
    obtain ⟨rk, h⟩ := readKey_step hwf.1 hf.1 h
    obtain ⟨r0, h⟩ := readTag_step h
    obtain ⟨r1, h⟩ := decBody_val tb v fuel d _ (encItemsT tb its ++ rest) hwf.2.1 hf.2.1 (by omega) h
    obtain ⟨r2, h⟩ := decBody_items tb its fuel d _ rest hwf.2.2 hf.2.2 (by omega) h
    have hv : tagged (decBody tb fuel) d (p + (keyT tb k).length) =
        .ok (v, p + (keyT tb k).length + 4 + (encT tb v).length) := by
      unfold tagged; rw [rbind_ok r0]; exact r1
    have ht : keyed tb (decBody tb fuel) d p = .ok ((k, v), p + (keyT tb k).length + 4 + (encT tb v).length) := by
      unfold keyed; rw [rbind_ok rk, rbind_ok hv]; rfl
    simp only [List.length_cons, readCount, ht, r2, encItemsT]
    simp only [List.length_append, Tag.length_bytes, Nat.add_assoc] at h ⊢
    exact ⟨trivial, h⟩
end

/-! ### the fuel `dec` supplies is enough -/

mutual
theorem need_le (tb : Tables) (v : DVal) : need v ≤ (encT tb v).length + 1 := by
  cases v with
  | list t items =>
    have := needList_le tb items
    simp only [need, encT, List.length_append, length_beBytes]; omega
  | desc t nm cid items =>
    have := needItems_le tb items
    simp only [need, encT, List.length_append, length_beBytes]; omega
  | objArray c nm cid items =>
    have := needItems_le tb items
    simp only [need, encT, List.length_append, length_beBytes]; omega
  | _ => simp only [need]; omega
theorem needList_le (tb : Tables) (vs : List DVal) : needList vs ≤ (encListT tb vs).length := by
  cases vs with
  | nil => simp [needList]
  | cons v vs =>
    have := need_le tb v
    have := needList_le tb vs
    simp only [needList, encListT, List.length_append, Tag.length_bytes]; omega
theorem needItems_le (tb : Tables) (its : Items) : needItems its ≤ (encItemsT tb its).length := by
  cases its with
  | nil => simp [needItems]
  | cons kv its =>
    obtain ⟨k, v⟩ := kv
    have := need_le tb v
    have := needItems_le tb its
    simp only [needItems, encItemsT, List.length_append, Tag.length_bytes]; omega
end

theorem dec_at {tb : Tables} {v : DVal} (hwf : WF tb v) (hf : Fits tb v) {d : B} {p : Nat} {rest : B}
    (h : At d p (encT tb v ++ rest)) :
    dec tb v.tag d p = .ok (v, p + (encT tb v).length) ∧ At d (p + (encT tb v).length) rest := by
  unfold dec
  apply decBody_val tb v _ d p rest hwf hf _ h
  have h1 := need_le tb v
  have h2 := h.left.bound
  omega

theorem readBody_at {tb : Tables} {nm : Str} {cid : Key} {items : Items}
    (hnm : StrWF nm) (fnm : StrFits nm) (hcid : KeyWF tb cid) (fcid : KeyFits tb cid)
    (hlen : items.length < 4294967296) (hnd : KeysNodup items) (hwf : WFItems tb items) (hf : FitsItems tb items)
    {d : B} {p : Nat} {rest : B} (h : At d p (bodyT tb nm cid items ++ rest)) :
    readBody tb (decBody tb (d.length + 1)) d p = .ok ((nm, cid, items), p + (bodyT tb nm cid items).length) ∧
      At d (p + (bodyT tb nm cid items).length) rest := by
  apply readBody_step _ hnm fnm hcid fcid hlen hnd h
  intro d' p' rest' h'
  apply decBody_items tb items _ d' p' rest' hwf hf _ h'
  have h1 := needItems_le tb items
  have h2 := h.left.bound
  simp only [bodyT, List.length_append] at h2
  omega

/-! ### the `written` accumulator -/

theorem wKey_eq (tb : Tables) (k : Key) : wKey tb k = (keyT tb k, (keyT tb k).length) := by
  simp only [wKey, wBytes_eq, wSeq_eq, keyT]

theorem wStr_eq (s : Str) : wStr s = (strT s, (strT s).length) := by
  simp only [wStr, wBytes_eq, wSeq_eq, wPad_eq, padAmount_one, zeros, List.replicate_zero, strT,
    List.length_append]
  simp [W.seq]

mutual
theorem encW_eq (tb : Tables) (v : DVal) : encW tb v = (encT tb v, (encT tb v).length) := by
  cases v with
  | list t items =>
    simp only [encW, encT, encListW_eq tb items, wBytes_eq, wSeq_eq]
  | desc t nm cid items =>
    simp only [encW, encT, encItemsW_eq tb items, wBytes_eq, wSeq_eq, wStr_eq, wKey_eq, List.append_assoc]
  | objArray c nm cid items =>
    simp only [encW, encT, encItemsW_eq tb items, wBytes_eq, wSeq_eq, wStr_eq, wKey_eq, List.append_assoc]
  | raw t data =>
    simp only [encW, encT, wBytes_eq, wLenBlock_eq]
  | _ => simp only [encW, encT, wBytes_eq, wSeq_eq, wStr_eq, wKey_eq, List.append_assoc]
theorem encListW_eq (tb : Tables) (vs : List DVal) : encListW tb vs = (encListT tb vs, (encListT tb vs).length) := by
  cases vs with
  | nil => rfl
  | cons v vs =>
    simp only [encListW, encListT, encW_eq tb v, encListW_eq tb vs, wBytes_eq, wSeq_eq, List.append_assoc]
theorem encItemsW_eq (tb : Tables) (its : Items) : encItemsW tb its = (encItemsT tb its, (encItemsT tb its).length) := by
  cases its with
  | nil => rfl
  | cons kv its =>
    obtain ⟨k, v⟩ := kv
    simp only [encItemsW, encItemsT, encW_eq tb v, encItemsW_eq tb its, wBytes_eq, wSeq_eq, wKey_eq, List.append_assoc]
end

theorem bodyW_eq (tb : Tables) (nm : Str) (cid : Key) (items : Items) :
    bodyW tb nm cid items = (bodyT tb nm cid items, (bodyT tb nm cid items).length) := by
  simp only [bodyW, bodyT, encItemsW_eq, wBytes_eq, wSeq_eq, wStr_eq, wKey_eq, List.append_assoc]

end PsdVerif.Descriptor
