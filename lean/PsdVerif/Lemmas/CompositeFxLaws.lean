/-
Effect-carrying trees: overlays as extra sources at node level, fill layers as pixel layers, irrelevance of
`force`, no-op laws with effects, and the witnesses for the variants that fail.
-/
import PsdVerif.Lemmas.CompositeFxSim

namespace PsdVerif.Composite

/-! ### a layer with effects = the layer without them, then one ordinary source per effect -/

def Fx.strip (fx : Fx) : Fx := { fx with overlays := [], strokeFx := [] }

/-- the same layer without its own overlay and stroke effects (children and clip layers keep theirs) -/
def FxNode.stripFx : FxNode → FxNode
  | .leaf pr fx src stroke clips => .leaf pr fx.strip src stroke clips
  | .group pr fx pt children clips => .group pr fx.strip pt children clips
  | .adjustment pr => .adjustment pr

/-- `apply` returns early: hidden, outside the viewport, or a clipping layer handled by its base -/
def propsSkipped (V : Rect) (cc : Bool) (pr : Props) : Bool :=
  !pr.visible || decide (intersect V pr.bbox = Rect.zero) || (!cc && pr.clipping && pr.hasClipTarget)

/-- the effect sources of a layer in the state it meets: none when `apply` skips it, else one per overlay effect with
`shape * shape_e`, `alpha * shape_e * opacity` (the layer's shape and alpha after masks and layer opacity, before fill
opacity), then one per stroke effect -/
def nodeFxSrcs (B : Mode → Color → Color → Color) (force : Bool) (V : Rect) (x y : Int) (cc : Bool) (st : PState) :
    FxNode → List PSrc
  | .adjustment _ => []
  | .leaf pr fx src _ _ =>
    if propsSkipped V cc pr then []
    else fxSrcs force V x y pr fx (leafShape force V x y pr fx src) (leafShape force V x y pr fx src)
  | .group pr fx pt children _ =>
    if propsSkipped V cc pr then []
    else
      let sub := applyFxList B force (intersect V pr.bbox) x y
        (PState.init (if pr.knockout then st.c0 else st.c) (if pr.knockout then st.a0 else st.a) (!pt)) children
      let inside := (intersect V pr.bbox).contains x y
      fxSrcs force V x y pr fx (if inside then sub.sg else 0) (if inside then sub.ag else 0)

theorem finishFx_strip (B : Mode → Color → Color → Color) (force : Bool) (V : Rect) (x y : Int) (st : PState) (pr : Props)
    (fx : Fx) (color : Color) (shape alpha : Rat) :
    finishFx B force V x y st pr fx color shape alpha
      = applySrcs B (finishFx B force V x y st pr fx.strip color shape alpha) (fxSrcs force V x y pr fx shape alpha) := by
  rw [finishFx_eq, finishFx_eq]
  have e : fxSrcs force V x y pr fx.strip shape alpha = [] := by simp [fxSrcs, Fx.strip]
  rw [e]
  rfl

theorem applyFxNode_strip (B : Mode → Color → Color → Color) (force : Bool) (V : Rect) (x y : Int) (cc : Bool) (st : PState)
    (n : FxNode) :
    applyFxNode B force V x y cc st n
      = applySrcs B (applyFxNode B force V x y cc st n.stripFx) (nodeFxSrcs B force V x y cc st n) := by
  cases n with
  | adjustment pr => simp [applyFxNode, FxNode.stripFx, nodeFxSrcs, applySrcs]
  | leaf pr fx src stroke clips =>
    unfold FxNode.stripFx nodeFxSrcs propsSkipped applyFxNode
    by_cases h1 : pr.visible = true <;> by_cases h2 : intersect V pr.bbox = Rect.zero <;>
      by_cases h3 : (!cc && pr.clipping && pr.hasClipTarget) = true <;>
      simp only [h1, h2, h3, Bool.not_true, Bool.not_false, Bool.false_or, Bool.or_false, Bool.or_true, Bool.true_or,
        decide_true, decide_false, Bool.false_eq_true, if_true, if_false, applySrcs]
    exact finishFx_strip B force V x y st pr fx _ _ _
  | group pr fx pt children clips =>
    unfold FxNode.stripFx nodeFxSrcs propsSkipped applyFxNode
    by_cases h1 : pr.visible = true <;> by_cases h2 : intersect V pr.bbox = Rect.zero <;>
      by_cases h3 : (!cc && pr.clipping && pr.hasClipTarget) = true <;>
      simp only [h1, h2, h3, Bool.not_true, Bool.not_false, Bool.false_or, Bool.or_false, Bool.or_true, Bool.true_or,
        decide_true, decide_false, Bool.false_eq_true, if_true, if_false, applySrcs]
    exact finishFx_strip B force V x y st pr fx _ _ _

/-! ### a fill layer with a full vector mask is a pixel layer of that colour -/

/-- the pixel layer that carries a fill layer's colour and shape as pixels: no fill, no vector mask -/
def asPixelSrc (src : ObjSrc) : ObjSrc :=
  { hasArr := true, pixColor := src.fillColor, pixShape := src.fillShape, fillColor := white, fillShape := 0 }

def asPixelFx (fx : Fx) : Fx := { fx with flags := Flags.plain true }

theorem fill_leaf_eq_pixel_leaf (B : Mode → Color → Color → Color) (force : Bool) (V : Rect) (x y : Int) (cc : Bool)
    (st : PState) (pr : Props) (fx : Fx) (src : ObjSrc) (stroke : Option VStroke) (clips : List FxNode)
    (hV : V.contains x y = true) (hfill : useFill force fx.flags = true)
    (hvm : useVectorMask force fx.flags = true → fx.vmBox.contains x y = true ∧ fx.vmValue = 1) :
    applyFxNode B force V x y cc st (.leaf pr fx src stroke clips)
      = applyFxNode B force V x y cc st (.leaf pr (asPixelFx fx) (asPixelSrc src) stroke clips) := by
  have hm : maskFactorsFx force pr fx V x y = maskFactorsFx force pr (asPixelFx fx) V x y := by
    unfold maskFactorsFx vmaskFactor
    have e2 : useVectorMask force (asPixelFx fx).flags = false := by simp [asPixelFx, useVectorMask, Flags.plain]
    rw [e2]
    by_cases h : useVectorMask force fx.flags = true
    · obtain ⟨hb, hv⟩ := hvm h
      rw [h, pasteAt_eq V _ x y hV, hb, hv]; simp
    · simp [h]
  have hc : leafColor force V x y pr fx src = leafColor force V x y pr (asPixelFx fx) (asPixelSrc src) := by
    unfold leafColor
    have e2 : useFill force (asPixelFx fx).flags = false := by simp [asPixelFx, useFill, Flags.plain]
    rw [hfill, e2]; simp [asPixelSrc]
  have hs : leafShape force V x y pr fx src = leafShape force V x y pr (asPixelFx fx) (asPixelSrc src) := by
    unfold leafShape
    have e2 : useFill force (asPixelFx fx).flags = false := by simp [asPixelFx, useFill, Flags.plain]
    rw [hfill, e2]; simp [asPixelSrc]
  unfold applyFxNode
  rw [hc, hs]
  unfold finishFx
  rw [hm]
  rfl

/-! ### `force` does not matter for layers without fill and vector mask -/

/-- neither of the decisions that read `force` can come out differently -/
def Flags.forceFree (f : Flags) : Prop := f.hasFill = false ∧ f.vmaskEnabled = false

mutual
def forceFree : FxNode → Prop
  | .leaf _ fx _ _ clips => fx.flags.forceFree ∧ listForceFree clips
  | .group _ fx _ children clips => fx.flags.vmaskEnabled = false ∧ listForceFree children ∧ listForceFree clips
  | .adjustment _ => True
def listForceFree : List FxNode → Prop
  | [] => True
  | n :: ns => forceFree n ∧ listForceFree ns
end

theorem finishFx_force (B : Mode → Color → Color → Color) (V : Rect) (x y : Int) (st : PState) (pr : Props) (fx : Fx)
    (h : fx.flags.vmaskEnabled = false) (color : Color) (shape alpha : Rat) :
    finishFx B true V x y st pr fx color shape alpha = finishFx B false V x y st pr fx color shape alpha := by
  unfold finishFx maskFactorsFx vmaskFactor useVectorMask
  simp [h]

mutual
theorem applyFxNode_force (B : Mode → Color → Color → Color) (V : Rect) (x y : Int) (cc : Bool) (st : PState) :
    (n : FxNode) → forceFree n → applyFxNode B true V x y cc st n = applyFxNode B false V x y cc st n
  | .adjustment _, _ => by unfold applyFxNode; rfl
  | .leaf pr fx src stroke clips, h => by
    obtain ⟨⟨hf, hv⟩, hc⟩ := h
    unfold applyFxNode
    have e1 : leafColor true V x y pr fx src = leafColor false V x y pr fx src := by simp [leafColor, useFill, hf]
    have e2 : leafShape true V x y pr fx src = leafShape false V x y pr fx src := by simp [leafShape, useFill, hf]
    have hcl : ∀ s, applyFxClips B true V x y s clips = applyFxClips B false V x y s clips :=
      fun s => applyFxClips_force B V x y s clips hc
    simp only [e1, e2, hcl, finishFx_force B V x y _ pr fx hv]
  | .group pr fx pt children clips, h => by
    obtain ⟨hv, hch, hc⟩ := h
    unfold applyFxNode
    have hcl : ∀ s, applyFxClips B true V x y s clips = applyFxClips B false V x y s clips :=
      fun s => applyFxClips_force B V x y s clips hc
    have hl : ∀ V' s, applyFxList B true V' x y s children = applyFxList B false V' x y s children :=
      fun V' s => applyFxList_force B V' x y s children hch
    simp only [hcl, hl, finishFx_force B V x y _ pr fx hv]

theorem applyFxList_force (B : Mode → Color → Color → Color) (V : Rect) (x y : Int) (st : PState) :
    (ns : List FxNode) → listForceFree ns → applyFxList B true V x y st ns = applyFxList B false V x y st ns
  | [], _ => by unfold applyFxList; rfl
  | n :: rest, h => by
    unfold applyFxList
    rw [applyFxNode_force B V x y false st n h.1, applyFxList_force B V x y _ rest h.2]

theorem applyFxClips_force (B : Mode → Color → Color → Color) (V : Rect) (x y : Int) (st : PState) :
    (ns : List FxNode) → listForceFree ns → applyFxClips B true V x y st ns = applyFxClips B false V x y st ns
  | [], _ => by unfold applyFxClips; rfl
  | n :: rest, h => by
    unfold applyFxClips
    rw [applyFxNode_force B V x y true st n h.1, applyFxClips_force B V x y _ rest h.2]
end

/-! ### zero opacity kills the overlays and the stroke effects -/

/-- a run of sources that all have zero alpha leaves alpha and colour alone -/
theorem applySrcs_zero_alpha (B : Mode → Color → Color → Color) {st : PState} (hst : Inv st) (ss : List PSrc)
    (hok : ∀ s ∈ ss, s.Ok) (hz : ∀ s ∈ ss, s.alpha = 0 ∧ s.ko = false) :
    (applySrcs B st ss).ag = st.ag ∧ (applySrcs B st ss).a = st.a ∧ (st.a ≠ 0 → ∀ ch, (applySrcs B st ss).c ch = st.c ch) := by
  induction ss generalizing st with
  | nil => exact ⟨rfl, rfl, fun _ _ => rfl⟩
  | cons s ss ih =>
    obtain ⟨z1, z2⟩ := hz s (List.mem_cons_self ..)
    have hs := hok s (List.mem_cons_self ..)
    have hstep := applySource_zero_alpha (B s.mode) st hst s.color s.shape
    have hinv : Inv (applySource (B s.mode) st s.color s.shape 0 false) := by
      have := applySource_inv (bl := B s.mode) hst hs false
      rw [z1] at this; exact this
    obtain ⟨e1, e2, e3⟩ := ih hinv (fun t ht => hok t (List.mem_cons_of_mem _ ht)) (fun t ht => hz t (List.mem_cons_of_mem _ ht))
    unfold applySrcs
    rw [z1, z2]
    obtain ⟨s1, s2, s3⟩ := hstep
    refine ⟨e1.trans s1, e2.trans s2, ?_⟩
    intro ha ch
    rw [e3 (by rw [s2]; exact ha) ch, s3 ha ch]

/-- **Zero opacity with effects**: every source of the layer — its own, one per overlay, one per stroke effect — has
alpha 0: the overlays are painted with the layer's `alpha`, which carries the layer opacity, and the stroke effect's
opacity is multiplied by the layer opacity. -/
theorem finishFx_zero_opacity (B : Mode → Color → Color → Color) (force : Bool) (V : Rect) (x y : Int) {st : PState}
    (hst : Inv st) {pr : Props} {fx : Fx} (hp : PropsOk pr) (hf : FxOk fx) (hko : pr.knockout = false) (hop : pr.opacity = 0)
    {color : Color} {shape alpha : Rat} (hc : ColorOk color) (ha0 : 0 ≤ alpha) (has : alpha ≤ shape)
    (hs1 : shape ≤ 1) :
    let r := finishFx B force V x y st pr fx color shape alpha
    r.ag = st.ag ∧ r.a = st.a ∧ (st.a ≠ 0 → ∀ ch, r.c ch = st.c ch) := by
  intro r
  have hr : r = applySrcs B st (ownSrc force V x y pr fx color shape alpha :: fxSrcs force V x y pr fx shape alpha) :=
    finishFx_eq ..
  rw [hr]
  apply applySrcs_zero_alpha B hst
  · intro s hs
    rcases List.mem_cons.1 hs with rfl | h
    · exact ownSrc_ok force hp hf V x y hc ha0 has hs1
    · exact fxSrcs_ok force hp hf V x y ha0 has hs1 s h
  · intro s hs
    rcases List.mem_cons.1 hs with rfl | h
    · simp [ownSrc, maskedAlpha, hop, hko]
    · unfold fxSrcs at h
      rcases List.mem_append.1 h with h | h
      · obtain ⟨e, _, rfl⟩ := List.mem_map.1 h
        simp [overlaySrc, maskedAlpha, hop]
      · obtain ⟨f, _, rfl⟩ := List.mem_map.1 h
        simp [strokeFxSrc, hop]

/-- the variant in which the overlays are painted with an alpha that omits the layer opacity
(`alpha *= shape_mask * opacity_mask`, the constant factors applied to the layer's own source only) -/
def finishFxOpacityOmitted (B : Mode → Color → Color → Color) (force : Bool) (V : Rect) (x y : Int) (st : PState) (pr : Props)
    (fx : Fx) (color : Color) (shape alpha : Rat) : PState :=
  let m := maskFactorsFx force pr fx V x y
  let shape1 := shape * m.1
  let alpha1 := alpha * (m.1 * m.2)
  let st1 := applySource (B pr.mode) st color (shape1 * pr.fill) (alpha1 * (pr.fill * pr.opacity)) pr.knockout
  applyStrokeFx B V pr.bbox x y pr.opacity (applyOverlays B V pr.bbox x y shape1 alpha1 st1 fx.overlays) fx.strokeFx

theorem applyFxList_append (B : Mode → Color → Color → Color) (force : Bool) (V : Rect) (x y : Int) (st : PState)
    (a b : List FxNode) :
    applyFxList B force V x y st (a ++ b) = applyFxList B force V x y (applyFxList B force V x y st a) b := by
  induction a generalizing st with
  | nil => simp [applyFxList]
  | cons n a ih => simp only [List.cons_append, applyFxList]; exact ih _

/-! ### witnesses -/

def allNormalFx : Mode → Color → Color → Color := fun _ => blNormal

def unitRectFx : Rect := ⟨0, 0, 1, 1⟩

/-- visible, covering the pixel, no mask, normal blending, with the given opacity -/
def plainProps (opacity : Rat) : Props :=
  { visible := true, bbox := unitRectFx, opacity := opacity, fill := 1, hasMask := false, maskBBox := Rect.zero, maskValue := 1,
    maskBackground := 0, maskDensity := 1, mode := 0, knockout := false, clipping := false, hasClipTarget := false }

/-- a black colour overlay at full opacity -/
def blackOverlay : Overlay := { color := black, hasShape := false, shape := 1, opacity := 1, mode := 0 }

def overlayFx : Fx := { Fx.plain true with overlays := [blackOverlay] }

/-- a black stroke effect whose drawn shape is 1 in the unit viewport and 0 in any other -/
def viewportStroke : StrokeFx :=
  { color := black, shape := fun V => if V = unitRectFx then 1 else 0, opacity := 1, mode := 0 }

def strokeFxOnly (s : StrokeFx) : Fx := { Fx.plain true with strokeFx := [s] }

def constStroke : StrokeFx := { color := black, shape := fun _ => 1, opacity := 1, mode := 0 }

def whiteSrc : ObjSrc := { hasArr := true, pixColor := white, pixShape := 1, fillColor := white, fillShape := 0 }

end PsdVerif.Composite
