/-
C03 — the specification walker accepts what the model writer emits: tagged blocks, layer records,
channel image data, layer info, the layer and mask section, image data, the whole file.
-/
import PsdVerif.Lemmas.Walker1

namespace PsdVerif.Walker
open PsdVerif PsdVerif.Codec PsdVerif.Psd

/-! ### tagged blocks -/

theorem walkBlock_step {sect : String} {v align : Nat} {even : Bool} (ha : align = 1 ∨ align = 2 ∨ align = 4)
    {t : TaggedBlock} (hwf : t.WF v) (hk : KeyAgrees v t) (he : even = true → t.data.length % 2 = 0)
    {d : B} {p : Nat} {rest : B} (hat : At d p (t.encT v align ++ rest)) :
    posOf (walkBlock sect v align even d p) = some (p + (t.encT v align).length) ∧
      At d (p + (t.encT v align).length) rest := by
  obtain ⟨hsig, hkl, hf⟩ := hwf
  have hright := hat.right
  have hl : ∀ s ∈ G.blockSignatures, s.length = 4 ∧ Spec.blockSignatures.contains s = true := by decide
  have hs : pack4s t.signature = t.signature := pack4s_of_length (hl _ hsig).1
  have hk' : pack4s t.key = t.key := pack4s_of_length hkl
  have hw : (if v = 2 ∧ t.key ∈ Spec.psbEightByteKeys then 8 else 4) = tbLenW v t.key := by
    unfold tbLenW
    by_cases h2 : v = 2
    · have := hk h2
      by_cases hb : t.key ∈ G.bigKeys
      · simp [h2, hb, this.mp hb]
      · have hb' : t.key ∉ Spec.psbEightByteKeys := fun h => hb (this.mpr h)
        simp [h2, hb, hb']
    · simp [h2]
  have hpad : padAmount (t.data.length + (0 + tbLenW v t.key)) align = padAmount t.data.length align :=
    padAmount_add_mul _ _ _ (tbLenW_mod v t.key align ha)
  have hlen : (t.encT v align).length = 4 + 4 + tbLenW v t.key + (t.data.length + padAmount t.data.length align) := by
    rw [TaggedBlock.length_encT, length_lenBlockT, hpad]; omega
  have heven : (!even || t.data.length % 2 == 0) = true := by
    cases even with
    | false => rfl
    | true => simp [he rfl]
  simp only [TaggedBlock.encT, lenBlockT, zeros, List.replicate_zero, List.nil_append, List.append_assoc, hs, hk',
    hpad] at hat
  obtain ⟨e1, hat⟩ := wBytes_step (sect := sect) hat (hl _ hsig).1
  obtain ⟨e2, hat⟩ := wBytes_step (sect := sect) hat hkl
  obtain ⟨e3, hat⟩ := wU_step (sect := sect) hat hf
  rw [← List.append_assoc] at hat
  obtain ⟨e4, hat⟩ := skip_step (sect := sect) (n := t.data.length + padAmount t.data.length align) hat (by simp)
  refine ⟨?_, hright⟩
  simp only [walkBlock, bind, Except.bind, e1, (hl _ hsig).2, check_true, e2, hw, e3, heven, e4, posOf, hlen,
    Option.some.injEq]
  omega

/-- the blocks, then at most 3 bytes of filler up to `stop` -/
theorem walkBlocksLoop_at {sect : String} {v align : Nat} {even : Bool} (ha : align = 1 ∨ align = 2 ∨ align = 4)
    (ts : List TaggedBlock) (hwf : ∀ t ∈ ts, t.WF v) (hk : ∀ t ∈ ts, KeyAgrees v t)
    (he : even = true → ∀ t ∈ ts, t.data.length % 2 = 0)
    {d : B} {p : Nat} {rest : B} (hat : At d p (taggedBlocksT v align ts ++ rest)) (stop : Nat)
    (h1 : p + (taggedBlocksT v align ts).length ≤ stop) (h2 : stop < p + (taggedBlocksT v align ts).length + 4)
    (fuel : Nat) (hf : ts.length < fuel) :
    posOf (walkBlocksLoop sect v align even stop fuel d p) = some stop := by
  unfold taggedBlocksT at hat h1 h2
  induction ts generalizing p fuel with
  | nil =>
    cases fuel with
    | zero => omega
    | succ fuel =>
      simp only [listT, List.length_nil, Nat.add_zero] at h1 h2
      have c1 : ¬ p + 12 ≤ stop := by omega
      have c2 : ¬ p + 4 ≤ stop := by omega
      simp only [walkBlocksLoop, if_neg c1, if_neg c2, posOf]
  | cons t ts ih =>
    cases fuel with
    | zero => omega
    | succ fuel =>
      simp only [listT, List.append_assoc, List.length_append] at hat h1 h2
      have hge := t.length_ge v align
      obtain ⟨e1, hat'⟩ := walkBlock_step (sect := sect) ha (hwf t (by simp)) (hk t (by simp))
        (fun h => he h t (by simp)) hat
      obtain ⟨rg, e1⟩ := posOf_ok e1
      have e2 := ih (fun x hx => hwf x (by simp [hx])) (fun x hx => hk x (by simp [hx]))
        (fun h x hx => he h x (by simp [hx])) hat' (by omega) (by omega) fuel (by simpa using hf)
      obtain ⟨rgs, e2⟩ := posOf_ok e2
      have c1 : p + 12 ≤ stop := by omega
      have c2 : p + (t.encT v align).length ≤ stop := by omega
      simp only [walkBlocksLoop, if_pos c1, e1, if_pos c2, e2, posOf]

/-! ### layer records -/

theorem lenW_eq_secW {v : Nat} (hv : v = 1 ∨ v = 2) : lenW v = secW v := by
  rcases hv with h | h <;> subst h <;> rfl

theorem walkChannelInfos_step {v : Nat} (hv : v = 1 ∨ v = 2) (cis : List ChannelInfo) (hf : ∀ c ∈ cis, c.Fits v)
    {d : B} {p : Nat} {rest : B} (hat : At d p (listT (ChannelInfo.encT v) cis ++ rest)) :
    walkChannelInfos v cis.length d p =
        .ok (cis.map ChannelInfo.length, p + (listT (ChannelInfo.encT v) cis).length) ∧
      At d (p + (listT (ChannelInfo.encT v) cis).length) rest := by
  induction cis generalizing p with
  | nil => exact ⟨by simp [walkChannelInfos, listT], by simpa [listT] using hat⟩
  | cons c cis ih =>
    simp only [listT, ChannelInfo.encT, i16T, List.append_assoc] at hat
    obtain ⟨f1, f2⟩ := hf c (by simp)
    obtain ⟨e1, hat⟩ := wU_step (sect := "layer-record") hat (i16ToNat_lt c.id)
    rw [← lenW_eq_secW hv] at hat f2
    obtain ⟨e2, hat⟩ := wU_step (sect := "layer-record") hat f2
    obtain ⟨e3, hat⟩ := ih (fun x hx => hf x (by simp [hx])) hat
    have hl : (listT (ChannelInfo.encT v) (c :: cis)).length =
        2 + lenW v + (listT (ChannelInfo.encT v) cis).length := by
      simp only [listT, List.length_append, ChannelInfo.length_encT, lenW_eq_secW hv]
    rw [hl]
    refine ⟨?_, by simpa only [Nat.add_assoc] using hat⟩
    simp only [List.length_cons, walkChannelInfos, e1, e2, e3, List.map_cons]
    simp only [Nat.add_assoc]

theorem lenBlockT_simple (w : Nat) (body : B) : lenBlockT 0 w 1 body = beBytes w body.length ++ body := by
  simp [lenBlockT, zeros, padAmount_one]

theorem maskT_shape (m : Option MaskData) (hf : maskFits m) :
    ∃ body : B, maskT m = beBytes 4 body.length ++ body ∧ body.length < 256 ^ 4 := by
  cases m with
  | none => exact ⟨[], by simp [maskT], by decide⟩
  | some m => exact ⟨m.bodyT, by simp [maskT, MaskData.encT, lenBlockT_simple], hf.2⟩

theorem check_eq (sect reason : String) (c : Bool) (d : B) (p : Nat) :
    check sect reason c d p = if c = true then .ok ((), p) else .error ⟨sect, p, reason⟩ := rfl

theorem walkRecord_step {v : Nat} (hv : v = 1 ∨ v = 2) {r : LayerRecord} (hwf : r.WF v) (hsh : RecordShaped v r)
    {d : B} {p : Nat} {rest : B} (hat : At d p (r.encT v ++ rest)) :
    navOf (walkRecord v d p) = some (r.channelInfo.map ChannelInfo.length, p + (r.encT v).length) ∧
      At d (p + (r.encT v).length) rest := by
  have hright := hat.right
  refine ⟨?_, hright⟩
  obtain ⟨hvalid, hfits, _, _, _, ht⟩ := hwf
  obtain ⟨f1, f2, f3, f4, f5, f6, f7, f8, f9, f10, f11, f12, f13⟩ := hfits
  obtain ⟨v1, v2, _, _⟩ := hvalid
  have hl : ∀ s ∈ G.recordSignatures, s.length = 4 ∧ (s == Spec.layerSignature) = true := by decide
  have hb : ∀ s ∈ G.blendModes, s.length = 4 := by decide
  have hs : pack4s r.signature = r.signature := pack4s_of_length (hl _ v1).1
  obtain ⟨mbody, hm, hmf⟩ := maskT_shape r.maskData f9
  have hrg : r.blendingRanges.encT = beBytes 4 r.blendingRanges.bodyT.length ++ r.blendingRanges.bodyT := by
    simp [BlendingRanges.encT, lenBlockT_simple]
  have hrf : r.blendingRanges.bodyT.length < 256 ^ 4 := f10.2.2
  have hlen := LayerRecord.length_encT v r
  rw [length_lenBlockT, padAmount_one] at hlen
  have hk : padAmount ((r.extraUnpaddedT v).length) 2 < 2 := padAmount_lt _ 2 (by decide)
  have hxl : (r.extraT v).length = (r.extraUnpaddedT v).length + padAmount ((r.extraUnpaddedT v).length) 2 := by
    simp only [LayerRecord.extraT, List.length_append, length_zeros]
  have hul : (r.extraUnpaddedT v).length = (4 + mbody.length) + (4 + r.blendingRanges.bodyT.length) +
      (1 + (r.name.length + padAmount (1 + r.name.length) 4)) + (taggedBlocksT v 1 r.taggedBlocks).length := by
    simp only [LayerRecord.extraUnpaddedT, List.length_append, hm, hrg, length_beBytes, length_pascalT]; omega
  -- the byte string, regrouped the way the walker consumes it
  have hbytes : r.encT v ++ rest =
      (i32T r.top ++ i32T r.left ++ i32T r.bottom ++ i32T r.right) ++ (beBytes 2 r.channelInfo.length ++
      (listT (ChannelInfo.encT v) r.channelInfo ++ (r.signature ++
      ((pack4s r.blendMode ++ beBytes 1 r.opacity ++ beBytes 1 r.clipping ++ beBytes 1 r.flags.toNat ++ zeros 1) ++
      (beBytes 4 (r.extraT v).length ++
      (beBytes 4 mbody.length ++ (mbody ++ (beBytes 4 r.blendingRanges.bodyT.length ++ (r.blendingRanges.bodyT ++
      (beBytes 1 r.name.length ++ ((r.name ++ zeros (padAmount (1 + r.name.length) 4)) ++
      (taggedBlocksT v 1 r.taggedBlocks ++ (zeros (padAmount ((r.extraUnpaddedT v).length) 2) ++ rest))))))))))))) := by
    simp only [LayerRecord.encT, LayerRecord.fixedT, lenBlockT, LayerRecord.extraT, LayerRecord.extraUnpaddedT, hm, hrg,
      pascalT, hs, padAmount_one, zeros, List.replicate_zero, List.append_nil, List.append_assoc, List.nil_append]
  rw [hbytes] at hat
  obtain ⟨e1, hat⟩ := skip_step (sect := "layer-record") (n := 16) hat (by simp [length_i32T])
  obtain ⟨e2, hat⟩ := wU_step (sect := "layer-record") hat f5
  obtain ⟨e3, hat⟩ := walkChannelInfos_step hv r.channelInfo f6 hat
  obtain ⟨e4, hat⟩ := wBytes_step (sect := "layer-record") hat (hl _ v1).1
  obtain ⟨e5, hat⟩ := skip_step (sect := "layer-record") (n := 8) hat
    (by simp [length_pack4s, length_beBytes, length_zeros])
  obtain ⟨e6, hat⟩ := wU_step (sect := "layer-record") hat f13
  have hb6 := hat.bound
  simp only [List.length_append, length_beBytes, length_zeros] at hb6
  obtain ⟨e8, hat⟩ := wU_step (sect := "layer-mask-data") hat hmf
  obtain ⟨e9, hat⟩ := skip_step (sect := "layer-mask-data") hat rfl
  obtain ⟨e10, hat⟩ := wU_step (sect := "layer-blending-ranges") hat hrf
  obtain ⟨e11, hat⟩ := skip_step (sect := "layer-blending-ranges") hat rfl
  obtain ⟨e12, hat⟩ := wU_step (sect := "layer-name") hat (by simpa using f11)
  obtain ⟨e13, hat⟩ := skip_step (sect := "layer-name") (n := r.name.length + padAmount (1 + r.name.length) 4) hat
    (by simp [length_zeros])
  have hcount : r.taggedBlocks.length < (r.extraT v).length + 1 := by
    have := length_listT_le (TaggedBlock.encT v 1) r.taggedBlocks 1 (fun t _ => by have := t.length_ge v 1; omega)
    unfold taggedBlocksT at hul; omega
  have e14 := walkBlocksLoop_at (sect := "layer-tagged-blocks") (v := v) (align := 1) (even := true) (Or.inl rfl)
    r.taggedBlocks ht.1 (fun t ht' => (hsh t ht').1) (fun _ t ht' => (hsh t ht').2) hat
    (p + 16 + 2 + (listT (ChannelInfo.encT v) r.channelInfo).length + 4 + 8 + 4 + (r.extraT v).length)
    (by omega) (by omega) ((r.extraT v).length + 1) hcount
  obtain ⟨rg, e14⟩ := posOf_ok e14
  have e7 : skip "layer-record" (r.extraT v).length d
      (p + 16 + 2 + (listT (ChannelInfo.encT v) r.channelInfo).length + 4 + 8 + 4) =
      .ok ((), p + 16 + 2 + (listT (ChannelInfo.encT v) r.channelInfo).length + 4 + 8 + 4 + (r.extraT v).length) := by
    unfold skip
    rw [if_pos (by omega)]
  simp only [walkRecord, bind, Except.bind, e1, e2, e3, e4, (hl _ v1).2, check_true, e5, e6, e7, e8, e9, e10, e11,
    e12, e13, check_eq, decide_eq_true_eq, if_true]
  have c1 : p + 16 + 2 + (listT (ChannelInfo.encT v) r.channelInfo).length + 4 + 8 + 4 + 4 + mbody.length ≤
      p + 16 + 2 + (listT (ChannelInfo.encT v) r.channelInfo).length + 4 + 8 + 4 + (r.extraT v).length := by omega
  have c2 : p + 16 + 2 + (listT (ChannelInfo.encT v) r.channelInfo).length + 4 + 8 + 4 + 4 + mbody.length + 4 +
      r.blendingRanges.bodyT.length ≤
      p + 16 + 2 + (listT (ChannelInfo.encT v) r.channelInfo).length + 4 + 8 + 4 + (r.extraT v).length := by omega
  have c3 : p + 16 + 2 + (listT (ChannelInfo.encT v) r.channelInfo).length + 4 + 8 + 4 + 4 + mbody.length + 4 +
      r.blendingRanges.bodyT.length + 1 + (r.name.length + padAmount (1 + r.name.length) 4) ≤
      p + 16 + 2 + (listT (ChannelInfo.encT v) r.channelInfo).length + 4 + 8 + 4 + (r.extraT v).length := by omega
  simp only [if_pos c1, if_pos c2, if_pos c3]
  simp only [e14, navOf, Option.some.injEq, Prod.mk.injEq, true_and]
  omega

end PsdVerif.Walker
