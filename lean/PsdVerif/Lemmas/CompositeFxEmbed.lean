/-
`Model/CompositeFx.lean` is a conservative extension of `Model/Composite.lean`: on a plain tree
(embedded with no fill, no vector mask, no stroke, no effects) it computes exactly what `applyNode`
computes, whatever `force`.
-/
import PsdVerif.Lemmas.CompositeFx

namespace PsdVerif.Composite

theorem useFill_plain (force hp : Bool) : useFill force (Fx.plain hp).flags = false := by
  simp [useFill, Fx.plain, Flags.plain]

theorem useVectorMask_plain (force hp : Bool) : useVectorMask force (Fx.plain hp).flags = false := by
  simp [useVectorMask, Fx.plain, Flags.plain]

theorem finishFx_plain (B : Mode → Color → Color → Color) (force : Bool) (V : Rect) (x y : Int) (st : PState) (pr : Props)
    (hp : Bool) (color : Color) (shape alpha : Rat) :
    finishFx B force V x y st pr (Fx.plain hp) color shape alpha = finishApply B V x y st pr color shape alpha := by
  unfold finishFx finishApply maskFactorsFx vmaskFactor
  simp only [useVectorMask_plain, Bool.false_eq_true, if_false, mul_one]
  simp [Fx.plain, applyOverlays, applyStrokeFx]

mutual
theorem applyFxNode_embed (B : Mode → Color → Color → Color) (force : Bool) (V : Rect) (x y : Int) (cc : Bool) (st : PState) :
    (n : Node) → applyFxNode B force V x y cc st (embed n) = applyNode B V x y cc st n
  | .leaf pr hasPixels color shape clips => by
    unfold embed applyFxNode applyNode leafColor leafShape strokeObject
    simp only [useFill_plain, Bool.false_eq_true, if_false, finishFx_plain]
    have hcl : ∀ s, applyFxClips B force V x y s (embedList clips) = applyClips B V x y s clips :=
      fun s => applyFxClips_embed B force V x y s clips
    have he : (embedList clips).isEmpty = clips.isEmpty := by cases clips <;> simp [embedList]
    simp only [hcl, he]
  | .group pr passThrough children clips => by
    unfold embed applyFxNode applyNode
    simp only [finishFx_plain]
    have hcl : ∀ s, applyFxClips B force V x y s (embedList clips) = applyClips B V x y s clips :=
      fun s => applyFxClips_embed B force V x y s clips
    have hch : ∀ V' s, applyFxList B force V' x y s (embedList children) = applyList B V' x y s children :=
      fun V' s => applyFxList_embed B force V' x y s children
    have he : (embedList clips).isEmpty = clips.isEmpty := by cases clips <;> simp [embedList]
    simp only [hcl, hch, he]

theorem applyFxList_embed (B : Mode → Color → Color → Color) (force : Bool) (V : Rect) (x y : Int) (st : PState) :
    (ns : List Node) → applyFxList B force V x y st (embedList ns) = applyList B V x y st ns
  | [] => by unfold embedList applyFxList applyList; rfl
  | n :: rest => by
    unfold embedList applyFxList applyList
    rw [applyFxNode_embed B force V x y false st n, applyFxList_embed B force V x y _ rest]

theorem applyFxClips_embed (B : Mode → Color → Color → Color) (force : Bool) (V : Rect) (x y : Int) (st : PState) :
    (ns : List Node) → applyFxClips B force V x y st (embedList ns) = applyClips B V x y st ns
  | [] => by unfold embedList applyFxClips applyClips; rfl
  | n :: rest => by
    unfold embedList applyFxClips applyClips
    rw [applyFxNode_embed B force V x y true st n, applyFxClips_embed B force V x y _ rest]
end

theorem compositeFxDoc_embed (B : Mode → Color → Color → Color) (force : Bool) (V : Rect) (x y : Int) (color : Color)
    (alpha : Rat) (layers : List Node) :
    compositeFxDoc B force V x y color alpha (embedList layers) = compositeDoc B V x y color alpha layers := by
  unfold compositeFxDoc compositeDoc
  rw [applyFxList_embed]

mutual
theorem embed_ok : (n : Node) → nodeOk n → fxNodeOk (embed n)
  | .leaf pr hasPixels color shape clips, h => by
    obtain ⟨hp, hc, hs, hcl⟩ := h
    unfold embed
    exact ⟨hp, fxPlain_ok _, ⟨hc, hs, white_ok, unit01_zero⟩, trivial, embedList_ok clips hcl⟩
  | .group pr passThrough children clips, h => by
    obtain ⟨hp, hch, hcl⟩ := h
    unfold embed
    exact ⟨hp, fxPlain_ok _, embedList_ok children hch, embedList_ok clips hcl⟩
theorem embedList_ok : (ns : List Node) → listOk ns → fxListOk (embedList ns)
  | [], _ => by unfold embedList; trivial
  | n :: rest, h => by unfold embedList; exact ⟨embed_ok n h.1, embedList_ok rest h.2⟩
end

end PsdVerif.Composite
