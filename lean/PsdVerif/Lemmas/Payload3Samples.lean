/-
C01 payload classes, third batch — sample values for the non-vacuity examples and the witness theorems of
Props/C01Payload3.lean.
-/
import PsdVerif.Lemmas.Payload3Curves
import PsdVerif.Lemmas.Payload3Vector
import PsdVerif.Lemmas.Payload3Filter
import PsdVerif.Lemmas.Payload3Typed
import PsdVerif.Lemmas.PayloadSamples
import PsdVerif.Model.DescriptorTables

namespace PsdVerif.Payload3.Samples
open PsdVerif PsdVerif.Codec PsdVerif.Payload PsdVerif.Payload3

def rtb : Descriptor.Tables := Descriptor.realTables

def ri (zs : List Int) : Row := zs.map FV.int

/-! ### image resources -/

def slice (id origin : Int) (assoc : Option Row) (name : Payload.Str) (data : Option Descriptor.Block) : SliceV6 :=
  ⟨ri [id, 0, origin], assoc, name, ri [1], ri [0, 0, 10, 20], [104], [], [], [0x1F600], ri [1], [], ri [0, 3], ri [255, 1, 2, 3], data⟩

/-- two slices: origin 1 with its associated id and a descriptor, then one without either -/
def slicesV6 : SlicesV6 := ⟨ri [0, 0, 10, 20], [115], [slice 3 1 (some (ri [7])) [97] (some Descriptor.Samples.block), slice 4 0 none [] none]⟩
def slices : Slices := ⟨6, .v6 slicesV6⟩
def slices7 : Slices := ⟨7, .desc Descriptor.Samples.block⟩

def plain (id group : Int) (name : Payload.Str) : SliceV6 :=
  ⟨ri [id, group, 0], none, name, ri [0], ri [0, 0, 0, 0], [], [], [], [], ri [0], [], ri [0, 0], ri [0, 0, 0, 0], none⟩

/-- a slice without descriptor, then slice 16 with a long group id: the speculative descriptor read runs out of data -/
def slices16 : SlicesV6 := ⟨ri [0, 0, 0, 0], [], [plain 1 0 [], plain 16 1000 [], plain 3 0 []]⟩
/-- ... and with fields that happen to form a descriptor block (version 16, empty name, 4-byte class id, no items) -/
def slices16bad : SlicesV6 := ⟨ri [0, 0, 0, 0], [], [plain 1 0 [], plain 16 0 [0, 0], plain 3 0 []]⟩

def sliceOrigin1NoId : SliceV6 := slice 3 1 none [] none

def versionInfo : Row × Payload.Str × Payload.Str × Row := (ri [1, 1], [112, 115, 100], [0x3042], ri [1])
def printFlags9 : PrintFlags := ⟨ri [1, 0, 0, 0, 0, 0, 0, 1], some (ri [1])⟩
def printFlags8 : PrintFlags := ⟨ri [1, 0, 0, 0, 0, 0, 0, 1], none⟩
def displayInfo : Row × List Row := (ri [1], [ri [0, 65535, 0, 0, 0, 100, 0], ri [2, 1, 2, 3, 4, 50, 2]])
def halftones : List Row := [ri [3538944, 1, 2949120, 1, 0, 1], ri [0, 2, -65536, 6, 1, 0]]

def s8BIM : B := [56, 66, 73, 77]

/-- version info, slices (version 6, typed down to the per-slice descriptor), a raw plug-in resource -/
def typedResources : List TRes := [
  ⟨s8BIM, 1057, [], .typed .versionInfo versionInfo⟩,
  ⟨s8BIM, 1050, [115, 108], .typed .slices slices⟩,
  ⟨s8BIM, 1037, [], .typed .integer (ri [30])⟩,
  ⟨s8BIM, 4000, [97], .raw [1, 2, 3]⟩]

/-- the deep sample document of Props/C01Payload.lean (16-bit PSB, layers in `Lr16`) with typed resources -/
def resDoc : ResPSD :=
  ⟨Payload.Samples.deepDoc.header, [], typedResources, Payload.Samples.deepDoc.layerAndMask, Payload.Samples.deepDoc.imageData⟩

/-- raw bytes under a registered id, a typed payload under another id than its class's -/
def rawUnderTypedKey : TRes := ⟨s8BIM, 1057, [], .raw [0, 0, 0, 1]⟩
def typedUnderOtherKey : TRes := ⟨s8BIM, 1050, [], .typed .integer (ri [30])⟩

/-! ### adjustments -/

def rec5 (n : Int) : Row := ri [n, 255, 0, 255, 100]
def levels29 : Levels := ⟨2, none, (List.range 29).map (fun (i : Nat) => rec5 (i : Int))⟩
def levels31 : Levels := ⟨2, some 3, (List.range 31).map (fun (i : Nat) => rec5 (i : Int))⟩
def levels30NoTrailer : Levels := ⟨2, none, (List.range 30).map (fun (i : Nat) => rec5 (i : Int))⟩

def curves1 : Curves :=
  ⟨false, 1, 5, .curves [[ri [0, 0], ri [255, 255]], [ri [0, 10], ri [128, 100], ri [255, 250]]],
    some ⟨4, [⟨ri [0], .pairs [ri [0, 0], ri [255, 255]]⟩, ⟨ri [1], .pairs []⟩]⟩⟩
def curves1NoExtra : Curves := ⟨false, 1, 1, .curves [[ri [0, 0], ri [255, 255]]], none⟩
def curves4 : Curves := ⟨false, 4, 1, .curves [[ri [0, 0], ri [255, 255]]], none⟩
def curves4Marker : Curves := { curves4 with extra := some ⟨4, []⟩ }

def photo3 : PhotoFilter := ⟨3, ri [1, 2, 3], [], ri [25, 1]⟩
def photo2 : PhotoFilter := ⟨2, [], ri [0, 1, 2, 3, 4], ri [25, 0]⟩
def photo3Colour : PhotoFilter := ⟨3, ri [1, 2, 3], ri [0, 1, 2, 3, 4], ri [25, 1]⟩

def gradient3 : GradientMap.Val :=
  ((ri [3, 0, 1], [76, 110, 114, 32]), [71], [ri [0, 50, 0, 65535, 0, 0, 0], ri [4096, 50, 0, 0, 0, 65535, 0]],
    [ri [0, 50, 255], ri [4096, 50, 255]], ri [2, 4096, 32, 0], ri [0, 0, 0], ri [2048, 3], ri [0, 0, 0, 0], ri [32768, 32768, 32768, 32768], [])
def gradient1 : GradientMap.Val :=
  ((ri [1, 0, 0], GradientMap.gcls), [], [], [], ri [2, 0, 32, 0], ri [0, 0, 0], ri [0, 0], ri [0, 0, 0, 0], ri [0, 0, 0, 0], [])
/-- version 1 with another method than the default: the method is not stored -/
def gradient1Lnr : GradientMap.Val := ((ri [1, 0, 0], [76, 110, 114, 32]), gradient1.2)

def hue (n : Nat) : Row × Row × Row × List (Row × Row) :=
  (ri [2, 1], ri [0, 25, 0], ri [-10, 0, 10], (List.range n).map (fun _ => (ri [315, 345, 15, 45], ri [0, 0, 0])))

/-! ### vector data -/

def knot (s : Nat) : PItem := .knot s (ri [16777216, 0, 8388608, -8388608, 0, 2147483647])
/-- fill rule, initial fill, a closed subpath of three knots, an open subpath holding a nested subpath -/
def path : List PItem := [
  .fill, .initial (ri [1]),
  .subpath 0 [.int 1, .int 1, .int 0, .int 0, .bytes (List.replicate 10 0)] [knot 1, knot 2, knot 1],
  .subpath 3 [.int (-1), .int 1, .int 0, .int 7, .bytes (List.replicate 10 9)]
    [knot 4, .subpath 0 [.int 1, .int 1, .int 0, .int 0, .bytes (List.replicate 10 0)] [knot 2], .clipboard (ri [0, 0, 16777216, 16777216, 1207959552])]]
def vectorMask : VectorMaskSetting := ⟨ri [3, 2], path⟩

/-! ### filter effects -/

def effect : FilterEffect :=
  ([53, 97], ri [1], (ri [0, 0, 8, 8], ri [8, 1], [⟨1, some (0, [1, 2, 3])⟩, ⟨0, none⟩, ⟨1, none⟩]), some ⟨1, ri [0, 0, 4, 4], 1, [9]⟩)
def effectNoExtra : FilterEffect := ([], ri [0], (ri [0, 0, 0, 0], ri [8, 0], [⟨0, none⟩, ⟨0, none⟩]), none)
def effects : Row × List FilterEffect := (ri [3], [effect, effectNoExtra])
def channelUnwrittenContent : FEChannel := ⟨0, some (1, [7])⟩

end PsdVerif.Payload3.Samples
