/-
C01 payload unit 7 (continued) — the typed image resource, the resource section made of typed resources, the document
with typed resources (Model/Payload3Typed.lean).
-/
import PsdVerif.Lemmas.Payload3Resources
import PsdVerif.Lemmas.PayloadLayerInfo2
import PsdVerif.Model.Payload3Typed

namespace PsdVerif.Payload3
open PsdVerif PsdVerif.Codec PsdVerif.Psd PsdVerif.Payload PsdVerif.Payload.PCodec

theorem RClass.rt (tb : Descriptor.Tables) : ∀ c : RClass, (c.codec tb).RtAtEnd
  | .resolutionInfo => ResolutionInfo.rt.atEnd | .alphaNamesPascal => AlphaNamesPascal.rt | .pascalString => PascalString.rt
  | .color => Payload.Color.rt.atEnd | .printFlags => PrintFlags.rt | .halftoneScreens => HalftoneScreens.rt
  | .transferFunctions => TransferFunctions.rt | .shortInteger => ShortInteger.rt.atEnd | .layerGroupInfo => LayerGroupInfo.rt
  | .gridGuidesInfo => GridGuidesInfo.rt.atEnd | .thumbnailV4 => Thumbnail.rt.atEnd | .byte => Byte.rt.atEnd
  | .thumbnail => Thumbnail.rt.atEnd | .integer => Integer.rt.atEnd | .alphaNamesUnicode => AlphaNamesUnicode.rt
  | .slices => Slices.rt tb | .stringElement => (StringElement.rt 1 1).atEnd | .alphaIdentifiers => AlphaIdentifiers.rt
  | .urlList => URLList.rt.atEnd | .versionInfo => VersionInfo.rt.atEnd | .printScale => PrintScale.rt.atEnd
  | .pixelAspectRatio => PixelAspectRatio.rt.atEnd | .descriptorBlock => (DescriptorResource.rt tb).atEnd
  | .layerSelectionIDs => LayerSelectionIDs.rt.atEnd | .layerGroupEnabledIDs => LayerGroupEnabledIDs.rt
  | .displayInfo => DisplayInfo.rt | .printFlagsInfo => PrintFlagsInfo.rt.atEnd

theorem RClass.count (tb : Descriptor.Tables) : ∀ c : RClass, (c.codec tb).Count
  | .resolutionInfo => ResolutionInfo.count | .alphaNamesPascal => AlphaNamesPascal.count | .pascalString => PascalString.count
  | .color => Payload.Color.count | .printFlags => PrintFlags.count | .halftoneScreens => HalftoneScreens.count
  | .transferFunctions => TransferFunctions.count | .shortInteger => ShortInteger.count | .layerGroupInfo => LayerGroupInfo.count
  | .gridGuidesInfo => GridGuidesInfo.count | .thumbnailV4 => Thumbnail.count | .byte => Byte.count
  | .thumbnail => Thumbnail.count | .integer => Integer.count | .alphaNamesUnicode => AlphaNamesUnicode.count
  | .slices => Slices.count tb | .stringElement => StringElement.count 1 1 | .alphaIdentifiers => AlphaIdentifiers.count
  | .urlList => URLList.count | .versionInfo => VersionInfo.count | .printScale => PrintScale.count
  | .pixelAspectRatio => PixelAspectRatio.count | .descriptorBlock => DescriptorResource.count tb
  | .layerSelectionIDs => LayerSelectionIDs.count | .layerGroupEnabledIDs => LayerGroupEnabledIDs.count
  | .displayInfo => DisplayInfo.count | .printFlagsInfo => PrintFlagsInfo.count

namespace TRes
variable (tb : Descriptor.Tables)

theorem dataP_eq (x : ResData) : x.encP tb = (x.encT tb, (x.encT tb).length) := by
  cases x with
  | raw b => rfl
  | typed c v => exact RClass.count tb c v

theorem encP_eq (r : TRes) : r.encP tb = (r.encT tb, (r.encT tb).length) := by
  simp only [encP, encT, flat, Resource.encT, dataP_eq, wBytes_eq, wPascal_eq, wLenBlock_eq, wSeq_eq]

theorem typedData_encT {r : TRes} (hwf : r.WF tb) : typedData tb r.key (r.data.encT tb) = .ok r.data := by
  obtain ⟨_, hfit, hshape⟩ := hwf
  obtain ⟨sig, key, name, data⟩ := r
  cases data with
  | raw b =>
    simp only at hshape
    simp only [typedData, hshape, ResData.encT]
  | typed c v =>
    simp only at hshape hfit
    have e := RClass.rt tb c v hshape.2 hfit ((c.codec tb).encT v) 0 (At.self _) (by omega)
    simp only [typedData, hshape.1, ResData.encT, e]

theorem dec_at {r : TRes} (hwf : r.WF tb) {d : B} {p : Nat} (hat : At d p (r.encT tb)) :
    dec tb d p = .ok (r, p + (r.encT tb).length) := by
  have hty := typedData_encT tb hwf
  obtain ⟨⟨hsig, f1, f2, f3⟩, _, _⟩ := hwf
  have hl : ∀ s ∈ G.resourceSignatures, s.length = 4 := by decide
  simp only [flat] at hsig f1 f2 f3
  have hs : pack4s r.signature = r.signature := pack4s_of_length (hl _ hsig)
  have hlen : (r.encT tb).length = 4 + 2 + (pascalT 2 r.name).length + (lenBlockT 0 4 2 (r.data.encT tb)).length := by
    simp only [encT, flat, Resource.encT, List.length_append, length_pack4s, length_beBytes]
  rw [hlen]
  simp only [encT, flat, Resource.encT, List.append_assoc] at hat
  obtain ⟨e1, hat⟩ := readN_step hat (length_pack4s _)
  obtain ⟨e2, hat⟩ := readU_step hat f1
  obtain ⟨e3, hat⟩ := readPascal_step hat f2
  have e4 := readLenBlock_at hat f3 (by decide)
  simp only [dec, bind, Except.bind, e1, e2, e3, e4, hs, hty]
  rw [if_pos hsig]
  simp only [Nat.add_assoc]

theorem length_ge (r : TRes) : 11 ≤ (r.encT tb).length := (r.flat tb).length_ge

end TRes

theorem listT_map_flat (tb : Descriptor.Tables) (rs : List TRes) :
    listT Resource.encT (rs.map (TRes.flat tb)) = listT (TRes.encT tb) rs := by
  induction rs with
  | nil => rfl
  | cons r rs ih => simp only [List.map_cons, listT, ih, TRes.encT]

theorem tresourcesDec_at (tb : Descriptor.Tables) {rs : List TRes} (hflat : resourcesWF (rs.map (TRes.flat tb)))
    (hwf : ∀ r ∈ rs, r.WF tb) {d : B} {p : Nat} (hat : At d p (tresourcesT tb rs)) :
    tresourcesDec tb d p = .ok (rs, p + (tresourcesT tb rs).length) := by
  obtain ⟨_, hnd, hf⟩ := hflat
  have hbody : resourcesBodyT (rs.map (TRes.flat tb)) = listT (TRes.encT tb) rs := listT_map_flat tb rs
  have hnd' : (rs.map TRes.key).Nodup := by
    have : (rs.map (TRes.flat tb)).map Resource.key = rs.map TRes.key := by
      simp only [List.map_map]; rfl
    rwa [this] at hnd
  unfold tresourcesT resourcesT at hat ⊢
  rw [hbody] at hat hf ⊢
  have e1 := readLenBlock_at hat hf (by decide)
  have e2 : readWhile (isReadable 4) (optItem (TRes.dec tb)) (listT (TRes.encT tb) rs) 0 =
      .ok (rs, 0 + (listT (TRes.encT tb) rs).length) := by
    apply readWhile_at (isReadable 4) (optItem (TRes.dec tb)) (TRes.encT tb) rs
    · intro r hr q hq
      refine ⟨isReadable_of_at hq (by have := TRes.length_ge tb r; omega), ?_⟩
      simp only [optItem, TRes.dec_at tb (hwf r hr) hq]
    · intro r _; have := TRes.length_ge tb r; omega
    · exact At.self _
    · exact isReadable_false (by omega)
  simp only [tresourcesDec, bind, Except.bind, e1, e2, odict_of_nodup TRes.key rs hnd']

namespace ResPSD
variable (tb : Descriptor.Tables)

theorem read_encT {pad : Nat} {x : ResPSD} (hwf : x.WF tb pad) :
    read tb (x.encT tb pad) 0 = .ok (x.refresh, (x.encT tb pad).length) := by
  obtain ⟨⟨⟨hh, hc, hr, hl, hi⟩, htb⟩, hres⟩ := hwf
  unfold encT DeepPSD.encT
  simp only [flat, DeepPSD.flat] at hh hc hr hl hi htb
  have hD0 : ((flat tb x).flat.encT pad) = x.header.encT ++ (colorModeT x.colorModeData ++ (tresourcesT tb x.resources ++
      ((x.layerAndMask.flat x.header.version).encT x.header.version pad ++ x.imageData.encT))) := by
    simp only [PSD.encT, DeepPSD.flat, flat, tresourcesT, List.append_assoc]
  generalize hD : (flat tb x).flat.encT pad = D at hD0 ⊢
  have hlen : D.length = x.header.encT.length + (colorModeT x.colorModeData).length + (tresourcesT tb x.resources).length +
      ((x.layerAndMask.flat x.header.version).encT x.header.version pad).length + x.imageData.encT.length := by
    rw [hD0]; simp only [List.length_append]; omega
  have hat : At D 0 (x.header.encT ++ (colorModeT x.colorModeData ++ (tresourcesT tb x.resources ++
      ((x.layerAndMask.flat x.header.version).encT x.header.version pad ++ x.imageData.encT)))) := by
    rw [← hD0]; exact At.self D
  have e1 := Header.dec_at hh hat.left
  have hat := hat.right
  have e2 := colorModeDec_at hc hat.left
  have hat := hat.right
  have e3 := tresourcesDec_at tb hr hres hat.left
  have hat := hat.right
  have hil := x.imageData.length_encT
  have e4 := DeepLam.dec_at hl htb hat.left
  have hat := hat.right
  have e5 := ImageData.dec_at_end hi hat (by omega)
  simp only [read, bind, Except.bind, e1, e2, e3, e4, e5]
  simp only [refresh]
  congr 2
  omega

theorem enc_ok {pad : Nat} {x : ResPSD} {bs : B} (h : enc tb pad x = .ok bs) : bs = x.encT tb pad := by
  unfold enc at h
  split at h
  · exact (DeepPSD.enc_ok h).1
  · cases h

theorem flat_refresh (x : ResPSD) : (x.refresh).flat tb = (x.flat tb).refresh := rfl

theorem enc_refresh (pad : Nat) (x : ResPSD) : enc tb pad x.refresh = enc tb pad x := by
  unfold enc
  have : payloadFits tb x.refresh ↔ payloadFits tb x := Iff.rfl
  simp only [this, flat_refresh, DeepPSD.enc_refresh]

end ResPSD

end PsdVerif.Payload3
