/-
C06 — safety of the skeleton reader, part 1: the framework and the primitives.

`Good k d p r` is the invariant every reader of `Model/Psd.lean` that does not seek satisfies:

  * success `(v, p')`: the cursor advanced by at least `k` bytes and it is still inside the stream
    (`p' ≤ d.length`) unless it did not move at all (`p' = p`: a lenient read at or behind the end);
  * failure `e`: `e` is one of the four ordinary exception classes (`Err.other`, the fuel
    exhaustion value of `readWhileFuel`, is not among them).

`Good.bind` composes it along a `do` block (the `k`s subtract: ask for what you need).
-/
import PsdVerif.Model.Psd

namespace PsdVerif.Safe
open PsdVerif PsdVerif.Codec PsdVerif.Psd

/-- the exception classes the skeleton reader can raise -/
def ordinary : List Err := [.ioError, .valueError, .assertionError, .overflowError]

def ErrIn {α : Type} (r : Except Err α) : Prop := ∀ e, r = .error e → e ∈ ordinary

def Good {α : Type} (k : Nat) (d : B) (p : Nat) (r : Except Err (α × Nat)) : Prop :=
  match r with
  | .ok (_, p') => p + k ≤ p' ∧ (p' ≤ d.length ∨ p' = p)
  | .error e => e ∈ ordinary

theorem io_mem : Err.ioError ∈ ordinary := by decide
theorem value_mem : Err.valueError ∈ ordinary := by decide
theorem assertion_mem : Err.assertionError ∈ ordinary := by decide
theorem overflow_mem : Err.overflowError ∈ ordinary := by decide
theorem other_not_mem : Err.other ∉ ordinary := by decide

/-! ### `ErrIn` -/

theorem ErrIn.ok {α : Type} (a : α) : ErrIn (.ok a : Except Err α) := by
  intro e h; cases h

theorem ErrIn.error {α : Type} {e : Err} (h : e ∈ ordinary) : ErrIn (.error e : Except Err α) := by
  intro e' h'; cases h'; exact h

theorem ErrIn.bind {α β : Type} {m : Except Err β} {f : β → Except Err α}
    (hm : ErrIn m) (hf : ∀ x, m = .ok x → ErrIn (f x)) : ErrIn (m >>= f) := by
  cases m with
  | error e =>
    intro e' h
    have h' : (Except.error e : Except Err α) = .error e' := h
    cases h'
    exact hm e rfl
  | ok x => exact hf x rfl

theorem ErrIn.ne_other {α : Type} {r : Except Err α} (h : ErrIn r) : r ≠ .error .other := by
  intro e; exact other_not_mem (h _ e)

/-! ### `Good` -/

theorem Good.errIn {α : Type} {k : Nat} {d : B} {p : Nat} {r : Except Err (α × Nat)} (h : Good k d p r) : ErrIn r := by
  intro e he; subst he; exact h

theorem Good.of_ok {α : Type} {k : Nat} {d : B} {p : Nat} {r : Except Err (α × Nat)} {v : α} {p' : Nat}
    (h : Good k d p r) (he : r = .ok (v, p')) : p + k ≤ p' ∧ (p' ≤ d.length ∨ p' = p) := by
  subst he; exact h

/-- the form asked for in DESIGN §3 (`sound`): a reader that does not seek stays inside the stream -/
theorem Good.cursor {α : Type} {k : Nat} {d : B} {p : Nat} {r : Except Err (α × Nat)} {v : α} {p' : Nat}
    (h : Good k d p r) (he : r = .ok (v, p')) (hp : p ≤ d.length) : p ≤ p' ∧ p' ≤ d.length := by
  have := h.of_ok he; omega

theorem Good.ok_self {α : Type} {k : Nat} {d : B} {p : Nat} (v : α) (hk : k = 0 := by decide) :
    Good k d p (.ok (v, p)) := by
  subst hk; exact ⟨Nat.le_refl _, Or.inr rfl⟩

theorem Good.error {α : Type} {k : Nat} {d : B} {p : Nat} {e : Err} (h : e ∈ ordinary) :
    Good k d p (.error e : Except Err (α × Nat)) := h

theorem Good.weaken {α : Type} {k k' : Nat} {d : B} {p : Nat} {r : Except Err (α × Nat)}
    (h : Good k' d p r) (hk : k ≤ k' := by decide) : Good k d p r := by
  cases r with
  | error e => exact h
  | ok x =>
    obtain ⟨v, p'⟩ := x
    have := h.of_ok rfl
    exact ⟨by omega, this.2⟩

/-- sequencing on the same stream -/
theorem Good.bind {α β : Type} {k k₁ : Nat} {d : B} {p : Nat} {m : Except Err (β × Nat)}
    {f : β × Nat → Except Err (α × Nat)} (hm : Good k₁ d p m)
    (hf : ∀ v p₁, m = .ok (v, p₁) → Good (k - k₁) d p₁ (f (v, p₁))) : Good k d p (m >>= f) := by
  cases m with
  | error e => exact hm
  | ok x =>
    obtain ⟨v, p₁⟩ := x
    have h1 := hm.of_ok rfl
    have h2 := hf v p₁ rfl
    show Good k d p (f (v, p₁))
    cases hr : f (v, p₁) with
    | error e => rw [hr] at h2; exact h2
    | ok y =>
      obtain ⟨w, p₂⟩ := y
      have h3 := h2.of_ok hr
      exact ⟨by omega, by omega⟩

/-- a nested run (`with io.BytesIO(block) as f`): only its exception class matters -/
theorem Good.bind_nested {α β : Type} {k : Nat} {d : B} {p : Nat} {m : Except Err β}
    {f : β → Except Err (α × Nat)} (hm : ErrIn m)
    (hf : ∀ x, m = .ok x → Good k d p (f x)) : Good k d p (m >>= f) := by
  cases m with
  | error e => exact hm e rfl
  | ok x => exact hf x rfl

theorem Good.ite {α : Type} {k : Nat} {d : B} {p : Nat} {c : Prop} [Decidable c] {a b : Except Err (α × Nat)}
    (ha : c → Good k d p a) (hb : ¬ c → Good k d p b) : Good k d p (if c then a else b) := by
  split
  · exact ha ‹_›
  · exact hb ‹_›

/-! ### primitives -/

theorem readN_ok {n : Nat} {d : B} {p : Nat} {x : B} {p' : Nat} (h : readN n d p = .ok (x, p')) :
    p' = p + n ∧ p + n ≤ d.length ∧ x.length = n := by
  unfold readN at h
  split at h
  · cases h
    refine ⟨rfl, ‹_›, ?_⟩
    simp only [List.length_take, List.length_drop]; omega
  · cases h

theorem readN_good (n : Nat) (d : B) (p : Nat) : Good n d p (readN n d p) := by
  cases h : readN n d p with
  | error e =>
    unfold readN at h
    split at h
    · cases h
    · cases h; exact io_mem
  | ok x =>
    obtain ⟨v, p'⟩ := x
    have := readN_ok h
    exact ⟨by omega, by omega⟩

/-- `fp.read(n)` returns at most `n` bytes and nothing that is not in the stream -/
theorem readUpTo_ok {n : Nat} {d : B} {p : Nat} {x : B} {p' : Nat} (h : readUpTo n d p = .ok (x, p')) :
    p' = p + x.length ∧ x.length ≤ d.length - p ∧ x.length ≤ n ∧ x.length = min n (d.length - p) := by
  unfold readUpTo at h
  cases h
  refine ⟨rfl, ?_, ?_, ?_⟩ <;> simp only [List.length_take, List.length_drop] <;> omega

theorem readUpTo_ne_error (n : Nat) (d : B) (p : Nat) (e : Err) : readUpTo n d p ≠ .error e := by
  unfold readUpTo; intro h; cases h

theorem readUpTo_good (n : Nat) (d : B) (p : Nat) : Good 0 d p (readUpTo n d p) := by
  cases h : readUpTo n d p with
  | error e => exact absurd h (readUpTo_ne_error n d p e)
  | ok x =>
    obtain ⟨v, p'⟩ := x
    have := readUpTo_ok h
    exact ⟨by omega, by omega⟩

theorem readAll_ok {d : B} {p : Nat} {x : B} {p' : Nat} (h : readAll d p = .ok (x, p')) :
    p' = p + x.length ∧ x.length = d.length - p := by
  unfold readAll at h
  cases h
  exact ⟨rfl, by simp only [List.length_drop]⟩

theorem readAll_good (d : B) (p : Nat) : Good 0 d p (readAll d p) := by
  cases h : readAll d p with
  | error e => unfold readAll at h; cases h
  | ok x =>
    obtain ⟨v, p'⟩ := x
    have := readAll_ok h
    exact ⟨by omega, by omega⟩

theorem readPy_good (n : Int) (d : B) (p : Nat) : Good 0 d p (readPy n d p) := by
  unfold readPy
  split
  · exact readAll_good d p
  · split
    · exact overflow_mem
    · exact readUpTo_good _ d p

theorem readU_ok {w : Nat} {d : B} {p : Nat} {n : Nat} {p' : Nat} (h : readU w d p = .ok (n, p')) :
    p' = p + w ∧ p + w ≤ d.length := by
  unfold readU at h
  split at h
  · rename_i bs q hq
    cases h
    have := readN_ok hq
    omega
  · cases h

theorem readU_good (w : Nat) (d : B) (p : Nat) : Good w d p (readU w d p) := by
  have g := readN_good w d p
  unfold readU
  split
  · rename_i bs q hq
    exact g.of_ok hq
  · rename_i e he
    exact g.errIn e he

theorem readI16_good (d : B) (p : Nat) : Good 2 d p (readI16 d p) := by
  have g := readU_good 2 d p
  unfold readI16
  split
  · rename_i n q hq
    exact g.of_ok hq
  · rename_i e he
    exact g.errIn e he

theorem readI32_good (d : B) (p : Nat) : Good 4 d p (readI32 d p) := by
  have g := readU_good 4 d p
  unfold readI32
  split
  · rename_i n q hq
    exact g.of_ok hq
  · rename_i e he
    exact g.errIn e he

theorem readPadding_good (size divisor : Nat) (d : B) (p : Nat) : Good 0 d p (readPadding size divisor d p) := by
  have g := readUpTo_good (padAmount size divisor) d p
  unfold readPadding
  split
  · rename_i x q hq
    exact g.of_ok hq
  · rename_i e he
    exact g.errIn e he

/-- `read_length_block`: the block returned is a copy of bytes of the stream, whatever length was declared -/
theorem readLenBlock_ok {skip w pad : Nat} {d : B} {p : Nat} {x : B} {p' : Nat}
    (h : readLenBlock skip w pad d p = .ok (x, p')) :
    p + skip + w + x.length ≤ p' ∧ p' ≤ d.length := by
  unfold readLenBlock at h
  split at h
  · cases h
  · rename_i y p0 h0
    split at h
    · cases h
    · rename_i n p1 h1
      split at h
      · cases h
      · split at h
        · cases h
        · rename_i x' p2 h2
          split at h
          · cases h
          · split at h
            · cases h
            · rename_i u p3 h3
              cases h
              have a0 := readN_ok h0
              have a1 := readU_ok h1
              have a2 := readUpTo_ok h2
              have a3 := (readPadding_good n pad d p2).of_ok h3
              omega

theorem readLenBlock_good (skip w pad : Nat) (d : B) (p : Nat) :
    Good (skip + w) d p (readLenBlock skip w pad d p) := by
  cases h : readLenBlock skip w pad d p with
  | ok x =>
    obtain ⟨v, p'⟩ := x
    have := readLenBlock_ok h
    exact ⟨by omega, by omega⟩
  | error e =>
    unfold readLenBlock at h
    split at h
    · rename_i e0 h0
      cases h; exact (readN_good skip d p).errIn _ h0
    · rename_i y p0 h0
      split at h
      · rename_i e1 h1
        cases h; exact (readU_good w d p0).errIn _ h1
      · rename_i n p1 h1
        split at h
        · cases h; exact overflow_mem
        · split at h
          · rename_i e2 h2
            cases h; exact (readUpTo_good n d p1).errIn _ h2
          · rename_i x' p2 h2
            split at h
            · cases h; exact io_mem
            · split at h
              · rename_i e3 h3
                cases h; exact (readPadding_good n pad d p2).errIn _ h3
              · cases h

theorem readPascal_ok {pad : Nat} {d : B} {p : Nat} {x : B} {p' : Nat}
    (h : readPascal pad d p = .ok (x, p')) : p + 1 + x.length ≤ p' ∧ p' ≤ d.length := by
  unfold readPascal at h
  split at h
  · cases h
  · rename_i n p1 h1
    split at h
    · cases h
    · rename_i x' p2 h2
      split at h
      · cases h
      · split at h
        · cases h
        · rename_i u p3 h3
          cases h
          have a1 := readU_ok h1
          have a2 := readUpTo_ok h2
          have a3 := (readPadding_good (p2 - p) pad d p2).of_ok h3
          omega

theorem readPascal_good (pad : Nat) (d : B) (p : Nat) : Good 1 d p (readPascal pad d p) := by
  cases h : readPascal pad d p with
  | ok x =>
    obtain ⟨v, p'⟩ := x
    have := readPascal_ok h
    exact ⟨by omega, by omega⟩
  | error e =>
    unfold readPascal at h
    split at h
    · rename_i e1 h1
      cases h; exact (readU_good 1 d p).errIn _ h1
    · rename_i n p1 h1
      split at h
      · rename_i e2 h2
        cases h; exact (readUpTo_good n d p1).errIn _ h2
      · rename_i x' p2 h2
        split at h
        · cases h; exact assertion_mem
        · split at h
          · rename_i e3 h3
            cases h; exact (readPadding_good (p2 - p) pad d p2).errIn _ h3
          · cases h

/-! ### loops -/

theorem optItem_good {α : Type} {item : R α} {k : Nat} {d : B} {p : Nat} (h : Good k d p (item d p)) :
    Good k d p (optItem item d p) := by
  unfold optItem
  split
  · rename_i a q hq
    exact h.of_ok hq
  · rename_i e he
    exact h.errIn e he

theorem optItem_some {α : Type} {item : R α} {d : B} {p : Nat} {o : Option α} {p' : Nat}
    (h : optItem item d p = .ok (o, p')) : ∃ a, o = some a ∧ item d p = .ok (a, p') := by
  unfold optItem at h
  split at h
  · rename_i a q hq
    cases h; exact ⟨a, rfl, hq⟩
  · cases h

/-- a `for _ in range(n)` loop whose items are `Good` is `Good`; it read one item per ≥ `k` bytes -/
theorem readCount_good {α : Type} {item : R α} {k : Nat} {d : B} (hi : ∀ p, Good k d p (item d p)) (n : Nat) (p : Nat) :
    Good 0 d p (readCount item n d p) := by
  induction n generalizing p with
  | zero => exact Good.ok_self _ rfl
  | succ n ih =>
    unfold readCount
    have g := hi p
    split
    · rename_i e he
      exact g.errIn e he
    · rename_i a p1 h1
      have g1 := g.of_ok h1
      have g2 := ih p1
      split
      · rename_i e he
        exact g2.errIn e he
      · rename_i as p2 h2
        have g3 := g2.of_ok h2
        exact ⟨by omega, by omega⟩

theorem readCount_length {α : Type} {item : R α} {k : Nat} {d : B} (hi : ∀ p, Good k d p (item d p)) (n : Nat) (p : Nat)
    {vs : List α} {p' : Nat} (h : readCount item n d p = .ok (vs, p')) :
    vs.length = n ∧ p + k * n ≤ p' := by
  induction n generalizing p vs p' with
  | zero => unfold readCount at h; cases h; exact ⟨rfl, by omega⟩
  | succ n ih =>
    unfold readCount at h
    split at h
    · cases h
    · rename_i a p1 h1
      have g1 := (hi p).of_ok h1
      split at h
      · cases h
      · rename_i as p2 h2
        cases h
        have g2 := ih p1 h2
        refine ⟨by simp [g2.1], ?_⟩
        rw [Nat.mul_succ]; omega

theorem readFor_good {α β : Type} {item : β → R α} {d : B} (xs : List β)
    (hi : ∀ x ∈ xs, ∀ p, Good 0 d p (item x d p)) (p : Nat) :
    Good 0 d p (readFor item xs d p) := by
  induction xs generalizing p with
  | nil => exact Good.ok_self _ rfl
  | cons x xs ih =>
    unfold readFor
    have g := hi x (by simp) p
    split
    · rename_i e he
      exact g.errIn e he
    · rename_i a p1 h1
      have g1 := g.of_ok h1
      have g2 := ih (fun y hy => hi y (by simp [hy])) p1
      split
      · rename_i e he
        exact g2.errIn e he
      · rename_i as p2 h2
        have g3 := g2.of_ok h2
        exact ⟨by omega, by omega⟩

/-- The `while cond(fp): …` loops terminate before the fuel runs out: `cond` only holds inside the stream,
an item that returns a value has consumed at least one byte, an item that returns `None` ends the loop.
Hence `Err.other` (the `fuel = 0` value) is never produced when `fuel > remaining bytes`. -/
theorem readWhileFuel_good {α : Type} {cond : B → Nat → Bool} {item : R (Option α)} {d : B}
    (hc : ∀ p, cond d p = true → p < d.length)
    (hi : ∀ p, Good 0 d p (item d p))
    (hs : ∀ p a p', item d p = .ok (some a, p') → p < p')
    (fuel : Nat) (p : Nat) (hf : d.length - p < fuel) :
    Good 0 d p (readWhileFuel cond item fuel d p) := by
  induction fuel generalizing p with
  | zero => omega
  | succ fuel ih =>
    unfold readWhileFuel
    split
    · rename_i hcond
      have hlt := hc p hcond
      have g := hi p
      split
      · rename_i e he
        exact g.errIn e he
      · rename_i p1 h1
        exact g.of_ok h1
      · rename_i a p1 h1
        have g1 := g.of_ok h1
        have hp := hs p a p1 h1
        have g2 := ih p1 (by omega)
        split
        · rename_i e he
          exact g2.errIn e he
        · rename_i as p2 h2
          have g3 := g2.of_ok h2
          exact ⟨by omega, by omega⟩
    · exact Good.ok_self _ rfl

theorem readWhile_good {α : Type} {cond : B → Nat → Bool} {item : R (Option α)} {d : B}
    (hc : ∀ p, cond d p = true → p < d.length)
    (hi : ∀ p, Good 0 d p (item d p))
    (hs : ∀ p a p', item d p = .ok (some a, p') → p < p') (p : Nat) :
    Good 0 d p (readWhile cond item d p) := by
  unfold readWhile
  exact readWhileFuel_good hc hi hs _ p (by omega)

theorem isReadable_lt {n : Nat} (hn : 1 ≤ n) {d : B} {p : Nat} (h : isReadable n d p = true) : p < d.length := by
  simp only [isReadable, decide_eq_true_eq] at h; omega

theorem taggedCond_lt {endPos : Option Nat} {d : B} {p : Nat} (h : taggedCond endPos d p = true) : p < d.length := by
  simp only [taggedCond, Bool.and_eq_true] at h
  exact isReadable_lt (by decide) h.1

end PsdVerif.Safe
