/-
C09 — an accepted operation changes the lists exactly like the plain-list operation.
-/
import PsdVerif.Model.TreeSpec
import PsdVerif.Lemmas.TreeRefuse

namespace PsdVerif.TreeSt
open Spec

theorem abs_eq {s : State} {n : Nat} {k : Id → Kind} {l : Id → List Id}
    (h1 : s.next = n) (h2 : s.kind = k) (h3 : s.children = l) : abs s = ⟨n, k, l⟩ := by
  subst h1 h2 h3; rfl

theorem abs_congr {s s' : State} (h1 : s'.next = s.next) (h2 : s'.kind = s.kind) (h3 : s'.children = s.children) :
    abs s' = abs s := by
  unfold abs; rw [h1, h2, h3]

theorem SameTree.abs {s s' : State} (h : SameTree s s') : abs s' = abs s := abs_congr h.next h.kind h.children
theorem SameStruct.abs {s s' : State} (h : SameStruct s s') : abs s' = abs s := abs_congr h.next h.kind h.children

theorem abs_setChildren (s : State) (g : Id) (l : List Id) : abs (setChildren s g l) = (abs s).setList g l := rfl

theorem finishInsert_abs (cfg : Cfg) (s : State) (g : Id) (o : Out) : abs (finishInsert cfg s g o).1 = abs s :=
  abs_congr (finishInsert_frame cfg s g o).next (finishInsert_frame cfg s g o).kind (finishInsert_children cfg s g o)

theorem finishInsert_out {cfg : Cfg} {s : State} {g : Id} {o : Out}
    (h : (finishInsert cfg s g o).2.isError = false) : (finishInsert cfg s g o).2 = o := by
  unfold finishInsert at h ⊢
  split
  · rename_i hm; rw [hm] at h; cases h
  · rfl

theorem updateRecord_abs (cfg : Cfg) (s : State) (g : Id) : abs (updateRecord cfg s g) = abs s :=
  (updateRecord_same cfg s g).abs

/-- what the value of an operation has to be -/
def Agrees (o : Out) : Option Out → Prop
  | none => True
  | some o' => o = o'

/-- `r` is the plain-list result `t'` with value `v` -/
def Is (r : State × Out) (t' : S) (v : Option Out) : Prop := abs r.1 = t' ∧ Agrees r.2 v

/-! ### the list mutators -/

theorem opExtend_acc {cfg : Cfg} {s : State} {g : Id} {xs : List Id} (h : (opExtend cfg s g xs).2.isError = false) :
    Is (opExtend cfg s g xs) ((abs s).setList g ((abs s).lists g ++ xs)) (some .none) := by
  unfold opExtend at h ⊢
  split
  · rename_i r hr; rw [hr] at h; simp only at h; rw [refuse_isError] at h; cases h
  · rename_i hr; rw [hr] at h
    exact ⟨by rw [finishInsert_abs]; rfl, finishInsert_out h⟩

theorem opAppend_acc {cfg : Cfg} {s : State} {g x : Id} (h : (opAppend cfg s g x).2.isError = false) :
    Is (opAppend cfg s g x) ((abs s).setList g ((abs s).lists g ++ [x])) (some .none) := by
  unfold opAppend at h ⊢
  split
  · rename_i hx; rw [if_pos hx] at h; cases h
  · rename_i hx; rw [if_neg hx] at h; exact opExtend_acc h

theorem opInsert_acc {cfg : Cfg} {s : State} {g : Id} {k : Int} {x : Id} (h : (opInsert cfg s g k x).2.isError = false) :
    Is (opInsert cfg s g k x)
      ((abs s).setList g (insertAt ((abs s).lists g) (clampIdx ((abs s).lists g).length k) x)) (some .none) := by
  unfold opInsert at h ⊢
  split
  · rename_i r hr; rw [hr] at h; simp only at h; rw [refuse_isError] at h; cases h
  · rename_i hr; rw [hr] at h
    exact ⟨by rw [finishInsert_abs]; rfl, finishInsert_out h⟩

theorem opRemove_acc {cfg : Cfg} {s : State} {g x : Id} (h : (opRemove cfg s g x).2.isError = false) :
    x ∈ s.children g ∧ Is (opRemove cfg s g x) ((abs s).setList g (((abs s).lists g).erase x)) (some (.id g)) := by
  unfold opRemove finishRemove at h ⊢
  split
  · rename_i hx
    exact ⟨hx, by rw [updateRecord_abs]; rfl, rfl⟩
  · rename_i hx; rw [if_neg hx] at h; cases h

/-! ### detaching -/

theorem eraseAll_of_detached {s : State} {x : Id} (h : Detached s x) : (abs s).eraseAll x = abs s := by
  unfold S.eraseAll abs
  simp only
  congr 1
  funext c
  exact List.erase_of_not_mem (h c)

theorem eraseAll_of_listed {s : State} (i : Inv s) {p x : Id} (hx : x ∈ s.children p) :
    (abs s).eraseAll x = (abs s).setList p ((s.children p).erase x) := by
  unfold S.eraseAll S.setList abs
  simp only
  congr 1
  funext c
  unfold upd
  split
  · rename_i e; subst e; rfl
  · rename_i e
    exact List.erase_of_not_mem (fun hc => e (i.unique hc hx))

theorem detach_abs {cfg : Cfg} {s : State} (i : Inv s) {x p : Id} (hp : s.parent x = some p) :
    abs (detach cfg s x p).1 = (abs s).eraseAll x := by
  unfold detach
  split
  · rename_i hx
    rw [eraseAll_of_listed i hx]
    exact (opRemove_acc (opRemove_not_error_of_mem cfg s p x hx)).2.1
  · rename_i hx
    rw [eraseAll_of_detached]
    exact detached_of_not_listed_by_parent i (fun p' hp' => by rw [hp] at hp'; cases hp'; exact hx)

/-- the state after `if self in self.parent: self.parent.remove(self)` -/
def detached1 (cfg : Cfg) (s : State) (x : Id) : State × Out :=
  match s.parent x with
  | some p => if s.cont p = true then detach cfg s x p else (s, Out.none)
  | none => (s, Out.none)

theorem detached1_abs {cfg : Cfg} {s : State} (i : Inv s) (x : Id) : abs (detached1 cfg s x).1 = (abs s).eraseAll x := by
  unfold detached1
  cases hp : s.parent x with
  | none =>
    simp only
    rw [eraseAll_of_detached]
    exact detached_of_not_listed_by_parent i (fun p' hp' => by rw [hp] at hp'; cases hp')
  | some p =>
    simp only
    by_cases hcp : s.cont p = true
    · rw [if_pos hcp]; exact detach_abs i hp
    · rw [if_neg hcp]
      rw [eraseAll_of_detached]
      apply detached_of_not_listed_by_parent i
      intro p' hp' hx
      rw [hp] at hp'; cases hp'
      exact hcp (i.contOnly p (List.ne_nil_of_mem hx))

theorem detached1_not_error (cfg : Cfg) (s : State) (x : Id) : (detached1 cfg s x).2.isError = false := by
  unfold detached1
  split
  · split
    · exact detach_not_error cfg s x _
    · rfl
  · rfl

theorem opMoveToGroup_acc {cfg : Cfg} {s : State} (i : Inv s) {x g : Id}
    (h : (opMoveToGroup cfg s x g).2.isError = false) :
    Is (opMoveToGroup cfg s x g) (moveTo (abs s) x g) (some (.id x)) := by
  unfold opMoveToGroup at h ⊢
  by_cases h1 : (!s.isLayer x) = true
  · rw [if_pos h1] at h; cases h
  · rw [if_neg h1] at h ⊢
    by_cases h2 : (!s.isGroup g) = true
    · rw [if_pos h2] at h; cases h
    · rw [if_neg h2] at h ⊢
      by_cases h3 : g = x
      · rw [if_pos h3] at h; cases h
      · rw [if_neg h3] at h ⊢
        cases hd : (if s.cont x = true then desc s x else Except.ok []) with
        | error e => simp only [hd] at h; cases h
        | ok ds =>
          simp only [hd] at h ⊢
          by_cases h4 : g ∈ ds
          · rw [if_pos h4] at h; rw [refuse_isError] at h; cases h
          · rw [if_neg h4] at h ⊢
            change ((if (detached1 cfg s x).2.isError = true then detached1 cfg s x
              else if (opAppend cfg (detached1 cfg s x).1 g x).2.isError = true then opAppend cfg (detached1 cfg s x).1 g x
              else ((opAppend cfg (detached1 cfg s x).1 g x).1, Out.id x)).2.isError = false) at h
            change Is (if (detached1 cfg s x).2.isError = true then detached1 cfg s x
              else if (opAppend cfg (detached1 cfg s x).1 g x).2.isError = true then opAppend cfg (detached1 cfg s x).1 g x
              else ((opAppend cfg (detached1 cfg s x).1 g x).1, Out.id x)) _ _
            rw [detached1_not_error] at h ⊢
            simp only [Bool.false_eq_true, if_false] at h ⊢
            by_cases h5 : (opAppend cfg (detached1 cfg s x).1 g x).2.isError = true
            · rw [if_pos h5] at h; rw [h5] at h; cases h
            · rw [if_neg h5]
              have hacc := opAppend_acc (by simpa using h5 : (opAppend cfg (detached1 cfg s x).1 g x).2.isError = false)
              refine ⟨?_, rfl⟩
              rw [hacc.1, detached1_abs i x]
              rfl

/-! ### the statement for every operation is assembled in Props/C09.lean -/

theorem alloc_abs (s : State) (k : Kind) (p : Option Id) (b : BBox) : abs (alloc s k p b) = (abs s).alloc k := rfl

theorem isGroup_abs (s : State) (g : Id) : (abs s).isGroup g = s.isGroup g := rfl

theorem moveAll_acc {cfg : Cfg} (hself : cfg.itemSelfCheck = true) (n : Id) (s : State) (i : Inv s) (xs : List Id)
    (h : (moveAll cfg n s xs).2.isError = false) :
    abs (moveAll cfg n s xs).1 = moveAllTo n (abs s) xs := by
  induction xs generalizing s with
  | nil => rfl
  | cons x xs ih =>
    simp only [moveAll] at h ⊢
    by_cases h1 : (opMoveToGroup cfg s x n).2.isError = true
    · rw [if_pos h1] at h; rw [h1] at h; cases h
    · rw [if_neg h1] at h ⊢
      have h1' : (opMoveToGroup cfg s x n).2.isError = false := by simpa using h1
      have i1 := inv_opMoveToGroup i hself x n (ne_rec_of_not_isError h1)
      rw [ih _ i1 h, (opMoveToGroup_acc i h1').1]
      rfl

/-- the list that contains `x`, found by search, is the one the parent pointer names -/
theorem containerOf_listed {s : State} (i : Inv s) {p x : Id} (hx : x ∈ s.children p) :
    (abs s).containerOf x = some p := by
  unfold S.containerOf
  cases hf : (List.range (abs s).next).find? (fun c => decide (x ∈ (abs s).lists c)) with
  | none =>
    have := List.find?_eq_none.mp hf p (List.mem_range.mpr (i.live p x hx).1)
    simp [abs, hx] at this
  | some c =>
    have := List.find?_some hf
    have hc : x ∈ s.children c := of_decide_eq_true this
    rw [i.unique hc hx]

theorem containerOf_detached {s : State} {x : Id} (h : Detached s x) : (abs s).containerOf x = none := by
  unfold S.containerOf
  apply List.find?_eq_none.mpr
  intro c _
  simp [abs, h c]

theorem glParent_abs {s : State} (i : Inv s) (p : Option Id) (x0 : Id) :
    glParent .current s p x0 = (match p with | some q => some q | none => (abs s).containerOf x0) := by
  unfold glParent
  cases p with
  | some q => rfl
  | none =>
    simp only
    cases hp : s.parent x0 with
    | none =>
      simp only
      rw [containerOf_detached]
      exact detached_of_not_listed_by_parent i (fun p' hp' => by rw [hp] at hp'; cases hp')
    | some q =>
      simp only [Cfg.current, Bool.not_true, Bool.false_or]
      by_cases hx : x0 ∈ s.children q
      · have hc : s.cont q = true := i.contOnly q (List.ne_nil_of_mem hx)
        simp only [hc, hx, decide_true, Bool.and_self, if_true]
        rw [containerOf_listed i hx]
      · simp only [hx, decide_false, Bool.and_false, Bool.false_eq_true, if_false]
        rw [containerOf_detached]
        exact detached_of_not_listed_by_parent i (fun p' hp' => by rw [hp] at hp'; cases hp'; exact hx)

end PsdVerif.TreeSt
