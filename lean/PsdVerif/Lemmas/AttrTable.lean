/-
Lemmas about the machine of `Model/AttrTable.lean`: what a run of a setter's effects keeps, what `okPath`,
`refusesAll`, `refuseFirst`, `covered` guarantee about it, and what `save` writes when the cache is fresh.
-/
import PsdVerif.Model.AttrTable

namespace PsdVerif.AttrTable

/-! ### The store -/

theorem store_has (s : St) (l : Loc) (v : Nat) (x : Loc) : (s.store l v).has x = s.has x := by
  cases x <;> rfl

theorem store_mem_same (s : St) (l : Loc) (v : Nat) : (s.store l v).mem l = v := by
  simp [St.store]

theorem store_mem_ne (s : St) (l x : Loc) (v : Nat) (h : x ≠ l) : (s.store l v).mem x = s.mem x := by
  simp [St.store, h]

theorem has_of_key (s : St) (p : Loc) (k : String) (h : p.key = some k) : s.has p = s.present k := by
  cases p <;> simp [Loc.key] at h
  subst h; rfl

theorem has_of_nokey (s : St) (p : Loc) (h : p.key = none) : s.has p = true := by
  cases p <;> simp [Loc.key] at h <;> rfl

theorem replace_mem_same (s : St) (k a : String) (v : Nat) : (s.replaceBlock k a v).mem (.block k a) = v := by
  simp [St.replaceBlock]

theorem replace_mem_ne (s : St) (k a : String) (v : Nat) (x : Loc) (h : x.key ≠ some k) :
    (s.replaceBlock k a v).mem x = s.mem x := by
  have : x ≠ .block k a := by
    intro e; subst e; exact h rfl
  simp [St.replaceBlock, this]

theorem replace_has_ne (s : St) (k a : String) (v : Nat) (x : Loc) (h : x.key ≠ some k) :
    (s.replaceBlock k a v).has x = s.has x := by
  cases x <;> try rfl
  rename_i k' a'
  have : k' ≠ k := by
    intro e; subst e; exact h rfl
  simp [St.has, St.replaceBlock, this]

theorem dropEnc_has (s : St) (k : String) (x : Loc) : (s.dropEnc k).has x = s.has x := by
  cases x <;> rfl

theorem touches_write (l x : Loc) (w : WVal) (gs : List Guard) (via : List String)
    (h : (Eff.write l w gs via).touches x = false) : x ≠ l := by
  intro e; subst e; simp [Eff.touches] at h

theorem touches_replace (k a : String) (x : Loc) (w : WVal) (gs : List Guard) (via : List String)
    (h : (Eff.replace k a w gs via).touches x = false) : x.key ≠ some k := by
  intro e; simp [Eff.touches, e] at h

/-! ### What a run keeps at a location no effect touches -/

theorem untouched_kept (r : Row) (v : Nat) (i : Inst) (x : Loc) :
    ∀ (es : List Eff) (s : St), (∀ e ∈ es, e.touches x = false) →
      (runEffs r v i es s).st.mem x = s.mem x ∧ (runEffs r v i es s).st.has x = s.has x := by
  intro es
  induction es with
  | nil => intro s _; exact ⟨rfl, rfl⟩
  | cons e es ih =>
    intro s h
    have hrest : ∀ e' ∈ es, e'.touches x = false := fun e' he' => h e' (List.mem_cons_of_mem _ he')
    have he := h e (List.mem_cons_self ..)
    cases e with
    | refuse ex gs =>
      simp only [runEffs]; split
      · exact ⟨rfl, rfl⟩
      · exact ih s hrest
    | ret gs =>
      simp only [runEffs]; split
      · exact ⟨rfl, rfl⟩
      · exact ih s hrest
    | write l w gs via =>
      have hne := touches_write l x w gs via he
      simp only [runEffs]; split
      · split
        · have := ih (s.store l (wval i v l w)) hrest
          rw [store_mem_ne _ _ _ _ hne, store_has] at this
          exact this
        · exact ⟨rfl, rfl⟩
      · exact ih s hrest
    | replace k a w gs via =>
      have hne := touches_replace k a x w gs via he
      simp only [runEffs]; split
      · have := ih (s.replaceBlock k a (wval i v (.block k a) w)) hrest
        rw [replace_mem_ne _ _ _ _ _ hne, replace_has_ne _ _ _ _ _ hne] at this
        exact this
      · exact ih s hrest
    | invalidate k gs =>
      simp only [runEffs]; split
      · have := ih (s.dropEnc k) hrest
        rw [dropEnc_has] at this
        exact this
      · exact ih s hrest
    | call w gs => simp only [runEffs]; exact ih s hrest
    | other src => simp only [runEffs]; exact ih s hrest

theorem noClobber_kept (r : Row) (v : Nat) (i : Inst) (p : Loc) (es : List Eff) (s : St)
    (h : noClobber p es = true) :
    (runEffs r v i es s).st.mem p = s.mem p ∧ (runEffs r v i es s).st.has p = s.has p := by
  apply untouched_kept
  intro e he
  have := List.all_eq_true.mp h e he
  simpa using this

/-! ### The getter depends on its read path only -/

theorem firstPresent_congr (s s' : St) :
    ∀ ls : List Loc, (∀ x ∈ ls, s'.has x = s.has x) → firstPresent s' ls = firstPresent s ls := by
  intro ls
  induction ls with
  | nil => intro _; rfl
  | cons l ls ih =>
    intro h
    simp only [firstPresent, h l (List.mem_cons_self ..)]
    rw [ih (fun x hx => h x (List.mem_cons_of_mem _ hx))]

theorem firstPresent_mem (s : St) : ∀ (ls : List Loc) (p : Loc), firstPresent s ls = some p → p ∈ ls := by
  intro ls
  induction ls with
  | nil => intro p h; simp [firstPresent] at h
  | cons l ls ih =>
    intro p h
    simp only [firstPresent] at h
    split at h
    · simp at h; subst h; exact List.mem_cons_self ..
    · exact List.mem_cons_of_mem _ (ih p h)

theorem get_congr (s s' : St) (r : Row)
    (h : ∀ x ∈ r.reads, s'.mem x = s.mem x ∧ s'.has x = s.has x) : get s' r = get s r := by
  unfold get
  rw [firstPresent_congr s s' r.reads (fun x hx => (h x hx).2)]
  cases hf : firstPresent s r.reads with
  | none => rfl
  | some p => simp [(h p (firstPresent_mem s _ p hf)).1]

/-! ### (a), (b): `okPath` -/

theorem stored_holds (s : St) (r : Row) (v : Nat) (i : Inst) (gs : List Guard)
    (hs : gs.any Guard.isStored = true) (hh : holds s r v i gs = true) : get s r = some v := by
  obtain ⟨g, hg, hst⟩ := List.any_eq_true.mp hs
  have he := List.all_eq_true.mp hh g hg
  simp only [Guard.isStored, Bool.and_eq_true, beq_iff_eq, Bool.not_eq_true'] at hst
  simp only [evalG, hst.1, hst.2] at he
  simpa using he

theorem presence_fails (s : St) (r : Row) (v : Nat) (i : Inst) (p : Loc) (gs : List Guard)
    (hp : presenceOnly p gs = true) (hh : holds s r v i gs = false) : s.has p = false := by
  have : ∃ g ∈ gs, evalG s r v i g = false := by
    have := hh
    simp only [holds] at this
    have h2 : ¬ (gs.all (evalG s r v i) = true) := by simp [this]
    rw [List.all_eq_true] at h2
    have ⟨g, hg⟩ := Classical.not_forall.mp h2
    have ⟨hg1, hg2⟩ := Classical.not_imp.mp hg
    exact ⟨g, hg1, by simpa using hg2⟩
  obtain ⟨g, hg, he⟩ := this
  have hpg := List.all_eq_true.mp hp g hg
  simp only [Bool.and_eq_true, Bool.not_eq_true'] at hpg
  cases hk : g.kind with
  | free => simp [hk] at hpg
  | stored => simp [hk] at hpg
  | present k =>
    simp only [hk, beq_iff_eq] at hpg
    simp only [evalG, hk, hpg.1] at he
    rw [has_of_key s p k hpg.2]
    simpa using he

theorem okPath_sound (r : Row) (v : Nat) (i : Inst) (p : Loc) :
    ∀ (es : List Eff) (s s' : St), okPath p es = true → runEffs r v i es s = .ok s' → s'.has p = true →
      s'.mem p = v ∨ get s' r = some v := by
  intro es
  induction es with
  | nil => intro s s' h; simp [okPath] at h
  | cons e es ih =>
    intro s s' hok hrun hp
    cases e with
    | refuse ex gs =>
      simp only [okPath] at hok
      simp only [runEffs] at hrun
      split at hrun
      · cases hrun
      · exact ih s s' hok hrun hp
    | ret gs =>
      simp only [okPath, Bool.and_eq_true] at hok
      simp only [runEffs] at hrun
      split at hrun
      · rename_i hh
        cases hrun
        exact Or.inr (stored_holds _ r v i gs hok.1 hh)
      · exact ih s s' hok.2 hrun hp
    | write l w gs via =>
      simp only [okPath, Bool.or_eq_true, Bool.and_eq_true, beq_iff_eq] at hok
      simp only [runEffs] at hrun
      rcases hok with ⟨⟨⟨hl, hw⟩, hpo⟩, hnc⟩ | hok
      · subst hl; subst hw
        split at hrun
        · split at hrun
          · have hk := noClobber_kept r v i l es (s.store l (wval i v l .arg)) hnc
            rw [hrun] at hk
            left
            simpa [Out.st, store_mem_same, wval] using hk.1
          · cases hrun
        · rename_i hh
          have hk := noClobber_kept r v i l es s hnc
          rw [hrun] at hk
          have := presence_fails s r v i l gs hpo (by simpa using hh)
          simp only [Out.st] at hk
          rw [hk.2, this] at hp
          cases hp
      · split at hrun
        · split at hrun
          · exact ih _ s' hok hrun hp
          · cases hrun
        · exact ih s s' hok hrun hp
    | replace k a w gs via =>
      simp only [okPath, Bool.or_eq_true, Bool.and_eq_true, beq_iff_eq, List.isEmpty_iff] at hok
      simp only [runEffs] at hrun
      rcases hok with ⟨⟨⟨hl, hw⟩, hgs⟩, hnc⟩ | hok
      · subst hl; subst hw; subst hgs
        simp only [holds, List.all_nil, if_true] at hrun
        have hk := noClobber_kept r v i (.block k a) es (s.replaceBlock k a (wval i v (.block k a) .arg)) hnc
        rw [hrun] at hk
        left
        simpa [Out.st, replace_mem_same, wval] using hk.1
      · split at hrun
        · exact ih _ s' hok hrun hp
        · exact ih s s' hok hrun hp
    | invalidate k gs =>
      simp only [okPath] at hok
      simp only [runEffs] at hrun
      split at hrun
      · exact ih _ s' hok hrun hp
      · exact ih s s' hok hrun hp
    | call w gs =>
      simp only [okPath] at hok
      simp only [runEffs] at hrun
      exact ih s s' hok hrun hp
    | other src => simp [okPath] at hok

/-! ### Refusals -/

theorem refusesAll_refuses (r : Row) (v : Nat) (i : Inst) :
    ∀ (es : List Eff) (s : St), refusesAll es = true → ∃ x, runEffs r v i es s = .refused x s := by
  intro es
  induction es with
  | nil => intro s h; simp [refusesAll] at h
  | cons e es ih =>
    intro s h
    cases e with
    | refuse ex gs =>
      cases gs with
      | nil => exact ⟨ex, by simp [runEffs, holds]⟩
      | cons g gs => simp [refusesAll] at h
    | call w gs => simp only [refusesAll] at h; simp only [runEffs]; exact ih s h
    | ret gs => simp [refusesAll] at h
    | write l w gs via => simp [refusesAll] at h
    | replace k a w gs via => simp [refusesAll] at h
    | invalidate k gs => simp [refusesAll] at h
    | other src => simp [refusesAll] at h

theorem noRefuse_never (r : Row) (v : Nat) (i : Inst) :
    ∀ (es : List Eff) (s : St) (x : String) (s' : St), noRefuse es = true → runEffs r v i es s ≠ .refused x s' := by
  intro es
  induction es with
  | nil => intro s x s' _ h; simp [runEffs] at h
  | cons e es ih =>
    intro s x s' h
    simp only [noRefuse, List.all_cons, Bool.and_eq_true] at h
    have ih' : ∀ s, runEffs r v i es s ≠ .refused x s' := fun s => ih s x s' h.2
    cases e with
    | refuse ex gs => simp [Eff.isRefuse] at h
    | ret gs =>
      simp only [runEffs]; split
      · simp
      · exact ih' s
    | write l w gs via =>
      simp only [runEffs]; split
      · split
        · exact ih' _
        · simp
      · exact ih' s
    | replace k a w gs via => simp only [runEffs]; split <;> exact ih' _
    | invalidate k gs => simp only [runEffs]; split <;> exact ih' _
    | call w gs => simp only [runEffs]; exact ih' s
    | other src => simp only [runEffs]; exact ih' s

theorem refuseFirst_unchanged (r : Row) (v : Nat) (i : Inst) :
    ∀ (es : List Eff) (s : St) (x : String) (s' : St), refuseFirst es = true →
      runEffs r v i es s = .refused x s' → s' = s := by
  intro es
  induction es with
  | nil => intro s x s' _ h; simp [runEffs] at h
  | cons e es ih =>
    intro s x s' hf h
    cases e with
    | refuse ex gs =>
      simp only [refuseFirst] at hf
      simp only [runEffs] at h
      split at h
      · cases h; rfl
      · exact ih s x s' hf h
    | ret gs =>
      simp only [refuseFirst] at hf
      simp only [runEffs] at h
      split at h
      · cases h
      · exact ih s x s' hf h
    | call w gs =>
      simp only [refuseFirst] at hf
      simp only [runEffs] at h
      exact ih s x s' hf h
    | write l w gs via =>
      exact absurd h (noRefuse_never r v i _ s x s' (by simp only [refuseFirst] at hf; simpa [noRefuse, Eff.isRefuse] using hf))
    | replace k a w gs via =>
      exact absurd h (noRefuse_never r v i _ s x s' (by simp only [refuseFirst] at hf; simpa [noRefuse, Eff.isRefuse] using hf))
    | invalidate k gs =>
      exact absurd h (noRefuse_never r v i _ s x s' (by simp only [refuseFirst] at hf; simpa [noRefuse, Eff.isRefuse] using hf))
    | other src =>
      exact absurd h (noRefuse_never r v i _ s x s' (by simp only [refuseFirst] at hf; simpa [noRefuse, Eff.isRefuse] using hf))

/-! ### (d): the cache stays fresh -/

/-- the cache of every block whose key is not in `ks` is absent or equal to the memory -/
def FreshE (ks : List String) (s : St) : Prop :=
  ∀ l : Loc, l.isBlock = true → (∀ k ∈ ks, l.key ≠ some k) → s.enc l = none ∨ s.enc l = some (s.mem l)

theorem FreshE_mono (ks ks' : List String) (s : St) (h : ∀ k ∈ ks, k ∈ ks') (hf : FreshE ks s) : FreshE ks' s :=
  fun l hl hk => hf l hl (fun k hk' => hk k (h k hk'))

theorem FreshE_store_nokey (ks : List String) (s : St) (l : Loc) (v : Nat) (hl : l.key = none)
    (hf : FreshE ks s) : FreshE ks (s.store l v) := by
  intro x hx hk
  have hne : x ≠ l := by
    intro e; subst e; simp [Loc.isBlock, hl] at hx
  have := hf x hx hk
  simpa [St.store, hne] using this

theorem FreshE_store_key (s : St) (l : Loc) (v : Nat) (k : String) (hl : l.key = some k)
    (hf : FreshE [] s) : FreshE [k] (s.store l v) := by
  intro x hx hk
  have hne : x ≠ l := by
    intro e; subst e; exact hk k (List.mem_singleton.mpr rfl) hl
  have := hf x hx (fun _ h => by cases h)
  simpa [St.store, hne] using this

theorem FreshE_dropEnc (ks : List String) (s : St) (k : String) (hf : FreshE ks s) :
    FreshE (ks.filter (· != k)) (s.dropEnc k) := by
  intro x hx hk
  by_cases hxk : x.key = some k
  · left; simp [St.dropEnc, hxk]
  · have := hf x hx (fun k' hk' => by
      by_cases e : k' = k
      · subst e; exact hxk
      · exact hk k' (List.mem_filter.mpr ⟨hk', by simpa using e⟩))
    simpa [St.dropEnc, hxk] using this

theorem FreshE_dropEnc_same (ks : List String) (s : St) (k : String) (hf : FreshE ks s) : FreshE ks (s.dropEnc k) := by
  intro x hx hk
  by_cases hxk : x.key = some k
  · left; simp [St.dropEnc, hxk]
  · simpa [St.dropEnc, hxk] using hf x hx hk

theorem FreshE_replace (ks : List String) (s : St) (k a : String) (v : Nat) (hf : FreshE ks s) :
    FreshE ks (s.replaceBlock k a v) := by
  intro x hx hk
  by_cases hxk : x.key = some k
  · left; simp [St.replaceBlock, hxk]
  · have hne : x ≠ .block k a := by
      intro e; subst e; exact hxk rfl
    simpa [St.replaceBlock, hxk, hne] using hf x hx hk

theorem covered_fresh (r : Row) (v : Nat) (i : Inst) :
    ∀ (es : List Eff) (pend : List String) (s : St), covered pend es = true → FreshE pend s →
      FreshE [] (runEffs r v i es s).st := by
  intro es
  induction es with
  | nil =>
    intro pend s h hf
    simp only [covered, List.isEmpty_iff] at h
    subst h; exact hf
  | cons e es ih =>
    intro pend s h hf
    cases e with
    | refuse ex gs =>
      simp only [covered, Bool.and_eq_true, List.isEmpty_iff] at h
      simp only [runEffs]; split
      · rw [← h.1]; exact hf
      · exact ih pend s h.2 hf
    | ret gs =>
      simp only [covered, Bool.and_eq_true, List.isEmpty_iff] at h
      simp only [runEffs]; split
      · rw [← h.1]; exact hf
      · exact ih pend s h.2 hf
    | write l w gs via =>
      simp only [covered] at h
      simp only [runEffs]
      cases hk : l.key with
      | none =>
        simp only [hk] at h
        split
        · rw [has_of_nokey s l hk]; simp only [if_true]
          exact ih pend _ h (FreshE_store_nokey pend s l _ hk hf)
        · exact ih pend s h hf
      | some k =>
        simp only [hk, Bool.and_eq_true, List.isEmpty_iff] at h
        obtain ⟨hp, hc⟩ := h
        subst hp
        split
        · split
          · exact ih [k] _ hc (FreshE_store_key s l _ k hk hf)
          · exact hf
        · exact ih [k] s hc (FreshE_mono [] [k] s (fun _ h => by cases h) hf)
    | replace k a w gs via =>
      simp only [covered] at h
      simp only [runEffs]; split
      · exact ih pend _ h (FreshE_replace pend s k a _ hf)
      · exact ih pend s h hf
    | invalidate k gs =>
      simp only [covered] at h
      simp only [runEffs]
      split at h
      · rename_i hg
        simp only [List.isEmpty_iff] at hg
        subst hg
        simp only [holds, List.all_nil, if_true]
        exact ih _ _ h (FreshE_dropEnc pend s k hf)
      · split
        · exact ih pend _ h (FreshE_dropEnc_same pend s k hf)
        · exact ih pend s h hf
    | call w gs => simp only [covered] at h; simp only [runEffs]; exact ih pend s h hf
    | other src => simp only [covered] at h; simp only [runEffs]; exact ih pend s h hf

theorem fresh_iff (t : Table) (s : St) : Fresh t s ↔ (t.caching = true → FreshE [] s) := by
  unfold Fresh FreshE
  constructor
  · intro h hc l hl _; exact h hc l hl
  · intro h hc l hl; exact h hc l hl (fun _ hk => by cases hk)

theorem fileVal_fresh (t : Table) (s : St) (hf : Fresh t s) (l : Loc) : fileVal t s l = s.mem l := by
  unfold fileVal
  split
  · rename_i h
    simp only [Bool.and_eq_true] at h
    rcases hf h.1 l h.2 with e | e <;> simp [e]
  · rfl

theorem save_fresh (t : Table) (s : St) (hf : Fresh t s) : Fresh t (save t s).2 := by
  intro hc l hl
  right
  simp [save, hc, hl, fileVal_fresh t s hf l]

theorem save_mem (t : Table) (s : St) : (save t s).2.mem = s.mem ∧ (save t s).2.present = s.present := ⟨rfl, rfl⟩

theorem reopen_has (s : St) (f : Loc → Nat) (x : Loc) : (reopen s f).has x = s.has x := by
  cases x <;> rfl

end PsdVerif.AttrTable
