/-
C02 on the payload layer — concrete accepted byte strings (replayed on the real code by harness/c02_payload_search.py from
harness/corpus/C02payload.json).
-/
import PsdVerif.Lemmas.PayloadResaveTyped
import PsdVerif.Model.DescriptorTables

namespace PsdVerif.Payload3.ResaveSamples
open PsdVerif PsdVerif.Codec PsdVerif.Payload PsdVerif.Payload3

/-- 46 bytes: a `DescriptorBlock` (version 16, empty name, class id `null`, one item `abcd`: an `enum` with type `efgh`) whose
last key - length field 0 - has only the two bytes `ab` left -/
def keyCutShort : B :=
  [0, 0, 0, 16, 0, 0, 0, 0, 0, 0, 0, 0, 110, 117, 108, 108, 0, 0, 0, 1, 0, 0, 0, 0, 97, 98, 99, 100, 101, 110, 117, 109,
   0, 0, 0, 0, 101, 102, 103, 104, 0, 0, 0, 0, 97, 98]

/-- a decoded block seen through its canonical bytes (written without filler) and its cursor -/
def blockView (r : Except Err (Descriptor.Block × Nat)) : Except Err (B × Nat) :=
  r.map (fun x => (x.1.encT Descriptor.realTables 1, x.2))

/-- the reader of `read_length_and_key` as it was BEFORE repo commit bb0349d (a lenient `fp.read(length or 4)`: what is there) -/
def readKeyLenient (terms : List UInt8 → Bool) (d : List UInt8) (pos : Nat) : Except Err (Descriptor.Key × Nat) :=
  match Globals.readU32 d pos with
  | .error e => .error e
  | .ok (len, p) =>
    let n := if len = 0 then 4 else len
    let kb := (d.drop p).take n
    let p' := p + kb.length
    if len = 0 ∧ ¬ terms kb then .ok ({ bytes := kb, implicit := true }, p')
    else .ok ({ bytes := kb, implicit := false }, p')

/-- what one resave does to an accepted byte string: the bytes of `enc (dec b)` -/
def resaved {α : Type} (c : PCodec α) (b : B) : Except Err B :=
  match c.dec b 0 with
  | .ok (v, _) => c.enc v
  | .error e => .error e

/-- the `struct` items of the flat models (Model/Payload3*.lean), class by class, in the order of the source: a `rec fmt` is
its format, a `counted w` contributes the count field. `C02.model_formats_are_the_source_pairs`: for every class here BOTH
lists of its regenerated row (the formats `read` unpacks, the formats `write` packs) parse to exactly these items - the models
use one format on both sides because the source does. -/
def modelFormats : List (String × List FI) := [
  ("image_resources.AlphaIdentifiers", [U 4]),
  ("image_resources.DisplayInfo", [U 4]),
  ("image_resources.AlphaChannel", AlphaChannel.fmt),
  ("image_resources.Byte", [U 1]),
  ("image_resources.GridGuidesInfo", [U 4, U 4, U 4] ++ [U 4] ++ [U 4, U 1]),
  ("image_resources.HalftoneScreen", HalftoneScreen.fmt),
  ("image_resources.Integer", [S 4]),
  ("image_resources.LayerGroupEnabledIDs", [U 1]),
  ("image_resources.LayerGroupInfo", [U 2]),
  ("image_resources.LayerSelectionIDs", [U 2] ++ [U 4]),
  ("image_resources.ShortInteger", [U 2]),
  ("image_resources.PixelAspectRatio", [U 4, U 8]),
  ("image_resources.PrintFlagsInfo", [U 2, U 1, X 1, U 4, U 2]),
  ("image_resources.PrintScale", [U 2, U 4, U 4, U 4]),
  ("image_resources.ResoulutionInfo", [U 4, U 2, U 2, U 4, U 2, U 2]),
  ("image_resources.ThumbnailResource", Thumbnail.headFmt ++ [U 4] ++ Thumbnail.tailFmt),
  ("image_resources.TransferFunction", TransferFunction.curveFmt ++ [U 2]),
  ("image_resources.URLList", [U 4]),
  ("image_resources.URLItem", [U 4, U 4]),
  ("image_resources.VersionInfo", [U 4, Q] ++ [U 4]),
  ("image_resources.SlicesV6", SliceV6.bboxFmt ++ [U 4]),
  ("adjustments.BrightnessContrast", [U 2, U 2, U 2, U 1, X 1]),
  ("adjustments.ColorBalance", s2x3 ++ s2x3 ++ s2x3 ++ [U 1]),
  ("adjustments.ChannelMixer", [U 2, U 2] ++ [S 2, S 2, S 2, S 2, S 2]),
  ("adjustments.Exposure", [U 2, U 4, U 4, U 4]),
  ("adjustments.HueSaturation", [U 2, U 1, X 1] ++ s2x3 ++ s2x3 ++ s2x4 ++ s2x3),
  ("adjustments.LevelRecord", LevelRecord.fmt),
  ("adjustments.SelectiveColor", [U 2, U 2] ++ s2x4),
  ("adjustments.ColorStop", ColorStop.fmt),
  ("adjustments.TransparencyStop", TransparencyStop.fmt),
  ("adjustments.PhotoFilter", [U 2] ++ PhotoFilter.xyzFmt ++ PhotoFilter.colorFmt ++ PhotoFilter.tailFmt),
  ("adjustments.GradientMap", GradientMap.headFmt ++ [SN 4] ++ [U 2] ++ [U 2] ++ u2x4 ++ [U 4, U 2, U 2] ++ [U 4, U 2] ++ u2x4 ++
    u2x4 ++ [X 2]),
  ("adjustments.CurvesExtraMarker", CurvesExtraMarker.hdrFmt),
  ("vector.ClipboardRecord", clipFmt),
  ("vector.InitialFillRule", initFmt),
  ("vector.Knot", knotFmt),
  ("vector.Subpath", [U 2] ++ subFmt ++ [U 2]),
  ("vector.VectorMaskSetting", VectorMaskSetting.headFmt)
]

end PsdVerif.Payload3.ResaveSamples
