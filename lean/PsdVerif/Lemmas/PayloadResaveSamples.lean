/-
C02 on the payload layer — concrete accepted byte strings (replayed on the real code by harness/c02_payload_search.py from
harness/corpus/C02payload.json).
-/
import PsdVerif.Lemmas.PayloadResaveTyped
import PsdVerif.Model.DescriptorTables

namespace PsdVerif.Payload3.ResaveSamples
open PsdVerif PsdVerif.Codec PsdVerif.Payload PsdVerif.Payload3

/-- 46 bytes: a `DescriptorBlock` (version 16, empty name, class id `null`, one item `abcd`: an `enum` with type `efgh`) whose
last key - length field 0 - has only the two bytes `ab` left -/
def keyCutShort : B :=
  [0, 0, 0, 16, 0, 0, 0, 0, 0, 0, 0, 0, 110, 117, 108, 108, 0, 0, 0, 1, 0, 0, 0, 0, 97, 98, 99, 100, 101, 110, 117, 109,
   0, 0, 0, 0, 101, 102, 103, 104, 0, 0, 0, 0, 97, 98]

/-- a decoded block seen through its canonical bytes (written without filler), its cursor, and whether its keys are full -/
def blockView (r : Except Err (Descriptor.Block × Nat)) : Except Err (B × Nat × Bool) :=
  r.map (fun x => (x.1.encT Descriptor.realTables 1, x.2, decide x.1.KeysFull))

end PsdVerif.Payload3.ResaveSamples
