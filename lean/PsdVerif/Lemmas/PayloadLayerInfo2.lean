/-
C01 payload unit 1 — the deep document: the layer and mask section and the whole file with typed
document-level blocks. The proofs follow `LayerAndMask.dec_at` / `PSD.read_encT` of Lemmas/CodecPsd3.lean
step by step; the only new ingredient is `tblocksDec_at` in place of `taggedBlocksDec_at`.
-/
import PsdVerif.Lemmas.PayloadLayerInfo1

namespace PsdVerif.Payload
open PsdVerif PsdVerif.Codec PsdVerif.Psd

theorem map_flat_keys (v pad : Nat) (ts : List TBlock) :
    (ts.map (TBlock.flat v pad)).map TaggedBlock.key = ts.map TBlock.key := by
  simp only [List.map_map]; rfl

/-- typed well-formedness of the document-level blocks, from the skeleton's and the payloads' -/
theorem tblocksWF_of_flat {v : Nat} {ts : List TBlock} (h1 : taggedBlocksWF v (ts.map (TBlock.flat v 4)))
    (h2 : ∀ t ∈ ts, t.WF v 4) : tblocksWF v 4 ts :=
  ⟨h2, by rw [← map_flat_keys v 4 ts]; exact h1.2⟩

theorem DeepLam.flat_refresh (v : Nat) (x : DeepLam) : (x.refresh.flat v) = (x.flat v).refresh := by
  obtain ⟨li, g, ts⟩ := x
  simp only [DeepLam.refresh, DeepLam.flat, LayerAndMask.refresh, LayerAndMask.mk.injEq, true_and]
  cases ts with
  | none => rfl
  | some ts =>
    simp only [Option.map_some, List.map_map, Option.some.injEq]
    apply List.map_congr_left
    intro t _
    exact TBlock.flat_refresh v 4 t

/-- `LayerAndMaskInformation.read` with typed document-level blocks, on the main stream -/
theorem DeepLam.dec_at {v pad : Nat} {x : DeepLam} (hwf : (x.flat v).WF v pad)
    (htb : optAll (fun (t : TBlock) => t.WF v 4) x.taggedBlocks) {d : B} {p : Nat}
    (hat : At d p ((x.flat v).encT v pad)) :
    DeepLam.dec v d p = .ok (x.refresh, p + ((x.flat v).encT v pad).length) := by
  have hw := secW_pos v
  obtain ⟨⟨_, _, _, hfb⟩, hrest⟩ := hwf
  rw [LayerAndMask.length_encT]
  unfold LayerAndMask.encT lenBlockT at hat
  simp only [zeros, List.replicate_zero, List.nil_append, List.append_assoc] at hat
  obtain ⟨e1, hat⟩ := readU_step hat hfb
  have hat := hat.left
  have hno : ¬ overflows (p + secW v + ((x.flat v).bodyT v pad).length) d :=
    not_overflows_of_le (by have := hat.bound; omega)
  obtain ⟨li, g, ts⟩ := x
  simp only [DeepLam.flat] at hrest hat e1 hno ⊢
  cases li with
  | none =>
    obtain ⟨rfl, hts⟩ := hrest
    cases ts with
    | some ts => simp at hts
    | none =>
      simp only [Option.map_none] at hno
      simp only [DeepLam.dec, bind, Except.bind, e1, Option.map_none, if_neg hno]
      simp [LayerAndMask.bodyT, optT', DeepLam.refresh]
  | some li =>
    simp only at hrest
    obtain ⟨hli, hg, hts, hgt⟩ := hrest
    cases ts with
    | none => simp at hts
    | some ts =>
      simp only [Option.map_some] at hts hgt hat e1 hno ⊢
      simp only [optAll] at htb
      have htw := tblocksWF_of_flat hts htb
      have hbody : LayerAndMask.bodyT v pad ⟨some li, g, some (ts.map (TBlock.flat v 4))⟩ =
          li.encT v pad ++ (optT' GlobalLayerMaskInfo.encT g ++ tblocksT v 4 ts) := by
        simp only [LayerAndMask.bodyT, optT', List.append_assoc, tblocksT_flat]
      generalize hB : LayerAndMask.bodyT v pad ⟨some li, g, some (ts.map (TBlock.flat v 4))⟩ = body at *
      have hne : ¬ body.length = 0 := by
        have := li.length_encT_ge v pad
        rw [hbody]; simp only [List.length_append]; omega
      rw [hbody] at hat
      have hblen : body.length = (li.encT v pad).length + (optT' GlobalLayerMaskInfo.encT g).length +
          (tblocksT v 4 ts).length := by
        rw [hbody]; simp only [List.length_append]; omega
      obtain ⟨e2, hat⟩ := LayerInfo.dec_step hli hat
      cases g with
      | none =>
        have hnil : ts = [] := by
          have := hgt rfl
          simpa using this
        subst hnil
        simp only [optT', tblocksT, listT, List.length_nil, Nat.add_zero, List.nil_append] at hat hblen
        have hgate : ¬ (p + secW v + (li.encT v pad).length + 4 ≤ p + secW v + body.length) := by omega
        simp only [DeepLam.dec, DeepLam.bodyDec, bind, Except.bind, e1, if_neg hne, e2, if_neg hgate, if_neg hno]
        simp [DeepLam.refresh, Nat.add_assoc]
      | some g =>
        simp only [optProp] at hg
        simp only [optT'] at hat hblen
        have hgl := g.length_encT hg.2.1
        have hgate : p + secW v + (li.encT v pad).length + 4 ≤ p + secW v + body.length := by
          have : 4 ≤ g.encT.length := by rw [hgl]; split <;> omega
          omega
        obtain ⟨e3, hat⟩ := GlobalLayerMaskInfo.dec_step hg hat
        have hpe : p + secW v + (li.encT v pad).length + g.encT.length + (tblocksT v 4 ts).length =
            p + secW v + body.length := by omega
        have e4 : tblocksDec v 4 (some (p + secW v + body.length)) d
            (p + secW v + (li.encT v pad).length + g.encT.length) =
            .ok (ts.map TBlock.refresh, p + secW v + (li.encT v pad).length + g.encT.length + (tblocksT v 4 ts).length) := by
          apply tblocksDec_at (Or.inr (Or.inr rfl)) htw (some _) hat
          · intro e he; cases he; omega
          · simp only [taggedCond, hpe]; simp
        simp only [DeepLam.dec, DeepLam.bodyDec, bind, Except.bind, e1, if_neg hne, e2, if_pos hgate, e3, e4, if_neg hno]
        simp [DeepLam.refresh, Nat.add_assoc]

/-! ## the whole file -/

theorem DeepPSD.read_encT {pad : Nat} {x : DeepPSD} (hwf : x.WF pad) :
    DeepPSD.read (x.encT pad) 0 = .ok (x.refresh, (x.encT pad).length) := by
  obtain ⟨⟨hh, hc, hr, hl, hi⟩, htb⟩ := hwf
  unfold DeepPSD.encT
  simp only [DeepPSD.flat] at hh hc hr hl hi
  have hself := At.self (x.flat.encT pad)
  generalize hD : x.flat.encT pad = D at hself ⊢
  have hlen : D.length = x.header.encT.length + (colorModeT x.colorModeData).length + (resourcesT x.resources).length +
      ((x.layerAndMask.flat x.header.version).encT x.header.version pad).length + x.imageData.encT.length := by
    rw [← hD]; simp only [PSD.encT, DeepPSD.flat, List.length_append]
  have hD' : D = x.header.encT ++ (colorModeT x.colorModeData ++ (resourcesT x.resources ++
      ((x.layerAndMask.flat x.header.version).encT x.header.version pad ++ x.imageData.encT))) := by
    rw [← hD]; simp only [PSD.encT, DeepPSD.flat, List.append_assoc]
  have hat : At D 0 (x.header.encT ++ (colorModeT x.colorModeData ++ (resourcesT x.resources ++
      ((x.layerAndMask.flat x.header.version).encT x.header.version pad ++ x.imageData.encT)))) := by
    rw [← hD']; exact At.self D
  have e1 := Header.dec_at hh hat.left
  have hat := hat.right
  have e2 := colorModeDec_at hc hat.left
  have hat := hat.right
  have e3 := resourcesDec_at hr hat.left
  have hat := hat.right
  have hil := x.imageData.length_encT
  have e4 := DeepLam.dec_at hl htb hat.left
  have hat := hat.right
  have e5 := ImageData.dec_at_end hi hat (by omega)
  simp only [DeepPSD.read, bind, Except.bind, e1, e2, e3, e4, e5]
  simp only [DeepPSD.refresh]
  congr 2
  omega

theorem DeepPSD.enc_ok {pad : Nat} {x : DeepPSD} {bs : B} (h : DeepPSD.enc pad x = .ok bs) :
    bs = x.encT pad ∧ x.payloadFits ∧ x.flat.writeError pad = none := by
  unfold DeepPSD.enc at h
  split at h
  · cases h
  · split at h
    · exact ⟨by cases h; rfl, ‹_›, ‹_›⟩
    · cases h

theorem DeepPSD.flat_refresh (x : DeepPSD) : x.refresh.flat = x.flat.refresh := by
  simp only [DeepPSD.refresh, DeepPSD.flat, PSD.refresh_eq, DeepLam.flat_refresh]

theorem DeepPSD.payloadFits_refresh (x : DeepPSD) : x.refresh.payloadFits ↔ x.payloadFits := by
  obtain ⟨h, c, r, ⟨li, g, ts⟩, i⟩ := x
  cases ts with
  | none => exact Iff.rfl
  | some ts =>
    simp only [DeepPSD.payloadFits, DeepPSD.refresh, DeepLam.refresh, Option.map_some, optAll, List.mem_map,
      forall_exists_index, and_imp, forall_apply_eq_imp_iff₂, TBlock.refresh, Payload.Fits_refresh]

/-- re-writing the document object as `write` left it (= as it is re-read) gives the same bytes -/
theorem DeepPSD.enc_refresh (pad : Nat) (x : DeepPSD) : DeepPSD.enc pad x.refresh = DeepPSD.enc pad x := by
  unfold DeepPSD.enc DeepPSD.encT
  simp only [DeepPSD.flat_refresh, PSD.writeError_refresh, PSD.encT_refresh, DeepPSD.payloadFits_refresh]

end PsdVerif.Payload
