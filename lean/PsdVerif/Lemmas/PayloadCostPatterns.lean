/-
C06 — the counting twins of Model/PayloadCostPatterns.lean erase to the readers of Model/PayloadPatterns.lean and obey
the cost judgement with the constants recorded in their `CC.hand`. The nested runs (`with io.BytesIO(data) as f`) are
accounted with `Cost.bindBlock` / `Inner` of Lemmas/PayloadCostEffects.lean.
-/
import PsdVerif.Model.PayloadCostPatterns
import PsdVerif.Lemmas.PayloadCostEffects

namespace PsdVerif.PayloadCost
open PsdVerif PsdVerif.Codec PsdVerif.PsdCost PsdVerif.Payload PsdVerif.Payload3 PsdVerif.Safe PsdVerif.SafeCost

/-! ## VirtualMemoryArray -/

theorem VMA.decC_fst (d : B) (p : Nat) : (VMA.decC d p).1 = VMA.dec d p := by
  unfold VMA.decC VMA.dec
  refine erase_bind (readUC_fst ..) fun ⟨iw, p⟩ => ?_
  dsimp only
  split
  · rfl
  · refine erase_bind (readUC_fst ..) fun ⟨length, p⟩ => ?_
    dsimp only
    split
    · rfl
    · refine erase_bind (readUC_fst ..) fun ⟨depth, p⟩ => ?_
      refine erase_bind (readCountC_fst (readUC_fst 4) ..) fun ⟨rect, p⟩ => ?_
      refine erase_bind (readUC_fst ..) fun ⟨pd, p⟩ => ?_
      refine erase_bind (readUC_fst ..) fun ⟨comp, p⟩ => ?_
      refine erase_bind (readPyC_fst ..) fun ⟨data, p⟩ => ?_
      dsimp only
      split <;> rfl

/-- a virtual memory array consumes its `is_written` word: ≥ 4 bytes -/
theorem VMA.decC_cost : CostR 1 14 4 VMA.decC := by
  intro d p hp
  apply Cost.mono
  case h =>
    unfold VMA.decC
    cbind (readUC_cost 4)
    apply Cost.ite <;> intro _
    · cdone
    · cbind (readUC_cost 4)
      apply Cost.ite <;> intro _
      · cdone
      · cbind (readUC_cost 4)
        cbind (readCountC_cost_fixed (fun q _ => readUC_cost 4) 4 _ (by assumption))
        cbind (readUC_cost 2)
        cbind (readUC_cost 1)
        cbind (readPyC_cost _)
        cif
        cdone
  cside

theorem VMA.cc_c : VMA.cc.c = VMA.codec := rfl
theorem VMA.cc_sound : VMA.cc.Sound := CC.hand_sound VMA.decC_fst VMA.decC_cost

/-! ## VirtualMemoryArrayList -/

theorem VMAL.decC_fst (d : B) (p : Nat) : (VMAL.decC d p).1 = VMAL.dec d p := by
  unfold VMAL.decC VMAL.dec
  refine erase_bind (readUC_fst ..) fun ⟨version, p⟩ => ?_
  dsimp only
  split
  · refine erase_bind (readLenBlockC_fst ..) fun ⟨data, p⟩ => ?_
    refine erase_ok (enterBlock_fst data) ?_
    refine erase_bind (readCountC_fst (readUC_fst 4) ..) fun ⟨rect, q⟩ => ?_
    refine erase_bind (readUC_fst ..) fun ⟨n, q⟩ => ?_
    refine erase_bind (readCountC_fst VMA.decC_fst ..) fun ⟨chans, _⟩ => ?_
    rfl
  · rfl

theorem VMAL.decC_cost : CostR 18 30 8 VMAL.decC := by
  intro d p hp
  apply Cost.mono
  case h =>
    unfold VMAL.decC
    cbind (readUC_cost 4)
    cif
    cblock
    apply Cost.ofInner (by assumption)
    apply Inner.enter
    ibind (readCountC_cost_fixed (fun q _ => readUC_cost 4) 4 _ (Nat.zero_le _))
    ibind (readUC_cost 4)
    ibind (readCountC_cost (fun q hq => VMA.decC_cost _ q hq) (by decide : 1 ≤ 4) _ _ (by assumption))
    exact Inner.ok _ rfl
  cside

theorem VMAL.cc_c : VMAL.cc.c = VMAL.codec := rfl
theorem VMAL.cc_sound : VMAL.cc.Sound := CC.hand_sound VMAL.decC_fst VMAL.decC_cost

/-! ## Pattern -/

theorem Pattern.decC_fst (d : B) (p : Nat) : (Pattern.decC d p).1 = Pattern.dec d p := by
  unfold Pattern.decC Pattern.dec
  refine erase_bind (readUC_fst ..) fun ⟨version, p⟩ => ?_
  dsimp only
  split
  · refine erase_bind (readUC_fst ..) fun ⟨mode, p⟩ => ?_
    dsimp only
    split
    · refine erase_bind (readCountC_fst readI16C_fst ..) fun ⟨point, p⟩ => ?_
      refine erase_bind (readUStrC_fst ..) fun ⟨name, p⟩ => ?_
      refine erase_bind (readPascalC_fst ..) fun ⟨pid, p⟩ => ?_
      dsimp only
      split
      · refine erase_bind ?_ fun ⟨table, p⟩ => ?_
        · split
          · refine erase_bind (readCountC_fst (readCountC_fst (readUC_fst 1) 3) ..) fun ⟨rows, p⟩ => ?_
            refine erase_bind (readSkipC_fst ..) fun ⟨_, p⟩ => ?_
            rfl
          · rfl
        refine erase_bind (VMAL.decC_fst ..) fun ⟨data, p⟩ => ?_
        rfl
      · rfl
    · rfl
  · rfl

theorem Pattern.decC_cost : CostR 18 1835 25 Pattern.decC := by
  intro d p hp
  apply Cost.mono
  case h =>
    unfold Pattern.decC
    cbind (readUC_cost 4)
    cif
    cbind (readUC_cost 4)
    cif
    cbind (readCountC_cost_fixed (fun q _ => readI16C_cost) 2 _ (by assumption))
    cbind (readUStrC_cost 1)
    cbind (readPascalC_cost 1)
    cif
    apply Cost.bind
    · apply Cost.ite <;> intro _
      · cbind (readCountC_cost_fixed (fun q hq => readCountC_cost_fixed (fun q _ => readUC_cost 1) 3 q hq) 256 _ (by assumption))
        cbind (readSkipC_cost 4)
        cdone
      · exact Cost.ok _ (by assumption)
    · intro _ _ _ _
      dsimp only
      cbind (VMAL.decC_cost d _ (by assumption))
      cdone
  cside

theorem Pattern.cc_c : Pattern.cc.c = Pattern.codec := rfl
theorem Pattern.cc_sound : Pattern.cc.Sound := CC.hand_sound Pattern.decC_fst Pattern.decC_cost

/-! ## Patterns -/

theorem Patterns.itemDecC_fst (d : B) (p : Nat) :
    (Patterns.itemDecC d p).1 = (do
      let (data, p) ← readLenBlock 0 4 4 d p
      let (x, _) ← Pattern.dec data 0
      .ok (some x, p) : Except Err (Option Pattern × Nat)) := by
  unfold Patterns.itemDecC
  refine erase_bind (readLenBlockC_fst ..) fun ⟨data, p⟩ => ?_
  refine erase_ok (enterBlock_fst data) ?_
  refine erase_bind (Pattern.decC_fst ..) fun ⟨x, _⟩ => ?_
  rfl

/-- an item consumes the length of its block: ≥ 4 bytes -/
theorem Patterns.itemDecC_cost : CostR 20 1840 4 Patterns.itemDecC := by
  intro d p hp
  apply Cost.mono
  case h =>
    unfold Patterns.itemDecC
    cblock
    apply Cost.ofInner (by assumption)
    apply Inner.enter
    ibind (Pattern.decC_cost _ 0 (Nat.zero_le _))
    exact Inner.ok _ rfl
  cside

theorem Patterns.decC_fst (d : B) (p : Nat) : (Patterns.decC d p).1 = Patterns.codec.dec d p := by
  unfold Patterns.decC Patterns.codec
  dsimp only
  exact readWhileC_fst (isReadableC_fst 4) Patterns.itemDecC_fst d p

theorem Patterns.decC_cost : CostR 1866 1852 0 Patterns.decC := by
  intro d p hp
  unfold Patterns.decC
  exact (readWhileC_cost 4 (fun q hq => Patterns.itemDecC_cost d q hq) (by decide) p hp).mono
    (by decide) (by decide) (by decide)

theorem Patterns.cc_c : Patterns.cc.c = Patterns.codec := rfl
theorem Patterns.cc_sound : Patterns.cc.Sound := CC.hand_sound Patterns.decC_fst Patterns.decC_cost

/-! ## the unit -/

def patternsTable : List (String × Sh) :=
  [("VirtualMemoryArray", VMA.cc.sh), ("VirtualMemoryArrayList", VMAL.cc.sh), ("Pattern", Pattern.cc.sh),
   ("Patterns", Patterns.cc.sh)]

theorem patterns_body_progress : patternsTable.all (fun e => e.2.bodyProgress) = true := by decide

end PsdVerif.PayloadCost
