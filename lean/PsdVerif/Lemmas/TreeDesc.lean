/-
Layer-tree model: what `descendants()` enumerates (soundness / completeness w.r.t. `Reach`,
single occurrence under the invariant).
-/
import PsdVerif.Lemmas.TreeBasic

namespace PsdVerif.TreeSt

theorem reach_cont {s : State} (hc : ∀ c, s.children c ≠ [] → s.cont c = true) {c x : Id}
    (r : Reach s c x) : s.cont c = true := by
  cases r with
  | edge h => exact hc _ (List.ne_nil_of_mem h)
  | step h _ => exact hc _ (List.ne_nil_of_mem h)

theorem reach_iff_head {s : State} {g x : Id} :
    Reach s g x ↔ ∃ c, c ∈ s.children g ∧ (x = c ∨ Reach s c x) := by
  constructor
  · intro r
    cases r with
    | edge h => exact ⟨x, h, .inl rfl⟩
    | step h r' => exact ⟨_, h, .inr r'⟩
  · rintro ⟨c, hc, h⟩
    cases h with
    | inl e => subst e; exact .edge hc
    | inr r => exact .step hc r

theorem mem_descList_iff {s : State} (hc : ∀ c, s.children c ≠ [] → s.cont c = true)
    (r : Id → Except Err (List Id)) (hr : ∀ c ds, r c = .ok ds → ∀ x, x ∈ ds ↔ Reach s c x)
    (l ds : List Id) (h : descList r s l = .ok ds) (x : Id) :
    x ∈ ds ↔ ∃ c, c ∈ l ∧ (x = c ∨ Reach s c x) := by
  induction l generalizing ds with
  | nil =>
    simp only [descList] at h
    cases h
    simp
  | cons c cs ih =>
    simp only [descList] at h
    split at h
    · cases h
    · rename_i a ha
      split at h
      · cases h
      · rename_i b hb
        cases h
        have iha : x ∈ a ↔ Reach s c x := by
          by_cases hcont : s.cont c = true
          · rw [if_pos hcont] at ha
            exact hr c a ha x
          · rw [if_neg hcont] at ha
            cases ha
            constructor
            · intro h; cases h
            · intro r'; exact absurd (reach_cont hc r') hcont
        have ihb := ih b hb
        rw [List.cons_append, List.mem_cons, List.mem_append, iha, ihb]
        constructor
        · intro h
          rcases h with e | r' | ⟨c', hc', h'⟩
          · exact ⟨c, List.mem_cons_self .., .inl e⟩
          · exact ⟨c, List.mem_cons_self .., .inr r'⟩
          · exact ⟨c', List.mem_cons_of_mem _ hc', h'⟩
        · intro h
          obtain ⟨c', hc', h'⟩ := h
          rcases List.mem_cons.mp hc' with e | hc''
          · rw [e] at h'
            rcases h' with e' | r'
            · exact .inl e'
            · exact .inr (.inl r')
          · exact .inr (.inr ⟨c', hc'', h'⟩)

/-- `descendants()` yields exactly the layers listed below `g` -/
theorem mem_descF_iff {s : State} (hc : ∀ c, s.children c ≠ [] → s.cont c = true) (f : Nat) (g : Id)
    (ds : List Id) (h : descF s f g = .ok ds) (x : Id) : x ∈ ds ↔ Reach s g x := by
  induction f generalizing g ds x with
  | zero => simp [descF] at h
  | succ f ih =>
    simp only [descF] at h
    rw [mem_descList_iff hc (descF s f) (fun c ds' h' x' => ih c ds' h' x') _ _ h x, reach_iff_head]

theorem mem_desc_iff {s : State} (hc : ∀ c, s.children c ≠ [] → s.cont c = true) {g : Id} {ds : List Id}
    (h : desc s g = .ok ds) (x : Id) : x ∈ ds ↔ Reach s g x := mem_descF_iff hc _ g ds h x

/-! ### single occurrence -/

/-- tail-style paths, to reason about the last membership -/
inductive ReachT (s : State) : Id → Id → Prop where
  | edge {c x : Id} : x ∈ s.children c → ReachT s c x
  | snoc {a c x : Id} : ReachT s a c → x ∈ s.children c → ReachT s a x

theorem ReachT.cons {s : State} {a c y : Id} (h : c ∈ s.children a) (r : ReachT s c y) : ReachT s a y := by
  induction r with
  | edge hx => exact .snoc (.edge h) hx
  | snoc _ hx ih => exact .snoc ih hx

theorem reach_iff_reachT {s : State} {a b : Id} : Reach s a b ↔ ReachT s a b := by
  constructor
  · intro r
    induction r with
    | edge h => exact .edge h
    | step h _ ih => exact ReachT.cons h ih
  · intro r
    induction r with
    | edge h => exact .edge h
    | snoc _ hx ih => exact ih.tail hx

/-- under the invariant the ancestors of a layer form a chain -/
theorem Inv.chain {s : State} (i : Inv s) {a z : Id} (ra : Reach s a z) :
    ∀ b, Reach s b z → a = b ∨ Reach s a b ∨ Reach s b a := by
  have ra' := reach_iff_reachT.mp ra
  clear ra
  induction ra' with
  | edge hz =>
    intro b rb
    cases reach_iff_reachT.mp rb with
    | edge hz' => exact .inl (i.unique hz hz')
    | snoc r' hz' =>
      have := i.unique hz hz'
      subst this
      exact .inr (.inr (reach_iff_reachT.mpr r'))
  | snoc r hz ih =>
    intro b rb
    cases reach_iff_reachT.mp rb with
    | edge hz' =>
      have := i.unique hz hz'
      subst this
      exact .inr (.inl (reach_iff_reachT.mpr r))
    | snoc r' hz' =>
      have := i.unique hz hz'
      subst this
      exact ih b (reach_iff_reachT.mpr r')

/-- a layer is not listed below one of its siblings -/
theorem Inv.no_reach_sibling {s : State} (i : Inv s) {g c c' : Id} (hc : c ∈ s.children g)
    (hc' : c' ∈ s.children g) : ¬ Reach s c c' := by
  intro r
  obtain ⟨d, hd, h⟩ := r.last
  have := i.unique hd hc'
  subst this
  cases h with
  | inl e => subst e; exact i.no_cycle d (.edge hc)
  | inr r' => exact i.no_cycle d (.step hc r')

theorem nodup_descList {s : State} (i : Inv s) (g : Id) (r : Id → Except Err (List Id))
    (hr : ∀ c ds, r c = .ok ds → ds.Nodup ∧ ∀ x, x ∈ ds ↔ Reach s c x)
    (l ds : List Id) (hl : ∀ c, c ∈ l → c ∈ s.children g) (hnd : l.Nodup)
    (h : descList r s l = .ok ds) : ds.Nodup := by
  induction l generalizing ds with
  | nil =>
    simp only [descList] at h
    cases h
    exact List.nodup_nil
  | cons c cs ih =>
    have hmem := fun ds' h' => mem_descList_iff i.contOnly r (fun c ds h => (hr c ds h).2) cs ds' h'
    simp only [descList] at h
    split at h
    · cases h
    · rename_i a ha
      split at h
      · cases h
      · rename_i b hb
        cases h
        have hcg : c ∈ s.children g := hl c (List.mem_cons_self ..)
        have hnd' := List.nodup_cons.mp hnd
        have hb' := ih b (fun c' h' => hl c' (List.mem_cons_of_mem _ h')) hnd'.2 hb
        have iha : a.Nodup ∧ ∀ x, x ∈ a ↔ Reach s c x := by
          by_cases hcont : s.cont c = true
          · rw [if_pos hcont] at ha
            exact hr c a ha
          · rw [if_neg hcont] at ha
            cases ha
            refine ⟨List.nodup_nil, fun x => ⟨fun h => (by cases h), fun r' => absurd (reach_cont i.contOnly r') hcont⟩⟩
        -- members of `b` are later siblings or below them
        have hbmem : ∀ x, x ∈ b → ∃ c', c' ∈ cs ∧ (x = c' ∨ Reach s c' x) := fun x hx => (hmem b hb x).mp hx
        rw [List.cons_append, List.nodup_cons]
        refine ⟨?_, ?_⟩
        · intro hmem'
          rcases List.mem_append.mp hmem' with h1 | h1
          · exact i.no_cycle c ((iha.2 c).mp h1)
          · obtain ⟨c', hc', h2⟩ := hbmem c h1
            have hc'g := hl c' (List.mem_cons_of_mem _ hc')
            cases h2 with
            | inl e => subst e; exact hnd'.1 hc'
            | inr r' => exact i.no_reach_sibling hc'g hcg r'
        · rw [List.nodup_append]
          refine ⟨iha.1, hb', ?_⟩
          intro x hxa y hyb e
          subst e
          have rc := (iha.2 x).mp hxa
          obtain ⟨c', hc', h2⟩ := hbmem x hyb
          have hc'g := hl c' (List.mem_cons_of_mem _ hc')
          have hne : c ≠ c' := by intro e; subst e; exact hnd'.1 hc'
          cases h2 with
          | inl e => subst e; exact i.no_reach_sibling hcg hc'g rc
          | inr r' =>
            rcases i.chain rc c' r' with e | r'' | r''
            · exact hne e
            · exact i.no_reach_sibling hcg hc'g r''
            · exact i.no_reach_sibling hc'g hcg r''

/-- (I4) under the invariant `descendants()` yields every layer below `g` exactly once -/
theorem descF_nodup {s : State} (i : Inv s) (f : Nat) (g : Id) (ds : List Id) (h : descF s f g = .ok ds) :
    ds.Nodup ∧ ∀ x, x ∈ ds ↔ Reach s g x := by
  refine ⟨?_, mem_descF_iff i.contOnly f g ds h⟩
  induction f generalizing g ds with
  | zero => simp [descF] at h
  | succ f ih =>
    simp only [descF] at h
    exact nodup_descList i g (descF s f)
      (fun c ds' h' => ⟨ih c ds' h', mem_descF_iff i.contOnly f c ds' h'⟩) _ _ (fun _ h => h) (i.nodup g) h

end PsdVerif.TreeSt
