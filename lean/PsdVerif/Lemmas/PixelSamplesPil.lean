/-
C07: PIL's `convert` as modelled per pixel (`Model/PixelSamples.lean: convImage`) has the laws the route
theorems ask of a `Pil` (`Pil.Lawful`).
-/
import PsdVerif.Model.PixelSamples
import PsdVerif.Lemmas.Pixels

namespace PsdVerif.PixelSamples
open PsdVerif PsdVerif.Pixels

theorem clip8_val' {n : Nat} (h : n ≤ 255) : (clip8 n).val = n := by
  simp only [clip8]; omega

theorem clip8_fin' (x : S8) : clip8 x.val = x := by
  apply Fin.ext; exact clip8_val' (by omega)

theorem map_range_getD {β : Type} (l : List β) (d : β) (n : Nat) (h : l.length = n) :
    (List.range n).map (fun p => l.getD p d) = l := by
  subst h
  apply List.ext_getElem
  · simp
  · intro i h1 h2
    simp at h1
    simp [List.getD, h1]

theorem convImage_mode (m : Mode) (i : Image S8) : (convImage m i).mode = m := by
  unfold convImage; split
  · rename_i h; exact h.symm
  · rfl

theorem convImage_wf (m : Mode) (i : Image S8) (h : i.WF) : (convImage m i).WF := by
  unfold convImage; split
  · exact h
  · constructor
    · simp
    · intro b hb
      simp only [List.mem_map, List.mem_range] at hb
      obtain ⟨k, _, rfl⟩ := hb
      simp

theorem convImage_rgba_alpha (i : Image S8) (hwf : i.WF) (ha : i.mode.hasAlpha = true) :
    (convImage .RGBA i).bands[3]? = i.bands.getLast? := by
  obtain ⟨mode, w, h, bands⟩ := i
  obtain ⟨hl, hb⟩ := hwf
  cases mode <;> simp [Mode.hasAlpha] at ha
  · -- LA
    simp only [Mode.nbands] at hl
    obtain ⟨g, a, rfl⟩ := len2 hl
    have hal : a.length = w * h := hb a (by simp)
    have : (List.range (w * h)).map (fun p => clip8 (a.getD p 0).val) = a := by
      simp only [clip8_fin']; exact map_range_getD a 0 _ hal
    have h3 : (3 : Nat) < Mode.RGBA.nbands := by decide
    simp [convImage, convPixel, toRGBA, h3, List.getD] at this ⊢
    exact this
  · -- RGBA
    simp only [Mode.nbands] at hl
    obtain ⟨r, g, b, a, rfl⟩ := len4 hl
    simp [convImage]

theorem pil_lawful : pil.Lawful where
  conv_mode := convImage_mode
  conv_width m i := by show (convImage m i).width = i.width; unfold convImage; split <;> rfl
  conv_height m i := by show (convImage m i).height = i.height; unfold convImage; split <;> rfl
  conv_wf := convImage_wf
  conv_self i _ := by show convImage i.mode i = i; simp [convImage]
  conv_rgba_alpha := convImage_rgba_alpha

end PsdVerif.PixelSamples
