/-
C06 — cost of the counting payload readers, part 1: the judgement and its rules.

`Cost a b k d p x` for a counting run `x : CE (β × Nat)` started at cursor `p ≤ d.length` of the stream `d`:

  success at `p'`:  `p + k ≤ p'`, `p' ≤ d.length`  and  ticks + bytes ≤ `a · (p' − p) + b`
  failure `e`:      `e ≠ Err.other` (no loop ran out of fuel)  and  ticks + bytes ≤ `a · (d.length − p) + b`

so a reader is paid by the bytes it CONSUMED when it succeeds and by the bytes that were LEFT when it fails — never by a
count or a length it found in the data. Rules: `Cost.bind` (sequencing: `max` of the coefficients, sum of the
constants and of the progress), `Cost.step` (a step on no stream or on another stream: tick, nested run), `Cost.ite`,
the primitives, and the three loops:

  `readCountC_cost`      `for _ in range(n)` with a body that consumes ≥ 1 byte when it succeeds: the bound does not
                         mention `n` (an over-large count stops at the first item that fails);
  `readCountC_cost_fixed` any body, `n` a constant: `(b + 1) · n` is added;
  `readWhileC_cost`      `while is_readable(fp, m)`: never out of fuel.
-/
import PsdVerif.Model.PayloadCost
import PsdVerif.Lemmas.SafeCost3

namespace PsdVerif.PayloadCost
open PsdVerif PsdVerif.Codec PsdVerif.PsdCost PsdVerif.Payload PsdVerif.Payload3 PsdVerif.Safe PsdVerif.SafeCost

def Cost {β : Type} (a b k : Nat) (d : B) (p : Nat) (x : CE (β × Nat)) : Prop :=
  match x.1 with
  | .ok (_, p') => p + k ≤ p' ∧ p' ≤ d.length ∧ x.2.w ≤ a * (p' - p) + b
  | .error e => e ≠ .other ∧ x.2.w ≤ a * (d.length - p) + b

/-- for every stream and every cursor inside it -/
def CostR {β : Type} (a b k : Nat) (x : RC β) : Prop := ∀ d p, p ≤ d.length → Cost a b k d p (x d p)

theorem Cost.of_ok {β : Type} {a b k : Nat} {d : B} {p : Nat} {x : CE (β × Nat)} {v : β} {p' : Nat}
    (h : Cost a b k d p x) (hx : x.1 = .ok (v, p')) : p + k ≤ p' ∧ p' ≤ d.length ∧ x.2.w ≤ a * (p' - p) + b := by
  unfold Cost at h; rw [hx] at h; exact h

theorem Cost.of_error {β : Type} {a b k : Nat} {d : B} {p : Nat} {x : CE (β × Nat)} {e : Err}
    (h : Cost a b k d p x) (hx : x.1 = .error e) : e ≠ .other ∧ x.2.w ≤ a * (d.length - p) + b := by
  unfold Cost at h; rw [hx] at h; exact h

theorem Cost.intro {β : Type} {a b k : Nat} {d : B} {p : Nat} {x : CE (β × Nat)}
    (hok : ∀ v p', x.1 = .ok (v, p') → p + k ≤ p' ∧ p' ≤ d.length ∧ x.2.w ≤ a * (p' - p) + b)
    (herr : ∀ e, x.1 = .error e → e ≠ .other ∧ x.2.w ≤ a * (d.length - p) + b) : Cost a b k d p x := by
  unfold Cost
  cases hx : x.1 with
  | error e => exact herr e hx
  | ok y => obtain ⟨v, p'⟩ := y; exact hok v p' hx

/-- whatever the outcome: at most `a · (bytes left) + b` -/
theorem Cost.w_le {β : Type} {a b k : Nat} {d : B} {p : Nat} {x : CE (β × Nat)} (h : Cost a b k d p x) :
    x.2.w ≤ a * (d.length - p) + b := by
  cases hx : x.1 with
  | error e => exact (h.of_error hx).2
  | ok y =>
    obtain ⟨v, p'⟩ := y
    have h1 := h.of_ok hx
    have : a * (p' - p) ≤ a * (d.length - p) := Nat.mul_le_mul_left a (by omega)
    omega

theorem Cost.ne_other {β : Type} {a b k : Nat} {d : B} {p : Nat} {x : CE (β × Nat)} (h : Cost a b k d p x) :
    x.1 ≠ .error .other := fun hx => (h.of_error hx).1 rfl

theorem Cost.mono {β : Type} {a a' b b' k k' : Nat} {d : B} {p : Nat} {x : CE (β × Nat)}
    (h : Cost a' b' k' d p x) (ha : a' ≤ a) (hb : b' ≤ b) (hk : k ≤ k') : Cost a b k d p x := by
  refine Cost.intro (fun v p' hx => ?_) (fun e hx => ?_)
  · have h1 := h.of_ok hx
    have : a' * (p' - p) ≤ a * (p' - p) := Nat.mul_le_mul_right _ ha
    exact ⟨by omega, h1.2.1, by omega⟩
  · have h1 := h.of_error hx
    have : a' * (d.length - p) ≤ a * (d.length - p) := Nat.mul_le_mul_right _ ha
    exact ⟨h1.1, by omega⟩

theorem mul_split (a : Nat) {x y z : Nat} (h : x + y = z) : a * x + a * y = a * z := by
  rw [← Nat.mul_add, h]

theorem Cost.ok {β : Type} {d : B} {q : Nat} (v : β) (hq : q ≤ d.length) :
    Cost 0 0 0 d q (CE.ok (v, q) : CE (β × Nat)) := by
  refine Cost.intro (fun v' p' hx => ?_) (fun e hx => by cases hx)
  cases hx
  have : (CE.ok (v, q) : CE (β × Nat)).2.w = 0 := rfl
  exact ⟨by omega, hq, by omega⟩

/-- success somewhere ahead in the stream (a reader that ends with the cursor of an earlier step) -/
theorem Cost.ok_at {β : Type} {d : B} {p q k : Nat} (v : β) (hq : q ≤ d.length) (hk : p + k ≤ q) :
    Cost 0 0 k d p (CE.ok (v, q) : CE (β × Nat)) := by
  refine Cost.intro (fun v' p' hx => ?_) (fun e hx => by cases hx)
  cases hx
  have : (CE.ok (v, q) : CE (β × Nat)).2.w = 0 := rfl
  exact ⟨hk, hq, by omega⟩

theorem Cost.error {β : Type} {d : B} {p : Nat} (k : Nat) {e : Err} (he : e ≠ .other) :
    Cost 0 0 k d p (CE.error e : CE (β × Nat)) := by
  refine Cost.intro (fun v' p' hx => by cases hx) (fun e' hx => ?_)
  cases hx
  have : (CE.error e : CE (β × Nat)).2.w = 0 := rfl
  exact ⟨he, by omega⟩

theorem Cost.ite {β : Type} {a₁ a₂ b₁ b₂ k₁ k₂ : Nat} {d : B} {p : Nat} {c : Prop} [Decidable c]
    {x y : CE (β × Nat)} (hx : c → Cost a₁ b₁ k₁ d p x) (hy : ¬ c → Cost a₂ b₂ k₂ d p y) :
    Cost (max a₁ a₂) (max b₁ b₂) (min k₁ k₂) d p (if c then x else y) := by
  split
  · exact (hx ‹_›).mono (Nat.le_max_left ..) (Nat.le_max_left ..) (Nat.min_le_left ..)
  · exact (hy ‹_›).mono (Nat.le_max_right ..) (Nat.le_max_right ..) (Nat.min_le_right ..)

/-- `if c then x else raise e` -/
theorem Cost.ite_else_error {β : Type} {a b k : Nat} {d : B} {p : Nat} {c : Prop} [Decidable c]
    {x : CE (β × Nat)} {e : Err} (hx : c → Cost a b k d p x) (he : e ≠ .other) :
    Cost a b k d p (if c then x else CE.error e) := by
  split
  · exact hx ‹_›
  · exact (Cost.error k he).mono (Nat.zero_le _) (Nat.zero_le _) (Nat.le_refl _)

/-- `if c then raise e else y` -/
theorem Cost.ite_then_error {β : Type} {a b k : Nat} {d : B} {p : Nat} {c : Prop} [Decidable c]
    {y : CE (β × Nat)} {e : Err} (he : e ≠ .other) (hy : ¬ c → Cost a b k d p y) :
    Cost a b k d p (if c then CE.error e else y) := by
  split
  · exact (Cost.error k he).mono (Nat.zero_le _) (Nat.zero_le _) (Nat.le_refl _)
  · exact hy ‹_›

/-- sequencing on the same stream -/
theorem Cost.bind {α β : Type} {a₁ a₂ b₁ b₂ k₁ k₂ : Nat} {d : B} {p : Nat} {m : CE (β × Nat)}
    {f : β × Nat → CE (α × Nat)} (hm : Cost a₁ b₁ k₁ d p m)
    (hf : ∀ v p₁, m.1 = .ok (v, p₁) → p₁ ≤ d.length → Cost a₂ b₂ k₂ d p₁ (f (v, p₁))) :
    Cost (max a₁ a₂) (b₁ + b₂) (k₁ + k₂) d p (m >>= f) := by
  have hm' := hm.mono (Nat.le_max_left a₁ a₂) (Nat.le_refl _) (Nat.le_refl _)
  cases hm1 : m.1 with
  | error e =>
    rw [bind_err' hm1]
    refine Cost.intro (fun _ _ hx => by cases hx) (fun e' hx => ?_)
    cases hx
    have h1 := hm'.of_error hm1
    exact ⟨h1.1, by show m.2.w ≤ _; omega⟩
  | ok y =>
    obtain ⟨v, p₁⟩ := y
    have h1 := hm'.of_ok hm1
    have h2' := (hf v p₁ hm1 h1.2.1).mono (Nat.le_max_right a₁ a₂) (Nat.le_refl _) (Nat.le_refl _)
    rw [bind_ok' hm1]
    refine Cost.intro (fun v' p' hx => ?_) (fun e' hx => ?_)
    · have h2 := h2'.of_ok hx
      have hs := mul_split (max a₁ a₂) (x := p₁ - p) (y := p' - p₁) (z := p' - p) (by omega)
      refine ⟨by omega, h2.2.1, ?_⟩
      show (m.2 + (f (v, p₁)).2).w ≤ _
      rw [w_add]
      omega
    · have h2 := h2'.of_error hx
      have hs := mul_split (max a₁ a₂) (x := p₁ - p) (y := d.length - p₁) (z := d.length - p) (by omega)
      refine ⟨h2.1, ?_⟩
      show (m.2 + (f (v, p₁)).2).w ≤ _
      rw [w_add]
      omega

/-- a step that is not a read on this stream (a tick, a nested run, a validator): it costs at most `n` -/
theorem Cost.step {α γ : Type} {a b k n : Nat} {d : B} {p : Nat} {m : CE γ} {f : γ → CE (α × Nat)}
    (hm : m.2.w ≤ n) (hne : m.1 ≠ .error .other) (hf : ∀ y, m.1 = .ok y → Cost a b k d p (f y)) :
    Cost a (n + b) k d p (m >>= f) := by
  cases hm1 : m.1 with
  | error e =>
    rw [bind_err' hm1]
    refine Cost.intro (fun _ _ hx => by cases hx) (fun e' hx => ?_)
    cases hx
    refine ⟨fun h => hne (by rw [hm1, h]), ?_⟩
    show m.2.w ≤ _
    omega
  | ok y =>
    have h2' := hf y hm1
    rw [bind_ok' hm1]
    refine Cost.intro (fun v' p' hx => ?_) (fun e' hx => ?_)
    · have h2 := h2'.of_ok hx
      refine ⟨h2.1, h2.2.1, ?_⟩
      show (m.2 + (f y).2).w ≤ _
      rw [w_add]
      omega
    · have h2 := h2'.of_error hx
      refine ⟨h2.1, ?_⟩
      show (m.2 + (f y).2).w ≤ _
      rw [w_add]
      omega

theorem Cost.tick {α : Type} {a b k : Nat} {d : B} {p : Nat} {f : Unit → CE (α × Nat)}
    (hf : Cost a b k d p (f ())) : Cost a (1 + b) k d p (PsdCost.tick >>= f) :=
  Cost.step (Nat.le_of_eq tick_w) (by intro h; cases h) (fun _ _ => hf)

/-- the value is post-processed: `let (v, p') ← m; ok (g v, p')` -/
theorem Cost.map {α β : Type} {a b k : Nat} {d : B} {p : Nat} {m : CE (β × Nat)} {g : β → α}
    (hm : Cost a b k d p m) : Cost a b k d p (m >>= fun x => CE.ok (g x.1, x.2)) := by
  have h := Cost.bind hm (f := fun x => CE.ok (g x.1, x.2)) (fun v p₁ _ hp => Cost.ok (g v) hp)
  exact h.mono (by omega) (by omega) (by omega)

/-- `cbind h`: the next statement of a `do` block costs `h`; the continuation gets the new cursor `≤ d.length` -/
macro "cbind " t:term : tactic => `(tactic| (apply Cost.bind $t; intro _ _ _ _; try dsimp only))
/-- the last statement: `ok` at the current cursor, or a `raise` -/
macro "cdone" : tactic => `(tactic| first | exact Cost.ok _ (by assumption) | exact Cost.error _ (by decide))
/-- `if c then raise e else …` / `if c then … else raise e` / any `if` -/
macro "cif" : tactic => `(tactic| first
  | (apply Cost.ite_then_error (by decide); intro _)
  | (apply Cost.ite_else_error (he := by decide); intro _)
  | (apply Cost.ite <;> intro _))
/-- close the side goals `a' ≤ a`, `b' ≤ b`, `k ≤ k'` of `Cost.mono` -/
macro "cside" : tactic => `(tactic| all_goals first | decide | omega | (simp only [Nat.max_def]; split <;> omega))

/-! ### erasure -/

theorem liftE_fst {α : Type} (r : Except Err α) : (liftE r).1 = r := rfl
theorem liftE_w {α : Type} (r : Except Err α) : (liftE r).2.w = 0 := rfl

/-! ### primitives -/

theorem prim_cost {β : Type} {r : Except Err (β × Nat)} {bytes k : Nat} {d : B} {p : Nat}
    (hok : ∀ v p', r = .ok (v, p') → p' = p + bytes ∧ p' ≤ d.length ∧ k ≤ bytes)
    (herr : ∀ e, r = .error e → e ≠ .other ∧ bytes ≤ d.length - p) : Cost 1 1 k d p (prim r bytes) := by
  refine Cost.intro (fun v p' hx => ?_) (fun e hx => ?_)
  · have := hok v p' hx
    have hw : (prim r bytes).2.w = 1 + bytes := rfl
    rw [hw]
    exact ⟨by omega, by omega, by omega⟩
  · have := herr e hx
    have hw : (prim r bytes).2.w = 1 + bytes := rfl
    rw [hw]
    exact ⟨this.1, by omega⟩

theorem readN_err {n : Nat} {d : B} {p : Nat} {e : Err} (h : readN n d p = .error e) : e = .ioError := by
  unfold readN at h
  split at h
  · cases h
  · cases h; rfl

theorem readN_err_len {n : Nat} {d : B} {p : Nat} {e : Err} (h : readN n d p = .error e) : d.length < p + n := by
  unfold readN at h
  split at h
  · cases h
  · omega

theorem readU_err_len {w : Nat} {d : B} {p : Nat} {e : Err} (h : readU w d p = .error e) : d.length < p + w := by
  unfold readU at h
  split at h
  · cases h
  · rename_i e' h'; exact readN_err_len h'

theorem readSkip_err_len {n : Nat} {d : B} {p : Nat} {e : Err} (h : readSkip n d p = .error e) : d.length < p + n := by
  unfold readSkip at h
  split at h
  · cases h
  · rename_i e' h'; exact readN_err_len h'

/-- a failed read of a fixed size has cost at most what was left -/
theorem fail_w_le {β : Type} {a b k : Nat} {d : B} {p : Nat} {x : CE (β × Nat)} {e : Err} (n : Nat)
    (h : Cost a b k d p x) (hx : x.1 = .error e) (hs : d.length - p ≤ n) : x.2.w ≤ a * n + b := by
  have := (h.of_error hx).2
  have : a * (d.length - p) ≤ a * n := Nat.mul_le_mul_left a hs
  omega

theorem readNC_cost (n : Nat) {d : B} {p : Nat} : Cost 1 1 n d p (readNC n d p) := by
  unfold readNC
  refine prim_cost (fun v p' h => ?_) (fun e h => ?_)
  · have := readN_ok h
    exact ⟨by omega, by omega, by omega⟩
  · have := readN_err h
    subst this
    exact ⟨by decide, by omega⟩

theorem readUpToC_cost (n : Nat) {d : B} {p : Nat} (hp : p ≤ d.length := by assumption) : Cost 1 1 0 d p (readUpToC n d p) := by
  unfold readUpToC
  refine prim_cost (fun v p' h => ?_) (fun e h => ?_)
  · have := readUpTo_ok h
    exact ⟨by omega, by omega, by omega⟩
  · exact absurd h (readUpTo_ne_error n d p e)

/-- `fp.read(n)` that returned `n` bytes -/
theorem readUpToC_ok {n : Nat} {d : B} {p : Nat} {x : B} {p' : Nat} (h : (readUpToC n d p).1 = .ok (x, p')) :
    p' = p + x.length ∧ x.length ≤ d.length - p ∧ x.length ≤ n := by
  have := readUpTo_ok (h : readUpTo n d p = .ok (x, p'))
  omega

theorem readAllC_cost {d : B} {p : Nat} (hp : p ≤ d.length := by assumption) : Cost 1 1 0 d p (readAllC d p) := by
  unfold readAllC
  refine prim_cost (fun v p' h => ?_) (fun e h => ?_)
  · have := readAll_ok h
    exact ⟨by omega, by omega, by omega⟩
  · unfold readAll at h; cases h

theorem readPyC_cost (n : Int) {d : B} {p : Nat} (hp : p ≤ d.length := by assumption) : Cost 1 1 0 d p (readPyC n d p) := by
  unfold readPyC
  split
  · exact readAllC_cost
  · split
    · exact (Cost.error 0 (by decide)).mono (by decide) (by decide) (Nat.le_refl _)
    · exact readUpToC_cost _

theorem readSizedC_cost (n : Nat) {d : B} {p : Nat} (hp : p ≤ d.length := by assumption) : Cost 1 1 0 d p (readSizedC n d p) :=
  readPyC_cost _

theorem readUC_cost (w : Nat) {d : B} {p : Nat} : Cost 1 1 w d p (readUC w d p) := by
  unfold readUC
  exact Cost.map (g := beVal) (readNC_cost w)

theorem readI16C_cost {d : B} {p : Nat} : Cost 1 1 2 d p (readI16C d p) := by
  unfold readI16C
  exact Cost.map (g := natToI16) (readUC_cost 2)

theorem readI32C_cost {d : B} {p : Nat} : Cost 1 1 4 d p (readI32C d p) := by
  unfold readI32C
  exact Cost.map (g := natToI32) (readUC_cost 4)

theorem readF64C_cost {d : B} {p : Nat} : Cost 1 1 8 d p (readF64C d p) := by
  unfold readF64C
  exact Cost.map (g := UInt64.ofNat) (readUC_cost 8)

theorem readBoolC_cost {d : B} {p : Nat} : Cost 1 1 1 d p (readBoolC d p) := by
  unfold readBoolC
  exact Cost.map (g := fun n => n != 0) (readUC_cost 1)

theorem readSC_cost (w : Nat) {d : B} {p : Nat} : Cost 1 1 w d p (readSC w d p) := by
  unfold readSC
  exact Cost.map (g := natToS w) (readUC_cost w)

theorem readSkipC_cost (n : Nat) {d : B} {p : Nat} : Cost 1 1 n d p (readSkipC n d p) := by
  unfold readSkipC
  exact Cost.map (g := fun _ => ()) (readNC_cost n)

theorem readPaddingC_cost (size divisor : Nat) {d : B} {p : Nat} (hp : p ≤ d.length := by assumption) :
    Cost 1 1 0 d p (readPaddingC size divisor d p) := by
  unfold readPaddingC
  exact Cost.map (g := fun _ => ()) (readUpToC_cost _)

theorem max11 : max 1 1 = 1 := rfl

/-- `read_length_block`: four reads at most, the block and its frame -/
theorem readLenBlockC_cost (skip w pad : Nat) {d : B} {p : Nat} (hp : p ≤ d.length := by assumption) :
    Cost 1 4 (skip + w) d p (readLenBlockC skip w pad d p) := by
  apply Cost.mono
  case h =>
    unfold readLenBlockC
    cbind (readNC_cost skip)
    cbind (readUC_cost w)
    cif
    cbind (readUpToC_cost _)
    cif
    cbind (readPaddingC_cost _ pad)
    cdone
  cside

/-- the block `read_length_block` returned lies inside what it consumed -/
theorem readLenBlockC_ok {skip w pad : Nat} {d : B} {p : Nat} {x : B} {p' : Nat}
    (h : (readLenBlockC skip w pad d p).1 = .ok (x, p')) : p + skip + w + x.length ≤ p' ∧ p' ≤ d.length := by
  rw [readLenBlockC_fst] at h
  exact readLenBlock_ok h

theorem readPascalC_cost (pad : Nat) {d : B} {p : Nat} (hp : p ≤ d.length := by assumption) : Cost 1 3 1 d p (readPascalC pad d p) := by
  apply Cost.mono
  case h =>
    unfold readPascalC
    cbind (readUC_cost 1)
    cbind (readUpToC_cost _)
    cif
    cbind (readPaddingC_cost _ pad)
    cdone
  cside

theorem isReadableC_w' (n : Nat) (d : B) (p : Nat) : (isReadableC n d p).2.w = 1 + min n (d.length - p) := rfl

/-! ### `read_fmt` as one read -/

theorem fmtDecC_fst (fs : List FI) (d : B) (p : Nat) : (fmtDecC fs d p).1 = fmtDec fs d p := rfl

theorem readU_err {w : Nat} {d : B} {p : Nat} {e : Err} (h : readU w d p = .error e) : e = .ioError := by
  unfold readU at h
  split at h
  · cases h
  · rename_i e' h'
    cases h
    exact readN_err h'

theorem FT_dec_ok {t : FT} {d : B} {p : Nat} {v : FV} {p' : Nat} (h : t.dec d p = .ok (v, p')) :
    p' = p + t.size ∧ p' ≤ d.length := by
  cases t with
  | u w =>
    simp only [FT.dec] at h
    split at h
    · rename_i n q hq; cases h; have := readU_ok hq; exact ⟨this.1, by omega⟩
    · cases h
  | s w =>
    simp only [FT.dec, readS] at h
    split at h
    · rename_i z q hq
      cases h
      split at hq
      · rename_i n q' hq'; cases hq; have := readU_ok hq'; exact ⟨this.1, by omega⟩
      · cases hq
    · cases h
  | q =>
    simp only [FT.dec, readBool] at h
    split at h
    · rename_i z q hq
      cases h
      split at hq
      · rename_i n q' hq'; cases hq; have := readU_ok hq'; exact ⟨this.1, by omega⟩
      · cases hq
    · cases h
  | str n =>
    simp only [FT.dec] at h
    split at h
    · rename_i b q hq; cases h; have := readN_ok hq; exact ⟨this.1, by omega⟩
    · cases h

theorem FT_dec_err {t : FT} {d : B} {p : Nat} {e : Err} (h : t.dec d p = .error e) : e = .ioError := by
  cases t with
  | u w =>
    simp only [FT.dec] at h
    split at h
    · cases h
    · rename_i e' h'; cases h; exact readU_err h'
  | s w =>
    simp only [FT.dec, readS] at h
    split at h
    · cases h
    · rename_i e' h'
      cases h
      split at h'
      · cases h'
      · rename_i e'' h''; cases h'; exact readU_err h''
  | q =>
    simp only [FT.dec, readBool] at h
    split at h
    · cases h
    · rename_i e' h'
      cases h
      split at h'
      · cases h'
      · rename_i e'' h''; cases h'; exact readU_err h''
  | str n =>
    simp only [FT.dec] at h
    split at h
    · cases h
    · rename_i e' h'; cases h; exact readN_err h'

theorem fmtDec_ok {fs : List FI} {d : B} {p : Nat} {v : Row} {p' : Nat} (h : fmtDec fs d p = .ok (v, p')) (hp : p ≤ d.length) :
    p' = p + fmtSize fs ∧ p' ≤ d.length := by
  induction fs generalizing p v with
  | nil => unfold fmtDec at h; cases h; exact ⟨rfl, hp⟩
  | cons f fs ih =>
    cases f with
    | pad n =>
      unfold fmtDec at h
      split at h
      · rename_i u q hq
        unfold readSkip at hq
        split at hq
        · rename_i x q' hq'
          cases hq
          have h0 := readN_ok hq'
          have := ih h (by omega)
          unfold fmtSize
          omega
        · cases hq
      · cases h
    | fld t =>
      unfold fmtDec at h
      split at h
      · rename_i x q hq
        have h0 := FT_dec_ok hq
        split at h
        · rename_i vs q' hq'
          cases h
          have := ih hq' h0.2
          unfold fmtSize
          omega
        · cases h
      · cases h

theorem fmtDec_err {fs : List FI} {d : B} {p : Nat} {e : Err} (h : fmtDec fs d p = .error e) : e = .ioError := by
  induction fs generalizing p with
  | nil => unfold fmtDec at h; cases h
  | cons f fs ih =>
    cases f with
    | pad n =>
      unfold fmtDec at h
      split at h
      · exact ih h
      · rename_i e' hq
        cases h
        unfold readSkip at hq
        split at hq
        · cases hq
        · rename_i e'' hq'; cases hq; exact readN_err hq'
    | fld t =>
      unfold fmtDec at h
      split at h
      · split at h
        · cases h
        · rename_i e' hq'; cases h; exact ih hq'
      · rename_i e' hq; cases h; exact FT_dec_err hq

theorem fmtDecC_cost (fs : List FI) {d : B} {p : Nat} (hp : p ≤ d.length := by assumption) : Cost 1 1 (fmtSize fs) d p (fmtDecC fs d p) := by
  unfold fmtDecC
  refine prim_cost (fun v p' h => ?_) (fun e h => ?_)
  · have := fmtDec_ok h hp
    have : min (fmtSize fs) (d.length - p) = fmtSize fs := by omega
    omega
  · have := fmtDec_err h
    subst this
    exact ⟨by decide, by omega⟩

/-! ### strings and keys -/

theorem readUStrC_fst (pad : Nat) (d : B) (p : Nat) : (readUStrC pad d p).1 = readUStr pad d p := by
  unfold readUStrC
  split <;> rfl

theorem readU32_ok {d : B} {p n p1 : Nat} (h : Unicode.readU32 d p = .ok (n, p1)) : p1 = p + 4 ∧ p + 4 ≤ d.length := by
  unfold Unicode.readU32 at h
  split at h
  · rename_i a b c e hs
    cases h
    refine ⟨rfl, ?_⟩
    have hl : (Unicode.slice d p 4).length = 4 := by rw [hs]; rfl
    unfold Unicode.slice at hl
    simp only [List.length_take, List.length_drop] at hl
    omega
  · cases h

theorem readU32_err {d : B} {p : Nat} {e : Err} (h : Unicode.readU32 d p = .error e) : e = .ioError := by
  unfold Unicode.readU32 at h
  split at h
  · cases h
  · cases h; rfl

theorem slice_len (d : B) (p n : Nat) : (Unicode.slice d p n).length = min n (d.length - p) := by
  unfold Unicode.slice
  simp only [List.length_take, List.length_drop]

theorem readUStrC_cost (pad : Nat) (hpad : pad ≠ 0 := by decide) {d : B} {p : Nat} (hp : p ≤ d.length := by assumption) :
    Cost 1 3 4 d p (readUStrC pad d p) := by
  refine Cost.intro (fun v p' hx => ?_) (fun e hx => ?_)
  · rw [readUStrC_fst] at hx
    unfold readUStrC
    unfold readUStr Unicode.readUnicodeString at hx
    split at hx
    · cases hx
    · rename_i n p1 h32
      have h1 := readU32_ok h32
      simp only at hx
      split at hx
      · cases hx
      · rename_i p3 hpd
        split at hx
        · cases hx
        · rename_i us hus
          cases hx
          unfold Unicode.readPadding at hpd
          rw [if_neg hpad] at hpd
          cases hpd
          rw [h32]
          have s1 := slice_len d p1 (2 * n)
          have s2 := slice_len d (p1 + (Unicode.slice d p1 (2 * n)).length) (Unicode.padLen (4 + 2 * n) pad)
          show _ ∧ _ ∧ 3 + (4 + (Unicode.slice d p1 (2 * n)).length +
            (Unicode.slice d (p1 + (Unicode.slice d p1 (2 * n)).length) (Unicode.padLen (4 + 2 * n) pad)).length) ≤ _
          refine ⟨by omega, by omega, by omega⟩
  · rw [readUStrC_fst] at hx
    unfold readUStrC
    unfold readUStr Unicode.readUnicodeString at hx
    split at hx
    · rename_i e' h32
      cases hx
      have := readU32_err h32
      subst this
      rw [h32]
      refine ⟨by decide, ?_⟩
      show 1 + min 4 (d.length - p) ≤ _
      omega
    · rename_i n p1 h32
      have h1 := readU32_ok h32
      simp only at hx
      rw [h32]
      have s1 := slice_len d p1 (2 * n)
      have s2 := slice_len d (p1 + (Unicode.slice d p1 (2 * n)).length) (Unicode.padLen (4 + 2 * n) pad)
      have hw : 3 + (4 + (Unicode.slice d p1 (2 * n)).length +
            (Unicode.slice d (p1 + (Unicode.slice d p1 (2 * n)).length) (Unicode.padLen (4 + 2 * n) pad)).length) ≤
          1 * (d.length - p) + 3 := by omega
      split at hx
      · rename_i e' hpd
        cases hx
        unfold Unicode.readPadding at hpd
        rw [if_neg hpad] at hpd
        cases hpd
      · split at hx
        · cases hx
          exact ⟨by decide, hw⟩
        · cases hx

theorem greadU32_ok {d : B} {p n p1 : Nat} (h : Globals.readU32 d p = .ok (n, p1)) : p1 = p + 4 ∧ p + 4 ≤ d.length := by
  unfold Globals.readU32 at h
  split at h
  · split at h
    · cases h; exact ⟨rfl, ‹_›⟩
    · cases h
  · cases h

theorem greadU32_err {d : B} {p : Nat} {e : Err} (h : Globals.readU32 d p = .error e) : e = .ioError := by
  unfold Globals.readU32 at h
  split at h
  · split at h
    · cases h
    · cases h; rfl
  · cases h; rfl

theorem readKeyC_fst (terms : B → Bool) (d : B) (p : Nat) : (readKeyC terms d p).1 = Globals.readKey terms d p := by
  unfold readKeyC
  split <;> rfl

theorem readKeyC_cost (terms : B → Bool) {d : B} {p : Nat} (hp : p ≤ d.length := by assumption) : Cost 1 2 4 d p (readKeyC terms d p) := by
  refine Cost.intro (fun v p' hx => ?_) (fun e hx => ?_)
  · rw [readKeyC_fst] at hx
    unfold readKeyC
    unfold Globals.readKey at hx
    split at hx
    · cases hx
    · rename_i len p1 h32
      have h1 := greadU32_ok h32
      rw [h32]
      have hl : ((d.drop p1).take (if len = 0 then 4 else len)).length ≤ d.length - p1 := by
        simp only [List.length_take, List.length_drop]; omega
      dsimp only at hx ⊢
      generalize (if len = 0 then 4 else len) = n at hx hl ⊢
      split at hx
      · cases hx
      · split at hx <;> (cases hx; exact ⟨by omega, by omega, by show 2 + (4 + _) ≤ _; omega⟩)
  · rw [readKeyC_fst] at hx
    unfold readKeyC
    unfold Globals.readKey at hx
    split at hx
    · rename_i e' h32
      cases hx
      have := greadU32_err h32
      subst this
      rw [h32]
      refine ⟨by decide, ?_⟩
      show 1 + min 4 (d.length - p) ≤ _
      omega
    · rename_i len p1 h32
      have h1 := greadU32_ok h32
      rw [h32]
      have hl : ((d.drop p1).take (if len = 0 then 4 else len)).length ≤ d.length - p1 := by
        simp only [List.length_take, List.length_drop]; omega
      dsimp only at hx ⊢
      generalize (if len = 0 then 4 else len) = n at hx hl ⊢
      split at hx
      · cases hx   -- a key cut short by the end of the stream (repo commit bb0349d)
        refine ⟨by decide, ?_⟩
        show 2 + (4 + _) ≤ _
        omega
      · split at hx <;> cases hx

/-! ### `try … except IOError` -/

theorem orElseIOC_fst {α : Type} {ac bc : RC α} {a b : R α} (ha : ∀ d p, (ac d p).1 = a d p) (hb : ∀ d p, (bc d p).1 = b d p)
    (d : B) (p : Nat) : (orElseIOC ac bc d p).1 = orElseIO a b d p := by
  unfold orElseIOC orElseIO
  rw [← ha, ← hb]
  cases h : (ac d p).1 with
  | ok y => simp only [h]
  | error e => cases e <;> simp only [h]

/-- the first attempt is a read of a fixed size: when it fails it has cost at most `c` -/
theorem orElseIOC_cost {α : Type} {ac bc : RC α} {a₁ b₁ k₁ a₂ b₂ k₂ c : Nat} {d : B} {p : Nat}
    (ha : Cost a₁ b₁ k₁ d p (ac d p)) (hc : ∀ e, (ac d p).1 = .error e → (ac d p).2.w ≤ c)
    (hb : Cost a₂ b₂ k₂ d p (bc d p)) :
    Cost (max a₁ a₂) (max b₁ (c + b₂)) (min k₁ k₂) d p (orElseIOC ac bc d p) := by
  have key : (ac d p).1 = .error .ioError → Cost (max a₁ a₂) (max b₁ (c + b₂)) (min k₁ k₂) d p
      ((bc d p).1, (ac d p).2 + (bc d p).2) := by
    intro h
    have h1 := hc _ h
    refine (Cost.mono (a' := a₂) (b' := c + b₂) (k' := k₂) ?_ (Nat.le_max_right ..) (Nat.le_max_right ..) (Nat.min_le_right ..))
    refine Cost.intro (fun v p' hx => ?_) (fun e hx => ?_)
    · have h2 := hb.of_ok (hx : (bc d p).1 = _)
      refine ⟨h2.1, h2.2.1, ?_⟩
      show ((ac d p).2 + (bc d p).2).w ≤ _
      rw [w_add]
      omega
    · have h2 := hb.of_error (hx : (bc d p).1 = _)
      refine ⟨h2.1, ?_⟩
      show ((ac d p).2 + (bc d p).2).w ≤ _
      rw [w_add]
      omega
  have other := ha.mono (Nat.le_max_left a₁ a₂) (Nat.le_max_left b₁ (c + b₂)) (Nat.min_le_left k₁ k₂)
  unfold orElseIOC
  cases h : (ac d p).1 with
  | ok y => simpa only [h] using other
  | error e => cases e <;> first | (simpa only [h] using key h) | (simpa only [h] using other)

end PsdVerif.PayloadCost
