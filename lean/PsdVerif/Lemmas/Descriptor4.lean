/-
C01 descriptors — the fuel of `dec` is never exhausted: on any stream, from any cursor inside it, the model reader
does not return `recursionError` (which it uses for "out of fuel" only). Every reader moves the cursor forward and
keeps it inside the stream, and every nested value starts after a successfully read 4-byte OSType.
-/
import PsdVerif.Lemmas.Descriptor1

namespace PsdVerif.Descriptor
open PsdVerif PsdVerif.Codec

/-- at `(d, p)`: success moves the cursor forward and keeps it inside the stream; failure is not "out of fuel" -/
def OkAt {α : Type} (r : R α) (d : B) (p : Nat) : Prop :=
  match r d p with
  | .ok (_, p') => p ≤ p' ∧ p' ≤ d.length
  | .error e => e ≠ .recursionError

/-- `OkAt` at every cursor `q ≤ p ≤ d.length` -/
def GoodIn {α : Type} (d : B) (q : Nat) (r : R α) : Prop := ∀ p, q ≤ p → p ≤ d.length → OkAt r d p

theorem GoodIn.mono {α : Type} {d : B} {q q' : Nat} {r : R α} (h : GoodIn d q r) (hq : q ≤ q') : GoodIn d q' r :=
  fun p hp hl => h p (Nat.le_trans hq hp) hl

theorem GoodIn.bind {α β : Type} {d : B} {q : Nat} {r : R α} {f : α → R β} (hr : GoodIn d q r)
    (hf : ∀ a, GoodIn d q (f a)) : GoodIn d q (r >>- f) := by
  intro p hq hl
  have h1 := hr p hq hl
  unfold OkAt at h1 ⊢
  unfold rbind
  cases h : r d p with
  | error e => rw [h] at h1; exact h1
  | ok x =>
    obtain ⟨a, p1⟩ := x
    rw [h] at h1
    simp only at h1 ⊢
    have h2 := hf a p1 (Nat.le_trans hq h1.1) h1.2
    unfold OkAt at h2
    cases h' : f a d p1 with
    | error e => rw [h'] at h2; exact h2
    | ok y =>
      obtain ⟨b, p2⟩ := y
      rw [h'] at h2
      simp only at h2 ⊢
      exact ⟨Nat.le_trans h1.1 h2.1, h2.2⟩

theorem GoodIn.pure {α : Type} (d : B) (q : Nat) (a : α) : GoodIn d q (rpure a) := by
  intro p _ hl
  simp only [OkAt, rpure]
  exact ⟨Nat.le_refl _, hl⟩

theorem GoodIn.fail {α : Type} (d : B) (q : Nat) (e : Err) (he : e ≠ .recursionError) : GoodIn d q (rfail e : R α) := by
  intro p _ _
  simp only [OkAt, rfail]
  exact he

theorem okAt_of {α : Type} {r : R α} {d : B} {p : Nat}
    (hok : ∀ a p', r d p = .ok (a, p') → p ≤ p' ∧ p' ≤ d.length)
    (herr : ∀ e, r d p = .error e → e ≠ .recursionError) : OkAt r d p := by
  unfold OkAt
  cases h : r d p with
  | error e => exact herr e h
  | ok x => obtain ⟨a, p'⟩ := x; exact hok a p' h

/-! ### primitives -/

theorem good_readN (d : B) (q n : Nat) : GoodIn d q (readN n) := by
  intro p _ _
  unfold OkAt readN
  split
  · rename_i h; split at h
    · cases h; constructor <;> omega
    · cases h
  · rename_i h; split at h
    · cases h
    · cases h; decide

theorem good_readU (d : B) (q w : Nat) : GoodIn d q (readU w) := by
  intro p hq hl
  have h := good_readN d q w p hq hl
  unfold OkAt at h ⊢
  unfold readU
  cases h' : readN w d p with
  | error e => rw [h'] at h; exact h
  | ok x => obtain ⟨a, p1⟩ := x; rw [h'] at h; exact h

theorem good_readUpTo (d : B) (q n : Nat) : GoodIn d q (readUpTo n) := by
  intro p _ hl
  simp only [OkAt, readUpTo, List.length_take, List.length_drop]
  omega

theorem good_readI32 (d : B) (q : Nat) : GoodIn d q readI32 := by
  intro p hq hl
  have h := good_readU d q 4 p hq hl
  unfold OkAt at h ⊢
  unfold readI32
  cases h' : readU 4 d p with
  | error e => rw [h'] at h; exact h
  | ok x => obtain ⟨a, p1⟩ := x; rw [h'] at h; exact h

theorem good_readI64 (d : B) (q : Nat) : GoodIn d q readI64 :=
  (good_readU d q 8).bind fun _ => GoodIn.pure d q _

theorem good_readBool (d : B) (q : Nat) : GoodIn d q readBool :=
  (good_readU d q 1).bind fun _ => GoodIn.pure d q _

/-- the `fp.read(length)` guard of `read_length_block`: a declared length of `2^63` or more raises OverflowError -/
def roverflow (n : Nat) : R Unit := fun d p => if overflows n d then .error .overflowError else .ok ((), p)

theorem good_roverflow (d : B) (q n : Nat) : GoodIn d q (roverflow n) := by
  intro p _ hl
  unfold OkAt roverflow
  by_cases hov : overflows n d
  · simp only [hov, if_true]; decide
  · simp only [hov, if_false]; exact ⟨Nat.le_refl _, hl⟩

/-- `read_length_block` written with the reader monad (the same function) -/
theorem readLenBlock_eq (pad : Nat) :
    readLenBlock 0 4 pad = ((readN 0) >>- fun _ => (readU 4) >>- fun n => (roverflow n) >>- fun _ => (readUpTo n) >>- fun x =>
      if x.length ≠ n then rfail .ioError else (readUpTo (padAmount n pad)) >>- fun _ => rpure x) := by
  funext d p
  unfold readLenBlock rbind readPadding roverflow
  cases readN 0 d p with
  | error e => rfl
  | ok a =>
    obtain ⟨_, p0⟩ := a
    dsimp only
    cases readU 4 d p0 with
    | error e => rfl
    | ok b =>
      obtain ⟨n, p1⟩ := b
      dsimp only
      by_cases hov : overflows n d
      · simp only [hov, if_true]
      · simp only [hov, if_false]
        cases readUpTo n d p1 with
        | error e => rfl
        | ok c =>
          obtain ⟨x, p2⟩ := c
          dsimp only
          split
          · rfl
          · dsimp only
            cases readUpTo (padAmount n pad) d p2 with
            | error e => rfl
            | ok e => rfl

theorem good_readLenBlock (d : B) (q pad : Nat) : GoodIn d q (readLenBlock 0 4 pad) := by
  rw [readLenBlock_eq]
  refine (good_readN d q 0).bind fun _ => (good_readU d q 4).bind fun n => (good_roverflow d q n).bind fun _ =>
    (good_readUpTo d q n).bind fun x => ?_
  split
  · exact GoodIn.fail d q _ (by decide)
  · exact (good_readUpTo d q _).bind fun _ => GoodIn.pure d q _

theorem Globals.readU32_ok {d : B} {p n p1 : Nat} (h : Globals.readU32 d p = .ok (n, p1)) : p1 = p + 4 ∧ p + 4 ≤ d.length := by
  unfold Globals.readU32 at h
  split at h
  · split at h
    · cases h; exact ⟨rfl, ‹_›⟩
    · cases h
  · cases h

theorem Globals.readU32_err {d : B} {p : Nat} {e : Err} (h : Globals.readU32 d p = .error e) : e = .ioError := by
  unfold Globals.readU32 at h
  split at h
  · split at h
    · cases h
    · cases h; rfl
  · cases h; rfl

theorem good_readKey (tb : Tables) (d : B) (q : Nat) : GoodIn d q (readKeyR tb) := by
  intro p _ hl
  apply okAt_of
  · intro k p' h
    unfold readKeyR Globals.readKey at h
    cases h32 : Globals.readU32 d p with
    | error e => rw [h32] at h; cases h
    | ok x =>
      obtain ⟨n, p1⟩ := x
      obtain ⟨rfl, hb⟩ := Globals.readU32_ok h32
      rw [h32] at h
      dsimp only at h
      have hle : ((d.drop (p + 4)).take (if n = 0 then 4 else n)).length ≤ d.length - (p + 4) := by
        simp only [List.length_take, List.length_drop]; omega
      generalize (if n = 0 then 4 else n) = m at h hle
      generalize (d.drop (p + 4)).take m = kb at h hle
      by_cases hc : kb.length ≠ m
      · rw [if_pos hc] at h; cases h
      · rw [if_neg hc] at h
        by_cases hi : n = 0 ∧ ¬ tb.terms kb = true
        · rw [if_pos hi] at h; cases h; omega
        · rw [if_neg hi] at h; cases h; omega
  · intro e h
    unfold readKeyR Globals.readKey at h
    cases h32 : Globals.readU32 d p with
    | error e' => rw [h32] at h; cases h; rw [Globals.readU32_err h32]; decide
    | ok x =>
      obtain ⟨n, p1⟩ := x
      rw [h32] at h
      dsimp only at h
      generalize (if n = 0 then 4 else n) = m at h
      generalize (d.drop p1).take m = kb at h
      by_cases hc : kb.length ≠ m
      · rw [if_pos hc] at h; cases h; decide
      · rw [if_neg hc] at h
        by_cases hi : n = 0 ∧ ¬ tb.terms kb = true
        · rw [if_pos hi] at h; cases h
        · rw [if_neg hi] at h; cases h

theorem Unicode.readU32_bound {d : B} {p n p1 : Nat} (h : Unicode.readU32 d p = .ok (n, p1)) : p1 = p + 4 ∧ p + 4 ≤ d.length := by
  obtain ⟨_, hp1⟩ := Unicode.readU32_spec d p n p1 h
  refine ⟨hp1, ?_⟩
  unfold Unicode.readU32 at h
  split at h
  · rename_i a b c e hs
    have := congrArg List.length hs
    simp only [Unicode.slice, List.length_take, List.length_drop, List.length_cons, List.length_nil] at this
    omega
  · cases h

theorem good_readStr (d : B) (q : Nat) : GoodIn d q readStr := by
  intro p _ hl
  apply okAt_of
  · intro s p' h
    unfold readStr Unicode.readUnicodeString at h
    cases h32 : Unicode.readU32 d p with
    | error e => rw [h32] at h; cases h
    | ok x =>
      obtain ⟨n, p1⟩ := x
      obtain ⟨rfl, hb⟩ := Unicode.readU32_bound h32
      rw [h32] at h
      dsimp only at h
      unfold Unicode.readPadding at h
      simp only [Nat.one_ne_zero, if_false] at h
      have h1 := Unicode.slice_end_le d (p + 4) (2 * n) hb
      have h2 := Unicode.slice_end_le d (p + 4 + (Unicode.slice d (p + 4) (2 * n)).length) (Unicode.padLen (4 + 2 * n) 1) h1
      split at h
      · cases h
      · cases h; omega
  · intro e h
    unfold readStr Unicode.readUnicodeString at h
    cases h32 : Unicode.readU32 d p with
    | error e' =>
      rw [h32] at h; cases h
      unfold Unicode.readU32 at h32
      split at h32
      · cases h32
      · cases h32; decide
    | ok x =>
      obtain ⟨n, p1⟩ := x
      rw [h32] at h
      dsimp only at h
      unfold Unicode.readPadding at h
      simp only [Nat.one_ne_zero, if_false] at h
      split at h
      · cases h; decide
      · cases h

theorem good_unitOf (tb : Tables) (b : B) (d : B) (q : Nat) : GoodIn d q (unitOf tb b) := by
  unfold unitOf
  split
  · exact GoodIn.pure d q _
  · split
    · exact GoodIn.pure d q _
    · exact GoodIn.fail d q _ (by decide)

theorem good_readCount {α : Type} {d : B} {q : Nat} {item : R α} (h : GoodIn d q item) (n : Nat) :
    GoodIn d q (readCount item n) := by
  induction n with
  | zero => intro p _ hl; simp only [OkAt, readCount]; exact ⟨Nat.le_refl _, hl⟩
  | succ n ih =>
    have e : readCount item (n + 1) = (item >>- fun a => (readCount item n) >>- fun as => rpure (a :: as)) := by
      funext d p
      simp only [readCount, rbind, rpure]
      cases item d p with
      | error e => rfl
      | ok x =>
        obtain ⟨a, p1⟩ := x
        simp only
        cases readCount item n d p1 with
        | error e => rfl
        | ok y => rfl
    rw [e]
    exact h.bind fun _ => ih.bind fun _ => GoodIn.pure d q _

theorem good_readF64s (d : B) (q n : Nat) : GoodIn d q (readF64s n) := by
  intro p hq hl
  have hc := good_readCount (good_readU d q 8) n p hq hl
  unfold OkAt at hc
  apply okAt_of
  · intro a p' h
    unfold readF64s at h
    split at h
    · rw [h] at hc; exact hc
    · cases h
  · intro e h
    unfold readF64s at h
    split at h
    · rw [h] at hc; exact hc
    · cases h; decide

/-! ### OSType, then a nested value: the nested reader runs at least four bytes further -/

theorem Tag.ofBytes_some {b : B} {t : Tag} (h : Tag.ofBytes b = some t) : b.length = 4 := by
  unfold Tag.ofBytes at h
  have := List.find?_some h
  simp only [beq_iff_eq] at this
  rw [← this]
  exact Tag.length_bytes t

theorem good_tagged {d : B} {q : Nat} {rec : Tag → R DVal} (h : ∀ t, GoodIn d (q + 4) (rec t)) :
    GoodIn d q (tagged rec) := by
  intro p hq hl
  unfold OkAt tagged readTag rbind
  simp only [readUpTo]
  cases ht : Tag.ofBytes (List.take 4 (List.drop p d)) with
  | none => simp only [rfail]; decide
  | some t =>
    have h4 := Tag.ofBytes_some ht
    simp only [rpure, h4]
    simp only [List.length_take, List.length_drop] at h4
    have := h t (p + 4) (by omega) (by omega)
    unfold OkAt at this
    cases hr : rec t d (p + 4) with
    | error e => rw [hr] at this; exact this
    | ok x =>
      obtain ⟨v, p2⟩ := x
      rw [hr] at this
      simp only at this ⊢
      exact ⟨by omega, this.2⟩

theorem good_keyed {tb : Tables} {d : B} {q : Nat} {rec : Tag → R DVal} (h : ∀ t, GoodIn d (q + 4) (rec t)) :
    GoodIn d q (keyed tb rec) :=
  (good_readKey tb d q).bind fun _ => (good_tagged h).bind fun _ => GoodIn.pure d q _

theorem good_readBody {tb : Tables} {d : B} {q : Nat} {rec : Tag → R DVal} (h : ∀ t, GoodIn d (q + 4) (rec t)) :
    GoodIn d q (readBody tb rec) :=
  (good_readStr d q).bind fun _ => (good_readKey tb d q).bind fun _ => (good_readU d q 4).bind fun n =>
    (good_readCount (good_keyed h) n).bind fun _ => GoodIn.pure d q _

theorem good_decWith {tb : Tables} {d : B} {q : Nat} {rec : Tag → R DVal} (h : ∀ t, GoodIn d (q + 4) (rec t)) (t : Tag) :
    GoodIn d q (decWith tb rec t) := by
  have hint : ∀ it, GoodIn d q (decInt it) := fun it => (good_readI32 d q).bind fun _ => GoodIn.pure d q _
  have hcls : ∀ ct, GoodIn d q (decClass tb ct) := fun ct =>
    (good_readStr d q).bind fun _ => (good_readKey tb d q).bind fun _ => GoodIn.pure d q _
  have hraw : ∀ rt, GoodIn d q (decRaw rt) := fun rt => (good_readLenBlock d q 1).bind fun _ => GoodIn.pure d q _
  have hlist : ∀ lt, GoodIn d q (decList rec lt) := fun lt =>
    (good_readU d q 4).bind fun n => (good_readCount (good_tagged h) n).bind fun _ => GoodIn.pure d q _
  have hdesc : ∀ dt, GoodIn d q (decDesc tb rec dt) := fun dt => (good_readBody h).bind fun _ => GoodIn.pure d q _
  cases t <;> simp only [decWith]
  case integer => exact hint _
  case identifier => exact hint _
  case index => exact hint _
  case largeInteger => exact (good_readI64 d q).bind fun _ => GoodIn.pure d q _
  case boolean => exact (good_readBool d q).bind fun _ => GoodIn.pure d q _
  case double => exact (good_readU d q 8).bind fun _ => GoodIn.pure d q _
  case unitFloat =>
    exact (good_readN d q 4).bind fun u4 => (good_readU d q 8).bind fun _ => (good_unitOf tb u4 d q).bind fun _ =>
      GoodIn.pure d q _
  case unitFloats =>
    exact (good_readN d q 4).bind fun u4 => (good_readU d q 4).bind fun n => (good_unitOf tb u4 d q).bind fun _ =>
      (good_readF64s d q n).bind fun _ => GoodIn.pure d q _
  case string => exact (good_readStr d q).bind fun _ => GoodIn.pure d q _
  case enumerated => exact (good_readKey tb d q).bind fun _ => (good_readKey tb d q).bind fun _ => GoodIn.pure d q _
  case enumeratedReference =>
    exact (good_readStr d q).bind fun _ => (good_readKey tb d q).bind fun _ => (good_readKey tb d q).bind fun _ =>
      (good_readKey tb d q).bind fun _ => GoodIn.pure d q _
  case class1 => exact hcls _
  case class2 => exact hcls _
  case class3 => exact hcls _
  case property =>
    exact (good_readStr d q).bind fun _ => (good_readKey tb d q).bind fun _ => (good_readKey tb d q).bind fun _ =>
      GoodIn.pure d q _
  case name =>
    exact (good_readStr d q).bind fun _ => (good_readKey tb d q).bind fun _ => (good_readStr d q).bind fun _ =>
      GoodIn.pure d q _
  case offset =>
    exact (good_readStr d q).bind fun _ => (good_readKey tb d q).bind fun _ => (good_readU d q 4).bind fun _ =>
      GoodIn.pure d q _
  case rawData => exact hraw _
  case alias => exact hraw _
  case path => exact hraw _
  case list => exact hlist _
  case reference => exact hlist _
  case descriptor => exact hdesc _
  case globalObject => exact hdesc _
  case objectArray => exact (good_readU d q 4).bind fun _ => (good_readBody h).bind fun _ => GoodIn.pure d q _

/-- with `fuel` levels left the reader is fine from every cursor that leaves fewer than `4 * fuel` bytes -/
theorem good_decBody (tb : Tables) (d : B) (fuel : Nat) : ∀ t, GoodIn d (d.length + 1 - 4 * fuel) (decBody tb fuel t) := by
  induction fuel with
  | zero => intro t p hq hl; omega
  | succ fuel ih =>
    intro t
    unfold decBody
    apply good_decWith
    intro t'
    exact (ih t').mono (by omega)

theorem good_dec (tb : Tables) (d : B) : ∀ t, GoodIn d 0 (decBody tb (d.length + 1) t) := by
  intro t
  have h := good_decBody tb d (d.length + 1) t
  have e : d.length + 1 - 4 * (d.length + 1) = 0 := by omega
  rw [e] at h
  exact h

end PsdVerif.Descriptor
