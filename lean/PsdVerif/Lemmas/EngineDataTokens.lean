/-
Lemmas for C18: the tokenizer on plain (non-string) tokens, the token-stream relation
`Toks`, and the Integer / Bool tokens. Core Lean only.
-/
import PsdVerif.Lemmas.EngineDataString

namespace PsdVerif.EngineData

/-! ### takeWhile / dropWhile on `l ++ m` -/

theorem takeWhile_all {α} (p : α → Bool) (l m : List α) (hl : ∀ x ∈ l, p x = true)
    (hm : m = [] ∨ ∃ b t, m = b :: t ∧ p b = false) : (l ++ m).takeWhile p = l := by
  induction l with
  | nil =>
    rcases hm with rfl | ⟨b, t, rfl, hb⟩
    · rfl
    · simp [List.takeWhile, hb]
  | cons a l ih =>
    have ha : p a = true := hl a (by simp)
    simp [List.takeWhile, ha]
    exact ih (fun x hx => hl x (by simp [hx]))

theorem dropWhile_all {α} (p : α → Bool) (l m : List α) (hl : ∀ x ∈ l, p x = true)
    (hm : m = [] ∨ ∃ b t, m = b :: t ∧ p b = false) : (l ++ m).dropWhile p = m := by
  induction l with
  | nil =>
    rcases hm with rfl | ⟨b, t, rfl, hb⟩
    · rfl
    · simp [List.dropWhile, hb]
  | cons a l ih =>
    have ha : p a = true := hl a (by simp)
    simp [List.dropWhile, ha]
    exact ih (fun x hx => hl x (by simp [hx]))

theorem length_dropWhile_le {α} (p : α → Bool) (l : List α) : (l.dropWhile p).length ≤ l.length := by
  induction l with
  | nil => simp
  | cons a l ih =>
    simp only [List.dropWhile]
    split
    · simp; omega
    · simp

/-! ### `next` -/

/-- "Nothing, or a divider, follows": the condition under which a plain token ends. -/
def Sep (m : BL) : Prop := m = [] ∨ ∃ b t, m = b :: t ∧ isDiv b = true

theorem Sep_nil : Sep [] := Or.inl rfl
theorem Sep_cons (b : UInt8) (t : BL) (h : isDiv b = true) : Sep (b :: t) := Or.inr ⟨b, t, rfl, h⟩

theorem strStart_of_head (a : UInt8) (t : BL) (h : a ≠ 0x28) : strStart (a :: t) = false := by
  cases t with
  | nil => rfl
  | cons b t => cases t with
    | nil => rfl
    | cons c t => simp [strStart, h]

theorem isDiv_ne_lp (b : UInt8) (h : isDiv b = true) : b ≠ 0x28 := by
  rintro rfl; revert h; decide

theorem next_div (b : UInt8) (d : BL) (h : isDiv b = true) : next (b :: d) = next d := by
  simp [next, strStart_of_head b d (isDiv_ne_lp b h), h]

theorem next_ws (w d : BL) (h : ∀ b ∈ w, isDiv b = true) : next (w ++ d) = next d := by
  induction w with
  | nil => rfl
  | cons b w ih =>
    rw [List.cons_append, next_div _ _ (h b (by simp))]
    exact ih (fun x hx => h x (by simp [hx]))

theorem next_dropDiv (d : BL) : next (d.dropWhile isDiv) = next d := by
  induction d with
  | nil => rfl
  | cons b d ih =>
    by_cases h : isDiv b = true
    · simp [List.dropWhile, h, next_div, ih]
    · simp [List.dropWhile, h]

/-- A plain token: non-empty, no divider byte inside, does not start with `(`. -/
structure Plain (tok : BL) : Prop where
  ne : tok ≠ []
  nodiv : ∀ b ∈ tok, isDiv b = false
  head : tok.head? ≠ some 0x28

theorem next_plain (tok m : BL) (hp : Plain tok) (hm : Sep m) :
    next (tok ++ m) = .ok (some (tok, m.dropWhile isDiv)) := by
  obtain ⟨hne, hnd, hh⟩ := hp
  cases tok with
  | nil => exact absurd rfl hne
  | cons a tk =>
    have ha : a ≠ 0x28 := by intro h; subst h; simp at hh
    have hda : isDiv a = false := hnd a (by simp)
    have hl : ∀ x ∈ a :: tk, (fun x => !isDiv x) x = true := by
      intro x hx; simp [hnd x hx]
    have hm' : m = [] ∨ ∃ b t, m = b :: t ∧ (fun x => !isDiv x) b = false := by
      rcases hm with h | ⟨b, t, h1, h2⟩
      · exact Or.inl h
      · exact Or.inr ⟨b, t, h1, by simp [h2]⟩
    have e1 := takeWhile_all (fun x => !isDiv x) (a :: tk) m hl hm'
    have e2 := dropWhile_all (fun x => !isDiv x) (a :: tk) m hl hm'
    rw [List.cons_append] at e1 e2 ⊢
    rw [next.eq_2]
    simp only [strStart_of_head a _ ha, hda, e1, e2]
    simp

/-! ### `nextTok` and the token-stream relation -/

/-- Iterating the tokenizer over `d` yields exactly these tokens and then stops. -/
inductive Toks : BL → List (BL × Tok) → Prop
  | nil {d : BL} : nextTok d = .ok none → Toks d []
  | cons {d tok : BL} {ty : Tok} {rest : BL} {ts : List (BL × Tok)} :
      nextTok d = .ok (some (tok, ty, rest)) → Toks rest ts → Toks d ((tok, ty) :: ts)

theorem Toks_congr {d d' : BL} {ts} (h : nextTok d' = nextTok d) (ht : Toks d ts) : Toks d' ts := by
  cases ht with
  | nil h0 => exact .nil (h.trans h0)
  | cons h0 h1 => exact .cons (h.trans h0) h1

theorem nextTok_of_next {d d' : BL} (h : next d' = next d) : nextTok d' = nextTok d := by
  simp [nextTok, h]

theorem Toks_nil : Toks [] [] := .nil (by simp [nextTok, next])

theorem Toks_ws {w d : BL} {ts} (h : ∀ b ∈ w, isDiv b = true) (ht : Toks d ts) : Toks (w ++ d) ts :=
  Toks_congr (nextTok_of_next (next_ws w d h)) ht

theorem Toks_div {b : UInt8} {d : BL} {ts} (h : isDiv b = true) (ht : Toks d ts) : Toks (b :: d) ts :=
  Toks_congr (nextTok_of_next (next_div b d h)) ht

theorem Toks_plain {tok m : BL} {ty : Tok} {ts} (hp : Plain tok) (hc : classify tok = some ty)
    (hm : Sep m) (ht : Toks m ts) : Toks (tok ++ m) ((tok, ty) :: ts) := by
  refine .cons (rest := m.dropWhile isDiv) ?_ (Toks_congr (nextTok_of_next (next_dropDiv m)) ht)
  simp [nextTok, next_plain tok m hp hm, hc]

theorem Toks_str {u m : BL} {ts} (ht : Toks m ts) :
    Toks (strBytes u ++ m) ((strBytes u, .string) :: ts) := by
  refine .cons (rest := m) ?_ ht
  simp [nextTok, next_strBytes, classify_strBytes]

theorem strScan_length : ∀ (n : Nat) (d x r : BL), d.length ≤ n → strScan d = some (x, r) →
    r.length < d.length := by
  intro n
  induction n with
  | zero =>
    intro d x r hd h
    cases d with
    | nil => simp [strScan] at h
    | cons b t => simp at hd
  | succ n ih =>
    intro d x r hd h
    cases d with
    | nil => simp [strScan] at h
    | cons b t =>
      rw [strScan.eq_def] at h
      simp only at h
      by_cases h1 : b = 0x29
      · simp only [h1, if_true] at h
        injection h with h; injection h with _ h; subst h; simp
      · simp only [h1, if_false] at h
        by_cases h2 : b = 0x5C
        · simp only [h2, if_true] at h
          cases t with
          | nil => simp at h
          | cons c t' =>
            simp only at h
            cases hs : strScan t' with
            | none => simp [hs] at h
            | some xr =>
              obtain ⟨x', r'⟩ := xr
              simp only [hs] at h
              injection h with h; injection h with _ h; subst h
              have := ih t' x' r' (by simp at hd; omega) hs
              simp; omega
        · simp only [h2, if_false] at h
          cases hs : strScan t with
          | none => simp [hs] at h
          | some xr =>
            obtain ⟨x', r'⟩ := xr
            simp only [hs] at h
            injection h with h; injection h with _ h; subst h
            have := ih t x' r' (by simp at hd; omega) hs
            simp; omega

theorem strToken_length (d x r : BL) (h : strToken d = some (x, r)) : r.length < d.length := by
  unfold strToken at h
  split at h
  · rename_i a b c t
    cases hs : strScan t with
    | none => simp [hs] at h
    | some xr =>
      obtain ⟨x', r'⟩ := xr
      simp only [hs] at h
      injection h with h; injection h with _ h; subst h
      have := strScan_length _ t x' r' (Nat.le_refl _) hs
      simp; omega
  · cases h

/-- Each token consumes at least one byte. -/
theorem next_length (d tok rest : BL) (h : next d = .ok (some (tok, rest))) : rest.length < d.length := by
  induction d with
  | nil => simp [next] at h
  | cons b t ih =>
    rw [next.eq_2] at h
    by_cases h1 : strStart (b :: t) = true
    · simp only [h1, if_true] at h
      cases hs : strToken (b :: t) with
      | none => simp [hs] at h
      | some xr =>
        obtain ⟨x', r'⟩ := xr
        simp only [hs] at h
        injection h with h; injection h with h; injection h with _ h; subst h
        exact strToken_length _ _ _ hs
    · simp only [h1] at h
      by_cases h2 : isDiv b = true
      · simp only [h2, if_true] at h
        have := ih h; simp; omega
      · simp only [h2] at h
        injection h with h; injection h with h; injection h with _ h
        subst h
        have e1 := length_dropWhile_le isDiv (List.dropWhile (fun x => !isDiv x) (b :: t))
        have e2 : List.dropWhile (fun x => !isDiv x) (b :: t) = List.dropWhile (fun x => !isDiv x) t := by
          simp [List.dropWhile, h2]
        rw [e2] at e1
        have e3 := length_dropWhile_le (fun x => !isDiv x) t
        simp only [e2, List.length_cons]; omega

theorem nextTok_length (d tok : BL) (ty : Tok) (rest : BL)
    (h0 : nextTok d = .ok (some (tok, ty, rest))) : rest.length < d.length := by
  unfold nextTok at h0
  cases hn : next d with
  | error e => simp [hn] at h0
  | ok o =>
    cases o with
    | none => simp [hn] at h0
    | some tr =>
      obtain ⟨tok', rest'⟩ := tr
      simp only [hn] at h0
      cases hc : classify tok' with
      | none => simp [hc] at h0
      | some ty' =>
        simp only [hc] at h0
        injection h0 with h0; injection h0 with h0; injection h0 with _ h0; injection h0 with _ h0
        subst h0
        exact next_length _ _ _ hn

theorem Toks_length {d : BL} {ts} (h : Toks d ts) : ts.length ≤ d.length := by
  induction h with
  | nil _ => simp
  | cons h0 _ ih =>
    have := nextTok_length _ _ _ _ h0
    simp only [List.length_cons]; omega

end PsdVerif.EngineData
