/-
Helper lemmas for C16 (tagged-block dictionary operations, field codecs).
-/
import PsdVerif.Model.Attr

namespace PsdVerif.Attr

/-! ### keys -/

theorem keys_distinct :
    kLuni ≠ kLsct ∧ kLuni ≠ kLsdk ∧ kLuni ≠ kLspf ∧ kLsct ≠ kLsdk ∧ kLsct ≠ kLspf ∧ kLsdk ≠ kLspf := by decide

/-! ### the ordered dict -/

theorem findBlock_setData_same (k : Key) (d : BData) (bs : List Block) :
    findBlock k (setData k d bs) = some ⟨sig8BIM, k, d⟩ := by
  induction bs with
  | nil => simp [setData, findBlock]
  | cons b bs ih =>
    simp only [setData]
    split
    · simp [findBlock]
    · rename_i h
      simp only [findBlock, List.find?_cons, h] at ih ⊢
      exact ih

theorem findBlock_setData_other (k k' : Key) (d : BData) (bs : List Block) (h : k' ≠ k) :
    findBlock k' (setData k d bs) = findBlock k' bs := by
  induction bs with
  | nil => simp [setData, findBlock, Ne.symm h]
  | cons b bs ih =>
    simp only [setData]
    split
    · rename_i hb
      have hb' : b.key = k := by simpa using hb
      have : (b.key == k') = false := by simp [hb', Ne.symm h]
      simp [findBlock, this, Ne.symm h]
    · simp only [findBlock, List.find?_cons] at ih ⊢
      rw [ih]

theorem findBlock_mapData_other (k k' : Key) (f : BData → BData) (bs : List Block) (h : k' ≠ k) :
    findBlock k' (mapData k f bs) = findBlock k' bs := by
  induction bs with
  | nil => simp [mapData]
  | cons b bs ih =>
    simp only [mapData]
    split
    · rename_i hb
      have hb' : b.key = k := by simpa using hb
      have : (b.key == k') = false := by simp [hb', Ne.symm h]
      simp [findBlock, this]
    · simp only [findBlock, List.find?_cons] at ih ⊢
      rw [ih]

theorem findBlock_mapData_same (k : Key) (f : BData → BData) (bs : List Block) :
    findBlock k (mapData k f bs) = (findBlock k bs).map (fun b => { b with data := f b.data }) := by
  induction bs with
  | nil => simp [mapData, findBlock]
  | cons b bs ih =>
    simp only [mapData]
    split
    · rename_i hb
      simp [findBlock, hb]
    · rename_i hb
      simp only [findBlock, List.find?_cons, hb] at ih ⊢
      exact ih

theorem findBlock_key (k : Key) (bs : List Block) (b : Block) (h : findBlock k bs = some b) : b.key = k := by
  have := List.find?_some h
  simpa using this

/-! ### `Group._setting` under dictionary updates -/

theorem findBlock_mapData_isSome (k k' : Key) (f : BData → BData) (bs : List Block) :
    (findBlock k' (mapData k f bs)).isSome = (findBlock k' bs).isSome := by
  by_cases h : k' = k
  · subst h; rw [findBlock_mapData_same]; simp
  · rw [findBlock_mapData_other _ _ _ _ h]

theorem settingKey_mapData (k : Key) (f : BData → BData) (bs : List Block) :
    settingKey (mapData k f bs) = settingKey bs := by
  simp only [settingKey, findBlock_mapData_isSome]

theorem settingKey_setData (k : Key) (d : BData) (bs : List Block) (h1 : kLsdk ≠ k) (h2 : kLsct ≠ k) :
    settingKey (setData k d bs) = settingKey bs := by
  simp only [settingKey, findBlock_setData_other _ _ _ _ h1, findBlock_setData_other _ _ _ _ h2]

theorem settingKey_mem (bs : List Block) (k : Key) (h : settingKey bs = some k) : k = kLsdk ∨ k = kLsct := by
  simp only [settingKey] at h
  split at h
  · left; injection h with h; exact h.symm
  · split at h
    · right; injection h with h; exact h.symm
    · simp at h

theorem setting_setData (k : Key) (d : BData) (bs : List Block) (h1 : kLsdk ≠ k) (h2 : kLsct ≠ k) :
    setting (setData k d bs) = setting bs := by
  simp only [setting, settingKey_setData _ _ _ h1 h2]
  split
  · rename_i k' hk
    rcases settingKey_mem _ _ hk with rfl | rfl
    · rw [findBlock_setData_other _ _ _ _ h1]
    · rw [findBlock_setData_other _ _ _ _ h2]
  · rfl

theorem setting_mapData_other (k : Key) (f : BData → BData) (bs : List Block) (h1 : kLsdk ≠ k) (h2 : kLsct ≠ k) :
    setting (mapData k f bs) = setting bs := by
  simp only [setting, settingKey_mapData]
  split
  · rename_i k' hk
    rcases settingKey_mem _ _ hk with rfl | rfl
    · rw [findBlock_mapData_other _ _ _ _ h1]
    · rw [findBlock_mapData_other _ _ _ _ h2]
  · rfl

theorem setting_mapData_same (k : Key) (f : BData → BData) (bs : List Block) (h : settingKey bs = some k) :
    setting (mapData k f bs) = (setting bs).map f := by
  simp only [setting, settingKey_mapData, h, findBlock_mapData_same]
  cases findBlock k bs <;> simp

/-! ### field codecs -/

theorem u32_u32be (n : Nat) (h : n < 4294967296) :
    u32 (UInt8.ofNat (n / 16777216 % 256)) (UInt8.ofNat (n / 65536 % 256)) (UInt8.ofNat (n / 256 % 256))
      (UInt8.ofNat (n % 256)) = n := by
  simp only [u32, UInt8.toNat_ofNat']
  omega

theorem length4 {α} (s : List α) (h : s.length = 4) : ∃ a b c d, s = [a, b, c, d] := by
  match s, h with
  | [a, b, c, d], _ => exact ⟨a, b, c, d, rfl⟩

theorem pad4_of_length4 (s : List UInt8) (h : s.length = 4) : pad4 s = s := by
  obtain ⟨a, b, c, d, rfl⟩ := length4 s h
  rfl

theorem flags_roundtrip (f : Flags) : Flags.ofByte f.toByte = f := by
  rcases f with ⟨a, b, c, d, e, f, g, h⟩
  cases a <;> cases b <;> cases c <;> cases d <;> cases e <;> cases f <;> cases g <;> cases h <;> rfl

theorem flags_byte_le (f : Flags) : f.toByte ≤ 255 := by
  rcases f with ⟨a, b, c, d, e, f, g, h⟩
  cases a <;> cases b <;> cases c <;> cases d <;> cases e <;> cases f <;> cases g <;> cases h <;> decide

def DividerOk (E : Env) (d : Divider) : Prop :=
  d.kind ≤ 3 ∧
  ((d.sig = none ∧ d.blend = none ∧ d.sub = none) ∨
   (d.sig = some sig8BIM ∧ ∃ m, d.blend = some m ∧ m ∈ E.blendKeys ∧ m.length = 4 ∧
      ∀ x, d.sub = some x → x < 4294967296))

theorem divider_roundtrip (E : Env) (d : Divider) (h : DividerOk E d) :
    ∃ bs, encDivider d = .ok bs ∧ decDivider E bs = .ok d := by
  obtain ⟨kind, sg, bl, sb⟩ := d
  obtain ⟨hk, h⟩ := h
  simp only at hk h
  have hk' : kind < 4294967296 := by omega
  have hu := u32_u32be kind hk'
  rcases h with ⟨rfl, rfl, rfl⟩ | ⟨rfl, m, rfl, hm, hl, hs⟩
  · refine ⟨u32be kind, ?_, ?_⟩
    · simp [encDivider, hk']
    · simp only [u32be, decDivider, hu]
      simp [Nat.not_lt.mpr hk]
  · obtain ⟨m0, m1, m2, m3, rfl⟩ := length4 m hl
    cases sb with
    | none =>
      refine ⟨u32be kind ++ sig8BIM ++ [m0, m1, m2, m3], ?_, ?_⟩
      · simp [encDivider, hk', pad4, sig8BIM]
      · simp only [u32be, sig8BIM, List.cons_append, List.nil_append, decDivider, hu]
        simp [Nat.not_lt.mpr hk, hm]
    | some x =>
      have hx := hs x rfl
      have hux := u32_u32be x hx
      refine ⟨u32be kind ++ sig8BIM ++ [m0, m1, m2, m3] ++ u32be x, ?_, ?_⟩
      · simp [encDivider, hk', pad4, sig8BIM, hx]
      · simp only [u32be, sig8BIM, List.cons_append, List.nil_append, decDivider, hu, hux]
        simp [Nat.not_lt.mpr hk, hm]

/-! ### blocks and layers that are written and read back identically -/

/-- a block as the reader produces it (and as every setter leaves it) -/
def BlockOk (E : Env) (b : Block) : Prop :=
  (b.sig = sig8BIM ∨ b.sig = sig8B64) ∧ b.key.length = 4 ∧
  match b.data with
  | .str s => b.key = kLuni ∧ ∃ bs, E.uniEnc s = .ok bs ∧ E.uniDec bs = .ok s
  | .divider d => (b.key = kLsct ∨ b.key = kLsdk) ∧ DividerOk E d
  | .int v => b.key = kLspf ∧ v < 4294967296
  | .raw _ => b.key ≠ kLuni ∧ b.key ≠ kLsct ∧ b.key ≠ kLsdk ∧ b.key ≠ kLspf

theorem block_roundtrip (E : Env) (b : Block) (h : BlockOk E b) :
    ∃ sb, encBlock E b = .ok sb ∧ decBlock E sb = .ok b := by
  obtain ⟨sg, key, data⟩ := b
  obtain ⟨hs, hk, hd⟩ := h
  simp only at hs hk hd
  have hsig : pad4 sg = sg := by rcases hs with rfl | rfl <;> rfl
  have hsig' : ¬ (sg ≠ sig8BIM ∧ sg ≠ sig8B64) := by rcases hs with rfl | rfl <;> simp
  have hkey : pad4 key = key := pad4_of_length4 key hk
  cases data with
  | str s =>
    obtain ⟨rfl, bs, he, hdec⟩ := hd
    refine ⟨⟨sg, kLuni, bs⟩, ?_, ?_⟩
    · simp [encBlock, encPayload, he, hsig, hkey]
    · simp [decBlock, hsig', hdec]
  | divider d =>
    obtain ⟨hkk, hok⟩ := hd
    obtain ⟨bs, he, hdec⟩ := divider_roundtrip E d hok
    refine ⟨⟨sg, key, bs⟩, ?_, ?_⟩
    · simp [encBlock, encPayload, he, hsig, hkey]
    · have hne : key ≠ kLuni := by rcases hkk with rfl | rfl <;> decide
      simp [decBlock, hsig', hne, hkk, hdec]
  | int v =>
    obtain ⟨rfl, hv⟩ := hd
    refine ⟨⟨sg, kLspf, u32be v⟩, ?_, ?_⟩
    · simp [encBlock, encPayload, hv, hsig, hkey]
    · have h1 : kLspf ≠ kLuni := by decide
      have h2 : ¬ (kLspf = kLsct ∨ kLspf = kLsdk) := by decide
      simp [decBlock, hsig', h1, h2, u32be, u32_u32be v hv]
  | raw bs =>
    obtain ⟨h1, h2, h3, h4⟩ := hd
    refine ⟨⟨sg, key, bs⟩, ?_, ?_⟩
    · simp [encBlock, encPayload, hsig, hkey]
    · simp [decBlock, hsig', h1, h2, h3, h4]

theorem blocks_roundtrip (E : Env) (bs : List Block) (h : ∀ b ∈ bs, BlockOk E b) :
    ∃ sbs, bs.mapM (encBlock E) = .ok sbs ∧ sbs.mapM (decBlock E) = .ok bs := by
  induction bs with
  | nil => exact ⟨[], rfl, rfl⟩
  | cons b bs ih =>
    obtain ⟨sb, h1, h2⟩ := block_roundtrip E b (h b (List.mem_cons_self ..))
    obtain ⟨sbs, h3, h4⟩ := ih (fun x hx => h x (List.mem_cons_of_mem _ hx))
    refine ⟨sb :: sbs, ?_, ?_⟩
    · simp [List.mapM_cons, h1, h3]; rfl
    · simp [List.mapM_cons, h2, h4]; rfl

/-- a layer state that the record writer accepts and the reader returns unchanged -/
structure Saveable (E : Env) (l : Layer) : Prop where
  rect : inI32 l.top = true ∧ inI32 l.left = true ∧ inI32 l.bottom = true ∧ inI32 l.right = true
  blend : l.blend ∈ E.blendKeys ∧ l.blend.length = 4
  opacity : l.opacity ≤ 255
  clipping : l.clipping ≤ 1
  legacy : ∃ bs, E.macEnc l.legacyName = .ok bs ∧ bs.length ≤ 255 ∧ E.macDec bs = .ok l.legacyName
  blocks : ∀ b ∈ l.blocks, BlockOk E b

theorem roundtrip (E : Env) (l : Layer) (h : Saveable E l) :
    ∃ st, save E l = .ok st ∧ reopen E l st = .ok l := by
  obtain ⟨⟨r1, r2, r3, r4⟩, ⟨hb, hbl⟩, ho, hc, ⟨nb, hn1, hn2, hn3⟩, hbs⟩ := h
  obtain ⟨sbs, he, hd⟩ := blocks_roundtrip E l.blocks hbs
  have hleg : encLegacy E l = .ok nb := by
    simp only [encLegacy, hn1]
    split <;> simp [hn2]
  refine ⟨{ top := l.top, left := l.left, bottom := l.bottom, right := l.right, blend := pad4 l.blend,
              opacity := l.opacity, clipping := l.clipping, flags := l.flags.toByte, name := nb,
              blocks := sbs }, ?_, ?_⟩
  · simp [save, r1, r2, r3, r4, hleg, he, show ¬ (l.opacity > 255 ∨ l.clipping > 255) by omega]
  · simp [reopen, hn3, hd, pad4_of_length4 _ hbl, hb, flags_roundtrip,
      show ¬ l.opacity > 255 by omega, show ¬ l.clipping > 1 by omega]


/-! ### groups carry a divider block -/

/-- a group carries a section divider block (that is what makes it a group in `PSDImage._init`
and `Group.new`) -/
def WF (l : Layer) : Prop := l.kind.isGroup = true → ∃ d, setting l.blocks = some (.divider d)
theorem setting_some_key (bs : List Block) (x : BData) (h : setting bs = some x) : ∃ k, settingKey bs = some k := by
  simp only [setting] at h
  split at h
  · rename_i k hk; exact ⟨k, hk⟩
  · simp at h


/-! ### membership in updated dictionaries; laws of the environment -/

theorem mem_setData (k : Key) (d : BData) (bs : List Block) (b : Block) (h : b ∈ setData k d bs) :
    b ∈ bs ∨ b = ⟨sig8BIM, k, d⟩ := by
  induction bs with
  | nil => simp [setData] at h; exact Or.inr h
  | cons x xs ih =>
    simp only [setData] at h
    split at h
    · rcases List.mem_cons.mp h with rfl | h
      · exact Or.inr rfl
      · exact Or.inl (List.mem_cons_of_mem _ h)
    · rcases List.mem_cons.mp h with rfl | h
      · exact Or.inl (List.mem_cons_self ..)
      · rcases ih h with h | h
        · exact Or.inl (List.mem_cons_of_mem _ h)
        · exact Or.inr h

theorem mem_mapData (k : Key) (f : BData → BData) (bs : List Block) (b : Block) (h : b ∈ mapData k f bs) :
    b ∈ bs ∨ ∃ b0 ∈ bs, b0.key = k ∧ b = { b0 with data := f b0.data } := by
  induction bs with
  | nil => simp [mapData] at h
  | cons x xs ih =>
    simp only [mapData] at h
    split at h
    · rename_i hx
      rcases List.mem_cons.mp h with rfl | h
      · exact Or.inr ⟨x, List.mem_cons_self .., by simpa using hx, rfl⟩
      · exact Or.inl (List.mem_cons_of_mem _ h)
    · rcases List.mem_cons.mp h with rfl | h
      · exact Or.inl (List.mem_cons_self ..)
      · rcases ih h with h | ⟨b0, hb0, hk, rfl⟩
        · exact Or.inl (List.mem_cons_of_mem _ h)
        · exact Or.inr ⟨b0, List.mem_cons_of_mem _ hb0, hk, rfl⟩

/-- what the proofs need from the tables and the string codecs -/
structure EnvLaws (E : Env) : Prop where
  keys4 : ∀ m ∈ E.blendKeys, m.length = 4
  norm : kNorm ∈ E.blendKeys
  macLen : ∀ s bs, E.macEnc s = .ok bs → bs.length = s.length
  macRT : ∀ s bs, E.macEnc s = .ok bs → E.macDec bs = .ok s
  macQ : ∃ bs, E.macEnc [63] = .ok bs

/-- the value can be written: the unicode codec takes the name; the moved rectangle stays in int32 -/
def storable (E : Env) (a : Attr) (v : Val) (l : Layer) : Prop :=
  match a, v with
  | .name, .str s => ∃ bs, E.uniEnc s = .ok bs ∧ E.uniDec bs = .ok s
  | .left, .int i => ∀ w, width l = .ok w → inI32 (i + w) = true
  | .top, .int i => ∀ h, height l = .ok h → inI32 (i + h) = true
  | _, _ => True

theorem blockOk_putBlend (E : Env) (hE : EnvLaws E) (m : Key) (hm : m ∈ E.blendKeys) (b0 : Block)
    (h : BlockOk E b0) : BlockOk E { b0 with data := putBlend m b0.data } := by
  obtain ⟨sg, key, data⟩ := b0
  obtain ⟨hs, hk, hd⟩ := h
  refine ⟨hs, hk, ?_⟩
  cases data with
  | divider d =>
    obtain ⟨hkk, hkind, hshape⟩ := hd
    refine ⟨hkk, hkind, Or.inr ?_⟩
    rcases hshape with ⟨h1, h2, h3⟩ | ⟨h1, m', h2, h3, h4, h5⟩
    · exact ⟨by simp [h1], m, rfl, hm, hE.keys4 m hm, by simp [h3]⟩
    · exact ⟨by simp [h1], m, rfl, hm, hE.keys4 m hm, h5⟩
  | str s => exact hd
  | int v => exact hd
  | raw bs => exact hd


theorem keys_ne : kLuni ≠ kLsct ∧ kLuni ≠ kLsdk ∧ kLuni ≠ kLspf ∧ kLsct ≠ kLsdk ∧ kLsct ≠ kLspf ∧ kLsdk ≠ kLspf ∧
   kLsct ≠ kLuni ∧ kLsdk ≠ kLuni ∧ kLspf ≠ kLuni ∧ kLsdk ≠ kLsct ∧ kLspf ≠ kLsct ∧ kLspf ≠ kLsdk := by decide

/-! ### the MacRoman codec built from the generated table -/

theorem mapM_ok_length {α β : Type} (f : α → Except Err β) (l : List α) (r : List β)
    (h : l.mapM f = .ok r) : r.length = l.length := by
  induction l generalizing r with
  | nil => simp [List.mapM_nil] at h; cases h; rfl
  | cons x xs ih =>
    rw [List.mapM_cons] at h
    cases hx : f x with
    | error e => simp [hx, bind, Except.bind] at h
    | ok y =>
      cases hxs : xs.mapM f with
      | error e => simp [hx, hxs, bind, Except.bind] at h
      | ok ys =>
        simp [hx, hxs, bind, Except.bind, pure, Except.pure] at h
        subst h
        simp [ih ys hxs]

theorem mapM_ok_roundtrip {α β : Type} (f : α → Except Err β) (g : β → Except Err α)
    (hfg : ∀ x y, f x = .ok y → g y = .ok x) (l : List α) (r : List β)
    (h : l.mapM f = .ok r) : r.mapM g = .ok l := by
  induction l generalizing r with
  | nil => simp [List.mapM_nil] at h; cases h; rfl
  | cons x xs ih =>
    rw [List.mapM_cons] at h
    cases hx : f x with
    | error e => simp [hx, bind, Except.bind] at h
    | ok y =>
      cases hxs : xs.mapM f with
      | error e => simp [hx, hxs, bind, Except.bind] at h
      | ok ys =>
        simp [hx, hxs, bind, Except.bind, pure, Except.pure] at h
        subst h
        rw [List.mapM_cons, hfg x y hx, ih ys hxs]
        rfl

theorem mac_char_roundtrip (high : List Nat) (c : Nat) (b : UInt8)
    (h : (if c < 128 then Except.ok (UInt8.ofNat c)
          else match high.findIdx? (· == c) with
            | some i => if i < 128 then Except.ok (UInt8.ofNat (128 + i)) else Except.error Err.unicodeError
            | none => Except.error Err.unicodeError) = Except.ok b) :
    (if b.toNat < 128 then Except.ok b.toNat
     else match high[b.toNat - 128]? with
       | some c => Except.ok c
       | none => Except.error Err.unicodeError) = (Except.ok c : Except Err Nat) := by
  split at h
  · rename_i hc
    injection h with h; subst h
    have : (UInt8.ofNat c).toNat = c := by simp [UInt8.toNat_ofNat']; omega
    simp [this, hc]
  · split at h
    · rename_i i hi
      split at h
      · rename_i hi128
        injection h with h; subst h
        rw [List.findIdx?_eq_some_iff_getElem] at hi
        obtain ⟨hlt, hp, _⟩ := hi
        have hp' : high[i] = c := by simpa using hp
        have e1 : (128 + i) % 256 = 128 + i := by omega
        have e2 : 128 + i - 128 = i := by omega
        have e3 : ¬ (128 + i < 128) := by omega
        simp only [UInt8.toNat_ofNat', e1, e2, e3, if_false]
        simp [hlt, hp']
      · simp at h
    · simp at h

theorem macDecOf_macEncOf (high : List Nat) (s : List Nat) (bs : List UInt8) (h : macEncOf high s = .ok bs) :
    macDecOf high bs = .ok s :=
  mapM_ok_roundtrip _ _ (fun c b hcb => mac_char_roundtrip high c b hcb) s bs h

theorem macEncOf_length (high : List Nat) (s : List Nat) (bs : List UInt8) (h : macEncOf high s = .ok bs) :
    bs.length = s.length := mapM_ok_length _ s bs h

theorem mkEnv_laws (keys : List Key) (high : List Nat) (u f : Bool)
    (h4 : ∀ m ∈ keys, m.length = 4) (hn : kNorm ∈ keys) : EnvLaws (mkEnv keys high u f) where
  keys4 := h4
  norm := hn
  macLen := macEncOf_length high
  macRT := macDecOf_macEncOf high
  macQ := ⟨[63], rfl⟩


/-! ### the unicode-string codec instances (one unit per character; UTF-16) -/

/-- Unicode scalar values -/
def scalar (c : Nat) : Prop := c < 1114112 ∧ ¬ (55296 ≤ c ∧ c < 57344)

instance (c : Nat) : Decidable (scalar c) := by unfold scalar; infer_instance

theorem ofUnits_cons_single (utf16 : Bool) (u : Nat) (rest : List Nat)
    (h : ¬ (55296 ≤ u ∧ u < 56320)) : ofUnits utf16 (u :: rest) = u :: ofUnits utf16 rest := by
  cases rest with
  | nil => simp [ofUnits]
  | cons v r =>
    simp only [ofUnits]
    have : ¬ (55296 ≤ u ∧ u < 56320 ∧ 56320 ≤ v ∧ v < 57344) := fun hh => h ⟨hh.1, hh.2.1⟩
    simp [this]

theorem ofUnits_cons_pair (u v : Nat) (rest : List Nat)
    (h : 55296 ≤ u ∧ u < 56320 ∧ 56320 ≤ v ∧ v < 57344) :
    ofUnits true (u :: v :: rest) = (65536 + (u - 55296) * 1024 + (v - 56320)) :: ofUnits true rest := by
  simp [ofUnits, h]

theorem ofUnits_false (us : List Nat) : ofUnits false us = us := by
  induction us with
  | nil => rfl
  | cons u rest ih =>
    cases rest with
    | nil => rfl
    | cons v r => simp only [ofUnits, Bool.false_and, Bool.false_eq_true, if_false]; rw [ih]

theorem units_roundtrip (utf16 : Bool) (s : List Nat) (hs : ∀ c ∈ s, scalar c)
    (hb : utf16 = false → ∀ c ∈ s, c < 65536) :
    ∃ us, toUnits utf16 s = .ok us ∧ ofUnits utf16 us = s ∧ (∀ u ∈ us, u < 65536) ∧ us.length ≤ 2 * s.length := by
  induction s with
  | nil => exact ⟨[], rfl, rfl, by simp, by simp⟩
  | cons c cs ih =>
    obtain ⟨us, h1, h2, h3, h4⟩ := ih (fun x hx => hs x (List.mem_cons_of_mem _ hx))
      (fun hu x hx => hb hu x (List.mem_cons_of_mem _ hx))
    have hc := hs c (List.mem_cons_self ..)
    by_cases hlt : c < 65536
    · refine ⟨c :: us, ?_, ?_, ?_, ?_⟩
      · simp [toUnits, h1, hlt, bind, Except.bind, pure, Except.pure]
      · rw [ofUnits_cons_single _ _ _ (fun hh => hc.2 ⟨hh.1, by omega⟩), h2]
      · intro u hu
        rcases List.mem_cons.mp hu with rfl | hu
        · exact hlt
        · exact h3 u hu
      · simp only [List.length_cons]; omega
    · cases utf16 with
      | false => exact absurd (hb rfl c (List.mem_cons_self ..)) hlt
      | true =>
        have hc1 := hc.1
        obtain ⟨hi, lo, hhi, hlo, hb1, hb2, hceq⟩ : ∃ hi lo, hi = 55296 + (c - 65536) / 1024 ∧
            lo = 56320 + (c - 65536) % 1024 ∧ (55296 ≤ hi ∧ hi < 56320 ∧ 56320 ≤ lo ∧ lo < 57344) ∧
            (hi < 65536 ∧ lo < 65536) ∧ 65536 + (hi - 55296) * 1024 + (lo - 56320) = c :=
          ⟨_, _, rfl, rfl, by omega, by omega, by omega⟩
        refine ⟨hi :: lo :: us, ?_, ?_, ?_, ?_⟩
        · simp [toUnits, h1, hlt, bind, Except.bind, pure, Except.pure, hhi, hlo]
        · rw [ofUnits_cons_pair hi lo us hb1, h2, hceq]
        · intro u hu
          rcases List.mem_cons.mp hu with hu | hu
          · omega
          · rcases List.mem_cons.mp hu with hu | hu
            · omega
            · exact h3 u hu
        · simp only [List.length_cons]; omega

theorem unitsOfBytes_flatten (us : List Nat) (h : ∀ u ∈ us, u < 65536) :
    unitsOfBytes (us.map u16be).flatten = us := by
  induction us with
  | nil => rfl
  | cons u rest ih =>
    have hu := h u (List.mem_cons_self ..)
    simp only [List.map_cons, List.flatten_cons, u16be, List.cons_append, List.nil_append, unitsOfBytes,
      UInt8.toNat_ofNat']
    rw [ih (fun x hx => h x (List.mem_cons_of_mem _ hx))]
    congr 1
    omega

theorem flatten_u16_length (us : List Nat) : (us.map u16be).flatten.length = 2 * us.length := by
  induction us with
  | nil => rfl
  | cons u rest ih => simp [u16be, ih]; omega

/-- The unicode-string codec of the model (both instances) reads back what it wrote, for every
string of scalar values it accepts. -/
theorem uni_roundtrip (utf16 : Bool) (s : List Nat) (hs : ∀ c ∈ s, scalar c) (hlen : s.length ≤ 255)
    (hb : utf16 = false → ∀ c ∈ s, c < 65536) :
    ∃ bs, uniEncOf utf16 s = .ok bs ∧ uniDecOf utf16 bs = .ok s := by
  obtain ⟨us, h1, h2, h3, h4⟩ := units_roundtrip utf16 s hs hb
  have hl : us.length < 4294967296 := by omega
  refine ⟨padTo4 (u32be us.length ++ (us.map u16be).flatten), ?_, ?_⟩
  · simp [uniEncOf, h1, hl, bind, Except.bind, pure, Except.pure]
  · simp only [padTo4, u32be, List.cons_append, List.nil_append, uniDecOf, u32_u32be us.length hl]
    rw [List.take_left' (by rw [flatten_u16_length])]
    rw [unitsOfBytes_flatten us h3, h2]


/-! ### edit histories -/

def runSets (E : Env) : List (Attr × Val) → Layer → Except Err Layer
  | [], l => .ok l
  | (a, v) :: rest, l =>
    match set E a v l with
    | .ok l1 => runSets E rest l1
    | .error e => .error e

/-- the value of the last edit of attribute `a` in the history -/
def lastSet (a : Attr) : List (Attr × Val) → Option Val
  | [] => none
  | (a', v) :: rest =>
    match lastSet a rest with
    | some x => some x
    | none => if a' = a then some v else none

/-- every edit of the history can be written at the moment it is made -/
def StorableRun (E : Env) : List (Attr × Val) → Layer → Prop
  | [], _ => True
  | (a, v) :: rest, l => storable E a v l ∧ ∀ l1, set E a v l = .ok l1 → StorableRun E rest l1

end PsdVerif.Attr
