/-
C09 — refinement of `step` and of histories (assembly).
-/
import PsdVerif.Lemmas.TreeRefine2
import PsdVerif.Lemmas.TreeHistory

namespace PsdVerif.TreeSt
open Spec

/-- an accepted operation is the plain-list operation -/
theorem step_acc (s : State) (op : Op) (i : Inv s) (h : (step .current s op).2.isError = false) :
    ∃ v, Spec.apply (abs s) op = .ok (abs (step .current s op).1, v) ∧ Agrees (step .current s op).2 v := by
  cases op with
  | append g x =>
    simp only [step, Op.target] at h ⊢
    by_cases hg : (!s.isGroup g) = true
    · rw [if_pos hg] at h; cases h
    · rw [if_neg hg] at h ⊢
      have := opAppend_acc h
      exact ⟨some .none, by simp only [Spec.apply]; rw [this.1], this.2⟩
  | extend g xs =>
    simp only [step, Op.target] at h ⊢
    by_cases hg : (!s.isGroup g) = true
    · rw [if_pos hg] at h; cases h
    · rw [if_neg hg] at h ⊢
      have := opExtend_acc h
      exact ⟨some .none, by simp only [Spec.apply]; rw [this.1], this.2⟩
  | insert g k x =>
    simp only [step, Op.target] at h ⊢
    by_cases hg : (!s.isGroup g) = true
    · rw [if_pos hg] at h; cases h
    · rw [if_neg hg] at h ⊢
      have := opInsert_acc h
      exact ⟨some .none, by simp only [Spec.apply]; rw [this.1], this.2⟩
  | remove g x =>
    simp only [step, Op.target] at h ⊢
    by_cases hg : (!s.isGroup g) = true
    · rw [if_pos hg] at h; cases h
    · rw [if_neg hg] at h ⊢
      have := opRemove_acc h
      have hx : x ∈ (abs s).lists g := this.1
      exact ⟨some (.id g), by simp only [Spec.apply, hx, if_true]; rw [this.2.1], this.2.2⟩
  | pop g k =>
    simp only [step, Op.target] at h ⊢
    by_cases hg : (!s.isGroup g) = true
    · rw [if_pos hg] at h; cases h
    · rw [if_neg hg] at h ⊢
      exact opPop_acc h
  | clear g =>
    simp only [step, Op.target] at h ⊢
    by_cases hg : (!s.isGroup g) = true
    · rw [if_pos hg] at h; cases h
    · rw [if_neg hg] at h ⊢
      exact ⟨some .none, (opClear_acc _ s g).1, (opClear_acc _ s g).2⟩
  | setitem g k x =>
    simp only [step, Op.target] at h ⊢
    by_cases hg : (!s.isGroup g) = true
    · rw [if_pos hg] at h; cases h
    · rw [if_neg hg] at h ⊢
      exact ⟨some .none, (opSetitem_acc h).1, (opSetitem_acc h).2⟩
  | setslice g a b xs =>
    simp only [step, Op.target] at h ⊢
    by_cases hg : (!s.isGroup g) = true
    · rw [if_pos hg] at h; cases h
    · rw [if_neg hg] at h ⊢
      exact ⟨some .none, (opSetslice_acc h).1, (opSetslice_acc h).2⟩
  | delitem g k =>
    simp only [step, Op.target] at h ⊢
    by_cases hg : (!s.isGroup g) = true
    · rw [if_pos hg] at h; cases h
    · rw [if_neg hg] at h ⊢
      exact ⟨some .none, (opDelitem_acc h).1, (opDelitem_acc h).2⟩
  | delslice g a b =>
    simp only [step, Op.target] at h ⊢
    by_cases hg : (!s.isGroup g) = true
    · rw [if_pos hg] at h; cases h
    · rw [if_neg hg] at h ⊢
      exact ⟨some .none, (opDelslice_acc _ s g a b).1, (opDelslice_acc _ s g a b).2⟩
  | deleteLayer x =>
    have := opDeleteLayer_acc i (x := x) h
    exact ⟨some (.id x), by simp only [Spec.apply]; show _ = Except.ok (abs (opDeleteLayer _ s x).1, _); rw [this.1],
      this.2⟩
  | moveToGroup x g =>
    have := opMoveToGroup_acc i (x := x) (g := g) h
    exact ⟨some (.id x), by simp only [Spec.apply]; show _ = Except.ok (abs (opMoveToGroup _ s x g).1, _); rw [this.1],
      this.2⟩
  | moveUp x k =>
    have := opMoveUp_acc i (x := x) (k := k) h
    exact ⟨some (.id x), by
      simp only [Spec.apply, this.1, if_true]
      show _ = Except.ok (abs (opMoveUp _ s x k).1, _)
      rw [this.2.1], this.2.2⟩
  | moveDown x k =>
    have := opMoveUp_acc i (x := x) (k := -k) h
    exact ⟨some (.id x), by
      simp only [Spec.apply, this.1, if_true]
      show _ = Except.ok (abs (opMoveUp _ s x (-k)).1, _)
      rw [this.2.1], this.2.2⟩
  | newGroup p => exact ⟨_, (opNewGroup_acc i p h).1, (opNewGroup_acc i p h).2⟩
  | groupLayers xs p => exact ⟨_, (opGroupLayers_acc i xs p h).1, (opGroupLayers_acc i xs p h).2⟩
  | newLayer p bx => exact ⟨some (.id s.next), rfl, rfl⟩
  | newDoc bx => exact ⟨some (.id s.next), rfl, rfl⟩
  | setVisible x v =>
    exact ⟨none, by simp only [Spec.apply]; show _ = Except.ok (abs (opSetVisible _ s x v).1, _); rw [opSetVisible_abs],
      trivial⟩
  | setLeft x v =>
    exact ⟨none, by simp only [Spec.apply]; show _ = Except.ok (abs (opSetOffset _ s x true v).1, _); rw [opSetOffset_abs],
      trivial⟩
  | setTop x v =>
    exact ⟨none, by simp only [Spec.apply]; show _ = Except.ok (abs (opSetOffset _ s x false v).1, _); rw [opSetOffset_abs],
      trivial⟩
  | setAttr x =>
    simp only [step, Op.target] at h ⊢
    by_cases hl : (!s.isLayer x) = true
    · rw [if_pos hl] at h; cases h
    · rw [if_neg hl]; exact ⟨none, rfl, trivial⟩
  | setBlocks x ks =>
    simp only [step, Op.target] at h ⊢
    by_cases hl : (!s.isLayer x) = true
    · rw [if_pos hl] at h; cases h
    · rw [if_neg hl]; exact ⟨none, rfl, trivial⟩
  | observe o => exact observe_acc o h

/-- the operations of a history that the code accepted (refused ones are no-ops) -/
def acceptedOps (cfg : Cfg) : State → List Op → List Op
  | _, [] => []
  | s, op :: ops =>
    if (step cfg s op).2.isError then acceptedOps cfg (step cfg s op).1 ops
    else op :: acceptedOps cfg (step cfg s op).1 ops

theorem run_refines (s : State) (ops : List Op) (i : Inv s) (hg : Guarded .current s ops) :
    Spec.runLists (abs s) (acceptedOps .current s ops) = .ok (abs (runState .current s ops)) := by
  induction ops generalizing s with
  | nil => rfl
  | cons op ops ih =>
    obtain ⟨hgd, hne, hrest⟩ := hg
    have i1 := inv_step s op i hgd hne
    have ih' := ih _ i1 hrest
    simp only [acceptedOps]
    by_cases he : (step .current s op).2.isError = true
    · rw [if_pos he]
      -- refused: the lists are the old ones
      have hsame : abs (step .current s op).1 = abs s := by
        cases ho : (step .current s op).2 with
        | error e =>
          have hne' : e ≠ .recursionError := by
            intro h'; subst h'; exact hne ho
          exact (step_ref s op e i ho hne').abs
        | none => rw [ho] at he; cases he
        | id _ => rw [ho] at he; cases he
        | ids _ => rw [ho] at he; cases he
        | box _ => rw [ho] at he; cases he
        | pair _ _ => rw [ho] at he; cases he
        | int _ => rw [ho] at he; cases he
        | bool _ => rw [ho] at he; cases he
      rw [← hsame]
      exact ih'
    · rw [if_neg he]
      obtain ⟨v, hv, _⟩ := step_acc s op i (by simpa using he)
      simp only [Spec.runLists, hv]
      exact ih'

end PsdVerif.TreeSt
