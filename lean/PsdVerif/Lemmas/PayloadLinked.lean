/-
C01 payload unit 5 — psd/linked_layer.py: the laws of `LinkedLayer` (every kind × version) and `LinkedLayers`.
-/
import PsdVerif.Lemmas.PayloadPatterns
import PsdVerif.Model.PayloadLinked

namespace PsdVerif.Payload
open PsdVerif PsdVerif.Codec

namespace LinkedLayer
variable (tb : Descriptor.Tables)

/-! ### pieces -/

/-- a descriptor block written with `padding=1` (no filler), read by `DescriptorBlock.read` -/
theorem block_step {b : Descriptor.Block} (hwf : b.WF tb) (hf : b.Fits tb) {d : B} {p : Nat} {rest : B}
    (h : At d p (b.encT tb 1 ++ rest)) :
    Descriptor.Block.dec tb d p = .ok (b, p + (b.encT tb 1).length) ∧ At d (p + (b.encT tb 1).length) rest := by
  refine ⟨?_, h.right⟩
  rw [Descriptor.Block.length_encT, padAmount_one, Nat.add_zero]
  exact Descriptor.Block.dec_at hwf hf h.left

theorem optBlockP_eq (o : Option Descriptor.Block) : optBlockP tb o = (optBlockT tb o, (optBlockT tb o).length) := by
  cases o with
  | none => rfl
  | some b => exact Descriptor.Block.encW_eq tb 1 b

theorem ts_step {t : Timestamp} (hf : tsFits t) {d : B} {p : Nat} {rest : B} (h : At d p (tsT t ++ rest)) :
    readTs d p = .ok (t, p + (tsT t).length) ∧ At d (p + (tsT t).length) rest := by
  refine ⟨?_, h.right⟩
  obtain ⟨f1, f4, ff⟩ := hf
  have hl : (tsT t).length = 4 + (1 * 4 + 8) := by
    have := length_listT_const (beBytes 1) 1 t.fields (fun v _ => length_beBytes 1 v)
    simp only [tsT, List.length_append, length_beBytes, this, f4, length_f64T]
  rw [hl]
  have h : At d p (beBytes 4 t.year ++ (listT (beBytes 1) t.fields ++ (f64T t.seconds ++ rest))) := by
    simpa only [tsT, List.append_assoc] using h
  obtain ⟨e1, h⟩ := readU_step h f1
  obtain ⟨e2, h⟩ := readUList_step f4 ff h
  obtain ⟨e3, _⟩ := readF64_step h
  simp only [readTs, bind, Except.bind, e1, e2, e3, Nat.add_assoc]

/-! ### the `written` accumulator -/

theorem wIte_eq (c : Prop) [Decidable c] (a b : B) :
    (if c then (a, a.length) else (b, b.length)) = ((if c then a else b), (if c then a else b).length) := by
  split <;> rfl

theorem wNil_eq : wNil = (([] : B), ([] : B).length) := rfl

theorem encP_eq (pad : Nat) (x : LinkedLayer) : x.encP tb pad = (x.encT tb pad, (x.encT tb pad).length) := by
  unfold encP encT bodyT headT kindT tailT lateT
  simp only [wBytes_eq, wPascal_eq, wUStr_eq, optBlockP_eq, wNil_eq, wIte_eq, wSeq_eq, wPad_eq, List.append_assoc]

/-! ### the reader, kind by kind -/

theorem kinds : ∀ k ∈ GP.linkedLayerTypes, k = GP.linkedAlias ∨ k = GP.linkedData ∨ k = GP.linkedExternal := by decide

theorem kind_length {k : B} (h : k ∈ GP.linkedLayerTypes) : k.length = 4 := by
  have : ∀ k ∈ GP.linkedLayerTypes, k.length = 4 := by decide
  exact this k h

/-- what the kind branch leaves in `data` -/
def kdata (x : LinkedLayer) : Option B := if x.isExternal ∧ x.version ≤ 2 then none else x.data

theorem kindDec_step {x : LinkedLayer} (hwf : x.WF tb) (hf : x.Fits tb) {d : B} {p : Nat} {rest : B}
    (h : At d p (x.kindT tb ++ rest)) :
    kindDec tb x.kind x.version x.dataLen d p = .ok (⟨x.linkedFile, x.timestamp, x.filesize, x.kdata⟩, p + (x.kindT tb).length) ∧
      At d (p + (x.kindT tb).length) rest := by
  refine ⟨?_, h.right⟩
  obtain ⟨hkind, _, _, _, _, hlw, hext, hnext, halias, _⟩ := hwf
  obtain ⟨_, _, _, _, _, fext, fdata, _⟩ := hf
  rcases kinds x.kind hkind with hk | hk | hk
  · -- ALIAS
    have hE : x.isExternal = false := by simp only [isExternal, hk]; decide
    have hA : x.isAlias = true := by simp only [isAlias, hk]; decide
    have hD : x.isData = false := by simp only [isData, hk]; decide
    obtain ⟨hlf, hts, hfs⟩ := hnext hE
    have hdt := halias hA
    have n1 : ¬ GP.linkedAlias = GP.linkedExternal := by decide
    have n2 : ¬ GP.linkedAlias = GP.linkedData := by decide
    simp only [kindT, hE, hA, hD, Bool.false_eq_true, if_false, if_true, List.append_nil] at h ⊢
    obtain ⟨e1, _⟩ := readSkip_step h
    simp only [kindDec, bind, Except.bind, hk, if_neg n1, if_true, e1, if_neg n2, length_zeros, kdata, hE, Bool.false_eq_true,
      false_and, if_false, hlf, hts, hfs, hdt]
  · -- DATA
    have hE : x.isExternal = false := by simp only [isExternal, hk]; decide
    have hA : x.isAlias = false := by simp only [isAlias, hk]; decide
    have hD : x.isData = true := by simp only [isData, hk]; decide
    obtain ⟨hlf, hts, hfs⟩ := hnext hE
    have hsome := fdata hD
    cases hdt : x.data with
    | none => rw [hdt] at hsome; simp at hsome
    | some dt =>
      have n1 : ¬ GP.linkedData = GP.linkedExternal := by decide
      have n2 : ¬ GP.linkedData = GP.linkedAlias := by decide
      simp only [kindT, hE, hA, hD, Bool.false_eq_true, if_false, if_true, List.nil_append, hdt, optBytesT] at h ⊢
      have e1 := readSized_at h.left
      simp only [kindDec, bind, Except.bind, hk, if_neg n1, if_neg n2, if_true, dataLen, hdt, e1, kdata, hE, Bool.false_eq_true,
        false_and, if_false, hlf, hts, hfs]
  · -- EXTERNAL
    have hE : x.isExternal = true := by simp only [isExternal, hk]; decide
    have hD : x.isData = false := by simp only [isData, hk]; decide
    obtain ⟨⟨hlfs, flf⟩, fts, ⟨hfss, ffs⟩, fdt⟩ := fext hE
    obtain ⟨hts3, hv1⟩ := hext hE
    have n2 : ¬ GP.linkedExternal = GP.linkedData := by decide
    cases hlf : x.linkedFile with
    | none => rw [hlf] at hlfs; simp at hlfs
    | some lf =>
      cases hfs : x.filesize with
      | none => rw [hfs] at hfss; simp at hfss
      | some fsz =>
        rw [hlf] at hlw flf
        rw [hfs] at ffs
        simp only [optBlockWF, optBlockFits, Psd.optFits] at hlw flf ffs
        simp only [kindT, hE, hD, if_true, Bool.false_eq_true, if_false, List.append_nil, hlf, hfs, optBlockT, Psd.optT,
          List.append_assoc] at h ⊢
        obtain ⟨e1, h⟩ := block_step tb hlw flf h
        by_cases h3 : x.version > 3
        · have h2 : x.version > 2 := by omega
          have hts := fts h3
          cases htsv : x.timestamp with
          | none => rw [htsv] at hts; exact absurd hts (by simp [tsReq])
          | some t =>
            rw [htsv] at hts
            have hsome := fdt (by omega)
            cases hdt : x.data with
            | none => rw [hdt] at hsome; simp at hsome
            | some dt =>
              simp only [h3, h2, if_true, htsv, optTsT, hdt, optBytesT, List.append_assoc] at h ⊢
              obtain ⟨e2, h⟩ := ts_step hts h
              obtain ⟨e3, h⟩ := readU_step h ffs
              have e4 := readSized_at h.left
              have hle : ¬ (True ∧ x.version ≤ 2) := by omega
              simp only [kindDec, bind, Except.bind, hk, if_true, e1, h3, Codec.optItem, e2, e3, h2, dataLen, hdt, e4, if_neg n2, kdata,
                hE, hle, if_false]
              simp only [List.length_append, length_beBytes, Nat.add_assoc]
        · have hts := hts3 (by omega)
          by_cases h2 : x.version > 2
          · have hsome := fdt (by omega)
            cases hdt : x.data with
            | none => rw [hdt] at hsome; simp at hsome
            | some dt =>
              simp only [h3, h2, if_false, if_true, hdt, optBytesT, List.nil_append] at h ⊢
              obtain ⟨e3, h⟩ := readU_step h ffs
              have e4 := readSized_at h.left
              have hle : ¬ (True ∧ x.version ≤ 2) := by omega
              simp only [kindDec, bind, Except.bind, hk, if_true, e1, h3, if_false, e3, h2, Codec.optItem, dataLen, hdt, e4, if_neg n2,
                kdata, hE, hle, hts]
              simp only [List.length_append, length_beBytes, Nat.add_assoc]
          · simp only [h3, h2, if_false, List.nil_append, List.append_nil] at h ⊢
            obtain ⟨e3, _⟩ := readU_step h ffs
            have hle : (True ∧ x.version ≤ 2) := ⟨trivial, by omega⟩
            simp only [kindDec, bind, Except.bind, hk, if_true, e1, h3, if_false, e3, h2, if_neg n2, kdata, hE, hle, hts]
            simp only [List.length_append, length_beBytes, Nat.add_assoc, and_self, if_true]

theorem tailDec_step {x : LinkedLayer} (hwf : x.WF tb) (hf : x.Fits tb) {d : B} {p : Nat} {rest : B}
    (h : At d p (x.tailT ++ rest)) :
    tailDec x.version d p = .ok ((x.childId, x.modTime, x.lockState), p + x.tailT.length) ∧ At d (p + x.tailT.length) rest := by
  refine ⟨?_, h.right⟩
  obtain ⟨_, _, _, _, _, _, _, _, _, hc, hm, hl, hcs⟩ := hwf
  obtain ⟨_, _, _, _, _, _, _, fc, fl⟩ := hf
  obtain ⟨kind, version, uuid, filename, filetype, creator, filesize, openFile, linkedFile, timestamp, data, cid, mt, ls⟩ := x
  simp only at hc hm hl hcs fc fl
  simp only [tailT, List.append_assoc] at h ⊢
  -- child id
  have s1 : ∃ q, (if version ≥ 5 then Codec.optItem (readUStr 1) d p else .ok (none, p)) = .ok (cid, q) ∧ q = p + (optUStrT cid).length ∧
      At d q (optF64T mt ++ (Psd.optT 1 ls ++ rest)) := by
    cases cid with
    | none =>
      have : ¬ version ≥ 5 := by intro hv; have := hc.mpr hv; simp at this
      exact ⟨p, by rw [if_neg this], by simp [optUStrT], by simpa [optUStrT] using h⟩
    | some s =>
      have hv : version ≥ 5 := hc.mp rfl
      simp only [optUStrT, strWF, optUStrFits] at h hcs fc
      obtain ⟨e, h'⟩ := readUStr_step ⟨hcs.1, fc⟩ hcs.2 (by decide) h
      exact ⟨p + (ustrT 1 s).length, by rw [if_pos hv]; simp only [Codec.optItem, e], by simp [optUStrT], h'⟩
  obtain ⟨q1, e1, hq1, h⟩ := s1
  have s2 : ∃ q, (if version ≥ 6 then Codec.optItem readF64 d q1 else .ok (none, q1)) = .ok (mt, q) ∧ q = q1 + (optF64T mt).length ∧
      At d q (Psd.optT 1 ls ++ rest) := by
    cases mt with
    | none =>
      have : ¬ version ≥ 6 := by intro hv; have := hm.mpr hv; simp at this
      exact ⟨q1, by rw [if_neg this], by simp [optF64T], by simpa [optF64T] using h⟩
    | some m =>
      have hv : version ≥ 6 := hm.mp rfl
      simp only [optF64T] at h
      obtain ⟨e, h'⟩ := readF64_step h
      exact ⟨q1 + 8, by rw [if_pos hv]; simp only [Codec.optItem, e], by simp [optF64T, length_f64T], h'⟩
  obtain ⟨q2, e2, hq2, h⟩ := s2
  have s3 : ∃ q, (if version ≥ 7 then Codec.optItem (readU 1) d q2 else .ok (none, q2)) = .ok (ls, q) ∧ q = q2 + (Psd.optT 1 ls).length := by
    cases ls with
    | none =>
      have : ¬ version ≥ 7 := by intro hv; have := hl.mpr hv; simp at this
      exact ⟨q2, by rw [if_neg this], by simp [Psd.optT]⟩
    | some l =>
      have hv : version ≥ 7 := hl.mp rfl
      simp only [Psd.optT, Psd.optFits] at h fl
      obtain ⟨e, _⟩ := readU_step h fl
      exact ⟨q2 + 1, by rw [if_pos hv]; simp only [Codec.optItem, e], by simp [Psd.optT, length_beBytes]⟩
  obtain ⟨q3, e3, hq3⟩ := s3
  simp only [tailDec, bind, Except.bind, e1, e2, e3]
  simp only [hq3, hq2, hq1, List.length_append, Nat.add_assoc]

/-! ### the whole item -/

theorem dec_at (pad : Nat) {x : LinkedLayer} (hwf : x.WF tb) (hf : x.Fits tb) {d : B} {p : Nat} (h : At d p (x.encT tb pad)) :
    dec tb d p = .ok (x, p + (x.bodyT tb).length) := by
  have hwf' := hwf
  have hf' := hf
  obtain ⟨hkind, hver, ⟨hft, hcr⟩, ⟨hpy, hnp⟩, how, _, hext, _, _, _⟩ := hwf
  obtain ⟨fv, fu, fn, fdl, fow, fext, _, _, _⟩ := hf
  have e4k := pack4s_of_length (kind_length hkind)
  have e4f := pack4s_of_length hft
  have e4c := pack4s_of_length hcr
  have h0 : At d p (x.kind ++ (beBytes 4 x.version ++ (pascalT 1 x.uuid ++ (ustrT 1 x.filename ++ (x.filetype ++ (x.creator ++
      (beBytes 8 x.dataLen ++ (boolT x.openFile.isSome ++ (optBlockT tb x.openFile ++ (x.kindT tb ++ (x.tailT ++ (x.lateT ++
      zeros (padAmount (x.bodyT tb).length pad))))))))))))) := by
    simpa only [encT, bodyT, headT, e4k, e4f, e4c, List.append_assoc] using h
  have hL : (x.bodyT tb).length = 4 + (4 + ((pascalT 1 x.uuid).length + ((ustrT 1 x.filename).length + (4 + (4 + (8 + (1 +
      ((optBlockT tb x.openFile).length + ((x.kindT tb).length + (x.tailT.length + x.lateT.length)))))))))) := by
    simp only [bodyT, headT, List.length_append, length_pack4s, length_beBytes, length_boolT]; omega
  rw [hL]
  obtain ⟨e1, h1⟩ := readN_step h0 (kind_length hkind)
  obtain ⟨e2, h2⟩ := readU_step h1 fv
  obtain ⟨e3, h3⟩ := readPascal_step h2 fu
  obtain ⟨e4, h4⟩ := readUStr_step ⟨hpy, fn⟩ hnp (by decide) h3
  obtain ⟨e5, h5⟩ := readN_step h4 hft
  obtain ⟨e6, h6⟩ := readN_step h5 hcr
  obtain ⟨e7, h7⟩ := readU_step h6 fdl
  obtain ⟨e8, h8⟩ := readBool_step h7
  have e8' : readU 1 d (p + 4 + 4 + (pascalT 1 x.uuid).length + (ustrT 1 x.filename).length + 4 + 4 + 8) =
      .ok ((if x.openFile.isSome then 1 else 0), p + 4 + 4 + (pascalT 1 x.uuid).length + (ustrT 1 x.filename).length + 4 + 4 + 8 + 1) := by
    have hb : boolT x.openFile.isSome = beBytes 1 (if x.openFile.isSome then 1 else 0) := by cases x.openFile.isSome <;> rfl
    rw [hb] at h7
    exact (readU_step (w := 1) h7 (by cases x.openFile.isSome <;> decide)).1
  -- the open-file descriptor
  have s9 : ∃ q, (if (if x.openFile.isSome then 1 else 0) ≠ 0 then Codec.optItem (Descriptor.Block.dec tb) d
        (p + 4 + 4 + (pascalT 1 x.uuid).length + (ustrT 1 x.filename).length + 4 + 4 + 8 + 1)
      else .ok (none, p + 4 + 4 + (pascalT 1 x.uuid).length + (ustrT 1 x.filename).length + 4 + 4 + 8 + 1)) = .ok (x.openFile, q) ∧
      q = p + 4 + 4 + (pascalT 1 x.uuid).length + (ustrT 1 x.filename).length + 4 + 4 + 8 + 1 + (optBlockT tb x.openFile).length ∧
      At d q (x.kindT tb ++ (x.tailT ++ (x.lateT ++ zeros (padAmount (x.bodyT tb).length pad)))) := by
    cases hof : x.openFile with
    | none =>
      rw [hof] at h8
      exact ⟨p + 4 + 4 + (pascalT 1 x.uuid).length + (ustrT 1 x.filename).length + 4 + 4 + 8 + 1, by simp, by simp [optBlockT],
        by simpa [optBlockT] using h8⟩
    | some b =>
      rw [hof] at h8 how fow
      simp only [optBlockT, optBlockWF, optBlockFits] at h8 how fow
      obtain ⟨e, h'⟩ := block_step tb how fow h8
      exact ⟨p + 4 + 4 + (pascalT 1 x.uuid).length + (ustrT 1 x.filename).length + 4 + 4 + 8 + 1 + (b.encT tb 1).length,
        by simp [Codec.optItem, e], by simp [optBlockT], h'⟩
  obtain ⟨q9, e9, hq9, h9⟩ := s9
  obtain ⟨e10, h10⟩ := kindDec_step tb hwf' hf' h9
  obtain ⟨e11, h11⟩ := tailDec_step tb hwf' hf' h10
  -- the data of an EXTERNAL item of version 2 comes last
  have s12 : ∃ q, (if x.kind = GP.linkedExternal ∧ x.version = 2 then Codec.optItem (readSized x.dataLen) d
        (q9 + (x.kindT tb).length + x.tailT.length) else .ok (x.kdata, q9 + (x.kindT tb).length + x.tailT.length)) = .ok (x.data, q) ∧
      q = q9 + (x.kindT tb).length + x.tailT.length + x.lateT.length := by
    by_cases hl : x.kind = GP.linkedExternal ∧ x.version = 2
    · have hE : x.isExternal = true := by simp only [isExternal, hl.1]; decide
      obtain ⟨_, _, _, fdt⟩ := fext hE
      have hsome := fdt (by rw [hl.2]; decide)
      cases hdt : x.data with
      | none => rw [hdt] at hsome; simp at hsome
      | some dt =>
        have hlate : x.lateT = dt := by simp only [lateT, hE, hl.2, and_self, if_true, hdt, optBytesT]
        rw [hlate] at h11 ⊢
        have e := readSized_at h11.left
        exact ⟨q9 + (x.kindT tb).length + x.tailT.length + dt.length, by rw [if_pos hl]; simp only [Codec.optItem, dataLen, hdt, e], rfl⟩
    · have hlate : x.lateT = [] := by
        have : ¬ (x.isExternal = true ∧ x.version = 2) := by
          intro hh; apply hl; exact ⟨by simpa [isExternal] using hh.1, hh.2⟩
        simp only [lateT, this, if_false]
      have hkd : x.kdata = x.data := by
        unfold kdata
        by_cases hE : x.isExternal = true
        · have hv : x.version ≠ 2 := by intro hv; apply hl; exact ⟨by simpa [isExternal] using hE, hv⟩
          obtain ⟨_, hv1⟩ := hext hE
          by_cases h1 : x.version ≤ 2
          · have hge : 1 ≤ x.version := hver.1
            have : x.version = 1 := by omega
            rw [if_pos ⟨hE, h1⟩, hv1 this]
          · rw [if_neg (by intro hh; exact h1 hh.2)]
        · rw [if_neg (by intro hh; exact hE hh.1)]
      exact ⟨q9 + (x.kindT tb).length + x.tailT.length, by rw [if_neg hl, hkd], by simp [hlate]⟩
  obtain ⟨q12, e12, hq12⟩ := s12
  simp only [dec, bind, Except.bind, e1, if_pos hkind, e2, if_pos hver, e3, e4, e5, e6, e7, e8', e9, e10, e11, e12]
  simp only [hq12, hq9, Nat.add_assoc]

theorem rt (pad : Nat) : (codec tb pad).RtAnywhere := fun _ hwf hf _ _ h => dec_at tb pad hwf hf h
theorem count (pad : Nat) : (codec tb pad).Count := encP_eq tb pad

end LinkedLayer

/-! ## LinkedLayers -/

theorem LinkedLayers.rt (tb : Descriptor.Tables) : (LinkedLayers.codec tb).RtAtEnd := by
  intro xs hwf hf d p h hend
  simp only [LinkedLayers.codec] at *
  apply readWhile_at (isReadable 8) _ (fun (x : LinkedLayer) => lenBlockT 0 8 4 (x.encT tb 1)) xs _ _ h
  · exact isReadable_false (by omega)
  · intro x hx q hq
    have hl := length_lenBlockT 0 8 4 (x.encT tb 1)
    refine ⟨isReadable_of_at hq (by omega), ?_⟩
    have e1 := readLenBlock_at hq (hf x hx).2 (by decide)
    have e2 := LinkedLayer.dec_at tb 1 (hwf x hx) (hf x hx).1 (At.self (x.encT tb 1))
    simp only [bind, Except.bind, e1, e2]
  · intro x _; have hl := length_lenBlockT 0 8 4 (x.encT tb 1); omega

theorem LinkedLayers.count (tb : Descriptor.Tables) : (LinkedLayers.codec tb).Count := by
  intro xs
  simp only [LinkedLayers.codec]
  exact wList_eq _ _ xs (fun x _ => by rw [LinkedLayer.encP_eq, wLenBlock_eq])

end PsdVerif.Payload
