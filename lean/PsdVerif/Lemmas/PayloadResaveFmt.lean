/-
C02 on the payload layer — `struct` formats: what `read_fmt` returns, `write_fmt` accepts.

* same format on both sides: `fmtDec_ok` (the row read satisfies `fmtFits` and `fmtWF` of the format it was read with);
* a (read format, write format) pair: `FT.dec_accepts` / `fmtDec_accepts` (sound) and `FT.accepts_iff` (exact: when the pair
  is not accepting there is an accepted byte string whose value `struct.pack` rejects — signed against unsigned of the same
  width is the case that matters).
-/
import PsdVerif.Lemmas.Payload3Base
import PsdVerif.Lemmas.Lenient1
import PsdVerif.Model.PayloadResave

namespace PsdVerif.Payload3
open PsdVerif PsdVerif.Codec PsdVerif.Payload PsdVerif.Payload.PCodec

/-! ### one field -/

theorem natToS_fits {w n : Nat} (hw : SWidth w) (h : n < 256 ^ w) : FitsS w (natToS w n) := by
  rcases hw with rfl | rfl | rfl | rfl <;>
    (simp only [FitsS, natToS, Nat.reducePow, Nat.reduceDiv] at *; split <;> omega)

theorem readS_ok {w : Nat} {d : B} {p : Nat} {z : Int} {p' : Nat} (hw : SWidth w) (h : readS w d p = .ok (z, p')) :
    FitsS w z ∧ p' = p + w ∧ p + w ≤ d.length := by
  unfold readS at h
  split at h
  · rename_i n q hq
    obtain ⟨h1, h2, h3⟩ := readU_ok hq
    cases h
    exact ⟨natToS_fits hw h1, h2, h3⟩
  · cases h

theorem readBool_ok {d : B} {p : Nat} {b : Bool} {p' : Nat} (h : readBool d p = .ok (b, p')) :
    p' = p + 1 ∧ p + 1 ≤ d.length := by
  unfold readBool at h
  split at h
  · rename_i n q hq
    obtain ⟨_, h2, h3⟩ := readU_ok hq
    cases h
    exact ⟨h2, h3⟩
  · cases h

/-- what `struct.unpack` returns for one field: accepted by `struct.pack` for the SAME field, in the form the round-trip
law wants (a `bool` for `?`, all `n` bytes for `ns`), the cursor after the field -/
theorem FT.dec_ok {t : FT} (hok : t.ok = true) {d : B} {p : Nat} {v : FV} {p' : Nat} (h : t.dec d p = .ok (v, p')) :
    t.Fits v ∧ t.WF v ∧ p' = p + t.size ∧ p + t.size ≤ d.length := by
  cases t with
  | u w =>
    simp only [FT.dec] at h
    split at h
    · rename_i n q hq
      obtain ⟨h1, h2, h3⟩ := readU_ok hq
      cases h
      refine ⟨?_, trivial, h2, h3⟩
      simp only [FT.Fits, Int.toNat_natCast]
      exact ⟨by omega, h1⟩
    · cases h
  | s w =>
    simp only [FT.dec] at h
    split at h
    · rename_i z q hq
      obtain ⟨h1, h2, h3⟩ := readS_ok (sWidth_of_ok hok) hq
      cases h
      exact ⟨h1, trivial, h2, h3⟩
    · cases h
  | q =>
    simp only [FT.dec] at h
    split at h
    · rename_i b q hq
      obtain ⟨h2, h3⟩ := readBool_ok hq
      cases h
      refine ⟨trivial, ?_, h2, h3⟩
      simp only [FT.WF]
      cases b <;> simp
    · cases h
  | str n =>
    simp only [FT.dec] at h
    split at h
    · rename_i b q hq
      obtain ⟨h1, h2, h3⟩ := readN_ok hq
      cases h
      exact ⟨trivial, h1, h2, h3⟩
    · cases h

/-! ### a row -/

theorem readSkip_ok {n : Nat} {d : B} {p : Nat} {u : Unit} {p' : Nat} (h : readSkip n d p = .ok (u, p')) :
    p' = p + n ∧ p + n ≤ d.length := by
  unfold readSkip at h
  split at h
  · rename_i b q hq
    obtain ⟨_, h2, h3⟩ := readN_ok hq
    cases h
    exact ⟨h2, h3⟩
  · cases h

/-- `read_fmt(fmt, fp)` returns a row that `write_fmt(fp, fmt, *row)` accepts and that the round-trip law covers -/
theorem fmtDec_ok : ∀ (fs : List FI), fs.all FI.ok = true → ∀ {d : B} {p : Nat} {vs : Row} {p' : Nat},
    fmtDec fs d p = .ok (vs, p') → fmtFits fs vs ∧ fmtWF fs vs ∧ p' = p + fmtSize fs
  | [], _, d, p, vs, p', h => by
    simp only [fmtDec] at h
    cases h
    simp only [fmtFits, fmtWF, fmtSize, Nat.add_zero, and_self]
  | .pad n :: fs, hok, d, p, vs, p', h => by
    simp only [List.all_cons, Bool.and_eq_true] at hok
    simp only [fmtDec] at h
    split at h
    · rename_i u q hq
      obtain ⟨h2, h3⟩ := readSkip_ok hq
      obtain ⟨a, b, c⟩ := fmtDec_ok fs hok.2 h
      refine ⟨by simpa only [fmtFits] using a, by simpa only [fmtWF] using b, ?_⟩
      simp only [fmtSize]; omega
    · cases h
  | .fld t :: fs, hok, d, p, vs, p', h => by
    simp only [List.all_cons, Bool.and_eq_true, FI.ok] at hok
    simp only [fmtDec] at h
    split at h
    · rename_i v q hq
      obtain ⟨f1, w1, h2, h3⟩ := FT.dec_ok hok.1 hq
      split at h
      · rename_i vs' q' hq'
        obtain ⟨a, b, c⟩ := fmtDec_ok fs hok.2 hq'
        cases h
        refine ⟨by simp only [fmtFits]; exact ⟨f1, a⟩, by simp only [fmtWF]; exact ⟨w1, b⟩, ?_⟩
        simp only [fmtSize]; omega
      · cases h
    · cases h

/-! ### a (read format, write format) pair -/

theorem pow256_pos (a : Nat) : 0 < 256 ^ a := Nat.pow_pos (by decide)

theorem pow256_le {a b : Nat} (h : a ≤ b) : 256 ^ a ≤ 256 ^ b := Nat.pow_le_pow_right (by decide) h

theorem pow256_lt {a b : Nat} (h : a < b) : 2 * 256 ^ a ≤ 256 ^ b := by
  have h1 : 256 ^ (a + 1) ≤ 256 ^ b := pow256_le h
  rw [Nat.pow_succ] at h1
  have := pow256_pos a
  omega

/-- sound: when the pair is accepting, whatever the reader's field returns, the writer's field packs -/
theorem FT.dec_accepts {r w : FT} (hr : r.ok = true) (hw : w.ok = true) (ha : r.accepts w = true) {d : B} {p : Nat} {v : FV}
    {p' : Nat} (h : r.dec d p = .ok (v, p')) : w.Fits v := by
  obtain ⟨hf, hwf, _, _⟩ := FT.dec_ok hr h
  cases r with
  | u a =>
    cases v with
    | bytes b => simp only [FT.Fits] at hf
    | int z =>
      simp only [FT.Fits] at hf
      cases w with
      | u b =>
        simp only [FT.accepts, decide_eq_true_eq] at ha
        have := pow256_le ha
        exact ⟨hf.1, by omega⟩
      | s b =>
        simp only [FT.accepts, decide_eq_true_eq] at ha
        have := pow256_lt ha
        simp only [FT.Fits, FitsS]
        omega
      | q => trivial
      | str n => simp only [FT.accepts] at ha; cases ha
  | s a =>
    cases v with
    | bytes b => simp only [FT.Fits] at hf
    | int z =>
      simp only [FT.Fits] at hf
      cases w with
      | u b => simp only [FT.accepts] at ha; cases ha
      | s b =>
        simp only [FT.accepts, decide_eq_true_eq] at ha
        have := pow256_le ha
        have := pow256_pos a
        simp only [FT.Fits, FitsS] at hf ⊢
        omega
      | q => trivial
      | str n => simp only [FT.accepts] at ha; cases ha
  | q =>
    cases v with
    | bytes b => simp only [FT.WF] at hwf; simp only [FT.Fits] at hf
    | int z =>
      simp only [FT.WF] at hwf
      cases w with
      | u b =>
        simp only [FT.accepts, decide_eq_true_eq] at ha
        have := pow256_lt (a := 0) ha
        simp only [FT.Fits]
        omega
      | s b =>
        simp only [FT.accepts, decide_eq_true_eq] at ha
        have := pow256_lt (a := 0) ha
        have : (256 : Nat) ^ b = 256 ^ (b - 1) * 256 := by rw [← Nat.pow_succ]; congr 1; omega
        have := pow256_pos (b - 1)
        simp only [FT.Fits, FitsS]
        omega
      | q => trivial
      | str n => simp only [FT.accepts] at ha; cases ha
  | str n =>
    cases v with
    | int z => simp only [FT.Fits] at hf
    | bytes b =>
      cases w with
      | str m => trivial
      | u b => simp only [FT.accepts] at ha; cases ha
      | s b => simp only [FT.accepts] at ha; cases ha
      | q => simp only [FT.accepts] at ha; cases ha

theorem fmtDec_accepts : ∀ (rs ws : List FI), rs.all FI.ok = true → ws.all FI.ok = true → fmtAccepts rs ws = true →
    ∀ {d : B} {p : Nat} {vs : Row} {p' : Nat}, fmtDec rs d p = .ok (vs, p') → fmtFits ws vs ∧ fmtSize rs = fmtSize ws
  | [], [], _, _, _, d, p, vs, p', h => by
    simp only [fmtDec] at h; cases h; exact ⟨rfl, rfl⟩
  | .pad n :: rs, .pad m :: ws, hr, hw, ha, d, p, vs, p', h => by
    simp only [List.all_cons, Bool.and_eq_true] at hr hw
    simp only [fmtAccepts, Bool.and_eq_true, beq_iff_eq] at ha
    simp only [fmtDec] at h
    split at h
    · obtain ⟨a, b⟩ := fmtDec_accepts rs ws hr.2 hw.2 ha.2 h
      exact ⟨by simpa only [fmtFits] using a, by simp only [fmtSize, ha.1, b]⟩
    · cases h
  | .fld r :: rs, .fld w :: ws, hr, hw, ha, d, p, vs, p', h => by
    simp only [List.all_cons, Bool.and_eq_true, FI.ok] at hr hw
    simp only [fmtAccepts, Bool.and_eq_true, beq_iff_eq] at ha
    simp only [fmtDec] at h
    split at h
    · rename_i v q hq
      split at h
      · rename_i vs' q' hq'
        obtain ⟨a, b⟩ := fmtDec_accepts rs ws hr.2 hw.2 ha.2 hq'
        cases h
        exact ⟨by simp only [fmtFits]; exact ⟨FT.dec_accepts hr.1 hw.1 ha.1.2 hq, a⟩, by simp only [fmtSize, ha.1.1, b]⟩
      · cases h
    · cases h
  | [], _ :: _, _, _, ha, _, _, _, _, _ => by simp only [fmtAccepts] at ha; cases ha
  | _ :: _, [], _, _, ha, _, _, _, _, _ => by simp only [fmtAccepts] at ha; cases ha
  | .pad _ :: _, .fld _ :: _, _, _, ha, _, _, _, _, _ => by simp only [fmtAccepts] at ha; cases ha
  | .fld _ :: _, .pad _ :: _, _, _, ha, _, _, _, _, _ => by simp only [fmtAccepts] at ha; cases ha

/-! ### exactness: a pair that is not accepting has an accepted input the writer rejects -/

/-- the bytes on which the reader's field returns its extreme value -/
def FT.extreme : FT → B
  | .u a => beBytes a (256 ^ a - 1)
  | .s a => sT a (-1)
  | .q => [1]
  | .str n => zeros n

/-- ... and, for a signed field, the largest positive one -/
def FT.extremePos : FT → B
  | .s a => sT a (((256 ^ a / 2 : Nat) : Int) - 1)
  | t => t.extreme

theorem FT.dec_extreme {r : FT} (hr : r.ok = true) :
    r.dec r.extreme 0 = .ok ((match r with
      | .u a => .int ((256 ^ a - 1 : Nat) : Int) | .s _ => .int (-1) | .q => .int 1 | .str n => .bytes (zeros n)), r.size) := by
  cases r with
  | u a =>
    have := pow256_pos a
    have h := readU_at (At.self (beBytes a (256 ^ a - 1))) (by omega)
    simp only [FT.dec, FT.extreme, h, FT.size, Nat.zero_add]
  | s a =>
    have hw := sWidth_of_ok hr
    have hz : FitsS a (-1) := by
      rcases hw with rfl | rfl | rfl | rfl <;> decide
    have h := (readS_step (rest := []) hw (At.self (sT a (-1))).nil_right hz).1
    simp only [FT.dec, FT.extreme, h, FT.size, Nat.zero_add]
  | q => rfl
  | str n =>
    have h := readN_at' (At.self (zeros n)) (length_zeros n)
    simp only [FT.dec, FT.extreme, h, FT.size, Nat.zero_add]

theorem FT.dec_extremePos {a : Nat} (hr : (FT.s a).ok = true) :
    (FT.s a).dec (FT.s a).extremePos 0 = .ok (.int (((256 ^ a / 2 : Nat) : Int) - 1), a) := by
  have hw := sWidth_of_ok hr
  have hz : FitsS a (((256 ^ a / 2 : Nat) : Int) - 1) := by
    rcases hw with rfl | rfl | rfl | rfl <;> decide
  have h := (readS_step (rest := []) hw (At.self _).nil_right hz).1
  simp only [FT.dec, FT.extremePos, h, Nat.zero_add]

/-- exact: the pair is accepting iff no accepted input makes the writer raise `struct.error`. The witnesses are
`r.extreme` / `r.extremePos`: all bits set (an unsigned field read, a signed one of the same width written: the case of a
`write` that packs with another signedness than `read` unpacks), -1 (signed read, unsigned written), the largest positive
value (signed read, narrower signed written). -/
theorem FT.accepts_iff {r w : FT} (hr : r.ok = true) (hw : w.ok = true) :
    (∀ (d : B) (p : Nat) (v : FV) (p' : Nat), r.dec d p = .ok (v, p') → w.Fits v) ↔ r.accepts w = true := by
  constructor
  · intro hall
    have hx := hall _ _ _ _ (FT.dec_extreme hr)
    cases r with
    | u a =>
      have := pow256_pos a
      cases w with
      | u b =>
        simp only [FT.Fits, Int.toNat_natCast] at hx
        simp only [FT.accepts, decide_eq_true_eq]
        by_cases hab : a ≤ b
        · exact hab
        · have := pow256_lt (a := b) (b := a) (by omega); omega
      | s b =>
        simp only [FT.Fits, FitsS] at hx
        simp only [FT.accepts, decide_eq_true_eq]
        by_cases hab : a < b
        · exact hab
        · have := pow256_le (a := b) (b := a) (by omega); omega
      | q => rfl
      | str n => simp only [FT.Fits] at hx
    | s a =>
      cases w with
      | u b => simp only [FT.Fits] at hx; omega
      | s b =>
        have hp := hall _ _ _ _ (FT.dec_extremePos hr)
        simp only [FT.accepts, decide_eq_true_eq]
        have ha := sWidth_of_ok hr
        have hb := sWidth_of_ok hw
        simp only [FT.Fits, FitsS] at hp
        rcases ha with rfl | rfl | rfl | rfl <;> rcases hb with rfl | rfl | rfl | rfl <;>
          simp only [Nat.reducePow, Nat.reduceDiv] at hp <;> omega
      | q => rfl
      | str n => simp only [FT.Fits] at hx
    | q =>
      cases w with
      | u b =>
        simp only [FT.Fits] at hx
        simp only [FT.accepts, decide_eq_true_eq]
        cases b with
        | zero => simp at hx
        | succ b => omega
      | s b =>
        simp only [FT.accepts, decide_eq_true_eq]
        have hb := sWidth_of_ok hw
        unfold SWidth at hb; omega
      | q => rfl
      | str n => simp only [FT.Fits] at hx
    | str n =>
      cases w with
      | str m => rfl
      | u b => simp only [FT.Fits] at hx
      | s b => simp only [FT.Fits] at hx
      | q => simp only [FT.Fits] at hx
  · intro ha d p v p' h
    exact FT.dec_accepts hr hw ha h

/-- same width, other signedness: never accepting (the shape of a `write` that packs `i` where `read` unpacks `I`) -/
theorem FT.unsigned_signed_not_accepting (a : Nat) : (FT.u a).accepts (.s a) = false ∧ (FT.s a).accepts (.u a) = false := by
  simp [FT.accepts]

/-- a field is always accepting for itself -/
theorem FT.accepts_self (t : FT) : t.accepts t = true := by
  cases t <;> simp [FT.accepts]

theorem fmtAccepts_self : ∀ fs : List FI, fmtAccepts fs fs = true
  | [] => rfl
  | .pad n :: fs => by simp only [fmtAccepts, beq_self_eq_true, fmtAccepts_self fs, Bool.and_self]
  | .fld t :: fs => by simp only [fmtAccepts, beq_self_eq_true, FT.accepts_self, fmtAccepts_self fs, Bool.and_self]

end PsdVerif.Payload3
