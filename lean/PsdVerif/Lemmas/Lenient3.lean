/-
C02 — what the lenient reader can return, part 3: layer records, channel data, layer info.

`LayerRecord.Read v r` collects what `LayerRecord.dec` guarantees about a record; it does not mention
`channel_info.length` (the writer overwrites it), so it is invariant under `_update_channel_length`.
`…LenFits` are the derived lengths (`FitsU w body.length`) that `Fits` asks for beyond the fields.
-/
import PsdVerif.Lemmas.Lenient2

namespace PsdVerif.Psd
open PsdVerif PsdVerif.Codec

/-! ## layer record -/

def BlendingRanges.Shape (r : BlendingRanges) : Prop :=
  ((r.composite = none ∧ r.channels = none) ∨ (r.composite.isSome ∧ r.channels.isSome)) ∧
  (match r.composite with | some c => c.Fits | none => True) ∧
  (match r.channels with | some cs => ∀ c ∈ cs, c.Fits | none => True)

structure LayerRecord.Read (v : Nat) (r : LayerRecord) : Prop where
  valid : r.Valid
  rect : FitsI32 r.top ∧ FitsI32 r.left ∧ FitsI32 r.bottom ∧ FitsI32 r.right
  count : FitsU 2 r.channelInfo.length
  ids : ∀ c ∈ r.channelInfo, c.id ∈ G.channelIds ∧ FitsI16 c.id
  opacity : FitsU 1 r.opacity
  clipping : FitsU 1 r.clipping
  maskFits : maskFits r.maskData
  maskWF : maskStable r.maskData → maskWF r.maskData
  ranges : r.blendingRanges.Shape
  name : r.name.length < 256
  tbs : taggedBlocksWF v r.taggedBlocks

theorem maskDec_fits {d : B} {p : Nat} {m : Option MaskData} {p' : Nat} (hd : maskDec d p = .ok (m, p')) :
    maskFits m ∧ (maskStable m → maskWF m) := by
  unfold maskDec at hd
  obtain ⟨⟨data, p1⟩, e1, hd⟩ := bind_ok hd
  dsimp only at hd
  split at hd
  · cases hd; exact ⟨trivial, fun _ => trivial⟩
  · obtain ⟨⟨m', p2⟩, e2, hd⟩ := bind_ok hd
    dsimp only at hd
    cases hd
    obtain ⟨h1, h2, _⟩ := MaskData.bodyDec_ok e2
    refine ⟨⟨h1, ?_⟩, fun hst => ⟨h1, h2, hst⟩⟩
    have := m'.length_bodyT_le
    have h60 : (60 : Nat) < 256 ^ 4 := by decide
    unfold FitsU; omega

theorem LayerRecord.extraDec_ok {v : Nat} {d : B} {p : Nat} {m : Option MaskData} {rg : BlendingRanges} {nm : B}
    {ts : List TaggedBlock} {p' : Nat} (hd : LayerRecord.extraDec v d p = .ok ((m, rg, nm, ts), p')) :
    maskFits m ∧ (maskStable m → maskWF m) ∧ rg.Shape ∧ nm.length < 256 ∧ taggedBlocksWF v ts := by
  unfold LayerRecord.extraDec at hd
  obtain ⟨⟨a1, p1⟩, e1, hd⟩ := bind_ok hd
  obtain ⟨⟨a2, p2⟩, e2, hd⟩ := bind_ok hd
  obtain ⟨⟨a3, p3⟩, e3, hd⟩ := bind_ok hd
  obtain ⟨⟨a4, p4⟩, e4, hd⟩ := bind_ok hd
  dsimp only at hd
  cases hd
  obtain ⟨h1, h2⟩ := maskDec_fits e1
  exact ⟨h1, h2, BlendingRanges.dec_ok e2, readPascal_ok e3, taggedBlocksDec_ok e4⟩

theorem LayerRecord.dec_ok {v : Nat} {d : B} {p : Nat} {r : LayerRecord} {p' : Nat}
    (hd : LayerRecord.dec v d p = .ok (r, p')) : LayerRecord.Read v r := by
  unfold LayerRecord.dec at hd
  obtain ⟨⟨a1, p1⟩, e1, hd⟩ := bind_ok hd
  obtain ⟨⟨a2, p2⟩, e2, hd⟩ := bind_ok hd
  obtain ⟨⟨a3, p3⟩, e3, hd⟩ := bind_ok hd
  obtain ⟨⟨a4, p4⟩, e4, hd⟩ := bind_ok hd
  obtain ⟨⟨n, p5⟩, e5, hd⟩ := bind_ok hd
  obtain ⟨⟨cis, p6⟩, e6, hd⟩ := bind_ok hd
  obtain ⟨⟨sig, p7⟩, e7, hd⟩ := bind_ok hd
  obtain ⟨⟨bm, p8⟩, e8, hd⟩ := bind_ok hd
  obtain ⟨⟨op, p9⟩, e9, hd⟩ := bind_ok hd
  obtain ⟨⟨cl, p10⟩, e10, hd⟩ := bind_ok hd
  obtain ⟨⟨fl, p11⟩, e11, hd⟩ := bind_ok hd
  obtain ⟨⟨data, p12⟩, e12, hd⟩ := bind_ok hd
  obtain ⟨⟨⟨m, rg, nm, ts⟩, p13⟩, e13, hd⟩ := bind_ok hd
  dsimp only at hd
  split at hd
  · rename_i hv
    cases hd
    obtain ⟨h1, h2, h3, h4, h5⟩ := LayerRecord.extraDec_ok e13
    obtain ⟨hc1, hc2⟩ := readCount_ok e6
    refine ⟨hv, ⟨(readI32_ok e1).1, (readI32_ok e2).1, (readI32_ok e3).1, (readI32_ok e4).1⟩, ?_, ?_,
      (readU_ok e9).1, (readU_ok e10).1, h1, h2, h3, h4, h5⟩
    · show FitsU 2 cis.length
      rw [hc1]; exact (readU_ok e5).1
    · intro c hc
      obtain ⟨q, q', hq⟩ := hc2 c hc
      have := ChannelInfo.dec_ok hq
      exact ⟨this.1, this.2.1⟩
  · cases hd

/-- the derived lengths of a record -/
def LayerRecord.LenFits (v : Nat) (r : LayerRecord) : Prop :=
  FitsU 4 r.blendingRanges.bodyT.length ∧ FitsU 4 (r.extraT v).length ∧ ∀ c ∈ r.channelInfo, FitsU (secW v) c.length

instance (v : Nat) (r : LayerRecord) : Decidable (r.LenFits v) := by unfold LayerRecord.LenFits; exact inferInstance

theorem LayerRecord.Read.fits {v : Nat} {r : LayerRecord} (h : LayerRecord.Read v r) (hl : r.LenFits v) : r.Fits v := by
  obtain ⟨l1, l2, l3⟩ := hl
  exact ⟨h.rect.1, h.rect.2.1, h.rect.2.2.1, h.rect.2.2.2, h.count, fun c hc => ⟨(h.ids c hc).2, l3 c hc⟩, h.opacity,
    h.clipping, h.maskFits, ⟨h.ranges.2.1, h.ranges.2.2, l1⟩, h.name, taggedBlocksWF_fits h.tbs, l2⟩

theorem LayerRecord.Read.wf {v : Nat} {r : LayerRecord} (h : LayerRecord.Read v r) (hf : r.Fits v)
    (hst : maskStable r.maskData) : r.WF v :=
  ⟨h.valid, hf, fun c hc => (h.ids c hc).1, h.maskWF hst, ⟨hf.2.2.2.2.2.2.2.2.2.1, h.ranges.1⟩, h.tbs⟩

/-! ### `_update_channel_length` keeps everything `Read` speaks about -/

theorem mem_refreshCI {cis : List ChannelInfo} {cs : List ChannelData} {c' : ChannelInfo} (h : c' ∈ refreshCI cis cs) :
    ∃ c ∈ cis, c'.id = c.id := by
  induction cis generalizing cs with
  | nil => cases cs <;> simp [refreshCI] at h
  | cons ci cis ih =>
    cases cs with
    | nil => simp only [refreshCI] at h; exact ⟨c', h, rfl⟩
    | cons c0 cs =>
      simp only [refreshCI, List.mem_cons] at h
      rcases h with rfl | h
      · exact ⟨ci, by simp, rfl⟩
      · obtain ⟨c, hc, e⟩ := ih h
        exact ⟨c, by simp [hc], e⟩

theorem LayerRecord.Read.refresh {v : Nat} {r : LayerRecord} (h : LayerRecord.Read v r) (cs : List ChannelData) :
    LayerRecord.Read v { r with channelInfo := refreshCI r.channelInfo cs } where
  valid := h.valid
  rect := h.rect
  count := by show FitsU 2 (refreshCI r.channelInfo cs).length; rw [length_refreshCI]; exact h.count
  ids := by
    intro c' hc'
    obtain ⟨c, hc, e⟩ := mem_refreshCI hc'
    rw [e]; exact h.ids c hc
  opacity := h.opacity
  clipping := h.clipping
  maskFits := h.maskFits
  maskWF := h.maskWF
  ranges := h.ranges
  name := h.name
  tbs := h.tbs

theorem mem_refreshRecords {rs : List LayerRecord} {css : List (List ChannelData)} {r' : LayerRecord}
    (h : r' ∈ refreshRecords rs css) :
    ∃ r ∈ rs, r' = r ∨ ∃ cs, r' = { r with channelInfo := refreshCI r.channelInfo cs } := by
  induction rs generalizing css with
  | nil => cases css <;> simp [refreshRecords] at h
  | cons r rs ih =>
    cases css with
    | nil => simp only [refreshRecords] at h; exact ⟨r', h, Or.inl rfl⟩
    | cons c0 css =>
      simp only [refreshRecords, List.mem_cons] at h
      rcases h with rfl | h
      · exact ⟨r, by simp, Or.inr ⟨c0, rfl⟩⟩
      · obtain ⟨r0, hr0, e⟩ := ih h
        exact ⟨r0, by simp [hr0], e⟩

/-! ## channel data -/

theorem ChannelData.dec_ok {n : Nat} {d : B} {p : Nat} {c : ChannelData} {p' : Nat}
    (hd : ChannelData.dec n d p = .ok (c, p')) : c.WF ∧ c.Fits := by
  unfold ChannelData.dec at hd
  obtain ⟨⟨comp, p1⟩, e1, hd⟩ := bind_ok hd
  dsimp only at hd
  split at hd
  · rename_i hc
    obtain ⟨⟨data, p2⟩, e2, hd⟩ := bind_ok hd
    dsimp only at hd
    cases hd
    exact ⟨hc, (readU_ok e1).1⟩
  · cases hd

theorem channelListDec_ok {cis : List ChannelInfo} {d : B} {p : Nat} {cs : List ChannelData} {p' : Nat}
    (hd : channelListDec cis d p = .ok (cs, p')) : cis.length = cs.length ∧ ∀ c ∈ cs, c.WF ∧ c.Fits := by
  unfold channelListDec at hd
  induction cis generalizing p cs p' with
  | nil => simp only [readFor] at hd; cases hd; exact ⟨rfl, by intro c hc; cases hc⟩
  | cons ci cis ih =>
    simp only [readFor] at hd
    split at hd
    · cases hd
    · rename_i a p1 ha
      split at hd
      · cases hd
      · rename_i as p2 has
        cases hd
        obtain ⟨h1, h2⟩ := ih has
        refine ⟨by simp [h1], ?_⟩
        intro c hc
        rcases List.mem_cons.1 hc with rfl | hc
        · exact ChannelData.dec_ok ha
        · exact h2 c hc

theorem channelImageDec_ok {rs : List LayerRecord} {d : B} {p : Nat} {css : List (List ChannelData)} {p' : Nat}
    (hd : channelImageDec rs d p = .ok (css, p')) :
    shapesAgree rs css ∧ ∀ cs ∈ css, ∀ c ∈ cs, c.WF ∧ c.Fits := by
  unfold channelImageDec at hd
  induction rs generalizing p css p' with
  | nil => simp only [readFor] at hd; cases hd; exact ⟨trivial, by intro cs hcs; cases hcs⟩
  | cons r rs ih =>
    simp only [readFor] at hd
    split at hd
    · cases hd
    · rename_i a p1 ha
      split at hd
      · cases hd
      · rename_i as p2 has
        cases hd
        obtain ⟨h1, h2⟩ := ih has
        obtain ⟨g1, g2⟩ := channelListDec_ok ha
        refine ⟨⟨g1, h1⟩, ?_⟩
        intro cs hcs
        rcases List.mem_cons.1 hcs with rfl | hcs
        · exact g2
        · exact h2 cs hcs

/-! ## layer info -/

/-- what `LayerInfo.read` guarantees -/
def LayerInfo.Read (v : Nat) (li : LayerInfo) : Prop :=
  FitsI16 li.layerCount ∧
  if li.layerCount = 0 then li.records = none ∧ li.channels = none
  else ∃ rs css, li.records = some rs ∧ li.channels = some css ∧ li.layerCount.natAbs = rs.length ∧
    shapesAgree rs css ∧ (∀ r ∈ rs, LayerRecord.Read v r) ∧ ∀ cs ∈ css, ∀ c ∈ cs, ChannelData.WF c ∧ c.Fits

theorem LayerInfo.bodyDec_ok {v : Nat} {d : B} {p : Nat} {li : LayerInfo} {p' : Nat}
    (hd : LayerInfo.bodyDec v d p = .ok (li, p')) : LayerInfo.Read v li.normCount0 := by
  unfold LayerInfo.bodyDec at hd
  obtain ⟨⟨count, p1⟩, e1, hd⟩ := bind_ok hd
  obtain ⟨⟨rs, p2⟩, e2, hd⟩ := bind_ok hd
  obtain ⟨⟨css, p3⟩, e3, hd⟩ := bind_ok hd
  dsimp only at hd
  cases hd
  unfold LayerInfo.normCount0 LayerInfo.Read
  by_cases h0 : count = 0
  · rw [if_pos h0]
    exact ⟨by decide, by simp⟩
  · rw [if_neg h0]
    simp only [h0, if_false]
    obtain ⟨hc1, hc2⟩ := readCount_ok e2
    obtain ⟨hs1, hs2⟩ := channelImageDec_ok e3
    refine ⟨(readI16_ok e1).1, rs, css, rfl, rfl, hc1.symm, hs1, ?_, hs2⟩
    intro r hr
    obtain ⟨q, q', hq⟩ := hc2 r hr
    exact LayerRecord.dec_ok hq

theorem LayerInfo.dec_ok {v : Nat} {d : B} {p : Nat} {li : LayerInfo} {p' : Nat}
    (hd : LayerInfo.dec v d p = .ok (li, p')) : LayerInfo.Read v li := by
  unfold LayerInfo.dec at hd
  obtain ⟨⟨len, p1⟩, e1, hd⟩ := bind_ok hd
  obtain ⟨⟨li', p2⟩, e2, hd⟩ := bind_ok hd
  dsimp only at hd
  split at hd
  · split at hd
    · cases hd
    · cases hd
      split at e2
      · cases e2
        exact ⟨by decide, by simp⟩
      · split at e2
        · rename_i li0 q hq
          cases e2
          exact LayerInfo.bodyDec_ok hq
        · cases e2
  · cases hd

/-- no mask of a record is the 35-byte block with two feathers -/
def LayerInfo.Stable (li : LayerInfo) : Prop :=
  match li.records with
  | some rs => ∀ r ∈ rs, maskStable r.maskData
  | none => True

instance (li : LayerInfo) : Decidable li.Stable := by
  unfold LayerInfo.Stable; cases li.records <;> simp only <;> exact inferInstance

/-- the derived lengths of the layer info, on the object as the writer leaves it -/
def LayerInfo.LenFits (v pad : Nat) (li : LayerInfo) : Prop :=
  if li.layerCount = 0 then True
  else (match li.refresh.records with
        | some rs => ∀ r ∈ rs, LayerRecord.LenFits v r
        | none => True) ∧ FitsU (secW v) (li.refresh.bodyT v pad).length

instance (v pad : Nat) (li : LayerInfo) : Decidable (li.LenFits v pad) := by
  unfold LayerInfo.LenFits
  split
  · exact inferInstance
  · cases li.refresh.records <;> simp only <;> exact inferInstance

/-- the shape of a layer info that was read with `layer_count ≠ 0`, and of its refreshed form -/
theorem LayerInfo.Read.shape {v : Nat} {li : LayerInfo} (h : LayerInfo.Read v li) (h0 : li.layerCount ≠ 0) :
    ∃ r0 rs0 c0 css0, li = ⟨li.layerCount, some (r0 :: rs0), some (c0 :: css0)⟩ ∧
      li.refresh = ⟨li.layerCount, some (refreshRecords (r0 :: rs0) (c0 :: css0)), some (c0 :: css0)⟩ ∧
      li.layerCount.natAbs = (r0 :: rs0).length ∧ shapesAgree (r0 :: rs0) (c0 :: css0) ∧
      (∀ r ∈ r0 :: rs0, LayerRecord.Read v r) ∧ (∀ cs ∈ c0 :: css0, ∀ c ∈ cs, ChannelData.WF c ∧ c.Fits) := by
  obtain ⟨n, rs, css⟩ := li
  obtain ⟨_, h⟩ := h
  simp only at h0
  simp only [h0, if_false] at h
  obtain ⟨rs', css', e1, e2, hcount, hshape, hrecs, hch⟩ := h
  change rs = some rs' at e1
  change css = some css' at e2
  change n.natAbs = rs'.length at hcount
  subst e1 e2
  cases rs' with
  | nil => simp at hcount; exact absurd hcount h0
  | cons r0 rs0 =>
    cases css' with
    | nil => simp [shapesAgree] at hshape
    | cons c0 css0 =>
      refine ⟨r0, rs0, c0, css0, rfl, ?_, hcount, hshape, hrecs, hch⟩
      simp [LayerInfo.refresh, h0]

theorem LayerInfo.Read.fits {v pad : Nat} {li : LayerInfo} (h : LayerInfo.Read v li) (hl : li.LenFits v pad) :
    li.Fits v pad := by
  unfold LayerInfo.Fits
  by_cases h0 : li.layerCount = 0
  · simp [h0]
  · simp only [h0, if_false]
    unfold LayerInfo.LenFits at hl
    simp only [h0, if_false] at hl
    obtain ⟨r0, rs0, c0, css0, _, href, _, _, hrecs, hch⟩ := h.shape h0
    rw [href] at hl ⊢
    obtain ⟨hl1, hl2⟩ := hl
    simp only at hl1
    refine ⟨h.1, ?_, ?_, hl2⟩
    · show ∀ r' ∈ refreshRecords (r0 :: rs0) (c0 :: css0), LayerRecord.Fits v r'
      intro r' hr'
      obtain ⟨r, hr, e⟩ := mem_refreshRecords hr'
      rcases e with rfl | ⟨cs, rfl⟩
      · exact (hrecs r' hr).fits (hl1 r' hr')
      · exact ((hrecs r hr).refresh cs).fits (hl1 _ hr')
    · show ∀ cs ∈ c0 :: css0, ∀ c ∈ cs, ChannelData.Fits c
      intro cs hcs c hc
      exact (hch cs hcs c hc).2

theorem LayerInfo.Read.wf {v pad : Nat} {li : LayerInfo} (h : LayerInfo.Read v li) (hf : li.Fits v pad)
    (hst : li.Stable) : li.WF v pad := by
  unfold LayerInfo.WF
  by_cases h0 : li.layerCount = 0
  · have := h.2
    simp only [h0, if_true] at this ⊢
    exact this
  · simp only [h0, if_false]
    unfold LayerInfo.Fits at hf
    simp only [h0, if_false] at hf
    obtain ⟨r0, rs0, c0, css0, hli, href, hcount, hshape, hrecs, hch⟩ := h.shape h0
    have hst' : ∀ r ∈ r0 :: rs0, maskStable r.maskData := by
      rw [hli] at hst
      exact hst
    rw [href] at hf
    rw [hli]
    simp only
    rw [← hli, href]
    refine ⟨hcount, hshape, ?_, fun cs hcs c hc => (hch cs hcs c hc).1, hf⟩
    intro r' hr'
    have hfr : LayerRecord.Fits v r' := hf.2.1 r' hr'
    obtain ⟨r, hr, e⟩ := mem_refreshRecords hr'
    rcases e with rfl | ⟨cs, rfl⟩
    · exact (hrecs r' hr).wf hfr (hst' r' hr)
    · exact ((hrecs r hr).refresh cs).wf hfr (hst' r hr)

end PsdVerif.Psd
