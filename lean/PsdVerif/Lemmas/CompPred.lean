/-
Helper lemmas for C04: conversions between byte strings and the item arrays of the
prediction codec, and its round trip per depth.
Core Lean only.
-/
import PsdVerif.Lemmas.CompDelta
import PsdVerif.Lemmas.CompShuffle

namespace PsdVerif.Compression
open PsdVerif

theorem toNat_ofNat_lt (x : Nat) (h : x < 256) : (UInt8.ofNat x).toNat = x := by
  simp [UInt8.toNat_ofNat']; omega

theorem natsOfBytes_good (d : BList) : DeltaGood 256 d.length (natsOfBytes d) := by
  constructor
  · simp [natsOfBytes]
  · intro i hi
    simp only [natsOfBytes, List.getElem_toArray, List.getElem_map]
    exact UInt8.toNat_lt _

theorem bytesOfNats_natsOfBytes (d : BList) : bytesOfNats (natsOfBytes d) = d := by
  simp only [bytesOfNats, natsOfBytes, List.map_map]
  have : (UInt8.ofNat ∘ fun (x : UInt8) => x.toNat) = id := by
    funext x; simp
  rw [this, List.map_id]

theorem natsOfBytes_bytesOfNats (n : Nat) (a : Array Nat) (h : DeltaGood 256 n a) :
    natsOfBytes (bytesOfNats a) = a := by
  obtain ⟨_, hlt⟩ := h
  apply Array.ext
  · simp [natsOfBytes, bytesOfNats]
  · intro i h1 h2
    simp only [natsOfBytes, bytesOfNats, List.getElem_toArray, List.getElem_map, Array.getElem_toList]
    exact toNat_ofNat_lt _ (hlt i h2)

theorem bytesOfNats_length (a : Array Nat) : (bytesOfNats a).length = a.size := by
  simp [bytesOfNats]

/-! ### 16-bit words -/

theorem wordsOfBytes_spec (d : BList) (n : Nat) (h : d.length = 2 * n) :
    ∃ ws, wordsOfBytes d = .ok ws ∧ ws.length = n ∧ (∀ x ∈ ws, x < 65536) ∧ bytesOfWords ws = d := by
  induction n generalizing d with
  | zero =>
    have : d = [] := List.eq_nil_of_length_eq_zero (by simpa using h)
    subst this
    exact ⟨[], rfl, rfl, by simp, rfl⟩
  | succ n ih =>
    match d, h with
    | hi :: lo :: t, h =>
      obtain ⟨ws, h1, h2, h3, h4⟩ := ih t (by simp at h; omega)
      refine ⟨(hi.toNat * 256 + lo.toNat) :: ws, ?_, by simp [h2], ?_, ?_⟩
      · simp [wordsOfBytes, h1]
      · intro x hx
        rcases List.mem_cons.mp hx with rfl | hx
        · have := UInt8.toNat_lt hi; have := UInt8.toNat_lt lo; omega
        · exact h3 x hx
      · have hl := UInt8.toNat_lt lo
        have e1 : (hi.toNat * 256 + lo.toNat) / 256 = hi.toNat := by omega
        have e2 : (hi.toNat * 256 + lo.toNat) % 256 = lo.toNat := by omega
        simp only [bytesOfWords, List.flatMap_cons, e1, e2, UInt8.ofNat_toNat] at h4 ⊢
        rw [h4]; rfl

theorem wordsOfBytes_bytesOfWords (ws : List Nat) (h : ∀ x ∈ ws, x < 65536) :
    wordsOfBytes (bytesOfWords ws) = .ok ws := by
  induction ws with
  | nil => rfl
  | cons v ws ih =>
    have hv := h v (by simp)
    have e1 : (UInt8.ofNat (v / 256)).toNat = v / 256 := toNat_ofNat_lt _ (by omega)
    have e2 : (UInt8.ofNat (v % 256)).toNat = v % 256 := toNat_ofNat_lt _ (by omega)
    have ih' := ih (fun x hx => h x (by simp [hx]))
    simp only [bytesOfWords, List.flatMap_cons] at ih' ⊢
    simp only [List.cons_append, List.nil_append, wordsOfBytes, ih', e1, e2]
    congr 2; omega

theorem bytesOfWords_length (ws : List Nat) : (bytesOfWords ws).length = 2 * ws.length := by
  induction ws with
  | nil => rfl
  | cons v ws ih =>
    simp only [bytesOfWords, List.flatMap_cons] at ih ⊢
    simp [ih]; omega

/-! ### Round trip per depth -/

theorem pred8_roundtrip (d : BList) (w h : Nat) (hd : d.length = w * h) :
    ∃ e, encodePrediction d w h 8 = .ok e ∧ e.length = d.length ∧ decodePrediction e w h 8 = .ok d := by
  have hg := natsOfBytes_good d
  rw [hd] at hg
  obtain ⟨b, hb1, hb2, hb3⟩ := deltaLoop_roundtrip 256 w h _ hg
  refine ⟨bytesOfNats b, ?_, ?_, ?_⟩
  · simp [encodePrediction, hb1]
  · rw [bytesOfNats_length, hb2.1, hd]
  · simp [decodePrediction, natsOfBytes_bytesOfNats _ _ hb2, hb3, bytesOfNats_natsOfBytes]

theorem pred16_roundtrip (d : BList) (w h : Nat) (hd : d.length = 2 * (w * h)) :
    ∃ e, encodePrediction d w h 16 = .ok e ∧ e.length = d.length ∧ decodePrediction e w h 16 = .ok d := by
  obtain ⟨ws, h1, h2, h3, h4⟩ := wordsOfBytes_spec d (w * h) hd
  have hg : DeltaGood 65536 (w * h) ws.toArray := by
    constructor
    · simpa using h2
    · intro i hi
      simp only [List.getElem_toArray]
      exact h3 _ (List.getElem_mem _)
  obtain ⟨b, hb1, hb2, hb3⟩ := deltaLoop_roundtrip 65536 w h _ hg
  have hbl : ∀ x ∈ b.toList, x < 65536 := by
    intro x hx
    obtain ⟨i, hi, rfl⟩ := List.getElem_of_mem hx
    simpa using hb2.2 i (by simpa using hi)
  refine ⟨bytesOfWords b.toList, ?_, ?_, ?_⟩
  · simp [encodePrediction, h1, hb1]
  · rw [bytesOfWords_length, Array.length_toList, hb2.1, hd]
  · simp [decodePrediction, wordsOfBytes_bytesOfWords _ hbl, hb3, h4]

theorem pred32_roundtrip (d : BList) (w h : Nat) (hw : 0 < w) (hd : d.length = 4 * w * h) :
    ∃ e, encodePrediction d w h 32 = .ok e ∧ e.length = d.length ∧ decodePrediction e w h 32 = .ok d := by
  obtain ⟨s, hs1, hs2, hs3⟩ := shuffleArr_roundtrip w h d.toArray hw (by simpa using hd)
  have hsl : s.toList.length = w * 4 * h := by
    rw [Array.length_toList, hs2]; simp [hd, Nat.mul_comm 4 w]
  have hg := natsOfBytes_good s.toList
  rw [hsl] at hg
  obtain ⟨b, hb1, hb2, hb3⟩ := deltaLoop_roundtrip 256 (w * 4) h _ hg
  refine ⟨bytesOfNats b, ?_, ?_, ?_⟩
  · simp [encodePrediction, hs1, hb1]
  · rw [bytesOfNats_length, hb2.1, hd, Nat.mul_comm 4 w]
  · simp [decodePrediction, natsOfBytes_bytesOfNats _ _ hb2, hb3, bytesOfNats_natsOfBytes, hs3]

end PsdVerif.Compression
