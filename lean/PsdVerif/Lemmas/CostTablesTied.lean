/-
C06 - the ties of the cost tables (Model/CostTables.lean) to the working tree (Generated/AllocSites.lean,
Generated/ReadLoops.lean, rewritten by harness/extract_c06.py on every run), and what the snapshot says.

NOT stated here, because it is FALSE on the current source (see the head of Model/CostTables.lean):
  `no_declared_size_at_open : siteVerdicts.all (fun e => !(e.2.1 == "open" && e.2.2 == "declared-size")) = true`
The two offending sites are `utils.read_length_block: fp.read(length)` and `ChannelData.read: fp.read(length)` on the
caller's stream; `declared_size_at_open` below pins them down exactly.
-/
import PsdVerif.Model.CostTables

namespace PsdVerif.CostTables

/-- every allocation from a computed size in src/psd_tools is a site of the snapshot -/
theorem alloc_sites_tied : Generated.AllocSites.sites = CostTables.sites := by decide +kernel

/-- every loop, and every `try` outside a loop, of the reading functions is a row of the snapshot -/
theorem read_loops_tied : Generated.ReadLoops.loops = CostTables.loops := by decide +kernel

/-- every site has been given a phase and a verdict -/
theorem sites_all_classified : CostTables.sites = CostTables.siteVerdicts.map (·.1) := by decide +kernel

/-- the phases and verdicts are of the vocabulary -/
theorem verdicts_wellformed :
    CostTables.siteVerdicts.all (fun e => ["open", "export", "write", "other"].contains e.2.1 &&
      ["bounded-by-data", "declared-size", "constant"].contains e.2.2) = true := by decide +kernel

/-- the sites that allocate a declared size while a file is being opened: exactly two `fp.read(length)` on the caller's
stream (what they RETURN is bounded by the file; what `io.BufferedReader.read` reserves first is `length`) -/
theorem declared_size_at_open :
    (CostTables.siteVerdicts.filter (fun e => e.2.1 == "open" && e.2.2 == "declared-size")).map (·.1) =
      [("psd/layer_and_mask.py", "ChannelData.read", "read", "length"), ("utils.py", "read_length_block", "read", "length")] := by
  decide +kernel

/-- at phase "open" a declared size is only ever handed to a stream `read` - never to `bytearray`, a repetition, numpy, ... -/
theorem declared_size_at_open_is_stream_read :
    CostTables.siteVerdicts.all (fun e => !(e.2.1 == "open" && e.2.2 == "declared-size") || e.1.2.2.1 == "read") = true := by
  decide +kernel

/-- no count-driven or `while` loop of a reader has a handler that swallows the exception and goes on to the next iteration
(`mentions g "continue"` for `(g.splitOn "continue").length > 1`: `String.splitOn` does not reduce in the kernel) -/
theorem no_swallowing_loop :
    CostTables.loops.all (fun e => !(e.2.2.1 == "count" || e.2.2.1 == "while") ||
      !(mentions e.2.2.2.2 "continue")) = true := by decide +kernel

example : mentions "try:except Exception:continue" "continue" = true ∧ mentions "try:except IOError:raise" "continue" = false ∧
    mentions "" "continue" = false := by decide +kernel

/-- stronger, on the current source: no loop of a reader contains a `try` at all -/
theorem no_guarded_loop : CostTables.loops.all (fun e => e.2.2.1 == "try" || e.2.2.2.2 == "") = true := by decide +kernel

end PsdVerif.CostTables
