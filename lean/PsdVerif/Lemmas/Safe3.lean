/-
C06 — safety of the skeleton reader, part 3: the readers that seek (`LayerInfo.dec`,
`LayerAndMask.bodyDec`, `LayerAndMask.dec`), the whole file, and the header validators.
-/
import PsdVerif.Lemmas.Safe2
import PsdVerif.Lemmas.CodecPsd1

namespace PsdVerif.Safe
open PsdVerif PsdVerif.Codec PsdVerif.Psd

theorem bind_ok {α β : Type} {m : Except Err β} {f : β → Except Err α} {y : α} (h : (m >>= f) = .ok y) :
    ∃ x, m = .ok x ∧ f x = .ok y := by
  cases m with
  | error e => cases h
  | ok x => exact ⟨x, rfl, h⟩

theorem bind_error_left {α β : Type} {m : Except Err β} {f : β → Except Err α} {e : Err} (h : m = .error e) :
    (m >>= f) = .error e := by
  subst h; rfl

/-! ## the seeking readers: exception classes -/

theorem layerInfo_errIn (v : Nat) (d : B) (p : Nat) : ErrIn (LayerInfo.dec v d p) := by
  unfold LayerInfo.dec
  refine ErrIn.bind (readU_good _ d p).errIn fun ⟨length, p1⟩ _ => ?_
  have hm : ErrIn (if length = 0 then (.ok (⟨0, none, none⟩, p1) : Except Err (LayerInfo × Nat)) else
      match LayerInfo.bodyDec v d p1 with
      | .ok (li, p) => .ok (li.normCount0, p)
      | .error e => .error e) := by
    split
    · exact ErrIn.ok _
    · have g := layerInfoBody_good v d p1
      split
      · exact ErrIn.ok _
      · rename_i e he
        exact ErrIn.error (g.errIn e he)
  refine ErrIn.bind hm fun ⟨li, p2⟩ _ => ?_
  dsimp only
  split
  · split
    · exact ErrIn.error overflow_mem
    · exact ErrIn.ok _
  · exact ErrIn.error assertion_mem

theorem layerAndMaskBody_errIn (v endPos : Nat) (d : B) (p : Nat) : ErrIn (LayerAndMask.bodyDec v endPos d p) := by
  unfold LayerAndMask.bodyDec
  refine ErrIn.bind (layerInfo_errIn v d p) fun ⟨li, p1⟩ _ => ?_
  dsimp only
  split
  · refine ErrIn.bind (globalMask_good d p1).errIn fun ⟨glm, p2⟩ _ => ?_
    refine ErrIn.bind (taggedBlocks_good v 4 (some endPos) d p2).errIn fun ⟨tbs, p3⟩ _ => ?_
    exact ErrIn.ok _
  · exact ErrIn.ok _

theorem layerAndMask_errIn (v : Nat) (d : B) (p : Nat) : ErrIn (LayerAndMask.dec v d p) := by
  unfold LayerAndMask.dec
  refine ErrIn.bind (readU_good _ d p).errIn fun ⟨length, p1⟩ _ => ?_
  have hm : ErrIn (if length = 0 then (.ok (⟨none, none, none⟩, p1) : Except Err (LayerAndMask × Nat)) else
      LayerAndMask.bodyDec v (p1 + length) d p1) := by
    split
    · exact ErrIn.ok _
    · exact layerAndMaskBody_errIn v _ d p1
  refine ErrIn.bind hm fun ⟨x, _⟩ _ => ?_
  dsimp only
  split
  · exact ErrIn.error overflow_mem
  · exact ErrIn.ok _

theorem psd_errIn (d : B) (p : Nat) : ErrIn (PSD.read d p) := by
  unfold PSD.read
  refine ErrIn.bind (header_good d p).errIn fun ⟨header, p1⟩ _ => ?_
  refine ErrIn.bind (colorMode_good d p1).errIn fun ⟨cmd, p2⟩ _ => ?_
  refine ErrIn.bind (resources_good d p2).errIn fun ⟨res, p3⟩ _ => ?_
  refine ErrIn.bind (layerAndMask_errIn header.version d p3) fun ⟨lm, p4⟩ _ => ?_
  refine ErrIn.bind (imageData_good d p4).errIn fun ⟨img, p5⟩ _ => ?_
  exact ErrIn.ok _

/-! ## the seeking readers: where the cursor ends (`fp.seek(end_pos)`, whatever the stream holds) -/

theorem layerInfo_cursor {v : Nat} {d : B} {p : Nat} {li : LayerInfo} {p' : Nat}
    (h : LayerInfo.dec v d p = .ok (li, p')) :
    ∃ n, readU (secW v) d p = .ok (n, p + secW v) ∧ p' = p + secW v + n ∧ ¬ overflows p' d := by
  unfold LayerInfo.dec at h
  obtain ⟨⟨n, p1⟩, h1, h⟩ := bind_ok h
  obtain ⟨⟨li', p2⟩, _, h⟩ := bind_ok h
  have a1 := readU_ok h1
  simp only at h
  split at h
  · split at h
    · cases h
    · rename_i hov
      cases h
      refine ⟨n, ?_, by omega, hov⟩
      rw [h1, a1.1]
  · cases h

theorem layerAndMask_cursor {v : Nat} {d : B} {p : Nat} {x : LayerAndMask} {p' : Nat}
    (h : LayerAndMask.dec v d p = .ok (x, p')) :
    ∃ n, readU (secW v) d p = .ok (n, p + secW v) ∧ p' = p + secW v + n ∧ ¬ overflows p' d := by
  unfold LayerAndMask.dec at h
  obtain ⟨⟨n, p1⟩, h1, h⟩ := bind_ok h
  obtain ⟨⟨x', p2⟩, _, h⟩ := bind_ok h
  have a1 := readU_ok h1
  simp only at h
  split at h
  · cases h
  · rename_i hov
    cases h
    refine ⟨n, ?_, by omega, hov⟩
    rw [h1, a1.1]

/-- a position behind the end of a real stream (shorter than `2^63`) stays below `sys.maxsize + 1` -/
theorem lt_pyMaxSize_of_not_overflows {n : Nat} {d : B} (h : ¬ overflows n d) (hd : d.length < pyMaxSize) :
    n < pyMaxSize := by
  unfold overflows at h; omega

/-- a section that ends behind the end of the stream makes the next reader of `PSD.read` fail -/
theorem imageData_behind_end {d : B} {p : Nat} (h : d.length < p) : ImageData.dec d p = .error .ioError := by
  have : readU 2 d p = .error .ioError := by
    unfold readU readN
    rw [if_neg (by omega)]
  unfold ImageData.dec
  rw [this]; rfl

/-! ## the whole file -/

theorem psd_cursor {b : B} {v : PSD} {p : Nat} (h : PSD.read b 0 = .ok (v, p)) : p = b.length := by
  unfold PSD.read at h
  obtain ⟨⟨header, p1⟩, _, h⟩ := bind_ok h
  obtain ⟨⟨cmd, p2⟩, _, h⟩ := bind_ok h
  obtain ⟨⟨res, p3⟩, _, h⟩ := bind_ok h
  obtain ⟨⟨lm, p4⟩, _, h⟩ := bind_ok h
  obtain ⟨⟨img, p5⟩, h5, h⟩ := bind_ok h
  cases h
  exact imageData_end h5

/-- … and the layer-and-mask section it read ended inside the file -/
theorem psd_section_inside {b : B} {v : PSD} {p : Nat} (h : PSD.read b 0 = .ok (v, p)) :
    ∃ p3 p4, LayerAndMask.dec v.header.version b p3 = .ok (v.layerAndMask, p4) ∧ p4 + 2 ≤ b.length := by
  unfold PSD.read at h
  obtain ⟨⟨header, p1⟩, _, h⟩ := bind_ok h
  obtain ⟨⟨cmd, p2⟩, _, h⟩ := bind_ok h
  obtain ⟨⟨res, p3⟩, _, h⟩ := bind_ok h
  obtain ⟨⟨lm, p4⟩, h4, h⟩ := bind_ok h
  obtain ⟨⟨img, p5⟩, h5, h⟩ := bind_ok h
  cases h
  refine ⟨p3, p4, h4, ?_⟩
  have := (imageData_good b p4).of_ok h5
  have := imageData_end h5
  omega

/-! ## header -/

/-- the seven header fields as they lie in the stream at offset `p` (format `4sH6xHIIHH`) -/
def headerRaw (d : B) (p : Nat) : Header :=
  ⟨(d.drop p).take 4, beVal ((d.drop (p + 4)).take 2), beVal ((d.drop (p + 4 + 2 + 6)).take 2),
   beVal ((d.drop (p + 4 + 2 + 6 + 2)).take 4), beVal ((d.drop (p + 4 + 2 + 6 + 2 + 4)).take 4),
   beVal ((d.drop (p + 4 + 2 + 6 + 2 + 4 + 4)).take 2), beVal ((d.drop (p + 4 + 2 + 6 + 2 + 4 + 4 + 2)).take 2)⟩

theorem readN_eq {n : Nat} {d : B} {p : Nat} (h : p + n ≤ d.length) :
    readN n d p = .ok ((d.drop p).take n, p + n) := by
  unfold readN; rw [if_pos h]

theorem readU_eq {w : Nat} {d : B} {p : Nat} (h : p + w ≤ d.length) :
    readU w d p = .ok (beVal ((d.drop p).take w), p + w) := by
  unfold readU; rw [readN_eq h]

/-- with 26 bytes available the header reader is: extract the fields, run the validators -/
theorem header_dec_eq {d : B} {p : Nat} (h : p + 26 ≤ d.length) :
    Header.dec d p = if (headerRaw d p).Valid then .ok (headerRaw d p, p + 26) else .error .valueError := by
  unfold Header.dec
  rw [readN_eq (n := 4) (p := p) (by omega)]
  simp only [bind, Except.bind]
  rw [readU_eq (w := 2) (p := p + 4) (by omega)]
  simp only
  rw [readN_eq (n := 6) (p := p + 4 + 2) (by omega)]
  simp only
  rw [readU_eq (w := 2) (p := p + 4 + 2 + 6) (by omega)]
  simp only
  rw [readU_eq (w := 4) (p := p + 4 + 2 + 6 + 2) (by omega)]
  simp only
  rw [readU_eq (w := 4) (p := p + 4 + 2 + 6 + 2 + 4) (by omega)]
  simp only
  rw [readU_eq (w := 2) (p := p + 4 + 2 + 6 + 2 + 4 + 4) (by omega)]
  simp only
  rw [readU_eq (w := 2) (p := p + 4 + 2 + 6 + 2 + 4 + 4 + 2) (by omega)]
  have e : p + 4 + 2 + 6 + 2 + 4 + 4 + 2 + 2 = p + 26 := by omega
  rw [e]
  rfl

/-- `Good`-like invariant of the header reader that tells `IOError` (short input) from `ValueError` -/
def HdrSpec {α : Type} (k : Nat) (d : B) (p : Nat) (r : Except Err (α × Nat)) : Prop :=
  match r with
  | .ok (_, p') => p + k ≤ p' ∧ p' ≤ d.length
  | .error e => e = .ioError ∨ (e = .valueError ∧ p + k ≤ d.length)

theorem HdrSpec.bind {α β : Type} {k k₁ : Nat} {d : B} {p : Nat} {m : Except Err (β × Nat)}
    {f : β × Nat → Except Err (α × Nat)}
    (hm : ∀ e, m = .error e → e = .ioError)
    (hm' : ∀ v p₁, m = .ok (v, p₁) → p + k₁ ≤ p₁ ∧ p₁ ≤ d.length)
    (hf : ∀ v p₁, m = .ok (v, p₁) → HdrSpec (k - k₁) d p₁ (f (v, p₁))) (hk : k₁ ≤ k := by decide) :
    HdrSpec k d p (m >>= f) := by
  cases m with
  | error e => exact Or.inl (hm e rfl)
  | ok x =>
    obtain ⟨v, p₁⟩ := x
    have h1 := hm' v p₁ rfl
    have h2 := hf v p₁ rfl
    show HdrSpec k d p (f (v, p₁))
    cases hr : f (v, p₁) with
    | error e =>
      rw [hr] at h2
      rcases h2 with h2 | ⟨h2, h3⟩
      · exact Or.inl h2
      · exact Or.inr ⟨h2, by omega⟩
    | ok y =>
      obtain ⟨w, p₂⟩ := y
      rw [hr] at h2
      have h3 : p₁ + (k - k₁) ≤ p₂ ∧ p₂ ≤ d.length := h2
      exact ⟨by omega, h3.2⟩

theorem readN_io {n : Nat} {d : B} {p : Nat} {e : Err} (h : readN n d p = .error e) : e = .ioError := by
  unfold readN at h
  split at h
  · cases h
  · cases h; rfl

theorem readU_io {w : Nat} {d : B} {p : Nat} {e : Err} (h : readU w d p = .error e) : e = .ioError := by
  unfold readU at h
  split at h
  · cases h
  · rename_i e' he
    cases h; exact readN_io he

theorem readN_adv {n : Nat} {d : B} {p : Nat} (v : B) (p' : Nat) (h : readN n d p = .ok (v, p')) :
    p + n ≤ p' ∧ p' ≤ d.length := by
  have := readN_ok h; omega

theorem readU_adv {w : Nat} {d : B} {p : Nat} (v : Nat) (p' : Nat) (h : readU w d p = .ok (v, p')) :
    p + w ≤ p' ∧ p' ≤ d.length := by
  have := readU_ok h; omega

theorem header_spec (d : B) (p : Nat) : HdrSpec 26 d p (Header.dec d p) := by
  unfold Header.dec
  refine HdrSpec.bind (k₁ := 4) (fun _ => readN_io) readN_adv fun sig p _ => ?_
  refine HdrSpec.bind (k₁ := 2) (fun _ => readU_io) readU_adv fun version p _ => ?_
  refine HdrSpec.bind (k₁ := 6) (fun _ => readN_io) readN_adv fun _ p _ => ?_
  refine HdrSpec.bind (k₁ := 2) (fun _ => readU_io) readU_adv fun channels p _ => ?_
  refine HdrSpec.bind (k₁ := 4) (fun _ => readU_io) readU_adv fun height p _ => ?_
  refine HdrSpec.bind (k₁ := 4) (fun _ => readU_io) readU_adv fun width p _ => ?_
  refine HdrSpec.bind (k₁ := 2) (fun _ => readU_io) readU_adv fun depth p hd => ?_
  refine HdrSpec.bind (k₁ := 2) (fun _ => readU_io) readU_adv fun cm p' hc => ?_
  have a := readU_adv _ _ hc
  simp only
  split
  · exact ⟨by omega, a.2⟩
  · exact Or.inr ⟨rfl, by omega⟩

theorem header_short' {d : B} {p : Nat} (h : d.length < p + 26) : Header.dec d p = .error .ioError := by
  have s := header_spec d p
  cases hr : Header.dec d p with
  | ok x =>
    obtain ⟨v, p'⟩ := x
    rw [hr] at s
    have : p + 26 ≤ p' ∧ p' ≤ d.length := s
    omega
  | error e =>
    rw [hr] at s
    rcases s with s | ⟨_, s⟩
    · rw [s]
    · omega

theorem header_valid_of_ok {d : B} {p : Nat} {h : Header} {p' : Nat} (hd : Header.dec d p = .ok (h, p')) :
    h.Valid ∧ p' = p + 26 ∧ p + 26 ≤ d.length ∧ h = headerRaw d p := by
  by_cases hl : p + 26 ≤ d.length
  · rw [header_dec_eq hl] at hd
    split at hd
    · cases hd
      exact ⟨‹_›, rfl, hl, rfl⟩
    · cases hd
  · rw [header_short' (by omega)] at hd
    cases hd

theorem header_accepts' {h : Header} (hv : h.Valid) (rest : B) : Header.dec (h.encT ++ rest) 0 = .ok (h, 26) := by
  have hat : At (h.encT ++ rest) 0 h.encT := ⟨[], rest, by simp, rfl⟩
  have := Header.dec_at hv hat
  rw [Header.length_encT] at this
  exact this

theorem psd_of_header_error {b : B} {p : Nat} {e : Err} (h : Header.dec b p = .error e) : PSD.read b p = .error e := by
  unfold PSD.read
  exact bind_error_left h

end PsdVerif.Safe
