/-
Helper lemmas for C15 part 2 (the clipping relation as state): the pass on objects that carry
attributes, started from reset attributes, writes what `computeClip` computes; a recomputation with
a complete clear makes the state current whatever was stored before. Core Lean only.
-/
import PsdVerif.Model.ClipState
import PsdVerif.Lemmas.Clip

namespace PsdVerif.ClipState
open PsdVerif PsdVerif.Clip

/-! ### The loop of `Model/Clip.lean` by explicit positions -/

def loopC (m : CompatMode) (cs : List ChildFlags) : Nat → ClipSt → ClipSt
  | 0, p => p
  | i + 1, p =>
    match cs[i]? with
    | some c => loopC m cs i (stepClip m p i c)
    | none => loopC m cs i p

theorem loop_take (m : CompatMode) (cs : List ChildFlags) :
    ∀ n, n ≤ cs.length → ∀ p, loop m (cs.take n).reverse p = loopC m cs n p := by
  intro n
  induction n with
  | zero => intro _ p; simp [loop, loopC]
  | succ n ih =>
    intro hn p
    have hlt : n < cs.length := by omega
    have hc : cs[n]? = some cs[n] := List.getElem?_eq_getElem hlt
    rw [take_succ_reverse cs n _ hc]
    simp only [loop, loopC, hc]
    have : (cs.take n).reverse.length = n := by simp; omega
    rw [this]
    exact ih (by omega) _

theorem computeClip_loopC (m : CompatMode) (cs : List ChildFlags) :
    computeClip m cs =
      (List.range cs.length).map fun i =>
        ⟨(loopC m cs cs.length ClipSt.init).noTarget.clip i, (loopC m cs cs.length ClipSt.init).noTarget.tgt i⟩ := by
  have := loop_take m cs cs.length (Nat.le_refl _) ClipSt.init
  rw [List.take_length] at this
  simp only [computeClip, this]

/-! ### Attributes written from a positional state -/

/-- the children `ks` with the attributes a positional state `p` of the pass stands for -/
def paint (p : ClipSt) (ks : List T) : List T :=
  ks.mapIdx fun j k => k.withAttr ({ · with clip := idsAt ks (p.clip j), tgt := p.tgt j })

@[simp] theorem withAttr_id (k : T) (f : Attr → Attr) (h : ∀ a, (f a).id = a.id) : (k.withAttr f).id = k.id := by
  cases k <;> simp [T.withAttr, T.id, T.attr, h]

@[simp] theorem withAttr_attr (k : T) (f : Attr → Attr) : (k.withAttr f).attr = f k.attr := by
  cases k <;> rfl

@[simp] theorem withAttr_isGroup (k : T) (f : Attr → Attr) : (k.withAttr f).isGroup = k.isGroup := by
  cases k <;> rfl

theorem withAttr_withAttr (k : T) (f g : Attr → Attr) : (k.withAttr f).withAttr g = k.withAttr (g ∘ f) := by
  cases k <;> rfl

theorem withAttr_congr (k : T) (f g : Attr → Attr) (h : f k.attr = g k.attr) : k.withAttr f = k.withAttr g := by
  cases k <;> simp_all [T.withAttr, T.attr]

theorem withAttr_self (k : T) (f : Attr → Attr) (h : f k.attr = k.attr) : k.withAttr f = k := by
  cases k <;> simp_all [T.withAttr, T.attr]

theorem getElem?_paint (p : ClipSt) (ks : List T) (j : Nat) :
    (paint p ks)[j]? = (ks[j]?).map fun k => k.withAttr ({ · with clip := idsAt ks (p.clip j), tgt := p.tgt j }) := by
  simp [paint, List.getElem?_mapIdx]

@[simp] theorem paint_length (p : ClipSt) (ks : List T) : (paint p ks).length = ks.length := by simp [paint]

theorem idsAt_congr (ks ks' : List T) (h : ∀ j : Nat, (ks'[j]?).map T.id = (ks[j]?).map T.id) (js : List Nat) :
    idsAt ks' js = idsAt ks js := by
  simp only [idsAt]
  induction js with
  | nil => rfl
  | cons j js ih => simp only [List.filterMap_cons, h j, ih]

theorem idsAt_paint (p : ClipSt) (ks : List T) (js : List Nat) : idsAt (paint p ks) js = idsAt ks js := by
  apply idsAt_congr
  intro j
  rw [getElem?_paint]
  cases ks[j]? <;> simp [T.id]

/-- one iteration of the loop on painted children is the positional step, painted -/
theorem stepL_paint (m : CompatMode) (p : ClipSt) (ks : List T) (i : Nat) (k : T) (hk : ks[i]? = some k) :
    stepL m ⟨p.stack, paint p ks⟩ i =
      ⟨(stepClip m p i k.flags).stack, paint (stepClip m p i k.flags) ks⟩ := by
  have hi : i < ks.length := by
    rcases Nat.lt_or_ge i ks.length with h | h
    · exact h
    · simp [List.getElem?_eq_none h] at hk
  simp only [stepL, getElem?_paint, hk, Option.map_some, withAttr_attr, stepClip, T.flags]
  by_cases hcl : k.attr.clipping = true
  · simp only [hcl, if_true]
    rfl
  · simp only [hcl, if_false, Bool.false_eq_true]
    by_cases hpt : (k.attr.passThrough && m.restrictive) = true
    · simp only [hpt, if_true, LSt.noTarget, ClipSt.noTarget]
      congr 1
      apply List.ext_getElem?
      intro j
      simp only [List.getElem?_mapIdx, getElem?_paint]
      cases hj : ks[j]? with
      | none => simp
      | some kj =>
        simp only [Option.map_some]
        by_cases hm : j ∈ p.stack
        · simp only [hm, if_true, withAttr_withAttr]
          congr 1
        · simp only [hm, if_false]
    · simp only [hpt, if_false, Bool.false_eq_true]
      congr 1
      apply List.ext_getElem?
      intro j
      rw [List.getElem?_set, getElem?_paint, getElem?_paint]
      by_cases hji : i = j
      · subst hji
        simp only [paint_length, hi, if_true, hk, Option.map_some, withAttr_withAttr, idsAt_paint]
        congr 1
      · simp only [hji, if_false]
        cases hj : ks[j]? with
        | none => simp
        | some kj =>
          simp only [Option.map_some]
          have : (if j = i then p.stack.reverse else p.clip j) = p.clip j := by
            rw [if_neg (fun h => hji h.symm)]
          simp only [this]

theorem loopL_paint (m : CompatMode) (ks : List T) :
    ∀ n, n ≤ ks.length → ∀ p,
      loopL m n ⟨p.stack, paint p ks⟩ =
        ⟨(loopC m (ks.map T.flags) n p).stack, paint (loopC m (ks.map T.flags) n p) ks⟩ := by
  intro n
  induction n with
  | zero => intro _ p; rfl
  | succ n ih =>
    intro hn p
    have hlt : n < ks.length := by omega
    have hk : ks[n]? = some ks[n] := List.getElem?_eq_getElem hlt
    simp only [loopL, loopC, List.getElem?_map, hk, Option.map_some]
    rw [stepL_paint m p ks n _ hk]
    exact ih (by omega) _

theorem noTarget_paint (p : ClipSt) (ks : List T) :
    (LSt.noTarget ⟨p.stack, paint p ks⟩).kids = paint p.noTarget ks := by
  simp only [LSt.noTarget, ClipSt.noTarget]
  apply List.ext_getElem?
  intro j
  simp only [List.getElem?_mapIdx, getElem?_paint]
  cases hj : ks[j]? with
  | none => simp
  | some kj =>
    simp only [Option.map_some]
    by_cases hm : j ∈ p.stack
    · simp only [hm, if_true, withAttr_withAttr]
      congr 1
    · simp only [hm, if_false]

/-- own attributes are those of a fresh / cleared object -/
def Reset1 (ks : List T) : Prop := ∀ k ∈ ks, k.attr.clip = [] ∧ k.attr.tgt = true

theorem paint_init (ks : List T) (h : Reset1 ks) : paint ClipSt.init ks = ks := by
  apply List.ext_getElem?
  intro j
  rw [getElem?_paint]
  cases hj : ks[j]? with
  | none => rfl
  | some k =>
    have hm : k ∈ ks := List.mem_of_getElem? hj
    obtain ⟨h1, h2⟩ := h k hm
    simp only [Option.map_some, ClipSt.init, idsAt, List.filterMap_nil]
    congr 1
    apply withAttr_self
    cases hk : k.attr
    simp_all

/-- the final positional state of the pass on the flags of `ks` -/
def finalP (m : CompatMode) (ks : List T) : ClipSt :=
  (loopC m (ks.map T.flags) ks.length ClipSt.init).noTarget

theorem scanLevel_reset (m : CompatMode) (ks : List T) (h : Reset1 ks) : scanLevel m ks = paint (finalP m ks) ks := by
  have := loopL_paint m ks ks.length (Nat.le_refl _) ClipSt.init
  simp only [paint_init ks h] at this
  simp only [scanLevel, finalP]
  rw [show (ClipSt.init).stack = [] from rfl] at this
  rw [this, noTarget_paint]

/-! ### The pass from reset attributes stores the specification -/

/-- `Props/C15.computeClip_eq_spec`, needed here already (same proof) -/
theorem computeClip_eq_clip (m : CompatMode) (cs : List ChildFlags) : computeClip m cs = Spec.clip m cs := by
  have inv := inv_loop m cs cs.length (Nat.le_refl _) _ (inv_init m cs)
  rw [List.take_length] at inv
  apply List.ext_getElem?
  intro i
  rcases Nat.lt_or_ge i cs.length with hi | hi
  · have hc : cs[i]? = some cs[i] := List.getElem?_eq_getElem hi
    obtain ⟨e1, e2⟩ := final_spec m cs _ inv i cs[i] hc
    have hr : (Spec.clip m cs)[i]? = some (Spec.infoAt m cs cs[i] i) := (getElem?_clip m cs i _).mpr ⟨cs[i], hc, rfl⟩
    rw [hr]
    simp only [computeClip, List.getElem?_map, List.getElem?_range hi, Option.map_some, e1, e2]
  · rw [List.getElem?_eq_none (by simp [computeClip]; exact hi),
        List.getElem?_eq_none (by simp [Spec.clip]; exact hi)]

theorem getElem?_zip_map {α β γ : Type} (as : List α) (bs : List β) (f : α × β → γ) (j : Nat) :
    ((as.zip bs).map f)[j]? =
      match as[j]?, bs[j]? with
      | some a, some b => some (f (a, b))
      | _, _ => none := by
  rw [List.getElem?_map, List.zip_eq_zipWith, List.getElem?_zipWith]
  cases as[j]? <;> cases bs[j]? <;> rfl

theorem storedLevel_paint_final (m : CompatMode) (ks : List T) :
    storedLevel (paint (finalP m ks) ks) = specLevel m ks := by
  apply List.ext_getElem?
  intro j
  simp only [storedLevel, specLevel]
  rw [getElem?_zip_map]
  simp only [List.getElem?_map, getElem?_paint]
  rcases Nat.lt_or_ge j ks.length with hj | hj
  · have hk : ks[j]? = some ks[j] := List.getElem?_eq_getElem hj
    have hc : (Spec.clip m (ks.map T.flags))[j]? =
        some ⟨(finalP m ks).clip j, (finalP m ks).tgt j⟩ := by
      rw [← computeClip_eq_clip, computeClip_loopC]
      simp only [List.length_map, List.getElem?_map, List.getElem?_range hj, Option.map_some, finalP]
    simp only [hk, hc, Option.map_some]
    congr 1
    simp [T.id]
  · simp [List.getElem?_eq_none hj]

/-! ### What the specification and the stored relation depend on -/

def T.kids : T → List T
  | .layer _ => []
  | .group _ ks => ks

/-- identity and flags of a child: all that its own level of the specification reads -/
def T.hd (k : T) : Nat × ChildFlags := (k.id, k.flags)

theorem specNode_eq (m : CompatMode) (k : T) : specNode m k = spec m k.kids := by
  cases k <;> simp [specNode, spec, T.kids, specLevel, specKids, Spec.clip]

theorem storedNode_eq (k : T) : storedNode k = stored k.kids := by
  cases k <;> simp [storedNode, stored, T.kids, storedLevel, storedKids]

theorem specKids_congr (m : CompatMode) : ∀ (ks ks' : List T), ks.map T.kids = ks'.map T.kids → specKids m ks = specKids m ks'
  | [], [], _ => rfl
  | [], _ :: _, h => by simp at h
  | _ :: _, [], h => by simp at h
  | k :: ks, k' :: ks', h => by
    simp only [List.map_cons, List.cons.injEq] at h
    simp only [specKids, specNode_eq, h.1, specKids_congr m ks ks' h.2]

theorem storedKids_congr : ∀ (ks ks' : List T), ks.map T.kids = ks'.map T.kids → storedKids ks = storedKids ks'
  | [], [], _ => rfl
  | [], _ :: _, h => by simp at h
  | _ :: _, [], h => by simp at h
  | k :: ks, k' :: ks', h => by
    simp only [List.map_cons, List.cons.injEq] at h
    simp only [storedKids, storedNode_eq, h.1, storedKids_congr ks ks' h.2]

/-- the level specification from identities and flags alone -/
def specLevelH (m : CompatMode) (hs : List (Nat × ChildFlags)) : List Entry :=
  (hs.zip (Spec.clip m (hs.map (·.2)))).map fun (h, ci) =>
    ⟨h.1, ci.clipLayers.filterMap (fun j => (hs[j]?).map (·.1)), ci.hasTarget⟩

theorem specLevel_eq_H (m : CompatMode) (ks : List T) : specLevel m ks = specLevelH m (ks.map T.hd) := by
  simp only [specLevel, specLevelH, List.map_map, List.zip_map_left, idsAt, List.getElem?_map, Option.map_map]
  rfl

theorem specLevel_congr (m : CompatMode) (ks ks' : List T) (h : ks.map T.hd = ks'.map T.hd) :
    specLevel m ks = specLevel m ks' := by
  rw [specLevel_eq_H, specLevel_eq_H, h]

theorem map_mapIdx_withAttr {β : Type} (g : T → β) (F : Nat → Attr → Attr) (ks : List T)
    (h : ∀ j k, g (k.withAttr (F j)) = g k) : (ks.mapIdx fun j k => k.withAttr (F j)).map g = ks.map g := by
  apply List.ext_getElem?
  intro j
  simp only [List.getElem?_map, List.getElem?_mapIdx]
  cases ks[j]? <;> simp [h]

theorem hd_withAttr (k : T) (f : Attr → Attr)
    (h : ∀ a, (f a).id = a.id ∧ (f a).clipping = a.clipping ∧ (f a).passThrough = a.passThrough) :
    (k.withAttr f).hd = k.hd := by
  cases k <;> simp [T.withAttr, T.hd, T.id, T.flags, T.attr, T.isGroup, h]

theorem kids_withAttr (k : T) (f : Attr → Attr) : (k.withAttr f).kids = k.kids := by
  cases k <;> rfl

theorem paint_hd (p : ClipSt) (ks : List T) : (paint p ks).map T.hd = ks.map T.hd := by
  apply map_mapIdx_withAttr
  intro j k
  apply hd_withAttr
  intro a; simp

theorem paint_kids (p : ClipSt) (ks : List T) : (paint p ks).map T.kids = ks.map T.kids := by
  apply map_mapIdx_withAttr
  intro j k
  apply kids_withAttr

/-! ### The whole tree -/

mutual
/-- every object of the subtree carries the attributes of a fresh / cleared object -/
def ResetNode : T → Prop
  | .layer a => a.clip = [] ∧ a.tgt = true
  | .group a ks => (a.clip = [] ∧ a.tgt = true) ∧ ResetKids ks
def ResetKids : List T → Prop
  | [] => True
  | k :: ks => ResetNode k ∧ ResetKids ks
end

theorem resetNode_own (k : T) (h : ResetNode k) : k.attr.clip = [] ∧ k.attr.tgt = true := by
  cases k with
  | layer a => simpa [ResetNode, T.attr] using h
  | group a ks => simp only [ResetNode] at h; exact h.1

theorem resetKids_reset1 : ∀ (ks : List T), ResetKids ks → Reset1 ks
  | [], _ => by intro k hk; simp at hk
  | k :: ks, h => by
    simp only [ResetKids] at h
    intro x hx
    rcases List.mem_cons.mp hx with rfl | hx
    · exact resetNode_own _ h.1
    · exact resetKids_reset1 ks h.2 x hx

mutual
theorem clearNode_all_reset : ∀ (k : T), ResetNode (clearNode .all k)
  | .layer a => by simp [clearNode, ClearIter.visits, ResetNode, Attr.reset]
  | .group a ks => by
    simp only [clearNode, ClearIter.visits, if_true, ResetNode, Attr.reset, true_and]
    exact clearKids_all_reset ks
theorem clearKids_all_reset : ∀ (ks : List T), ResetKids (clearKids .all ks)
  | [] => by simp [clearKids, ResetKids]
  | k :: ks => by
    simp only [clearKids, ResetKids]
    exact ⟨clearNode_all_reset k, clearKids_all_reset ks⟩
end

theorem spec_split (m : CompatMode) (ks : List T) : spec m ks = specLevel m ks ++ specKids m ks := rfl

mutual
/-- clearing (over any iteration) changes no input of the specification -/
theorem clearNode_spec (it : ClearIter) (m : CompatMode) : ∀ (k : T),
    specNode m (clearNode it k) = specNode m k ∧ (clearNode it k).hd = k.hd
  | .layer a => by
    simp only [clearNode]
    split <;> simp [specNode, T.hd, T.id, T.flags, T.attr, T.isGroup, Attr.reset]
  | .group a ks => by
    simp only [clearNode]
    split
    · obtain ⟨h1, h2⟩ := clearKids_spec it m ks
      refine ⟨?_, by simp [T.hd, T.id, T.flags, T.attr, T.isGroup, Attr.reset]⟩
      simp only [specNode, h1, specLevel_congr m _ _ h2]
    · exact ⟨rfl, rfl⟩
theorem clearKids_spec (it : ClearIter) (m : CompatMode) : ∀ (ks : List T),
    specKids m (clearKids it ks) = specKids m ks ∧ (clearKids it ks).map T.hd = ks.map T.hd
  | [] => by simp [clearKids]
  | k :: ks => by
    obtain ⟨h1, h2⟩ := clearNode_spec it m k
    obtain ⟨h3, h4⟩ := clearKids_spec it m ks
    simp only [clearKids, specKids, h1, h3, List.map_cons, h2, h4, and_self]
end

theorem clear_spec (it : ClearIter) (m : CompatMode) (ks : List T) : spec m (clearKids it ks) = spec m ks := by
  obtain ⟨h1, h2⟩ := clearKids_spec it m ks
  simp only [spec_split, h1, specLevel_congr m _ _ h2]

/-- the level pass after the recursion, on a children list whose own attributes are reset -/
theorem scan_level (m : CompatMode) (ks ks' : List T) (hr : Reset1 ks')
    (hs : storedKids ks' = specKids m ks) (hp : specKids m ks' = specKids m ks) (hh : ks'.map T.hd = ks.map T.hd) :
    stored (scanLevel m ks') = spec m ks ∧ spec m (scanLevel m ks') = spec m ks := by
  rw [scanLevel_reset m ks' hr]
  constructor
  · simp only [stored, storedLevel_paint_final, storedKids_congr _ _ (paint_kids _ ks'), hs, spec_split,
      specLevel_congr m _ _ hh]
  · simp only [spec_split, specLevel_congr m _ _ (paint_hd _ ks'), specKids_congr m _ _ (paint_kids _ ks'), hp,
      specLevel_congr m _ _ hh]

mutual
theorem scanNode_reset (m : CompatMode) : ∀ (k : T), ResetNode k →
    storedNode (scanNode m k) = specNode m k ∧ specNode m (scanNode m k) = specNode m k ∧
      (scanNode m k).hd = k.hd ∧ (scanNode m k).attr = k.attr
  | .layer a, _ => by simp [scanNode, storedNode, specNode]
  | .group a ks, h => by
    simp only [ResetNode] at h
    obtain ⟨h1, h2, h3, h4⟩ := scanKids_reset m ks h.2
    obtain ⟨e1, e2⟩ := scan_level m ks _ h4 h1 h2 h3
    refine ⟨?_, ?_, rfl, rfl⟩
    · simpa [scanNode, storedNode, stored, specNode, spec] using e1
    · simpa [scanNode, specNode, spec] using e2
theorem scanKids_reset (m : CompatMode) : ∀ (ks : List T), ResetKids ks →
    storedKids (scanKids m ks) = specKids m ks ∧ specKids m (scanKids m ks) = specKids m ks ∧
      (scanKids m ks).map T.hd = ks.map T.hd ∧ Reset1 (scanKids m ks)
  | [], _ => by simp [scanKids, storedKids, specKids, Reset1]
  | k :: ks, h => by
    simp only [ResetKids] at h
    obtain ⟨a1, a2, a3, a4⟩ := scanNode_reset m k h.1
    obtain ⟨b1, b2, b3, b4⟩ := scanKids_reset m ks h.2
    refine ⟨by simp only [scanKids, storedKids, specKids, a1, b1], by simp only [scanKids, specKids, a2, b2],
      by simp only [scanKids, List.map_cons, a3, b3], ?_⟩
    intro x hx
    simp only [scanKids] at hx
    rcases List.mem_cons.mp hx with rfl | hx
    · rw [a4]; exact resetNode_own _ h.1
    · exact b4 x hx
end

/-- `_compute_clipping_layers` with a clear that visits every layer: whatever the objects carried
    before, afterwards they carry the specification of the tree as it is. -/
theorem recomputeTree_all (m : CompatMode) (ks : List T) :
    stored (recomputeTree .all m ks) = spec m ks ∧ spec m (recomputeTree .all m ks) = spec m ks := by
  obtain ⟨h1, h2, h3, h4⟩ := scanKids_reset m _ (clearKids_all_reset ks)
  have := scan_level m (clearKids .all ks) _ h4 h1 h2 h3
  simpa only [recomputeTree, scan, clear_spec] using this

/-! ### The machine -/

theorem recompute_current (s : St) : Current (s.recompute .all) := by
  obtain ⟨h1, h2⟩ := recomputeTree_all s.mode s.tree
  simp only [Current, St.recompute, h1, h2]

/-- recomputing a current state changes nothing that is observed -/
theorem recompute_keeps (s : St) : stored (s.recompute .all).tree = spec s.mode s.tree :=
  (recomputeTree_all s.mode s.tree).1

theorem all_of_subset (gs gs' : List String) (c : String → Bool)
    (hsub : gs'.all (· ∈ gs) = true) (h : gs.all c = true) : gs'.all c = true := by
  rw [List.all_eq_true] at *
  intro x hx
  exact h x (by simpa using hsub x hx)

/-- inside a segment: either the state is current, or a mutation of the document has happened whose
    covering recomputation is still ahead -/
def Pending (si : SegInst) (s : St) (effs : List Eff) : Prop :=
  Current s ∨ ∃ o gs, si.inDoc o = true ∧ gs.all si.cond = true ∧ effs.any (covers o gs) = true

theorem runEffs_current (si : SegInst) (hw : si.wf) :
    ∀ (effs : List Eff) (i : Nat) (s : St), covered effs = true → Pending si s effs →
      Current (runEffs .all si i effs s)
  | [], _, s, _, hp => by
    rcases hp with h | ⟨o, gs, _, _, h⟩
    · exact h
    · simp at h
  | .mutate o w gs :: rest, i, s, hc, hp => by
    simp only [covered, Bool.and_eq_true] at hc
    simp only [runEffs, runEff]
    apply runEffs_current si hw rest (i + 1) _ hc.2
    by_cases hf : (gs.all si.cond && si.inDoc o) = true
    · simp only [hf, if_true]
      simp only [Bool.and_eq_true] at hf
      exact Or.inr ⟨o, gs, hf.2, hf.1, hc.1⟩
    · simp only [hf, if_false, Bool.false_eq_true]
      rcases hp with h | ⟨o', gs', h1, h2, h3⟩
      · exact Or.inl h
      · exact Or.inr ⟨o', gs', h1, h2, by simpa [covers] using h3⟩
  | .recomp o gs :: rest, i, s, hc, hp => by
    simp only [covered] at hc
    simp only [runEffs, runEff]
    apply runEffs_current si hw rest (i + 1) _ hc
    by_cases hf : (gs.all si.cond && si.psdHere o) = true
    · simp only [hf, if_true]
      exact Or.inl (recompute_current s)
    · simp only [hf, if_false, Bool.false_eq_true]
      rcases hp with h | ⟨o', gs', h1, h2, h3⟩
      · exact Or.inl h
      · simp only [List.any_cons, Bool.or_eq_true] at h3
        rcases h3 with h3 | h3
        · exfalso
          simp only [covers, Bool.and_eq_true, beq_iff_eq] at h3
          obtain ⟨rfl, hsub⟩ := h3
          apply hf
          simp only [Bool.and_eq_true]
          exact ⟨all_of_subset gs' gs si.cond hsub h2, hw _ h1⟩
        · exact Or.inr ⟨o', gs', h1, h2, h3⟩
  | .store _ _ _ :: _, _, _, hc, _ => by simp [covered] at hc
  | .other _ :: _, _, _, hc, _ => by simp [covered] at hc

theorem seg_covered (t : Table) (ht : t.rows.all rowOk = true) (op : String) (k : Nat) : covered (t.seg op k) = true := by
  simp only [Table.seg]
  cases hf : t.rows.find? (fun r => r.name == op) with
  | none => rfl
  | some r =>
    have hr : r ∈ t.rows := List.mem_of_find?_eq_some hf
    have hok : rowOk r = true := List.all_eq_true.mp ht r hr
    simp only [List.getD_eq_getElem?_getD]
    cases hk : r.segs[k]? with
    | none => rfl
    | some seg =>
      exact List.all_eq_true.mp hok seg (List.mem_of_getElem? hk)

theorem tableOk_parts (t : Table) (h : tableOk t = true) :
    t.clearIter = .all ∧ initOk t.init = true ∧ t.rows.all rowOk = true := by
  simp only [tableOk, Bool.and_eq_true, beq_iff_eq] at h
  exact ⟨h.1.1, h.1.2, h.2⟩

theorem runSeg_current (t : Table) (ht : tableOk t = true) (s : St) (hs : Current s) (si : SegInst) (hw : si.wf) :
    Current (runSeg t s si) := by
  obtain ⟨h1, _, h3⟩ := tableOk_parts t ht
  simp only [runSeg, h1]
  exact runEffs_current si hw _ 0 s (seg_covered t h3 _ _) (Or.inl hs)

theorem runHist_current (t : Table) (ht : tableOk t = true) :
    ∀ (h : List SegInst) (s : St), Current s → (∀ si ∈ h, si.wf) → Current (runHist t s h)
  | [], s, hs, _ => hs
  | si :: h, s, hs, hw => by
    simp only [runHist]
    exact runHist_current t ht h _ (runSeg_current t ht s hs si (hw si (by simp))) (fun x hx => hw x (by simp [hx]))

theorem openSt_current (t : Table) (ht : tableOk t = true) (inp : St) : Current (openSt t inp) := by
  obtain ⟨h1, h2, _⟩ := tableOk_parts t ht
  simp only [openSt, h2, if_true, h1]
  exact recompute_current inp

/-! ### Necessity of the coverage -/

theorem runEffs_append (it : ClearIter) (si : SegInst) :
    ∀ (pre post : List Eff) (i : Nat) (s : St),
      runEffs it si i (pre ++ post) s = runEffs it si (i + pre.length) post (runEffs it si i pre s)
  | [], post, i, s => by simp [runEffs]
  | e :: pre, post, i, s => by
    simp only [List.cons_append, runEffs, List.length_cons]
    rw [runEffs_append it si pre post (i + 1)]
    congr 1
    omega

/-- the instance that exposes an uncovered mutation at position `n`: only the container `o` belongs to
    the document, exactly the tests of the mutation hold, the mutation installs `bad` -/
def exposing (op : String) (seg n : Nat) (o : String) (gs : List String) (bad : St) : SegInst :=
  { op := op, seg := seg, inDoc := fun o' => o' == o, psdHere := fun o' => o' == o,
    cond := fun g => decide (g ∈ gs), change := fun j s => if j = n then bad else s }

theorem exposing_wf (op : String) (seg n : Nat) (o : String) (gs : List String) (bad : St) :
    (exposing op seg n o gs bad).wf := fun _ h => h

theorem runEffs_after (it : ClearIter) (op : String) (seg n : Nat) (o : String) (gs : List String) (bad : St) :
    ∀ (post : List Eff) (i : Nat), n < i → post.any (covers o gs) = false →
      runEffs it (exposing op seg n o gs bad) i post bad = bad
  | [], _, _, _ => rfl
  | e :: post, i, hi, h => by
    simp only [List.any_cons, Bool.or_eq_false_iff] at h
    have hne : ¬ i = n := by omega
    have step : runEff it (exposing op seg n o gs bad) bad i e = bad := by
      cases e with
      | mutate o' w gs' => simp only [runEff, exposing, hne, if_false]; split <;> rfl
      | recomp o' gs' =>
        have := h.1
        simp only [covers] at this
        simp only [runEff, exposing]
        rw [Bool.and_comm] at this
        simp only [this, if_false, Bool.false_eq_true]
      | store o' w gs' => simp only [runEff, exposing, hne, if_false]; split <;> rfl
      | other src => simp only [runEff, exposing, hne, if_false]
    simp only [runEffs, step]
    exact runEffs_after it op seg n o gs bad post (i + 1) (by omega) h.2

/-- a raw mutation that no later recomputation of its segment covers can leave ANY state behind -/
theorem uncovered_reaches (it : ClearIter) (op : String) (seg : Nat) (pre post : List Eff) (o w : String)
    (gs : List String) (h : post.any (covers o gs) = false) (s0 bad : St) :
    runEffs it (exposing op seg pre.length o gs bad) 0 (pre ++ .mutate o w gs :: post) s0 = bad := by
  rw [runEffs_append]
  simp only [Nat.zero_add, runEffs, runEff, exposing, if_true, beq_self_eq_true, Bool.and_true]
  have : gs.all (fun g => decide (g ∈ gs)) = true := by
    rw [List.all_eq_true]; intro x hx; simpa using hx
  simp only [this, if_true]
  exact runEffs_after it op seg pre.length o gs bad post (pre.length + 1) (by omega) h

/-! ### From the flattened relation back to each children list -/

theorem storedLevel_length (ks : List T) : (storedLevel ks).length = ks.length := by simp [storedLevel]

theorem specLevel_length (m : CompatMode) (ks : List T) : (specLevel m ks).length = ks.length := by
  simp [specLevel, Spec.clip]

mutual
theorem storedNode_length (m : CompatMode) : ∀ (k : T), (storedNode k).length = (specNode m k).length
  | .layer _ => rfl
  | .group _ ks => by
    simp only [storedNode, specNode, List.length_append, storedLevel_length, specLevel_length, storedKids_length m ks]
theorem storedKids_length (m : CompatMode) : ∀ (ks : List T), (storedKids ks).length = (specKids m ks).length
  | [] => rfl
  | k :: ks => by
    simp only [storedKids, specKids, List.length_append, storedNode_length m k, storedKids_length m ks]
end

mutual
theorem levelsNode_current (m : CompatMode) : ∀ (k : T), storedNode k = specNode m k →
    ∀ l ∈ levelsNode k, storedLevel l = specLevel m l
  | .layer _, _ => by intro l hl; simp [levelsNode] at hl
  | .group _ ks, h => by
    simp only [storedNode, specNode] at h
    obtain ⟨h1, h2⟩ := List.append_inj h (by rw [storedLevel_length, specLevel_length])
    intro l hl
    simp only [levelsNode, List.mem_cons] at hl
    rcases hl with rfl | hl
    · exact h1
    · exact levelsKids_current m ks h2 l hl
theorem levelsKids_current (m : CompatMode) : ∀ (ks : List T), storedKids ks = specKids m ks →
    ∀ l ∈ levelsKids ks, storedLevel l = specLevel m l
  | [], _ => by intro l hl; simp [levelsKids] at hl
  | k :: ks, h => by
    simp only [storedKids, specKids] at h
    obtain ⟨h1, h2⟩ := List.append_inj h (storedNode_length m k)
    intro l hl
    simp only [levelsKids, List.mem_append] at hl
    rcases hl with hl | hl
    · exact levelsNode_current m k h1 l hl
    · exact levelsKids_current m ks h2 l hl
end

/-- a current state is current on every children list of the document -/
theorem current_levels (s : St) (h : Current s) : ∀ l ∈ levels s.tree, storedLevel l = specLevel s.mode l := by
  simp only [Current, stored, spec] at h
  obtain ⟨h1, h2⟩ := List.append_inj h (by rw [storedLevel_length, specLevel_length])
  intro l hl
  simp only [levels, List.mem_cons] at hl
  rcases hl with rfl | hl
  · exact h1
  · exact levelsKids_current s.mode s.tree h2 l hl

/-- … and, child by child: the stored attributes are the specification's entry for that position -/
theorem current_child (s : St) (h : Current s) (l : List T) (hl : l ∈ levels s.tree) (i : Nat) (k : T)
    (hk : l[i]? = some k) :
    k.attr.clip = idsAt l (Spec.infoAt s.mode (l.map T.flags) k.flags i).clipLayers ∧
    k.attr.tgt = (Spec.infoAt s.mode (l.map T.flags) k.flags i).hasTarget := by
  have e := current_levels s h l hl
  have e' := congrArg (fun x => x[i]?) e
  simp only [storedLevel, specLevel] at e'
  rw [getElem?_zip_map] at e'
  have hc : (Spec.clip s.mode (l.map T.flags))[i]? = some (Spec.infoAt s.mode (l.map T.flags) k.flags i) :=
    (getElem?_clip _ _ i _).mpr ⟨k.flags, by simp [hk], rfl⟩
  simp only [List.getElem?_map, hk, hc, Option.map_some, Option.some.injEq, Entry.mk.injEq] at e'
  exact ⟨e'.2.1, e'.2.2⟩

end PsdVerif.ClipState
