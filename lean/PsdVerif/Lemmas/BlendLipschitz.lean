/-
C12, hue / saturation: the published `SetLum(·, L)` is Lipschitz in its colour argument
(`specSetLum_lipschitz`), so the `tol δ` error of the first stage (`_set_sat`) stays bounded
through the second stage.  `ClipColor` on colours of luminosity `L` is a radial scaling towards
`(L, L, L)` by the largest factor `ρ ≤ 1` that keeps the colour in `[0,1]³` (`specRho_facts`).
-/
import PsdVerif.Lemmas.BlendNonSep

namespace PsdVerif.Blend
set_option linter.unusedVariables false

/-- one half of `radial_step`: the colour with the smaller scale factor is the primed one -/
theorem radial_step_half {L σ κ ρ ρ' n n' x x' v v' : Rat} (hκ : 0 < κ)
    (hρ : 0 ≤ ρ ∧ ρ ≤ 1) (hle : ρ' ≤ ρ)
    (F2 : ρ * (L - n) ≤ L) (F3 : ρ * (x - L) ≤ 1 - L)
    (F4' : ρ' = 1 ∨ ρ' * (L - n') = L ∨ ρ' * (x' - L) = 1 - L)
    (hn : |n - n'| ≤ σ) (hx : |x - x'| ≤ σ) (hv : |v - v'| ≤ σ)
    (b1' : |v' - L| ≤ κ * (L - n')) (b2' : |v' - L| ≤ κ * (x' - L)) :
    |ρ * (v - L) - ρ' * (v' - L)| ≤ (1 + κ) * σ := by
  obtain ⟨r0, r1⟩ := hρ
  have hσ : 0 ≤ σ := le_trans (abs_nonneg _) hv
  obtain ⟨hn1, hn2⟩ := abs_le.mp hn
  obtain ⟨hx1, hx2⟩ := abs_le.mp hx
  obtain ⟨hv1, hv2⟩ := abs_le.mp hv
  have hw0 := abs_nonneg (v' - L)
  obtain ⟨hw1, hw2⟩ := abs_le.mp (le_refl |v' - L|)
  generalize |v' - L| = w at *
  have hd : 0 ≤ ρ - ρ' := by linarith
  -- (ρ - ρ') * w ≤ κ σ
  have key : (ρ - ρ') * w ≤ κ * σ := by
    rcases F4' with h | h | h
    · have : ρ = 1 := by linarith
      rw [this, h]; simp; positivity
    · have h1 : (ρ - ρ') * w ≤ (ρ - ρ') * (κ * (L - n')) := mul_le_mul_of_nonneg_left b1' hd
      have h2 : (ρ - ρ') * (L - n') ≤ σ := by nlinarith
      nlinarith
    · have h1 : (ρ - ρ') * w ≤ (ρ - ρ') * (κ * (x' - L)) := mul_le_mul_of_nonneg_left b2' hd
      have h2 : (ρ - ρ') * (x' - L) ≤ σ := by nlinarith
      nlinarith
  have e : ρ * (v - L) - ρ' * (v' - L) = ρ * (v - v') + (ρ - ρ') * (v' - L) := by ring
  rw [e, abs_le]
  have a1 : ρ * (v - v') ≤ σ := by nlinarith
  have a2 : -σ ≤ ρ * (v - v') := by nlinarith
  have a3 : (ρ - ρ') * (v' - L) ≤ (ρ - ρ') * w := mul_le_mul_of_nonneg_left hw2 hd
  have a4 : -((ρ - ρ') * w) ≤ (ρ - ρ') * (v' - L) := by nlinarith
  constructor <;> nlinarith

/-- Two colours of the same luminosity `L`, componentwise `σ`-close, scaled towards `L` by factors
`ρ, ρ'` that are maximal subject to staying in `[0,1]` (F2–F4): the results are `(1+κ)σ`-close. -/
theorem radial_step {L σ κ ρ ρ' n n' x x' v v' : Rat} (hκ : 0 < κ)
    (hρ : 0 ≤ ρ ∧ ρ ≤ 1) (hρ' : 0 ≤ ρ' ∧ ρ' ≤ 1)
    (F2 : ρ * (L - n) ≤ L) (F3 : ρ * (x - L) ≤ 1 - L)
    (F2' : ρ' * (L - n') ≤ L) (F3' : ρ' * (x' - L) ≤ 1 - L)
    (F4 : ρ = 1 ∨ ρ * (L - n) = L ∨ ρ * (x - L) = 1 - L)
    (F4' : ρ' = 1 ∨ ρ' * (L - n') = L ∨ ρ' * (x' - L) = 1 - L)
    (hn : |n - n'| ≤ σ) (hx : |x - x'| ≤ σ) (hv : |v - v'| ≤ σ)
    (b1 : |v - L| ≤ κ * (L - n)) (b2 : |v - L| ≤ κ * (x - L))
    (b1' : |v' - L| ≤ κ * (L - n')) (b2' : |v' - L| ≤ κ * (x' - L)) :
    |ρ * (v - L) - ρ' * (v' - L)| ≤ (1 + κ) * σ := by
  rcases le_total ρ' ρ with h | h
  · exact radial_step_half hκ hρ h F2 F3 F4' hn hx hv b1' b2'
  · rw [abs_sub_comm]
    rw [abs_sub_comm] at hn hx hv
    exact radial_step_half hκ hρ' h F2' F3' F4 hn hx hv b1 b2


/-- the factor by which the published `ClipColor` scales a colour towards its luminosity -/
def specRho (c : RGB) : Rat :=
  if c.min3 < 0 then lum c / (lum c - c.min3)
  else if c.max3 > 1 then (1 - lum c) / (c.max3 - lum c) else 1

theorem specClip_eq (c : RGB) (hl : unit (lum c)) (hw : c.max3 - c.min3 ≤ 1) :
    Spec.clipColor c = c.map (fun v => lum c + specRho c * (v - lum c)) := by
  obtain ⟨l0, l1⟩ := hl
  unfold Spec.clipColor specRho
  simp only [← lum_eq_spec, ← min3_eq_spec, ← max3_eq_spec]
  by_cases hn : c.min3 < 0
  · have hx : ¬ c.max3 > 1 := by intro h; linarith
    simp only [if_pos hn, if_neg hx, RGB.map]
    congr 1 <;> ring
  · by_cases hx : c.max3 > 1
    · simp only [if_neg hn, if_pos hx, RGB.map]
      congr 1 <;> ring
    · simp only [if_neg hn, if_neg hx, RGB.map]
      cases c; simp

theorem specRho_facts (c : RGB) (hl : unit (lum c)) (hw : c.max3 - c.min3 ≤ 1) :
    (0 ≤ specRho c ∧ specRho c ≤ 1) ∧ specRho c * (lum c - c.min3) ≤ lum c ∧
    specRho c * (c.max3 - lum c) ≤ 1 - lum c ∧
    (specRho c = 1 ∨ specRho c * (lum c - c.min3) = lum c ∨ specRho c * (c.max3 - lum c) = 1 - lum c) := by
  obtain ⟨l0, l1⟩ := hl
  have h1 := min3_le_lum c
  have h2 := lum_le_max3 c
  unfold specRho
  by_cases hn : c.min3 < 0
  · have hd : 0 < lum c - c.min3 := by linarith
    have e : lum c / (lum c - c.min3) * (lum c - c.min3) = lum c := div_mul_cancel₀ _ hd.ne'
    have r0 : 0 ≤ lum c / (lum c - c.min3) := div_nonneg l0 hd.le
    have r1 : lum c / (lum c - c.min3) ≤ 1 := by rw [div_le_one hd]; linarith
    rw [if_pos hn]
    refine ⟨⟨r0, r1⟩, e.le, ?_, Or.inr (Or.inl e)⟩
    have : lum c / (lum c - c.min3) * (c.max3 - lum c) = lum c * (c.max3 - lum c) / (lum c - c.min3) := by ring
    rw [this, div_le_iff₀ hd]; nlinarith
  · rw [if_neg hn]
    by_cases hx : c.max3 > 1
    · have hd : 0 < c.max3 - lum c := by linarith
      have e : (1 - lum c) / (c.max3 - lum c) * (c.max3 - lum c) = 1 - lum c := div_mul_cancel₀ _ hd.ne'
      have r0 : 0 ≤ (1 - lum c) / (c.max3 - lum c) := div_nonneg (by linarith) hd.le
      have r1 : (1 - lum c) / (c.max3 - lum c) ≤ 1 := by rw [div_le_one hd]; linarith
      rw [if_pos hx]
      refine ⟨⟨r0, r1⟩, ?_, e.le, Or.inr (Or.inr e)⟩
      have : (1 - lum c) / (c.max3 - lum c) * (lum c - c.min3) = (1 - lum c) * (lum c - c.min3) / (c.max3 - lum c) := by ring
      rw [this, div_le_iff₀ hd]; nlinarith
    · rw [if_neg hx]
      refine ⟨⟨by norm_num, le_refl _⟩, by linarith, by linarith, Or.inl rfl⟩

/-- `|v - lum| ≤ (100/11)(lum - min)` and `≤ (100/11)(max - lum)` for every `v` between min and max -/
theorem comp_lum_bounds (c : RGB) {v : Rat} (h1 : c.min3 ≤ v) (h2 : v ≤ c.max3) :
    |v - lum c| ≤ 100 / 11 * (lum c - c.min3) ∧ |v - lum c| ≤ 100 / 11 * (c.max3 - lum c) := by
  have a := lum_sub_min3_ge c
  have b := max3_sub_lum_ge c
  have c1 := min3_le_lum c
  have c2 := lum_le_max3 c
  constructor <;> rw [abs_le] <;> constructor <;> linarith

theorem RGB.near_comps {t : Rat} {a b : RGB} (h : RGB.near t a b) :
    (-t ≤ a.r - b.r ∧ a.r - b.r ≤ t) ∧ (-t ≤ a.g - b.g ∧ a.g - b.g ≤ t) ∧ (-t ≤ a.b - b.b ∧ a.b - b.b ≤ t) :=
  ⟨abs_le.mp h.1, abs_le.mp h.2.1, abs_le.mp h.2.2⟩

theorem min3_near {t : Rat} {a b : RGB} (h : RGB.near t a b) : |a.min3 - b.min3| ≤ t := by
  obtain ⟨⟨h1, h2⟩, ⟨h3, h4⟩, ⟨h5, h6⟩⟩ := RGB.near_comps h
  unfold RGB.min3 rmin; rw [abs_le]
  split_ifs <;> constructor <;> linarith
theorem max3_near {t : Rat} {a b : RGB} (h : RGB.near t a b) : |a.max3 - b.max3| ≤ t := by
  obtain ⟨⟨h1, h2⟩, ⟨h3, h4⟩, ⟨h5, h6⟩⟩ := RGB.near_comps h
  unfold RGB.max3 rmax; rw [abs_le]
  split_ifs <;> constructor <;> linarith
theorem lum_near {t : Rat} {a b : RGB} (h : RGB.near t a b) : |lum a - lum b| ≤ t := by
  obtain ⟨⟨h1, h2⟩, ⟨h3, h4⟩, ⟨h5, h6⟩⟩ := RGB.near_comps h
  unfold lum; rw [abs_le]; constructor <;> linarith

theorem RGB.near_trans {s t : Rat} {a b c : RGB} (h1 : RGB.near s a b) (h2 : RGB.near t b c) :
    RGB.near (s + t) a c := by
  obtain ⟨⟨a1, a2⟩, ⟨a3, a4⟩, ⟨a5, a6⟩⟩ := RGB.near_comps h1
  obtain ⟨⟨b1, b2⟩, ⟨b3, b4⟩, ⟨b5, b6⟩⟩ := RGB.near_comps h2
  unfold RGB.near
  refine ⟨?_, ?_, ?_⟩ <;> rw [abs_le] <;> constructor <;> linarith

/-- the published `ClipColor` is Lipschitz on colours of one luminosity `L ∈ [0,1]` and spread ≤ 1 -/
theorem specClip_lipschitz (a b : RGB) (L σ : Rat) (hL : unit L) (ha : lum a = L) (hb : lum b = L)
    (wa : a.max3 - a.min3 ≤ 1) (wb : b.max3 - b.min3 ≤ 1) (h : RGB.near σ a b) :
    RGB.near ((1 + 100 / 11) * σ) (Spec.clipColor a) (Spec.clipColor b) := by
  have hla : unit (lum a) := by rw [ha]; exact hL
  have hlb : unit (lum b) := by rw [hb]; exact hL
  obtain ⟨ra, F2, F3, F4⟩ := specRho_facts a hla wa
  obtain ⟨rb, F2', F3', F4'⟩ := specRho_facts b hlb wb
  rw [specClip_eq a hla wa, specClip_eq b hlb wb]
  rw [ha] at F2 F3 F4; rw [hb] at F2' F3' F4'
  have hn := min3_near h
  have hx := max3_near h
  obtain ⟨n1, n2, n3⟩ := min3_le a
  obtain ⟨x1, x2, x3⟩ := le_max3 a
  obtain ⟨m1, m2, m3⟩ := min3_le b
  obtain ⟨y1, y2, y3⟩ := le_max3 b
  have key : ∀ v w : Rat, a.min3 ≤ v → v ≤ a.max3 → b.min3 ≤ w → w ≤ b.max3 → |v - w| ≤ σ →
      |lum a + specRho a * (v - lum a) - (lum b + specRho b * (w - lum b))| ≤ (1 + 100 / 11) * σ := by
    intro v w v1 v2 w1 w2 hvw
    obtain ⟨b1, b2⟩ := comp_lum_bounds a v1 v2
    obtain ⟨b1', b2'⟩ := comp_lum_bounds b w1 w2
    rw [ha] at b1 b2 ⊢; rw [hb] at b1' b2' ⊢
    have e : L + specRho a * (v - L) - (L + specRho b * (w - L)) = specRho a * (v - L) - specRho b * (w - L) := by ring
    rw [e]
    exact radial_step (by norm_num) ra rb F2 F3 F2' F3' F4 F4' hn hx hvw b1 b2 b1' b2'
  unfold RGB.near RGB.map
  exact ⟨key _ _ n1 x1 m1 y1 h.1, key _ _ n2 x2 m2 y2 h.2.1, key _ _ n3 x3 m3 y3 h.2.2⟩

/-- the published `SetLum(·, L)` is Lipschitz in its colour argument -/
theorem specSetLum_lipschitz (X Y : RGB) (L τ : Rat) (hL : unit L)
    (wX : X.max3 - X.min3 ≤ 1) (wY : Y.max3 - Y.min3 ≤ 1) (h : RGB.near τ X Y) :
    RGB.near ((1 + 100 / 11) * (2 * τ)) (Spec.setLum X L) (Spec.setLum Y L) := by
  unfold Spec.setLum; simp only [← lum_eq_spec]
  have hl := abs_le.mp (lum_near h)
  obtain ⟨⟨h1, h2⟩, ⟨h3, h4⟩, ⟨h5, h6⟩⟩ := RGB.near_comps h
  apply specClip_lipschitz _ _ L (2 * τ) hL
  · rw [lum_shift]; ring
  · rw [lum_shift]; ring
  · rw [max3_shift, min3_shift]; linarith
  · rw [max3_shift, min3_shift]; linarith
  · unfold RGB.near RGB.map
    refine ⟨?_, ?_, ?_⟩ <;> rw [abs_le] <;> constructor <;> linarith

theorem specSetSat_unit (c : RGB) {s : Rat} (hs : unit s) : (Spec.setSat c s).All unit := by
  obtain ⟨s0, s1⟩ := hs
  obtain ⟨n1, n2, n3⟩ := min3_le c
  obtain ⟨x1, x2, x3⟩ := le_max3 c
  unfold Spec.setSat; simp only [← min3_eq_spec, ← max3_eq_spec]
  have key : ∀ v, c.min3 ≤ v → v ≤ c.max3 →
      unit (if c.min3 < c.max3 then ((v - c.min3) * s) / (c.max3 - c.min3) else 0) := by
    intro v v1 v2
    split_ifs with h
    · have hd : 0 < c.max3 - c.min3 := by linarith
      constructor
      · exact div_nonneg (mul_nonneg (by linarith) s0) hd.le
      · rw [div_le_one hd]; nlinarith
    · exact ⟨le_refl _, by norm_num⟩
  exact ⟨key _ n1 x1, key _ n2 x2, key _ n3 x3⟩

end PsdVerif.Blend
