/-
Helper lemmas for the non-separable blend functions (C12): min / median / max of a triple,
`lum`, `_set_sat` against the published `SetSat`, `_clip_color` against `ClipColor`.
-/
import PsdVerif.Lemmas.Blend

namespace PsdVerif.Blend
set_option linter.unusedVariables false
set_option linter.unusedTactic false
set_option linter.unreachableTactic false

theorem min3_le (c : RGB) : c.min3 ≤ c.r ∧ c.min3 ≤ c.g ∧ c.min3 ≤ c.b := by
  unfold RGB.min3 rmin; split_ifs <;> refine ⟨?_, ?_, ?_⟩ <;> linarith
theorem le_max3 (c : RGB) : c.r ≤ c.max3 ∧ c.g ≤ c.max3 ∧ c.b ≤ c.max3 := by
  unfold RGB.max3 rmax; split_ifs <;> refine ⟨?_, ?_, ?_⟩ <;> linarith
theorem min3_mem (c : RGB) : c.min3 = c.r ∨ c.min3 = c.g ∨ c.min3 = c.b := by
  unfold RGB.min3 rmin; split_ifs <;> simp
theorem max3_mem (c : RGB) : c.max3 = c.r ∨ c.max3 = c.g ∨ c.max3 = c.b := by
  unfold RGB.max3 rmax; split_ifs <;> simp
theorem min3_le_max3 (c : RGB) : c.min3 ≤ c.max3 := le_trans (min3_le c).1 (le_max3 c).1
theorem med3_bounds (c : RGB) : c.min3 ≤ c.med3 ∧ c.med3 ≤ c.max3 := by
  unfold RGB.med3 RGB.min3 RGB.max3 rmin rmax; split_ifs <;> constructor <;> linarith
/-- every component is the minimum, the median or the maximum -/
theorem comp_cases (c : RGB) :
    (c.r = c.min3 ∨ c.r = c.med3 ∨ c.r = c.max3) ∧ (c.g = c.min3 ∨ c.g = c.med3 ∨ c.g = c.max3) ∧
    (c.b = c.min3 ∨ c.b = c.med3 ∨ c.b = c.max3) := by
  unfold RGB.med3 RGB.min3 RGB.max3 rmin rmax
  split_ifs <;> refine ⟨?_, ?_, ?_⟩ <;> first | (left; rfl) | (right; left; rfl) | (right; right; rfl) | (left; linarith) | (right; left; linarith) | (right; right; linarith)

theorem min3_le_lum (c : RGB) : c.min3 ≤ lum c := by
  obtain ⟨h1, h2, h3⟩ := min3_le c; unfold lum; linarith
theorem lum_le_max3 (c : RGB) : lum c ≤ c.max3 := by
  obtain ⟨h1, h2, h3⟩ := le_max3 c; unfold lum; linarith

/-- `lum - min ≥ 0.11 (max - min)`: the weight of every channel is at least 0.11 -/
theorem lum_sub_min3_ge (c : RGB) : 11 / 100 * (c.max3 - c.min3) ≤ lum c - c.min3 := by
  obtain ⟨h1, h2, h3⟩ := min3_le c
  rcases max3_mem c with h | h | h <;> rw [h] <;> unfold lum <;> linarith
theorem max3_sub_lum_ge (c : RGB) : 11 / 100 * (c.max3 - c.min3) ≤ c.max3 - lum c := by
  obtain ⟨h1, h2, h3⟩ := le_max3 c
  rcases min3_mem c with h | h | h <;> rw [h] <;> unfold lum <;> linarith

theorem lum_eq_spec (c : RGB) : lum c = Spec.lum c := by unfold lum Spec.lum; ring
theorem min3_eq_spec (c : RGB) : c.min3 = Spec.cmin c := by
  unfold RGB.min3 Spec.cmin; rw [rmin_eq_min, rmin_eq_min, smin_eq_min, smin_eq_min, min_assoc]
theorem max3_eq_spec (c : RGB) : c.max3 = Spec.cmax c := by
  unfold RGB.max3 Spec.cmax; rw [rmax_eq_max, rmax_eq_max, smax_eq_max, smax_eq_max, max_assoc]
theorem sat_eq_spec (c : RGB) : sat c = Spec.sat c := by
  unfold sat Spec.sat; rw [min3_eq_spec, max3_eq_spec]

theorem lum_unit {c : RGB} (h : c.All unit) : unit (lum c) := by
  obtain ⟨⟨a0, a1⟩, ⟨b0, b1⟩, ⟨c0, c1⟩⟩ := h
  unfold lum; constructor <;> linarith
theorem sat_unit {c : RGB} (h : c.All unit) : unit (sat c) := by
  obtain ⟨⟨a0, a1⟩, ⟨b0, b1⟩, ⟨c0, c1⟩⟩ := h
  have := min3_le_max3 c
  unfold sat
  constructor
  · linarith
  · rcases max3_mem c with h | h | h <;> rcases min3_mem c with g | g | g <;> rw [h, g] <;> linarith

theorem map_all {p : Rat → Prop} {f : Rat → Rat} (c : RGB) (h : ∀ v, p (f v)) : (c.map f).All p :=
  ⟨h _, h _, h _⟩

theorem clamp_unit (v : Rat) : unit (if (if v < 0 then 0 else v) > 1 then 1 else (if v < 0 then 0 else v)) := by
  unfold unit; split_ifs <;> constructor <;> linarith

/-- `_clip_color` ends with `C[C < 0] = 0; C[C > 1] = 1` -/
theorem clipColor_unit (c : RGB) : (clipColor c).All unit := by
  unfold clipColor; simp only []
  generalize (if c.max3 > 1 then _ else _ : RGB) = c2
  exact ⟨clamp_unit _, clamp_unit _, clamp_unit _⟩

theorem clipColor_defined (c : RGB) : ∀ d ∈ clipColorDens c, 0 < d := by
  have he := eps_pos
  have h1 := min3_le_lum c
  have h2 := lum_le_max3 c
  unfold clipColorDens
  intro d hd
  simp only [List.mem_append] at hd
  rcases hd with hd | hd <;> split_ifs at hd <;> simp at hd <;> subst hd <;> linarith

theorem setSat_defined (c : RGB) : ∀ d ∈ setSatDens c, 0 < d := by
  have he := eps_pos
  unfold setSatDens
  intro d hd
  split_ifs at hd with h <;> simp at hd
  subst hd; linarith

theorem setSatComp_bounds {mx md mn s : Rat} (hs : 0 ≤ s) (h1 : mn ≤ md) (h2 : md ≤ mx) (v : Rat) :
    0 ≤ setSatComp mx md mn s v ∧ setSatComp mx md mn s v ≤ s := by
  have he := eps_pos
  unfold setSatComp; simp only []
  split_ifs <;> (try (constructor <;> linarith))
  constructor
  · apply div_nonneg (mul_nonneg (by linarith) hs); linarith
  · rw [div_le_iff₀ (by linarith)]; nlinarith

theorem setSat_bounds (c : RGB) {s : Rat} (hs : 0 ≤ s) : (setSat c s).All (fun v => 0 ≤ v ∧ v ≤ s) := by
  obtain ⟨h1, h2⟩ := med3_bounds c
  exact ⟨setSatComp_bounds hs h1 h2 _, setSatComp_bounds hs h1 h2 _, setSatComp_bounds hs h1 h2 _⟩

/-- componentwise distance at most `t` -/
def RGB.near (t : Rat) (a b : RGB) : Prop := |a.r - b.r| ≤ t ∧ |a.g - b.g| ≤ t ∧ |a.b - b.b| ≤ t

theorem div_eps_near {x d δ : Rat} (hx : 0 ≤ x) (hxd : x ≤ d) (hδ : 0 < δ) (hd : δ ≤ d) :
    |x / (d + eps) - x / d| ≤ eps / δ := by
  have he := eps_pos
  have hd0 : 0 < d := lt_of_lt_of_le hδ hd
  have hde : 0 < d + eps := by linarith
  have hdiff : x / d - x / (d + eps) = x / (d + eps) * (eps / d) := by field_simp; ring
  have hu0 : 0 ≤ x / (d + eps) := div_nonneg hx hde.le
  have hu1 : x / (d + eps) ≤ 1 := by rw [div_le_one hde]; linarith
  have hed : 0 ≤ eps / d := div_nonneg he.le hd0.le
  have hbound : eps / d ≤ eps / δ := div_le_div_of_nonneg_left he.le hδ hd
  rw [abs_sub_comm, abs_of_nonneg (by rw [hdiff]; positivity), hdiff]
  calc x / (d + eps) * (eps / d) ≤ 1 * (eps / d) := mul_le_mul_of_nonneg_right hu1 hed
    _ ≤ eps / δ := by rw [one_mul]; exact hbound

theorem setSatComp_min {mx md mn s v : Rat} (h : v = mn) : setSatComp mx md mn s v = 0 := by
  unfold setSatComp; simp only []; rw [if_pos h]

theorem setSatComp_mid {mx md mn s v : Rat} (hvn : v ≠ mn) (hvd : v = md) (hgt : mx > mn) :
    setSatComp mx md mn s v = (md - mn) * s / (mx - mn + eps) := by
  unfold setSatComp; simp only []
  split_ifs <;> first | rfl | (exfalso; tauto)

theorem setSatComp_max {mx md mn s v : Rat} (hvn : v ≠ mn) (hvd : v ≠ md) (hvx : v = mx) (hgt : mx > mn) :
    setSatComp mx md mn s v = s := by
  unfold setSatComp; simp only []
  split_ifs <;> first | rfl | (exfalso; tauto)

theorem setSatComp_near {mx md mn s v δ : Rat} (hδ : 0 < δ) (hs : unit s) (h1 : mn ≤ md) (h2 : md ≤ mx)
    (hoff : mx = mn ∨ δ ≤ mx - mn) (hv : v = mn ∨ v = md ∨ v = mx) :
    |setSatComp mx md mn s v - (if mn < mx then ((v - mn) * s) / (mx - mn) else 0)| ≤ eps / δ := by
  have he := eps_pos
  have ht : 0 ≤ eps / δ := div_nonneg he.le hδ.le
  obtain ⟨s0, s1⟩ := hs
  by_cases hvn : v = mn
  · rw [setSatComp_min hvn, hvn]; simp [ht]
  · rcases hoff with hoff | hoff
    · exfalso; apply hvn
      rcases hv with hv | hv | hv
      · exact hv
      · rw [hv]; linarith
      · rw [hv]; exact hoff
    · have hlt : mn < mx := by linarith
      rw [if_pos hlt]
      by_cases hvd : v = md
      · rw [setSatComp_mid hvn hvd hlt, hvd]
        have hx0 : 0 ≤ (md - mn) * s := mul_nonneg (by linarith) s0
        have hxd : (md - mn) * s ≤ mx - mn := by
          nlinarith [mul_nonneg (sub_nonneg.mpr h2) s0, mul_nonneg (sub_nonneg.mpr h1) (sub_nonneg.mpr s1)]
        exact div_eps_near hx0 hxd hδ hoff
      · have hvx : v = mx := by
          rcases hv with hv | hv | hv
          · exact absurd hv hvn
          · exact absurd hv hvd
          · exact hv
        have hd0 : mx - mn ≠ 0 := by linarith
        rw [setSatComp_max hvn hvd hvx hlt, hvx, mul_comm, mul_div_assoc, div_self hd0, mul_one, sub_self, abs_zero]
        exact ht

def clamp01 (v : Rat) : Rat := if (if v < 0 then 0 else v) > 1 then 1 else (if v < 0 then 0 else v)

theorem clamp01_of_unit {v : Rat} (h : unit v) : clamp01 v = v := by
  obtain ⟨h0, h1⟩ := h
  unfold clamp01; split_ifs <;> linarith

/-- clamping to `[0,1]` does not increase the distance to a point of `[0,1]` -/
theorem clamp01_near {a b t : Rat} (hb : unit b) (h : |a - b| ≤ t) : |clamp01 a - b| ≤ t := by
  obtain ⟨b0, b1⟩ := hb
  rw [abs_le] at h ⊢
  obtain ⟨h1, h2⟩ := h
  unfold clamp01; split_ifs <;> constructor <;> linarith

/-- the `C_min < 0` branch of `_clip_color`, one component -/
theorem clip_lo_near {l n v : Rat} (hl0 : 0 ≤ l) (hl1 : l ≤ 1) (hn : n < 0) (hv1 : n ≤ v) (hv3 : v ≤ 1)
    (hv2 : v - l ≤ 100 / 11 * (l - n)) :
    |clamp01 (l + (v - l) * l / (l - n + eps)) - (l + ((v - l) * l) / (l - n))| ≤ 10 * eps := by
  have he := eps_pos
  have hd : 0 < l - n := by linarith
  have hde : 0 < l - n + eps := by linarith
  -- the published value is in [0,1]
  have hρ0 : 0 ≤ l / (l - n) := div_nonneg hl0 hd.le
  have hρ1 : l / (l - n) ≤ 1 := by rw [div_le_one hd]; linarith
  have hB : l + ((v - l) * l) / (l - n) = l + (v - l) * (l / (l - n)) := by rw [mul_div_assoc]
  have hnl : (n - l) * (l / (l - n)) = -l := by field_simp; ring
  have hunit : unit (l + ((v - l) * l) / (l - n)) := by
    rw [hB]; constructor
    · have : (n - l) * (l / (l - n)) ≤ (v - l) * (l / (l - n)) :=
        mul_le_mul_of_nonneg_right (by linarith) hρ0
      linarith
    · by_cases hvl : v ≤ l
      · have : (v - l) * (l / (l - n)) ≤ 0 := mul_nonpos_of_nonpos_of_nonneg (by linarith) hρ0
        linarith
      · have : (v - l) * (l / (l - n)) ≤ (v - l) * 1 :=
          mul_le_mul_of_nonneg_left hρ1 (by linarith)
        linarith
  apply clamp01_near hunit
  have hdiff : l + (v - l) * l / (l - n + eps) - (l + ((v - l) * l) / (l - n))
      = -(((v - l) / (l - n)) * (l / (l - n + eps)) * eps) := by field_simp; ring
  rw [hdiff, abs_neg, abs_mul, abs_mul, abs_of_pos he]
  have h1 : |(v - l) / (l - n)| ≤ 100 / 11 := by
    rw [abs_le]; constructor
    · rw [le_div_iff₀ hd]; linarith
    · rw [div_le_iff₀ hd]; linarith
  have h2 : |l / (l - n + eps)| ≤ 1 := by
    rw [abs_of_nonneg (div_nonneg hl0 hde.le), div_le_one hde]; linarith
  calc |(v - l) / (l - n)| * |l / (l - n + eps)| * eps ≤ 100 / 11 * 1 * eps := by
        apply mul_le_mul_of_nonneg_right _ he.le
        exact mul_le_mul h1 h2 (abs_nonneg _) (by norm_num)
    _ ≤ 10 * eps := by nlinarith

/-- the `C_max > 1` branch of `_clip_color`, one component -/
theorem clip_hi_near {l x v : Rat} (hl0 : 0 ≤ l) (hl1 : l ≤ 1) (hx : 1 < x) (hv1 : v ≤ x) (hv3 : 0 ≤ v)
    (hv2 : l - v ≤ 100 / 11 * (x - l)) :
    |clamp01 (l + (v - l) * (1 - l) / (x - l + eps)) - (l + ((v - l) * (1 - l)) / (x - l))| ≤ 10 * eps := by
  have he := eps_pos
  have hd : 0 < x - l := by linarith
  have hde : 0 < x - l + eps := by linarith
  have hρ0 : 0 ≤ (1 - l) / (x - l) := div_nonneg (by linarith) hd.le
  have hρ1 : (1 - l) / (x - l) ≤ 1 := by rw [div_le_one hd]; linarith
  have hB : l + ((v - l) * (1 - l)) / (x - l) = l + (v - l) * ((1 - l) / (x - l)) := by rw [mul_div_assoc]
  have hxl : (x - l) * ((1 - l) / (x - l)) = 1 - l := by field_simp
  have hunit : unit (l + ((v - l) * (1 - l)) / (x - l)) := by
    rw [hB]; constructor
    · by_cases hvl : l ≤ v
      · have : 0 ≤ (v - l) * ((1 - l) / (x - l)) := mul_nonneg (by linarith) hρ0
        linarith
      · have : (v - l) * 1 ≤ (v - l) * ((1 - l) / (x - l)) :=
          mul_le_mul_of_nonpos_left hρ1 (by linarith)
        linarith
    · have : (v - l) * ((1 - l) / (x - l)) ≤ (x - l) * ((1 - l) / (x - l)) :=
        mul_le_mul_of_nonneg_right (by linarith) hρ0
      linarith
  apply clamp01_near hunit
  have hdiff : l + (v - l) * (1 - l) / (x - l + eps) - (l + ((v - l) * (1 - l)) / (x - l))
      = -(((v - l) / (x - l)) * ((1 - l) / (x - l + eps)) * eps) := by field_simp; ring
  rw [hdiff, abs_neg, abs_mul, abs_mul, abs_of_pos he]
  have h1 : |(v - l) / (x - l)| ≤ 100 / 11 := by
    rw [abs_le]; constructor
    · rw [le_div_iff₀ hd]; linarith
    · rw [div_le_iff₀ hd]; linarith
  have h2 : |(1 - l) / (x - l + eps)| ≤ 1 := by
    rw [abs_of_nonneg (div_nonneg (by linarith) hde.le), div_le_one hde]; linarith
  calc |(v - l) / (x - l)| * |(1 - l) / (x - l + eps)| * eps ≤ 100 / 11 * 1 * eps := by
        apply mul_le_mul_of_nonneg_right _ he.le
        exact mul_le_mul h1 h2 (abs_nonneg _) (by norm_num)
    _ ≤ 10 * eps := by nlinarith

theorem lum_shift (c : RGB) (d : Rat) : lum (c.map (fun v => v + d)) = lum c + d := by
  unfold lum RGB.map; ring
theorem max3_shift (c : RGB) (d : Rat) : (c.map (fun v => v + d)).max3 = c.max3 + d := by
  unfold RGB.max3 RGB.map rmax; simp only []; split_ifs <;> first | rfl | (exfalso; linarith)
theorem min3_shift (c : RGB) (d : Rat) : (c.map (fun v => v + d)).min3 = c.min3 + d := by
  unfold RGB.min3 RGB.map rmin; simp only []; split_ifs <;> first | rfl | (exfalso; linarith)

theorem clipColor_comp (c : RGB) :
    clipColor c =
      (if c.max3 > 1 then
          (if c.min3 < 0 then c.map (fun v => lum c + (v - lum c) * lum c / (lum c - c.min3 + eps)) else c).map
            (fun v => lum c + (v - lum c) * (1 - lum c) / (c.max3 - lum c + eps))
        else (if c.min3 < 0 then c.map (fun v => lum c + (v - lum c) * lum c / (lum c - c.min3 + eps)) else c)).map clamp01 := by
  unfold clipColor clamp01 RGB.map; simp only []

/-- `_clip_color` against the published `ClipColor`, for an argument whose luminosity is in `[0,1]`
and whose spread is at most 1 (every argument `_set_lum` builds from colours in `[0,1]`): within `10 ε`,
no `δ` needed. -/
theorem clipColor_near_spec (c : RGB) (hl : unit (lum c)) (hw : c.max3 - c.min3 ≤ 1) :
    RGB.near (10 * eps) (clipColor c) (Spec.clipColor c) := by
  have he := eps_pos
  obtain ⟨l0, l1⟩ := hl
  obtain ⟨n1, n2, n3⟩ := min3_le c
  obtain ⟨x1, x2, x3⟩ := le_max3 c
  have hlo := lum_sub_min3_ge c
  have hhi := max3_sub_lum_ge c
  rw [clipColor_comp]
  unfold Spec.clipColor RGB.near
  simp only [← lum_eq_spec, ← min3_eq_spec, ← max3_eq_spec]
  by_cases hn : c.min3 < 0
  · have hx : ¬ c.max3 > 1 := by intro h; linarith
    simp only [if_pos hn, if_neg hx, RGB.map]
    refine ⟨?_, ?_, ?_⟩ <;> apply clip_lo_near l0 l1 hn <;> linarith
  · by_cases hx : c.max3 > 1
    · simp only [if_neg hn, if_pos hx, RGB.map]
      refine ⟨?_, ?_, ?_⟩ <;> apply clip_hi_near l0 l1 hx <;> linarith
    · simp only [if_neg hn, if_neg hx, RGB.map]
      have hu : ∀ v, c.min3 ≤ v → v ≤ c.max3 → |clamp01 v - v| ≤ 10 * eps := by
        intro v h1 h2
        rw [clamp01_of_unit ⟨by linarith, by linarith⟩, sub_self, abs_zero]; linarith
      exact ⟨hu _ n1 x1, hu _ n2 x2, hu _ n3 x3⟩

theorem setLum_near_spec (c : RGB) (L : Rat) (hL : unit L) (hw : c.max3 - c.min3 ≤ 1) :
    RGB.near (10 * eps) (setLum c L) (Spec.setLum c L) := by
  unfold setLum Spec.setLum; simp only [← lum_eq_spec]
  apply clipColor_near_spec
  · rw [lum_shift]; ring_nf; exact hL
  · rw [max3_shift, min3_shift]; linarith

theorem width_le_one {c : RGB} (h : c.All unit) : c.max3 - c.min3 ≤ 1 := (sat_unit h).2

end PsdVerif.Blend
