/-
C03 — the specification walker accepts what the model writer emits: primitives, header, colour mode
data, image resources, tagged blocks.
-/
import PsdVerif.Lemmas.CodecPsd3
import PsdVerif.Model.Walker

namespace PsdVerif.Walker
open PsdVerif PsdVerif.Codec PsdVerif.Psd

/-! ### what the format prescribes beyond `PSD.WF` (hypotheses of `walker_accepts`) -/

/-- the library's 8-byte-length decision agrees with the specification's for this key -/
def KeyAgrees (version : Nat) (t : TaggedBlock) : Prop :=
  version = 2 → (t.key ∈ G.bigKeys ↔ t.key ∈ Spec.psbEightByteKeys)

instance (version : Nat) (t : TaggedBlock) : Decidable (KeyAgrees version t) := by
  unfold KeyAgrees; exact inferInstance

/-- tagged blocks inside a layer record: spec key list, even length -/
def RecordShaped (version : Nat) (r : LayerRecord) : Prop :=
  ∀ t ∈ r.taggedBlocks, KeyAgrees version t ∧ t.data.length % 2 = 0

instance (version : Nat) (r : LayerRecord) : Decidable (RecordShaped version r) := by
  unfold RecordShaped; exact inferInstance

def optRecordsShaped (version : Nat) : Option (List LayerRecord) → Prop
  | some rs => ∀ r ∈ rs, RecordShaped version r
  | none => True

instance (version : Nat) (o : Option (List LayerRecord)) : Decidable (optRecordsShaped version o) := by
  cases o <;> simp only [optRecordsShaped] <;> exact inferInstance

def optInfoShaped (version : Nat) : Option LayerInfo → Prop
  | some li => optRecordsShaped version li.records
  | none => True

instance (version : Nat) (o : Option LayerInfo) : Decidable (optInfoShaped version o) := by
  cases o <;> simp only [optInfoShaped] <;> exact inferInstance

def optBlocksAgree (version : Nat) : Option (List TaggedBlock) → Prop
  | some ts => ∀ t ∈ ts, KeyAgrees version t
  | none => True

instance (version : Nat) (o : Option (List TaggedBlock)) : Decidable (optBlocksAgree version o) := by
  cases o <;> simp only [optBlocksAgree] <;> exact inferInstance

/-- what the specification prescribes for tagged blocks and `PSD.WF` does not: record-level blocks of even
length, and (PSB) no key whose length width psd-tools and the specification disagree on -/
def SpecShaped (d : PSD) : Prop :=
  optInfoShaped d.header.version d.layerAndMask.layerInfo ∧ optBlocksAgree d.header.version d.layerAndMask.taggedBlocks

instance (d : PSD) : Decidable (SpecShaped d) := by unfold SpecShaped; exact inferInstance

/-! ### primitives -/

theorem wU_step {sect : String} {d : B} {p w n : Nat} {rest : B} (h : At d p (beBytes w n ++ rest)) (hn : n < 256 ^ w) :
    wU sect w d p = .ok (n, p + w) ∧ At d (p + w) rest := by
  obtain ⟨e, h'⟩ := readU_step h hn
  exact ⟨by simp only [wU, e], h'⟩

theorem wBytes_step {sect : String} {d : B} {p n : Nat} {bs rest : B} (h : At d p (bs ++ rest)) (hl : bs.length = n) :
    wBytes sect n d p = .ok (bs, p + n) ∧ At d (p + n) rest := by
  obtain ⟨e, h'⟩ := readN_step h hl
  exact ⟨by simp only [wBytes, e], h'⟩

theorem skip_step {sect : String} {d : B} {p n : Nat} {bs rest : B} (h : At d p (bs ++ rest)) (hl : bs.length = n) :
    skip sect n d p = .ok ((), p + n) ∧ At d (p + n) rest := by
  have hb := h.left.bound
  refine ⟨?_, hl ▸ h.right⟩
  unfold skip
  rw [if_pos (by omega)]

theorem skip_at {sect : String} {d : B} {p n : Nat} {bs : B} (h : At d p bs) (hl : bs.length = n) :
    skip sect n d p = .ok ((), p + n) := (skip_step h.nil_right hl).1

theorem check_true (sect reason : String) (d : B) (p : Nat) : check sect reason true d p = .ok ((), p) := rfl

/-- where a walker ended (forgetting the regions it reports) -/
def posOf {α : Type} (r : Except WErr (α × Nat)) : Option Nat :=
  match r with
  | .ok (_, q) => some q
  | .error _ => none

theorem posOf_ok {α : Type} {r : Except WErr (α × Nat)} {q : Nat} (h : posOf r = some q) : ∃ a, r = .ok (a, q) := by
  cases r with
  | error e => simp [posOf] at h
  | ok v =>
    obtain ⟨a, q'⟩ := v
    simp only [posOf, Option.some.injEq] at h
    exact ⟨a, by rw [h]⟩

/-- navigation data and end position of a walker that also reports regions -/
def navOf {α β : Type} (r : Except WErr ((α × β) × Nat)) : Option (α × Nat) :=
  match r with
  | .ok ((a, _), q) => some (a, q)
  | .error _ => none

theorem navOf_ok {α β : Type} {r : Except WErr ((α × β) × Nat)} {a : α} {q : Nat} (h : navOf r = some (a, q)) :
    ∃ b, r = .ok ((a, b), q) := by
  cases r with
  | error e => simp [navOf] at h
  | ok v =>
    obtain ⟨⟨a', b⟩, q'⟩ := v
    simp only [navOf, Option.some.injEq, Prod.mk.injEq] at h
    exact ⟨b, by rw [h.1, h.2]⟩

/-! ### header, colour mode data -/

theorem walkHeader_step {h : Header} (hv : h.Valid) {d : B} {p : Nat} {rest : B} (hat : At d p (h.encT ++ rest)) :
    navOf (walkHeader d p) = some (⟨h.version, h.channels, h.height, h.width, h.depth, h.colorMode⟩, p + 26) ∧
      At d (p + 26) rest := by
  obtain ⟨f1, f2, f3, f4, f5, f6⟩ := Header.fits_of_valid hv
  have hsig : h.signature = Spec.headerSignature := by rw [hv.1]; decide
  have hs : pack4s h.signature = Spec.headerSignature := by
    rw [hsig]; decide
  have hver : (h.version == 1 || h.version == 2) = true := by
    have : ∀ x ∈ G.headerVersions, (x == 1 || x == 2) = true := by decide
    exact this _ hv.2.1
  simp only [Header.encT, List.append_assoc, hs] at hat
  obtain ⟨e1, hat⟩ := wBytes_step (sect := "header") (n := 4) hat (by decide)
  obtain ⟨e2, hat⟩ := wU_step (sect := "header") hat f1
  obtain ⟨e3, hat⟩ := skip_step (sect := "header") hat (length_zeros 6)
  obtain ⟨e4, hat⟩ := wU_step (sect := "header") hat f2
  obtain ⟨e5, hat⟩ := wU_step (sect := "header") hat f3
  obtain ⟨e6, hat⟩ := wU_step (sect := "header") hat f4
  obtain ⟨e7, hat⟩ := wU_step (sect := "header") hat f5
  obtain ⟨e8, hat⟩ := wU_step (sect := "header") hat f6
  refine ⟨?_, hat⟩
  simp only [walkHeader, bind, Except.bind, e1, e2, e3, e4, e5, e6, e7, e8, beq_self_eq_true, check_true, hver, navOf]

theorem colorModeT_eq (v : B) : colorModeT v = beBytes 4 v.length ++ v := by
  simp [colorModeT, lenBlockT, zeros, padAmount_one]

theorem walkColorMode_step {v : B} (hf : FitsU 4 v.length) {d : B} {p : Nat} {rest : B}
    (hat : At d p (colorModeT v ++ rest)) :
    posOf (walkColorMode d p) = some (p + (colorModeT v).length) ∧ At d (p + (colorModeT v).length) rest := by
  have hl : (colorModeT v).length = 4 + v.length := by rw [colorModeT_eq]; simp [length_beBytes]
  have hright := hat.right
  rw [colorModeT_eq, List.append_assoc] at hat
  obtain ⟨e1, hat⟩ := wU_step (sect := "color-mode-data") hat hf
  obtain ⟨e2, hat⟩ := skip_step (sect := "color-mode-data") hat rfl
  refine ⟨?_, hright⟩
  simp only [walkColorMode, bind, Except.bind, e1, e2, posOf, hl, Option.some.injEq]
  omega

/-! ### image resources -/

theorem walkResource_step {r : Resource} (hwf : r.WF) {d : B} {p : Nat} {rest : B} (hat : At d p (r.encT ++ rest)) :
    posOf (walkResource d p) = some (p + r.encT.length) ∧ At d (p + r.encT.length) rest := by
  obtain ⟨hsig, f1, f2, f3⟩ := hwf
  have hright := hat.right
  have hl : ∀ s ∈ G.resourceSignatures, s.length = 4 ∧ Spec.resourceSignatures.contains s = true := by decide
  have hs : pack4s r.signature = r.signature := pack4s_of_length (hl _ hsig).1
  have hpad : padAmount (r.data.length + (0 + 4)) 2 = padAmount r.data.length 2 := padAmount_add_mul _ _ _ (by decide)
  have hlen : r.encT.length = 4 + 2 + 1 + (r.name.length + padAmount (1 + r.name.length) 2) + 4 +
      (r.data.length + padAmount r.data.length 2) := by
    rw [Resource.length_encT, length_pascalT, length_lenBlockT, hpad]; omega
  simp only [Resource.encT, pascalT, lenBlockT, zeros, List.replicate_zero, List.nil_append, List.append_assoc, hs,
    hpad] at hat
  obtain ⟨e1, hat⟩ := wBytes_step (sect := "image-resource") hat (hl _ hsig).1
  obtain ⟨e2, hat⟩ := wU_step (sect := "image-resource") hat f1
  obtain ⟨e3, hat⟩ := wU_step (sect := "image-resource") hat (by simpa using f2)
  rw [← List.append_assoc] at hat
  obtain ⟨e4, hat⟩ := skip_step (sect := "image-resource") (n := r.name.length + padAmount (1 + r.name.length) 2) hat
    (by simp)
  obtain ⟨e5, hat⟩ := wU_step (sect := "image-resource") hat f3
  rw [← List.append_assoc] at hat
  obtain ⟨e6, hat⟩ := skip_step (sect := "image-resource") (n := r.data.length + padAmount r.data.length 2) hat
    (by simp)
  refine ⟨?_, hright⟩
  simp only [walkResource, bind, Except.bind, e1, (hl _ hsig).2, check_true, e2, e3, e4, e5, e6, posOf, hlen,
    Option.some.injEq]
  omega

theorem walkResourcesLoop_at (rs : List Resource) (hwf : ∀ r ∈ rs, r.WF) {d : B} {p : Nat} {rest : B}
    (hat : At d p (listT Resource.encT rs ++ rest)) (stop : Nat) (hstop : stop = p + (listT Resource.encT rs).length)
    (fuel : Nat) (hf : rs.length < fuel) :
    posOf (walkResourcesLoop stop fuel d p) = some stop := by
  induction rs generalizing p fuel with
  | nil =>
    cases fuel with
    | zero => omega
    | succ fuel =>
      simp only [listT, List.length_nil, Nat.add_zero] at hstop
      subst hstop
      simp [walkResourcesLoop, posOf]
  | cons r rs ih =>
    cases fuel with
    | zero => omega
    | succ fuel =>
      simp only [listT, List.append_assoc, List.length_append] at hat hstop
      have hge := r.length_ge
      obtain ⟨e1, hat'⟩ := walkResource_step (hwf r (by simp)) hat
      obtain ⟨rg, e1⟩ := posOf_ok e1
      have e2 := ih (fun x hx => hwf x (by simp [hx])) hat' (by omega) fuel (by simpa using hf)
      obtain ⟨rgs, e2⟩ := posOf_ok e2
      have hlt : p < stop := by omega
      have hle : p + r.encT.length ≤ stop := by omega
      simp only [walkResourcesLoop, if_pos hlt, e1, if_pos hle, e2, posOf]

theorem walkResources_step {rs : List Resource} (hwf : resourcesWF rs) {d : B} {p : Nat} {rest : B}
    (hat : At d p (resourcesT rs ++ rest)) :
    posOf (walkResources d p) = some (p + (resourcesT rs).length) ∧ At d (p + (resourcesT rs).length) rest := by
  obtain ⟨hall, _, hf⟩ := hwf
  have hT : resourcesT rs = beBytes 4 (resourcesBodyT rs).length ++ resourcesBodyT rs := by
    simp [resourcesT, lenBlockT, zeros, padAmount_one]
  have hl : (resourcesT rs).length = 4 + (resourcesBodyT rs).length := by rw [hT]; simp [length_beBytes]
  refine ⟨?_, hat.right⟩
  rw [hT, List.append_assoc] at hat
  obtain ⟨e1, hat⟩ := wU_step (sect := "image-resources") hat hf
  have e2 := (skip_step (sect := "image-resources") hat rfl).1
  have hcount : rs.length < (resourcesBodyT rs).length + 1 := by
    have := length_listT_le Resource.encT rs 1 (fun r _ => by have := r.length_ge; omega)
    unfold resourcesBodyT; omega
  have e3 := walkResourcesLoop_at rs hall hat (p + 4 + (resourcesBodyT rs).length) rfl
    ((resourcesBodyT rs).length + 1) hcount
  obtain ⟨rg, e3⟩ := posOf_ok e3
  simp only [walkResources, bind, Except.bind, e1, e2, e3, posOf, hl, Option.some.injEq]
  omega

end PsdVerif.Walker
