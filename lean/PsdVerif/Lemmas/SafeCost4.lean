/-
C06 — linear cost of the counting interpreter, part 3: one `Pays a b` lemma per reader of the skeleton.
The coefficient grows with the nesting depth of `io.BytesIO` copies (main stream → extra block of a layer
record → mask / blending-ranges block), which is a constant of the skeleton.
-/
import PsdVerif.Lemmas.SafeCost3

namespace PsdVerif.SafeCost
open PsdVerif PsdVerif.Codec PsdVerif.Psd PsdVerif.PsdCost PsdVerif.Safe

/-! ### more plumbing -/

/-- less credit, a larger constant -/
theorem PaysCr.weaken {β : Type} {a b b' : Nat} {d : B} {p : Nat} {x : CE (β × Nat)} {cr cr' : β → Nat}
    (h : PaysCr a b d p x cr) (hcr : ∀ v, cr' v ≤ cr v) (hb : b ≤ b') : PaysCr a b' d p x cr' := by
  refine PaysCr.intro (fun v p' hx => ?_) (fun e hx => ?_)
  · have h1 := h.of_ok hx
    have := hcr v
    exact ⟨h1.1, by omega⟩
  · have h1 := h.of_error hx
    omega

/-- what a run on a (nested) stream costs at most, whatever its outcome -/
theorem PaysCr.w_le {β : Type} {a b : Nat} {d : B} {p : Nat} {x : CE (β × Nat)} {cr : β → Nat}
    (h : PaysCr a b d p x cr) : x.2.w ≤ a * d.length + b := by
  have h1 := h.spend
  unfold Spend at h1
  have : pot a d p ≤ a * d.length := Nat.mul_le_mul_left a (by omega)
  omega

/-- sequencing where the continuation may also REWIND to the start `p` (then the first step is paid from
the constant) -/
theorem PaysCr.bind_or {α β : Type} {a a' b b₁ W : Nat} {d : B} {p : Nat} {m : CE (β × Nat)} {cr : β → Nat}
    {f : β × Nat → CE (α × Nat)} {cr' : α → Nat} (hm : PaysCr a' b₁ d p m cr)
    (hf : ∀ v p₁, m.1 = .ok (v, p₁) → PaysCr a (b - b₁ + cr v) d p₁ (f (v, p₁)) cr' ∨
      (m.2.w ≤ W ∧ PaysCr a (b - W) d p (f (v, p₁)) cr'))
    (ha : a' ≤ a := by decide) (hb : b₁ ≤ b := by omega) (hW : W ≤ b := by omega) : PaysCr a b d p (m >>= f) cr' := by
  cases hm1 : m.1 with
  | error e =>
    rw [bind_err' hm1]
    refine PaysCr.intro (fun _ _ hx => by cases hx) (fun _ _ => ?_)
    have := (hm.mono ha (Nat.le_refl _)).of_error hm1
    show m.2.w ≤ _
    omega
  | ok y =>
    obtain ⟨v, p₁⟩ := y
    rcases hf v p₁ hm1 with h | ⟨hw, h⟩
    · exact PaysCr.bind hm (fun v' p' hx => by rw [hm1] at hx; cases hx; exact h) ha hb
    · rw [bind_ok' hm1]
      refine PaysCr.intro (fun v' p' hx => ?_) (fun e hx => ?_)
      · have h2 := h.of_ok hx
        show _ ∧ (m.2 + (f (v, p₁)).2).w + _ + _ ≤ _
        rw [w_add]
        exact ⟨h2.1, by omega⟩
      · have h2 := h.of_error hx
        show (m.2 + (f (v, p₁)).2).w ≤ _
        rw [w_add]
        omega

theorem padAmount_le (size divisor : Nat) : padAmount size divisor ≤ divisor := by
  unfold padAmount; split <;> omega

/-- `read_length_block` advances by the prefix, the block and less than one alignment unit -/
theorem readLenBlock_adv_le {skip w pad : Nat} {d : B} {p : Nat} {x : B} {p' : Nat}
    (h : readLenBlock skip w pad d p = .ok (x, p')) : p' ≤ p + skip + w + x.length + pad := by
  unfold readLenBlock at h
  split at h
  · cases h
  · rename_i y p0 h0
    split at h
    · cases h
    · rename_i n p1 h1
      split at h
      · cases h
      · split at h
        · cases h
        · rename_i x' p2 h2
          split at h
          · cases h
          · split at h
            · cases h
            · rename_i u p3 h3
              cases h
              have a0 := readN_ok h0
              have a1 := readU_ok h1
              have a2 := readUpTo_ok h2
              unfold readPadding at h3
              split at h3
              · rename_i z q hq
                cases h3
                have a3 := readUpTo_ok hq
                have := padAmount_le n pad
                omega
              · cases h3

/-! ### header, colour mode data, image resources -/

theorem header_pays (d : B) (p : Nat) : Pays 1 8 d p (PsdCost.Header.decC d p) := by
  unfold PsdCost.Header.decC
  refine PaysCr.bind (readNC_pays 4 d p) fun sig p _ => ?_
  refine PaysCr.bind (readUC_pays 2 d p) fun version p _ => ?_
  refine PaysCr.bind (readNC_pays 6 d p) fun _ p _ => ?_
  refine PaysCr.bind (readUC_pays 2 d p) fun channels p _ => ?_
  refine PaysCr.bind (readUC_pays 4 d p) fun height p _ => ?_
  refine PaysCr.bind (readUC_pays 4 d p) fun width p _ => ?_
  refine PaysCr.bind (readUC_pays 2 d p) fun depth p _ => ?_
  refine PaysCr.bind (readUC_pays 2 d p) fun cm p _ => ?_
  dsimp only
  exact PaysCr.ite (fun _ => PaysCr.ok _) (fun _ => PaysCr.error _)

theorem colorMode_pays (d : B) (p : Nat) : Pays 1 4 d p (colorModeDecC d p) := readLenBlockC_pays0 0 4 1 d p

theorem resource_pays (d : B) (p : Nat) : Pays 1 9 d p (PsdCost.Resource.decC d p) := by
  unfold PsdCost.Resource.decC
  refine PaysCr.bind (readNC_pays 4 d p) fun sig p _ => ?_
  refine PaysCr.bind (readUC_pays 2 d p) fun key p _ => ?_
  refine PaysCr.bind (readPascalC_pays 2 d p) fun name p _ => ?_
  refine PaysCr.bind (readLenBlockC_pays0 0 4 2 d p) fun data p _ => ?_
  dsimp only
  exact PaysCr.ite (fun _ => PaysCr.ok _) (fun _ => PaysCr.error _)

theorem resourcesLoop_pays (d : B) (p : Nat) :
    Pays 3 21 d p (readWhileC (isReadableC 4) (optItemC PsdCost.Resource.decC) d p) :=
  readWhileC_pays (cond := isReadable 4) (bi := 15) (cc := 5) (fun q => isReadableC_fst 4 d q) (fun q => isReadableC_w 4 d q)
    (fun q _ => WhileItem.of_pays (a' := 1) (j := 2) (resource_fst d q) (resource_pays d q) (resource_good d q)
      (by decide) (by decide) (by decide)) p

theorem resources_pays (d : B) (p : Nat) : Pays 5 26 d p (resourcesDecC d p) := by
  unfold resourcesDecC
  refine PaysCr.bind (readLenBlockC_pays 4 0 4 1 d p) fun data p _ => ?_
  refine PaysCr.bind_nested (n := 1 + data.length) (Nat.le_of_eq (enterBlock_w data)) fun _ _ => ?_
  refine PaysCr.bind_nested (n := 3 * data.length + 21) (resourcesLoop_pays data 0).w_le fun ⟨items, _⟩ _ => ?_
  exact PaysCr.ok _

/-! ### tagged blocks -/

theorem taggedRest_pays (v pad : Nat) (sig : B) (d : B) (p1 : Nat) :
    Pays 1 5 d p1 (do
      let (key, p2) ← readNC 4 d p1
      let (data, p3) ← readLenBlockC 0 (tbLenW v key) pad d p2
      CE.ok (some (⟨sig, key, data⟩ : TaggedBlock), p3)) := by
  refine PaysCr.bind (readNC_pays 4 d p1) fun key p2 _ => ?_
  refine PaysCr.bind (readLenBlockC_pays0 0 _ pad d p2) fun data p3 _ => ?_
  exact PaysCr.ok _

theorem tagged_whileItem (v pad : Nat) (d : B) (p : Nat) :
    WhileItem 3 20 9 d p (PsdCost.TaggedBlock.decC v pad d p) := by
  have hspec := tagged_spec v pad d p
  rw [← tagged_fst] at hspec
  unfold PsdCost.TaggedBlock.decC at hspec ⊢
  have hc : (readNC 4 d p).2.w ≤ 5 := by
    have : (readNC 4 d p).2.w = 1 + min 4 (d.length - p) := rfl
    omega
  cases h1 : (readNC 4 d p).1 with
  | error e =>
    rw [bind_err' h1]
    unfold WhileItem
    show (readNC 4 d p).2.w + 1 + 9 ≤ _
    omega
  | ok y =>
    obtain ⟨sig, p1⟩ := y
    have a1 := readN_ok (show readN 4 d p = .ok (sig, p1) from h1)
    rw [bind_ok' h1] at hspec ⊢
    dsimp only at hspec ⊢
    split
    · rename_i hsig
      rw [if_pos hsig] at hspec
      have hr := taggedRest_pays v pad sig d p1
      generalize (do
        let (key, p2) ← readNC 4 d p1
        let (data, p3) ← readLenBlockC 0 (tbLenW v key) pad d p2
        CE.ok (some (⟨sig, key, data⟩ : TaggedBlock), p3)) = R at hspec hr ⊢
      unfold WhileItem
      cases hR : R.1 with
      | error e =>
        have h2 := hr.of_error hR
        rw [pot_one] at h2
        show ((readNC 4 d p).2 + R.2).w + 1 + 9 ≤ _
        rw [w_add]
        unfold pot
        omega
      | ok z =>
        obtain ⟨o, p3⟩ := z
        have h2 := hr.of_ok hR
        rw [pot_one, pot_one] at h2
        have hs : TaggedSpec d p (.ok (o, p3)) := by rw [← hR]; exact hspec
        cases o with
        | none =>
          have : p3 = p := hs
          omega
        | some t =>
          have hs' : p + 12 ≤ p3 ∧ p3 ≤ d.length := hs
          show p ≤ p3 ∧ ((readNC 4 d p).2 + R.2).w + 1 + 9 + pot 3 d p3 ≤ pot 3 d p
          rw [w_add]
          unfold pot
          exact ⟨by omega, by omega⟩
    · unfold WhileItem
      show p ≤ p ∧ ((readNC 4 d p).2 + (CE.ok ((none : Option TaggedBlock), p)).2).w + 1 + 9 + pot 3 d p ≤ pot 3 d p + 20
      rw [w_add, ok_w]
      exact ⟨Nat.le_refl _, by omega⟩

theorem taggedCondC_w (endPos : Option Nat) (d : B) (p : Nat) : (taggedCondC endPos d p).2.w ≤ 9 := by
  unfold taggedCondC
  rw [bind_ok' (isReadableC_fst 8 d p)]
  show ((isReadableC 8 d p).2 + (CE.ok _ : CE Bool).2).w ≤ 9
  rw [w_add, ok_w]
  have := isReadableC_w 8 d p
  omega

theorem taggedLoop_pays (v pad : Nat) (endPos : Option Nat) (d : B) (p : Nat) :
    Pays 3 30 d p (readWhileC (taggedCondC endPos) (PsdCost.TaggedBlock.decC v pad) d p) :=
  readWhileC_pays (cond := taggedCond endPos) (bi := 20) (cc := 9) (fun q => taggedCondC_fst endPos d q)
    (fun q => taggedCondC_w endPos d q) (fun q _ => tagged_whileItem v pad d q) p

theorem taggedBlocks_pays (v pad : Nat) (endPos : Option Nat) (d : B) (p : Nat) :
    Pays 3 30 d p (taggedBlocksDecC v pad endPos d p) := by
  unfold taggedBlocksDecC
  refine PaysCr.bind (taggedLoop_pays v pad endPos d p) fun items p _ => ?_
  exact PaysCr.ok _

/-! ### mask data -/

theorem readOptC_pays (c : Bool) (w : Nat) (d : B) (p : Nat) : Pays 1 1 d p (readOptC c w d p) := by
  unfold readOptC
  split
  · refine PaysCr.bind (readUC_pays w d p) fun n p' _ => ?_
    exact PaysCr.ok _
  · exact PaysCr.ok _

theorem maskParameters_pays (d : B) (p : Nat) : Pays 1 5 d p (PsdCost.MaskParameters.decC d p) := by
  unfold PsdCost.MaskParameters.decC
  refine PaysCr.bind (readUC_pays 1 d p) fun ps p _ => ?_
  refine PaysCr.bind (readOptC_pays _ 1 d p) fun a p _ => ?_
  refine PaysCr.bind (readOptC_pays _ 8 d p) fun b p _ => ?_
  refine PaysCr.bind (readOptC_pays _ 1 d p) fun c p _ => ?_
  refine PaysCr.bind (readOptC_pays _ 8 d p) fun e p _ => ?_
  exact PaysCr.ok _

theorem maskReal_pays (d : B) (p : Nat) : Pays 1 6 d p (PsdCost.MaskReal.decC d p) := by
  unfold PsdCost.MaskReal.decC
  refine PaysCr.bind (readUC_pays 1 d p) fun fl p _ => ?_
  refine PaysCr.bind (readUC_pays 1 d p) fun bg p _ => ?_
  refine PaysCr.bind (readI32C_pays d p) fun top p _ => ?_
  refine PaysCr.bind (readI32C_pays d p) fun left p _ => ?_
  refine PaysCr.bind (readI32C_pays d p) fun bottom p _ => ?_
  refine PaysCr.bind (readI32C_pays d p) fun right p _ => ?_
  exact PaysCr.ok _

theorem maskBody_pays (length : Nat) (d : B) (p : Nat) : Pays 1 17 d p (PsdCost.MaskData.bodyDecC length d p) := by
  unfold PsdCost.MaskData.bodyDecC
  refine PaysCr.bind (readI32C_pays d p) fun top p _ => ?_
  refine PaysCr.bind (readI32C_pays d p) fun left p _ => ?_
  refine PaysCr.bind (readI32C_pays d p) fun bottom p _ => ?_
  refine PaysCr.bind (readI32C_pays d p) fun right p _ => ?_
  refine PaysCr.bind (readUC_pays 1 d p) fun bg p _ => ?_
  refine PaysCr.bind (readUC_pays 1 d p) fun fl p _ => ?_
  refine PaysCr.bind (b₁ := 6)
    (PaysCr.ite (fun _ => optItemC_pays (maskReal_pays d p)) (fun _ => PaysCr.ok _)) fun real p _ => ?_
  refine PaysCr.bind (b₁ := 5)
    (PaysCr.ite (fun _ => optItemC_pays (maskParameters_pays d p)) (fun _ => PaysCr.ok _)) fun ps p _ => ?_
  exact PaysCr.ok _

theorem mask_pays (d : B) (p : Nat) : Pays 3 22 d p (maskDecC d p) := by
  unfold maskDecC
  refine PaysCr.bind (readLenBlockC_pays 2 0 4 1 d p) fun data p _ => ?_
  dsimp only
  refine PaysCr.ite (fun _ => PaysCr.ok _) (fun _ => ?_)
  refine PaysCr.bind_nested (n := 1 + data.length) (Nat.le_of_eq (enterBlock_w data)) fun _ _ => ?_
  refine PaysCr.bind_nested (n := 1 * data.length + 17) (maskBody_pays data.length data 0).w_le fun ⟨m, _⟩ _ => ?_
  exact PaysCr.ok _

/-! ### blending ranges -/

theorem range4_pays (d : B) (p : Nat) : Pays 1 4 d p (PsdCost.Range4.decC d p) := by
  unfold PsdCost.Range4.decC
  refine PaysCr.bind (readUC_pays 2 d p) fun a p _ => ?_
  refine PaysCr.bind (readUC_pays 2 d p) fun b p _ => ?_
  refine PaysCr.bind (readUC_pays 2 d p) fun c p _ => ?_
  refine PaysCr.bind (readUC_pays 2 d p) fun e p _ => ?_
  exact PaysCr.ok _

theorem rangesLoop_pays (d : B) (p : Nat) :
    Pays 3 24 d p (readWhileC (isReadableC 8) (optItemC PsdCost.Range4.decC) d p) :=
  readWhileC_pays (cond := isReadable 8) (bi := 14) (cc := 9) (fun q => isReadableC_fst 8 d q) (fun q => isReadableC_w 8 d q)
    (fun q _ => WhileItem.of_pays (a' := 1) (j := 2) (range4_fst d q) (range4_pays d q) (range4_good d q)
      (by decide) (by decide) (by decide)) p

theorem blendingRanges_pays (d : B) (p : Nat) : Pays 6 33 d p (PsdCost.BlendingRanges.decC d p) := by
  unfold PsdCost.BlendingRanges.decC
  refine PaysCr.bind (readLenBlockC_pays 5 0 4 1 d p) fun data p _ => ?_
  dsimp only
  refine PaysCr.ite (fun _ => PaysCr.ok _) (fun _ => ?_)
  refine PaysCr.bind_nested (n := 1 + data.length) (Nat.le_of_eq (enterBlock_w data)) fun _ _ => ?_
  refine PaysCr.bind_nested (n := 1 * data.length + 4) (range4_pays data 0).w_le fun ⟨comp, q⟩ _ => ?_
  refine PaysCr.bind_nested (n := 3 * data.length + 24) (rangesLoop_pays data q).w_le fun ⟨chans, _⟩ _ => ?_
  exact PaysCr.ok _

/-! ### layer records -/

theorem channelInfo_pays (v : Nat) (d : B) (p : Nat) : Pays 1 2 d p (PsdCost.ChannelInfo.decC v d p) := by
  unfold PsdCost.ChannelInfo.decC
  refine PaysCr.bind (readI16C_pays d p) fun id p _ => ?_
  refine PaysCr.bind (readUC_pays _ d p) fun len p _ => ?_
  dsimp only
  exact PaysCr.ite (fun _ => PaysCr.ok _) (fun _ => PaysCr.error _)

theorem channelInfo_iter (v : Nat) (d : B) (p : Nat) : IterPays 3 3 0 0 d p (PsdCost.ChannelInfo.decC v d p) :=
  IterPays.of_pays (a' := 1) (j := 2) (k := 2) (channelInfo_pays v d p)
    (by rw [channelInfo_fst]; exact channelInfo_good v d p) (by decide) (by decide) (by decide)

theorem extra_pays (v : Nat) (d : B) (p : Nat) : Pays 6 88 d p (PsdCost.LayerRecord.extraDecC v d p) := by
  unfold PsdCost.LayerRecord.extraDecC
  refine PaysCr.bind (mask_pays d p) fun mask p _ => ?_
  refine PaysCr.bind (blendingRanges_pays d p) fun ranges p _ => ?_
  refine PaysCr.bind (readPascalC_pays 4 d p) fun name p _ => ?_
  refine PaysCr.bind (taggedBlocks_pays v 1 none d p) fun tbs p _ => ?_
  exact PaysCr.ok _

theorem layerRecord_pays (v : Nat) (d : B) (p : Nat) : Pays 8 106 d p (PsdCost.LayerRecord.decC v d p) := by
  unfold PsdCost.LayerRecord.decC
  refine PaysCr.bind (readI32C_pays d p) fun top p _ => ?_
  refine PaysCr.bind (readI32C_pays d p) fun left p _ => ?_
  refine PaysCr.bind (readI32C_pays d p) fun bottom p _ => ?_
  refine PaysCr.bind (readI32C_pays d p) fun right p _ => ?_
  refine PaysCr.bind (readUC_pays 2 d p) fun n p _ => ?_
  refine PaysCr.bind ((readCountC_pays (fun q => channelInfo_iter v d q) n p).weaken (cr' := fun _ => 0)
    (fun _ => Nat.zero_le _) (b' := 3) (by omega)) fun cis p _ => ?_
  refine PaysCr.bind (readNC_pays 4 d p) fun sig p _ => ?_
  refine PaysCr.bind (readNC_pays 4 d p) fun bm p _ => ?_
  refine PaysCr.bind (readUC_pays 1 d p) fun opacity p _ => ?_
  refine PaysCr.bind (readUC_pays 1 d p) fun clipping p _ => ?_
  refine PaysCr.bind (readUC_pays 1 d p) fun fl p _ => ?_
  refine PaysCr.bind (readLenBlockC_pays 7 1 4 1 d p) fun data p _ => ?_
  refine PaysCr.bind_nested (n := 1 + data.length) (Nat.le_of_eq (enterBlock_w data)) fun _ _ => ?_
  refine PaysCr.bind_nested (n := 6 * data.length + 88) (extra_pays v data 0).w_le
    fun ⟨⟨mask, ranges, name, tbs⟩, _⟩ _ => ?_
  dsimp only
  exact PaysCr.ite (fun _ => PaysCr.ok _) (fun _ => PaysCr.error _)

/-- a record pays for its iteration and leaves 4 for its entry in the channel image loop -/
theorem layerRecord_iter (v : Nat) (d : B) (p : Nat) : IterPays 12 107 4 0 d p (PsdCost.LayerRecord.decC v d p) :=
  IterPays.of_pays (a' := 8) (j := 4) (k := 34) (layerRecord_pays v d p)
    (by rw [layerRecord_fst]; exact layerRecord_good v d p) (by decide) (by decide) (by decide)

/-! ### channel image data -/

theorem channelData_pays (ciLength : Nat) (d : B) (p : Nat) : Pays 1 2 d p (PsdCost.ChannelData.decC ciLength d p) := by
  unfold PsdCost.ChannelData.decC
  refine PaysCr.bind (readUC_pays 2 d p) fun comp p _ => ?_
  dsimp only
  refine PaysCr.ite (fun _ => ?_) (fun _ => PaysCr.error _)
  refine PaysCr.bind (readPyC_pays _ d p) fun data p _ => ?_
  exact PaysCr.ok _

theorem channelData_iter (ciLength : Nat) (d : B) (p : Nat) :
    IterPays 3 3 0 0 d p (PsdCost.ChannelData.decC ciLength d p) :=
  IterPays.of_pays (a' := 1) (j := 2) (k := 2) (channelData_pays ciLength d p)
    (by rw [channelData_fst]; exact channelData_good ciLength d p) (by decide) (by decide) (by decide)

theorem channelList_pays (cis : List ChannelInfo) (d : B) (p : Nat) : Pays 3 3 d p (channelListDecC cis d p) := by
  unfold channelListDecC
  exact (readForC_pays cis (fun ci _ q => channelData_iter ci.length d q) p).weaken (fun _ => Nat.zero_le _) (by omega)

theorem channelImage_pays (rs : List LayerRecord) (d : B) (p : Nat) :
    Pays 3 (4 + 4 * rs.length) d p (channelImageDecC rs d p) := by
  unfold channelImageDecC
  exact (readForC_pays rs (fun r _ q => IterPays.of_pays0 (channelList_pays r.channelInfo d q)) p).weaken
    (fun _ => Nat.zero_le _) (Nat.le_refl _)

/-! ### layer info, global layer mask info, layer and mask information -/

theorem layerInfoBody_pays (v : Nat) (d : B) (p : Nat) : Pays 12 112 d p (PsdCost.LayerInfo.bodyDecC v d p) := by
  unfold PsdCost.LayerInfo.bodyDecC
  refine PaysCr.bind (readI16C_pays d p) fun count p _ => ?_
  refine PaysCr.bind ((readCountC_pays (fun q => layerRecord_iter v d q) count.natAbs p).weaken
    (cr' := fun vs => 4 * vs.length) (fun _ => Nat.le_refl _) (b' := 107) (by omega)) (fun records p _ => ?_)
    (by decide)
  refine PaysCr.bind (channelImage_pays records d p) fun channels p _ => ?_
  exact PaysCr.ok _

theorem layerInfo_pays (v : Nat) (d : B) (p : Nat) : Pays 12 113 d p (PsdCost.LayerInfo.decC v d p) := by
  unfold PsdCost.LayerInfo.decC
  refine PaysCr.bind (readUC_pays _ d p) fun length p1 _ => ?_
  dsimp only
  refine PaysCr.bind (a' := 12) (b₁ := 112) (cr := fun _ => 0) ?_ (fun li p2 _ => ?_) (by decide)
  · refine PaysCr.ite (fun _ => PaysCr.ok _) (fun _ => ?_)
    refine PaysCr.bind (layerInfoBody_pays v d p1) (fun li p _ => ?_) (by decide)
    exact PaysCr.ok _
  · dsimp only
    refine PaysCr.ite (fun hle => ?_) (fun _ => PaysCr.error _)
    exact PaysCr.ite (fun _ => PaysCr.error _) (fun _ => PaysCr.ok _ hle)

/-- `GlobalLayerMaskInfo.read`, including the rewind of a block shorter than 13 bytes -/
theorem globalMask_pays (d : B) (p : Nat) : Pays 6 40 d p (PsdCost.GlobalLayerMaskInfo.decC d p) := by
  unfold PsdCost.GlobalLayerMaskInfo.decC
  refine PaysCr.bind_or (W := 30) (readLenBlockC_pays 5 0 4 1 d p) fun data p1 h1 => ?_
  dsimp only
  by_cases h0 : data.length = 0
  · rw [if_pos h0]; exact Or.inl (PaysCr.ok _)
  · rw [if_neg h0]
    by_cases h13 : data.length < 13
    · rw [if_pos h13]
      refine Or.inr ⟨?_, PaysCr.ok _⟩
      have hp : readLenBlock 0 4 1 d p = .ok (data, p1) := by rw [← readLenBlockC_fst]; exact h1
      have a1 := readLenBlock_adv_le hp
      have a2 := readLenBlock_ok hp
      have h2 := (readLenBlockC_pays0 0 4 1 d p).of_ok h1
      rw [pot_one, pot_one] at h2
      omega
    · rw [if_neg h13]
      refine Or.inl ?_
      have hit : ∀ q, IterPays 2 2 0 0 data q (readUC 2 data q) := fun q =>
        IterPays.of_pays (a' := 1) (j := 1) (k := 2) (readUC_pays 2 data q)
          (by rw [readUC_fst]; exact readU_good 2 data q) (by decide) (by decide) (by decide)
      refine PaysCr.bind_nested (n := 1 + data.length) (Nat.le_of_eq (enterBlock_w data)) fun _ _ => ?_
      refine PaysCr.bind_nested (n := 2 * data.length + (2 + 0 * 5)) (readCountC_pays hit 5 0).w_le fun ⟨cs, q⟩ _ => ?_
      refine PaysCr.bind_nested (n := 1 * data.length + 1) (readUC_pays 2 data q).w_le fun ⟨opacity, q⟩ _ => ?_
      refine PaysCr.bind_nested (n := 1 * data.length + 1) (readUC_pays 1 data q).w_le fun ⟨kind, _⟩ _ => ?_
      dsimp only
      exact PaysCr.ite (fun _ => PaysCr.ok _) (fun _ => PaysCr.error _)

theorem layerAndMaskBody_pays (v endPos : Nat) (d : B) (p : Nat) :
    Pays 12 183 d p (PsdCost.LayerAndMask.bodyDecC v endPos d p) := by
  unfold PsdCost.LayerAndMask.bodyDecC
  refine PaysCr.bind (layerInfo_pays v d p) (fun li p _ => ?_) (by decide)
  dsimp only
  refine PaysCr.ite (fun _ => ?_) (fun _ => PaysCr.ok _)
  refine PaysCr.bind (globalMask_pays d p) fun glm p _ => ?_
  refine PaysCr.bind (taggedBlocks_pays v 4 (some endPos) d p) fun tbs p _ => ?_
  exact PaysCr.ok _

/-- `LayerAndMaskInformation.read` ends with `fp.seek(end_pos)`, possibly BACKWARDS: only what was spent
is bounded, not the potential left -/
theorem layerAndMask_spend (v : Nat) (d : B) (p : Nat) : Spend 12 184 d p (PsdCost.LayerAndMask.decC v d p) := by
  unfold PsdCost.LayerAndMask.decC
  refine Spend.bind (readUC_pays _ d p) fun length p1 _ => ?_
  dsimp only
  refine Spend.bind_free ?_ (fun ⟨x, _⟩ => ?_)
  · split
    · exact (PaysCr.ok (cr := fun _ => 0) (a := 12) (b := 183) (d := d) (p := p1) (q := p1) _).spend
    · exact (layerAndMaskBody_pays v _ d p1).spend
  · dsimp only
    split <;> rfl

theorem imageData_pays (d : B) (p : Nat) : Pays 1 2 d p (PsdCost.ImageData.decC d p) := by
  unfold PsdCost.ImageData.decC
  refine PaysCr.bind (readUC_pays 2 d p) fun comp p _ => ?_
  dsimp only
  refine PaysCr.ite (fun _ => ?_) (fun _ => PaysCr.error _)
  refine PaysCr.bind (readAllC_pays d p) fun data p _ => ?_
  exact PaysCr.ok _

/-! ### the whole file -/

/-- a step whose cost is bounded outright (used for what follows the backward seek) -/
theorem Spend.bind_spend {α γ : Type} {a b b₁ n : Nat} {d : B} {p : Nat} {m : CE γ} {f : γ → CE α}
    (hm : Spend a b₁ d p m) (hf : ∀ y, m.1 = .ok y → (f y).2.w ≤ n) (hb : b₁ + n ≤ b := by omega) :
    Spend a b d p (m >>= f) := by
  unfold Spend at hm ⊢
  cases hm1 : m.1 with
  | error e' =>
    rw [bind_err' hm1]
    show m.2.w ≤ _
    omega
  | ok y =>
    rw [bind_ok' hm1]
    have := hf y hm1
    show (m.2 + (f y).2).w ≤ _
    rw [w_add]
    omega

theorem psd_spend (b : B) : Spend 12 (224 + b.length) b 0 (PsdCost.PSD.readC b 0) := by
  unfold PsdCost.PSD.readC
  refine Spend.bind (header_pays b 0) fun header p1 _ => ?_
  refine Spend.bind (colorMode_pays b p1) fun cmd p2 _ => ?_
  refine Spend.bind (resources_pays b p2) fun res p3 _ => ?_
  refine Spend.bind_spend (n := b.length + 2) (layerAndMask_spend header.version b p3) fun ⟨lm, p4⟩ _ => ?_
  have hi := (imageData_pays b p4).spend
  refine Nat.le_trans (m := pot 1 b p4 + 2) ?_ (by rw [pot_one]; omega)
  show Spend 1 2 b p4 _
  exact Spend.bind_free hi (fun ⟨img, p⟩ => rfl)

theorem psd_w_le (b : B) : (PsdCost.PSD.readC b 0).2.w ≤ 13 * b.length + 224 := by
  have h := psd_spend b
  unfold Spend pot at h
  omega

end PsdVerif.SafeCost
