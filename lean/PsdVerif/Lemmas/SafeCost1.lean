/-
C06 — the counting interpreter erases to the plain reader: `(X.decC d p).1 = X.dec d p` for every reader
of `Model/PsdCost.lean` (it IS the same reader; only the costs were added).
-/
import PsdVerif.Model.PsdCost

namespace PsdVerif.SafeCost
open PsdVerif PsdVerif.Codec PsdVerif.Psd PsdVerif.PsdCost

/-! ### the monad -/

theorem bind_fst {α β : Type} (m : CE β) (f : β → CE α) :
    (m >>= f).1 = (match m.1 with | .ok a => (f a).1 | .error e => .error e) := by
  show (CE.bind m f).1 = _
  unfold CE.bind
  cases m.1 <;> rfl

theorem bind_snd {α β : Type} (m : CE β) (f : β → CE α) :
    (m >>= f).2 = (match m.1 with | .ok a => m.2 + (f a).2 | .error _ => m.2) := by
  show (CE.bind m f).2 = _
  unfold CE.bind
  cases m.1 <;> rfl

theorem erase_bind {α β : Type} {mc : CE β} {m : Except Err β} {fc : β → CE α} {f : β → Except Err α}
    (hm : mc.1 = m) (hf : ∀ x, (fc x).1 = f x) : (mc >>= fc).1 = (m >>= f) := by
  subst hm
  rw [bind_fst]
  cases h : mc.1 with
  | error e => rfl
  | ok a => exact hf a

/-- a step that always succeeds (`tick`, `enterBlock`, a loop condition) -/
theorem erase_ok {α β : Type} {u : CE β} {b : β} {fc : β → CE α} {r : Except Err α}
    (hu : u.1 = .ok b) (hf : (fc b).1 = r) : (u >>= fc).1 = r := by
  rw [bind_fst, hu]; exact hf

theorem tick_fst : tick.1 = .ok () := rfl
theorem enterBlock_fst (data : B) : (enterBlock data).1 = .ok () := rfl

/-! ### primitives -/

theorem readNC_fst (n : Nat) (d : B) (p : Nat) : (readNC n d p).1 = readN n d p := rfl
theorem readUpToC_fst (n : Nat) (d : B) (p : Nat) : (readUpToC n d p).1 = readUpTo n d p := rfl
theorem readAllC_fst (d : B) (p : Nat) : (readAllC d p).1 = readAll d p := rfl
theorem isReadableC_fst (n : Nat) (d : B) (p : Nat) : (isReadableC n d p).1 = .ok (isReadable n d p) := rfl

theorem readPyC_fst (n : Int) (d : B) (p : Nat) : (readPyC n d p).1 = readPy n d p := by
  unfold readPyC readPy
  split
  · rfl
  · split <;> rfl

theorem readUC_fst (w : Nat) (d : B) (p : Nat) : (readUC w d p).1 = readU w d p := by
  unfold readUC readU
  rw [bind_fst, readNC_fst]
  cases readN w d p with
  | error e => rfl
  | ok x => rfl

theorem readI16C_fst (d : B) (p : Nat) : (readI16C d p).1 = readI16 d p := by
  unfold readI16C readI16
  rw [bind_fst, readUC_fst]
  cases readU 2 d p with
  | error e => rfl
  | ok x => rfl

theorem readI32C_fst (d : B) (p : Nat) : (readI32C d p).1 = readI32 d p := by
  unfold readI32C readI32
  rw [bind_fst, readUC_fst]
  cases readU 4 d p with
  | error e => rfl
  | ok x => rfl

theorem readPaddingC_fst (size divisor : Nat) (d : B) (p : Nat) :
    (readPaddingC size divisor d p).1 = readPadding size divisor d p := by
  unfold readPaddingC readPadding
  rw [bind_fst, readUpToC_fst]
  cases readUpTo (padAmount size divisor) d p with
  | error e => rfl
  | ok x => rfl

theorem readLenBlockC_fst (skip w pad : Nat) (d : B) (p : Nat) :
    (readLenBlockC skip w pad d p).1 = readLenBlock skip w pad d p := by
  unfold readLenBlockC readLenBlock
  rw [bind_fst, readNC_fst]
  cases readN skip d p with
  | error e => rfl
  | ok x0 =>
    obtain ⟨y, p0⟩ := x0
    simp only
    rw [bind_fst, readUC_fst]
    cases readU w d p0 with
    | error e => rfl
    | ok x1 =>
      obtain ⟨n, p1⟩ := x1
      simp only
      split
      · rfl
      · rw [bind_fst, readUpToC_fst]
        cases readUpTo n d p1 with
        | error e => rfl
        | ok x2 =>
          obtain ⟨x, p2⟩ := x2
          simp only
          split
          · rfl
          · rw [bind_fst, readPaddingC_fst]
            cases readPadding n pad d p2 with
            | error e => rfl
            | ok x3 => rfl

theorem readPascalC_fst (pad : Nat) (d : B) (p : Nat) : (readPascalC pad d p).1 = readPascal pad d p := by
  unfold readPascalC readPascal
  rw [bind_fst, readUC_fst]
  cases readU 1 d p with
  | error e => rfl
  | ok x1 =>
    obtain ⟨n, p1⟩ := x1
    simp only
    rw [bind_fst, readUpToC_fst]
    cases readUpTo n d p1 with
    | error e => rfl
    | ok x2 =>
      obtain ⟨x, p2⟩ := x2
      simp only
      split
      · rfl
      · rw [bind_fst, readPaddingC_fst]
        cases readPadding (p2 - p) pad d p2 with
        | error e => rfl
        | ok x3 => rfl

/-! ### loops -/

theorem optItemC_fst {α : Type} {itemC : RC α} {item : R α} (hi : ∀ d p, (itemC d p).1 = item d p) (d : B) (p : Nat) :
    (optItemC itemC d p).1 = optItem item d p := by
  unfold optItemC optItem
  rw [bind_fst, hi]
  cases item d p with
  | error e => rfl
  | ok x => rfl

theorem readCountC_fst {α : Type} {itemC : RC α} {item : R α} (hi : ∀ d p, (itemC d p).1 = item d p)
    (n : Nat) (d : B) (p : Nat) : (readCountC itemC n d p).1 = readCount item n d p := by
  induction n generalizing p with
  | zero => rfl
  | succ n ih =>
    unfold readCountC readCount
    refine erase_ok tick_fst ?_
    rw [bind_fst, hi]
    cases item d p with
    | error e => rfl
    | ok x =>
      obtain ⟨a, p1⟩ := x
      simp only
      rw [bind_fst, ih]
      cases readCount item n d p1 with
      | error e => rfl
      | ok y => rfl

theorem readForC_fst {α β : Type} {itemC : β → RC α} {item : β → R α} (xs : List β)
    (hi : ∀ x ∈ xs, ∀ d p, (itemC x d p).1 = item x d p)
    (d : B) (p : Nat) : (readForC itemC xs d p).1 = readFor item xs d p := by
  induction xs generalizing p with
  | nil => rfl
  | cons x xs ih =>
    unfold readForC readFor
    refine erase_ok tick_fst ?_
    rw [bind_fst, hi x (by simp)]
    cases item x d p with
    | error e => rfl
    | ok y =>
      obtain ⟨a, p1⟩ := y
      simp only
      rw [bind_fst, ih (fun z hz => hi z (by simp [hz]))]
      cases readFor item xs d p1 with
      | error e => rfl
      | ok z => rfl

theorem readWhileFuelC_fst {α : Type} {condC : B → Nat → CE Bool} {cond : B → Nat → Bool} {itemC : RC (Option α)}
    {item : R (Option α)} (hc : ∀ d p, (condC d p).1 = .ok (cond d p)) (hi : ∀ d p, (itemC d p).1 = item d p)
    (fuel : Nat) (d : B) (p : Nat) : (readWhileFuelC condC itemC fuel d p).1 = readWhileFuel cond item fuel d p := by
  induction fuel generalizing p with
  | zero => rfl
  | succ fuel ih =>
    unfold readWhileFuelC readWhileFuel
    refine erase_ok tick_fst ?_
    refine erase_ok (hc d p) ?_
    split
    · rw [bind_fst, hi]
      cases item d p with
      | error e => rfl
      | ok x =>
        obtain ⟨o, p1⟩ := x
        cases o with
        | none => rfl
        | some a =>
          simp only
          rw [bind_fst, ih]
          cases readWhileFuel cond item fuel d p1 with
          | error e => rfl
          | ok y => rfl
    · rfl

theorem readWhileC_fst {α : Type} {condC : B → Nat → CE Bool} {cond : B → Nat → Bool} {itemC : RC (Option α)}
    {item : R (Option α)} (hc : ∀ d p, (condC d p).1 = .ok (cond d p)) (hi : ∀ d p, (itemC d p).1 = item d p)
    (d : B) (p : Nat) : (readWhileC condC itemC d p).1 = readWhile cond item d p :=
  readWhileFuelC_fst hc hi _ d p

/-! ### the skeleton -/

theorem header_fst (d : B) (p : Nat) : (PsdCost.Header.decC d p).1 = Header.dec d p := by
  unfold PsdCost.Header.decC Header.dec
  refine erase_bind (readNC_fst ..) fun ⟨sig, p⟩ => ?_
  refine erase_bind (readUC_fst ..) fun ⟨version, p⟩ => ?_
  refine erase_bind (readNC_fst ..) fun ⟨_, p⟩ => ?_
  refine erase_bind (readUC_fst ..) fun ⟨channels, p⟩ => ?_
  refine erase_bind (readUC_fst ..) fun ⟨height, p⟩ => ?_
  refine erase_bind (readUC_fst ..) fun ⟨width, p⟩ => ?_
  refine erase_bind (readUC_fst ..) fun ⟨depth, p⟩ => ?_
  refine erase_bind (readUC_fst ..) fun ⟨cm, p⟩ => ?_
  dsimp only
  split <;> rfl

theorem colorMode_fst (d : B) (p : Nat) : (colorModeDecC d p).1 = colorModeDec d p := readLenBlockC_fst 0 4 1 d p

theorem resource_fst (d : B) (p : Nat) : (PsdCost.Resource.decC d p).1 = Resource.dec d p := by
  unfold PsdCost.Resource.decC Resource.dec
  refine erase_bind (readNC_fst ..) fun ⟨sig, p⟩ => ?_
  refine erase_bind (readUC_fst ..) fun ⟨key, p⟩ => ?_
  refine erase_bind (readPascalC_fst ..) fun ⟨name, p⟩ => ?_
  refine erase_bind (readLenBlockC_fst ..) fun ⟨data, p⟩ => ?_
  dsimp only
  split <;> rfl

theorem resourcesLoop_fst (d : B) (p : Nat) :
    (readWhileC (isReadableC 4) (optItemC PsdCost.Resource.decC) d p).1 = readWhile (isReadable 4) (optItem Resource.dec) d p :=
  readWhileC_fst (isReadableC_fst 4) (optItemC_fst resource_fst) d p

theorem resources_fst (d : B) (p : Nat) : (resourcesDecC d p).1 = resourcesDec d p := by
  unfold resourcesDecC resourcesDec
  refine erase_bind (readLenBlockC_fst ..) fun ⟨data, p⟩ => ?_
  refine erase_ok (enterBlock_fst data) ?_
  refine erase_bind (resourcesLoop_fst data 0) fun ⟨items, _⟩ => ?_
  rfl

theorem tagged_fst (v pad : Nat) (d : B) (p : Nat) : (PsdCost.TaggedBlock.decC v pad d p).1 = TaggedBlock.dec v pad d p := by
  unfold PsdCost.TaggedBlock.decC TaggedBlock.dec
  refine erase_bind (readNC_fst ..) fun ⟨sig, p1⟩ => ?_
  dsimp only
  split
  · refine erase_bind (readNC_fst ..) fun ⟨key, p2⟩ => ?_
    refine erase_bind (readLenBlockC_fst ..) fun ⟨data, p3⟩ => ?_
    rfl
  · rfl

theorem taggedCondC_fst (endPos : Option Nat) (d : B) (p : Nat) : (taggedCondC endPos d p).1 = .ok (taggedCond endPos d p) := by
  unfold taggedCondC taggedCond
  exact erase_ok (isReadableC_fst 8 d p) rfl

theorem taggedLoop_fst (v pad : Nat) (endPos : Option Nat) (d : B) (p : Nat) :
    (readWhileC (taggedCondC endPos) (PsdCost.TaggedBlock.decC v pad) d p).1 =
      readWhile (taggedCond endPos) (TaggedBlock.dec v pad) d p :=
  readWhileC_fst (taggedCondC_fst endPos) (tagged_fst v pad) d p

theorem taggedBlocks_fst (v pad : Nat) (endPos : Option Nat) (d : B) (p : Nat) :
    (taggedBlocksDecC v pad endPos d p).1 = taggedBlocksDec v pad endPos d p := by
  unfold taggedBlocksDecC taggedBlocksDec
  refine erase_bind (taggedLoop_fst ..) fun ⟨items, p⟩ => ?_
  rfl

theorem readOptC_fst (c : Bool) (w : Nat) (d : B) (p : Nat) : (readOptC c w d p).1 = readOpt c w d p := by
  unfold readOptC readOpt
  split
  · rw [bind_fst, readUC_fst]
    cases readU w d p with
    | error e => rfl
    | ok x => rfl
  · rfl

theorem maskParameters_fst (d : B) (p : Nat) : (PsdCost.MaskParameters.decC d p).1 = MaskParameters.dec d p := by
  unfold PsdCost.MaskParameters.decC MaskParameters.dec
  refine erase_bind (readUC_fst ..) fun ⟨ps, p⟩ => ?_
  refine erase_bind (readOptC_fst ..) fun ⟨a, p⟩ => ?_
  refine erase_bind (readOptC_fst ..) fun ⟨b, p⟩ => ?_
  refine erase_bind (readOptC_fst ..) fun ⟨c, p⟩ => ?_
  refine erase_bind (readOptC_fst ..) fun ⟨e, p⟩ => ?_
  rfl

theorem maskReal_fst (d : B) (p : Nat) : (PsdCost.MaskReal.decC d p).1 = MaskReal.dec d p := by
  unfold PsdCost.MaskReal.decC MaskReal.dec
  refine erase_bind (readUC_fst ..) fun ⟨fl, p⟩ => ?_
  refine erase_bind (readUC_fst ..) fun ⟨bg, p⟩ => ?_
  refine erase_bind (readI32C_fst ..) fun ⟨top, p⟩ => ?_
  refine erase_bind (readI32C_fst ..) fun ⟨left, p⟩ => ?_
  refine erase_bind (readI32C_fst ..) fun ⟨bottom, p⟩ => ?_
  refine erase_bind (readI32C_fst ..) fun ⟨right, p⟩ => ?_
  rfl

theorem maskBody_fst (length : Nat) (d : B) (p : Nat) : (PsdCost.MaskData.bodyDecC length d p).1 = MaskData.bodyDec length d p := by
  unfold PsdCost.MaskData.bodyDecC MaskData.bodyDec
  refine erase_bind (readI32C_fst ..) fun ⟨top, p⟩ => ?_
  refine erase_bind (readI32C_fst ..) fun ⟨left, p⟩ => ?_
  refine erase_bind (readI32C_fst ..) fun ⟨bottom, p⟩ => ?_
  refine erase_bind (readI32C_fst ..) fun ⟨right, p⟩ => ?_
  refine erase_bind (readUC_fst ..) fun ⟨bg, p⟩ => ?_
  refine erase_bind (readUC_fst ..) fun ⟨fl, p⟩ => ?_
  refine erase_bind ?_ fun ⟨real, p⟩ => ?_
  · split
    · exact optItemC_fst maskReal_fst d p
    · rfl
  refine erase_bind ?_ fun ⟨ps, p⟩ => ?_
  · split
    · exact optItemC_fst maskParameters_fst d p
    · rfl
  rfl

theorem mask_fst (d : B) (p : Nat) : (maskDecC d p).1 = maskDec d p := by
  unfold maskDecC maskDec
  refine erase_bind (readLenBlockC_fst ..) fun ⟨data, p⟩ => ?_
  dsimp only
  split
  · rfl
  · refine erase_ok (enterBlock_fst data) ?_
    refine erase_bind (maskBody_fst ..) fun ⟨m, _⟩ => ?_
    rfl

theorem range4_fst (d : B) (p : Nat) : (PsdCost.Range4.decC d p).1 = Range4.dec d p := by
  unfold PsdCost.Range4.decC Range4.dec
  refine erase_bind (readUC_fst ..) fun ⟨a, p⟩ => ?_
  refine erase_bind (readUC_fst ..) fun ⟨b, p⟩ => ?_
  refine erase_bind (readUC_fst ..) fun ⟨c, p⟩ => ?_
  refine erase_bind (readUC_fst ..) fun ⟨e, p⟩ => ?_
  rfl

theorem rangesLoop_fst (d : B) (p : Nat) :
    (readWhileC (isReadableC 8) (optItemC PsdCost.Range4.decC) d p).1 = readWhile (isReadable 8) (optItem Range4.dec) d p :=
  readWhileC_fst (isReadableC_fst 8) (optItemC_fst range4_fst) d p

theorem blendingRanges_fst (d : B) (p : Nat) : (PsdCost.BlendingRanges.decC d p).1 = BlendingRanges.dec d p := by
  unfold PsdCost.BlendingRanges.decC BlendingRanges.dec
  refine erase_bind (readLenBlockC_fst ..) fun ⟨data, p⟩ => ?_
  dsimp only
  split
  · rfl
  · refine erase_ok (enterBlock_fst data) ?_
    refine erase_bind (range4_fst ..) fun ⟨comp, q⟩ => ?_
    refine erase_bind (rangesLoop_fst ..) fun ⟨chans, _⟩ => ?_
    rfl

theorem channelInfo_fst (v : Nat) (d : B) (p : Nat) : (PsdCost.ChannelInfo.decC v d p).1 = ChannelInfo.dec v d p := by
  unfold PsdCost.ChannelInfo.decC ChannelInfo.dec
  refine erase_bind (readI16C_fst ..) fun ⟨id, p⟩ => ?_
  refine erase_bind (readUC_fst ..) fun ⟨len, p⟩ => ?_
  dsimp only
  split <;> rfl

theorem extra_fst (v : Nat) (d : B) (p : Nat) : (PsdCost.LayerRecord.extraDecC v d p).1 = LayerRecord.extraDec v d p := by
  unfold PsdCost.LayerRecord.extraDecC LayerRecord.extraDec
  refine erase_bind (mask_fst ..) fun ⟨mask, p⟩ => ?_
  refine erase_bind (blendingRanges_fst ..) fun ⟨ranges, p⟩ => ?_
  refine erase_bind (readPascalC_fst ..) fun ⟨name, p⟩ => ?_
  refine erase_bind (taggedBlocks_fst ..) fun ⟨tbs, p⟩ => ?_
  rfl

theorem layerRecord_fst (v : Nat) (d : B) (p : Nat) : (PsdCost.LayerRecord.decC v d p).1 = LayerRecord.dec v d p := by
  unfold PsdCost.LayerRecord.decC LayerRecord.dec
  refine erase_bind (readI32C_fst ..) fun ⟨top, p⟩ => ?_
  refine erase_bind (readI32C_fst ..) fun ⟨left, p⟩ => ?_
  refine erase_bind (readI32C_fst ..) fun ⟨bottom, p⟩ => ?_
  refine erase_bind (readI32C_fst ..) fun ⟨right, p⟩ => ?_
  refine erase_bind (readUC_fst ..) fun ⟨n, p⟩ => ?_
  refine erase_bind (readCountC_fst (channelInfo_fst v) ..) fun ⟨cis, p⟩ => ?_
  refine erase_bind (readNC_fst ..) fun ⟨sig, p⟩ => ?_
  refine erase_bind (readNC_fst ..) fun ⟨bm, p⟩ => ?_
  refine erase_bind (readUC_fst ..) fun ⟨opacity, p⟩ => ?_
  refine erase_bind (readUC_fst ..) fun ⟨clipping, p⟩ => ?_
  refine erase_bind (readUC_fst ..) fun ⟨fl, p⟩ => ?_
  refine erase_bind (readLenBlockC_fst ..) fun ⟨data, p⟩ => ?_
  refine erase_ok (enterBlock_fst data) ?_
  refine erase_bind (extra_fst ..) fun ⟨⟨mask, ranges, name, tbs⟩, _⟩ => ?_
  dsimp only
  split <;> rfl

theorem channelData_fst (ciLength : Nat) (d : B) (p : Nat) : (PsdCost.ChannelData.decC ciLength d p).1 = ChannelData.dec ciLength d p := by
  unfold PsdCost.ChannelData.decC ChannelData.dec
  refine erase_bind (readUC_fst ..) fun ⟨comp, p⟩ => ?_
  dsimp only
  split
  · refine erase_bind (readPyC_fst ..) fun ⟨data, p⟩ => ?_
    rfl
  · rfl

theorem channelList_fst (cis : List ChannelInfo) (d : B) (p : Nat) : (channelListDecC cis d p).1 = channelListDec cis d p :=
  readForC_fst cis (fun ci _ d p => channelData_fst ci.length d p) d p

theorem channelImage_fst (rs : List LayerRecord) (d : B) (p : Nat) : (channelImageDecC rs d p).1 = channelImageDec rs d p :=
  readForC_fst rs (fun r _ d p => channelList_fst r.channelInfo d p) d p

theorem layerInfoBody_fst (v : Nat) (d : B) (p : Nat) : (PsdCost.LayerInfo.bodyDecC v d p).1 = LayerInfo.bodyDec v d p := by
  unfold PsdCost.LayerInfo.bodyDecC LayerInfo.bodyDec
  refine erase_bind (readI16C_fst ..) fun ⟨count, p⟩ => ?_
  refine erase_bind (readCountC_fst (layerRecord_fst v) ..) fun ⟨records, p⟩ => ?_
  refine erase_bind (channelImage_fst ..) fun ⟨channels, p⟩ => ?_
  rfl

theorem layerInfo_fst (v : Nat) (d : B) (p : Nat) : (PsdCost.LayerInfo.decC v d p).1 = LayerInfo.dec v d p := by
  unfold PsdCost.LayerInfo.decC LayerInfo.dec
  refine erase_bind (readUC_fst ..) fun ⟨length, p⟩ => ?_
  dsimp only
  refine erase_bind ?_ fun ⟨li, p'⟩ => ?_
  · split
    · rfl
    · rw [bind_fst, layerInfoBody_fst]
      cases LayerInfo.bodyDec v d p with
      | error e => rfl
      | ok x => rfl
  dsimp only
  split
  · split <;> rfl
  · rfl

theorem globalMask_fst (d : B) (p : Nat) : (PsdCost.GlobalLayerMaskInfo.decC d p).1 = GlobalLayerMaskInfo.dec d p := by
  unfold PsdCost.GlobalLayerMaskInfo.decC GlobalLayerMaskInfo.dec
  refine erase_bind (readLenBlockC_fst ..) fun ⟨data, p1⟩ => ?_
  dsimp only
  split
  · rfl
  · split
    · rfl
    · refine erase_ok (enterBlock_fst data) ?_
      refine erase_bind (readCountC_fst (readUC_fst 2) ..) fun ⟨cs, q⟩ => ?_
      refine erase_bind (readUC_fst ..) fun ⟨opacity, q⟩ => ?_
      refine erase_bind (readUC_fst ..) fun ⟨kind, _⟩ => ?_
      dsimp only
      split <;> rfl

theorem layerAndMaskBody_fst (v endPos : Nat) (d : B) (p : Nat) :
    (PsdCost.LayerAndMask.bodyDecC v endPos d p).1 = LayerAndMask.bodyDec v endPos d p := by
  unfold PsdCost.LayerAndMask.bodyDecC LayerAndMask.bodyDec
  refine erase_bind (layerInfo_fst ..) fun ⟨li, p⟩ => ?_
  dsimp only
  split
  · refine erase_bind (globalMask_fst ..) fun ⟨glm, p⟩ => ?_
    refine erase_bind (taggedBlocks_fst ..) fun ⟨tbs, p⟩ => ?_
    rfl
  · rfl

theorem layerAndMask_fst (v : Nat) (d : B) (p : Nat) : (PsdCost.LayerAndMask.decC v d p).1 = LayerAndMask.dec v d p := by
  unfold PsdCost.LayerAndMask.decC LayerAndMask.dec
  refine erase_bind (readUC_fst ..) fun ⟨length, p⟩ => ?_
  dsimp only
  refine erase_bind ?_ fun ⟨x, _⟩ => ?_
  · split
    · rfl
    · exact layerAndMaskBody_fst ..
  dsimp only
  split <;> rfl

theorem imageData_fst (d : B) (p : Nat) : (PsdCost.ImageData.decC d p).1 = ImageData.dec d p := by
  unfold PsdCost.ImageData.decC ImageData.dec
  refine erase_bind (readUC_fst ..) fun ⟨comp, p⟩ => ?_
  dsimp only
  split
  · refine erase_bind (readAllC_fst ..) fun ⟨data, p⟩ => ?_
    rfl
  · rfl

theorem psd_fst (d : B) (p : Nat) : (PsdCost.PSD.readC d p).1 = PSD.read d p := by
  unfold PsdCost.PSD.readC PSD.read
  refine erase_bind (header_fst ..) fun ⟨header, p⟩ => ?_
  refine erase_bind (colorMode_fst ..) fun ⟨cmd, p⟩ => ?_
  refine erase_bind (resources_fst ..) fun ⟨res, p⟩ => ?_
  refine erase_bind (layerAndMask_fst ..) fun ⟨lm, p⟩ => ?_
  refine erase_bind (imageData_fst ..) fun ⟨img, p⟩ => ?_
  rfl

end PsdVerif.SafeCost
