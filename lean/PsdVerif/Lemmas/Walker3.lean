/-
C03 — the specification walker accepts what the model writer emits: record lists, channel image
data, layer info, the layer and mask section, image data, the whole file.
-/
import PsdVerif.Lemmas.Walker2

namespace PsdVerif.Walker
open PsdVerif PsdVerif.Codec PsdVerif.Psd

theorem walkRecords_step {v : Nat} (hv : v = 1 ∨ v = 2) (rs : List LayerRecord) (hwf : ∀ r ∈ rs, r.WF v)
    (hsh : ∀ r ∈ rs, RecordShaped v r) {d : B} {p : Nat} {rest : B}
    (hat : At d p (listT (LayerRecord.encT v) rs ++ rest)) :
    navOf (walkRecords v rs.length d p) =
        some (rs.map (fun r => r.channelInfo.map ChannelInfo.length), p + (listT (LayerRecord.encT v) rs).length) ∧
      At d (p + (listT (LayerRecord.encT v) rs).length) rest := by
  induction rs generalizing p with
  | nil => exact ⟨by simp [walkRecords, navOf, listT], by simpa [listT] using hat⟩
  | cons r rs ih =>
    simp only [listT, List.append_assoc] at hat
    obtain ⟨e1, hat⟩ := walkRecord_step hv (hwf r (by simp)) (hsh r (by simp)) hat
    obtain ⟨rg, e1⟩ := navOf_ok e1
    obtain ⟨e2, hat⟩ := ih (fun x hx => hwf x (by simp [hx])) (fun x hx => hsh x (by simp [hx])) hat
    obtain ⟨rgs, e2⟩ := navOf_ok e2
    refine ⟨?_, by simpa only [listT, List.length_append, Nat.add_assoc] using hat⟩
    simp only [List.length_cons, walkRecords, e1, e2, navOf, List.map_cons, listT, List.length_append, Nat.add_assoc]

/-- the lengths the (refreshed) records declare are those of the channel data that follows -/
theorem declared_lengths (rs : List LayerRecord) (css : List (List ChannelData)) (hs : shapesAgree rs css) :
    ((refreshRecords rs css).map (fun r => r.channelInfo.map ChannelInfo.length)).flatten =
      css.flatten.map (fun c => 2 + c.data.length) := by
  have hci : ∀ (cis : List ChannelInfo) (cs : List ChannelData), cis.length = cs.length →
      (refreshCI cis cs).map ChannelInfo.length = cs.map (fun c => 2 + c.data.length) := by
    intro cis
    induction cis with
    | nil => intro cs h; cases cs <;> simp_all [refreshCI]
    | cons ci cis ih =>
      intro cs h
      cases cs with
      | nil => simp at h
      | cons c cs => simp [refreshCI, ih cs (by simpa using h)]
  induction rs generalizing css with
  | nil => cases css <;> simp_all [shapesAgree, refreshRecords]
  | cons r rs ih =>
    cases css with
    | nil => simp [shapesAgree] at hs
    | cons cs css =>
      simp only [shapesAgree] at hs
      simp [refreshRecords, hci _ _ hs.1, ih css hs.2]

theorem walkChannels_step (cs : List ChannelData) (hwf : ∀ c ∈ cs, ChannelData.WF c) {d : B} {p : Nat} {rest : B}
    (hat : At d p (listT ChannelData.encT cs ++ rest)) :
    posOf (walkChannels (cs.map (fun c => 2 + c.data.length)) d p) = some (p + (listT ChannelData.encT cs).length) ∧
      At d (p + (listT ChannelData.encT cs).length) rest := by
  have hc : ∀ x ∈ G.compressions, x < 256 ^ 2 ∧ ¬ x > 3 := by decide
  induction cs generalizing p with
  | nil => exact ⟨by simp [walkChannels, posOf, listT], by simpa [listT] using hat⟩
  | cons c cs ih =>
    simp only [listT, ChannelData.encT, List.append_assoc] at hat
    obtain ⟨e1, hat⟩ := wU_step (sect := "channel-image-data") hat (hc _ (hwf c (by simp))).1
    obtain ⟨e2, hat⟩ := skip_step (sect := "channel-image-data") hat rfl
    obtain ⟨e3, hat⟩ := ih (fun x hx => hwf x (by simp [hx])) hat
    obtain ⟨rg, e3⟩ := posOf_ok e3
    have hlt : ¬ (2 + c.data.length < 2) := by omega
    have hsub : 2 + c.data.length - 2 = c.data.length := by omega
    refine ⟨?_, by simpa only [listT, ChannelData.encT, List.length_append, length_beBytes, Nat.add_assoc] using hat⟩
    simp only [List.map_cons, walkChannels, if_neg hlt, e1, if_neg (hc _ (hwf c (by simp))).2, hsub, e2, e3, posOf,
      listT, ChannelData.encT, List.length_append, length_beBytes, Option.some.injEq]
    omega

theorem flatten_channelImageT (css : List (List ChannelData)) :
    channelImageT css = listT ChannelData.encT css.flatten := by
  have happ : ∀ (a b : List ChannelData), listT ChannelData.encT (a ++ b) =
      listT ChannelData.encT a ++ listT ChannelData.encT b := by
    intro a b
    induction a with
    | nil => rfl
    | cons x a ih => simp [listT, ih]
  induction css with
  | nil => rfl
  | cons cs css ih =>
    simp only [channelImageT, listT, List.flatten_cons, happ, channelListT] at ih ⊢
    rw [ih]

theorem i16abs_i16ToNat (z : Int) (h : FitsI16 z) : i16abs (i16ToNat z) = z.natAbs := by
  unfold FitsI16 at h; unfold i16abs i16ToNat; split <;> omega

theorem walkLayerInfo_step {v pad : Nat} (hv : v = 1 ∨ v = 2) (hp : pad = 1 ∨ pad = 2 ∨ pad = 4) {li : LayerInfo}
    (hwf : li.WF v pad) (hsh : optRecordsShaped v li.records) {d : B} {p : Nat} {rest : B}
    (hat : At d p (li.encT v pad ++ rest)) :
    posOf (walkLayerInfo v d p) = some (p + (li.encT v pad).length) ∧ At d (p + (li.encT v pad).length) rest := by
  refine ⟨?_, hat.right⟩
  have hat := hat.left
  have hw := secW_pos v
  have hlw := lenW_eq_secW hv
  unfold LayerInfo.WF at hwf
  unfold LayerInfo.encT at hat ⊢
  by_cases h0 : li.layerCount = 0
  · simp only [h0, if_true] at hwf hat ⊢
    have hpos : (0 : Nat) < 256 ^ secW v := Nat.pow_pos (by decide)
    rw [← hlw] at hat hpos
    obtain ⟨e1, hat'⟩ := wU_step (sect := "layer-info") hat.nil_right hpos
    have e2 : skip "layer-info" 0 d (p + lenW v) = .ok ((), p + lenW v + 0) := by
      have := hat.bound; rw [length_beBytes] at this
      unfold skip; rw [if_pos (by omega)]
    simp only [walkLayerInfo, bind, Except.bind, e1, e2, if_true, posOf, length_beBytes, Option.some.injEq]
    omega
  · simp only [h0, if_false] at hwf hat ⊢
    obtain ⟨n, rs, css⟩ := li
    simp only at h0 hwf hat hsh ⊢
    cases rs with
    | none => simp at hwf
    | some rs =>
      cases css with
      | none => simp at hwf
      | some css =>
        simp only at hwf
        obtain ⟨hcount, hshape, hrecs, hch, hfits⟩ := hwf
        have hrs : rs ≠ [] := by
          intro h; subst h; simp at hcount; exact h0 hcount
        obtain ⟨r0, rs0, rfl⟩ := List.exists_cons_of_ne_nil hrs
        cases css with
        | nil => simp [shapesAgree] at hshape
        | cons c0 css0 =>
          have href : (LayerInfo.mk n (some (r0 :: rs0)) (some (c0 :: css0))).refresh =
              ⟨n, some (refreshRecords (r0 :: rs0) (c0 :: css0)), some (c0 :: css0)⟩ := by
            simp [LayerInfo.refresh, h0]
          rw [href] at hat hfits ⊢
          obtain ⟨g1, _, _, g4⟩ := hfits
          simp only at g1
          -- refreshed records keep their tagged blocks
          have hshR : ∀ r ∈ refreshRecords (r0 :: rs0) (c0 :: css0), RecordShaped v r := by
            have key : ∀ (rs : List LayerRecord) (css : List (List ChannelData)),
                (∀ r ∈ rs, RecordShaped v r) → ∀ r ∈ refreshRecords rs css, RecordShaped v r := by
              intro rs
              induction rs with
              | nil => intro css _ r hr; cases css <;> simp [refreshRecords] at hr
              | cons r1 rs ih =>
                intro css h r hr
                cases css with
                | nil => exact h r (by simpa [refreshRecords] using hr)
                | cons c css =>
                  simp only [refreshRecords, List.mem_cons] at hr
                  rcases hr with rfl | hr
                  · exact h r1 (by simp)
                  · exact ih css (fun x hx => h x (by simp [hx])) r hr
            exact key _ _ hsh
          have hdecl := declared_lengths (r0 :: rs0) (c0 :: css0) hshape
          generalize hR : refreshRecords (r0 :: rs0) (c0 :: css0) = R at *
          have hRlen : R.length = n.natAbs := by
            rw [← hR, length_refreshRecords]; exact hcount.symm
          have hRne : R ≠ [] := by
            intro h; rw [h] at hRlen; simp at hRlen; omega
          obtain ⟨r1, R1, rfl⟩ := List.exists_cons_of_ne_nil hRne
          have hpl := padAmount_lt (LayerInfo.bodyUnpaddedT v ⟨n, some (r1 :: R1), some (c0 :: css0)⟩).length pad
            (by rcases hp with h | h | h <;> omega)
          have hple : pad ≤ 4 := by rcases hp with h | h | h <;> omega
          have hbody : LayerInfo.bodyT v pad ⟨n, some (r1 :: R1), some (c0 :: css0)⟩ =
              beBytes 2 (i16ToNat n) ++ (listT (LayerRecord.encT v) (r1 :: R1) ++ (listT ChannelData.encT (c0 :: css0).flatten ++
                zeros (padAmount (LayerInfo.bodyUnpaddedT v ⟨n, some (r1 :: R1), some (c0 :: css0)⟩).length pad))) := by
            simp only [LayerInfo.bodyT, LayerInfo.bodyUnpaddedT, optListT, List.append_assoc, i16T,
              flatten_channelImageT]
          have hul : (LayerInfo.bodyUnpaddedT v ⟨n, some (r1 :: R1), some (c0 :: css0)⟩).length =
              2 + (listT (LayerRecord.encT v) (r1 :: R1)).length + (listT ChannelData.encT (c0 :: css0).flatten).length := by
            simp only [LayerInfo.bodyUnpaddedT, optListT, List.length_append, length_i16T, flatten_channelImageT]
          generalize hBody : LayerInfo.bodyT v pad ⟨n, some (r1 :: R1), some (c0 :: css0)⟩ = body at *
          have hbl : body.length = 2 + (listT (LayerRecord.encT v) (r1 :: R1)).length +
              (listT ChannelData.encT (c0 :: css0).flatten).length +
              padAmount (LayerInfo.bodyUnpaddedT v ⟨n, some (r1 :: R1), some (c0 :: css0)⟩).length pad := by
            rw [hbody]; simp only [List.length_append, length_beBytes, length_zeros]; omega
          have hne : ¬ body.length = 0 := by omega
          rw [lenBlockT_simple] at hat
          have hat := hat.nil_right
          rw [List.append_assoc] at hat
          rw [← hlw] at hat g4
          have hb0 := hat.bound
          simp only [List.length_append, length_beBytes, List.length_nil] at hb0
          obtain ⟨e1, hat⟩ := wU_step (sect := "layer-info") hat g4
          have e2 : skip "layer-info" body.length d (p + lenW v) = .ok ((), p + lenW v + body.length) := by
            unfold skip; rw [if_pos (by omega)]
          rw [hbody] at hat
          simp only [List.append_assoc] at hat
          obtain ⟨e3, hat⟩ := wU_step (sect := "layer-info") hat (i16ToNat_lt n)
          have e4' := walkRecords_step hv (r1 :: R1) hrecs hshR hat
          rw [hRlen, ← i16abs_i16ToNat n g1] at e4'
          obtain ⟨e4, hat⟩ := e4'
          obtain ⟨rg, e4⟩ := navOf_ok e4
          have e5' := walkChannels_step (c0 :: css0).flatten
            (fun c hc => by
              obtain ⟨cs, hcs, hc'⟩ := List.mem_flatten.mp hc
              exact hch cs hcs c hc') hat
          rw [← hdecl] at e5'
          obtain ⟨e5, _⟩ := e5'
          obtain ⟨rg2, e5⟩ := posOf_ok e5
          have c1 : p + lenW v + 2 + (listT (LayerRecord.encT v) (r1 :: R1)).length +
              (listT ChannelData.encT (c0 :: css0).flatten).length ≤ p + lenW v + body.length := by omega
          have c2 : p + lenW v + body.length < p + lenW v + 2 + (listT (LayerRecord.encT v) (r1 :: R1)).length +
              (listT ChannelData.encT (c0 :: css0).flatten).length + 4 := by omega
          simp only [walkLayerInfo, bind, Except.bind, e1, e2, if_neg hne, e3, e4, e5, check_eq, decide_eq_true_eq,
            if_pos c1, if_pos c2, posOf, lenBlockT_simple, List.length_append, length_beBytes, Option.some.injEq]
          omega

end PsdVerif.Walker
