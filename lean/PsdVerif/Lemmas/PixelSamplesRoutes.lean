/-
C07: the route lemmas of `Lemmas/Pixels.lean` instantiated with the concrete arithmetic — the NumPy export of an
imported layer / document sample for sample, matte removal on solid alpha.
-/
import PsdVerif.Model.PixelSamples
import PsdVerif.Lemmas.Pixels
import PsdVerif.Lemmas.PixelSamples
import PsdVerif.Lemmas.PixelSamplesPil

namespace PsdVerif.PixelSamples
open PsdVerif PsdVerif.Pixels PsdVerif.MergedPixels

/-- the NumPy view of a stored imported sample is `asFloat` -/
theorem npView_store {d : Nat} (hd : d ∈ depths) (x : S8) : (npView d).load (px.store d x) = asFloat x := by
  show (match npLoad d (store d x.val) with | some b => b | none => 0) = asFloat x
  rw [np_store hd (by omega)]
  rfl

theorem npView_store_fun {d : Nat} (hd : d ∈ depths) :
    (fun x : S8 => (npView d).load (px.store d x)) = asFloat := funext (npView_store hd)

theorem layer_numpy_concrete (img : Image S8) (hwf : img.WF) (hdr : Header) (hd : hdr.depth ∈ depths)
    (hb : hdr.cmode ≠ .bitmap) (top left : Int) :
    let src := normalise pil img
    let alpha := (srcAlpha src).getD (List.replicate (img.width * img.height) px.full)
    let conv := pil.conv hdr.pilMode src
    ∃ l, layerImport pil px img hdr top left = .ok l ∧
      exportLayerNumpy (npView hdr.depth) hdr l = .ok
        (((if hdr.cmode = .cmyk then conv.invert px else conv).bands.take hdr.cmode.channels ++ [alpha]).map
          (·.map asFloat)) := by
  intro src alpha conv
  have hsrc := normalise_wf pil pil_lawful img hwf
  have hsz := normalise_size pil pil_lawful img
  have hj := layer_converted_numpy px (npView hdr.depth) hdr (srcAlpha src) conv
    (pil_lawful.conv_wf _ _ hsrc) hb (decide (hdr.channels > (hdr.cmode.pilMode false).pilChannels))
    (by rw [pil_lawful.conv_mode]; rfl) top left
  rw [pil_lawful.conv_width, pil_lawful.conv_height, hsz.1, hsz.2, npView_store_fun hd] at hj
  rw [layerImport_eq pil pil_lawful px img hwf hdr top left]
  exact hj

theorem doc_numpy_concrete (img : Image S8) (hwf : img.WF) (hm : img.mode ≠ .RGBA) :
    let src := normalise pil img
    exportDocNumpy (npView 8) (docImport pil px img).1 (docImport pil px img).2 = .ok
      ((if src.mode = .CMYK then src.invert px else src).bands.map (·.map asFloat)) := by
  intro src
  have h8 : (8 : Nat) ∈ depths := by decide
  by_cases h1 : img.mode = .one
  · have hm' : (pil.conv .L img).mode = .L := pil_lawful.conv_mode _ _
    have hwf' := pil_lawful.conv_wf .L img hwf
    have := doc_core_numpy pil px (npView 8) (pil.conv .L img) hwf' (by rw [hm']; decide) (by rw [hm']; decide)
    rw [npView_store_fun h8] at this
    simpa [docImport, normalise, h1, hm', src] using this
  · have := doc_core_numpy pil px (npView 8) img hwf h1 hm
    rw [npView_store_fun h8] at this
    simpa [normalise, h1, src] using this

theorem unmatte8_solid {x a : Nat} (hx : x ≤ 255) (ha : a = 0 ∨ a = 255) : unmatte8 x a = x := by
  rcases ha with rfl | rfl
  · simp [unmatte8]
  · simp only [unmatte8]; simp; omega

theorem zipWith_unmatte_solid (c a : List S8) (hl : c.length = a.length)
    (ha : ∀ x ∈ a, x.val = 0 ∨ x.val = 255) : List.zipWith px.unmatte c a = c := by
  induction c generalizing a with
  | nil => simp
  | cons x xs ih =>
    cases a with
    | nil => simp at hl
    | cons y ys =>
      simp only [List.zipWith_cons_cons, List.cons.injEq]
      constructor
      · show clip8 (unmatte8 x.val y.val) = x
        rw [unmatte8_solid (by omega) (ha y (by simp))]
        exact clip8_fin x
      · exact ih ys (by simpa using hl) (fun z hz => ha z (by simp [hz]))

/-- the half-transparent gray pixel on which the RGBA document import fails -/
def rgbaWitness : Image S8 := { mode := .RGBA, width := 1, height := 1, bands := [[100], [100], [100], [128]] }

theorem rgba_doc_witness :
    exportDocPil px (docImport pil px rgbaWitness).1 (docImport pil px rgbaWitness).2
      ≠ .ok (some (normalise pil rgbaWitness)) := by
  have h2 := doc_core_rgba pil px (px_lawfulAt (by decide)) 1 1 [100] [100] [100] [128]
  simp only at h2
  intro h1
  have h3 : exportDocPil px (docImport pil px rgbaWitness).1 (docImport pil px rgbaWitness).2 = _ := h2
  rw [h3] at h1
  have hn : normalise pil rgbaWitness = rgbaWitness := rfl
  rw [hn] at h1
  injection h1 with h1
  injection h1 with h1
  have hb := congrArg Image.bands h1
  revert hb
  decide

end PsdVerif.PixelSamples
