/-
C03 (pixel clauses) — the shape of what `encode_rle` (C04's model) emits: a row table of `h`
big-endian items followed by the PackBits rows; what the containers store.

Composes `Model/Compression.lean`, `Lemmas/CompRle.lean`, `Props/C04.lean`, `Props/C05.lean`.
Core Lean only.
-/
import PsdVerif.Props.C04
import PsdVerif.Model.Psd

namespace PsdVerif.C03Pixels
open PsdVerif PsdVerif.Rle PsdVerif.Compression

/-- the row table of `encode_rle`: one big-endian item of `k` bytes per row, holding the row's
compressed length (`write_be_array(fp, array.array(fmt, map(len, rows)))`) -/
def rowTable (k : Nat) (rows : List BList) : BList := rows.flatMap (fun r => beBytes k r.length)

/-- row `i` of a raster with rows of `rs` bytes (`fp.read(row_size)`, the `i`-th time) -/
def rawRow (rs : Nat) (d : BList) (i : Nat) : BList := (d.drop (i * rs)).take rs

/-- item `i` of a table of `k`-byte big-endian items at the head of `bs` -/
def tableEntry (k : Nat) (bs : BList) (i : Nat) : Nat := beVal ((bs.drop (i * k)).take k)

/-- the PackBits rows of a raster: row `i` is `rle_impl.encode` of raw row `i` -/
def packedRows (rs h : Nat) (d : BList) : List BList :=
  (List.range h).map (fun i => encPy (rawRow rs d i).toArray)

theorem length_rowTable (k : Nat) (rows : List BList) : (rowTable k rows).length = rows.length * k := by
  unfold rowTable
  rw [length_flatMap_const _ k]
  intro a _; exact beBytes_length k _

theorem length_encRows (rs h : Nat) (d : BList) : (encRows rs h d).length = h := by
  induction h generalizing d with
  | zero => rfl
  | succ h ih => simp [encRows, ih]

theorem length_packedRows (rs h : Nat) (d : BList) : (packedRows rs h d).length = h := by
  simp [packedRows]

theorem rawRow_zero (rs : Nat) (d : BList) : rawRow rs d 0 = d.take rs := by simp [rawRow]

theorem rawRow_succ (rs : Nat) (d : BList) (i : Nat) : rawRow rs (d.drop rs) i = rawRow rs d (i + 1) := by
  simp only [rawRow, List.drop_drop]
  congr 2
  rw [Nat.add_mul, Nat.one_mul, Nat.add_comm]

theorem splitPlanes_eq_range (ps n : Nat) (d : BList) :
    splitPlanes ps n d = (List.range n).map (rawRow ps d) := by
  induction n generalizing d with
  | zero => rfl
  | succ n ih =>
    rw [splitPlanes, ih, List.range_succ_eq_map, List.map_cons, rawRow_zero, List.map_map]
    congr 1
    apply List.map_congr_left
    intro i _
    exact rawRow_succ ps d i

theorem encRows_eq_packedRows (rs h : Nat) (d : BList) : encRows rs h d = packedRows rs h d := by
  rw [encRows_eq, splitPlanes_eq_range, List.map_map]
  rfl

theorem length_rawRow (rs h : Nat) (d : BList) (hl : d.length = rs * h) (i : Nat) (hi : i < h) :
    (rawRow rs d i).length = rs := by
  simp only [rawRow, List.length_take, List.length_drop, hl]
  have : (i + 1) * rs ≤ rs * h := by
    rw [Nat.mul_comm rs h]; exact Nat.mul_le_mul_right rs hi
  rw [Nat.add_mul, Nat.one_mul] at this
  omega

/-- the raw rows, joined, are the raster (under the row geometry) -/
theorem rawRows_flatten (rs h : Nat) (d : BList) (hl : d.length = rs * h) :
    ((List.range h).map (rawRow rs d)).flatten = d := by
  rw [← splitPlanes_eq_range]
  exact (splitPlanes_spec rs h d hl).1

/-- what `encode_rle` returns when it returns: table item size of the version, every row fits it,
the stream is the table followed by the rows -/
theorem encodeRle_ok {d : BList} {w h depth version : Nat} {bs : BList}
    (he : encodeRle d w h depth version = .ok bs) :
    ∃ k, tableItem version = .ok k ∧ (∀ r ∈ packedRows (rowSize w depth) h d, r.length < 256 ^ k) ∧
      bs = rowTable k (packedRows (rowSize w depth) h d) ++ (packedRows (rowSize w depth) h d).flatten := by
  unfold encodeRle at he
  cases hk : tableItem version with
  | error e => rw [hk] at he; cases he
  | ok k =>
    rw [hk] at he
    simp only at he
    split at he
    · cases he
    · rename_i hany
      refine ⟨k, rfl, ?_, ?_⟩
      · intro r hr
        rw [← encRows_eq_packedRows] at hr
        have h2 : (encRows (rowSize w depth) h d).any (fun r => decide (r.length ≥ 256 ^ k)) = false := by
          simpa using hany
        have := List.any_eq_false.mp h2 r hr
        simpa using this
      · rw [← encRows_eq_packedRows]
        injection he with he
        exact he.symm

/-- … and conversely -/
theorem encodeRle_of_fit {d : BList} {w h depth version k : Nat} (hk : tableItem version = .ok k)
    (hfit : ∀ r ∈ packedRows (rowSize w depth) h d, r.length < 256 ^ k) :
    encodeRle d w h depth version =
      .ok (rowTable k (packedRows (rowSize w depth) h d) ++ (packedRows (rowSize w depth) h d).flatten) := by
  have : (encRows (rowSize w depth) h d).any (fun r => decide (r.length ≥ 256 ^ k)) = false := by
    rw [List.any_eq_false]
    intro r hr
    rw [encRows_eq_packedRows] at hr
    have := hfit r hr
    simp; omega
  simp only [encodeRle, hk, this, rowTable]
  rw [encRows_eq_packedRows]
  rfl

theorem tableItem_version {version k : Nat} (h : tableItem version = .ok k) :
    (version = 1 → k = 2) ∧ (version = 2 → k = 4) ∧ (k = 2 ∨ k = 4) := by
  unfold tableItem at h
  split at h
  · injection h with h; omega
  · split at h
    · injection h with h; omega
    · cases h

/-- `read_be_array`: item `i` of the table as `decode_rle` reads it -/
theorem readVals_getElem? (k n : Nat) (bs : BList) (i : Nat) (hi : i < n) :
    (readVals k n bs)[i]? = some (tableEntry k bs i) := by
  induction n generalizing bs i with
  | zero => omega
  | succ n ih =>
    cases i with
    | zero => simp [readVals, tableEntry]
    | succ i =>
      simp only [readVals, List.getElem?_cons_succ]
      rw [ih (bs.drop k) i (by omega)]
      simp only [tableEntry, List.drop_drop]
      congr 4
      rw [Nat.add_mul, Nat.one_mul, Nat.add_comm]

theorem readVals_rowTable (k : Nat) (rows : List BList) (rest : BList) (hfit : ∀ r ∈ rows, r.length < 256 ^ k) :
    readVals k rows.length (rowTable k rows ++ rest) = rows.map List.length := by
  have := readVals_table k (rows.map List.length) rest
    (by intro c hc; obtain ⟨r, hr, rfl⟩ := List.mem_map.mp hc; exact hfit r hr)
  rw [List.length_map] at this
  rw [← this]
  congr 2
  simp [rowTable, List.flatMap_map]

theorem sum_lengths (rows : List BList) : (rows.map List.length).sum = rows.flatten.length := by
  rw [List.length_flatten]

/-- `bs` is an RLE stream of `n` rows with `k`-byte table items: `n` big-endian entries, entry `i` the
length of row `i`, followed by the rows; the entries sum to the size of what follows the table -/
def RowTableStream (k n : Nat) (rows : List BList) (bs : BList) : Prop :=
  rows.length = n ∧ bs = rowTable k rows ++ rows.flatten ∧ (rowTable k rows).length = n * k ∧
  (∀ r ∈ rows, r.length < 256 ^ k) ∧
  readVals k n bs = rows.map List.length ∧
  (∀ i r, rows[i]? = some r → tableEntry k bs i = r.length) ∧
  (readVals k n bs).sum = bs.length - n * k ∧ bs.length = n * k + (readVals k n bs).sum

theorem rowTableStream_intro (k : Nat) (rows : List BList) (hfit : ∀ r ∈ rows, r.length < 256 ^ k) :
    RowTableStream k rows.length rows (rowTable k rows ++ rows.flatten) := by
  have hrv := readVals_rowTable k rows rows.flatten hfit
  have hlen : (rowTable k rows ++ rows.flatten).length = rows.length * k + (rows.map List.length).sum := by
    rw [List.length_append, length_rowTable, sum_lengths]
  refine ⟨rfl, rfl, length_rowTable k rows, hfit, hrv, ?_, ?_, ?_⟩
  · intro i r hr
    have hi : i < rows.length := by
      rcases Nat.lt_or_ge i rows.length with h | h
      · exact h
      · rw [List.getElem?_eq_none h] at hr; cases hr
    have h1 := readVals_getElem? k rows.length (rowTable k rows ++ rows.flatten) i hi
    rw [hrv, List.getElem?_map, hr] at h1
    simp only [Option.map_some, Option.some.injEq] at h1
    exact h1.symm
  · rw [hrv, hlen]; omega
  · rw [hrv, hlen]

theorem length_flatten_const (planes : List BList) (n : Nat) (hp : ∀ p ∈ planes, p.length = n) :
    planes.flatten.length = n * planes.length := by
  induction planes with
  | nil => simp
  | cons p ps ih =>
    simp only [List.flatten_cons, List.length_append, List.length_cons]
    rw [hp p (by simp), ih (fun q hq => hp q (by simp [hq])), Nat.mul_succ, Nat.add_comm]

/-! ### what the containers store -/

/-- `psd_tools.constants.Compression`: the number stored in front of the pixel data -/
def code : Codec → Nat
  | .raw => 0
  | .rle => 1
  | .zip => 2
  | .zipPred => 3

/-- `ChannelData.set_data(data, width, height, depth, version)` on a channel whose `compression`
attribute is `c`: the object afterwards (its `data` attribute is what `compress` returned) -/
def setChannel (z : ZCodec) (c : Codec) (d : BList) (w h depth version : Nat) : Except Err Psd.ChannelData :=
  match channelSet z d c w h depth version with
  | .ok e => .ok ⟨code c, e⟩
  | .error e => .error e

/-- `ImageData.set_data(planes, header)` on a section whose `compression` attribute is `c` -/
def setImage (z : ZCodec) (c : Codec) (planes : List BList) (w h channels depth version : Nat) :
    Except Err Psd.ImageData :=
  match imageSet z planes c w h channels depth version with
  | .ok e => .ok ⟨code c, e⟩
  | .error e => .error e

end PsdVerif.C03Pixels
