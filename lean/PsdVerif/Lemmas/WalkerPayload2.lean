/-
C03 (payload interiors) — the descriptor walker accepts what the descriptor writer emits (all 25 OSTypes), by mutual
structural induction (value / list of values / list of keyed items); the expected spans of a written value.
-/
import PsdVerif.Lemmas.WalkerPayload1
import PsdVerif.Lemmas.Descriptor3

namespace PsdVerif.WalkerPayload
open PsdVerif PsdVerif.Codec PsdVerif.Walker PsdVerif.Descriptor

/-- the layout the specification gives the OSType of a registered class -/
def shapeOfTag : Tag → Shape
  | .integer | .identifier | .index => .fixed 4
  | .largeInteger | .double => .fixed 8
  | .boolean => .fixed 1
  | .unitFloat => .fixed 12
  | .unitFloats => .unitFloats
  | .string => .text
  | .enumerated => .enumerated
  | .enumeratedReference => .enumRef
  | .class1 | .class2 | .class3 => .klass
  | .property => .property
  | .name => .nameRef
  | .offset => .offset
  | .rawData | .alias | .path => .raw
  | .list | .reference => .list
  | .descriptor | .globalObject => .object
  | .objectArray => .objectArray

/-- every OSType the library writes is an OSType the walker knows, with the layout of its class -/
theorem shapeOf_bytes (t : Tag) : shapeOf t.bytes = some (shapeOfTag t) := by cases t <;> decide

/-! ### span combinators (what the laws of Lemmas/WalkerPayload1.lean produce) -/

def seqS (S T : Nat → List Span) (n : Nat) : Nat → List Span := fun p => S p ++ T (p + n)
def atS (S : Nat → List Span) (n : Nat) : Nat → List Span := fun p => S (p + n)
def regS (kind : String) (bs : B) (S : Nat → List Span) : Nat → List Span := fun p => ⟨⟨p, bs.length, kind⟩, bs⟩ :: S p
def keySpans (tb : Tables) (k : Key) : Nat → List Span := regS "descriptor-key" (keyT tb k) noSpans
def strSpans (s : Str) : Nat → List Span := regS "unicode-string" (strT s) noSpans

theorem walks_str (s : Str) (hf : StrFits s) : Walks pUStr (strT s) (strSpans s) := walks_ustr s hf
theorem walks_key' (tb : Tables) (k : Key) (hwf : KeyWF tb k) (hf : KeyFits tb k) : Walks pKey (keyT tb k) (keySpans tb k) :=
  walks_key tb k hwf hf

theorem walks_seq' {a b : PW} {x y : B} {S T : Nat → List Span} (ha : Walks a x S) (hb : Walks b y T) :
    Walks (a ⨾ b) (x ++ y) (seqS S T x.length) := walks_seq ha hb

theorem walks_tagged {val : Shape → PW} (t : Tag) {bs : B} {S : Nat → List Span} (hv : Walks (val (shapeOfTag t)) bs S) :
    Walks (pTagged val) (t.bytes ++ bs) (atS S 4) := by
  refine walks_b "descriptor" (Tag.length_bytes t) ?_
  simp only [shapeOf_bytes]
  exact hv

theorem walks_counted_of (sect : String) {cw n : Nat} {item : PW} {bs : B} {S : Nat → List Span} (hc : n < 256 ^ cw)
    (hr : Walks (pRepeat item n) bs S) (hl : n ≤ bs.length) :
    Walks (pCounted sect cw item) (beBytes cw n ++ bs) (atS S cw) := by
  intro d p rest hat
  rw [List.append_assoc] at hat
  obtain ⟨e1, hat'⟩ := wU_step (sect := sect) hat hc
  obtain ⟨e2, h2⟩ := hr d (p + cw) rest hat'
  have hb := hat'.bound
  have hle : n ≤ d.length - (p + cw) := by
    simp only [List.length_append] at hb
    omega
  exact ⟨by simp only [pCounted, pU, e1, if_pos hle, e2, atS, List.length_append, length_beBytes, Nat.add_assoc], h2⟩

theorem pRepeat_succ (w : PW) (n : Nat) : pRepeat w (n + 1) = (w ⨾ pRepeat w n) := rfl

/-! ### the spans of a written value -/

mutual
/-- the spans inside the value region of `v` (strings, keys, raw blocks, nested values), `p`: where the value starts -/
def innerSpans (tb : Tables) : DVal → Nat → List Span
  | .int _ _ => noSpans
  | .large _ => noSpans
  | .bool _ => noSpans
  | .double _ => noSpans
  | .unitFloat _ _ => noSpans
  | .unitFloats _ _ => noSpans
  | .string s => strSpans s
  | .enumerated ty en => seqS (keySpans tb ty) (keySpans tb en) (keyT tb ty).length
  | .enumRef nm cid ty en =>
    seqS (strSpans nm) (seqS (keySpans tb cid) (seqS (keySpans tb ty) (keySpans tb en) (keyT tb ty).length) (keyT tb cid).length)
      (strT nm).length
  | .klass _ nm cid => seqS (strSpans nm) (keySpans tb cid) (strT nm).length
  | .property nm cid kid => seqS (strSpans nm) (seqS (keySpans tb cid) (keySpans tb kid) (keyT tb cid).length) (strT nm).length
  | .name nm cid val => seqS (strSpans nm) (seqS (keySpans tb cid) (strSpans val) (keyT tb cid).length) (strT nm).length
  | .offset nm cid _ => seqS (strSpans nm) (seqS (keySpans tb cid) noSpans (keyT tb cid).length) (strT nm).length
  | .raw _ data => regS "descriptor-raw" (lenBlockT 0 4 1 data) noSpans
  | .list _ items => atS (listSpans tb items) 4
  | .desc _ nm cid items => structSpans tb nm cid items
  | .objArray _ nm cid items => atS (structSpans tb nm cid items) 4
/-- name, class id, count, items -/
def structSpans (tb : Tables) (nm : Str) (cid : Key) : Items → Nat → List Span
  | items =>
    regS "descriptor" (bodyT tb nm cid items)
      (seqS (strSpans nm) (seqS (keySpans tb cid) (atS (itemsSpans tb items) 4) (keyT tb cid).length) (strT nm).length)
def listSpans (tb : Tables) : List DVal → Nat → List Span
  | [] => noSpans
  | v :: vs => seqS (atS (regS "descriptor-value" (encT tb v) (innerSpans tb v)) 4) (listSpans tb vs) (v.tag.bytes ++ encT tb v).length
def itemsSpans (tb : Tables) : Items → Nat → List Span
  | [] => noSpans
  | (k, v) :: r =>
    seqS (seqS (keySpans tb k) (atS (regS "descriptor-value" (encT tb v) (innerSpans tb v)) 4) (keyT tb k).length)
      (itemsSpans tb r) (keyT tb k ++ (v.tag.bytes ++ encT tb v)).length
end

/-- the value region, then what is inside it -/
def valSpans (tb : Tables) (v : DVal) : Nat → List Span := regS "descriptor-value" (encT tb v) (innerSpans tb v)

theorem length_encListT_ge (tb : Tables) (vs : List DVal) : vs.length ≤ (encListT tb vs).length := by
  induction vs with
  | nil => simp
  | cons v vs ih =>
    simp only [encListT, List.length_append, List.length_cons, Tag.length_bytes]
    omega

theorem length_encItemsT_ge (tb : Tables) (its : Items) : its.length ≤ (encItemsT tb its).length := by
  induction its with
  | nil => simp
  | cons kv r ih =>
    obtain ⟨k, v⟩ := kv
    simp only [encItemsT, List.length_append, List.length_cons, Tag.length_bytes]
    omega

theorem length_listT_f64T (vs : List Nat) : (listT f64T vs).length = 8 * vs.length := by
  induction vs with
  | nil => rfl
  | cons x xs ih => simp only [listT, List.length_append, length_f64T, List.length_cons, ih]; omega

/-- the class structure, given the law of its items -/
theorem walks_struct {tb : Tables} {val : Shape → PW} {nm : Str} {cid : Key} {items : Items}
    (hitems : Walks (pRepeat (pKey ⨾ pTagged val) items.length) (encItemsT tb items) (itemsSpans tb items))
    (fnm : StrFits nm) (hcid : KeyWF tb cid) (fcid : KeyFits tb cid) (hlen : items.length < 4294967296) :
    Walks (pStruct val) (bodyT tb nm cid items) (structSpans tb nm cid items) := by
  unfold structSpans
  exact walks_region "descriptor" (walks_seq' (walks_str nm fnm) (walks_seq' (walks_key' tb cid hcid fcid)
    (walks_counted_of "descriptor" (by simpa using hlen) hitems (length_encItemsT_ge tb items))))

mutual
theorem walks_val (tb : Tables) (v : DVal) : ∀ (fuel : Nat), WF tb v → Fits tb v → need v ≤ fuel →
    Walks (pVal fuel (shapeOfTag v.tag)) (encT tb v) (valSpans tb v) := by
  intro fuel hwf hf hfuel
  cases fuel with
  | zero => cases v <;> simp [need] at hfuel
  | succ fuel =>
  unfold valSpans
  show Walks (pRegion "descriptor-value" (pShape (pVal fuel) (shapeOfTag v.tag))) _ _
  refine walks_region "descriptor-value" ?_
  cases v with
  | int t z =>
    cases t <;> simp only [encT, innerSpans, DVal.tag, IntTag.tag, shapeOfTag, pShape] <;>
      exact walks_skip "descriptor-value" (length_i32T z)
  | large z =>
    simp only [encT, innerSpans, DVal.tag, shapeOfTag, pShape]
    exact walks_skip "descriptor-value" (length_i64T z)
  | bool b =>
    simp only [encT, innerSpans, DVal.tag, shapeOfTag, pShape]
    exact walks_skip "descriptor-value" (length_boolT b)
  | double bits =>
    simp only [encT, innerSpans, DVal.tag, shapeOfTag, pShape]
    exact walks_skip "descriptor-value" (length_f64T bits)
  | unitFloat u bits =>
    simp only [encT, innerSpans, DVal.tag, shapeOfTag, pShape]
    exact walks_skip "descriptor-value" (by simp [unitT, length_pack4s, length_f64T])
  | unitFloats u vs =>
    simp only [Fits] at hf
    simp only [encT, innerSpans, DVal.tag, shapeOfTag, pShape]
    have h1 : Walks (pSkip "descriptor-value" 4) (unitT u) noSpans := walks_skip _ (length_pack4s _)
    have h2 := walks_u "descriptor-value" (w := 4) (k := fun n => pSkip "descriptor-value" (8 * n)) (by simpa using hf.1)
      (walks_skip "descriptor-value" (length_listT_f64T vs))
    exact (walks_seq h1 h2).congr rfl (by funext p; simp [noSpans])
  | string s =>
    simp only [Fits] at hf
    simp only [encT, innerSpans, DVal.tag, shapeOfTag, pShape]
    exact walks_str s hf
  | enumerated ty en =>
    simp only [Fits, WF] at hf hwf
    simp only [encT, innerSpans, DVal.tag, shapeOfTag, pShape]
    exact walks_seq' (walks_key' tb ty hwf.1 hf.1) (walks_key' tb en hwf.2 hf.2)
  | enumRef nm cid ty en =>
    simp only [Fits, WF] at hf hwf
    simp only [encT, innerSpans, DVal.tag, shapeOfTag, pShape]
    exact walks_seq' (walks_str nm hf.1) (walks_seq' (walks_key' tb cid hwf.2.1 hf.2.1)
      (walks_seq' (walks_key' tb ty hwf.2.2.1 hf.2.2.1) (walks_key' tb en hwf.2.2.2 hf.2.2.2)))
  | klass t nm cid =>
    simp only [Fits, WF] at hf hwf
    cases t <;> simp only [encT, innerSpans, DVal.tag, ClassTag.tag, shapeOfTag, pShape] <;>
      exact walks_seq' (walks_str nm hf.1) (walks_key' tb cid hwf.2 hf.2)
  | property nm cid kid =>
    simp only [Fits, WF] at hf hwf
    simp only [encT, innerSpans, DVal.tag, shapeOfTag, pShape]
    exact walks_seq' (walks_str nm hf.1) (walks_seq' (walks_key' tb cid hwf.2.1 hf.2.1) (walks_key' tb kid hwf.2.2 hf.2.2))
  | name nm cid val =>
    simp only [Fits, WF] at hf hwf
    simp only [encT, innerSpans, DVal.tag, shapeOfTag, pShape]
    exact walks_seq' (walks_str nm hf.1) (walks_seq' (walks_key' tb cid hwf.2.1 hf.2.1) (walks_str val hf.2.2))
  | offset nm cid val =>
    simp only [Fits, WF] at hf hwf
    simp only [encT, innerSpans, DVal.tag, shapeOfTag, pShape]
    exact walks_seq' (walks_str nm hf.1) (walks_seq' (walks_key' tb cid hwf.2 hf.2.1)
      (walks_skip "descriptor-value" (length_u32T val)))
  | raw t data =>
    simp only [Fits] at hf
    have h2 := walks_u "descriptor-raw" (w := 4) (k := fun n => pSkip "descriptor-raw" n) (by simpa using hf)
      (walks_skip "descriptor-raw" (rfl : data.length = data.length))
    have h3 := walks_region "descriptor-raw" h2
    cases t <;> simp only [encT, innerSpans, DVal.tag, RawTag.tag, shapeOfTag, pShape, lenBlockT_simple] <;>
      exact h3.congr rfl (by funext p; simp [regS, noSpans])
  | list t items =>
    simp only [Fits, WF, need] at hf hwf hfuel
    have h := walks_counted_of "descriptor-list" (cw := 4) (by simpa using hf.1)
      (walks_list tb items fuel hwf hf.2 (by omega)) (length_encListT_ge tb items)
    cases t <;> simp only [encT, innerSpans, DVal.tag, ListTag.tag, shapeOfTag, pShape] <;> exact h
  | desc t nm cid items =>
    simp only [Fits, WF, need] at hf hwf hfuel
    have h := walks_struct (val := pVal fuel) (walks_items tb items fuel hwf.2.2.2 hf.2.2.2 (by omega)) hf.1 hwf.2.1 hf.2.1
      hf.2.2.1
    cases t <;> simp only [encT, innerSpans, DVal.tag, DescTag.tag, shapeOfTag, pShape] <;> exact h
  | objArray c nm cid items =>
    simp only [Fits, WF, need] at hf hwf hfuel
    simp only [encT, innerSpans, DVal.tag, shapeOfTag, pShape]
    have h1 : Walks (pSkip "descriptor-value" 4) (u32T c) noSpans := walks_skip _ (length_u32T c)
    have h2 := walks_struct (val := pVal fuel) (walks_items tb items fuel hwf.2.2.2 hf.2.2.2.2 (by omega)) hf.2.1 hwf.2.1
      hf.2.2.1 hf.2.2.2.1
    exact (walks_seq h1 h2).congr rfl (by funext p; simp [noSpans, atS, length_u32T])
theorem walks_list (tb : Tables) (vs : List DVal) : ∀ (fuel : Nat), WFList tb vs → FitsList tb vs → needList vs ≤ fuel →
    Walks (pRepeat (pTagged (pVal fuel)) vs.length) (encListT tb vs) (listSpans tb vs) := by
  intro fuel hwf hf hfuel
  cases vs with
  | nil =>
    intro d p rest _
    exact ⟨by simp [pRepeat, listSpans, noSpans, regionsOf, encListT], fun s hs => by simp [listSpans, noSpans] at hs⟩
  | cons v vs =>
    simp only [WFList, FitsList, needList] at hwf hf hfuel
    have h1 := walks_tagged (val := pVal fuel) v.tag (walks_val tb v fuel hwf.1 hf.1 (by omega))
    have h2 := walks_list tb vs fuel hwf.2 hf.2 (by omega)
    have := walks_seq' h1 h2
    simp only [List.length_cons, pRepeat_succ, encListT, listSpans]
    exact this.congr (by simp only [List.append_assoc]) rfl
theorem walks_items (tb : Tables) (its : Items) : ∀ (fuel : Nat), WFItems tb its → FitsItems tb its → needItems its ≤ fuel →
    Walks (pRepeat (pKey ⨾ pTagged (pVal fuel)) its.length) (encItemsT tb its) (itemsSpans tb its) := by
  intro fuel hwf hf hfuel
  cases its with
  | nil =>
    intro d p rest _
    exact ⟨by simp [pRepeat, itemsSpans, noSpans, regionsOf, encItemsT], fun s hs => by simp [itemsSpans, noSpans] at hs⟩
  | cons kv r =>
    obtain ⟨k, v⟩ := kv
    simp only [WFItems, FitsItems, needItems] at hwf hf hfuel
    have h0 := walks_key' tb k hwf.1 hf.1
    have h1 := walks_tagged (val := pVal fuel) v.tag (walks_val tb v fuel hwf.2.1 hf.2.1 (by omega))
    have h2 := walks_items tb r fuel hwf.2.2 hf.2.2 (by omega)
    have := walks_seq' (walks_seq' h0 h1) h2
    simp only [List.length_cons, pRepeat_succ, encItemsT, itemsSpans]
    exact this.congr (by simp only [List.append_assoc]) rfl
end

/-- a descriptor structure (name, class id, items) written by `_write_body`, wherever it lies in the data -/
theorem walks_descriptor (tb : Tables) (nm : Str) (cid : Key) (items : Items) (fnm : StrFits nm) (hcid : KeyWF tb cid)
    (fcid : KeyFits tb cid) (hlen : items.length < 4294967296) (hwf : WFItems tb items) (hf : FitsItems tb items) :
    Walks pDescriptor (bodyT tb nm cid items) (structSpans tb nm cid items) := by
  intro d p rest hat
  have hfuel : needItems items ≤ d.length + 1 := by
    have h1 := needItems_le tb items
    have h2 := hat.bound
    have h3 : (encItemsT tb items).length ≤ (bodyT tb nm cid items).length := by
      simp only [bodyT, List.length_append]; omega
    simp only [List.length_append] at h2
    omega
  exact walks_struct (walks_items tb items (d.length + 1) hwf hf hfuel) fnm hcid fcid hlen d p rest hat

end PsdVerif.WalkerPayload
