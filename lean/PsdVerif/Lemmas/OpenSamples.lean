/-
C06 — concrete inputs for the whole-reader cost theorems: the nested `Lr16` family (a layer info inside a tagged block
inside the extra data of a layer record inside a layer info …), a document whose counts and lengths are all maximal,
a document with an engine-data block.
-/
import PsdVerif.Model.OpenMain
import PsdVerif.Lemmas.SafeSamples

namespace PsdVerif.OpenCost
open PsdVerif PsdVerif.Codec PsdVerif.Psd PsdVerif.PsdCost

def be4 (n : Nat) : B := beBytes 4 n
def sig8BIM : B := [0x38, 0x42, 0x49, 0x4D]
def keyLr16 : B := [0x4C, 0x72, 0x31, 0x36]
def modeNorm : B := [0x6E, 0x6F, 0x72, 0x6D]

/-- a tagged block (4-byte length, no padding) -/
def tblock (key data : B) : B := sig8BIM ++ key ++ be4 data.length ++ data

/-- a layer record without channels, named "n", with the given tagged blocks in its extra data -/
def record (blocks : B) : B :=
  let extra := be4 0 ++ be4 0 ++ [1, 0x6E, 0, 0] ++ blocks
  zeros 16 ++ [0, 0] ++ sig8BIM ++ modeNorm ++ [255, 0, 0, 0] ++ be4 extra.length ++ extra

/-- a layer info body nested `m` times through `Lr16` -/
def nestBody : Nat → B
  | 0 => [0, 0]
  | m + 1 => [0, 1] ++ record (tblock keyLr16 (nestBody m))

/-- the document around it (version 1, no colour mode data, no resources, no global mask, raw empty image data) -/
def nestDoc (m : Nat) : B :=
  let li := nestBody m
  let lam := be4 li.length ++ li
  Safe.headerBytes ++ be4 0 ++ be4 0 ++ be4 lam.length ++ lam ++ [0, 0]

end PsdVerif.OpenCost
