/-
The two shapes of a round-trip law (DESIGN §3) and the combinators that carry them.

`Lawful`      : `enc v = ok bs → dec (pre ++ bs ++ post) pre.length = ok (v, pre.length + bs.length)` for every `post`
`LawfulAtEnd` : the same with `post = []` only — for readers that look at what follows
                (`is_readable`, read-to-EOF, `while is_readable(fp, k)`).
`block_lawful`: `write_length_block` / `read_length_block` + nested `BytesIO` turn an at-end-lawful body
                into a lawful block (that is why the format wraps such bodies in length blocks).
-/
import PsdVerif.Lemmas.Codec
import PsdVerif.Model.Globals

namespace PsdVerif.Codec
open PsdVerif

def Lawful {α : Type} (enc : α → Except Err B) (dec : R α) (WF : α → Prop) : Prop :=
  ∀ v bs pre post, WF v → enc v = .ok bs → dec (pre ++ bs ++ post) pre.length = .ok (v, pre.length + bs.length)

def LawfulAtEnd {α : Type} (enc : α → Except Err B) (dec : R α) (WF : α → Prop) : Prop :=
  ∀ v bs pre, WF v → enc v = .ok bs → dec (pre ++ bs) pre.length = .ok (v, pre.length + bs.length)

theorem Lawful.atEnd {α : Type} {enc : α → Except Err B} {dec : R α} {WF : α → Prop} (h : Lawful enc dec WF) :
    LawfulAtEnd enc dec WF := by
  intro v bs pre hwf he
  simpa using h v bs pre [] hwf he

/-- a writer that rejects what `struct.pack` rejects -/
def guard (fits : Prop) [Decidable fits] (bs : B) : Except Err B := if fits then .ok bs else .error .structError

theorem guard_ok {fits : Prop} [Decidable fits] {bs out : B} (h : guard fits bs = .ok out) : fits ∧ out = bs := by
  unfold guard at h
  split at h
  · exact ⟨‹fits›, by cases h; rfl⟩
  · cases h

/-- from the `At` form to the `pre ++ bs ++ post` form -/
theorem lawful_of_at {α : Type} {encT : α → B} {fits : α → Prop} [DecidablePred fits] {dec : R α} {WF : α → Prop}
    (h : ∀ v, WF v → fits v → ∀ d p, At d p (encT v) → dec d p = .ok (v, p + (encT v).length)) :
    Lawful (fun v => guard (fits v) (encT v)) dec WF := by
  intro v bs pre post hwf he
  obtain ⟨hf, rfl⟩ := guard_ok he
  exact h v hwf hf _ _ (At.intro pre (encT v) post)

/-! ### integers, byte strings -/

def encU (w n : Nat) : Except Err B := guard (FitsU w n) (beBytes w n)
def encI16 (z : Int) : Except Err B := guard (FitsI16 z) (i16T z)
def encI32 (z : Int) : Except Err B := guard (FitsI32 z) (i32T z)

theorem u_lawful (w : Nat) : Lawful (encU w) (readU w) (fun _ => True) :=
  lawful_of_at (encT := beBytes w) (fits := FitsU w) (fun v _ hf d p h => by
    rw [readU_at h hf, length_beBytes])

theorem u8_lawful : Lawful (encU 1) (readU 1) (fun _ => True) := u_lawful 1
theorem u16_lawful : Lawful (encU 2) (readU 2) (fun _ => True) := u_lawful 2
theorem u32_lawful : Lawful (encU 4) (readU 4) (fun _ => True) := u_lawful 4
theorem u64_lawful : Lawful (encU 8) (readU 8) (fun _ => True) := u_lawful 8

theorem i16_lawful : Lawful encI16 readI16 (fun _ => True) :=
  lawful_of_at (encT := i16T) (fits := FitsI16) (fun v _ hf d p h => by rw [readI16_at h hf, length_i16T])

theorem i32_lawful : Lawful encI32 readI32 (fun _ => True) :=
  lawful_of_at (encT := i32T) (fits := FitsI32) (fun v _ hf d p h => by rw [readI32_at h hf, length_i32T])

/-- `bytesN n`: a fixed-size field -/
theorem bytesN_lawful (n : Nat) : Lawful (fun (b : B) => guard (b.length = n) b) (readN n) (fun _ => True) :=
  lawful_of_at (encT := fun b => b) (fits := fun b => b.length = n) (fun v _ hf d p h => by
    rw [readN_at' h hf, hf])

/-- the `u32be`/`readU32` of the C20 key codec are this library's 4-byte integer -/
theorem beBytes4_eq_u32be (n : Nat) : beBytes 4 n = Globals.u32be n := by
  simp only [beBytes, Globals.u32be, List.nil_append, List.cons_append, List.cons.injEq, and_true]
  refine ⟨?_, ?_⟩ <;> congr 1 <;> omega

/-! ### padding, pascal strings, length blocks of raw bytes -/

/-- `padTo`: filler up to a multiple of `divisor`, skipped by a lenient read -/
theorem padTo_lawful (size divisor : Nat) :
    Lawful (fun (_ : Unit) => .ok (zeros (padAmount size divisor))) (readPadding size divisor) (fun _ => True) := by
  intro v bs pre post _ he
  cases he
  rw [readPadding_at (At.intro pre _ post), length_zeros]

theorem pascal_lawful (pad : Nat) :
    Lawful (fun (s : B) => guard (s.length < 256) (pascalT pad s)) (readPascal pad) (fun _ => True) :=
  lawful_of_at (encT := pascalT pad) (fits := fun s => s.length < 256) (fun v _ hf d p h => readPascal_at h hf)

theorem lenBlock_lawful (skip w pad : Nat) (hp : (skip + w) % pad = 0) :
    Lawful (fun (b : B) => guard (FitsU w b.length) (lenBlockT skip w pad b)) (readLenBlock skip w pad) (fun _ => True) :=
  lawful_of_at (encT := lenBlockT skip w pad) (fits := fun b => FitsU w b.length)
    (fun v _ hf d p h => readLenBlock_at h hf hp)

/-! ### a length block around an at-end-lawful body -/

def blockEnc {α : Type} (skip w pad : Nat) (enc : α → Except Err B) : α → Except Err B := fun v =>
  match enc v with
  | .ok body => guard (FitsU w body.length) (lenBlockT skip w pad body)
  | .error e => .error e

/-- `data = read_length_block(fp, …); with io.BytesIO(data) as f: return read(f)` -/
def blockDec {α : Type} (skip w pad : Nat) (dec : R α) : R α := fun d p =>
  match readLenBlock skip w pad d p with
  | .ok (data, p') =>
    match dec data 0 with
    | .ok (v, _) => .ok (v, p')
    | .error e => .error e
  | .error e => .error e

theorem block_lawful {α : Type} {enc : α → Except Err B} {dec : R α} {WF : α → Prop} (skip w pad : Nat)
    (hp : (skip + w) % pad = 0) (h : LawfulAtEnd enc dec WF) :
    Lawful (blockEnc skip w pad enc) (blockDec skip w pad dec) WF := by
  intro v bs pre post hwf he
  unfold blockEnc at he
  cases hb : enc v with
  | error e => rw [hb] at he; cases he
  | ok body =>
    rw [hb] at he
    obtain ⟨hf, rfl⟩ := guard_ok he
    have e1 := readLenBlock_at (At.intro pre (lenBlockT skip w pad body) post) hf hp
    have e2 := h v body [] hwf hb
    simp only [List.nil_append, List.length_nil, Nat.zero_add] at e2
    simp only [blockDec, e1, e2]

/-! ### lists -/

def encList {α : Type} (enc : α → Except Err B) : List α → Except Err B
  | [] => .ok []
  | v :: vs =>
    match enc v with
    | .error e => .error e
    | .ok a =>
      match encList enc vs with
      | .error e => .error e
      | .ok b => .ok (a ++ b)

/-- count lists: `n` items one after the other -/
theorem countList_lawful {α : Type} {enc : α → Except Err B} {dec : R α} {WF : α → Prop} (h : Lawful enc dec WF) :
    ∀ (vs : List α) (bs pre post : B), (∀ v ∈ vs, WF v) → encList enc vs = .ok bs →
      readCount dec vs.length (pre ++ bs ++ post) pre.length = .ok (vs, pre.length + bs.length) := by
  intro vs
  induction vs with
  | nil => intro bs pre post _ he; cases he; simp [readCount]
  | cons v vs ih =>
    intro bs pre post hwf he
    simp only [encList] at he
    cases ha : enc v with
    | error e => rw [ha] at he; cases he
    | ok a =>
      rw [ha] at he
      cases hb : encList enc vs with
      | error e => rw [hb] at he; cases he
      | ok b =>
        rw [hb] at he
        cases he
        have e1 := h v a pre (b ++ post) (hwf v (by simp)) ha
        have e2 := ih b (pre ++ a) post (fun x hx => hwf x (by simp [hx])) hb
        simp only [List.append_assoc, List.length_append] at e1 e2 ⊢
        simp only [List.length_cons, readCount, e1, e2, Nat.add_assoc]

/-- `untilEnd k`: `while is_readable(fp, k): items.append(read(fp))` — lawful at end only:
the loop stops because fewer than `k` bytes are left, which says something about `post`. -/
theorem untilEnd_lawfulAtEnd {α : Type} {enc : α → Except Err B} {dec : R α} {WF : α → Prop} (k : Nat)
    (hk : 1 ≤ k) (h : Lawful enc dec WF) (hsize : ∀ v bs, enc v = .ok bs → k ≤ bs.length) :
    ∀ (vs : List α) (bs pre : B), (∀ v ∈ vs, WF v) → encList enc vs = .ok bs →
      readWhile (isReadable k) (optItem dec) (pre ++ bs) pre.length = .ok (vs, pre.length + bs.length) := by
  have key : ∀ (vs : List α) (bs pre post : B), post.length < k → (∀ v ∈ vs, WF v) → encList enc vs = .ok bs →
      ∀ fuel, vs.length < fuel →
      readWhileFuel (isReadable k) (optItem dec) fuel (pre ++ bs ++ post) pre.length =
        .ok (vs, pre.length + bs.length) := by
    intro vs
    induction vs with
    | nil =>
      intro bs pre post hpost _ he fuel hf
      cases he
      cases fuel with
      | zero => omega
      | succ fuel =>
        have : isReadable k (pre ++ post) pre.length = false :=
          isReadable_false (by simp only [List.length_append]; omega)
        simp [readWhileFuel, this]
    | cons v vs ih =>
      intro bs pre post hpost hwf he fuel hf
      simp only [encList] at he
      cases ha : enc v with
      | error e => rw [ha] at he; cases he
      | ok a =>
        rw [ha] at he
        cases hb : encList enc vs with
        | error e => rw [hb] at he; cases he
        | ok b =>
          rw [hb] at he
          cases he
          cases fuel with
          | zero => omega
          | succ fuel =>
            have hsz := hsize v a ha
            have hc : isReadable k (pre ++ (a ++ b) ++ post) pre.length = true := by
              simp only [isReadable, List.length_append, decide_eq_true_eq]; omega
            have e1 := h v a pre (b ++ post) (hwf v (by simp)) ha
            have e2 := ih b (pre ++ a) post hpost (fun x hx => hwf x (by simp [hx])) hb fuel (by simpa using hf)
            simp only [List.append_assoc, List.length_append] at e1 e2 hc ⊢
            simp only [readWhileFuel, hc, if_true, optItem, e1, e2, Nat.add_assoc]
  intro vs bs pre hwf he
  have hlen : vs.length ≤ bs.length := by
    clear key
    induction vs generalizing bs with
    | nil => simp
    | cons v vs ih =>
      simp only [encList] at he
      cases ha : enc v with
      | error e => rw [ha] at he; cases he
      | ok a =>
        rw [ha] at he
        cases hb : encList enc vs with
        | error e => rw [hb] at he; cases he
        | ok b =>
          rw [hb] at he
          cases he
          have := hsize v a ha
          have := ih b (fun x hx => hwf x (by simp [hx])) hb
          simp only [List.length_cons, List.length_append]; omega
  have := key vs bs pre [] (by simp; omega) hwf he ((pre ++ bs).length - pre.length + 1)
    (by simp only [List.length_append]; omega)
  simpa [readWhile] using this

end PsdVerif.Codec
