/-
C06 — the counting twins of Model/PayloadCostAdjust.lean erase to the readers of Model/Payload3Adjust.lean and obey the
cost judgement with the constants recorded in their `CC.hand`; the combinator terms are sound by composition.

The readers of the extra marker of `Curves` report the cursor at which they failed; `CostE` is the judgement for their
twins: a failure at cursor `q` is paid by the bytes consumed up to `q` (so that `Curves.read`, which goes on from `q`
after `except IOError`, is paid by what it consumed).
-/
import PsdVerif.Model.PayloadCostAdjust
import PsdVerif.Lemmas.PayloadCostSimple

namespace PsdVerif.PayloadCost
open PsdVerif PsdVerif.Codec PsdVerif.PsdCost PsdVerif.Payload PsdVerif.Payload3 PsdVerif.Safe PsdVerif.SafeCost

/-! ## the flat classes -/

theorem BrightnessContrast.cc_c : BrightnessContrast.cc.c = BrightnessContrast.codec := rfl
theorem BrightnessContrast.cc_sound : BrightnessContrast.cc.Sound := CC.fmt_sound _

theorem ColorBalance.cc_c : ColorBalance.cc.c = ColorBalance.codec := rfl
theorem ColorBalance.cc_sound : ColorBalance.cc.Sound :=
  CC.padded_sound 4 (CC.seq_sound (CC.fmt_sound _) (CC.seq_sound (CC.fmt_sound _) (CC.seq_sound (CC.fmt_sound _) (CC.fmt_sound _))))

theorem ChannelMixer.cc_c : ChannelMixer.cc.c = ChannelMixer.codec := rfl
theorem ChannelMixer.cc_sound : ChannelMixer.cc.Sound :=
  CC.checked_sound (CC.seq_sound (CC.fmt_sound _) (CC.seq_sound (CC.fmt_sound _) CC.tailBytes_sound)) _ _ (by decide)

theorem Exposure.cc_c (pad : Nat) : (Exposure.cc pad).c = Exposure.codec pad := rfl
theorem Exposure.cc_sound (pad : Nat) : (Exposure.cc pad).Sound := CC.padded_sound pad (CC.fmt_sound _)

theorem HueSaturation.itemCC_c : HueSaturation.itemCC.c = HueSaturation.itemCodec := rfl
theorem HueSaturation.itemCC_sound : HueSaturation.itemCC.Sound := CC.seq_sound (CC.fmt_sound _) (CC.fmt_sound _)

theorem HueSaturation.cc_c : HueSaturation.cc.c = HueSaturation.codec := rfl
theorem HueSaturation.cc_sound : HueSaturation.cc.Sound :=
  CC.padded_sound 4 (CC.seq_sound (CC.checked_sound (CC.fmt_sound _) _ _ (by decide))
    (CC.seq_sound (CC.fmt_sound _) (CC.seq_sound (CC.fmt_sound _) (CC.exactly_sound 6 HueSaturation.itemCC_sound))))

theorem LevelRecord.cc_c : LevelRecord.cc.c = LevelRecord.codec := rfl
theorem LevelRecord.cc_sound : LevelRecord.cc.Sound := CC.fmt_sound _

theorem SelectiveColor.cc_c : SelectiveColor.cc.c = SelectiveColor.codec := rfl
theorem SelectiveColor.cc_sound : SelectiveColor.cc.Sound :=
  CC.checked_sound (CC.seq_sound (CC.fmt_sound _) (CC.exactly_sound 10 (CC.fmt_sound _))) _ _ (by decide)

theorem ColorStop.cc_c : ColorStop.cc.c = ColorStop.codec := rfl
theorem ColorStop.cc_sound : ColorStop.cc.Sound := CC.fmt_sound _

theorem TransparencyStop.cc_c : TransparencyStop.cc.c = TransparencyStop.codec := rfl
theorem TransparencyStop.cc_sound : TransparencyStop.cc.Sound := CC.fmt_sound _

/-! ## Levels -/

theorem Levels.decC_fst (d : B) (p : Nat) : (Levels.decC d p).1 = Levels.dec d p := by
  unfold Levels.decC Levels.dec
  refine erase_bind (readUC_fst ..) fun ⟨version, p⟩ => ?_
  dsimp only
  split
  · refine erase_bind (readCountC_fst (fmtDecC_fst _) ..) fun ⟨items, p⟩ => ?_
    refine erase_ok (isReadableC_fst 6 d p) ?_
    refine erase_bind ?_ fun ⟨x, p⟩ => ?_
    · split
      · refine erase_bind (readNC_fst ..) fun ⟨sig, p⟩ => ?_
        refine erase_bind (readUC_fst ..) fun ⟨ev, p⟩ => ?_
        dsimp only
        split
        · split
          · refine erase_bind (readUC_fst ..) fun ⟨count, p⟩ => ?_
            refine erase_bind (readCountC_fst (fmtDecC_fst _) ..) fun ⟨more, p⟩ => ?_
            rfl
          · rfl
        · rfl
      · rfl
    · dsimp only
      split <;> rfl
  · rfl

/-- 29 records (a constant of the format), then `count - 29` records of 10 bytes each: the declared count does not
enter the bound -/
theorem Levels.decC_cost : CostR 3 71 292 Levels.decC := by
  intro d p hp
  apply Cost.mono
  case h =>
    unfold Levels.decC
    cbind (readUC_cost 2)
    cif
    cbind (readCountC_cost_fixed (fun q hq => fmtDecC_cost LevelRecord.fmt hq) 29 _ (by assumption))
    apply Cost.step (n := 7) (by rw [isReadableC_w']; omega) (by intro h; cases h)
    intro r _
    apply Cost.bind
    case hm =>
      cif
      · cbind (readNC_cost 4)
        cbind (readUC_cost 2)
        cif
        cif
        cbind (readUC_cost 2)
        cbind (readCountC_cost (fun q hq => fmtDecC_cost LevelRecord.fmt hq) (by decide) _ _ (by assumption))
        cdone
      · cdone
    case hf =>
      intro _ _ _ _
      dsimp only
      cif
      cdone
  cside

theorem Levels.cc_c : Levels.cc.c = Levels.codec := rfl
theorem Levels.cc_sound : Levels.cc.Sound := CC.hand_sound Levels.decC_fst Levels.decC_cost

/-! ## PhotoFilter -/

theorem PhotoFilter.decC_fst (d : B) (p : Nat) : (PhotoFilter.decC d p).1 = PhotoFilter.dec d p := by
  unfold PhotoFilter.decC PhotoFilter.dec
  refine erase_bind (readUC_fst ..) fun ⟨version, p⟩ => ?_
  dsimp only
  split
  · refine erase_bind ?_ fun ⟨xc, p⟩ => ?_
    · split
      · rw [bind_fst, fmtDecC_fst]
        cases fmtDec PhotoFilter.xyzFmt d p <;> rfl
      · rw [bind_fst, fmtDecC_fst]
        cases fmtDec PhotoFilter.colorFmt d p <;> rfl
    · refine erase_bind (fmtDecC_fst ..) fun ⟨tail, p⟩ => ?_
      rfl
  · rfl

theorem PhotoFilter.decC_cost : CostR 1 3 17 PhotoFilter.decC := by
  intro d p hp
  apply Cost.mono
  case h =>
    unfold PhotoFilter.decC
    cbind (readUC_cost 2)
    cif
    apply Cost.bind
    case hm =>
      cif
      · exact Cost.map (g := fun (r : Row) => (r, ([] : Row))) (fmtDecC_cost PhotoFilter.xyzFmt)
      · exact Cost.map (g := fun (r : Row) => (([] : Row), r)) (fmtDecC_cost PhotoFilter.colorFmt)
    case hf =>
      intro _ _ _ _
      dsimp only
      cbind (fmtDecC_cost PhotoFilter.tailFmt)
      cdone
  cside

theorem PhotoFilter.cc_c : PhotoFilter.cc.c = PhotoFilter.codec := rfl
theorem PhotoFilter.cc_sound : PhotoFilter.cc.Sound := CC.hand_sound PhotoFilter.decC_fst PhotoFilter.decC_cost

/-! ## GradientMap -/

theorem GradientMap.headDecC_fst (d : B) (p : Nat) : (GradientMap.headDecC d p).1 = GradientMap.head.dec d p := by
  unfold GradientMap.headDecC GradientMap.head
  dsimp only
  refine erase_bind (fmtDecC_fst ..) fun ⟨h, p⟩ => ?_
  dsimp only
  split
  · split
    · refine erase_bind (readNC_fst ..) fun ⟨m, p⟩ => ?_
      rfl
    · rfl
  · rfl

theorem GradientMap.headDecC_cost : CostR 1 2 4 GradientMap.headDecC := by
  intro d p hp
  apply Cost.mono
  case h =>
    unfold GradientMap.headDecC
    cbind (fmtDecC_cost GradientMap.headFmt)
    cif
    cif
    · cbind (readNC_cost 4)
      cdone
    · cdone
  cside

theorem GradientMap.headCC_c : GradientMap.headCC.c = GradientMap.head := rfl
theorem GradientMap.headCC_sound : GradientMap.headCC.Sound :=
  CC.hand_sound GradientMap.headDecC_fst GradientMap.headDecC_cost

theorem GradientMap.expansionCC_c : GradientMap.expansionCC.c = GradientMap.expansion := rfl
theorem GradientMap.expansionCC_sound : GradientMap.expansionCC.Sound :=
  CC.checked_sound (CC.fmt_sound _) _ _ (by decide)

theorem GradientMap.cc_c : GradientMap.cc.c = GradientMap.codec := rfl
theorem GradientMap.cc_sound : GradientMap.cc.Sound :=
  CC.padded_sound 4 (CC.checked_sound
    (CC.seq_sound GradientMap.headCC_sound (CC.seq_sound CC.ustr_sound (CC.seq_sound (CC.counted_sound 2 ColorStop.cc_sound)
      (CC.seq_sound (CC.counted_sound 2 TransparencyStop.cc_sound) (CC.seq_sound GradientMap.expansionCC_sound
        (CC.seq_sound (CC.fmt_sound _) (CC.seq_sound (CC.fmt_sound _) (CC.seq_sound (CC.fmt_sound _)
          (CC.seq_sound (CC.fmt_sound _) (CC.fmt_sound _))))))))))
    _ _ (by decide))

/-! ## the counting monad of the readers that report where they failed -/

theorem bindE_ok {α β : Type} {m : CEE β} {f : β → CEE α} {a : β} (h : m.1 = .ok a) :
    (m >>= f) = ((f a).1, m.2 + (f a).2) := by
  show CEE.bind m f = _
  unfold CEE.bind; rw [h]

theorem bindE_err {α β : Type} {m : CEE β} {f : β → CEE α} {e : Err × Nat} (h : m.1 = .error e) :
    (m >>= f) = (.error e, m.2) := by
  show CEE.bind m f = _
  unfold CEE.bind; rw [h]

theorem bindE_fst {α β : Type} (m : CEE β) (f : β → CEE α) :
    (m >>= f).1 = (match m.1 with | .ok a => (f a).1 | .error e => .error e) := by
  show (CEE.bind m f).1 = _
  unfold CEE.bind
  cases m.1 <;> rfl

theorem tickE_fst : tickE.1 = .ok () := rfl
theorem tickE_w : tickE.2.w = 1 := rfl
theorem okE_w {γ : Type} (x : γ) : (CEE.ok x : CEE γ).2.w = 0 := rfl
theorem fmtDecEC_fst (fs : List FI) (d : B) (p : Nat) : (fmtDecEC fs d p).1 = fmtDecE fs d p := rfl

/-- success at `p'`: as `Cost`; failure `e` at `q`: `p ≤ q ≤ len` and ticks + bytes ≤ `a · (q − p) + b` -/
def CostE {β : Type} (a b k : Nat) (d : B) (p : Nat) (x : CEE (β × Nat)) : Prop :=
  match x.1 with
  | .ok (_, p') => p + k ≤ p' ∧ p' ≤ d.length ∧ x.2.w ≤ a * (p' - p) + b
  | .error (e, q) => e ≠ .other ∧ p ≤ q ∧ q ≤ d.length ∧ x.2.w ≤ a * (q - p) + b

theorem CostE.of_ok {β : Type} {a b k : Nat} {d : B} {p : Nat} {x : CEE (β × Nat)} {v : β} {p' : Nat}
    (h : CostE a b k d p x) (hx : x.1 = .ok (v, p')) : p + k ≤ p' ∧ p' ≤ d.length ∧ x.2.w ≤ a * (p' - p) + b := by
  unfold CostE at h; rw [hx] at h; exact h

theorem CostE.of_error {β : Type} {a b k : Nat} {d : B} {p : Nat} {x : CEE (β × Nat)} {e : Err} {q : Nat}
    (h : CostE a b k d p x) (hx : x.1 = .error (e, q)) :
    e ≠ .other ∧ p ≤ q ∧ q ≤ d.length ∧ x.2.w ≤ a * (q - p) + b := by
  unfold CostE at h; rw [hx] at h; exact h

theorem CostE.intro {β : Type} {a b k : Nat} {d : B} {p : Nat} {x : CEE (β × Nat)}
    (hok : ∀ v p', x.1 = .ok (v, p') → p + k ≤ p' ∧ p' ≤ d.length ∧ x.2.w ≤ a * (p' - p) + b)
    (herr : ∀ e q, x.1 = .error (e, q) → e ≠ .other ∧ p ≤ q ∧ q ≤ d.length ∧ x.2.w ≤ a * (q - p) + b) :
    CostE a b k d p x := by
  unfold CostE
  cases hx : x.1 with
  | error y => obtain ⟨e, q⟩ := y; exact herr e q hx
  | ok y => obtain ⟨v, p'⟩ := y; exact hok v p' hx

theorem CostE.mono {β : Type} {a a' b b' k k' : Nat} {d : B} {p : Nat} {x : CEE (β × Nat)}
    (h : CostE a' b' k' d p x) (ha : a' ≤ a) (hb : b' ≤ b) (hk : k ≤ k') : CostE a b k d p x := by
  refine CostE.intro (fun v p' hx => ?_) (fun e q hx => ?_)
  · have h1 := h.of_ok hx
    have : a' * (p' - p) ≤ a * (p' - p) := Nat.mul_le_mul_right _ ha
    exact ⟨by omega, h1.2.1, by omega⟩
  · have h1 := h.of_error hx
    have : a' * (q - p) ≤ a * (q - p) := Nat.mul_le_mul_right _ ha
    exact ⟨h1.1, h1.2.1, h1.2.2.1, by omega⟩

theorem CostE.ok {β : Type} {d : B} {q : Nat} (v : β) (hq : q ≤ d.length) :
    CostE 0 0 0 d q (CEE.ok (v, q) : CEE (β × Nat)) := by
  refine CostE.intro (fun v' p' hx => ?_) (fun e q' hx => by cases hx)
  cases hx
  have : (CEE.ok (v, q) : CEE (β × Nat)).2.w = 0 := rfl
  exact ⟨by omega, hq, by omega⟩

/-- a `raise` at the current cursor -/
theorem CostE.error {β : Type} {d : B} {p : Nat} (k : Nat) {e : Err} (he : e ≠ .other) (hp : p ≤ d.length) :
    CostE 0 0 k d p (CEE.error (e, p) : CEE (β × Nat)) := by
  refine CostE.intro (fun v' p' hx => by cases hx) (fun e' q hx => ?_)
  cases hx
  have : (CEE.error (e, p) : CEE (β × Nat)).2.w = 0 := rfl
  exact ⟨he, Nat.le_refl _, hp, by omega⟩

/-- `if c then … else raise e` (an assert, a validator) -/
theorem CostE.ite_else_error {β : Type} {a b k : Nat} {d : B} {p : Nat} {c : Prop} [Decidable c]
    {x : CEE (β × Nat)} {e : Err} (hx : c → CostE a b k d p x) (he : e ≠ .other) (hp : p ≤ d.length) :
    CostE a b k d p (if c then x else CEE.error (e, p)) := by
  split
  · exact hx ‹_›
  · exact (CostE.error k he hp).mono (Nat.zero_le _) (Nat.zero_le _) (Nat.le_refl _)

theorem CostE.bind {α β : Type} {a₁ a₂ b₁ b₂ k₁ k₂ : Nat} {d : B} {p : Nat} {m : CEE (β × Nat)}
    {f : β × Nat → CEE (α × Nat)} (hm : CostE a₁ b₁ k₁ d p m)
    (hf : ∀ v p₁, m.1 = .ok (v, p₁) → p₁ ≤ d.length → CostE a₂ b₂ k₂ d p₁ (f (v, p₁))) :
    CostE (max a₁ a₂) (b₁ + b₂) (k₁ + k₂) d p (m >>= f) := by
  have hm' := hm.mono (Nat.le_max_left a₁ a₂) (Nat.le_refl _) (Nat.le_refl _)
  cases hm1 : m.1 with
  | error y =>
    obtain ⟨e, q⟩ := y
    rw [bindE_err hm1]
    refine CostE.intro (fun _ _ hx => by cases hx) (fun e' q' hx => ?_)
    cases hx
    have h1 := hm'.of_error hm1
    exact ⟨h1.1, h1.2.1, h1.2.2.1, by show m.2.w ≤ _; omega⟩
  | ok y =>
    obtain ⟨v, p₁⟩ := y
    have h1 := hm'.of_ok hm1
    have h2' := (hf v p₁ hm1 h1.2.1).mono (Nat.le_max_right a₁ a₂) (Nat.le_refl _) (Nat.le_refl _)
    rw [bindE_ok hm1]
    refine CostE.intro (fun v' p' hx => ?_) (fun e' q' hx => ?_)
    · have h2 := h2'.of_ok hx
      have hs := mul_split (max a₁ a₂) (x := p₁ - p) (y := p' - p₁) (z := p' - p) (by omega)
      refine ⟨by omega, h2.2.1, ?_⟩
      show (m.2 + (f (v, p₁)).2).w ≤ _
      rw [w_add]
      omega
    · have h2 := h2'.of_error hx
      have hs := mul_split (max a₁ a₂) (x := p₁ - p) (y := q' - p₁) (z := q' - p) (by omega)
      refine ⟨h2.1, by omega, h2.2.2.1, ?_⟩
      show (m.2 + (f (v, p₁)).2).w ≤ _
      rw [w_add]
      omega

/-- `ebind h`: the next statement of a `do` block in `CEE` costs `h` -/
macro "ebind " t:term : tactic => `(tactic| (apply CostE.bind $t; intro _ _ _ _; try dsimp only))

/-- `read_fmt` that restores the cursor when it fails: the failed read returned fewer than `calcsize(fmt)` bytes -/
theorem fmtDecEC_cost (fs : List FI) {d : B} {p : Nat} (hp : p ≤ d.length := by assumption) :
    CostE 1 (1 + fmtSize fs) (fmtSize fs) d p (fmtDecEC fs d p) := by
  have hw : (fmtDecEC fs d p).2.w = 1 + min (fmtSize fs) (d.length - p) := rfl
  refine CostE.intro (fun v p' hx => ?_) (fun e q hx => ?_)
  · rw [fmtDecEC_fst] at hx
    unfold fmtDecE at hx
    split at hx
    · rename_i r h
      cases hx
      have := fmtDec_ok h hp
      exact ⟨by omega, by omega, by omega⟩
    · cases hx
  · rw [fmtDecEC_fst] at hx
    unfold fmtDecE at hx
    split at hx
    · cases hx
    · rename_i e' h
      cases hx
      have := fmtDec_err h
      subst this
      exact ⟨by decide, Nat.le_refl _, hp, by omega⟩

/-- `for _ in range(n)` with a body that consumes ≥ 1 byte when it succeeds: the bound does not mention `n` -/
theorem readCountEC_cost {α : Type} {item : REC α} {a b k : Nat} {d : B}
    (hi : ∀ p, p ≤ d.length → CostE a b k d p (item d p)) (hk : 1 ≤ k) (n : Nat) (p : Nat) (hp : p ≤ d.length) :
    CostE (a + b + 1) (b + 1) 0 d p (readCountEC item n d p) := by
  induction n generalizing p with
  | zero => exact (CostE.ok _ hp).mono (Nat.zero_le _) (Nat.zero_le _) (Nat.le_refl _)
  | succ n ih =>
    unfold readCountEC
    rw [bindE_ok tickE_fst]
    cases h1 : (item d p).1 with
    | error y =>
      obtain ⟨e', q⟩ := y
      rw [bindE_err h1]
      refine CostE.intro (fun _ _ hx => by cases hx) (fun _ _ hx => ?_)
      cases hx
      have i1 := (hi p hp).of_error h1
      have hs1 : (a + b + 1) * (q - p) = a * (q - p) + b * (q - p) + (q - p) := by
        rw [Nat.add_mul, Nat.add_mul, Nat.one_mul]
      refine ⟨i1.1, i1.2.1, i1.2.2.1, ?_⟩
      show (tickE.2 + (item d p).2).w ≤ _
      rw [w_add, tickE_w]
      omega
    | ok y =>
      obtain ⟨a1, p1⟩ := y
      have i1 := (hi p hp).of_ok h1
      rw [bindE_ok h1]
      dsimp only
      have hs1 : (a + b + 1) * (p1 - p) = a * (p1 - p) + b * (p1 - p) + (p1 - p) := by
        rw [Nat.add_mul, Nat.add_mul, Nat.one_mul]
      have hb1 : b ≤ b * (p1 - p) := Nat.le_mul_of_pos_right b (by omega)
      cases h2 : (readCountEC item n d p1).1 with
      | error z =>
        obtain ⟨e', q⟩ := z
        rw [bindE_err h2]
        refine CostE.intro (fun _ _ hx => by cases hx) (fun _ _ hx => ?_)
        cases hx
        have i2 := (ih p1 i1.2.1).of_error h2
        have hs := mul_split (a + b + 1) (x := p1 - p) (y := q - p1) (z := q - p) (by omega)
        refine ⟨i2.1, by omega, i2.2.2.1, ?_⟩
        show (tickE.2 + ((item d p).2 + (readCountEC item n d p1).2)).w ≤ _
        rw [w_add, w_add, tickE_w]
        omega
      | ok z =>
        obtain ⟨as, p2⟩ := z
        have i2 := (ih p1 i1.2.1).of_ok h2
        rw [bindE_ok h2]
        refine CostE.intro (fun vs p' hx => ?_) (fun _ _ hx => by cases hx)
        cases hx
        have hs := mul_split (a + b + 1) (x := p1 - p) (y := p2 - p1) (z := p2 - p) (by omega)
        refine ⟨by omega, i2.2.1, ?_⟩
        show (tickE.2 + ((item d p).2 + ((readCountEC item n d p1).2 + (CEE.ok (a1 :: as, p2) : CEE (List α × Nat)).2))).w ≤ _
        rw [w_add, w_add, w_add, tickE_w, okE_w]
        try dsimp only
        omega

theorem readCountEC_fst {α : Type} {itemC : REC α} {item : RE α} (hi : ∀ d p, (itemC d p).1 = item d p)
    (n : Nat) (d : B) (p : Nat) : (readCountEC itemC n d p).1 = readCountE item n d p := by
  induction n generalizing p with
  | zero => rfl
  | succ n ih =>
    unfold readCountEC readCountE
    rw [bindE_ok tickE_fst]
    show (itemC d p >>= _).1 = _
    rw [bindE_fst, hi]
    cases item d p with
    | error e => rfl
    | ok x =>
      obtain ⟨a, p1⟩ := x
      simp only
      rw [bindE_fst, ih]
      cases readCountE item n d p1 with
      | error e => rfl
      | ok y => rfl

/-! ## CurvesExtraItem, CurvesExtraMarker -/

theorem CurvesExtraItem.decEC_fst (isMap : Bool) (d : B) (p : Nat) :
    (CurvesExtraItem.decEC isMap d p).1 = CurvesExtraItem.decE isMap d p := by
  unfold CurvesExtraItem.decEC CurvesExtraItem.decE
  split
  · rw [bindE_fst, fmtDecEC_fst]
    cases fmtDecE [U 2] d p with
    | error e => rfl
    | ok y =>
      obtain ⟨c, p1⟩ := y
      simp only
      rw [bindE_fst, fmtDecEC_fst]
      cases fmtDecE mapFmt d p1 with
      | error e => rfl
      | ok z => rfl
  · rw [bindE_fst, fmtDecEC_fst]
    cases fmtDecE [U 2, U 2] d p with
    | error e => rfl
    | ok y =>
      obtain ⟨h, p1⟩ := y
      simp only
      rw [bindE_fst, readCountEC_fst (fmtDecEC_fst pairFmt)]
      cases readCountE (fmtDecE pairFmt) (h.int 1).toNat d p1 with
      | error e => rfl
      | ok z => rfl

theorem fmtSize_replicate_U1 (n : Nat) : fmtSize (List.replicate n (U 1)) = n := by
  induction n with
  | zero => rfl
  | succ n ih =>
    rw [List.replicate_succ]
    show 1 + fmtSize (List.replicate n (U 1)) = n + 1
    omega

theorem mapFmt_size : fmtSize mapFmt = 256 := fmtSize_replicate_U1 256

/-- `for c in range(point_count)`: every point consumes 4 bytes -/
theorem CurvesExtraItem.decEC_cost (isMap : Bool) (d : B) (p : Nat) (hp : p ≤ d.length) :
    CostE 7 260 4 d p (CurvesExtraItem.decEC isMap d p) := by
  unfold CurvesExtraItem.decEC
  split
  · apply CostE.mono
    case h =>
      ebind (fmtDecEC_cost [U 2])
      ebind (fmtDecEC_cost mapFmt)
      exact CostE.ok _ (by assumption)
    all_goals first | (rw [mapFmt_size]; decide) | decide
  · apply CostE.mono
    case h =>
      ebind (fmtDecEC_cost [U 2, U 2])
      ebind (readCountEC_cost (fun q hq => fmtDecEC_cost pairFmt hq) (by decide) _ _ (by assumption))
      exact CostE.ok _ (by assumption)
    all_goals decide

theorem CurvesExtraMarker.decEC_fst (isMap : Bool) (d : B) (p : Nat) :
    (CurvesExtraMarker.decEC isMap d p).1 = CurvesExtraMarker.decE isMap d p := by
  unfold CurvesExtraMarker.decEC CurvesExtraMarker.decE
  rw [bindE_fst, fmtDecEC_fst]
  cases fmtDecE CurvesExtraMarker.hdrFmt d p with
  | error e => rfl
  | ok y =>
    obtain ⟨h, p1⟩ := y
    simp only
    split
    · rw [bindE_fst, readCountEC_fst (CurvesExtraItem.decEC_fst isMap)]
      cases readCountE (CurvesExtraItem.decE isMap) (h.int 2).toNat d p1 with
      | error e => rfl
      | ok z =>
        obtain ⟨items, p2⟩ := z
        simp only
        split <;> rfl
    · rfl

/-- `for _ in range(count)`: every item consumes at least its 4-byte head -/
theorem CurvesExtraMarker.decEC_cost (isMap : Bool) (d : B) (p : Nat) (hp : p ≤ d.length) :
    CostE 268 272 10 d p (CurvesExtraMarker.decEC isMap d p) := by
  apply CostE.mono
  case h =>
    unfold CurvesExtraMarker.decEC
    ebind (fmtDecEC_cost CurvesExtraMarker.hdrFmt)
    apply CostE.ite_else_error (he := by decide) (hp := by assumption)
    intro _
    ebind (readCountEC_cost (fun q hq => CurvesExtraItem.decEC_cost isMap d q hq) (by decide) _ _ (by assumption))
    apply CostE.ite_else_error (he := by decide) (hp := by assumption)
    intro _
    exact CostE.ok _ (by assumption)
  all_goals decide

/-- the constants of the two shapes are the proved ones -/
theorem CurvesExtraItem.sh_cost (isMap : Bool) (d : B) (p : Nat) (hp : p ≤ d.length) :
    CostE CurvesExtraItem.sh.a CurvesExtraItem.sh.b CurvesExtraItem.sh.k d p (CurvesExtraItem.decEC isMap d p) :=
  CurvesExtraItem.decEC_cost isMap d p hp

theorem CurvesExtraMarker.sh_cost (isMap : Bool) (d : B) (p : Nat) (hp : p ≤ d.length) :
    CostE CurvesExtraMarker.sh.a CurvesExtraMarker.sh.b CurvesExtraMarker.sh.k d p (CurvesExtraMarker.decEC isMap d p) :=
  CurvesExtraMarker.decEC_cost isMap d p hp

/-! ## Curves -/

theorem Curves.curveDecC_fst (d : B) (p : Nat) : (Curves.curveDecC d p).1 = Curves.curveDec d p := by
  unfold Curves.curveDecC Curves.curveDec
  refine erase_bind (readUC_fst ..) fun ⟨n, p⟩ => ?_
  dsimp only
  split
  · exact readCountC_fst (fmtDecC_fst pairFmt) n d p
  · rfl

/-- `assert 2 <= point_count <= 19`, then `point_count` points of 4 bytes -/
theorem Curves.curveDecC_cost : CostR 3 3 2 Curves.curveDecC := by
  intro d p hp
  apply Cost.mono
  case h =>
    unfold Curves.curveDecC
    cbind (readUC_cost 2)
    cif
    exact readCountC_cost (fun q hq => fmtDecC_cost pairFmt hq) (by decide) _ _ (by assumption)
  cside

theorem Curves.dataDecC_fst (isMap : Bool) (count : Nat) (d : B) (p : Nat) :
    (Curves.dataDecC isMap count d p).1 = Curves.dataDec isMap count d p := by
  unfold Curves.dataDecC Curves.dataDec
  split
  · rw [bind_fst, readCountC_fst (fmtDecC_fst mapFmt)]
    cases readCount (fmtDec mapFmt) count d p <;> rfl
  · rw [bind_fst, readCountC_fst Curves.curveDecC_fst]
    cases readCount Curves.curveDec count d p <;> rfl

/-- `for _ in range(count)` (`count` = `count_map` or its number of 1 bits): a map consumes 256 bytes, a curve at
least its 2-byte point count, so the count does not enter the bound -/
theorem Curves.dataDecC_cost (isMap : Bool) (count : Nat) : CostR 7 4 0 (Curves.dataDecC isMap count) := by
  intro d p hp
  unfold Curves.dataDecC
  split
  · exact (Cost.map (g := CurveData.maps)
      (readCountC_cost (fun q hq => fmtDecC_cost mapFmt hq) (by rw [mapFmt_size]; decide) count p hp)).mono
      (by decide) (by decide) (by decide)
  · exact (Cost.map (g := CurveData.curves)
      (readCountC_cost (fun q hq => Curves.curveDecC_cost d q hq) (by decide) count p hp)).mono
      (by decide) (by decide) (by decide)

theorem Curves.extraDecC_fst (isMap : Bool) (version : Nat) (d : B) (p : Nat) :
    (Curves.extraDecC isMap version d p).1 = Curves.extraDec isMap version d p := by
  unfold Curves.extraDecC Curves.extraDec
  split
  · rw [← CurvesExtraMarker.decEC_fst isMap d p]
    cases h : (CurvesExtraMarker.decEC isMap d p).1 with
    | ok y => simp only
    | error y =>
      obtain ⟨e, q⟩ := y
      cases e <;> simp only
  · rfl

/-- the attempt is paid by the bytes it consumed: the marker when it was read, the part before the read that ran out
of data when it was not -/
theorem Curves.extraDecC_cost (isMap : Bool) (version : Nat) : CostR 268 272 0 (Curves.extraDecC isMap version) := by
  intro d p hp
  unfold Curves.extraDecC
  split
  · have hm := CurvesExtraMarker.decEC_cost isMap d p hp
    cases h : (CurvesExtraMarker.decEC isMap d p).1 with
    | ok y =>
      obtain ⟨m, p'⟩ := y
      have h1 := hm.of_ok h
      simp only
      refine Cost.intro (fun v q hx => ?_) (fun e hx => by cases hx)
      cases hx
      exact ⟨by omega, h1.2.1, h1.2.2⟩
    | error y =>
      obtain ⟨e, q⟩ := y
      have h1 := hm.of_error h
      have hle : 268 * (q - p) ≤ 268 * (d.length - p) := Nat.mul_le_mul_left _ (by omega)
      cases e <;> simp only
      case ioError =>
        refine Cost.intro (fun v q' hx => ?_) (fun e hx => by cases hx)
        cases hx
        exact ⟨by omega, h1.2.2.1, h1.2.2.2⟩
      case other => exact absurd rfl h1.1
      all_goals
        refine Cost.intro (fun v q' hx => by cases hx) (fun e hx => ?_)
        cases hx
        exact ⟨by decide, Nat.le_trans h1.2.2.2 (by omega)⟩
  · exact (Cost.ok _ hp).mono (by decide) (by decide) (by decide)

theorem Curves.decC_fst (d : B) (p : Nat) : (Curves.decC d p).1 = Curves.dec d p := by
  unfold Curves.decC Curves.dec
  refine erase_bind (readUC_fst ..) fun ⟨isMapByte, p⟩ => ?_
  refine erase_bind (readUC_fst ..) fun ⟨version, p⟩ => ?_
  refine erase_bind (readUC_fst ..) fun ⟨countMap, p⟩ => ?_
  dsimp only
  split
  · refine erase_bind (Curves.dataDecC_fst ..) fun ⟨data, p⟩ => ?_
    refine erase_bind (Curves.extraDecC_fst ..) fun ⟨extra, p⟩ => ?_
    rfl
  · rfl

theorem Curves.decC_cost : CostR 268 279 7 Curves.decC := by
  intro d p hp
  apply Cost.mono
  case h =>
    unfold Curves.decC
    cbind (readUC_cost 1)
    cbind (readUC_cost 2)
    cbind (readUC_cost 4)
    cif
    try dsimp only
    cbind (Curves.dataDecC_cost _ _ d _ (by assumption))
    cbind (Curves.extraDecC_cost _ _ d _ (by assumption))
    cdone
  cside

theorem Curves.cc_c : Curves.cc.c = Curves.codec := rfl
theorem Curves.cc_sound : Curves.cc.Sound := CC.hand_sound Curves.decC_fst Curves.decC_cost

/-! ## the unit -/

def adjustTable : List (String × Sh) :=
  [("BrightnessContrast", BrightnessContrast.cc.sh), ("ColorBalance", ColorBalance.cc.sh),
   ("ChannelMixer", ChannelMixer.cc.sh), ("Curves", Curves.cc.sh), ("CurvesExtraMarker", CurvesExtraMarker.sh),
   ("CurvesExtraItem", CurvesExtraItem.sh), ("GradientMap", GradientMap.cc.sh), ("ColorStop", ColorStop.cc.sh),
   ("TransparencyStop", TransparencyStop.cc.sh), ("Exposure", (Exposure.cc 4).sh), ("HueSaturation", HueSaturation.cc.sh),
   ("Levels", Levels.cc.sh), ("LevelRecord", LevelRecord.cc.sh), ("PhotoFilter", PhotoFilter.cc.sh),
   ("SelectiveColor", SelectiveColor.cc.sh)]

theorem adjust_body_progress : adjustTable.all (fun e => e.2.bodyProgress) = true := by decide

end PsdVerif.PayloadCost
