/-
C01 (typed documents) — engine data inside the C01 model (Model/TypedEngine.lean): the laws of the `Txt2` payload and of
the `TypeToolObjectSetting` whose engine data is parsed at read time, from C18's `parse (writeT l t) = t`.
-/
import PsdVerif.Lemmas.EngineDataParse
import PsdVerif.Lemmas.EngineDataFloat
import PsdVerif.Lemmas.PayloadDescWrap
import PsdVerif.Model.TypedEngine

namespace PsdVerif.Typed
open PsdVerif PsdVerif.Codec PsdVerif.Payload PsdVerif.Payload.PCodec

/-! ### the well-formedness predicate is C18's -/

theorem EngineWF.scalar_eq (s : EngineData.Scalar) : EngineWF.scalar s = EngineData.wfScalar s := by
  cases s <;> rfl

mutual
theorem EngineWF.val_eq (v : EngineData.Val) : EngineWF.val v = EngineData.wfVal v := by
  cases v with
  | dict items => simp only [EngineWF.val, EngineData.wfVal, EngineWF.pairs_eq items]
  | list elems => simp only [EngineWF.val, EngineData.wfVal, EngineWF.elems_eq elems]
  | sc s => simp only [EngineWF.val, EngineData.wfVal, EngineWF.scalar_eq]
theorem EngineWF.pairs_eq (t : List (EngineData.BL × EngineData.Val)) : EngineWF.pairs t = EngineData.wfPairs t := by
  cases t with
  | nil => rfl
  | cons kv t =>
    obtain ⟨k, v⟩ := kv
    simp only [EngineWF.pairs, EngineData.wfPairs, EngineWF.val_eq v, EngineWF.pairs_eq t]
    rfl
theorem EngineWF.elems_eq (t : List EngineData.Val) : EngineWF.elems' t = EngineData.wfElems t := by
  cases t with
  | nil => rfl
  | cons v t => simp only [EngineWF.elems', EngineData.wfElems, EngineWF.val_eq v, EngineWF.elems_eq t]
end

/-- C18's round trip on the total writer, for the trees of `TreeWF` -/
theorem parse_writeT (l : EngineData.Layout) (t : Tree) (h : TreeWF t) : EngineData.parse (EngineData.writeT l t) = .ok t := by
  have hw : EngineData.wfPairs t = true := by rw [← EngineWF.pairs_eq]; exact h
  have htoks : EngineData.Toks (EngineData.writeT l t) (EngineData.tokensOf l t) := by
    cases l with
    | indented =>
      have := EngineData.dictFrame_toks (some 0) (EngineData.wPairs (some 0) t) [] (EngineData.tokPairs t) [] (Or.inl rfl)
        (fun tail' ts' hs' ht' => EngineData.toks_pairs EngineData.floatOK (some 0) t hw tail' ts' hs' ht')
        EngineData.Sep_nil EngineData.Toks_nil
      simpa [EngineData.writeT, EngineData.tokensOf] using this
    | compact =>
      have := EngineData.toks_pairs EngineData.floatOK none t hw [] [] (Or.inr EngineData.Sep_nil) EngineData.Toks_nil
      simpa [EngineData.writeT, EngineData.tokensOf] using this
  exact EngineData.parse_of_toks EngineData.floatOK l t hw _ htoks

/-! ### `EngineData2` (`Txt2`) -/

namespace EngineData2

theorem rt : codec.RtAtEnd := by
  intro t hwf _ d p hat hend
  have hdrop := hat.drop_of_end hend
  have hb := hat.bound
  simp only [codec] at hdrop hb hend ⊢
  simp only [dec, hdrop, parse_writeT .compact t hwf]
  congr 2
  omega

theorem count : codec.Count := fun _ => rfl

end EngineData2

/-! ### the engine data slot of the text descriptor -/

theorem slotOf_setSlot_raw {items : Descriptor.Items} {tag : Descriptor.RawTag} {b0 : B} (w : B)
    (h : slotOf items = some (.raw tag b0)) : slotOf (setSlot w items) = some (.raw tag w) := by
  induction items with
  | nil => simp [slotOf] at h
  | cons kv r ih =>
    obtain ⟨k, v⟩ := kv
    by_cases hk : k.bytes = engineKey
    · simp only [slotOf, if_pos hk, Option.some.injEq] at h
      subst h
      simp only [setSlot, if_pos hk, slotOf]
    · simp only [slotOf, if_neg hk] at h
      simp only [setSlot, if_neg hk, slotOf, ih h]

theorem setSlot_setSlot (w w' : B) (items : Descriptor.Items) : setSlot w' (setSlot w items) = setSlot w' items := by
  induction items with
  | nil => rfl
  | cons kv r ih =>
    obtain ⟨k, v⟩ := kv
    by_cases hk : k.bytes = engineKey
    · simp only [setSlot, if_pos hk]
      cases v <;> rfl
    · simp only [setSlot, if_neg hk, ih]

theorem setSlot_self {items : Descriptor.Items} {tag : Descriptor.RawTag} {b : B}
    (h : slotOf items = some (.raw tag b)) : setSlot b items = items := by
  induction items with
  | nil => rfl
  | cons kv r ih =>
    obtain ⟨k, v⟩ := kv
    by_cases hk : k.bytes = engineKey
    · simp only [slotOf, if_pos hk, Option.some.injEq] at h
      subst h
      simp only [setSlot, if_pos hk]
    · simp only [slotOf, if_neg hk] at h
      simp only [setSlot, if_neg hk, ih h]

namespace TypeToolTyped
variable (tb : Descriptor.Tables)

theorem withItems_self (x : TypeToolObjectSetting) : withItems x x.textData.items = x := rfl

/-- the engine-data step of the reader on what the writer wrote gives the object back -/
theorem engineStep_flat {x : TypeToolTyped} (h : slotWF x) : engineStep (flat x) = x := by
  obtain ⟨base, engine⟩ := x
  cases engine with
  | none =>
    simp only [slotWF] at h
    simp only [flat, engineStep]
    split
    · rename_i tag b hs
      simp only [hs] at h
      cases hp : EngineData.parse b with
      | ok t => rw [hp] at h; simp [Except.toBool] at h
      | error e => rfl
    · rfl
  | some t =>
    simp only [slotWF] at h
    obtain ⟨hs, ht⟩ := h
    split at hs
    · rename_i tag b hslot
      subst hs
      have h1 := slotOf_setSlot_raw (EngineData.writeT .indented t) hslot
      simp only [flat, engineStep, withItems, h1, parse_writeT .indented t ht, setSlot_setSlot, setSlot_self hslot]
    · exact absurd hs id

theorem rt (pad : Nat) : (codec tb pad).RtAnywhere := by
  intro x hwf hf d p h
  obtain ⟨hbase, hslot⟩ := hwf
  have e := TypeToolObjectSetting.rt tb pad (flat x) hbase hf.1 d p h
  simp only [TypeToolObjectSetting.codec] at e
  simp only [codec, dec, e, engineStep_flat hslot]

theorem count (pad : Nat) : (codec tb pad).Count := fun x => TypeToolObjectSetting.encP_eq tb pad (flat x)

end TypeToolTyped

end PsdVerif.Typed
