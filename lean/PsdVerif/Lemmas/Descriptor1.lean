/-
C01 descriptors — step lemmas of the primitives used by `Model/Descriptor.lean`
(`At d p (encoding ++ rest) → reader d p = ok (value, p + n) ∧ At d (p + n) rest`),
the `OrderedDict` lemma, lengths.
-/
import PsdVerif.Model.Descriptor
import PsdVerif.Lemmas.Codec
import PsdVerif.Lemmas.Globals
import PsdVerif.Lemmas.Unicode

namespace PsdVerif.Descriptor
open PsdVerif PsdVerif.Codec

/-! ### the reader monad -/

theorem rbind_ok {α β : Type} {r : R α} {f : α → R β} {d : B} {p p1 : Nat} {a : α}
    (h : r d p = .ok (a, p1)) : (r >>- f) d p = f a d p1 := by
  simp only [rbind, h]

theorem rbind_err {α β : Type} {r : R α} {f : α → R β} {d : B} {p : Nat} {e : Err}
    (h : r d p = .error e) : (r >>- f) d p = .error e := by
  simp only [rbind, h]

theorem rpure_eq {α : Type} (a : α) (d : B) (p : Nat) : rpure a d p = .ok (a, p) := rfl

/-! ### OSTypes -/

theorem Tag.length_bytes (t : Tag) : t.bytes.length = 4 := by cases t <;> rfl

theorem Tag.ofBytes_bytes (t : Tag) : Tag.ofBytes t.bytes = some t := by cases t <;> rfl

theorem readTag_step {d : B} {p : Nat} {t : Tag} {rest : B} (h : At d p (t.bytes ++ rest)) :
    readTag d p = .ok (t, p + 4) ∧ At d (p + 4) rest := by
  refine ⟨?_, (Tag.length_bytes t) ▸ h.right⟩
  unfold readTag
  rw [rbind_ok (readUpTo_at' h.left (Tag.length_bytes t))]
  simp only [Tag.ofBytes_bytes]
  rfl

/-! ### keys -/

theorem keyWF_iff (tb : Tables) (k : Key) : KeyWF tb k ↔ Globals.Key.WF tb.terms k := Iff.rfl

theorem length_keyT (tb : Tables) (k : Key) : (keyT tb k).length = 4 + k.bytes.length := by
  simp [keyT, Globals.length_u32be]

theorem writeKey_eq (tb : Tables) (k : Key) :
    Globals.writeKey tb.terms k = if KeyFits tb k then .ok (keyT tb k) else .error .structError := rfl

theorem readKey_step {tb : Tables} {k : Key} {d : B} {p : Nat} {rest : B} (hwf : KeyWF tb k) (hf : KeyFits tb k)
    (h : At d p (keyT tb k ++ rest)) :
    readKeyR tb d p = .ok (k, p + (keyT tb k).length) ∧ At d (p + (keyT tb k).length) rest := by
  refine ⟨?_, h.right⟩
  obtain ⟨pre, post, rfl, rfl⟩ := h
  obtain ⟨h1, h2, h3⟩ := hwf
  obtain ⟨kb, imp⟩ := k
  simp only at h1 h2 h3
  unfold KeyFits at hf
  unfold readKeyR keyT
  unfold keyLen at hf ⊢
  simp only at hf ⊢
  have e : pre ++ ((Globals.u32be (if (tb.terms kb || imp) = true then 0 else kb.length) ++ kb) ++ rest) ++ post =
      pre ++ (Globals.u32be (if (tb.terms kb || imp) = true then 0 else kb.length) ++ kb) ++ (rest ++ post) := by
    simp only [List.append_assoc]
  rw [e]
  cases ht : tb.terms kb <;> cases hi : imp <;>
    simp only [ht, hi, Bool.or_self, Bool.or_true, Bool.true_or, Bool.false_eq_true, if_false, if_true] at hf ⊢
  · have hne := h3 hi ht
    rw [Globals.readKey_frame tb.terms kb pre (rest ++ post) _ hf (by simp [hne])]
    simp [hne, ht]
  · have hl : kb.length = 4 := (h1 hi).1
    rw [Globals.readKey_frame tb.terms kb pre (rest ++ post) 0 (by decide) (by simp [hl])]
    simp [ht]
  · have hl : kb.length = 4 := h2 ht
    rw [Globals.readKey_frame tb.terms kb pre (rest ++ post) 0 (by decide) (by simp [hl])]
    simp [ht]
  · have := (h1 hi).2
    rw [ht] at this
    cases this

/-! ### unicode strings -/

theorem length_strT (s : Str) : (strT s).length = 4 + 2 * (Unicode.encUnits s).length := by
  simp [strT, Unicode.be32_length, Unicode.bytesOfUnits_length]

theorem strT_eq_layout (s : Str) : strT s = Unicode.unitsLayout (Unicode.encUnits s) 1 := by
  simp [strT, Unicode.unitsLayout, Unicode.padLen, Nat.mod_one]

/-- the bytes of `strT` are what the model of `write_unicode_string` (C19) writes -/
theorem writeUnicodeString_strT (s : Str) (hf : StrFits s) : Unicode.writeUnicodeString s 1 = .ok (strT s) := by
  unfold Unicode.writeUnicodeString
  rw [if_pos hf.1]
  exact (Unicode.writeUnits_eq _ _ _).mpr ⟨hf.2, by decide, strT_eq_layout s⟩

theorem readStr_step {s : Str} {d : B} {p : Nat} {rest : B} (hwf : StrWF s) (hf : StrFits s)
    (h : At d p (strT s ++ rest)) :
    readStr d p = .ok (s, p + (strT s).length) ∧ At d (p + (strT s).length) rest := by
  refine ⟨?_, h.right⟩
  obtain ⟨pre, post, rfl, rfl⟩ := h
  have e : pre ++ (strT s ++ rest) ++ post = pre ++ strT s ++ (rest ++ post) := by simp only [List.append_assoc]
  rw [e]
  exact Unicode.readUnicodeString_write s 1 (strT s) pre (rest ++ post) hwf (writeUnicodeString_strT s hf)

/-! ### fixed-width scalars -/

theorem natToI64_i64ToNat (z : Int) (h : FitsI64 z) : natToI64 (i64ToNat z) = z := by
  unfold natToI64 i64ToNat FitsI64 at *; omega

theorem i64ToNat_lt (z : Int) : i64ToNat z < 256 ^ 8 := by unfold i64ToNat; omega

theorem length_i64T (z : Int) : (i64T z).length = 8 := length_beBytes _ _
theorem length_u32T (z : Int) : (u32T z).length = 4 := length_beBytes _ _
theorem length_f64T (n : Nat) : (f64T n).length = 8 := length_beBytes _ _
theorem length_boolT (b : Bool) : (boolT b).length = 1 := rfl

theorem readI64_step {d : B} {p : Nat} {z : Int} {rest : B} (h : At d p (i64T z ++ rest)) (hz : FitsI64 z) :
    readI64 d p = .ok (z, p + 8) ∧ At d (p + 8) rest := by
  have hs := readU_step (w := 8) h (i64ToNat_lt z)
  refine ⟨?_, hs.2⟩
  unfold readI64
  rw [rbind_ok hs.1, rpure_eq, natToI64_i64ToNat z hz]

theorem readBool_step {d : B} {p : Nat} {b : Bool} {rest : B} (h : At d p (boolT b ++ rest)) :
    readBool d p = .ok (b, p + 1) ∧ At d (p + 1) rest := by
  have hb : boolT b = beBytes 1 (if b then 1 else 0) := by cases b <;> rfl
  rw [hb] at h
  have hs := readU_step (w := 1) h (by cases b <;> decide)
  refine ⟨?_, hs.2⟩
  unfold readBool
  rw [rbind_ok hs.1, rpure_eq]
  cases b <;> rfl

/-- an `"I"` field holding a Python int -/
theorem readU32_step {d : B} {p : Nat} {z : Int} {rest : B} (h : At d p (u32T z ++ rest)) (hz : FitsU32 z) :
    readU 4 d p = .ok (z.toNat, p + 4) ∧ At d (p + 4) rest ∧ (z.toNat : Int) = z := by
  unfold FitsU32 at hz
  have hs := readU_step (w := 4) h (by omega : z.toNat < 256 ^ 4)
  exact ⟨hs.1, hs.2, by omega⟩

theorem readF64_step {d : B} {p bits : Nat} {rest : B} (h : At d p (f64T bits ++ rest))
    (hb : bits < 18446744073709551616) : readU 8 d p = .ok (bits, p + 8) ∧ At d (p + 8) rest :=
  readU_step (w := 8) h (by simpa using hb)

/-! ### units -/

theorem unitT_eq {tb : Tables} {u : UnitRef} (h : UnitWF tb u) : unitT u = u.code := pack4s_of_length h.1

theorem unitOf_ok {tb : Tables} {u : UnitRef} (h : UnitWF tb u) (d : B) (p : Nat) :
    unitOf tb u.code d p = .ok (u, p) := by
  obtain ⟨c, b⟩ := u
  obtain ⟨_, h2⟩ := h
  unfold unitOf
  cases c
  · simp only [Bool.false_eq_true, if_false] at h2
    simp only [h2.1, h2.2, Bool.false_eq_true, if_false, if_true]; rfl
  · simp only [if_true] at h2
    simp only [h2, if_true]; rfl

/-! ### `read_fmt("%dd" % count)` -/

theorem length_listT_f64 (vs : List Nat) : (listT f64T vs).length = 8 * vs.length := by
  induction vs with
  | nil => rfl
  | cons v vs ih => simp only [listT, List.length_append, length_f64T, ih, List.length_cons]; omega

theorem readF64s_step {d : B} {p : Nat} {vs : List Nat} {rest : B} (h : At d p (listT f64T vs ++ rest))
    (hb : ∀ b ∈ vs, b < 18446744073709551616) :
    readF64s vs.length d p = .ok (vs, p + (listT f64T vs).length) ∧ At d (p + (listT f64T vs).length) rest := by
  refine ⟨?_, h.right⟩
  unfold readF64s
  have hbound := h.left.bound
  rw [length_listT_f64] at hbound
  rw [if_pos hbound]
  apply readCount_at (readU 8) f64T vs _ h.left
  intro v hv d' p' h'
  rw [readU_at h' (by simpa using hb v hv), length_f64T]

/-! ### `OrderedDict(items)` -/

theorem dictOf_foldl_of_nodup (acc items : Items) (hn : KeysNodup (acc ++ items)) :
    items.foldl dictInsert acc = acc ++ items := by
  induction items generalizing acc with
  | nil => simp
  | cons x xs ih =>
    simp only [List.foldl_cons]
    have hx : acc.any (fun y => y.1.bytes == x.1.bytes) = false := by
      rw [List.any_eq_false]
      intro y hy
      simp only [beq_iff_eq]
      intro e
      unfold KeysNodup at hn
      rw [List.map_append, List.nodup_append] at hn
      exact hn.2.2 y.1.bytes (List.mem_map_of_mem (f := fun kv : Key × DVal => kv.1.bytes) hy) x.1.bytes (by simp) e
    have : dictInsert acc x = acc ++ [x] := by simp [dictInsert, hx]
    rw [this, ih (acc ++ [x]) (by simpa using hn)]
    simp

theorem dictOf_of_nodup (items : Items) (hn : KeysNodup items) : dictOf items = items := by
  unfold dictOf
  simpa using dictOf_foldl_of_nodup [] items (by simpa using hn)

end PsdVerif.Descriptor
