/-
The tabulating evaluator of `Model/CompositeFxEval.lean` is the model (`Model/CompositeFx.lean`).
-/
import PsdVerif.Model.CompositeFxEval
import PsdVerif.Lemmas.CompositeEval

namespace PsdVerif.Composite

theorem applyOverlaysF_eq (k : Nat) (B : Mode → Color → Color → Color) (V bbox : Rect) (x y : Int) (shape alpha : Rat)
    (st : PState) (es : List Overlay) :
    applyOverlaysF k B V bbox x y shape alpha st es = applyOverlays B V bbox x y shape alpha st es := by
  induction es generalizing st with
  | nil => rfl
  | cons e es ih => simp only [applyOverlaysF, applyOverlays, fzState_eq]; exact ih _

theorem applyStrokeFxF_eq (k : Nat) (B : Mode → Color → Color → Color) (V bbox : Rect) (x y : Int) (lop : Rat) (st : PState)
    (ss : List StrokeFx) : applyStrokeFxF k B V bbox x y lop st ss = applyStrokeFx B V bbox x y lop st ss := by
  induction ss generalizing st with
  | nil => rfl
  | cons s ss ih => simp only [applyStrokeFxF, applyStrokeFx, fzState_eq]; exact ih _

theorem finishFxF_eq (k : Nat) (B : Mode → Color → Color → Color) (force : Bool) (V : Rect) (x y : Int) (st : PState)
    (pr : Props) (fx : Fx) (color : Color) (shape alpha : Rat) :
    finishFxF k B force V x y st pr fx color shape alpha = finishFx B force V x y st pr fx color shape alpha := by
  unfold finishFxF finishFx
  simp only [fzState_eq, applyOverlaysF_eq, applyStrokeFxF_eq]

theorem strokeObjectF_eq (k : Nat) (B : Mode → Color → Color → Color) (V : Rect) (x y : Int) (color : Color) (alpha : Rat)
    (s : Option VStroke) : strokeObjectF k B V x y color alpha s = strokeObject B V x y color alpha s := by
  cases s with
  | none => rfl
  | some s => simp only [strokeObjectF, strokeObject, fzState_eq, lookup_tab]

mutual

theorem applyFxNodeF_eq (k : Nat) (B : Mode → Color → Color → Color) (force : Bool) (V : Rect) (x y : Int) (cc : Bool)
    (st : PState) : (n : FxNode) → applyFxNodeF k B force V x y cc st n = applyFxNode B force V x y cc st n
  | .adjustment _ => by unfold applyFxNodeF applyFxNode; rfl
  | .leaf pr fx src stroke clips => by
    unfold applyFxNodeF applyFxNode
    simp only [fzState_eq, applyFxClipsF_eq k B force V x y _ clips, finishFxF_eq, strokeObjectF_eq]
  | .group pr fx passThrough children clips => by
    unfold applyFxNodeF applyFxNode
    simp only [fzState_eq, applyFxClipsF_eq k B force V x y _ clips, applyFxListF_eq k B force _ x y _ children, finishFxF_eq]

theorem applyFxListF_eq (k : Nat) (B : Mode → Color → Color → Color) (force : Bool) (V : Rect) (x y : Int) (st : PState) :
    (ns : List FxNode) → applyFxListF k B force V x y st ns = applyFxList B force V x y st ns
  | [] => by unfold applyFxListF applyFxList; rfl
  | n :: rest => by
    unfold applyFxListF applyFxList
    rw [applyFxNodeF_eq k B force V x y false st n, applyFxListF_eq k B force V x y _ rest]

theorem applyFxClipsF_eq (k : Nat) (B : Mode → Color → Color → Color) (force : Bool) (V : Rect) (x y : Int) (st : PState) :
    (ns : List FxNode) → applyFxClipsF k B force V x y st ns = applyFxClips B force V x y st ns
  | [] => by unfold applyFxClipsF applyFxClips; rfl
  | n :: rest => by
    unfold applyFxClipsF applyFxClips
    rw [applyFxNodeF_eq k B force V x y true st n, applyFxClipsF_eq k B force V x y _ rest]

end

theorem compositeFxDocF_eq (k : Nat) (B : Mode → Color → Color → Color) (force : Bool) (V : Rect) (x y : Int) (color : Color)
    (alpha : Rat) (layers : List FxNode) :
    compositeFxDocF k B force V x y color alpha layers = compositeFxDoc B force V x y color alpha layers := by
  unfold compositeFxDocF compositeFxDoc
  simp only [fzState_eq, applyFxListF_eq]

end PsdVerif.Composite
