import PsdVerif.Model.EngineDataCost
import PsdVerif.Lemmas.EngineDataTokens
import PsdVerif.Lemmas.SafeCost3

namespace PsdVerif.EngineDataCost
open PsdVerif PsdVerif.Codec PsdVerif.PsdCost PsdVerif.EngineData PsdVerif.SafeCost

/-! ## erasure: the twin IS the parser -/

theorem nextTokC_fst (d : BL) : (nextTokC d).1 = nextTok d := by
  unfold nextTokC nextTok
  cases next d with
  | error e => rfl
  | ok o =>
    cases o with
    | none => rfl
    | some tr =>
      obtain ⟨tok, rest⟩ := tr
      simp only
      cases classify tok <;> rfl

theorem valueC_fst (ty : Tok) (tok : BL) : (valueC ty tok).1 = .ok (valueOfToken ty tok) := rfl

/-- the three shapes a branch of the loops has once the token type is known -/
theorem value_branch_fst {α : Type} (ty : Tok) (tok : BL) (e0 : Err) (kc : Scalar → CE α) (k : Scalar → Except Err α)
    (hk : ∀ v, (kc v).1 = k v) :
    (valueC ty tok >>= fun v => match v with
      | none => CE.error e0
      | some (.error e) => CE.error e
      | some (.ok v) => kc v).1 =
    (match valueOfToken ty tok with
      | none => .error e0
      | some (.error e) => .error e
      | some (.ok v) => k v) := by
  rw [bind_fst, valueC_fst]
  simp only
  cases valueOfToken ty tok with
  | none => rfl
  | some r =>
    cases r with
    | error e => rfl
    | ok v => exact hk v

theorem parse_fst_aux (f : Nat) :
    (∀ d acc, (parseDictC f d acc).1 = parseDict f d acc) ∧
    (∀ d acc, (parseListC f d acc).1 = parseList f d acc) := by
  induction f with
  | zero =>
    refine ⟨fun d acc => ?_, fun d acc => ?_⟩
    · rw [parseDictC, parseDict]; rfl
    · rw [parseListC, parseList]; rfl
  | succ f ih =>
    obtain ⟨ihD, ihL⟩ := ih
    refine ⟨fun d acc => ?_, fun d acc => ?_⟩
    · rw [parseDictC, parseDict, bind_fst, tick_fst]
      simp only
      rw [bind_fst, nextTokC_fst]
      cases nextTok d with
      | error e => rfl
      | ok o =>
        cases o with
        | none => rfl
        | some x =>
          obtain ⟨tok, ty, rest⟩ := x
          simp only
          cases ty <;> simp only
          case property =>
            rw [bind_fst, nextTokC_fst]
            cases nextTok rest with
            | error e => rfl
            | ok o2 =>
              cases o2 with
              | none => rfl
              | some y =>
                obtain ⟨vtok, vty, rest2⟩ := y
                simp only
                cases vty <;> simp only
                case arrayStart =>
                  rw [bind_fst, ihL]
                  cases parseList f rest2 [] with
                  | error e => rfl
                  | ok x => exact ihD _ _
                case dictStart =>
                  rw [bind_fst, ihD]
                  cases parseDict f rest2 [] with
                  | error e => rfl
                  | ok x => exact ihD _ _
                all_goals exact value_branch_fst _ _ _ _ _ (fun v => ihD _ _)
          case dictEnd => rfl
          all_goals exact ihD _ _
    · rw [parseListC, parseList, bind_fst, tick_fst]
      simp only
      rw [bind_fst, nextTokC_fst]
      cases nextTok d with
      | error e => rfl
      | ok o =>
        cases o with
        | none => rfl
        | some x =>
          obtain ⟨tok, ty, rest⟩ := x
          simp only
          cases ty <;> simp only
          case arrayEnd => rfl
          case arrayStart =>
            rw [bind_fst, ihL]
            cases parseList f rest [] with
            | error e => rfl
            | ok x => exact ihL _ _
          case dictStart =>
            rw [bind_fst, ihD]
            cases parseDict f rest [] with
            | error e => rfl
            | ok x => exact ihL _ _
          all_goals exact value_branch_fst _ _ _ _ _ (fun v => ihL _ _)

theorem parseDictC_fst (f : Nat) (d : BL) (acc : List (BL × Val)) : (parseDictC f d acc).1 = parseDict f d acc :=
  (parse_fst_aux f).1 d acc

theorem parseListC_fst (f : Nat) (d : BL) (acc : List Val) : (parseListC f d acc).1 = parseList f d acc :=
  (parse_fst_aux f).2 d acc

theorem parseC_fst (d : BL) : (parseC d).1 = parse d := by
  unfold parseC parse
  rw [bind_fst, parseDictC_fst]
  cases parseDict (d.length + 1) d [] with
  | error e => rfl
  | ok x => rfl
