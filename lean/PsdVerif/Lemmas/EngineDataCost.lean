/-
C06 — the counting twin of the engine-data parser (`Model/EngineDataCost.lean`) IS the parser of the C18 model, and its
cost is linear in the size of the engine data.

* `nextTokC_fst`, `parseDictC_fst`, `parseListC_fst`, `parseC_fst : (parseC d).1 = parse d` - erasure;
* `next_total`: the token is no longer than what its `__next__` call consumed (with `next_length`: ≥ 1 byte consumed);
  `nextTokC_some` / `_none` / `_err`: a token is paid by the bytes it consumed at 14 per byte + 16, a `StopIteration` costs
  the bytes left + 4, a `ValueError` of the tokenizer at most 18 per byte left + 19;
* `Bd A n x` and its rules; `parse_bd_aux` (mutual induction on the fuel): with more fuel than data,
  `parseDictC` / `parseListC` stay within `63 · |d| + 20`, pay `63` per byte they leave, and do not run out of fuel;
* `parseC_cost : (parseC d).2.w ≤ 63 · |d| + 20`; `parse_never_out_of_fuel : parse d ≠ .error .recursionError`;
* `runEngineData_bound : (runEngineData data).2.w ≤ 65 · |data| + 22 ∧ (runEngineData data).1 ≠ .error .other`.

Where the 63 comes from: per byte consumed 1 (scan) + 12 (the anchored searches) + 1 (the copy) for the token, 7 for the
value conversion, and the constants of a token (16 + 25 + the iteration tick) are paid by the ≥ 1 byte it consumed.
What is TRUSTED is in the header of the model file (each `re` search linear in its subject, each value conversion
linear in the token).
-/
import PsdVerif.Model.EngineDataCost
import PsdVerif.Lemmas.EngineDataTokens
import PsdVerif.Lemmas.SafeCost3

namespace PsdVerif.EngineDataCost
open PsdVerif PsdVerif.Codec PsdVerif.PsdCost PsdVerif.EngineData PsdVerif.SafeCost

/-! ## erasure: the twin IS the parser -/

theorem nextTokC_fst (d : BL) : (nextTokC d).1 = nextTok d := by
  unfold nextTokC nextTok
  cases next d with
  | error e => rfl
  | ok o =>
    cases o with
    | none => rfl
    | some tr =>
      obtain ⟨tok, rest⟩ := tr
      simp only
      cases classify tok <;> rfl

theorem valueC_fst (ty : Tok) (tok : BL) : (valueC ty tok).1 = .ok (valueOfToken ty tok) := rfl

/-- the three shapes a branch of the loops has once the token type is known -/
theorem value_branch_fst {α : Type} (ty : Tok) (tok : BL) (e0 : Err) (kc : Scalar → CE α) (k : Scalar → Except Err α)
    (hk : ∀ v, (kc v).1 = k v) :
    (valueC ty tok >>= fun v => match v with
      | none => CE.error e0
      | some (.error e) => CE.error e
      | some (.ok v) => kc v).1 =
    (match valueOfToken ty tok with
      | none => .error e0
      | some (.error e) => .error e
      | some (.ok v) => k v) := by
  rw [bind_fst, valueC_fst]
  simp only
  cases valueOfToken ty tok with
  | none => rfl
  | some r =>
    cases r with
    | error e => rfl
    | ok v => exact hk v

theorem parse_fst_aux (f : Nat) :
    (∀ d acc, (parseDictC f d acc).1 = parseDict f d acc) ∧
    (∀ d acc, (parseListC f d acc).1 = parseList f d acc) := by
  induction f with
  | zero =>
    refine ⟨fun d acc => ?_, fun d acc => ?_⟩
    · rw [parseDictC, parseDict]; rfl
    · rw [parseListC, parseList]; rfl
  | succ f ih =>
    obtain ⟨ihD, ihL⟩ := ih
    refine ⟨fun d acc => ?_, fun d acc => ?_⟩
    · rw [parseDictC, parseDict, bind_fst, tick_fst]
      simp only
      rw [bind_fst, nextTokC_fst]
      cases nextTok d with
      | error e => rfl
      | ok o =>
        cases o with
        | none => rfl
        | some x =>
          obtain ⟨tok, ty, rest⟩ := x
          simp only
          cases ty <;> simp only
          case property =>
            rw [bind_fst, nextTokC_fst]
            cases nextTok rest with
            | error e => rfl
            | ok o2 =>
              cases o2 with
              | none => rfl
              | some y =>
                obtain ⟨vtok, vty, rest2⟩ := y
                simp only
                cases vty <;> simp only
                case arrayStart =>
                  rw [bind_fst, ihL]
                  cases parseList f rest2 [] with
                  | error e => rfl
                  | ok x => exact ihD _ _
                case dictStart =>
                  rw [bind_fst, ihD]
                  cases parseDict f rest2 [] with
                  | error e => rfl
                  | ok x => exact ihD _ _
                all_goals exact value_branch_fst _ _ _ _ _ (fun v => ihD _ _)
          case dictEnd => rfl
          all_goals exact ihD _ _
    · rw [parseListC, parseList, bind_fst, tick_fst]
      simp only
      rw [bind_fst, nextTokC_fst]
      cases nextTok d with
      | error e => rfl
      | ok o =>
        cases o with
        | none => rfl
        | some x =>
          obtain ⟨tok, ty, rest⟩ := x
          simp only
          cases ty <;> simp only
          case arrayEnd => rfl
          case arrayStart =>
            rw [bind_fst, ihL]
            cases parseList f rest [] with
            | error e => rfl
            | ok x => exact ihL _ _
          case dictStart =>
            rw [bind_fst, ihD]
            cases parseDict f rest [] with
            | error e => rfl
            | ok x => exact ihL _ _
          all_goals exact value_branch_fst _ _ _ _ _ (fun v => ihL _ _)

theorem parseDictC_fst (f : Nat) (d : BL) (acc : List (BL × Val)) : (parseDictC f d acc).1 = parseDict f d acc :=
  (parse_fst_aux f).1 d acc

theorem parseListC_fst (f : Nat) (d : BL) (acc : List Val) : (parseListC f d acc).1 = parseList f d acc :=
  (parse_fst_aux f).2 d acc

theorem parseC_fst (d : BL) : (parseC d).1 = parse d := by
  unfold parseC parse
  rw [bind_fst, parseDictC_fst]
  cases parseDict (d.length + 1) d [] with
  | error e => rfl
  | ok x => rfl

/-! ## a token is no longer than what its call consumed -/

theorem strScan_total (d x r : BL) (h : strScan d = some (x, r)) : x.length + r.length = d.length := by
  induction d using strScan.induct generalizing x r with
  | case1 => simp [strScan] at h
  | case2 t => rw [strScan.eq_def] at h; simp at h; obtain ⟨rfl, rfl⟩ := h; simp; omega
  | case3 _ => rw [strScan.eq_def] at h; simp at h
  | case4 c t' hs _ ih => rw [strScan.eq_def] at h; simp [hs] at h
  | case5 c t' x' r' hs _ ih =>
    rw [strScan.eq_def] at h; simp [hs] at h; obtain ⟨rfl, rfl⟩ := h
    have := ih x' r' hs
    simp; omega
  | case6 b t hb hb2 hs ih => rw [strScan.eq_def] at h; simp [hb, hb2, hs] at h
  | case7 b t hb hb2 x' r' hs ih =>
    rw [strScan.eq_def] at h; simp [hb, hb2, hs] at h; obtain ⟨rfl, rfl⟩ := h
    have := ih x' r' hs
    simp; omega

theorem strToken_total (d x r : BL) (h : strToken d = some (x, r)) : x.length + r.length = d.length := by
  unfold strToken at h
  split at h
  · rename_i a b c t
    cases hs : strScan t with
    | none => simp [hs] at h
    | some xr =>
      obtain ⟨x', r'⟩ := xr
      simp only [hs] at h
      injection h with h; injection h with h1 h2; subst h1; subst h2
      have := strScan_total t x' r' hs
      simp; omega
  · cases h

/-- `len(token) ≤` the bytes the call consumed -/
theorem next_total (d tok rest : BL) (h : next d = .ok (some (tok, rest))) : tok.length + rest.length ≤ d.length := by
  induction d with
  | nil => simp [next] at h
  | cons b t ih =>
    rw [next.eq_2] at h
    by_cases h1 : strStart (b :: t) = true
    · simp only [h1, if_true] at h
      cases hs : strToken (b :: t) with
      | none => simp [hs] at h
      | some xr =>
        obtain ⟨x', r'⟩ := xr
        simp only [hs] at h
        injection h with h; injection h with h; injection h with h1 h2; subst h1; subst h2
        exact Nat.le_of_eq (strToken_total _ _ _ hs)
    · simp only [h1] at h
      by_cases h2 : isDiv b = true
      · simp only [h2, if_true] at h
        have := ih h; simp; omega
      · simp only [h2] at h
        injection h with h; injection h with h; injection h with h1 h2; subst h1; subst h2
        have e0 : ((b :: t).takeWhile (fun x => !isDiv x)).length + ((b :: t).dropWhile (fun x => !isDiv x)).length
            = (b :: t).length := by
          rw [← List.length_append, List.takeWhile_append_dropWhile]
        have e1 := length_dropWhile_le isDiv (List.dropWhile (fun x => !isDiv x) (b :: t))
        omega

/-- the tokenizer itself only raises `ValueError` -/
theorem next_error (d : BL) (e : Err) (h : next d = .error e) : e = .valueError := by
  induction d with
  | nil => simp [next] at h
  | cons b t ih =>
    rw [next.eq_2] at h
    by_cases h1 : strStart (b :: t) = true
    · simp only [h1, if_true] at h
      cases hs : strToken (b :: t) with
      | none => simp only [hs] at h; injection h with h; exact h.symm
      | some xr => simp [hs] at h
    · simp only [h1] at h
      by_cases h2 : isDiv b = true
      · simp only [h2, if_true] at h; exact ih h
      · simp [h2] at h

/-! ## what one `next(tokenizer)` costs -/

theorem callTicks_le (d : BL) : callTicks d ≤ 4 := by
  unfold callTicks
  split
  · decide
  · split <;> decide

/-- a token: paid by the bytes consumed, at 14 per byte (1 scanned + 12 searched + 1 copied) -/
theorem nextTokC_some {d tok : BL} {ty : Tok} {rest : BL} (h : (nextTokC d).1 = .ok (some (tok, ty, rest))) :
    rest.length < d.length ∧ tok.length + rest.length ≤ d.length ∧
      (nextTokC d).2.w + 14 * rest.length ≤ 14 * d.length + 16 := by
  have hc := callTicks_le d
  unfold nextTokC at h ⊢
  cases hn : next d with
  | error e => simp [hn] at h
  | ok o =>
    cases o with
    | none => simp [hn] at h
    | some tr =>
      obtain ⟨tok', rest'⟩ := tr
      simp only [hn] at h ⊢
      cases hcl : classify tok' with
      | none => simp [hcl] at h
      | some ty' =>
        simp only [hcl] at h ⊢
        injection h with h; injection h with h; injection h with h1 h; injection h with h2 h3
        subst h1; subst h2; subst h3
        have l1 := next_length _ _ _ hn
        have l2 := next_total _ _ _ hn
        refine ⟨l1, l2, ?_⟩
        simp only [Cost.w]
        omega

theorem nextTokC_none {d : BL} (h : (nextTokC d).1 = .ok none) : (nextTokC d).2.w ≤ d.length + 4 := by
  have hc := callTicks_le d
  unfold nextTokC at h ⊢
  cases hn : next d with
  | error e => simp [hn] at h
  | ok o =>
    cases o with
    | none => simp only [Cost.w]; omega
    | some tr =>
      obtain ⟨tok', rest'⟩ := tr
      simp only [hn] at h
      cases hcl : classify tok' <;> simp [hcl] at h

/-- a `ValueError` of the tokenizer: the scan, the twelve searches and the formatted message -/
theorem nextTokC_err {d : BL} {e : Err} (h : (nextTokC d).1 = .error e) :
    e = .valueError ∧ (nextTokC d).2.w ≤ 18 * d.length + 19 := by
  have hc := callTicks_le d
  unfold nextTokC at h ⊢
  cases hn : next d with
  | error e' =>
    simp only [hn] at h ⊢
    injection h with h; subst h
    refine ⟨next_error _ _ hn, ?_⟩
    simp only [Cost.w]; omega
  | ok o =>
    cases o with
    | none => simp [hn] at h
    | some tr =>
      obtain ⟨tok', rest'⟩ := tr
      simp only [hn] at h ⊢
      cases hcl : classify tok' with
      | none =>
        simp only [hcl] at h ⊢
        injection h with h
        have l1 := next_length _ _ _ hn
        have l2 := next_total _ _ _ hn
        refine ⟨h.symm, ?_⟩
        simp only [Cost.w]; omega
      | some ty' => simp [hcl] at h

theorem valueC_w (ty : Tok) (tok : BL) : (valueC ty tok).2.w = 7 * tok.length + 25 := by
  simp only [valueC, Cost.w]; omega

/-! ## a value class only raises `UnicodeError` -/

theorem units_error (be : Bool) : ∀ (d : BL) (e : Err), units be d = .error e → e = .unicodeError
  | [], e, h => by simp [units] at h
  | [a], e, h => by rw [units.eq_def] at h; simp at h; exact h.symm
  | a :: b :: t, e, h => by
    rw [units.eq_def] at h
    simp only at h
    cases hu : units be t with
    | error e' => simp only [hu] at h; injection h with h; subst h; exact units_error be t e' hu
    | ok us => simp [hu] at h

theorem decUnits_error : ∀ (us : List Nat) (e : Err), decUnits us = .error e → e = .unicodeError
  | [], e, h => by simp [decUnits] at h
  | [u], e, h => by
    rw [decUnits.eq_def] at h
    simp only at h
    split at h
    · simp [decUnits] at h
    · split at h <;> (injection h with h; exact h.symm)
  | u :: v :: t, e, h => by
    rw [decUnits.eq_def] at h
    simp only at h
    split at h
    · cases hd : decUnits (v :: t) with
      | error e' => simp only [hd] at h; injection h with h; subst h; exact decUnits_error (v :: t) e' hd
      | ok cs => simp [hd] at h
    · split at h
      · split at h
        · cases hd : decUnits t with
          | error e' => simp only [hd] at h; injection h with h; subst h; exact decUnits_error t e' hd
          | ok cs => simp [hd] at h
        · injection h with h; exact h.symm
      · injection h with h; exact h.symm

theorem decodeUtf16_error (d : BL) (e : Err) (h : decodeUtf16 d = .error e) : e = .unicodeError := by
  have key : ∀ be x, decodeWith be x = .error e → e = .unicodeError := by
    intro be x hx
    unfold decodeWith at hx
    cases hu : units be x with
    | error e' => simp only [hu] at hx; injection hx with hx; subst hx; exact units_error be x e' hu
    | ok us => simp only [hu] at hx; exact decUnits_error us e hx
  unfold decodeUtf16 at h
  split at h
  · split at h
    · exact key _ _ h
    · split at h <;> exact key _ _ h
  · exact key _ _ h

theorem valueOfToken_error (ty : Tok) (tok : BL) (e : Err) (h : valueOfToken ty tok = some (.error e)) :
    e = .unicodeError := by
  cases ty
  case string =>
    unfold valueOfToken at h; simp only at h
    cases hd : decodeUtf16 (unescape ((tok.drop 1).dropLast)) with
    | error e' =>
      rw [hd] at h; simp only at h
      injection h with h; injection h with h; subst h; exact decodeUtf16_error _ _ hd
    | ok s => rw [hd] at h; simp at h
  all_goals (unfold valueOfToken at h; simp at h)

/-! ## the linear bound

`Bd A n x`: the run `x` of a parser that returns the rest of the data is within the budget `n`, and what it leaves
unconsumed is still paid for at `A` per byte: a success at rest `r` satisfies `cost + A · |r| ≤ n`; a failure costs at
most `n` and is not "out of fuel". -/

def Bd {α : Type} (A n : Nat) (x : CE (α × BL)) : Prop :=
  match x.1 with
  | .ok (_, r) => x.2.w + A * r.length ≤ n
  | .error e => e ≠ .recursionError ∧ x.2.w ≤ n

theorem Bd.of_ok {α : Type} {A n : Nat} {x : CE (α × BL)} {v : α} {r : BL} (h : Bd A n x) (hx : x.1 = .ok (v, r)) :
    x.2.w + A * r.length ≤ n := by
  unfold Bd at h; rw [hx] at h; exact h

theorem Bd.of_error {α : Type} {A n : Nat} {x : CE (α × BL)} {e : Err} (h : Bd A n x) (hx : x.1 = .error e) :
    e ≠ .recursionError ∧ x.2.w ≤ n := by
  unfold Bd at h; rw [hx] at h; exact h

theorem Bd.w_le {α : Type} {A n : Nat} {x : CE (α × BL)} (h : Bd A n x) : x.2.w ≤ n := by
  cases hx : x.1 with
  | error e => exact (h.of_error hx).2
  | ok y => obtain ⟨v, r⟩ := y; have := h.of_ok hx; omega

theorem Bd.ne_rec {α : Type} {A n : Nat} {x : CE (α × BL)} (h : Bd A n x) : x.1 ≠ .error .recursionError := by
  intro hx
  exact (h.of_error hx).1 rfl

theorem Bd.mono {α : Type} {A n n' : Nat} {x : CE (α × BL)} (h : Bd A n x) (hn : n ≤ n') : Bd A n' x := by
  unfold Bd at h ⊢
  cases hx : x.1 with
  | error e => rw [hx] at h; exact ⟨h.1, by have := h.2; omega⟩
  | ok y => obtain ⟨v, r⟩ := y; rw [hx] at h; simp only at h ⊢; omega

theorem Bd.ok {α : Type} {A : Nat} (v : α) (r : BL) : Bd A (A * r.length) (CE.ok (v, r)) := by
  show (CE.ok (v, r) : CE (α × BL)).2.w + A * r.length ≤ A * r.length
  rw [ok_w]; omega

theorem Bd.error {α : Type} {A : Nat} (e : Err) (he : e ≠ .recursionError) : Bd A 0 (CE.error e : CE (α × BL)) :=
  ⟨he, Nat.le_refl _⟩

/-- a step that succeeded, then the rest -/
theorem Bd.bind_ok {α β : Type} {A n n' : Nat} {m : CE β} {f : β → CE (α × BL)} {a : β}
    (h : m.1 = .ok a) (hf : Bd A n' (f a)) (hle : m.2.w + n' ≤ n) : Bd A n (m >>= f) := by
  rw [bind_ok' h]
  unfold Bd at hf ⊢
  simp only
  cases hx : (f a).1 with
  | error e => rw [hx] at hf; simp only at hf ⊢; rw [w_add]; exact ⟨hf.1, by have := hf.2; omega⟩
  | ok y => obtain ⟨v, r⟩ := y; rw [hx] at hf; simp only at hf ⊢; rw [w_add]; omega

/-- a step that failed -/
theorem Bd.bind_err {α β : Type} {A n : Nat} {m : CE β} {f : β → CE (α × BL)} {e : Err}
    (h : m.1 = .error e) (he : e ≠ .recursionError) (hle : m.2.w ≤ n) : Bd A n (m >>= f) := by
  rw [bind_err' h]
  exact ⟨he, hle⟩

/-- a nested parse within `n'`, then a continuation on what it left with `B'` on top -/
theorem Bd.bind_nested {α β : Type} {A n n' B' : Nat} {m : CE (β × BL)} {f : β × BL → CE (α × BL)}
    (hm : Bd A n' m) (hf : ∀ v r, m.1 = .ok (v, r) → Bd A (A * r.length + B') (f (v, r))) (hle : n' + B' ≤ n) :
    Bd A n (m >>= f) := by
  cases hx : m.1 with
  | error e =>
    have := hm.of_error hx
    exact Bd.bind_err hx this.1 (by omega)
  | ok y =>
    obtain ⟨v, r⟩ := y
    have := hm.of_ok hx
    exact Bd.bind_ok hx (hf v r hx) (by omega)

theorem parse_bd_aux (f : Nat) :
    (∀ d acc, d.length < f → Bd 63 (63 * d.length + 20) (parseDictC f d acc)) ∧
    (∀ d acc, d.length < f → Bd 63 (63 * d.length + 20) (parseListC f d acc)) := by
  induction f with
  | zero => exact ⟨fun d acc h => absurd h (Nat.not_lt_zero _), fun d acc h => absurd h (Nat.not_lt_zero _)⟩
  | succ f ih =>
    obtain ⟨ihD, ihL⟩ := ih
    refine ⟨fun d acc hd => ?_, fun d acc hd => ?_⟩
    · rw [parseDictC]
      cases hn : (nextTokC d).1 with
      | error e =>
        have h1 := nextTokC_err hn
        refine Bd.bind_ok tick_fst (Bd.bind_err hn ?_ (Nat.le_refl _)) ?_
        · rw [h1.1]; decide
        · rw [tick_w]; omega
      | ok o =>
        cases o with
        | none =>
          have h1 := nextTokC_none hn
          refine Bd.bind_ok tick_fst (Bd.bind_ok hn (Bd.ok _ _) (Nat.le_refl _)) ?_
          rw [tick_w]; simp only [List.length_nil]; omega
        | some x =>
          obtain ⟨tok, ty, rest⟩ := x
          obtain ⟨l1, l2, hw⟩ := nextTokC_some hn
          cases ty
          case dictEnd =>
            refine Bd.bind_ok tick_fst (Bd.bind_ok hn (Bd.ok _ _) (Nat.le_refl _)) ?_
            rw [tick_w]; omega
          case property =>
            refine Bd.bind_ok tick_fst (Bd.bind_ok hn
              (n' := 63 * d.length + 20 - (1 + (nextTokC d).2.w)) ?_ (Nat.le_refl _)) ?_
            case refine_2 => rw [tick_w]; omega
            simp only
            cases hn2 : (nextTokC rest).1 with
            | error e =>
              have h2 := nextTokC_err hn2
              refine Bd.bind_err hn2 ?_ ?_
              · rw [h2.1]; decide
              · omega
            | ok o2 =>
              cases o2 with
              | none =>
                have h2 := nextTokC_none hn2
                refine Bd.bind_ok hn2 (Bd.error _ (by decide)) ?_
                omega
              | some y =>
                obtain ⟨vtok, vty, rest2⟩ := y
                obtain ⟨m1, m2, hw2⟩ := nextTokC_some hn2
                cases vty
                case arrayStart =>
                  have hN := ihL rest2 [] (by omega)
                  refine Bd.bind_ok hn2 (Bd.bind_nested hN
                    (fun v r hx => ihD r _ (by have := hN.of_ok hx; omega)) (Nat.le_refl _)) ?_
                  omega
                case dictStart =>
                  have hN := ihD rest2 [] (by omega)
                  refine Bd.bind_ok hn2 (Bd.bind_nested hN
                    (fun v r hx => ihD r _ (by have := hN.of_ok hx; omega)) (Nat.le_refl _)) ?_
                  omega
                all_goals
                  refine Bd.bind_ok hn2 (n' := 63 * rest2.length + 20 + (7 * vtok.length + 25)) ?_ (by omega)
                  refine Bd.bind_ok (valueC_fst _ _) (n' := 63 * rest2.length + 20) ?_ (by rw [valueC_w]; omega)
                  cases hv : valueOfToken _ vtok with
                  | none => exact (Bd.error _ (by decide)).mono (Nat.zero_le _)
                  | some rv =>
                    cases rv with
                    | error e =>
                      refine (Bd.error _ ?_).mono (Nat.zero_le _)
                      rw [valueOfToken_error _ _ _ hv]; decide
                    | ok v => exact ihD rest2 _ (by omega)
          all_goals
            refine Bd.bind_ok tick_fst (Bd.bind_ok hn (ihD rest acc (by omega)) (Nat.le_refl _)) ?_
            rw [tick_w]; omega
    · rw [parseListC]
      cases hn : (nextTokC d).1 with
      | error e =>
        have h1 := nextTokC_err hn
        refine Bd.bind_ok tick_fst (Bd.bind_err hn ?_ (Nat.le_refl _)) ?_
        · rw [h1.1]; decide
        · rw [tick_w]; omega
      | ok o =>
        cases o with
        | none =>
          have h1 := nextTokC_none hn
          refine Bd.bind_ok tick_fst (Bd.bind_ok hn (Bd.ok _ _) (Nat.le_refl _)) ?_
          rw [tick_w]; simp only [List.length_nil]; omega
        | some x =>
          obtain ⟨tok, ty, rest⟩ := x
          obtain ⟨l1, l2, hw⟩ := nextTokC_some hn
          cases ty
          case arrayEnd =>
            refine Bd.bind_ok tick_fst (Bd.bind_ok hn (Bd.ok _ _) (Nat.le_refl _)) ?_
            rw [tick_w]; omega
          case arrayStart =>
            have hN := ihL rest [] (by omega)
            refine Bd.bind_ok tick_fst (Bd.bind_ok hn (Bd.bind_nested hN
              (fun v r hx => ihL r _ (by have := hN.of_ok hx; omega)) (Nat.le_refl _)) (Nat.le_refl _)) ?_
            rw [tick_w]; omega
          case dictStart =>
            have hN := ihD rest [] (by omega)
            refine Bd.bind_ok tick_fst (Bd.bind_ok hn (Bd.bind_nested hN
              (fun v r hx => ihL r _ (by have := hN.of_ok hx; omega)) (Nat.le_refl _)) (Nat.le_refl _)) ?_
            rw [tick_w]; omega
          all_goals
            refine Bd.bind_ok tick_fst (Bd.bind_ok hn
              (n' := 63 * rest.length + 20 + (7 * tok.length + 25)) ?_ (Nat.le_refl _)) (by rw [tick_w]; omega)
            refine Bd.bind_ok (valueC_fst _ _) (n' := 63 * rest.length + 20) ?_ (by rw [valueC_w]; omega)
            cases hv : valueOfToken _ tok with
            | none => exact (Bd.error _ (by decide)).mono (Nat.zero_le _)
            | some rv =>
              cases rv with
              | error e =>
                refine (Bd.error _ ?_).mono (Nat.zero_le _)
                rw [valueOfToken_error _ _ _ hv]; decide
              | ok v => exact ihL rest _ (by omega)

theorem parseDictC_bd (f : Nat) (d : BL) (acc : List (BL × Val)) (h : d.length < f) :
    Bd 63 (63 * d.length + 20) (parseDictC f d acc) := (parse_bd_aux f).1 d acc h

theorem parseListC_bd (f : Nat) (d : BL) (acc : List Val) (h : d.length < f) :
    Bd 63 (63 * d.length + 20) (parseListC f d acc) := (parse_bd_aux f).2 d acc h

/-- the nested parsers, started anywhere with enough fuel: linear in what is left, never out of fuel -/
theorem parseDictC_cost (f : Nat) (d : BL) (acc : List (BL × Val)) (h : d.length < f) :
    (parseDictC f d acc).2.w ≤ 63 * d.length + 20 ∧ (parseDictC f d acc).1 ≠ .error .recursionError :=
  ⟨(parseDictC_bd f d acc h).w_le, (parseDictC_bd f d acc h).ne_rec⟩

theorem parseListC_cost (f : Nat) (d : BL) (acc : List Val) (h : d.length < f) :
    (parseListC f d acc).2.w ≤ 63 * d.length + 20 ∧ (parseListC f d acc).1 ≠ .error .recursionError :=
  ⟨(parseListC_bd f d acc h).w_le, (parseListC_bd f d acc h).ne_rec⟩

theorem parseC_spec (d : BL) : (parseC d).2.w ≤ 63 * d.length + 20 ∧ (parseC d).1 ≠ .error .recursionError := by
  have hb := parseDictC_bd (d.length + 1) d [] (Nat.lt_succ_self _)
  unfold parseC
  cases hx : (parseDictC (d.length + 1) d []).1 with
  | error e =>
    have := hb.of_error hx
    rw [bind_err' hx]
    exact ⟨this.2, fun h => this.1 (by injection h)⟩
  | ok y =>
    have := hb.w_le
    rw [bind_ok' hx]
    refine ⟨?_, fun h => by cases h⟩
    simp only [w_add, ok_w]; omega

/-- ticks + bytes of the whole engine-data parse: at most `63 · len(data) + 20` -/
theorem parseC_cost (d : BL) : (parseC d).2.w ≤ 63 * d.length + 20 := (parseC_spec d).1

/-- the fuel `len(data) + 1` of `parse` is never exhausted (every loop iteration consumes a byte) -/
theorem parse_never_out_of_fuel (d : BL) : parse d ≠ .error .recursionError := by
  rw [← parseC_fst]; exact (parseC_spec d).2

/-! ## the block -/

theorem reErr_snd {α : Type} (x : CE α) : (reErr x).2 = x.2 := by
  obtain ⟨r, c⟩ := x
  cases r with
  | ok a => rfl
  | error e => cases e <;> rfl

theorem reErr_ne_other {α : Type} (x : CE α) (h : x.1 ≠ .error .recursionError) : (reErr x).1 ≠ .error .other := by
  obtain ⟨r, c⟩ := x
  cases r with
  | ok a => intro h'; cases h'
  | error e =>
    cases e
    case recursionError => exact absurd rfl h
    all_goals (intro h'; cases h')

/-- `reErr` only renames: the outcome is a success exactly when the parse is, with the same tree -/
theorem reErr_ok {α : Type} (x : CE α) (a : α) : (reErr x).1 = .ok a ↔ x.1 = .ok a := by
  obtain ⟨r, c⟩ := x
  cases r with
  | ok b => exact Iff.rfl
  | error e => cases e <;> (constructor <;> (intro h'; cases h'))

/-- The engine data of a block costs at most `65 · len(data) + 22` ticks + bytes, and its parse never runs out of fuel. -/
theorem runEngineData_bound (data : B) :
    (runEngineData data).2.w ≤ 65 * data.length + 22 ∧ (runEngineData data).1 ≠ .error .other := by
  have hp := parseC_spec data
  have hr : (readAllC data 0).1 = .ok (data, data.length) := by
    show readAll data 0 = _
    simp [readAll]
  have hrw : (readAllC data 0).2.w = 1 + data.length := by
    show 1 + (data.length - 0) = _
    omega
  unfold runEngineData
  rw [bind_ok' (enterBlock_fst data), bind_ok' hr]
  simp only
  have hs := reErr_snd (parseC data)
  have hn := reErr_ne_other (parseC data) hp.2
  cases hx : (reErr (parseC data)).1 with
  | error e =>
    rw [bind_err' hx]
    refine ⟨?_, fun h => hn (by rw [hx]; injection h with h; rw [h])⟩
    simp only [w_add, enterBlock_w, hrw, hs]; omega
  | ok t =>
    rw [bind_ok' hx]
    refine ⟨?_, fun h => by cases h⟩
    simp only [w_add, enterBlock_w, hrw, hs, ok_w]; omega

end PsdVerif.EngineDataCost
