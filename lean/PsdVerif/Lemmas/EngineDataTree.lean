/-
Lemmas for C18: the token stream of the two writers (`Toks (write …) (tokensOf …)`).
Core Lean only.
-/
import PsdVerif.Lemmas.EngineDataScalars

namespace PsdVerif.EngineData

/-! ### Tokens of a tree, well-formedness -/

def tyOf : Scalar → Tok
  | .str _ => .string | .bool _ => .boolean | .int _ => .number
  | .flt _ => .numberDec | .prop _ => .property | .tag _ => .tag

def tLL : BL × Tok := ([0x3C, 0x3C], .dictStart)
def tGG : BL × Tok := ([0x3E, 0x3E], .dictEnd)
def tLB : BL × Tok := ([0x5B], .arrayStart)
def tRB : BL × Tok := ([0x5D], .arrayEnd)

mutual
/-- The tokens a value is written as (the same in both layouts). -/
def tokVal : Val → List (BL × Tok)
  | .dict items => tLL :: (tokPairs items ++ [tGG])
  | .list elems => tLB :: (tokElems elems ++ [tRB])
  | .sc s => [(wScalar s, tyOf s)]
def tokPairs : List (BL × Val) → List (BL × Tok)
  | [] => []
  | (k, v) :: t => (0x2F :: k, .property) :: (tokVal v ++ tokPairs t)
def tokElems : List Val → List (BL × Tok)
  | [] => []
  | v :: t => tokVal v ++ tokElems t
end

def tokensOf : Layout → Tree → List (BL × Tok)
  | .indented, t => tLL :: (tokPairs t ++ [tGG])
  | .compact, t => tokPairs t

/-- Decimals in the normal form the format keeps: 1 to 8 fractional digits, no trailing
zero beyond the first place. -/
def Dec.wf (d : Dec) : Bool := decide (1 ≤ d.k) && decide (d.k ≤ 8) && (d.k == 1 || d.mant % 10 != 0)

/-- Scalars the property quantifies over: strings of Unicode scalar values, booleans,
integers, finite decimals (`Property` / `Tag` values are modelled but not covered). -/
def wfScalar : Scalar → Bool
  | .str s => s.all isScalar
  | .bool _ => true
  | .int _ => true
  | .flt d => d.wf
  | .prop _ => false
  | .tag _ => false

mutual
def wfVal : Val → Bool
  | .dict items => wfPairs items
  | .list elems => wfElems elems
  | .sc s => wfScalar s
/-- Keys are property names and occur once (a Python dict cannot hold a key twice). -/
def wfPairs : List (BL × Val) → Bool
  | [] => true
  | (k, v) :: t => wfName k && !(t.any (fun p => p.1 == k)) && wfVal v && wfPairs t
def wfElems : List Val → Bool
  | [] => true
  | v :: t => wfVal v && wfElems t
end

/-- What the container proofs need from a written scalar. -/
structure ScalarOK (s : Scalar) : Prop where
  tok : (∃ u, wScalar s = strBytes u) ∨ Plain (wScalar s)
  cls : classify (wScalar s) = some (tyOf s)
  val : valueOfToken (tyOf s) (wScalar s) = some (.ok s)

/-- The one scalar fact proved separately (Lemmas/EngineDataFloat). -/
def FloatOK : Prop := ∀ d : Dec, d.wf = true → ScalarOK (.flt d)

theorem scalarOK (hf : FloatOK) (s : Scalar) (h : wfScalar s = true) : ScalarOK s := by
  cases s with
  | str s => exact ⟨Or.inl ⟨_, rfl⟩, classify_strBytes _, valueOfToken_strBytes s h⟩
  | bool b => exact ⟨Or.inr (plain_bool b), classify_bool b, value_bool b⟩
  | int i =>
    refine ⟨Or.inr (plain_writeInt i), classify_writeInt i, ?_⟩
    simp [valueOfToken, tyOf, wScalar, intOfToken_writeInt]
  | flt d => exact hf d h
  | prop n => cases h
  | tag r => cases h

theorem Toks_scalar (hf : FloatOK) (s : Scalar) (h : wfScalar s = true) {m : BL} {ts}
    (hm : Sep m) (ht : Toks m ts) : Toks (wScalar s ++ m) ((wScalar s, tyOf s) :: ts) := by
  have ok := scalarOK hf s h
  rcases ok.tok with ⟨u, hu⟩ | hp
  · have := ok.cls
    rw [hu] at this ⊢
    have e : tyOf s = .string := by
      rw [classify_strBytes] at this; injection this with this; exact this.symm
    rw [e]; exact Toks_str ht
  · exact Toks_plain hp ok.cls hm ht

/-! ### White space and frames -/

theorem div_ind (i : Option Nat) : ∀ b ∈ ind i, isDiv b = true := by
  cases i with
  | none => intro b hb; simp [ind] at hb; subst hb; decide
  | some n => intro b hb; simp [ind] at hb; rw [hb.2]; decide

theorem div_nl (i : Option Nat) : ∀ b ∈ nl i, isDiv b = true := by
  cases i with
  | none => intro b hb; simp [nl] at hb
  | some n => intro b hb; simp [nl] at hb; subst hb; decide

theorem plain_LL : Plain [0x3C, 0x3C] := ⟨by decide, by decide, by decide⟩
theorem plain_GG : Plain [0x3E, 0x3E] := ⟨by decide, by decide, by decide⟩
theorem plain_LB : Plain [0x5B] := ⟨by decide, by decide, by decide⟩
theorem plain_RB : Plain [0x5D] := ⟨by decide, by decide, by decide⟩

/-- "Empty or starts with a divider" (the same as `Sep`, used for the head of a body). -/
theorem Sep_append {x y : BL} (hx : Sep x) (hy : Sep y) : Sep (x ++ y) := by
  rcases hx with rfl | ⟨b, t, rfl, hb⟩
  · simpa using hy
  · exact Or.inr ⟨b, t ++ y, rfl, hb⟩

theorem Sep_ws_cons {w : BL} (b : UInt8) (x : BL) (hw : ∀ c ∈ w, isDiv c = true) (hb : isDiv b = true) :
    Sep (w ++ b :: x) := by
  cases w with
  | nil => exact Sep_cons b x hb
  | cons a w => exact Or.inr ⟨a, w ++ b :: x, rfl, hw a (by simp)⟩

theorem Sep_ind_none (x : BL) : Sep (ind none ++ x) := Sep_cons 0x20 x (by decide)

theorem dictFrame_head (indent : Option Nat) (body tail : BL) : Sep (dictFrame indent body ++ tail) := by
  unfold dictFrame
  cases indent with
  | none => simp [ind, nl]; exact Sep_cons _ _ (by decide)
  | some n =>
    cases n with
    | zero => simp [ind, nl]; exact Sep_cons _ _ (by decide)
    | succ n => simp [ind, nl]; exact Sep_cons _ _ (by decide)

theorem dictFrame_toks (indent : Option Nat) (body tail : BL) (tb ts : List (BL × Tok))
    (hb : indent.isSome = true ∨ Sep body)
    (H : ∀ tail' ts', (indent.isSome = true ∨ Sep tail') → Toks tail' ts' → Toks (body ++ tail') (tb ++ ts'))
    (hs : Sep tail) (ht : Toks tail ts) :
    Toks (dictFrame indent body ++ tail) (tLL :: (tb ++ tGG :: ts)) := by
  unfold dictFrame
  simp only [List.append_assoc]
  have hend : Toks (ind indent ++ ([0x3E, 0x3E] ++ tail)) (tGG :: ts) :=
    Toks_ws (div_ind indent) (Toks_plain plain_GG (by decide) hs ht)
  have hendSep : indent.isSome = true ∨ Sep (ind indent ++ ([0x3E, 0x3E] ++ tail)) := by
    cases indent with
    | none => exact Or.inr (Sep_ind_none _)
    | some n => exact Or.inl rfl
  have hbody := H _ _ hendSep hend
  have hmid : Toks (nl indent ++ (body ++ (ind indent ++ ([0x3E, 0x3E] ++ tail)))) (tb ++ tGG :: ts) :=
    Toks_ws (div_nl indent) hbody
  have hmidSep : Sep (nl indent ++ (body ++ (ind indent ++ ([0x3E, 0x3E] ++ tail)))) := by
    cases indent with
    | none =>
      simp only [nl, List.nil_append]
      rcases hb with hb | hb
      · cases hb
      · exact Sep_append hb (Sep_ind_none _)
    | some n => exact Sep_cons _ _ (by decide)
  have h1 : Toks ([0x3C, 0x3C] ++ (nl indent ++ (body ++ (ind indent ++ ([0x3E, 0x3E] ++ tail)))))
      (tLL :: (tb ++ tGG :: ts)) := Toks_plain plain_LL (by decide) hmidSep hmid
  apply Toks_ws (by intro b hb; split at hb <;> simp at hb; subst hb; decide)
  exact Toks_ws (div_nl indent) (Toks_ws (div_ind indent) h1)

theorem listFrame_toks (indent : Option Nat) (body tail : BL) (tb ts : List (BL × Tok))
    (hb : Sep body)
    (H : ∀ tail' ts', Sep tail' → Toks tail' ts' → Toks (body ++ tail') (tb ++ ts'))
    (hs : Sep tail) (ht : Toks tail ts) :
    Toks (listFrame indent body ++ tail) (tLB :: (tb ++ tRB :: ts)) := by
  unfold listFrame
  simp only [List.append_assoc]
  have hclose : Toks ([0x5D] ++ tail) (tRB :: ts) := Toks_plain plain_RB (by decide) hs ht
  have hendSep : Sep ((match indent with
      | none => [0x20]
      | some n => (0x0A : UInt8) :: List.replicate n 0x09) ++ ([0x5D] ++ tail)) := by
    cases indent with
    | none => exact Sep_cons _ _ (by decide)
    | some n => exact Sep_cons _ _ (by decide)
  have hend : Toks ((match indent with
      | none => [0x20]
      | some n => (0x0A : UInt8) :: List.replicate n 0x09) ++ ([0x5D] ++ tail)) (tRB :: ts) := by
    apply Toks_ws _ hclose
    cases indent with
    | none => intro b hb; simp at hb; subst hb; decide
    | some n =>
      intro b hb; simp at hb
      rcases hb with rfl | ⟨_, rfl⟩ <;> decide
  have hbody := H _ _ hendSep hend
  exact Toks_plain plain_LB (by decide) (Sep_append hb hendSep) hbody

/-! ### Theorem A: the token stream of the writers -/

theorem wPairs_sep_none (items : List (BL × Val)) : Sep (wPairs none items) := by
  cases items with
  | nil => exact Sep_nil
  | cons p t =>
    obtain ⟨k, v⟩ := p
    simp only [wPairs, inner, ind, List.append_assoc, List.cons_append, List.nil_append]
    exact Sep_cons _ _ (by decide)

mutual
theorem wAsItem_sep (indent : Option Nat) (v : Val) (x : BL) : Sep (wAsItem indent v ++ x) := by
  cases v with
  | dict items => rw [wAsItem]; exact dictFrame_head _ _ _
  | list elems => rw [wAsItem]; exact Sep_cons _ _ (by decide)
  | sc s => rw [wAsItem]; exact Sep_cons _ _ (by decide)
end

theorem wElems_sep (indent : Option Nat) (elems : List Val) : Sep (wElems indent elems) := by
  cases elems with
  | nil => exact Sep_nil
  | cons v t => rw [wElems]; exact wAsItem_sep _ _ _

mutual
theorem toks_value (hf : FloatOK) (indent : Option Nat) (v : Val) (h : wfVal v = true) (tail : BL)
    (ts : List (BL × Tok)) (hs : Sep tail) (ht : Toks tail ts) :
    Toks (wAsValue indent v ++ tail) (tokVal v ++ ts) := by
  match v with
  | .dict items =>
    rw [wAsValue, tokVal]
    simp only [List.cons_append, List.append_assoc, List.singleton_append]
    rw [wfVal] at h
    refine dictFrame_toks (inner indent) _ tail _ ts ?_ ?_ hs ht
    · cases indent with
      | none => exact Or.inr (wPairs_sep_none items)
      | some n => exact Or.inl rfl
    · intro tail' ts' hs' ht'
      exact toks_pairs hf (inner indent) items h tail' ts' hs' ht'
  | .list elems =>
    rw [wAsValue, tokVal]
    simp only [List.cons_append, List.append_assoc, List.singleton_append]
    rw [wfVal] at h
    apply Toks_div (by decide)
    split
    · exact listFrame_toks _ _ tail _ ts (wElems_sep _ _)
        (fun tail' ts' hs' ht' => toks_elems hf _ elems h tail' ts' hs' ht') hs ht
    · exact listFrame_toks _ _ tail _ ts (wElems_sep _ _)
        (fun tail' ts' hs' ht' => toks_elems hf _ elems h tail' ts' hs' ht') hs ht
  | .sc s =>
    rw [wAsValue, tokVal]
    rw [wfVal] at h
    simp only [List.cons_append, List.singleton_append]
    exact Toks_div (by decide) (Toks_scalar hf s h hs ht)

theorem toks_pairs (hf : FloatOK) (indent : Option Nat) (items : List (BL × Val)) (h : wfPairs items = true)
    (tail : BL) (ts : List (BL × Tok)) (hs : indent.isSome = true ∨ Sep tail) (ht : Toks tail ts) :
    Toks (wPairs indent items ++ tail) (tokPairs items ++ ts) := by
  match items with
  | [] => simpa [wPairs, tokPairs] using ht
  | (k, v) :: t =>
    rw [wPairs, tokPairs]
    rw [wfPairs] at h
    simp only [Bool.and_eq_true] at h
    obtain ⟨⟨⟨hk, _⟩, hv⟩, hT⟩ := h
    simp only [List.append_assoc, List.cons_append]
    have hrest := toks_pairs hf indent t hT tail ts hs ht
    have hnl : Toks (nl indent ++ (wPairs indent t ++ tail)) (tokPairs t ++ ts) := Toks_ws (div_nl indent) hrest
    have hnlSep : Sep (nl indent ++ (wPairs indent t ++ tail)) := by
      cases indent with
      | none =>
        simp only [nl, List.nil_append]
        rcases hs with hs | hs
        · cases hs
        · exact Sep_append (wPairs_sep_none t) hs
      | some n => exact Sep_cons _ _ (by decide)
    have hval := toks_value hf indent v hv _ _ hnlSep hnl
    have hvalSep : Sep (wAsValue indent v ++ (nl indent ++ (wPairs indent t ++ tail))) := by
      cases v with
      | dict items' => rw [wAsValue]; exact dictFrame_head _ _ _
      | list elems => rw [wAsValue]; exact Sep_cons _ _ (by decide)
      | sc s => rw [wAsValue]; exact Sep_cons _ _ (by decide)
    apply Toks_ws (div_ind _)
    have := Toks_plain (plain_key k hk) (classify_key k hk) hvalSep hval
    simpa using this

theorem toks_item (hf : FloatOK) (indent : Option Nat) (v : Val) (h : wfVal v = true) (tail : BL)
    (ts : List (BL × Tok)) (hs : Sep tail) (ht : Toks tail ts) :
    Toks (wAsItem indent v ++ tail) (tokVal v ++ ts) := by
  match v with
  | .dict items =>
    rw [wAsItem, tokVal]
    simp only [List.cons_append, List.append_assoc, List.singleton_append]
    rw [wfVal] at h
    refine dictFrame_toks indent _ tail _ ts ?_ ?_ hs ht
    · cases indent with
      | none => exact Or.inr (wPairs_sep_none items)
      | some n => exact Or.inl rfl
    · intro tail' ts' hs' ht'
      exact toks_pairs hf indent items h tail' ts' hs' ht'
  | .list elems =>
    rw [wAsItem, tokVal]
    simp only [List.cons_append, List.append_assoc, List.singleton_append]
    rw [wfVal] at h
    apply Toks_div (by decide)
    exact listFrame_toks _ _ tail _ ts (wElems_sep _ _)
      (fun tail' ts' hs' ht' => toks_elems hf _ elems h tail' ts' hs' ht') hs ht
  | .sc s =>
    rw [wAsItem, tokVal]
    rw [wfVal] at h
    simp only [List.cons_append, List.singleton_append]
    exact Toks_div (by decide) (Toks_scalar hf s h hs ht)

theorem toks_elems (hf : FloatOK) (indent : Option Nat) (elems : List Val) (h : wfElems elems = true)
    (tail : BL) (ts : List (BL × Tok)) (hs : Sep tail) (ht : Toks tail ts) :
    Toks (wElems indent elems ++ tail) (tokElems elems ++ ts) := by
  match elems with
  | [] => simpa [wElems, tokElems] using ht
  | v :: t =>
    rw [wElems, tokElems]
    rw [wfElems] at h
    simp only [Bool.and_eq_true] at h
    simp only [List.append_assoc]
    have hrest := toks_elems hf indent t h.2 tail ts hs ht
    have hsep : Sep (wElems indent t ++ tail) := Sep_append (wElems_sep _ _) hs
    exact toks_item hf indent v h.1 _ _ hsep hrest
end

theorem toks_writeT (hf : FloatOK) (l : Layout) (t : Tree) (h : wfPairs t = true) :
    Toks (writeT l t) (tokensOf l t) := by
  cases l with
  | indented =>
    have := dictFrame_toks (some 0) (wPairs (some 0) t) [] (tokPairs t) [] (Or.inl rfl)
      (fun tail' ts' hs' ht' => toks_pairs hf (some 0) t h tail' ts' hs' ht') Sep_nil Toks_nil
    simpa [writeT, tokensOf] using this
  | compact =>
    have := toks_pairs hf none t h [] [] (Or.inr Sep_nil) Toks_nil
    simpa [writeT, tokensOf] using this

end PsdVerif.EngineData
