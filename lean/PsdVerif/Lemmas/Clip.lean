/-
Helper lemmas for C15 (single pass = per-layer specification). Core Lean only.
-/
import PsdVerif.Model.Clip

namespace PsdVerif.Clip
open Spec

/-! ### `runLen` -/

theorem runLen_eq_takeWhile (l : List ChildFlags) : runLen l = (l.takeWhile (·.clipping)).length := by
  induction l with
  | nil => rfl
  | cons c rest ih => by_cases h : c.clipping <;> simp [runLen, List.takeWhile, h, ih]

theorem runLen_le (l : List ChildFlags) : runLen l ≤ l.length := by
  induction l with
  | nil => simp [runLen]
  | cons c rest ih => simp only [runLen]; split <;> simp <;> omega

theorem runLen_clipping (l : List ChildFlags) (i : Nat) (h : i < runLen l) :
    ∃ c, l[i]? = some c ∧ c.clipping = true := by
  induction l generalizing i with
  | nil => simp [runLen] at h
  | cons c rest ih =>
    simp only [runLen] at h
    split at h
    · cases i with
      | zero => exact ⟨c, by simp, by assumption⟩
      | succ i => simpa using ih i (by omega)
    · omega

theorem runLen_stop (l : List ChildFlags) (c : ChildFlags) (h : l[runLen l]? = some c) : c.clipping = false := by
  induction l with
  | nil => simp at h
  | cons d rest ih =>
    simp only [runLen] at h
    split at h
    · simp at h; exact ih h
    · simp at h; subst h; simpa using ‹¬d.clipping = true›

/-- `R cs k`: length of the clipping run that starts at position `k`. -/
def R (cs : List ChildFlags) (k : Nat) : Nat := runLen (cs.drop k)

theorem R_clipping (cs : List ChildFlags) (k : Nat) (c : ChildFlags) (h : cs[k]? = some c) (hc : c.clipping = true) :
    R cs k = R cs (k + 1) + 1 := by
  have hk : k < cs.length := by
    rcases Nat.lt_or_ge k cs.length with h' | h'
    · exact h'
    · simp [List.getElem?_eq_none h'] at h
  have : cs.drop k = c :: cs.drop (k + 1) := by
    rw [List.drop_eq_getElem_cons hk]
    simp [List.getElem?_eq_getElem hk] at h
    rw [h]
  simp [R, this, runLen, hc]

theorem R_base (cs : List ChildFlags) (k : Nat) (c : ChildFlags) (h : cs[k]? = some c) (hc : c.clipping = false) :
    R cs k = 0 := by
  have hk : k < cs.length := by
    rcases Nat.lt_or_ge k cs.length with h' | h'
    · exact h'
    · simp [List.getElem?_eq_none h'] at h
  have : cs.drop k = c :: cs.drop (k + 1) := by
    rw [List.drop_eq_getElem_cons hk]
    simp [List.getElem?_eq_getElem hk] at h
    rw [h]
  simp [R, this, runLen, hc]

theorem R_end (cs : List ChildFlags) : R cs cs.length = 0 := by simp [R, runLen]

theorem R_bound (cs : List ChildFlags) (k : Nat) (hk : k ≤ cs.length) : k + R cs k ≤ cs.length := by
  have := runLen_le (cs.drop k)
  simp [R] at *
  omega

theorem R_mem_clipping (cs : List ChildFlags) (k j : Nat) (h1 : k ≤ j) (h2 : j < k + R cs k) :
    ∃ c, cs[j]? = some c ∧ c.clipping = true := by
  obtain ⟨c, hc, hcl⟩ := runLen_clipping (cs.drop k) (j - k) (by simp [R] at h2; omega)
  refine ⟨c, ?_, hcl⟩
  rw [List.getElem?_drop] at hc
  rwa [show k + (j - k) = j by omega] at hc

/-! ### `targetIn` -/

theorem take_succ_reverse (cs : List ChildFlags) (j : Nat) (c : ChildFlags) (h : cs[j]? = some c) :
    (cs.take (j + 1)).reverse = c :: (cs.take j).reverse := by
  rw [List.take_add_one, h]; simp

/-- Skipping a stretch of clipping layers does not change the answer. -/
theorem targetIn_skip (m : CompatMode) (cs : List ChildFlags) (b j : Nat) (hb : b ≤ j)
    (h : ∀ i, b ≤ i → i < j → ∃ c, cs[i]? = some c ∧ c.clipping = true) :
    targetIn m (cs.take j).reverse = targetIn m (cs.take b).reverse := by
  induction j with
  | zero => have : b = 0 := by omega
            subst this; rfl
  | succ j ih =>
    rcases Nat.lt_or_ge b (j + 1) with hlt | hge
    · obtain ⟨c, hc, hcl⟩ := h j (by omega) (by omega)
      rw [take_succ_reverse cs j c hc]
      simp only [targetIn, hcl, if_true]
      exact ih (by omega) (fun i h1 h2 => h i h1 (by omega))
    · have : b = j + 1 := by omega
      subst this; rfl

/-! ### The loop invariant -/

/-- State of the pass when the positions `≥ k` have been processed. -/
structure Inv (m : CompatMode) (cs : List ChildFlags) (k : Nat) (s : ClipSt) : Prop where
  stack : s.stack = (List.range' k (R cs k)).reverse
  done : ∀ j c, k + R cs k ≤ j → cs[j]? = some c →
    s.clip j = (infoAt m cs c j).clipLayers ∧ s.tgt j = (infoAt m cs c j).hasTarget
  fresh : ∀ j, j < k + R cs k → s.clip j = [] ∧ s.tgt j = true

theorem inv_init (m : CompatMode) (cs : List ChildFlags) : Inv m cs cs.length ClipSt.init where
  stack := by simp [R_end, ClipSt.init]
  done := by
    intro j c h1 h2
    have : j < cs.length := by
      rcases Nat.lt_or_ge j cs.length with h' | h'
      · exact h'
      · simp [List.getElem?_eq_none h'] at h2
    simp [R_end] at h1; omega
  fresh := by intro j _; simp [ClipSt.init]

theorem mem_stack (cs : List ChildFlags) (k j : Nat) :
    j ∈ (List.range' k (R cs k)).reverse ↔ k ≤ j ∧ j < k + R cs k := by
  simp [List.mem_range'_1]

theorem inv_step (m : CompatMode) (cs : List ChildFlags) (k : Nat) (c : ChildFlags) (s : ClipSt)
    (hc : cs[k]? = some c) (inv : Inv m cs (k + 1) s) : Inv m cs k (stepClip m s k c) := by
  obtain ⟨hstack, hdone, hfresh⟩ := inv
  unfold stepClip
  by_cases hcl : c.clipping = true
  · -- a clipping layer joins the pending run
    have hR := R_clipping cs k c hc hcl
    simp only [hcl, if_true]
    refine ⟨?_, ?_, ?_⟩
    · simp only [hstack, hR]
      rw [List.range'_succ]; simp
    · intro j d h1 h2; exact hdone j d (by omega) h2
    · intro j h1; exact hfresh j (by omega)
  · -- a non-clipping layer ends the run above it
    have hcl' : c.clipping = false := by simpa using hcl
    have hR := R_base cs k c hc hcl'
    have hmem : ∀ j, j ∈ s.stack ↔ k + 1 ≤ j ∧ j < k + 1 + R cs (k + 1) := by
      intro j; rw [hstack]; exact mem_stack cs (k + 1) j
    -- what the specification says about the layers of the run just ended
    have hrun : ∀ j d, k + 1 ≤ j → j < k + 1 + R cs (k + 1) → cs[j]? = some d →
        (infoAt m cs d j).clipLayers = [] ∧ (infoAt m cs d j).hasTarget = eligible m c := by
      intro j d h1 h2 hd
      obtain ⟨d', hd', hdc⟩ := R_mem_clipping cs (k + 1) j h1 h2
      rw [hd] at hd'; cases hd'
      have hsk := targetIn_skip m cs (k + 1) j h1
        (fun i hi1 hi2 => R_mem_clipping cs (k + 1) i hi1 (by omega))
      simp only [infoAt, eligible, hdc, Bool.not_true, Bool.false_and, if_true, hsk,
        take_succ_reverse cs k c hc, targetIn, hcl', Bool.false_eq_true, if_false]
      simp [eligible, hcl']
    simp only [hcl', Bool.false_eq_true, if_false]
    by_cases hpt : (c.passThrough && m.restrictive) = true
    · -- not eligible as a base: the run has no target
      have helig : eligible m c = false := by
        cases hp : c.passThrough <;> cases hr : m.restrictive <;> simp_all [eligible]
      simp only [hpt, if_true]
      refine ⟨by simp [hR], ?_, ?_⟩
      · intro j d h1 h2
        simp only [ClipSt.noTarget, hmem]
        rcases Nat.lt_or_ge j (k + 1 + R cs (k + 1)) with hlt | hge
        · rcases Nat.eq_or_lt_of_le (show k ≤ j by omega) with heq | hgt
          · subst heq
            rw [hc] at h2; cases h2
            have := hfresh k (by omega)
            simp [this, infoAt, helig, hcl']
          · obtain ⟨e1, e2⟩ := hrun j d (by omega) hlt h2
            have := hfresh j hlt
            simp [this, e1, e2, helig, show k + 1 ≤ j by omega, hlt]
        · have := hdone j d hge h2
          simp [this, show ¬ (j < k + 1 + R cs (k + 1)) by omega]
      · intro j h1
        simp only [ClipSt.noTarget, hmem]
        have := hfresh j (by omega)
        simp [this, show ¬ (k + 1 ≤ j) by omega]
    · -- an eligible base takes the run as its clip layers
      have helig : eligible m c = true := by
        cases hp : c.passThrough <;> cases hr : m.restrictive <;> simp_all [eligible]
      simp only [hpt, Bool.false_eq_true, if_false]
      refine ⟨by simp [hR], ?_, ?_⟩
      · intro j d h1 h2
        rcases Nat.lt_or_ge j (k + 1 + R cs (k + 1)) with hlt | hge
        · rcases Nat.eq_or_lt_of_le (show k ≤ j by omega) with heq | hgt
          · subst heq
            rw [hc] at h2; cases h2
            have := hfresh k (by omega)
            simp [this, infoAt, helig, hcl', hstack, runAbove, R]
          · obtain ⟨e1, e2⟩ := hrun j d (by omega) hlt h2
            have := hfresh j hlt
            simp [this, e1, e2, helig, show j ≠ k by omega]
        · have := hdone j d hge h2
          simp [this, show j ≠ k by omega]
      · intro j h1
        have := hfresh j (by omega)
        simp [this, show j ≠ k by omega]

/-- Running the loop over the positions below `k`. -/
theorem inv_loop (m : CompatMode) (cs : List ChildFlags) (k : Nat) (hk : k ≤ cs.length) (s : ClipSt)
    (inv : Inv m cs k s) : Inv m cs 0 (loop m (cs.take k).reverse s) := by
  induction k generalizing s with
  | zero => simpa [loop] using inv
  | succ k ih =>
    have hlt : k < cs.length := by omega
    have hc : cs[k]? = some cs[k] := List.getElem?_eq_getElem hlt
    rw [take_succ_reverse cs k cs[k] hc]
    simp only [loop, List.length_reverse, List.length_take, Nat.min_eq_left (Nat.le_of_lt hlt)]
    exact ih (by omega) _ (inv_step m cs k cs[k] s hc inv)

/-- The trailing `for clip_layer in stack` settles the run at the bottom of the group. -/
theorem final_spec (m : CompatMode) (cs : List ChildFlags) (s : ClipSt) (inv : Inv m cs 0 s)
    (j : Nat) (c : ChildFlags) (hc : cs[j]? = some c) :
    s.noTarget.clip j = (infoAt m cs c j).clipLayers ∧ s.noTarget.tgt j = (infoAt m cs c j).hasTarget := by
  obtain ⟨hstack, hdone, hfresh⟩ := inv
  simp only [Nat.zero_add] at hdone hfresh
  have hmem : ∀ j, j ∈ s.stack ↔ j < R cs 0 := by
    intro j; rw [hstack]; simp [List.mem_range'_1]
  simp only [ClipSt.noTarget, hmem]
  rcases Nat.lt_or_ge j (R cs 0) with hlt | hge
  · obtain ⟨d, hd, hdc⟩ := R_mem_clipping cs 0 j (by omega) (by omega)
    rw [hc] at hd; cases hd
    have hsk := targetIn_skip m cs 0 j (by omega) (fun i hi1 hi2 => R_mem_clipping cs 0 i hi1 (by omega))
    have := hfresh j hlt
    simp [this, infoAt, eligible, hdc, hsk, targetIn, hlt]
  · have := hdone j c hge hc
    simp [this, show ¬ (j < R cs 0) by omega]


/-! ### Declarative reading of the specification -/

/-- position `l` holds a clipping layer -/
def ClipAt (cs : List ChildFlags) (l : Nat) : Prop := ∃ d, cs[l]? = some d ∧ d.clipping = true

/-- `i` is an eligible base beneath position `j` with nothing but clipping layers strictly between. -/
def BaseFor (m : CompatMode) (cs : List ChildFlags) (i j : Nat) : Prop :=
  i < j ∧ (∃ c, cs[i]? = some c ∧ eligible m c = true) ∧ ∀ l, i < l → l < j → ClipAt cs l

theorem R_stop (cs : List ChildFlags) (k : Nat) (d : ChildFlags) (h : cs[k + R cs k]? = some d) :
    d.clipping = false := by
  apply runLen_stop (cs.drop k) d
  rw [List.getElem?_drop]; exact h

theorem targetIn_iff (m : CompatMode) (cs : List ChildFlags) (j : Nat) (hj : j ≤ cs.length) :
    targetIn m (cs.take j).reverse = true ↔ ∃ i, BaseFor m cs i j := by
  induction j with
  | zero => simp [targetIn, BaseFor]
  | succ j ih =>
    have hlt : j < cs.length := by omega
    have hc : cs[j]? = some cs[j] := List.getElem?_eq_getElem hlt
    rw [take_succ_reverse cs j cs[j] hc]
    simp only [targetIn]
    by_cases hcl : cs[j].clipping = true
    · simp only [hcl, if_true]
      rw [ih (by omega)]
      constructor
      · rintro ⟨i, h1, h2, h3⟩
        refine ⟨i, by omega, h2, ?_⟩
        intro l hl1 hl2
        rcases Nat.lt_or_ge l j with h | h
        · exact h3 l hl1 h
        · have : l = j := by omega
          subst this; exact ⟨cs[l], hc, hcl⟩
      · rintro ⟨i, h1, ⟨c, hci, he⟩, h3⟩
        rcases Nat.lt_or_ge i j with h | h
        · exact ⟨i, h, ⟨c, hci, he⟩, fun l hl1 hl2 => h3 l hl1 (by omega)⟩
        · have : i = j := by omega
          subst this
          rw [hc] at hci; cases hci
          simp [eligible, hcl] at he
    · have hcl' : cs[j].clipping = false := by simpa using hcl
      simp only [hcl', Bool.false_eq_true, if_false]
      constructor
      · intro he
        exact ⟨j, by omega, ⟨cs[j], hc, he⟩, fun l hl1 hl2 => by omega⟩
      · rintro ⟨i, h1, ⟨c, hci, he⟩, h3⟩
        rcases Nat.lt_or_ge i j with h | h
        · obtain ⟨d, hd, hdc⟩ := h3 j h (by omega)
          rw [hc] at hd; cases hd
          simp [hcl'] at hdc
        · have : i = j := by omega
          subst this
          rw [hc] at hci; cases hci
          exact he

theorem mem_runAbove (cs : List ChildFlags) (i j : Nat) (hj : j < cs.length) :
    j ∈ runAbove cs i ↔ i < j ∧ ∀ l, i < l → l ≤ j → ClipAt cs l := by
  simp only [runAbove, List.mem_range'_1]
  change i + 1 ≤ j ∧ j < i + 1 + R cs (i + 1) ↔ _
  constructor
  · rintro ⟨h1, h2⟩
    exact ⟨by omega, fun l hl1 hl2 => R_mem_clipping cs (i + 1) l (by omega) (by omega)⟩
  · rintro ⟨h1, h2⟩
    refine ⟨by omega, ?_⟩
    rcases Nat.lt_or_ge j (i + 1 + R cs (i + 1)) with h | h
    · exact h
    · exfalso
      have hlt : i + 1 + R cs (i + 1) < cs.length := by omega
      obtain ⟨d, hd, hdc⟩ := h2 (i + 1 + R cs (i + 1)) (by omega) h
      have := R_stop cs (i + 1) d hd
      simp [this] at hdc

theorem getElem?_clip (m : CompatMode) (cs : List ChildFlags) (i : Nat) (ci : ClipInfo) :
    (clip m cs)[i]? = some ci ↔ ∃ c, cs[i]? = some c ∧ ci = infoAt m cs c i := by
  simp only [clip, List.getElem?_map, List.getElem?_zipIdx, Option.map_eq_some_iff]
  constructor
  · rintro ⟨⟨c, k⟩, ⟨c', hc', he⟩, rfl⟩
    cases he
    exact ⟨c, hc', by simp⟩
  · rintro ⟨c, hc, rfl⟩
    exact ⟨(c, 0 + i), ⟨c, hc, rfl⟩, by simp⟩

end PsdVerif.Clip
