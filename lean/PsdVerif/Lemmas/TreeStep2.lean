/-
Layer-tree model: the remaining operations (Group.new, Group.group_layers, attribute setters,
allocation, observations) preserve the invariant; assembly for `step`.
-/
import PsdVerif.Lemmas.TreeStep

namespace PsdVerif.TreeSt

theorem then_append_adds (cfg : Cfg) (s : State) (r1 : State × Out) (g x : Id) (o : Out) (h1 : Adds s r1.1 g [x]) :
    Adds s (if r1.2.isError = true then r1
      else if (opAppend cfg r1.1 g x).2.isError = true then opAppend cfg r1.1 g x
      else ((opAppend cfg r1.1 g x).1, o)).1 g [x] := by
  split
  · exact h1
  · split
    · exact h1.trans (opAppend_adds cfg _ g x)
    · exact h1.trans (opAppend_adds cfg _ g x)

theorem then_append_frame (cfg : Cfg) (s : State) (r1 : State × Out) (g x : Id) (o : Out) (h1 : KindFrame s r1.1) :
    KindFrame s (if r1.2.isError = true then r1
      else if (opAppend cfg r1.1 g x).2.isError = true then opAppend cfg r1.1 g x
      else ((opAppend cfg r1.1 g x).1, o)).1 := by
  split
  · exact h1
  · split
    · exact h1.trans (opAppend_frame cfg _ g x)
    · exact h1.trans (opAppend_frame cfg _ g x)

theorem opMoveToGroup_adds (cfg : Cfg) (s : State) (x g : Id) : Adds s (opMoveToGroup cfg s x g).1 g [x] := by
  unfold opMoveToGroup
  split
  · exact Adds.refl s _ _
  · split
    · exact Adds.refl s _ _
    · split
      · exact Adds.refl s _ _
      · split
        · exact Adds.refl s _ _
        · split
          · exact Adds.of_same (refuse_same s _) _ _
          · simp only
            cases hp : s.parent x with
            | none => exact then_append_adds cfg s (s, Out.none) g x _ (Adds.refl s _ _)
            | some p =>
              simp only
              by_cases hcp : s.cont p = true
              · simp only [hcp, if_true]
                exact then_append_adds cfg s (detach cfg s x p) g x _ (detach_adds cfg s x p g [x])
              · simp only [hcp]
                exact then_append_adds cfg s (s, Out.none) g x _ (Adds.refl s _ _)

theorem opMoveToGroup_frame (cfg : Cfg) (s : State) (x g : Id) : KindFrame s (opMoveToGroup cfg s x g).1 := by
  unfold opMoveToGroup
  split
  · exact KindFrame.refl s
  · split
    · exact KindFrame.refl s
    · split
      · exact KindFrame.refl s
      · split
        · exact KindFrame.refl s
        · split
          · exact (refuse_same s _).kindFrame
          · simp only
            cases hp : s.parent x with
            | none => exact then_append_frame cfg s (s, Out.none) g x _ (KindFrame.refl s)
            | some p =>
              simp only
              by_cases hcp : s.cont p = true
              · simp only [hcp, if_true]
                exact then_append_frame cfg s (detach cfg s x p) g x _ (detach_frame cfg s x p)
              · simp only [hcp]
                exact then_append_frame cfg s (s, Out.none) g x _ (KindFrame.refl s)

theorem moveAll_adds (cfg : Cfg) (n : Id) (s : State) (xs : List Id) : Adds s (moveAll cfg n s xs).1 n xs := by
  induction xs generalizing s with
  | nil => exact Adds.refl s _ _
  | cons x xs ih =>
    simp only [moveAll]
    have h1 : Adds s (opMoveToGroup cfg s x n).1 n (x :: xs) := by
      intro c y hy
      rcases opMoveToGroup_adds cfg s x n c y hy with h | h
      · exact .inl h
      · exact .inr ⟨h.1, List.mem_cons.mpr (.inl (List.mem_singleton.mp h.2))⟩
    split
    · exact h1
    · intro c y hy
      rcases ih (opMoveToGroup cfg s x n).1 c y hy with h | h
      · exact h1 c y h
      · exact .inr ⟨h.1, List.mem_cons_of_mem _ h.2⟩

theorem moveAll_frame (cfg : Cfg) (n : Id) (s : State) (xs : List Id) : KindFrame s (moveAll cfg n s xs).1 := by
  induction xs generalizing s with
  | nil => exact KindFrame.refl s
  | cons x xs ih =>
    simp only [moveAll]
    split
    · exact opMoveToGroup_frame cfg s x n
    · exact (opMoveToGroup_frame cfg s x n).trans (ih _)

theorem inv_moveAll {cfg : Cfg} (hself : cfg.itemSelfCheck = true) (n : Id) (s : State) (i : Inv s) (xs : List Id)
    (hne : (moveAll cfg n s xs).2 ≠ recErr) : Inv (moveAll cfg n s xs).1 := by
  induction xs generalizing s with
  | nil => exact i
  | cons x xs ih =>
    simp only [moveAll] at hne ⊢
    by_cases h1 : (opMoveToGroup cfg s x n).2.isError = true
    · rw [if_pos h1] at hne ⊢
      exact inv_opMoveToGroup i hself x n hne
    · rw [if_neg h1] at hne ⊢
      exact ih _ (inv_opMoveToGroup i hself x n (ne_rec_of_not_isError h1)) hne

theorem inv_opNewGroup {cfg : Cfg} {s : State} (i : Inv s) (hself : cfg.itemSelfCheck = true) (p : Option Id)
    (hne : (opNewGroup cfg s p).2 ≠ recErr) : Inv (opNewGroup cfg s p).1 := by
  unfold opNewGroup at hne ⊢
  have i1 := inv_alloc i .group none BBox.zero
  cases p with
  | none => exact i1
  | some p =>
    simp only at hne ⊢
    by_cases hg : s.isGroup p = true
    · rw [if_pos hg] at hne ⊢
      by_cases h1 : (opMoveToGroup cfg (alloc s .group none BBox.zero) s.next p).2.isError = true
      · rw [if_pos h1] at hne ⊢
        exact inv_opMoveToGroup i1 hself _ p hne
      · rw [if_neg h1]
        exact inv_opMoveToGroup i1 hself _ p (ne_rec_of_not_isError h1)
    · rw [if_neg hg]
      exact i1

theorem alloc_detached {s : State} (i : Inv s) (k : Kind) (p : Option Id) (b : BBox) :
    Detached (alloc s k p b) s.next := by
  intro c hc
  simp only [alloc, upd] at hc
  split at hc
  · cases hc
  · exact Nat.lt_irrefl _ (i.live c _ hc).2

/-- what the validation of `group_layers` establishes about the layers -/
theorem glPre_none_layers {cfg : Cfg} {s : State} {par : Option Id} {xs : List Id}
    (hpre : cfg.groupLayersPrecheck = true) (h : glPre cfg s par xs = none) : ∀ x, x ∈ xs → s.isLayer x = true := by
  unfold glPre at h
  rw [if_pos hpre] at h
  by_cases hany : xs.any (fun x => !s.isLayer x) = true
  · rw [if_pos hany] at h; cases h
  · intro x hx
    cases hl : s.isLayer x with
    | true => rfl
    | false =>
      exfalso
      apply hany
      exact List.any_eq_true.mpr ⟨x, hx, by simp [hl]⟩

theorem inv_glBody {cfg : Cfg} {s : State} (i : Inv s) (hself : cfg.itemSelfCheck = true) (par : Option Id)
    (xs : List Id) (hall : ∀ x, x ∈ xs → s.isLayer x = true)
    (hne : (glBody cfg s par xs).2 ≠ recErr) : Inv (glBody cfg s par xs).1 := by
  unfold glBody at hne ⊢
  simp only at hne ⊢
  have i1 := inv_alloc i .group none BBox.zero
  by_cases hm : (moveAll cfg s.next (alloc s .group none BBox.zero) xs).2.isError = true
  · rw [if_pos hm] at hne ⊢
    exact inv_moveAll hself _ _ i1 _ hne
  · rw [if_neg hm] at hne ⊢
    have i2 := inv_moveAll hself s.next _ i1 xs (ne_rec_of_not_isError hm)
    have hdet : Detached (moveAll cfg s.next (alloc s .group none BBox.zero) xs).1 s.next := by
      intro c hc
      rcases moveAll_adds cfg s.next _ xs c _ hc with h | h
      · exact alloc_detached i .group none BBox.zero c h
      · exact Nat.lt_irrefl _ (isLayer_iff.mp (hall _ h.2)).1
    cases par with
    | none => exact i2
    | some q =>
      simp only at hne ⊢
      by_cases hq : s.isGroup q = true
      · rw [if_pos hq] at hne ⊢
        have hq' : (moveAll cfg s.next (alloc s .group none BBox.zero) xs).1.isGroup q = true := by
          rw [(moveAll_frame cfg s.next _ xs).isGroup]
          have := isGroup_iff.mp hq
          apply isGroup_iff.mpr
          refine ⟨Nat.lt_succ_of_lt this.1, ?_⟩
          have hne' : q ≠ s.next := Nat.ne_of_lt this.1
          simpa [alloc, State.cont, upd, hne'] using this.2
        by_cases h2 : (opAppend cfg (moveAll cfg s.next (alloc s .group none BBox.zero) xs).1 q s.next).2.isError = true
        · rw [if_pos h2] at hne ⊢
          exact inv_opAppend i2 hself q _ hq' hdet hne
        · rw [if_neg h2]
          exact inv_opAppend i2 hself q _ hq' hdet (ne_rec_of_not_isError h2)
      · rw [if_neg hq]
        exact i2

theorem inv_opGroupLayers {cfg : Cfg} {s : State} (i : Inv s) (hself : cfg.itemSelfCheck = true)
    (hpre : cfg.groupLayersPrecheck = true) (xs : List Id) (p : Option Id)
    (hne : (opGroupLayers cfg s xs p).2 ≠ recErr) : Inv (opGroupLayers cfg s xs p).1 := by
  unfold opGroupLayers at hne ⊢
  cases xs with
  | nil => exact i
  | cons x0 rest =>
    simp only at hne ⊢
    by_cases h0 : (!s.isLayer x0) = true
    · rw [if_pos h0]; exact i
    · rw [if_neg h0] at hne ⊢
      cases hp : glPre cfg s (glParent cfg s p x0) (x0 :: rest) with
      | some r => simp only [hp]; exact inv_refuse i _
      | none =>
        simp only [hp] at hne ⊢
        exact inv_glBody i hself _ _ (glPre_none_layers hpre hp) hne

theorem inv_opSetVisible {cfg : Cfg} {s : State} (i : Inv s) (x : Id) (v : Bool) : Inv (opSetVisible cfg s x v).1 := by
  unfold opSetVisible
  split
  · exact i
  · simp only
    have i1 := (invUp_same cfg s x).inv i
    split
    · split
      · exact i1
      · refine SameStruct.inv (s := invUp cfg s x) ?_ i1
        exact ⟨rfl, rfl, rfl, rfl, rfl⟩
    · refine SameStruct.inv (s := invUp cfg s x) ?_ i1
      exact ⟨rfl, rfl, rfl, rfl, rfl⟩

theorem inv_opSetOffset {cfg : Cfg} {s : State} (i : Inv s) (x : Id) (h : Bool) (v : Int) :
    Inv (opSetOffset cfg s x h v).1 := by
  unfold opSetOffset
  split
  · exact i
  · refine SameStruct.inv (s := invUp cfg s x) ?_ ((invUp_same cfg s x).inv i)
    exact ⟨rfl, rfl, rfl, rfl, rfl⟩

end PsdVerif.TreeSt
