/-
C06 — linear cost of the counting interpreter, part 1: the accounting framework.

Weight `w = ticks + alloc`. Potential `pot a d p = a * (remaining bytes)`. A reader PAYS with coefficient `a`
and constant `b` when

  success at `p'`:  `p ≤ p'`  and  `w + credit + pot a d p' ≤ pot a d p + b`
  failure:          `w ≤ pot a d p + b`

(the cost is kept on failure, so both outcomes are bounded). `credit` is what a reader hands to its
continuation: `readLenBlockC` returns a block `x` having advanced by more than `x.length`, and the nested
run on `x` (`with io.BytesIO(x)`) is paid from that. Budgets subtract along a `do` block.
-/
import PsdVerif.Lemmas.SafeCost1
import PsdVerif.Lemmas.Safe2

namespace PsdVerif.SafeCost
open PsdVerif PsdVerif.Codec PsdVerif.Psd PsdVerif.PsdCost PsdVerif.Safe

def pot (a : Nat) (d : B) (p : Nat) : Nat := a * (d.length - p)

theorem pot_anti (a : Nat) (d : B) {p q : Nat} (h : p ≤ q) : pot a d q ≤ pot a d p :=
  Nat.mul_le_mul_left a (by omega)

theorem pot_add (a j : Nat) (d : B) (p : Nat) : pot (a + j) d p = pot a d p + pot j d p := by
  unfold pot; exact Nat.add_mul ..

/-- moving `k` bytes forward inside the stream releases `a * k` -/
theorem pot_split (a : Nat) (d : B) {p q k : Nat} (hq : q = p + k) (hl : q ≤ d.length) :
    pot a d p = pot a d q + a * k := by
  unfold pot
  rw [← Nat.mul_add]
  congr 1
  omega

theorem pot_one (d : B) (p : Nat) : pot 1 d p = d.length - p := by unfold pot; omega

theorem w_add (x y : Cost) : (x + y).w = x.w + y.w := by
  show (x.ticks + y.ticks) + (x.alloc + y.alloc) = (x.ticks + x.alloc) + (y.ticks + y.alloc)
  omega

theorem w_zero : Cost.zero.w = 0 := rfl

def PaysCr {β : Type} (a b : Nat) (d : B) (p : Nat) (x : CE (β × Nat)) (cr : β → Nat) : Prop :=
  match x.1 with
  | .ok (v, p') => p ≤ p' ∧ x.2.w + cr v + pot a d p' ≤ pot a d p + b
  | .error _ => x.2.w ≤ pot a d p + b

abbrev Pays {β : Type} (a b : Nat) (d : B) (p : Nat) (x : CE (β × Nat)) : Prop := PaysCr a b d p x (fun _ => 0)

/-- both outcomes: what was spent -/
def Spend {γ : Type} (a b : Nat) (d : B) (p : Nat) (x : CE γ) : Prop := x.2.w ≤ pot a d p + b

theorem PaysCr.of_ok {β : Type} {a b : Nat} {d : B} {p : Nat} {x : CE (β × Nat)} {cr : β → Nat} {v : β} {p' : Nat}
    (h : PaysCr a b d p x cr) (hx : x.1 = .ok (v, p')) : p ≤ p' ∧ x.2.w + cr v + pot a d p' ≤ pot a d p + b := by
  unfold PaysCr at h; rw [hx] at h; exact h

theorem PaysCr.of_error {β : Type} {a b : Nat} {d : B} {p : Nat} {x : CE (β × Nat)} {cr : β → Nat} {e : Err}
    (h : PaysCr a b d p x cr) (hx : x.1 = .error e) : x.2.w ≤ pot a d p + b := by
  unfold PaysCr at h; rw [hx] at h; exact h

theorem PaysCr.intro {β : Type} {a b : Nat} {d : B} {p : Nat} {x : CE (β × Nat)} {cr : β → Nat}
    (hok : ∀ v p', x.1 = .ok (v, p') → p ≤ p' ∧ x.2.w + cr v + pot a d p' ≤ pot a d p + b)
    (herr : ∀ e, x.1 = .error e → x.2.w ≤ pot a d p + b) : PaysCr a b d p x cr := by
  unfold PaysCr
  cases hx : x.1 with
  | error e => exact herr e hx
  | ok y => obtain ⟨v, p'⟩ := y; exact hok v p' hx

theorem PaysCr.spend {β : Type} {a b : Nat} {d : B} {p : Nat} {x : CE (β × Nat)} {cr : β → Nat}
    (h : PaysCr a b d p x cr) : Spend a b d p x := by
  unfold Spend
  cases hx : x.1 with
  | error e => exact h.of_error hx
  | ok y =>
    obtain ⟨v, p'⟩ := y
    have := h.of_ok hx
    omega

/-- a larger coefficient and a larger constant -/
theorem PaysCr.mono {β : Type} {a a' b b' : Nat} {d : B} {p : Nat} {x : CE (β × Nat)} {cr : β → Nat}
    (h : PaysCr a' b' d p x cr) (ha : a' ≤ a) (hb : b' ≤ b) : PaysCr a b d p x cr := by
  obtain ⟨j, rfl⟩ := Nat.exists_eq_add_of_le ha
  refine PaysCr.intro (fun v p' hx => ?_) (fun e hx => ?_)
  · have h1 := h.of_ok hx
    have h2 := pot_anti j d h1.1
    rw [pot_add, pot_add]
    exact ⟨h1.1, by omega⟩
  · have h1 := h.of_error hx
    rw [pot_add]
    omega

theorem PaysCr.ok {β : Type} {a b : Nat} {d : B} {p q : Nat} {cr : β → Nat} (v : β)
    (hq : p ≤ q := by omega) (hc : cr v ≤ b := by omega) : PaysCr a b d p (CE.ok (v, q)) cr := by
  refine PaysCr.intro (fun v' p' hx => ?_) (fun e hx => ?_)
  · cases hx
    have := pot_anti a d hq
    have : (CE.ok (v, q) : CE (β × Nat)).2.w = 0 := rfl
    exact ⟨hq, by omega⟩
  · cases hx

theorem PaysCr.error {β : Type} {a b : Nat} {d : B} {p : Nat} {cr : β → Nat} (e : Err) :
    PaysCr a b d p (CE.error e : CE (β × Nat)) cr := by
  refine PaysCr.intro (fun v' p' hx => ?_) (fun e' hx => ?_)
  · cases hx
  · have : (CE.error e : CE (β × Nat)).2.w = 0 := rfl
    omega

theorem PaysCr.ite {β : Type} {a b : Nat} {d : B} {p : Nat} {cr : β → Nat} {c : Prop} [Decidable c]
    {x y : CE (β × Nat)} (hx : c → PaysCr a b d p x cr) (hy : ¬ c → PaysCr a b d p y cr) :
    PaysCr a b d p (if c then x else y) cr := by
  split
  · exact hx ‹_›
  · exact hy ‹_›

/-- sequencing on the same stream: the continuation gets what is left of the budget plus the credit -/
theorem PaysCr.bind {α β : Type} {a a' b b₁ : Nat} {d : B} {p : Nat} {m : CE (β × Nat)} {cr : β → Nat}
    {f : β × Nat → CE (α × Nat)} {cr' : α → Nat} (hm : PaysCr a' b₁ d p m cr)
    (hf : ∀ v p₁, m.1 = .ok (v, p₁) → PaysCr a (b - b₁ + cr v) d p₁ (f (v, p₁)) cr')
    (ha : a' ≤ a := by decide) (hb : b₁ ≤ b := by omega) : PaysCr a b d p (m >>= f) cr' := by
  have hm' := hm.mono ha (Nat.le_refl _)
  refine PaysCr.intro (fun v' p' hx => ?_) (fun e hx => ?_)
  · rw [bind_fst] at hx
    rw [bind_snd]
    cases hm1 : m.1 with
    | error e => rw [hm1] at hx; cases hx
    | ok y =>
      obtain ⟨v, p₁⟩ := y
      rw [hm1] at hx
      simp only at hx ⊢
      have h1 := hm'.of_ok hm1
      have h2 := (hf v p₁ hm1).of_ok hx
      rw [w_add]
      exact ⟨by omega, by omega⟩
  · rw [bind_fst] at hx
    rw [bind_snd]
    cases hm1 : m.1 with
    | error e' =>
      simp only
      have := hm'.of_error hm1
      omega
    | ok y =>
      obtain ⟨v, p₁⟩ := y
      rw [hm1] at hx
      simp only at hx ⊢
      have h1 := hm'.of_ok hm1
      have h2 := (hf v p₁ hm1).of_error hx
      rw [w_add]
      omega

/-- a step on another stream (nested run, `enterBlock`, `tick`) that costs at most `n` -/
theorem PaysCr.bind_nested {α γ : Type} {a b n : Nat} {d : B} {p : Nat} {m : CE γ}
    {f : γ → CE (α × Nat)} {cr' : α → Nat} (hm : m.2.w ≤ n)
    (hf : ∀ y, m.1 = .ok y → PaysCr a (b - n) d p (f y) cr') (hb : n ≤ b := by omega) :
    PaysCr a b d p (m >>= f) cr' := by
  refine PaysCr.intro (fun v' p' hx => ?_) (fun e hx => ?_)
  · rw [bind_fst] at hx
    rw [bind_snd]
    cases hm1 : m.1 with
    | error e => rw [hm1] at hx; cases hx
    | ok y =>
      rw [hm1] at hx
      simp only at hx ⊢
      have h2 := (hf y hm1).of_ok hx
      rw [w_add]
      exact ⟨h2.1, by omega⟩
  · rw [bind_fst] at hx
    rw [bind_snd]
    cases hm1 : m.1 with
    | error e' => simp only; omega
    | ok y =>
      rw [hm1] at hx
      simp only at hx ⊢
      have h2 := (hf y hm1).of_error hx
      rw [w_add]
      omega

theorem tick_w : tick.2.w = 1 := rfl
theorem enterBlock_w (data : B) : (enterBlock data).2.w = 1 + data.length := rfl

/-! ### `Spend`: for the one reader that seeks backwards (`LayerAndMask.decC`) and the top level -/

theorem Spend.bind {α β : Type} {a a' b b₁ : Nat} {d : B} {p : Nat} {m : CE (β × Nat)}
    {f : β × Nat → CE α} (hm : PaysCr a' b₁ d p m (fun _ => 0))
    (hf : ∀ v p₁, m.1 = .ok (v, p₁) → Spend a (b - b₁) d p₁ (f (v, p₁)))
    (ha : a' ≤ a := by decide) (hb : b₁ ≤ b := by omega) : Spend a b d p (m >>= f) := by
  have hm' := hm.mono ha (Nat.le_refl _)
  unfold Spend
  rw [bind_snd]
  cases hm1 : m.1 with
  | error e' =>
    simp only
    have := hm'.of_error hm1
    omega
  | ok y =>
    obtain ⟨v, p₁⟩ := y
    simp only
    have h1 := hm'.of_ok hm1
    have h2 := hf v p₁ hm1
    unfold Spend at h2
    rw [w_add]
    omega

/-- a last step that costs nothing -/
theorem Spend.bind_free {α γ : Type} {a b : Nat} {d : B} {p : Nat} {m : CE γ} {f : γ → CE α}
    (hm : Spend a b d p m) (hf : ∀ y, (f y).2.w = 0) : Spend a b d p (m >>= f) := by
  unfold Spend at hm ⊢
  rw [bind_snd]
  cases hm1 : m.1 with
  | error e' => simp only; exact hm
  | ok y =>
    simp only
    rw [w_add, hf y]
    exact hm

/-! ### primitives -/

theorem prim_pays {β : Type} {r : Except Err (β × Nat)} {bytes : Nat} {d : B} {p : Nat}
    (hok : ∀ v p', r = .ok (v, p') → p' = p + bytes ∧ (p' ≤ d.length ∨ bytes = 0))
    (herr : ∀ e, r = .error e → bytes ≤ d.length - p) : Pays 1 1 d p (prim r bytes) := by
  refine PaysCr.intro (fun v p' hx => ?_) (fun e hx => ?_)
  · have := hok v p' hx
    have hw : (prim r bytes).2.w = 1 + bytes := rfl
    rw [hw, pot_one, pot_one]
    exact ⟨by omega, by omega⟩
  · have := herr e hx
    have hw : (prim r bytes).2.w = 1 + bytes := rfl
    rw [hw, pot_one]
    omega

theorem readNC_pays (n : Nat) (d : B) (p : Nat) : Pays 1 1 d p (readNC n d p) := by
  unfold readNC
  refine prim_pays (fun v p' h => ?_) (fun e h => ?_)
  · have := readN_ok h
    exact ⟨by omega, by omega⟩
  · omega

/-- `fp.read(n)`: what it returns is credited `c` per byte at coefficient `c + 1` -/
theorem readUpToC_pays (c n : Nat) (d : B) (p : Nat) :
    PaysCr (c + 1) 1 d p (readUpToC n d p) (fun x => c * x.length) := by
  refine PaysCr.intro (fun v p' hx => ?_) (fun e hx => ?_)
  · have h : readUpTo n d p = .ok (v, p') := hx
    have a := readUpTo_ok h
    have hw : (readUpToC n d p).2.w = 1 + min n (d.length - p) := rfl
    rw [hw]
    by_cases hl : p' ≤ d.length
    · rw [pot_split (c + 1) d a.1 hl, Nat.add_mul]
      exact ⟨by omega, by omega⟩
    · have : v.length = 0 := by omega
      have e0 : c * v.length = 0 := by rw [this]; rfl
      have : p' = p := by omega
      subst this
      exact ⟨Nat.le_refl _, by omega⟩
  · exact absurd hx (readUpTo_ne_error n d p e)

theorem readUpToC_pays0 (n : Nat) (d : B) (p : Nat) : Pays 1 1 d p (readUpToC n d p) := by
  have h := readUpToC_pays 0 n d p
  refine PaysCr.intro (fun v p' hx => ?_) (fun e hx => ?_)
  · have := h.of_ok hx; simpa using this
  · exact h.of_error hx

theorem readAllC_pays (d : B) (p : Nat) : Pays 1 1 d p (readAllC d p) := by
  unfold readAllC
  refine prim_pays (fun v p' h => ?_) (fun e h => ?_)
  · have := readAll_ok h
    exact ⟨by omega, by omega⟩
  · omega

theorem readPyC_pays (n : Int) (d : B) (p : Nat) : Pays 1 1 d p (readPyC n d p) := by
  unfold readPyC
  split
  · exact readAllC_pays d p
  · split
    · exact (PaysCr.error _)
    · exact readUpToC_pays0 _ d p

theorem isReadableC_w (n : Nat) (d : B) (p : Nat) : (isReadableC n d p).2.w ≤ 1 + n := by
  have : (isReadableC n d p).2.w = 1 + min n (d.length - p) := rfl
  omega

theorem readUC_pays (w : Nat) (d : B) (p : Nat) : Pays 1 1 d p (readUC w d p) := by
  unfold readUC
  refine PaysCr.bind (readNC_pays w d p) fun bs p' _ => ?_
  exact PaysCr.ok _

theorem readI16C_pays (d : B) (p : Nat) : Pays 1 1 d p (readI16C d p) := by
  unfold readI16C
  refine PaysCr.bind (readUC_pays 2 d p) fun n p' _ => ?_
  exact PaysCr.ok _

theorem readI32C_pays (d : B) (p : Nat) : Pays 1 1 d p (readI32C d p) := by
  unfold readI32C
  refine PaysCr.bind (readUC_pays 4 d p) fun n p' _ => ?_
  exact PaysCr.ok _

theorem readPaddingC_pays (size divisor : Nat) (d : B) (p : Nat) : Pays 1 1 d p (readPaddingC size divisor d p) := by
  unfold readPaddingC
  refine PaysCr.bind (readUpToC_pays0 _ d p) fun n p' _ => ?_
  exact PaysCr.ok _

/-- `read_length_block`: four reads; the block returned carries a credit of `c` per byte -/
theorem readLenBlockC_pays (c skip w pad : Nat) (d : B) (p : Nat) :
    PaysCr (c + 1) 4 d p (readLenBlockC skip w pad d p) (fun x => c * x.length) := by
  unfold readLenBlockC
  refine PaysCr.bind (readNC_pays skip d p) (fun _ p0 _ => ?_) (Nat.le_add_left 1 c)
  refine PaysCr.bind (readUC_pays w d p0) (fun n p1 _ => ?_) (Nat.le_add_left 1 c)
  dsimp only
  refine PaysCr.ite (fun _ => PaysCr.error _) (fun _ => ?_)
  refine PaysCr.bind (readUpToC_pays c n d p1) (fun x p2 _ => ?_) (Nat.le_refl _)
  dsimp only
  refine PaysCr.ite (fun _ => PaysCr.error _) (fun _ => ?_)
  refine PaysCr.bind (readPaddingC_pays n pad d p2) (fun _ p3 _ => ?_) (Nat.le_add_left 1 c)
  exact PaysCr.ok _

theorem readLenBlockC_pays0 (skip w pad : Nat) (d : B) (p : Nat) : Pays 1 4 d p (readLenBlockC skip w pad d p) := by
  have h := readLenBlockC_pays 0 skip w pad d p
  refine PaysCr.intro (fun v p' hx => ?_) (fun e hx => ?_)
  · have := h.of_ok hx; simpa using this
  · exact h.of_error hx

theorem readPascalC_pays (pad : Nat) (d : B) (p : Nat) : Pays 1 3 d p (readPascalC pad d p) := by
  unfold readPascalC
  refine PaysCr.bind (readUC_pays 1 d p) fun n p1 _ => ?_
  refine PaysCr.bind (readUpToC_pays0 n d p1) fun x p2 _ => ?_
  dsimp only
  refine PaysCr.ite (fun _ => PaysCr.error _) (fun _ => ?_)
  refine PaysCr.bind (readPaddingC_pays _ pad d p2) fun _ p3 _ => ?_
  exact PaysCr.ok _

end PsdVerif.SafeCost
