/-
C11: the one rule on which the code departs from the published model — the group alpha after a
knockout element. Trees without knockout flags do not use it (so the code refines the PUBLISHED model
on them); the exact excess of the coded alpha; the concrete witness.
-/
import PsdVerif.Lemmas.CompositeSpecRefine

namespace PsdVerif.Composite

mutual
/-- no layer of the tree (children and clip runs included) has the knockout flag -/
def nodeNoKo : Node → Prop
  | .leaf pr _ _ _ clips => pr.knockout = false ∧ listNoKo clips
  | .group pr _ children clips => pr.knockout = false ∧ listNoKo children ∧ listNoKo clips
def listNoKo : List Node → Prop
  | [] => True
  | n :: ns => nodeNoKo n ∧ listNoKo ns
end

theorem specSource_rule_irrelevant (k k' : KoRule) (bl : Color → Color → Color) (σ : SState) (Ps : Color) (fs αs : Rat) :
    specSource k bl σ Ps fs αs false = specSource k' bl σ Ps fs αs false := by
  unfold specSource
  simp only [Bool.false_eq_true, if_false]

mutual
/-- the knockout rule is not used on a tree without knockout flags -/
theorem specNode_rule_irrelevant (k k' : KoRule) (B : Mode → Color → Color → Color) (V : Rect) (x y : Int) (cc : Bool)
    (σ : SState) : (n : Node) → nodeNoKo n → specNode k B V x y cc σ n = specNode k' B V x y cc σ n
  | .leaf pr hasPixels color shape clips, hn => by
    obtain ⟨hko, hcl⟩ := hn
    unfold specNode specFinish
    simp only [hko, specSource_rule_irrelevant k k', specClips_rule_irrelevant k k' B V x y _ clips hcl]
  | .group pr passThrough children clips, hn => by
    obtain ⟨hko, hch, hcl⟩ := hn
    unfold specNode specFinish
    simp only [hko, specSource_rule_irrelevant k k', specClips_rule_irrelevant k k' B V x y _ clips hcl,
      specList_rule_irrelevant k k' B _ x y _ children hch]

theorem specList_rule_irrelevant (k k' : KoRule) (B : Mode → Color → Color → Color) (V : Rect) (x y : Int)
    (σ : SState) : (ns : List Node) → listNoKo ns → specList k B V x y σ ns = specList k' B V x y σ ns
  | [], _ => by unfold specList; rfl
  | n :: rest, h => by
    unfold specList
    rw [specNode_rule_irrelevant k k' B V x y false σ n h.1, specList_rule_irrelevant k k' B V x y _ rest h.2]

theorem specClips_rule_irrelevant (k k' : KoRule) (B : Mode → Color → Color → Color) (V : Rect) (x y : Int)
    (σ : SState) : (ns : List Node) → listNoKo ns → specClips k B V x y σ ns = specClips k' B V x y σ ns
  | [], _ => by unfold specClips; rfl
  | n :: rest, h => by
    unfold specClips
    rw [specNode_rule_irrelevant k k' B V x y true σ n h.1, specClips_rule_irrelevant k k' B V x y _ rest h.2]
end

theorem specDoc_rule_irrelevant (k k' : KoRule) (B : Mode → Color → Color → Color) (V : Rect) (x y : Int)
    (P : Color) (alpha : Rat) (layers : List Node) (h : listNoKo layers) :
    specDoc k B V x y P alpha layers = specDoc k' B V x y P alpha layers := by
  unfold specDoc
  rw [specList_rule_irrelevant k k' B V x y _ layers h]

/-- **By how much the coded group alpha is too large.** After a knockout step the code's `alpha` exceeds
`Union(α₀, (1−fs)·αg + αs)` — the alpha of the published rule, which is also the sum of the weights of the colour
recurrence `(1−fs)·α + (fs−αs)·α₀ + αs` — by exactly `(1−α₀)·(fs−αs)·α₀`. -/
theorem knockout_alpha_excess (bl : Color → Color → Color) {st : PState} (h : Inv st) (Cs : Color) (fs αs : Rat) :
    (applySource bl st Cs fs αs true).a = union st.a0 (KoRule.alphaCoherent.alpha fs αs st.ag st.a0) + (1 - st.a0) * (fs - αs) * st.a0 ∧
    union st.a0 (KoRule.alphaCoherent.alpha fs αs st.ag st.a0) = (1 - fs) * st.a + (fs - αs) * st.a0 + αs := by
  constructor
  · simp only [applySource, if_true, KoRule.alpha]; unfold union; ring
  · simp only [KoRule.alpha]; rw [h.a_eq]; unfold union; ring

end PsdVerif.Composite

namespace PsdVerif.Composite

/-! ### the witness: white over white -/

def unitRect : Rect := ⟨0, 0, 1, 1⟩

/-- a white, fully covering pixel layer with the knockout flag and opacity 1/2 -/
def koWhiteLayer : Node :=
  .leaf { visible := true, bbox := unitRect, opacity := 1/2, fill := 1, hasMask := false, maskBBox := Rect.zero,
          maskValue := 1, maskBackground := 0, maskDensity := 1, mode := 0, knockout := true, clipping := false,
          hasClipTarget := false } true white 1 []

/-- every blend mode is `normal` -/
def allNormal : Mode → Color → Color → Color := fun _ => blNormal

theorem allNormal_ok : BOk allNormal := fun _ _ _ _ hcs => hcs

theorem koWhiteLayer_ok : listOk [koWhiteLayer] := by
  refine ⟨⟨⟨?_, ?_, ?_, ?_, ?_⟩, white_ok, unit01_one, trivial⟩, trivial⟩ <;>
    (constructor <;> norm_num [koWhiteLayer])

end PsdVerif.Composite
