/-
C01 (typed documents) — Model/TypedBlocks.lean, part 1: the laws of every class of `tagged_blocks.TYPES` collected from the
lemma files of the payload classes (nothing is re-proved: each line is the `rt` / `count` of its class), the law a payload
kit has to satisfy, and - from that law alone - the typed block and the typed block list on what their writers wrote
(the proofs of Lemmas/PayloadLayerInfo1.lean with the kit in place of the `LayerInfoBlock` payload).
-/
import PsdVerif.Lemmas.TypedEngine
import PsdVerif.Lemmas.PayloadLayerInfo2
import PsdVerif.Lemmas.PayloadSimple
import PsdVerif.Lemmas.PayloadEffects
import PsdVerif.Lemmas.PayloadPatterns
import PsdVerif.Lemmas.PayloadLinked
import PsdVerif.Lemmas.PayloadDescWrap
import PsdVerif.Lemmas.Payload3Adjust
import PsdVerif.Lemmas.Payload3Curves
import PsdVerif.Lemmas.Payload3Vector
import PsdVerif.Lemmas.Payload3Filter
import PsdVerif.Lemmas.Payload3Resources
import PsdVerif.Model.TypedBlocks

namespace PsdVerif.Typed
open PsdVerif PsdVerif.Codec PsdVerif.Psd PsdVerif.Payload PsdVerif.Payload.PCodec

/-! ## every registered class: the generic laws -/

theorem TClass.rt (tb : Descriptor.Tables) (pad : Nat) : ∀ c : TClass, (c.codec tb pad).RtAtEnd
  | .annotations => Annotations.rt.atEnd | .brightnessContrast => Payload3.BrightnessContrast.rt.atEnd
  | .byteElement => ByteElement.rt.atEnd | .bytes => BytesElement.rt
  | .channelBlendingRestrictionsSetting => ChannelBlendingRestrictionsSetting.rt | .channelMixer => Payload3.ChannelMixer.rt
  | .colorBalance => Payload3.ColorBalance.rt.atEnd | .colorLookup => (Payload3.ColorLookup.rt tb _).atEnd
  | .curves => Payload3.Curves.rt | .descriptorBlock => (Payload3.DescriptorPayload.rt tb _).atEnd
  | .descriptorBlock2 => (Payload3.Descriptor2Payload.rt tb _).atEnd | .effectsLayer => EffectsLayer.rt.atEnd
  | .emptyElement => EmptyElement.rt.atEnd | .engineData2 => EngineData2.rt | .exposure => (Payload3.Exposure.rt _).atEnd
  | .filterEffects => Payload3.FilterEffects.rt | .filterMask => FilterMask.rt.atEnd | .gradientMap => Payload3.GradientMap.rt.atEnd
  | .hueSaturation => Payload3.HueSaturation.rt.atEnd | .integerElement => IntegerElement.rt.atEnd | .levels => Payload3.Levels.rt
  | .linkedLayers => LinkedLayers.rt tb | .metadataSettings => (MetadataSettings.rt tb).atEnd | .patterns => Patterns.rt
  | .photoFilter => Payload3.PhotoFilter.rt.atEnd | .pixelSourceData2 => PixelSourceData2.rt _
  | .placedLayerData => (PlacedLayerData.rt tb _).atEnd | .protectedSetting => IntegerElement.rt.atEnd
  | .referencePoint => ReferencePoint.rt.atEnd | .sectionDividerSetting => SectionDividerSetting.rt
  | .selectiveColor => Payload3.SelectiveColor.rt.atEnd | .sheetColorSetting => SheetColorSetting.rt.atEnd
  | .shortIntegerElement => ShortIntegerElement.rt.atEnd | .smartObjectLayerData => (SmartObjectLayerData.rt tb _).atEnd
  | .stringElement => (StringElement.rt _ 1).atEnd | .typeToolObjectSetting => (TypeToolTyped.rt tb _).atEnd
  | .userMask => UserMask.rt.atEnd | .vectorMaskSetting => Payload3.VectorMaskSetting.rt
  | .vectorStrokeContentSetting => (Payload3.VectorStrokeContentSetting.rt tb _).atEnd

theorem TClass.count (tb : Descriptor.Tables) (pad : Nat) : ∀ c : TClass, (c.codec tb pad).Count
  | .annotations => Annotations.count | .brightnessContrast => Payload3.BrightnessContrast.count
  | .byteElement => ByteElement.count | .bytes => BytesElement.count
  | .channelBlendingRestrictionsSetting => ChannelBlendingRestrictionsSetting.count | .channelMixer => Payload3.ChannelMixer.count
  | .colorBalance => Payload3.ColorBalance.count | .colorLookup => Payload3.ColorLookup.count tb _
  | .curves => Payload3.Curves.count | .descriptorBlock => Payload3.DescriptorPayload.count tb _
  | .descriptorBlock2 => Payload3.Descriptor2Payload.count tb _ | .effectsLayer => EffectsLayer.count
  | .emptyElement => EmptyElement.count | .engineData2 => EngineData2.count | .exposure => Payload3.Exposure.count _
  | .filterEffects => Payload3.FilterEffects.count | .filterMask => FilterMask.count | .gradientMap => Payload3.GradientMap.count
  | .hueSaturation => Payload3.HueSaturation.count | .integerElement => IntegerElement.count | .levels => Payload3.Levels.count
  | .linkedLayers => LinkedLayers.count tb | .metadataSettings => MetadataSettings.count tb | .patterns => Patterns.count
  | .photoFilter => Payload3.PhotoFilter.count | .pixelSourceData2 => PixelSourceData2.count _
  | .placedLayerData => PlacedLayerData.count tb _ | .protectedSetting => IntegerElement.count
  | .referencePoint => ReferencePoint.count | .sectionDividerSetting => SectionDividerSetting.count
  | .selectiveColor => Payload3.SelectiveColor.count | .sheetColorSetting => SheetColorSetting.count
  | .shortIntegerElement => ShortIntegerElement.count | .smartObjectLayerData => SmartObjectLayerData.count tb _
  | .stringElement => StringElement.count _ 1 | .typeToolObjectSetting => TypeToolTyped.count tb _
  | .userMask => UserMask.count | .vectorMaskSetting => Payload3.VectorMaskSetting.count
  | .vectorStrokeContentSetting => Payload3.VectorStrokeContentSetting.count tb _

/-- no payload reader looks at the padding its writer was given (`frombytes(raw_data, version=version)`) -/
theorem TClass.dec_pad (tb : Descriptor.Tables) (pad : Nat) (c : TClass) : (c.codec tb pad).dec = (c.codec tb 1).dec := by
  cases c <;> rfl

/-! ## the law of a payload kit -/

structure Kit.Law {P : Type} (K : Kit P) : Prop where
  /-- the payload reader, run on exactly the bytes the payload writer emitted, returns the payload as the writer left it -/
  rt : ∀ (version pad : Nat) (key : B) (v : P), K.WF version pad key v → K.Fits version pad v →
    K.dec version key (K.encT version pad v) = .ok (K.refresh v)
  encT_refresh : ∀ (version pad : Nat) (v : P), K.encT version pad (K.refresh v) = K.encT version pad v
  fits_refresh : ∀ (version pad : Nat) (v : P), K.Fits version pad (K.refresh v) ↔ K.Fits version pad v
  count : ∀ (version pad : Nat) (v : P), K.encP version pad v = (K.encT version pad v, (K.encT version pad v).length)

theorem emptyKit_law : emptyKit.Law where
  rt _ _ _ e := nomatch e
  encT_refresh _ _ e := nomatch e
  fits_refresh _ _ e := nomatch e
  count _ _ e := nomatch e

/-! ## the typed block -/

namespace Blk
variable {P : Type} {K : Kit P}

theorem flat_refresh (hK : K.Law) (v pad : Nat) (t : Blk P) : (t.refresh K).flat K v pad = t.flat K v pad := by
  simp only [flat, refresh, hK.encT_refresh]

theorem encT_refresh (hK : K.Law) (v pad : Nat) (t : Blk P) : (t.refresh K).encT K v pad = t.encT K v pad := by
  simp only [encT, flat_refresh hK]

theorem Fits_refresh (hK : K.Law) (v pad : Nat) (t : Blk P) : (t.refresh K).Fits K v pad ↔ t.Fits K v pad := by
  unfold Fits
  rw [flat_refresh hK]
  simp only [refresh, hK.fits_refresh]

theorem enc_refresh (hK : K.Law) (v pad : Nat) (t : Blk P) : (t.refresh K).enc K v pad = t.enc K v pad := by
  unfold enc
  simp only [encT_refresh hK, Fits_refresh hK]

theorem enc_ok {v pad : Nat} {t : Blk P} {bs : B} (h : t.enc K v pad = .ok bs) : t.Fits K v pad ∧ bs = t.encT K v pad := by
  unfold enc at h
  split at h
  · exact ⟨‹_›, by cases h; rfl⟩
  · cases h

theorem encP_eq (hK : K.Law) (v pad : Nat) (t : Blk P) : t.encP K v pad = (t.encT K v pad, (t.encT K v pad).length) := by
  simp only [encP, encT, flat, TaggedBlock.encT, hK.count, wBytes_eq, wLenBlock_eq, wSeq_eq]

/-- `TaggedBlock.read` with the payload dispatch, on what `TaggedBlock.write` wrote -/
theorem dec_at (hK : K.Law) {v pad : Nat} (hp : pad = 1 ∨ pad = 2 ∨ pad = 4) {t : Blk P} (hwf : t.WF K v pad)
    {d : B} {p : Nat} (hat : At d p (t.encT K v pad)) :
    dec K v pad d p = .ok (some (t.refresh K), p + (t.encT K v pad).length) := by
  obtain ⟨⟨hsig, hk, hf⟩, hfit, hpay⟩ := hwf
  have hpl := hK.rt v pad t.key t.data hpay hfit
  simp only [flat] at hsig hk hf
  have hl : ∀ s ∈ G.blockSignatures, s.length = 4 := by decide
  have hs : pack4s t.signature = t.signature := pack4s_of_length (hl _ hsig)
  have hk' : pack4s t.key = t.key := pack4s_of_length hk
  unfold encT at hat ⊢
  rw [TaggedBlock.length_encT]
  simp only [TaggedBlock.encT, flat, List.append_assoc, hs, hk'] at hat ⊢
  obtain ⟨e1, hat⟩ := readN_step hat (hl _ hsig)
  obtain ⟨e2, hat⟩ := readN_step hat hk
  have e3 := readLenBlock_at hat hf (tbLenW_mod v t.key pad hp)
  simp only [dec, bind, Except.bind, e1, if_pos hsig, e2, e3, hpl]
  simp only [refresh, Nat.add_assoc]

theorem length_ge (K : Kit P) (v pad : Nat) (t : Blk P) : 12 ≤ (t.encT K v pad).length :=
  TaggedBlock.length_ge v pad (t.flat K v pad)

end Blk

section blocks
variable {P : Type} {K : Kit P}

theorem map_flat_keys (K : Kit P) (v pad : Nat) (ts : List (Blk P)) :
    (ts.map (Blk.flat K v pad)).map TaggedBlock.key = ts.map Blk.key := by
  simp only [List.map_map]; rfl

/-- the bytes of typed blocks are the bytes of their skeleton views -/
theorem blksT_flat (K : Kit P) (v pad : Nat) (ts : List (Blk P)) :
    blksT K v pad ts = taggedBlocksT v pad (ts.map (Blk.flat K v pad)) := by
  unfold blksT taggedBlocksT
  induction ts with
  | nil => rfl
  | cons t ts ih => simp only [listT, List.map_cons, ih, Blk.encT]

theorem map_flat_refresh (hK : K.Law) (v pad : Nat) (ts : List (Blk P)) :
    (ts.map (Blk.refresh K)).map (Blk.flat K v pad) = ts.map (Blk.flat K v pad) := by
  simp only [List.map_map]
  apply List.map_congr_left
  intro t _
  exact Blk.flat_refresh hK v pad t

/-- `TaggedBlocks.read` with the payload dispatch: the skeleton's clauses on the flat view, the payloads' on the blocks -/
theorem blksDec_at (hK : K.Law) {v pad : Nat} (hp : pad = 1 ∨ pad = 2 ∨ pad = 4) {ts : List (Blk P)}
    (hflat : taggedBlocksWF v (ts.map (Blk.flat K v pad))) (hty : blksTyped K v pad ts)
    (endPos : Option Nat) {d : B} {p : Nat} (hat : At d p (blksT K v pad ts))
    (hend : ∀ e, endPos = some e → p + (blksT K v pad ts).length ≤ e)
    (hstop : taggedCond endPos d (p + (blksT K v pad ts).length) = false) :
    blksDec K v pad endPos d p = .ok (ts.map (Blk.refresh K), p + (blksT K v pad ts).length) := by
  obtain ⟨hall0, hnd⟩ := hflat
  have hall : ∀ t ∈ ts, t.WF K v pad := fun t ht =>
    ⟨hall0 _ (List.mem_map_of_mem ht), (hty t ht).1, (hty t ht).2⟩
  have e1 : readWhile (taggedCond endPos) (Blk.dec K v pad) d p =
      .ok (ts.map (Blk.refresh K), p + (blksT K v pad ts).length) := by
    unfold blksT at hat hstop hend ⊢
    have key : ∀ (ts' : List (Blk P)), (∀ t ∈ ts', t.WF K v pad) → ∀ q, At d q (listT (Blk.encT K v pad) ts') →
        (∀ e, endPos = some e → q + (listT (Blk.encT K v pad) ts').length ≤ e) →
        taggedCond endPos d (q + (listT (Blk.encT K v pad) ts').length) = false →
        ∀ fuel, ts'.length < fuel →
        readWhileFuel (taggedCond endPos) (Blk.dec K v pad) fuel d q =
          .ok (ts'.map (Blk.refresh K), q + (listT (Blk.encT K v pad) ts').length) := by
      intro ts'
      induction ts' with
      | nil =>
        intro _ q _ _ hst fuel hf
        cases fuel with
        | zero => omega
        | succ fuel =>
          simp only [listT, List.length_nil, Nat.add_zero] at hst ⊢
          simp [readWhileFuel, hst]
      | cons t ts' ih =>
        intro hall' q hq he hst fuel hf
        cases fuel with
        | zero => omega
        | succ fuel =>
          simp only [listT] at hq he hst ⊢
          have hge := t.length_ge K v pad
          have hc : taggedCond endPos d q = true := by
            unfold taggedCond
            rw [isReadable_of_at hq.left (by omega)]
            cases hE : endPos with
            | none => rfl
            | some e =>
              have := he e hE
              simp only [List.length_append] at this
              simp only [Bool.true_and, decide_eq_true_eq]; omega
          have hi := Blk.dec_at hK hp (hall' t (by simp)) hq.left
          simp only [readWhileFuel, hc, if_true, hi]
          rw [ih (fun x hx => hall' x (by simp [hx])) _ hq.right
            (by intro e hE; have := he e hE; simp only [List.length_append] at this; omega)
            (by simpa [List.length_append, Nat.add_assoc] using hst) fuel (by simpa using hf)]
          simp only [List.length_append, Nat.add_assoc, List.map_cons]
    unfold readWhile
    apply key ts hall p hat hend hstop
    have h1 := length_listT_le (Blk.encT K v pad) ts 1 (fun t _ => by have := t.length_ge K v pad; omega)
    have h2 := hat.bound
    omega
  have hkeys : (ts.map (Blk.refresh K)).map Blk.key = ts.map Blk.key := by
    simp only [List.map_map]; rfl
  have hnd' : (ts.map Blk.key).Nodup := by rw [← map_flat_keys K v pad ts]; exact hnd
  simp only [blksDec, bind, Except.bind, e1, odict_of_nodup Blk.key (ts.map (Blk.refresh K)) (hkeys ▸ hnd')]

end blocks

end PsdVerif.Typed
