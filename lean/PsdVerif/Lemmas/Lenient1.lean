/-
C02 — what the lenient reader can return: inversion lemmas for the primitives of `Model/Codec.lean`.

`X_ok : X … d p = .ok (v, p') → facts about v` — every field read from `w` bytes fits `w` bytes, every
byte string read behind a `w`-byte length is shorter than `256 ^ w`, every list read by a count has that
many items, and the items of the loops are results of the item reader.
-/
import PsdVerif.Lemmas.CodecPsd3

namespace PsdVerif.Codec
open PsdVerif

theorem bind_ok {α β : Type} {f : Except Err α} {g : α → Except Err β} {b : β}
    (h : (f >>= g) = .ok b) : ∃ a, f = .ok a ∧ g a = .ok b := by
  cases f with
  | error e => cases h
  | ok a => exact ⟨a, rfl, h⟩

/-! ### integers -/

theorem beVal_foldl_lt (bs : B) (acc k : Nat) (h : acc < 256 ^ k) :
    bs.foldl (fun a b => a * 256 + b.toNat) acc < 256 ^ (k + bs.length) := by
  induction bs generalizing acc k with
  | nil => simpa using h
  | cons b bs ih =>
    simp only [List.foldl_cons, List.length_cons]
    have hb : b.toNat < 256 := UInt8.toNat_lt b
    have h' : acc * 256 + b.toNat < 256 ^ (k + 1) := by
      rw [Nat.pow_succ]
      have : (acc + 1) * 256 ≤ 256 ^ k * 256 := Nat.mul_le_mul_right 256 h
      omega
    have := ih (acc * 256 + b.toNat) (k + 1) h'
    have e : k + 1 + bs.length = k + (bs.length + 1) := by omega
    rw [e] at this
    exact this

theorem beVal_lt (bs : B) : beVal bs < 256 ^ bs.length := by
  have := beVal_foldl_lt bs 0 0 (by decide)
  simpa [beVal] using this

theorem readN_ok {n : Nat} {d : B} {p : Nat} {x : B} {p' : Nat} (h : readN n d p = .ok (x, p')) :
    x.length = n ∧ p' = p + n ∧ p + n ≤ d.length := by
  unfold readN at h
  split at h
  · rename_i hle
    cases h
    refine ⟨?_, rfl, hle⟩
    simp only [List.length_take, List.length_drop]; omega
  · cases h

theorem readUpTo_ok {n : Nat} {d : B} {p : Nat} {x : B} {p' : Nat} (h : readUpTo n d p = .ok (x, p')) :
    x.length ≤ n ∧ p' = p + x.length ∧ x.length ≤ d.length - p := by
  unfold readUpTo at h
  cases h
  refine ⟨?_, rfl, ?_⟩ <;> simp only [List.length_take, List.length_drop] <;> omega

theorem readAll_ok {d : B} {p : Nat} {x : B} {p' : Nat} (h : readAll d p = .ok (x, p')) :
    p' = p + x.length ∧ x.length = d.length - p := by
  unfold readAll at h
  cases h
  exact ⟨rfl, by simp only [List.length_drop]⟩

theorem readU_ok {w : Nat} {d : B} {p n p' : Nat} (h : readU w d p = .ok (n, p')) :
    n < 256 ^ w ∧ p' = p + w ∧ p + w ≤ d.length := by
  unfold readU at h
  split at h
  · rename_i bs q hq
    obtain ⟨h1, h2, h3⟩ := readN_ok hq
    cases h
    refine ⟨?_, h2, h3⟩
    have := beVal_lt bs
    rwa [h1] at this
  · cases h

theorem natToI16_fits (n : Nat) (h : n < 256 ^ 2) : FitsI16 (natToI16 n) := by
  unfold FitsI16 natToI16
  have : (256 : Nat) ^ 2 = 65536 := by decide
  split <;> omega

theorem natToI32_fits (n : Nat) (h : n < 256 ^ 4) : FitsI32 (natToI32 n) := by
  unfold FitsI32 natToI32
  have : (256 : Nat) ^ 4 = 4294967296 := by decide
  split <;> omega

theorem readI16_ok {d : B} {p : Nat} {z : Int} {p' : Nat} (h : readI16 d p = .ok (z, p')) :
    FitsI16 z ∧ p' = p + 2 ∧ p + 2 ≤ d.length := by
  unfold readI16 at h
  split at h
  · rename_i n q hq
    obtain ⟨h1, h2, h3⟩ := readU_ok hq
    cases h
    exact ⟨natToI16_fits n h1, h2, h3⟩
  · cases h

theorem readI32_ok {d : B} {p : Nat} {z : Int} {p' : Nat} (h : readI32 d p = .ok (z, p')) :
    FitsI32 z ∧ p' = p + 4 ∧ p + 4 ≤ d.length := by
  unfold readI32 at h
  split at h
  · rename_i n q hq
    obtain ⟨h1, h2, h3⟩ := readU_ok hq
    cases h
    exact ⟨natToI32_fits n h1, h2, h3⟩
  · cases h

/-! ### length blocks and pascal strings: the length read from `w` bytes is the length of what was read -/

theorem readLenBlock_ok {skip w pad : Nat} {d : B} {p : Nat} {x : B} {p' : Nat}
    (h : readLenBlock skip w pad d p = .ok (x, p')) : x.length < 256 ^ w := by
  unfold readLenBlock at h
  split at h
  · cases h
  · rename_i _ p0 _
    split at h
    · cases h
    · rename_i n p1 hn
      split at h
      · cases h
      · split at h
        · cases h
        · rename_i y p2 hy
          split at h
          · cases h
          · rename_i hlen
            split at h
            · cases h
            · cases h
              have hlen' : x.length = n := by simpa using hlen
              rw [hlen']
              exact (readU_ok hn).1

theorem readPascal_ok {pad : Nat} {d : B} {p : Nat} {x : B} {p' : Nat}
    (h : readPascal pad d p = .ok (x, p')) : x.length < 256 := by
  unfold readPascal at h
  split at h
  · cases h
  · rename_i n p1 hn
    split at h
    · cases h
    · rename_i y p2 hy
      split at h
      · cases h
      · rename_i hlen
        split at h
        · cases h
        · cases h
          have hlen' : x.length = n := by simpa using hlen
          rw [hlen']
          have := (readU_ok hn).1
          simpa using this

/-! ### lists -/

/-- the items of a successful run of a loop are results of the item reader -/
def FromItem {α : Type} (item : R α) (d : B) (x : α) : Prop := ∃ q q', item d q = .ok (x, q')

theorem readCount_ok {α : Type} {item : R α} {n : Nat} {d : B} {p : Nat} {xs : List α} {p' : Nat}
    (h : readCount item n d p = .ok (xs, p')) : xs.length = n ∧ ∀ x ∈ xs, FromItem item d x := by
  induction n generalizing p xs p' with
  | zero => simp only [readCount] at h; cases h; exact ⟨rfl, by intro x hx; cases hx⟩
  | succ n ih =>
    simp only [readCount] at h
    split at h
    · cases h
    · rename_i a p1 ha
      split at h
      · cases h
      · rename_i as p2 has
        cases h
        obtain ⟨h1, h2⟩ := ih has
        refine ⟨by simp [h1], ?_⟩
        intro x hx
        rcases List.mem_cons.1 hx with rfl | hx
        · exact ⟨p, p1, ha⟩
        · exact h2 x hx

theorem readFor_ok {α β : Type} {item : β → R α} {ys : List β} {d : B} {p : Nat} {xs : List α} {p' : Nat}
    (h : readFor item ys d p = .ok (xs, p')) :
    xs.length = ys.length ∧ ∀ y x, (y, x) ∈ ys.zip xs → FromItem (item y) d x := by
  induction ys generalizing p xs p' with
  | nil => simp only [readFor] at h; cases h; exact ⟨rfl, by intro y x hm; simp at hm⟩
  | cons y ys ih =>
    simp only [readFor] at h
    split at h
    · cases h
    · rename_i a p1 ha
      split at h
      · cases h
      · rename_i as p2 has
        cases h
        obtain ⟨h1, h2⟩ := ih has
        refine ⟨by simp [h1], ?_⟩
        intro y' x' hm
        simp only [List.zip_cons_cons, List.mem_cons, Prod.mk.injEq] at hm
        rcases hm with ⟨rfl, rfl⟩ | hm
        · exact ⟨p, p1, ha⟩
        · exact h2 y' x' hm

theorem readWhileFuel_ok {α : Type} {cond : B → Nat → Bool} {item : R (Option α)} {fuel : Nat} {d : B} {p : Nat}
    {xs : List α} {p' : Nat} (h : readWhileFuel cond item fuel d p = .ok (xs, p')) :
    ∀ x ∈ xs, ∃ q q', cond d q = true ∧ item d q = .ok (some x, q') := by
  induction fuel generalizing p xs p' with
  | zero => simp only [readWhileFuel] at h; cases h
  | succ fuel ih =>
    simp only [readWhileFuel] at h
    split at h
    · rename_i hc
      split at h
      · cases h
      · cases h; intro x hx; cases hx
      · rename_i a p1 ha
        split at h
        · cases h
        · rename_i as p2 has
          cases h
          intro x hx
          rcases List.mem_cons.1 hx with rfl | hx
          · exact ⟨p, p1, hc, ha⟩
          · exact ih has x hx
    · cases h; intro x hx; cases hx

theorem readWhile_ok {α : Type} {cond : B → Nat → Bool} {item : R (Option α)} {d : B} {p : Nat}
    {xs : List α} {p' : Nat} (h : readWhile cond item d p = .ok (xs, p')) :
    ∀ x ∈ xs, ∃ q q', cond d q = true ∧ item d q = .ok (some x, q') :=
  readWhileFuel_ok h

theorem optItem_some {α : Type} {item : R α} {d : B} {q : Nat} {x : α} {q' : Nat}
    (h : optItem item d q = .ok (some x, q')) : item d q = .ok (x, q') := by
  unfold optItem at h
  split at h
  · cases h; assumption
  · cases h

/-! ### ordered dictionaries: members come from the items, keys are distinct -/

theorem mem_odictInsert {κ α : Type} [DecidableEq κ] (key : α → κ) (acc : List α) (x y : α)
    (h : y ∈ odictInsert key acc x) : y ∈ acc ∨ y = x := by
  unfold odictInsert at h
  split at h
  · obtain ⟨z, hz, rfl⟩ := List.mem_map.1 h
    split
    · exact Or.inr rfl
    · exact Or.inl hz
  · rcases List.mem_append.1 h with h | h
    · exact Or.inl h
    · exact Or.inr (by simpa using h)

theorem map_key_odictInsert {κ α : Type} [DecidableEq κ] (key : α → κ) (acc : List α) (x : α) :
    (odictInsert key acc x).map key =
      if acc.any (fun y => key y = key x) then acc.map key else acc.map key ++ [key x] := by
  unfold odictInsert
  split
  · rw [List.map_map]
    apply List.map_congr_left
    intro y _
    simp only [Function.comp]
    split
    · rename_i e; exact e.symm
    · rfl
  · simp

theorem nodup_odictInsert {κ α : Type} [DecidableEq κ] (key : α → κ) (acc : List α) (x : α)
    (h : (acc.map key).Nodup) : ((odictInsert key acc x).map key).Nodup := by
  rw [map_key_odictInsert]
  split
  · exact h
  · rename_i hany
    rw [List.nodup_append]
    refine ⟨h, by simp, ?_⟩
    intro a ha b hb
    have hb' : b = key x := by simpa using hb
    subst hb'
    obtain ⟨y, hy, rfl⟩ := List.mem_map.1 ha
    intro e
    apply hany
    rw [List.any_eq_true]
    exact ⟨y, hy, by simpa using e⟩

theorem odict_foldl_spec {κ α : Type} [DecidableEq κ] (key : α → κ) (items acc : List α)
    (h : (acc.map key).Nodup) :
    ((items.foldl (odictInsert key) acc).map key).Nodup ∧
      ∀ y ∈ items.foldl (odictInsert key) acc, y ∈ acc ∨ y ∈ items := by
  induction items generalizing acc with
  | nil => exact ⟨h, fun y hy => Or.inl hy⟩
  | cons x xs ih =>
    simp only [List.foldl_cons]
    obtain ⟨h1, h2⟩ := ih (odictInsert key acc x) (nodup_odictInsert key acc x h)
    refine ⟨h1, ?_⟩
    intro y hy
    rcases h2 y hy with h3 | h3
    · rcases mem_odictInsert key acc x y h3 with h4 | h4
      · exact Or.inl h4
      · exact Or.inr (by simp [h4])
    · exact Or.inr (by simp [h3])

theorem nodup_odict {κ α : Type} [DecidableEq κ] (key : α → κ) (items : List α) :
    ((odict key items).map key).Nodup :=
  (odict_foldl_spec key items [] (by simp)).1

theorem mem_odict {κ α : Type} [DecidableEq κ] (key : α → κ) (items : List α) (y : α) (h : y ∈ odict key items) :
    y ∈ items := by
  rcases (odict_foldl_spec key items [] (by simp)).2 y h with h | h
  · cases h
  · exact h

end PsdVerif.Codec
