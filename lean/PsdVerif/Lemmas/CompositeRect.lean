/-
Rectangle arithmetic of the compositor model: `_intersect`, `paste` at a pixel.
-/
import PsdVerif.Lemmas.CompositeTree
open PsdVerif PsdVerif.Composite
namespace PsdVerif.Composite

/-! ### rectangles -/

/-- `b` lies inside `R` -/
def Rect.le (b R : Rect) : Prop := R.l ≤ b.l ∧ b.r ≤ R.r ∧ R.t ≤ b.t ∧ b.b ≤ R.b

theorem intersect_of_ne_zero {a b : Rect} (h : intersect a b ≠ Rect.zero) :
    intersect a b = ⟨max a.l b.l, max a.t b.t, min a.r b.r, min a.b b.b⟩ := by
  unfold intersect at h ⊢
  simp only at h ⊢
  split
  · rename_i hc; rw [if_pos hc] at h; exact absurd rfl h
  · rfl

/-- intersecting with a sub-viewport `V ∩ R` is the same as intersecting with `V`, for a box inside `R` -/
theorem intersect_sub {V R b : Rect} (hVR : intersect V R ≠ Rect.zero) (hb : b.le R) :
    intersect (intersect V R) b = intersect V b := by
  rw [intersect_of_ne_zero hVR]
  obtain ⟨h1, h2, h3, h4⟩ := hb
  unfold intersect
  simp only
  have e1 : max (max V.l R.l) b.l = max V.l b.l := by omega
  have e2 : max (max V.t R.t) b.t = max V.t b.t := by omega
  have e3 : min (min V.r R.r) b.r = min V.r b.r := by omega
  have e4 : min (min V.b R.b) b.b = min V.b b.b := by omega
  rw [e1, e2, e3, e4]

theorem contains_intersect {a b : Rect} (h : intersect a b ≠ Rect.zero) (x y : Int) :
    (intersect a b).contains x y = (a.contains x y && b.contains x y) := by
  rw [intersect_of_ne_zero h]
  unfold Rect.contains
  simp only
  rw [Bool.eq_iff_iff]
  simp only [Bool.and_eq_true, decide_eq_true_eq]
  omega

theorem contains_zero (x y : Int) : Rect.zero.contains x y = false := by
  unfold Rect.contains Rect.zero
  simp only
  rw [Bool.eq_false_iff]
  simp only [ne_eq, Bool.and_eq_true, decide_eq_true_eq]
  omega

/-- `paste` at a pixel of the viewport only asks whether the source box covers the pixel -/
theorem pasteAt_eq {α : Type} (V b : Rect) (x y : Int) (hx : V.contains x y = true) (src bg : α) :
    pasteAt V b x y src bg = if b.contains x y then src else bg := by
  unfold pasteAt
  simp only
  by_cases hz : intersect V b = Rect.zero
  · rw [if_pos hz]
    -- the pixel is in V; were it in b too, the intersection would contain it
    by_cases hb : b.contains x y = true
    · exfalso
      unfold intersect at hz
      simp only at hz
      unfold Rect.contains at hx hb
      simp only [Bool.and_eq_true, decide_eq_true_eq] at hx hb
      split at hz
      · rename_i hc; omega
      · unfold Rect.zero at hz
        simp only [Rect.mk.injEq] at hz
        omega
    · simp [hb]
  · rw [if_neg hz, contains_intersect hz, hx, Bool.true_and]

end PsdVerif.Composite
