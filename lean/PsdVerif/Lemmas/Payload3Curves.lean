/-
C01 payload unit 8 — `Curves` / `CurvesExtraMarker` / `CurvesExtraItem` (Model/Payload3Adjust.lean): the readers that
remember where they failed, and the round trip of `Curves` at the end of a stream.
-/
import PsdVerif.Lemmas.Payload3Adjust

namespace PsdVerif.Payload3
open PsdVerif PsdVerif.Codec PsdVerif.Payload PsdVerif.Payload.PCodec

/-! ### `read_fmt` on too little data -/

theorem readN_short {n : Nat} {d : B} {p : Nat} (h : d.length < p + n) : readN n d p = .error .ioError := by
  simp only [readN, if_neg (by omega : ¬ p + n ≤ d.length)]

theorem readN_long {n : Nat} {d : B} {p : Nat} (h : p + n ≤ d.length) : ∃ b, readN n d p = .ok (b, p + n) := by
  exact ⟨(d.drop p).take n, by simp only [readN, if_pos h]⟩

theorem FT.dec_short {t : FT} {d : B} {p : Nat} (h : d.length < p + t.size) : t.dec d p = .error .ioError := by
  cases t <;> simp only [FT.size] at h <;>
    simp only [FT.dec, readU, readS, readBool, readN_short h]

theorem FT.dec_long {t : FT} {d : B} {p : Nat} (h : p + t.size ≤ d.length) : ∃ v, t.dec d p = .ok (v, p + t.size) := by
  cases t <;> simp only [FT.size] at h <;> obtain ⟨b, hb⟩ := readN_long h <;>
    simp only [FT.dec, readU, readS, readBool, hb, FT.size] <;> exact ⟨_, rfl⟩

/-- `read_fmt` raises `IOError` when fewer bytes than the format needs are left -/
theorem fmt_short : ∀ (fs : List FI) {d : B} {p : Nat}, p ≤ d.length → d.length < p + fmtSize fs → fmtDec fs d p = .error .ioError
  | [], d, p, hp, h => by simp only [fmtSize] at h; omega
  | .pad n :: fs, d, p, hp, h => by
    simp only [fmtSize] at h
    by_cases hn : p + n ≤ d.length
    · obtain ⟨b, hb⟩ := readN_long hn
      simp only [fmtDec, readSkip, hb]
      exact fmt_short fs hn (by omega)
    · simp only [fmtDec, readSkip, readN_short (by omega : d.length < p + n)]
  | .fld t :: fs, d, p, hp, h => by
    simp only [fmtSize] at h
    by_cases hn : p + t.size ≤ d.length
    · obtain ⟨v, hv⟩ := FT.dec_long hn
      simp only [fmtDec, hv]
      rw [fmt_short fs hn (by omega)]
    · simp only [fmtDec, FT.dec_short (by omega : d.length < p + t.size)]

theorem fmtDecE_ok {fs : List FI} {d : B} {p : Nat} {r : Row × Nat} (h : fmtDec fs d p = .ok r) : fmtDecE fs d p = .ok r := by
  simp only [fmtDecE, h]

theorem readCountE_at {α : Type} (item : RE α) (enc : α → B) (vs : List α)
    (hitem : ∀ v ∈ vs, ∀ d p, At d p (enc v) → item d p = .ok (v, p + (enc v).length))
    {d : B} {p : Nat} (h : At d p (listT enc vs)) :
    readCountE item vs.length d p = .ok (vs, p + (listT enc vs).length) := by
  induction vs generalizing p with
  | nil => simp [readCountE, listT]
  | cons v vs ih =>
    simp only [listT] at h ⊢
    simp only [List.length_cons, readCountE]
    rw [hitem v (by simp) d p h.left]
    simp only
    rw [ih (fun x hx => hitem x (by simp [hx])) h.right]
    simp only [List.length_append, Nat.add_assoc]

/-- a one-field row of an unsigned field -/
theorem row1_shape {w : Nat} {r : Row} (hf : fmtFits [U w] r) : ∃ c : Int, r = [.int c] ∧ 0 ≤ c ∧ c.toNat < 256 ^ w := by
  match r, hf with
  | [.int c], hf =>
    simp only [U, fmtFits, FT.Fits] at hf
    exact ⟨c, rfl, hf.1.1, hf.1.2⟩

theorem all_replicate {α : Type} (q : α → Bool) (n : Nat) (a : α) (h : q a = true) : (List.replicate n a).all q = true := by
  induction n with
  | zero => rfl
  | succ n ih => simp only [List.replicate_succ, List.all_cons, h, ih, Bool.and_self]

theorem mapFmt_ok : mapFmt.all FI.ok = true := all_replicate _ 256 (U 1) rfl
theorem mapFmt_plain : mapFmt.all (fun i => match i with | .fld .q => false | .fld (.str _) => false | _ => true) = true :=
  all_replicate _ 256 (U 1) rfl

/-! ### CurvesExtraItem / CurvesExtraMarker -/

namespace CurvesExtraItem

theorem encP_eq (x : CurvesExtraItem) : x.encP = (x.encT, x.encT.length) := by
  obtain ⟨c, pts⟩ := x
  cases pts with
  | map r => simp only [encP, encT, wBytes_eq, wSeq_eq]
  | pairs ps =>
    simp only [encP, encT, rowsP_eq]
    simp only [wBytes_eq, wSeq_eq, List.append_assoc]

theorem decE_at {isMap : Bool} {i : CurvesExtraItem} (hw : Curves.itemWF isMap i) (hf : i.Fits) {d : B} {p : Nat}
    (h : At d p i.encT) : decE isMap d p = .ok (i, p + i.encT.length) := by
  obtain ⟨cid, pts⟩ := i
  obtain ⟨f1, f2⟩ := hf
  cases pts with
  | map r =>
    simp only [Curves.itemWF] at hw
    subst hw
    simp only at f1 f2
    simp only [encT] at h ⊢
    obtain ⟨e1, h1⟩ := fmt_step' (fs := [U 2]) rfl f1 (fmtWF_of_plain _ _ rfl) h
    obtain ⟨e2, _⟩ := fmt_step' (fs := mapFmt) mapFmt_ok f2 (fmtWF_of_plain _ _ mapFmt_plain) h1.nil_right
    simp only [decE, if_true, fmtDecE_ok e1, fmtDecE_ok e2, List.length_append, Nat.add_assoc]
  | pairs ps =>
    simp only [Curves.itemWF] at hw
    subst hw
    simp only at f1 f2
    obtain ⟨c, rfl, hc0, hc1⟩ := row1_shape f1
    have hrow : fmtT [U 2] [.int c] ++ (beBytes 2 ps.length ++ listT (fmtT pairFmt) ps) =
        fmtT [U 2, U 2] [.int c, .int ps.length] ++ listT (fmtT pairFmt) ps := by
      simp only [U, fmtT, FT.encT, Int.toNat_natCast, List.append_assoc, List.append_nil, List.nil_append]
    simp only [encT, hrow] at h ⊢
    have hfit : fmtFits [U 2, U 2] [.int c, .int ps.length] := by
      simp only [U, fmtFits, FT.Fits, Int.toNat_natCast]
      exact ⟨⟨hc0, hc1⟩, ⟨Int.natCast_nonneg _, f2.1⟩, trivial⟩
    obtain ⟨e1, h1⟩ := fmt_step' (fs := [U 2, U 2]) rfl hfit (fmtWF_of_plain _ _ rfl) h
    have e2 := readCountE_at (fmtDecE pairFmt) (fmtT pairFmt) ps
      (fun r hr d p hat => fmtDecE_ok (fmt_step' (fs := pairFmt) rfl (f2.2 r hr) (fmtWF_of_plain _ _ rfl) hat.nil_right).1) h1
    have hn : (Row.int [FV.int c, FV.int ps.length] 1).toNat = ps.length := by
      simp [Row.int, FV.toInt]
    simp only [decE, Bool.false_eq_true, if_false, fmtDecE_ok e1, hn, e2, List.take, List.length_append, Nat.add_assoc]

end CurvesExtraItem

namespace CurvesExtraMarker

theorem encP_eq (x : CurvesExtraMarker) : x.encP = (x.encT, x.encT.length) := by
  simp only [encP, encT]
  rw [wList_eq _ CurvesExtraItem.encT x.items (fun i _ => CurvesExtraItem.encP_eq i)]
  simp only [wBytes_eq, wSeq_eq, List.append_assoc]

theorem decE_at {isMap : Bool} {m : CurvesExtraMarker} (hv : m.version ∈ G3.curvesExtraVersions)
    (hw : ∀ i ∈ m.items, Curves.itemWF isMap i) (hf : m.Fits) {d : B} {p : Nat} {rest : B} (h : At d p (m.encT ++ rest)) :
    decE isMap d p = .ok (m, p + m.encT.length) := by
  obtain ⟨version, items⟩ := m
  obtain ⟨f1, f2, f3⟩ := hf
  simp only at hv hw f1 f2 f3
  have hrow : encT ⟨version, items⟩ = fmtT hdrFmt [.bytes sigCrv, .int version, .int items.length] ++ listT CurvesExtraItem.encT items := by
    simp only [encT, hdrFmt, SN, U, fmtT, FT.encT, Int.toNat_natCast, List.append_assoc, List.append_nil]
    rfl
  rw [hrow, List.append_assoc] at h
  rw [hrow]
  have hfit : fmtFits hdrFmt [.bytes sigCrv, .int version, .int items.length] := by
    simp only [hdrFmt, SN, U, fmtFits, FT.Fits, Int.toNat_natCast]
    exact ⟨trivial, ⟨Int.natCast_nonneg _, f1⟩, ⟨Int.natCast_nonneg _, f2⟩, trivial⟩
  have hwf : fmtWF hdrFmt [.bytes sigCrv, .int version, .int items.length] := by
    simp only [hdrFmt, SN, U, fmtWF, FT.WF]
    exact ⟨rfl, trivial, trivial, trivial⟩
  obtain ⟨e1, h1⟩ := fmt_step' (fs := hdrFmt) rfl hfit hwf h
  have e2 := readCountE_at (CurvesExtraItem.decE isMap) CurvesExtraItem.encT items
    (fun i hi d p hat => CurvesExtraItem.decE_at (hw i hi) (f3 i hi) hat) h1.left
  have hn : (Row.int [FV.bytes sigCrv, FV.int version, FV.int items.length] 2).toNat = items.length := by
    simp [Row.int, FV.toInt]
  have hvv : (Row.int [FV.bytes sigCrv, FV.int version, FV.int items.length] 1).toNat = version := by
    simp [Row.int, FV.toInt]
  simp only [decE, fmtDecE_ok e1, List.take, if_true, hn, e2, hvv, if_pos hv, List.length_append, Nat.add_assoc]

end CurvesExtraMarker

/-! ### Curves -/

namespace Curves

theorem curveP_eq (c : List Row) : curveP c = (curveT c, (curveT c).length) := by
  simp only [curveP, curveT, rowsP_eq]
  simp only [wBytes_eq, wSeq_eq]

theorem optMarkerP_eq (o : Option CurvesExtraMarker) :
    optP CurvesExtraMarker.encP o = (optT CurvesExtraMarker.encT o, (optT CurvesExtraMarker.encT o).length) := by
  cases o with
  | none => rfl
  | some m => exact CurvesExtraMarker.encP_eq m

theorem encP_eq (x : Curves) : x.encP = (x.encT, x.encT.length) := by
  obtain ⟨isMap, version, countMap, data, extra⟩ := x
  cases data with
  | maps ms =>
    simp only [encP, encT, bodyT, dataT, rowsP_eq, optMarkerP_eq]
    simp only [wBytes_eq, wSeq_eq, wPad_eq, List.append_assoc]
  | curves cs =>
    simp only [encP, encT, bodyT, dataT, optMarkerP_eq]
    rw [wList_eq curveP curveT cs (fun c _ => curveP_eq c)]
    simp only [wBytes_eq, wSeq_eq, wPad_eq, List.append_assoc]

theorem curve_at {c : List Row} (hf : FitsU 2 c.length ∧ listFits (fmtFits pairFmt) c) (hl : 2 ≤ c.length ∧ c.length ≤ 19)
    {d : B} {p : Nat} (h : At d p (curveT c)) : curveDec d p = .ok (c, p + (curveT c).length) := by
  simp only [curveT] at h ⊢
  obtain ⟨e1, h1⟩ := readU_step h hf.1
  obtain ⟨e2, _⟩ := rows_step (fs := pairFmt) rfl c hf.2 (fun r _ => fmtWF_of_plain _ _ rfl) h1.nil_right
  simp only [curveDec, bind, Except.bind, e1, if_pos hl, e2, List.length_append, length_beBytes, Nat.add_assoc]

theorem rt : codec.RtAtEnd := by
  intro x hwf hf d p h hend
  obtain ⟨isMap, version, countMap, data, extra⟩ := x
  obtain ⟨hv, hcount, hcurves, hextra⟩ := hwf
  obtain ⟨f1, f2, f3, f4⟩ := hf
  simp only at hv hcount hcurves hextra f1 f2 f3 f4
  have hb : boolT isMap = beBytes 1 (if isMap then 1 else 0) := by cases isMap <;> rfl
  have hbit : ((if isMap then 1 else 0 : Nat) != 0) = isMap := by cases isMap <;> rfl
  have h0 : At d p (beBytes 1 (if isMap then 1 else 0) ++ (beBytes 2 version ++ (beBytes 4 countMap ++ (dataT data ++
      (optT CurvesExtraMarker.encT extra ++ zeros (padAmount (bodyT ⟨isMap, version, countMap, data, extra⟩).length 4)))))) := by
    simpa only [codec, encT, bodyT, hb, List.append_assoc] using h
  have hbl : (bodyT ⟨isMap, version, countMap, data, extra⟩).length =
      1 + (2 + (4 + ((dataT data).length + (optT CurvesExtraMarker.encT extra).length))) := by
    simp only [bodyT, List.length_append, length_boolT, length_beBytes]
  have hend' : p + ((bodyT ⟨isMap, version, countMap, data, extra⟩).length +
      padAmount (bodyT ⟨isMap, version, countMap, data, extra⟩).length 4) = d.length := by
    simpa only [codec, encT, List.length_append, length_zeros] using hend
  clear h hend
  obtain ⟨e1, h1⟩ := readU_step h0 (by cases isMap <;> decide)
  obtain ⟨e2, h2⟩ := readU_step h1 f1
  obtain ⟨e3, h3⟩ := readU_step h2 f2
  -- the data
  have edata : dataDec isMap (countOf version countMap) d (p + 1 + 2 + 4) = .ok (data, p + 1 + 2 + 4 + (dataT data).length) := by
    cases data with
    | maps ms =>
      simp only [dataFits] at f3
      obtain ⟨rfl, fm⟩ := f3
      simp only [dataLen] at hcount
      simp only [dataT] at h3 ⊢
      obtain ⟨e4, _⟩ := rows_step (fs := mapFmt) mapFmt_ok ms fm (fun r _ => fmtWF_of_plain _ _ mapFmt_plain) h3
      rw [hcount] at e4
      simp only [dataDec, if_true, e4]
    | curves cs =>
      simp only [dataFits] at f3
      obtain ⟨rfl, fc⟩ := f3
      simp only [dataLen] at hcount
      simp only [dataT] at h3 ⊢
      obtain ⟨e4, _⟩ := Psd.readCount_step curveDec curveT cs
        (fun c hc d p hat => curve_at (fc c hc) (hcurves c hc) hat) h3
      rw [hcount] at e4
      simp only [dataDec, Bool.false_eq_true, if_false, e4]
  have h4 := h3.right
  have eextra : extraDec isMap version d (p + 1 + 2 + 4 + (dataT data).length) =
      .ok (extra, p + 1 + 2 + 4 + (dataT data).length + (optT CurvesExtraMarker.encT extra).length) := by
    rcases hv with rfl | rfl
    · cases extra with
      | some m =>
        simp only [optT, optFits] at h4 f4 hextra ⊢
        have e5 := CurvesExtraMarker.decE_at (isMap := isMap) hextra.2.1 hextra.2.2 f4 h4
        simp only [extraDec, if_true, e5]
      | none =>
        have hlt := padAmount_lt (bodyT ⟨isMap, 1, countMap, data, none⟩).length 4 (by decide)
        have hb0 := h4.bound
        simp only [optT, List.length_nil, Nat.add_zero] at hbl ⊢
        have hs := fmt_short CurvesExtraMarker.hdrFmt (d := d) (p := p + 1 + 2 + 4 + (dataT data).length) (by omega)
          (by simp only [CurvesExtraMarker.hdrFmt, SN, U, fmtSize, FT.size]; omega)
        simp only [extraDec, if_true, CurvesExtraMarker.decE, fmtDecE, hs]
    · cases extra with
      | some m => simp only at hextra; omega
      | none => simp only [extraDec, (by decide : ¬ (4 : Nat) = 1), if_false, optT, List.length_nil, Nat.add_zero]
  simp only [codec, dec, bind, Except.bind, e1, e2, e3, if_pos hv, hbit, edata, eextra]
  simp only [hbl, Nat.add_assoc]

theorem count : codec.Count := encP_eq

end Curves

end PsdVerif.Payload3
