/-
C14 — what `Group.extract_bbox` reads (frame lemma), parent chains of attached layers, and the
invalidation climb: it clears the cache of every ancestor.
-/
import PsdVerif.Lemmas.TreeFresh

namespace PsdVerif.TreeSt

/-! ### the parent chain `is_visible()` follows (it stops at a document) -/

inductive UpChain (s : State) : Id → Id → Prop where
  | base {x p : Id} : s.kind x ≠ .doc → s.parent x = some p → UpChain s x p
  | step {x p q : Id} : UpChain s x p → s.kind p ≠ .doc → s.parent p = some q → UpChain s x q

theorem UpChain.cons {s : State} {x p y : Id} (hk : s.kind x ≠ .doc) (hp : s.parent x = some p)
    (h : UpChain s p y) : UpChain s x y := by
  induction h with
  | base hk' hp' => exact .step (.base hk hp) hk' hp'
  | step _ hk' hp' ih => exact .step ih hk' hp'

/-- the fields `is_visible()` reads -/
def VisAgree (s s' : State) (y : Id) : Prop :=
  s'.kind y = s.kind y ∧ s'.visible y = s.visible y ∧ s'.parent y = s.parent y

/-- the fields `extract_bbox` reads in addition, below the group -/
def SubAgree (s s' : State) (y : Id) : Prop := s'.children y = s.children y ∧ s'.box y = s.box y

theorem isVisF_frame (s s' : State) (f : Nat) (x : Id)
    (h : ∀ y, (y = x ∨ UpChain s x y) → VisAgree s s' y) : isVisF s' f x = isVisF s f x := by
  induction f generalizing x with
  | zero => rfl
  | succ f ih =>
    obtain ⟨hk, hv, hp⟩ := h x (.inl rfl)
    simp only [isVisF, hk, hv, hp]
    split
    · rfl
    · rename_i hnd
      split
      · rfl
      · split
        · rfl
        · rename_i p hpp
          apply ih p
          intro y hy
          apply h y
          rcases hy with e | c
          · subst e; exact .inr (.base hnd hpp)
          · exact .inr (UpChain.cons hnd hpp c)

theorem extList_frame (s s' : State) (hl : s'.limit = s.limit) (r r' : Id → Except Err BBox) (l : List Id)
    (hr : ∀ c, c ∈ l → r' c = r c)
    (hvis : ∀ c y, c ∈ l → (y = c ∨ UpChain s c y) → VisAgree s s' y)
    (hbox : ∀ c, c ∈ l → s'.box c = s.box c) : extList r' s' l = extList r s l := by
  induction l with
  | nil => rfl
  | cons c cs ih =>
    have hc : c ∈ c :: cs := List.mem_cons_self ..
    have hv : isVis s' c = isVis s c := by
      unfold isVis; rw [hl]; exact isVisF_frame s s' _ c (fun y hy => hvis c y hc hy)
    have hk : s'.cont c = s.cont c := by
      unfold State.cont; rw [(hvis c c hc (.inl rfl)).1]
    have ih' := ih (fun c' h' => hr c' (List.mem_cons_of_mem _ h'))
      (fun c' y h' hy => hvis c' y (List.mem_cons_of_mem _ h') hy)
      (fun c' h' => hbox c' (List.mem_cons_of_mem _ h'))
    simp only [extList, hv, hk, hr c hc, hbox c hc, ih']

/-- **Frame lemma**: `extract_bbox(g)` only reads the lists and rectangles below `g` and the
kind / visible flag / parent pointer of the layers below `g` and of their parent chains. -/
theorem extF_frame (s s' : State) (hl : s'.limit = s.limit) (f : Nat) (g : Id)
    (hsub : ∀ y, (y = g ∨ Reach s g y) → SubAgree s s' y)
    (hvis : ∀ z y, (z = g ∨ Reach s g z) → (y = z ∨ UpChain s z y) → VisAgree s s' y) :
    extF s' f g = extF s f g := by
  induction f generalizing g with
  | zero => rfl
  | succ f ih =>
    have hch : s'.children g = s.children g := (hsub g (.inl rfl)).1
    simp only [extF, hch]
    have : extList (extF s' f) s' (s.children g) = extList (extF s f) s (s.children g) := by
      apply extList_frame s s' hl
      · intro c hc
        apply ih c
        · intro y hy
          apply hsub y
          rcases hy with e | r
          · subst e; exact .inr (.edge hc)
          · exact .inr (.step hc r)
        · intro z y hz hy
          apply hvis z y _ hy
          rcases hz with e | r
          · subst e; exact .inr (.edge hc)
          · exact .inr (.step hc r)
      · intro c y hc hy
        exact hvis c y (.inr (.edge hc)) hy
      · intro c hc
        exact (hsub c (.inr (.edge hc))).2
    rw [this]

theorem extractBbox_frame (s s' : State) (hl : s'.limit = s.limit) (g : Id)
    (hsub : ∀ y, (y = g ∨ Reach s g y) → SubAgree s s' y)
    (hvis : ∀ z y, (z = g ∨ Reach s g z) → (y = z ∨ UpChain s z y) → VisAgree s s' y) :
    extractBbox s' g = extractBbox s g := by
  unfold extractBbox; rw [hl]; exact extF_frame s s' hl _ g hsub hvis

/-! ### chains on well-formed trees -/

/-- below `g`, parent pointers lead back into the subtree of `g` or continue above `g` -/
theorem dep_cases {s : State} (i : Inv s) {g z y : Id} (hz : z = g ∨ Reach s g z) (hy : y = z ∨ UpChain s z y) :
    (y = g ∨ Reach s g y) ∨ UpChain s g y := by
  rcases hy with e | c
  · subst e; exact .inl hz
  · have lister : ∀ a p, (a = g ∨ Reach s g a) → s.kind a ≠ .doc → s.parent a = some p →
        (p = g ∨ Reach s g p) ∨ UpChain s g p := by
      intro a p ha hk hp
      rcases ha with e | r
      · subst e; exact .inr (.base hk hp)
      · obtain ⟨c', hc', hgc⟩ := r.last
        have := i.parentOk c' a hc'
        rw [hp] at this
        cases this
        exact .inl (hgc.elim (fun e => .inl e) (fun r' => .inr r'))
    induction c with
    | base hk hp => exact lister _ _ hz hk hp
    | step _ hk hp ih =>
      rcases ih with hb | hu
      · exact lister _ _ hb hk hp
      · exact .inr (.step hu hk hp)

/-- the parent chain of a layer that is in a document consists of its true ancestors -/
theorem up_is_ancestor {s : State} (i : Inv s) {g y : Id} (ha : Attached s g) (c : UpChain s g y) :
    Reach s y g ∧ Attached s y := by
  have key : ∀ a p, Attached s a → s.kind a ≠ .doc → s.parent a = some p → Reach s p a ∧ Attached s p := by
    intro a p ⟨d, hd, had⟩ hk hp
    rcases had with e | r
    · subst e; exact absurd hd hk
    · obtain ⟨c', hc', hdc⟩ := r.last
      have := i.parentOk c' a hc'
      rw [hp] at this
      cases this
      exact ⟨.edge hc', d, hd, hdc.elim (fun e => .inl e) (fun r' => .inr r')⟩
  induction c with
  | base hk hp => exact key _ _ ha hk hp
  | step _ hk hp ih =>
    have := key _ _ ih.2 hk hp
    exact ⟨this.1.trans ih.1, this.2⟩

/-! ### the invalidation climb -/

/-- distinct naturals below `n`: at most `n` of them -/
theorem length_le_of_nodup_lt (n : Nat) (l : List Nat) (hnd : l.Nodup) (hlt : ∀ x, x ∈ l → x < n) : l.length ≤ n := by
  induction n generalizing l with
  | zero =>
    cases l with
    | nil => exact Nat.le_refl _
    | cons a as => exact absurd (hlt a (List.mem_cons_self ..)) (Nat.not_lt_zero _)
  | succ n ih =>
    have h1 : (l.erase n).Nodup := (List.erase_sublist).nodup hnd
    have h2 : ∀ x, x ∈ l.erase n → x < n := by
      intro x hx
      have hx' := (List.Nodup.mem_erase_iff hnd).mp hx
      have := hlt x hx'.2
      omega
    have h3 := ih (l.erase n) h1 h2
    have h4 : l.length ≤ (l.erase n).length + 1 := by
      by_cases hm : n ∈ l
      · rw [List.length_erase_of_mem hm]; omega
      · rw [List.erase_of_not_mem hm]; omega
    omega

/-- the climb only clears -/
theorem invUpF_cache (cfg : Cfg) (f : Nat) (seen : List Id) (s : State) (x y : Id) :
    (invUpF cfg f seen s x).cache y = none ∨ (invUpF cfg f seen s x).cache y = s.cache y := by
  induction f generalizing seen s x with
  | zero => exact .inr rfl
  | succ f ih =>
    simp only [invUpF]
    have hclear : ∀ z, (clearCache s z).cache y = none ∨ (clearCache s z).cache y = s.cache y := by
      intro z
      by_cases e : y = z
      · exact .inl (by simp [clearCache, upd, e])
      · exact .inr (by simp [clearCache, upd, e])
    have h1 : (if s.cont x = true then clearCache s x else s).cache y = none ∨
        (if s.cont x = true then clearCache s x else s).cache y = s.cache y := by
      split
      · exact hclear x
      · exact .inr rfl
    split
    · exact .inr rfl
    · split
      · exact hclear x
      · split
        · exact h1
        · split
          · exact h1
          · rcases ih (x :: seen) (if s.cont x = true then clearCache s x else s) _ with h | h
            · exact .inl h
            · rcases h1 with h' | h'
              · exact .inl (h.trans h')
              · exact .inr (h.trans h')

theorem invUpF_cache_none (cfg : Cfg) (f : Nat) (seen : List Id) (s : State) (x y : Id) (h : s.cache y = none) :
    (invUpF cfg f seen s x).cache y = none := by
  rcases invUpF_cache cfg f seen s x y with h' | h'
  · exact h'
  · rw [h', h]

/-- the invariants of the loop: the nodes visited so far are distinct live nodes below the current one -/
structure ClimbInv (s : State) (seen : List Id) (x : Id) (f : Nat) : Prop where
  nodup : seen.Nodup
  live : ∀ y, y ∈ seen → y < s.next
  below : ∀ y, y ∈ seen → Reach s x y
  xlive : x < s.next
  fuel : f + seen.length = s.next + 1

theorem ClimbInv.fuel_pos {s : State} (i : Inv s) {seen : List Id} {x : Id} {f : Nat} (c : ClimbInv s seen x f) :
    x ∉ seen ∧ ∃ f', f = f' + 1 := by
  have hx : x ∉ seen := fun h => i.no_cycle x (c.below x h)
  have hnd : (x :: seen).Nodup := List.nodup_cons.mpr ⟨hx, c.nodup⟩
  have hlt : ∀ y, y ∈ x :: seen → y < s.next := by
    intro y hy
    rcases List.mem_cons.mp hy with e | h
    · subst e; exact c.xlive
    · exact c.live y h
  have := length_le_of_nodup_lt s.next (x :: seen) hnd hlt
  simp only [List.length_cons] at this
  have hf := c.fuel
  refine ⟨hx, f - 1, ?_⟩
  omega

/-- one step of the climb from a listed node to its container -/
theorem ClimbInv.up {s : State} (i : Inv s) {seen : List Id} {x p : Id} {f : Nat} (c : ClimbInv s seen x (f + 1))
    (hx : x ∈ s.children p) : ClimbInv s (x :: seen) p f where
  nodup := List.nodup_cons.mpr ⟨(c.fuel_pos i).1, c.nodup⟩
  live := by
    intro y hy
    rcases List.mem_cons.mp hy with e | h
    · subst e; exact c.xlive
    · exact c.live y h
  below := by
    intro y hy
    rcases List.mem_cons.mp hy with e | h
    · subst e; exact .edge hx
    · exact .step hx (c.below y h)
  xlive := (i.live p x hx).1
  fuel := by have := c.fuel; simp only [List.length_cons]; omega

/-- **The climb clears every ancestor.** From a node `x`, the (repaired) `_invalidate_bbox`
clears the cached box of `x` and of every container `x` is listed below. `s0` is the state the
loop has reached (same tree as `s`, some caches already cleared). -/
theorem climb_clears {cfg : Cfg} (hc : cfg.climbToDoc = true) {s : State} (i : Inv s) {g x : Id}
    (hgx : g = x ∨ Reach s g x) (hg : s.cont g = true) :
    ∀ (f : Nat) (seen : List Id) (s0 : State), SameTree s s0 → ClimbInv s seen x f →
      (invUpF cfg f seen s0 x).cache g = none := by
  have start : ∀ (f : Nat) (seen : List Id) (s0 : State), SameTree s s0 → ClimbInv s seen g f →
      (invUpF cfg f seen s0 g).cache g = none := by
    intro f seen s0 hs c
    obtain ⟨hns, f', hf⟩ := c.fuel_pos i
    subst hf
    simp only [invUpF, if_neg hns]
    have hcl : (clearCache s0 g).cache g = none := by simp [clearCache, upd]
    split
    · exact hcl
    · have hcont : s0.cont g = true := by rw [hs.cont]; exact hg
      simp only [hcont, if_true]
      split
      · exact hcl
      · split
        · exact hcl
        · exact invUpF_cache_none cfg _ _ _ _ g hcl
  rcases hgx with e | r
  · subst e; exact start
  · have r' := reach_iff_reachT.mp r
    clear r
    induction r' with
    | @edge x hx =>
      intro f seen s0 hs cl
      obtain ⟨hns, f', hf⟩ := cl.fuel_pos i
      subst hf
      have hk : s0.kind x ≠ .doc := by rw [hs.kind]; exact i.layerOnly _ _ hx
      have hp : s0.parent x = some g := by rw [hs.parent]; exact i.parentOk _ _ hx
      have hcc : s0.cont g = true := by rw [hs.cont]; exact hg
      simp only [invUpF, if_neg hns, hk, if_false, hp, hcc, hc, Bool.not_true, Bool.and_false, Bool.or_self,
        Bool.false_eq_true]
      apply start
      · split
        · exact hs.trans (clearCache_same s0 x)
        · exact hs
      · exact cl.up i hx
    | @snoc c x _ hx ih =>
      intro f seen s0 hs cl
      obtain ⟨hns, f', hf⟩ := cl.fuel_pos i
      subst hf
      have hk : s0.kind x ≠ .doc := by rw [hs.kind]; exact i.layerOnly _ _ hx
      have hp : s0.parent x = some c := by rw [hs.parent]; exact i.parentOk _ _ hx
      have hcc : s0.cont c = true := by rw [hs.cont]; exact i.contOnly c (List.ne_nil_of_mem hx)
      simp only [invUpF, if_neg hns, hk, if_false, hp, hcc, hc, Bool.not_true, Bool.and_false, Bool.or_self,
        Bool.false_eq_true]
      apply ih
      · split
        · exact hs.trans (clearCache_same s0 x)
        · exact hs
      · exact cl.up i hx

/-- `_invalidate_bbox` from `x`: the cache of every container `x` is (listed below) is cleared -/
theorem invUp_clears {cfg : Cfg} (hc : cfg.climbToDoc = true) {s s0 : State} (i : Inv s) (hs : SameTree s s0) {g x : Id}
    (hgx : g = x ∨ Reach s g x) (hg : s.cont g = true) (hx : x < s.next) : (invUp cfg s0 x).cache g = none := by
  unfold invUp
  rw [hs.next]
  refine climb_clears hc i hgx hg _ [] s0 hs ⟨List.nodup_nil, ?_, ?_, hx, ?_⟩
  · intro y h; cases h
  · intro y h; cases h
  · rfl

theorem invUp_cache (cfg : Cfg) (s : State) (x y : Id) :
    (invUp cfg s x).cache y = none ∨ (invUp cfg s x).cache y = s.cache y := invUpF_cache cfg _ _ s x y

end PsdVerif.TreeSt
