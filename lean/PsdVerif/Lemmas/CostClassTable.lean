/-
C06 — the table of every costed payload class with its shape, the side condition `bodyProgress` for all of them by
`decide`, and the ties of the shapes to the loops of the source (Generated/ReadLoops.lean, regenerated on every run):

* `class_loops_tied`: a class whose `read` / `_read_body` has `c` count-driven loops and `w` `while` loops in the source
  has at least `c` / `w` progress-checked loops of that kind in its model shape (the shape also carries the loops of the
  classes it embeds, hence `≤`);
* `loops_covered`: every count-driven or `while` loop of a reader in `psd/*.py` belongs to a class of the table or to
  one of the skeleton / descriptor readers whose progress is a theorem of its own (`skeletonLoops`).
-/
import PsdVerif.Lemmas.OpenDispatch
import PsdVerif.Model.CostTables

namespace PsdVerif.PayloadCost
open PsdVerif

def allTables : List (String × Sh) :=
  simpleTable ++ resourcesTable ++ effectsTable ++ patternsTable ++ adjustTable ++ filterTable ++ vectorTable ++ descTable

/-- every count-driven loop and every `while` loop of every costed class has a body that consumes ≥ 1 byte when it
succeeds -/
theorem all_body_progress : allTables.all (fun e => e.2.bodyProgress) = true := by decide +kernel

def kindCount (kind : String) (ls : List Loop) : Nat := (ls.filter (fun l => l.kind == kind)).length

/-- the loops of kind `kind` the source has in `cls.read` / `cls._read_body` -/
def astLoops (cls kind : String) : Nat :=
  (Generated.ReadLoops.loops.filter (fun e =>
    (e.2.1 == cls ++ ".read" || e.2.1 == cls ++ "._read_body") && e.2.2.1 == kind)).length

theorem class_loops_tied :
    allTables.all (fun e => decide (astLoops e.1 "count" ≤ kindCount "count" e.2.loops) &&
      decide (astLoops e.1 "while" ≤ kindCount "while" e.2.loops)) = true := by decide +kernel

/-- loops outside the payload classes: (function, kind, bytes an iteration consumes at least, where that is proved) -/
def skeletonLoops : List (String × String × Nat × String) := [
  ("ImageResources._read_body", "while", 11, "Safe.resource_good"),
  ("LayerBlendingRanges._read_body", "while", 8, "Safe.range4_good"),
  ("LayerRecord.read", "count", 2, "Safe.channelInfo_good"),
  ("LayerRecords.read", "count", 34, "Safe.layerRecord_good / OpenCost.layerRecordT_ok"),
  ("TaggedBlocks.read", "while", 12, "Safe.tagged_spec / OpenCost.taggedT_whileItem"),
  ("List.read", "count", 4, "DescriptorCost.taggedC_inv"),
  ("_DescriptorMixin._read_body", "count", 4, "DescriptorCost.keyedC_inv"),
  ("Subpath.read", "count", 26, "PayloadCost.PItem.decFuelC_slack"),
  ("SlicesV6.read", "count", 69, "PayloadCost.SliceV6.decC_weak (quadratic: the body may re-read what is left)"),
  ("CurvesExtraItem.read", "count", 4, "PayloadCost.CurvesExtraItem.sh_cost"),
  ("CurvesExtraMarker.read", "count", 4, "PayloadCost.CurvesExtraMarker.sh_cost"),
  ("FilterEffect._read_body", "count", 4, "PayloadCost.FEBody.decC_cost"),
  ("VirtualMemoryArrayList.read", "count", 4, "PayloadCost.VMAL.decC_cost")]

def isReaderLoop (e : String × String × String × String × String) : Bool :=
  (e.2.2.1 == "count" || e.2.2.1 == "while") && e.1.startsWith "psd/" &&
    !(e.2.1.endsWith ".get_data" || e.2.1.endsWith ".new" || e.2.1.endsWith "._legacy_name")

def ownerCovered (fn : String) : Bool :=
  skeletonLoops.any (fun s => s.1 == fn) ||
    allTables.any (fun t => fn == t.1 ++ ".read" || fn == t.1 ++ "._read_body")

/-- every count-driven or `while` loop of a reader in `psd/*.py` is accounted for -/
theorem loops_covered : (Generated.ReadLoops.loops.filter isReaderLoop).all (fun e => ownerCovered e.2.1) = true := by
  decide +kernel

theorem skeleton_progress : skeletonLoops.all (fun s => decide (1 ≤ s.2.2.1)) = true := by decide

end PsdVerif.PayloadCost
