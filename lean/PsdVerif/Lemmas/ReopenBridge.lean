/-
C09 save / reopen: the forest read from the store is faithful — which nodes occur in it, what the
reader's classification makes of its records, and the children tables of C08's store bridge.
-/
import PsdVerif.Lemmas.Reopen

namespace PsdVerif.Reopen
open PsdVerif PsdVerif.Tree PsdVerif.TreeSt

/-! ### Nodes of the forest = objects listed below the document -/

theorem reach_children_ne {s : State} {x y : Id} (r : Reach s x y) : s.children x ≠ [] := by
  cases r with
  | edge h => exact List.ne_nil_of_mem h
  | step h _ => exact List.ne_nil_of_mem h

theorem mem_forestOf {E : RecEnv} {s : State} {d : Id} {n : Node} (h : n ∈ forestOf E s d) :
    ∃ c, c ∈ s.children d ∧ nodeOf E s c = n := by
  simpa [forestOf] using h

/-- every node of the forest is the reading of an object listed below the document -/
theorem occurs_forestOf {E : RecEnv} {s : State} (i : Inv s) {n : Node} {f : List Node} (h : Occurs n f) :
    ∀ d, f = forestOf E s d → ∃ x, Reach s d x ∧ n = nodeOf E s x := by
  induction h with
  | here hm =>
    intro d hf
    subst hf
    obtain ⟨c, hc, e⟩ := mem_forestOf hm
    exact ⟨c, .edge hc, e.symm⟩
  | @inside f c b a ch hm _ ih =>
    intro d hf
    subst hf
    obtain ⟨z, hz, e⟩ := mem_forestOf hm
    have hzl := (i.live d z hz).2
    rw [nodeOf_unfold i hzl] at e
    split at e
    · cases e
      obtain ⟨x, rx, ex⟩ := ih c rfl
      exact ⟨x, .step hz rx, ex⟩
    · cases e

/-- … and every object listed below the document is read as a node of the forest -/
theorem reach_occurs {E : RecEnv} {s : State} (i : Inv s) {d x : Id} (r : Reach s d x) :
    Occurs (nodeOf E s x) (forestOf E s d) := by
  induction r with
  | edge h => exact .here (List.mem_map.mpr ⟨_, h, rfl⟩)
  | @step c x y h r ih =>
    have hxl := (i.live c x h).2
    have hc := i.contOnly x (reach_children_ne r)
    have hm : nodeOf E s x ∈ forestOf E s c := List.mem_map.mpr ⟨_, h, rfl⟩
    rw [forestOf_children i hxl hc] at hm
    exact .inside hm ih

/-! ### The reader's classification of the saved records -/

theorem map_flatten_nodes (g : Rec → Rec) (nd : Id → Node) (l : List Id)
    (h : ∀ c ∈ l, (nd c).flatten.map g = (nd c).flatten) : (flatten (l.map nd)).map g = flatten (l.map nd) := by
  induction l with
  | nil => rfl
  | cons c cs ih =>
    simp only [List.map_cons, flatten, List.map_append, h c (by simp), ih (fun y hy => h y (by simp [hy]))]

/-- reading the saved records back (payloads only) and classifying them by their blocks gives the
records `_build_record_tree` emitted -/
theorem reread_flatten {E : RecEnv} {s : State} {d : Id} (i : Inv s) (ok : DocOk E s d) (cl : Classified E s d) :
    ((flatten (forestOf E s d)).map Rec.payload).map (reread E) = flatten (forestOf E s d) := by
  have key : ∀ x, Reach s d x → (nodeOf E s x).flatten.map (fun r => reread E r.payload) = (nodeOf E s x).flatten := by
    apply Inv.below_induction i (fun x => Reach s d x →
      (nodeOf E s x).flatten.map (fun r => reread E r.payload) = (nodeOf E s x).flatten)
    intro x ih rx
    obtain ⟨c, hc, _⟩ := rx.last
    have hxl := (i.live c x hc).2
    rw [nodeOf_unfold i hxl]
    split
    · rename_i hcont
      have hb := ok x rx hcont
      cases hbd : E.bound x with
      | none => rw [hbd] at hb; cases hb
      | some b =>
        have h1 : reread E (Rec.bounding b).payload = .bounding b := cl.bounding x b rx hcont hbd
        have h2 : reread E (Rec.closing x (isArtboard s x)).payload = .closing x (isArtboard s x) :=
          cl.closing x rx hcont
        have h3 := map_flatten_nodes (fun r => reread E r.payload) (nodeOf E s) (s.children x)
          (fun c hc => ih c hc (rx.tail hc))
        simp only [Node.flatten, boundId, hbd, List.map_cons, List.map_append, h1, h2, h3, List.map_nil]
    · rename_i hcont
      have h1 : reread E (Rec.leaf x).payload = .leaf x := cl.leaf x rx (by simpa using hcont)
      simp only [Node.flatten, List.map_cons, h1, List.map_nil]
  rw [List.map_map]
  exact map_flatten_nodes _ (nodeOf E s) (s.children d) (fun c hc => key c (.edge hc))

/-! ### C08's store bridge (`childTable`, `childrenOf`) on the forest read from the store -/

theorem idsOf_map (nd : Id → Node) (l : List Id) : idsOf (l.map nd) = l.map (fun x => (nd x).id) := by
  induction l with
  | nil => rfl
  | cons c cs ih => simp only [List.map_cons, idsOf, ih]

theorem idsOf_forestOf {E : RecEnv} {s : State} (i : Inv s) (d : Id) : idsOf (forestOf E s d) = s.children d := by
  unfold forestOf
  rw [idsOf_map]
  conv => rhs; rw [← List.map_id (s.children d)]
  apply List.map_congr_left
  intro c hc
  exact nodeOf_id i (i.live d c hc).2

theorem groupTables_cons_layer (p : Nat) (ns : List Node) : groupTables (.layer p :: ns) = groupTables ns := by
  rw [groupTables]

theorem groupTables_cons_group (c b : Nat) (a : Bool) (ch ns : List Node) :
    groupTables (.group c b a ch :: ns) = ((some c, idsOf ch) :: groupTables ch) ++ groupTables ns := by
  rw [groupTables]

/-- a group of the forest has its row in the table, and so has every group below it -/
theorem mem_groupTables_of_mem {c b : Nat} {a : Bool} {ch : List Node} {f : List Node}
    (h : Node.group c b a ch ∈ f) :
    (some c, idsOf ch) ∈ groupTables f ∧ ∀ e ∈ groupTables ch, e ∈ groupTables f := by
  induction f with
  | nil => cases h
  | cons n ns ih =>
    rcases List.mem_cons.mp h with e | h'
    · subst e
      rw [groupTables_cons_group]
      refine ⟨by simp, ?_⟩
      intro e he
      simp [he]
    · obtain ⟨h1, h2⟩ := ih h'
      cases n with
      | layer p => rw [groupTables_cons_layer]; exact ⟨h1, h2⟩
      | group c' b' a' ch' =>
        rw [groupTables_cons_group]
        refine ⟨List.mem_append_right _ h1, fun e he => List.mem_append_right _ (h2 e he)⟩

/-- every row of the table is a group listed below the document, with its list of the store -/
theorem groupTables_forestOf {E : RecEnv} {s : State} (i : Inv s) :
    ∀ d e, e ∈ groupTables (forestOf E s d) → ∃ z, Reach s d z ∧ s.cont z = true ∧ e = (some z, s.children z) := by
  apply Inv.below_induction i (fun d => ∀ e, e ∈ groupTables (forestOf E s d) →
    ∃ z, Reach s d z ∧ s.cont z = true ∧ e = (some z, s.children z))
  intro d ih
  have key : ∀ l : List Id, (∀ c ∈ l, c ∈ s.children d) → ∀ e, e ∈ groupTables (l.map (nodeOf E s)) →
      ∃ z, Reach s d z ∧ s.cont z = true ∧ e = (some z, s.children z) := by
    intro l
    induction l with
    | nil => intro _ e he; simp [groupTables] at he
    | cons c cs ihl =>
      intro hl e he
      have hc := hl c (by simp)
      have hcl := (i.live d c hc).2
      rw [List.map_cons, nodeOf_unfold i hcl] at he
      split at he
      · rename_i hcont
        rw [groupTables_cons_group] at he
        rcases List.mem_append.mp he with he | he
        · rcases List.mem_cons.mp he with he | he
          · refine ⟨c, .edge hc, hcont, ?_⟩
            rw [he]
            have := idsOf_forestOf (E := E) i c
            unfold forestOf at this
            rw [this]
          · obtain ⟨z, rz, hz, ez⟩ := ih c hc e he
            exact ⟨z, .step hc rz, hz, ez⟩
        · exact ihl (fun y hy => hl y (by simp [hy])) e he
      · rw [groupTables_cons_layer] at he
        exact ihl (fun y hy => hl y (by simp [hy])) e he
  exact key (s.children d) (fun _ h => h)

theorem reach_mem_groupTables {E : RecEnv} {s : State} (i : Inv s) {d g : Id} (r : Reach s d g)
    (hg : s.cont g = true) : (some g, s.children g) ∈ groupTables (forestOf E s d) := by
  induction r with
  | @edge c x h =>
    have hxl := (i.live c x h).2
    have hm : nodeOf E s x ∈ forestOf E s c := List.mem_map.mpr ⟨_, h, rfl⟩
    rw [forestOf_children i hxl hg] at hm
    have := (mem_groupTables_of_mem hm).1
    rwa [idsOf_forestOf i x] at this
  | @step c x y h r ih =>
    have hxl := (i.live c x h).2
    have hc := i.contOnly x (reach_children_ne r)
    have hm : nodeOf E s x ∈ forestOf E s c := List.mem_map.mpr ⟨_, h, rfl⟩
    rw [forestOf_children i hxl hc] at hm
    exact (mem_groupTables_of_mem hm).2 _ (ih hg)

/-- the document's own list -/
theorem childrenOf_root {E : RecEnv} {s : State} (i : Inv s) (d : Id) :
    childrenOf (forestOf E s d) none = some (s.children d) := by
  simp [childrenOf, childTable, idsOf_forestOf i d]

/-- **The store bridge.** The children table of the forest read from the store gives, for every
group listed below the document, exactly its list in the store. -/
theorem childrenOf_group {E : RecEnv} {s : State} (i : Inv s) {d g : Id} (r : Reach s d g) (hg : s.cont g = true) :
    childrenOf (forestOf E s d) (some g) = some (s.children g) := by
  have hm := reach_mem_groupTables (E := E) i r hg
  unfold childrenOf
  rw [childTable]
  rw [List.find?_cons_of_neg (by simp)]
  cases hf : (groupTables (forestOf E s d)).find? (fun e => e.1 == some g) with
  | none =>
    have := List.find?_eq_none.mp hf _ hm
    simp at this
  | some e =>
    have hp := List.find?_some hf
    have he := List.mem_of_find?_eq_some hf
    obtain ⟨z, _, _, ez⟩ := groupTables_forestOf i d e he
    subst ez
    have : z = g := by simpa using hp
    subst this
    rfl

end PsdVerif.Reopen
