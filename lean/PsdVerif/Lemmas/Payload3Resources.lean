/-
C01 payload unit 7 — the laws (`RtAnywhere` | `RtAtEnd`, `Count`) of every codec of Model/Payload3Resources.lean.
-/
import PsdVerif.Lemmas.Payload3Base
import PsdVerif.Lemmas.PayloadLinked
import PsdVerif.Model.Payload3Resources

namespace PsdVerif.Payload3
open PsdVerif PsdVerif.Codec PsdVerif.Payload PsdVerif.Payload.PCodec

/-! ### lengths of items (for `while is_readable(fp, n)`) -/

theorem rec_ge (fs : List FI) (n : Nat) (h : n ≤ fmtSize fs) : ∀ v, (rec fs).Fits v → n ≤ ((rec fs).encT v).length := by
  intro v hf
  have := length_fmtT fs v hf
  simp only [rec]; omega

theorem checked_ge {α : Type} {c : PCodec α} {ok : α → Prop} [DecidablePred ok] {e : Err} {n : Nat}
    (h : ∀ v, c.Fits v → n ≤ (c.encT v).length) : ∀ v, (checked c ok e).Fits v → n ≤ ((checked c ok e).encT v).length := h

theorem seq_ge {α β : Type} {a : PCodec α} {b : PCodec β} {m k : Nat} (ha : ∀ v, a.Fits v → m ≤ (a.encT v).length)
    (hb : ∀ v, b.Fits v → k ≤ (b.encT v).length) : ∀ v, (seq a b).Fits v → m + k ≤ ((seq a b).encT v).length := by
  intro v hf
  have h1 := ha v.1 hf.1
  have h2 := hb v.2 hf.2
  simp only [seq, List.length_append]; omega

theorem pascal_ge (pw pr : Nat) : ∀ v, (pascal pw pr).Fits v → 1 ≤ ((pascal pw pr).encT v).length := by
  intro v _
  simp only [pascal, pascalT, List.length_append, length_beBytes]; omega

theorem ustr_ge : ∀ v, ustr.Fits v → 1 ≤ (ustr.encT v).length := by
  intro v _
  simp only [ustr, StringElement.codec, length_ustrT]; omega

/-- the step form with the position written as a length of written bytes -/
theorem fmt_step' {fs : List FI} {vs : Row} (hok : fs.all FI.ok = true) (hf : fmtFits fs vs) (hw : fmtWF fs vs)
    {d : B} {p : Nat} {rest : B} (h : At d p (fmtT fs vs ++ rest)) :
    fmtDec fs d p = .ok (vs, p + (fmtT fs vs).length) ∧ At d (p + (fmtT fs vs).length) rest := by
  rw [length_fmtT fs vs hf]
  exact fmt_step fs vs hok hf hw h

/-- a format without `?` / `ns` fields has no WF clause -/
theorem fmtWF_of_plain : ∀ (fs : List FI) (vs : Row),
    fs.all (fun i => match i with | .fld .q => false | .fld (.str _) => false | _ => true) = true → fmtWF fs vs
  | [], _, _ => trivial
  | .pad _ :: fs, vs, h => by
    simp only [List.all_cons, Bool.and_eq_true] at h
    simp only [fmtWF]; exact fmtWF_of_plain fs vs h.2
  | .fld t :: fs, v :: vs, h => by
    simp only [List.all_cons, Bool.and_eq_true] at h
    simp only [fmtWF]
    refine ⟨?_, fmtWF_of_plain fs vs h.2⟩
    cases t <;> cases v <;> simp_all [FT.WF]
  | .fld _ :: _, [], _ => trivial

theorem ustr_step {s : Payload.Str} (hw : ustr.WF s) (hf : ustr.Fits s) {d : B} {p : Nat} {rest : B}
    (h : At d p (ustr.encT s ++ rest)) :
    ustr.dec d p = .ok (s, p + (ustr.encT s).length) ∧ At d (p + (ustr.encT s).length) rest :=
  step_of ustr_rt ustr_tight hw hf h

/-! ## the flat classes -/

theorem AlphaIdentifiers.rt : AlphaIdentifiers.codec.RtAtEnd :=
  whileR_rt 4 1 (rec_rt _ rfl) (rec_tight _) (rec_ge _ 4 (by decide)) (by decide) (by decide)
theorem AlphaIdentifiers.count : AlphaIdentifiers.codec.Count := whileR_count 4 1 (rec_count _)

theorem AlphaNamesPascal.rt : AlphaNamesPascal.codec.RtAtEnd :=
  whileR_rt 1 1 (pascal_rt 1) (pascal_tight 1 1) (pascal_ge 1 1) (by decide) (by decide)
theorem AlphaNamesPascal.count : AlphaNamesPascal.codec.Count := whileR_count 1 1 (pascal_count 1 1)

theorem AlphaNamesUnicode.rt : AlphaNamesUnicode.codec.RtAtEnd :=
  whileR_rt 1 1 ustr_rt ustr_tight ustr_ge (by decide) (by decide)
theorem AlphaNamesUnicode.count : AlphaNamesUnicode.codec.Count := whileR_count 1 1 ustr_count

theorem AlphaChannel.rt : AlphaChannel.codec.RtAnywhere := checked_rt (rec_rt _ rfl)
theorem AlphaChannel.count : AlphaChannel.codec.Count := checked_count (rec_count _)
theorem AlphaChannel.tight : Tight AlphaChannel.codec := checked_tight (rec_tight _)

theorem DisplayInfo.rt : DisplayInfo.codec.RtAtEnd :=
  seq_rt_end (rec_rt _ rfl) (rec_tight _)
    (whileR_rt 13 1 AlphaChannel.rt AlphaChannel.tight (checked_ge (rec_ge _ 13 (by decide))) (by decide) (by decide))
theorem DisplayInfo.count : DisplayInfo.codec.Count := seq_count (rec_count _) (whileR_count 13 1 AlphaChannel.count)

theorem Byte.rt : Byte.codec.RtAnywhere := rec_rt _ rfl
theorem Byte.count : Byte.codec.Count := rec_count _

theorem GridGuidesInfo.rt : GridGuidesInfo.codec.RtAnywhere :=
  seq_rt (rec_rt _ rfl) (rec_tight _) (counted_rt 4 (rec_rt _ rfl) (rec_tight _))
theorem GridGuidesInfo.count : GridGuidesInfo.codec.Count := seq_count (rec_count _) (counted_count 4 (rec_count _))

theorem HalftoneScreen.rt : HalftoneScreen.codec.RtAnywhere := rec_rt _ rfl
theorem HalftoneScreen.count : HalftoneScreen.codec.Count := rec_count _

theorem HalftoneScreens.rt : HalftoneScreens.codec.RtAtEnd :=
  whileR_rt 18 1 HalftoneScreen.rt (rec_tight _) (rec_ge _ 18 (by decide)) (by decide) (by decide)
theorem HalftoneScreens.count : HalftoneScreens.codec.Count := whileR_count 18 1 HalftoneScreen.count

theorem Integer.rt : Integer.codec.RtAnywhere := rec_rt _ rfl
theorem Integer.count : Integer.codec.Count := rec_count _

theorem LayerGroupEnabledIDs.rt : LayerGroupEnabledIDs.codec.RtAtEnd :=
  whileR_rt 1 1 (rec_rt _ rfl) (rec_tight _) (rec_ge _ 1 (by decide)) (by decide) (by decide)
theorem LayerGroupEnabledIDs.count : LayerGroupEnabledIDs.codec.Count := whileR_count 1 1 (rec_count _)

theorem LayerGroupInfo.rt : LayerGroupInfo.codec.RtAtEnd :=
  whileR_rt 2 1 (rec_rt _ rfl) (rec_tight _) (rec_ge _ 2 (by decide)) (by decide) (by decide)
theorem LayerGroupInfo.count : LayerGroupInfo.codec.Count := whileR_count 2 1 (rec_count _)

theorem LayerSelectionIDs.rt : LayerSelectionIDs.codec.RtAnywhere := counted_rt 2 (rec_rt _ rfl) (rec_tight _)
theorem LayerSelectionIDs.count : LayerSelectionIDs.codec.Count := counted_count 2 (rec_count _)

theorem ShortInteger.rt : ShortInteger.codec.RtAnywhere := rec_rt _ rfl
theorem ShortInteger.count : ShortInteger.codec.Count := rec_count _

theorem PascalString.rt : PascalString.codec.RtAtEnd := pascal_rt_end 2
theorem PascalString.count : PascalString.codec.Count := pascal_count 1 2

theorem PixelAspectRatio.rt : PixelAspectRatio.codec.RtAnywhere := rec_rt _ rfl
theorem PixelAspectRatio.count : PixelAspectRatio.codec.Count := rec_count _

theorem PrintFlagsInfo.rt : PrintFlagsInfo.codec.RtAnywhere := rec_rt _ rfl
theorem PrintFlagsInfo.count : PrintFlagsInfo.codec.Count := rec_count _

theorem PrintScale.rt : PrintScale.codec.RtAnywhere := checked_rt (rec_rt _ rfl)
theorem PrintScale.count : PrintScale.codec.Count := checked_count (rec_count _)

theorem ResolutionInfo.rt : ResolutionInfo.codec.RtAnywhere := rec_rt _ rfl
theorem ResolutionInfo.count : ResolutionInfo.codec.Count := rec_count _

theorem TransferFunction.rt : TransferFunction.codec.RtAnywhere := seq_rt (rec_rt _ rfl) (rec_tight _) (rec_rt _ rfl)
theorem TransferFunction.count : TransferFunction.codec.Count := seq_count (rec_count _) (rec_count _)
theorem TransferFunction.tight : Tight TransferFunction.codec := seq_tight (rec_tight _)

theorem TransferFunctions.rt : TransferFunctions.codec.RtAtEnd :=
  whileR_rt 28 1 TransferFunction.rt TransferFunction.tight
    (seq_ge (m := 26) (k := 2) (rec_ge _ 26 (by decide)) (rec_ge _ 2 (by decide))) (by decide) (by decide)
theorem TransferFunctions.count : TransferFunctions.codec.Count := whileR_count 28 1 TransferFunction.count

theorem URLItem.rt : URLItem.codec.RtAnywhere := seq_rt (rec_rt _ rfl) (rec_tight _) ustr_rt
theorem URLItem.count : URLItem.codec.Count := seq_count (rec_count _) ustr_count
theorem URLItem.tight : Tight URLItem.codec := seq_tight ustr_tight

theorem URLList.rt : URLList.codec.RtAnywhere := counted_rt 4 URLItem.rt URLItem.tight
theorem URLList.count : URLList.codec.Count := counted_count 4 URLItem.count

theorem VersionInfo.rt : VersionInfo.codec.RtAnywhere :=
  seq_rt (rec_rt _ rfl) (rec_tight _) (seq_rt ustr_rt ustr_tight (seq_rt ustr_rt ustr_tight (rec_rt _ rfl)))
theorem VersionInfo.count : VersionInfo.codec.Count :=
  seq_count (rec_count _) (seq_count ustr_count (seq_count ustr_count (rec_count _)))

/-! ## PrintFlags -/

namespace PrintFlags

theorem rt : codec.RtAtEnd := by
  intro x hwf hf d p h hend
  obtain ⟨fl, pf⟩ := x
  obtain ⟨hw1, hw2⟩ := hwf
  obtain ⟨hf1, hf2⟩ := hf
  simp only [codec, encT] at h hend hw1 hw2 hf1 hf2 ⊢
  cases pf with
  | none =>
    simp only [optT, List.append_nil] at h hend ⊢
    obtain ⟨e1, _⟩ := fmt_step' (fs := fmt8) rfl hf1 hw1 h.nil_right
    have r1 : isReadable 1 d (p + (fmtT fmt8 fl).length) = false := isReadable_false (by omega)
    simp only [dec, bind, Except.bind, e1, r1, Bool.false_eq_true, if_false]
  | some r =>
    simp only [optT, optFits] at h hend hw2 hf2 ⊢
    obtain ⟨e1, h1⟩ := fmt_step' (fs := fmt8) rfl hf1 hw1 h
    have hl : (fmtT [Q] r).length = 1 := length_fmtT [Q] r hf2
    have r1 : isReadable 1 d (p + (fmtT fmt8 fl).length) = true := isReadable_of_at h1 (by omega)
    obtain ⟨e2, _⟩ := fmt_step' (fs := [Q]) rfl hf2 hw2 h1.nil_right
    simp only [dec, bind, Except.bind, e1, r1, if_true, e2, List.length_append, Nat.add_assoc]

theorem count : codec.Count := fun _ => rfl

end PrintFlags

/-! ## ThumbnailResource -/

namespace Thumbnail

theorem rt : codec.RtAnywhere := by
  intro x _ hf d p h
  obtain ⟨f1, f2, f3⟩ := hf
  have h : At d p (fmtT headFmt x.head ++ (beBytes 4 x.data.length ++ (fmtT tailFmt x.tail ++ (x.data ++ [])))) := by
    simpa only [codec, encT, hdrT, List.append_assoc, List.append_nil] using h
  obtain ⟨e1, h⟩ := fmt_step' (fs := headFmt) rfl f1 (fmtWF_of_plain _ _ rfl) h
  obtain ⟨e2, h⟩ := readU_step h f2
  obtain ⟨e3, h⟩ := fmt_step' (fs := tailFmt) rfl f3 (fmtWF_of_plain _ _ rfl) h
  have e4 := readSized_at h.left
  simp only [codec, dec, bind, Except.bind, e1, e2, e3, e4]
  simp only [encT, hdrT, List.length_append, length_beBytes, Nat.add_assoc]

theorem count : codec.Count := by
  intro x
  simp only [codec, encP, encT, wBytes_eq, wSeq_eq]

end Thumbnail

/-! ## SliceV6 -/

namespace SliceV6
variable (tb : Descriptor.Tables)

theorem optRowP_eq (fs : List FI) (o : Option Row) :
    optP (fun r => wBytes (fmtT fs r)) o = (optT (fmtT fs) o, (optT (fmtT fs) o).length) := by
  cases o <;> rfl

theorem optBlockP_eq (o : Option Descriptor.Block) :
    optP (Descriptor.Block.encW tb 1) o = (optT (Descriptor.Block.encT tb 1) o, (optT (Descriptor.Block.encT tb 1) o).length) := by
  cases o with
  | none => rfl
  | some b => exact Descriptor.Block.encW_eq tb 1 b

theorem encP_eq (x : SliceV6) : encP tb x = (encT tb x, (encT tb x).length) := by
  simp only [encP, encT, tailT, optRowP_eq, optBlockP_eq, ustr_count _]
  simp only [wBytes_eq, wSeq_eq, List.append_assoc]

/-- nothing that could be taken for the version field of a descriptor block follows at `q` -/
def NoPeek (d : B) (q : Nat) (rest : B) : Prop :=
  d.length < q + 4 ∨ ∃ n rest', n ≠ 16 ∧ n < 256 ^ 4 ∧ rest = beBytes 4 n ++ rest'

theorem NoPeek.cast {d : B} {q q' : Nat} {rest : B} (h : NoPeek d q rest) (e : q = q') : NoPeek d q' rest := e ▸ h

theorem peek_none {d : B} {q : Nat} {rest : B} (h : At d q rest) (hn : NoPeek d q rest) : peekData tb d q = .ok (none, q) := by
  rcases hn with hlt | ⟨n, rest', hne, hlt, rfl⟩
  · simp only [peekData, isReadable_false hlt, Bool.false_eq_true, if_false]
  · obtain ⟨e1, _⟩ := readU_step h hlt
    have r4 : isReadable 4 d q = true := isReadable_of_at h (by simp only [List.length_append, length_beBytes]; omega)
    simp only [peekData, r4, if_true, e1, if_neg hne]

theorem peek_some {blk : Descriptor.Block} (hwf : blk.WF tb) (hf : blk.Fits tb) (hne : blk.classID.bytes ≠ zeroKey)
    {d : B} {q : Nat} {rest : B} (h : At d q (blk.encT tb 1 ++ rest)) :
    peekData tb d q = .ok (some blk, q + (blk.encT tb 1).length) ∧ At d (q + (blk.encT tb 1).length) rest := by
  obtain ⟨e2, h'⟩ := LinkedLayer.block_step tb hwf hf h
  refine ⟨?_, h'⟩
  have hv : blk.version = 16 := hwf.1
  have hshape : blk.encT tb 1 ++ rest = beBytes 4 16 ++ ((Descriptor.bodyT tb blk.name blk.classID blk.items ++
      zeros (padAmount (blk.bodyLen tb) 1)) ++ rest) := by
    simp only [Descriptor.Block.encT, Descriptor.u32T, hv, List.append_assoc]; rfl
  rw [hshape] at h
  obtain ⟨e1, _⟩ := readU_step h (by decide)
  have r4 : isReadable 4 d q = true := isReadable_of_at h (by simp only [List.length_append, length_beBytes]; omega)
  simp only [peekData, r4, if_true, e1, e2, if_neg hne]

theorem peek_step {data : Option Descriptor.Block}
    (wd : optFits (fun (b : Descriptor.Block) => b.WF tb ∧ b.classID.bytes ≠ zeroKey) data)
    (f14 : optFits (Descriptor.Block.Fits tb) data) {d : B} {q : Nat} {rest : B}
    (h : At d q (optT (Descriptor.Block.encT tb 1) data ++ rest))
    (hpk : data.isNone → NoPeek d (q + (optT (Descriptor.Block.encT tb 1) data).length) rest) :
    peekData tb d q = .ok (data, q + (optT (Descriptor.Block.encT tb 1) data).length) := by
  cases data with
  | none =>
    simp only [optT, List.nil_append, List.length_nil, Nat.add_zero] at h hpk ⊢
    exact peek_none tb h (hpk rfl)
  | some blk =>
    simp only [optT, optFits] at h wd f14 ⊢
    exact (peek_some tb wd.1 f14 wd.2 h).1

theorem assoc_step {head : Row} {assoc : Option Row} (wa : assoc.isSome ↔ hasAssoc head)
    (f2 : optFits (fmtFits [U 4]) (assocOf head assoc)) {d : B} {p : Nat} {rest : B}
    (h : At d p (optT (fmtT [U 4]) (assocOf head assoc) ++ rest)) :
    assocDec head d p = .ok (assoc, p + (optT (fmtT [U 4]) (assocOf head assoc)).length) ∧
      At d (p + (optT (fmtT [U 4]) (assocOf head assoc)).length) rest := by
  by_cases ho : hasAssoc head
  · simp only [assocOf, if_pos ho] at f2 h ⊢
    have hs : assoc.isSome := wa.2 ho
    cases assoc with
    | none => simp at hs
    | some r =>
      simp only [optFits, optT] at f2 h ⊢
      obtain ⟨e2, h⟩ := fmt_step' (fs := [U 4]) rfl f2 (fmtWF_of_plain _ _ rfl) h
      exact ⟨by simp only [assocDec, if_pos ho, e2], h⟩
  · simp only [assocOf, if_neg ho] at f2 h ⊢
    have hn : assoc = none := by
      cases assoc with
      | none => rfl
      | some r => exact absurd (wa.1 rfl) ho
    subst hn
    simp only [optT, List.nil_append, List.length_nil, Nat.add_zero] at h ⊢
    exact ⟨by simp only [assocDec, if_neg ho], h⟩

/-- the reader returns the slice when what follows cannot be taken for a descriptor block -/
theorem dec_step {x : SliceV6} (hwf : WF tb x) (hf : Fits tb x) {d : B} {p : Nat} {rest : B}
    (h : At d p (encT tb x ++ rest)) (hpk : x.data.isNone → NoPeek d (p + (encT tb x).length) rest) :
    dec tb d p = .ok (x, p + (encT tb x).length) ∧ At d (p + (encT tb x).length) rest := by
  refine ⟨?_, h.right⟩
  obtain ⟨wa, w1, w2, w3, w4, w5, w6, w7, wd⟩ := hwf
  obtain ⟨f1, f2, f3, f4, f5, f6, f7, f8, f9, f10, f11, f12, f13, f14⟩ := hf
  obtain ⟨head, assoc, name, st, bbox, url, target, message, altTag, html, cellText, align, argb, data⟩ := x
  simp only [assocWritten] at wa w1 w2 w3 w4 w5 w6 w7 wd f1 f2 f3 f4 f5 f6 f7 f8 f9 f10 f11 f12 f13 f14 hpk
  simp only [encT, tailT, assocWritten, List.append_assoc] at h hpk ⊢
  obtain ⟨e1, h⟩ := fmt_step' (fs := headFmt) rfl f1 (fmtWF_of_plain _ _ rfl) h
  obtain ⟨e2, h⟩ := assoc_step wa f2 h
  obtain ⟨e3, h⟩ := ustr_step w1 f3 h
  obtain ⟨e4, h⟩ := fmt_step' (fs := [U 4]) rfl f4 (fmtWF_of_plain _ _ rfl) h
  obtain ⟨e5, h⟩ := fmt_step' (fs := bboxFmt) rfl f5 (fmtWF_of_plain _ _ rfl) h
  obtain ⟨e6, h⟩ := ustr_step w2 f6 h
  obtain ⟨e7, h⟩ := ustr_step w3 f7 h
  obtain ⟨e8, h⟩ := ustr_step w4 f8 h
  obtain ⟨e9, h⟩ := ustr_step w5 f9 h
  obtain ⟨e10, h⟩ := fmt_step' (fs := [Q]) rfl f10 w7 h
  obtain ⟨e11, h⟩ := ustr_step w6 f11 h
  obtain ⟨e12, h⟩ := fmt_step' (fs := [U 4, U 4]) rfl f12 (fmtWF_of_plain _ _ rfl) h
  obtain ⟨e13, h⟩ := fmt_step' (fs := argbFmt) rfl f13 (fmtWF_of_plain _ _ rfl) h
  have e14 := peek_step tb wd f14 h (fun hn => (hpk hn).cast (by simp only [List.length_append, Nat.add_assoc]))
  simp only [dec, bind, Except.bind, e1, e2, e3, e4, e5, e6, e7, e8, e9, e10, e11, e12, e13, e14]
  simp only [List.length_append, Nat.add_assoc]

/-- a slice on its own stream -/
theorem rt : (SliceV6.codec tb).RtAtEnd := by
  intro x hwf hf d p h hend
  exact (dec_step tb hwf hf h.nil_right (fun _ => Or.inl (by simp only [SliceV6.codec] at hend; omega))).1

theorem count : (SliceV6.codec tb).Count := encP_eq tb

/-- the first four bytes of a written slice are its id -/
theorem encT_head {y : SliceV6} (hf : Fits tb y) :
    ∃ tail, encT tb y = beBytes 4 (sliceId y).toNat ++ tail ∧ (sliceId y).toNat < 256 ^ 4 ∧ 0 ≤ sliceId y := by
  obtain ⟨f1, _⟩ := hf
  unfold encT sliceId
  generalize tailT tb y = t
  generalize y.head = head at f1 ⊢
  match head, f1 with
  | [.int a, .int b, .int c], f1 =>
    simp only [headFmt, U, fmtFits, FT.Fits] at f1
    refine ⟨(beBytes 4 b.toNat ++ (beBytes 4 c.toNat ++ [])) ++ t, ?_, f1.1.2, f1.1.1⟩
    simp only [headFmt, U, fmtT, FT.encT, Row.int, List.getD, List.getElem?_cons_zero, Option.getD_some,
      FV.toInt, List.append_assoc]

end SliceV6

/-! ## SlicesV6 -/

namespace SlicesV6
variable (tb : Descriptor.Tables)

theorem items_at (items : List SliceV6) (hwf : ∀ s ∈ items, SliceV6.WF tb s) (hf : listFits (SliceV6.Fits tb) items)
    (hch : chainOK items) {d : B} {p : Nat} (h : At d p (listT (SliceV6.encT tb) items))
    (hend : p + (listT (SliceV6.encT tb) items).length = d.length) :
    readCount (SliceV6.dec tb) items.length d p = .ok (items, p + (listT (SliceV6.encT tb) items).length) := by
  induction items generalizing p with
  | nil => simp [readCount, listT]
  | cons x xs ih =>
    simp only [listT] at h hend ⊢
    have hpk : x.data.isNone → SliceV6.NoPeek d (p + (SliceV6.encT tb x).length) (listT (SliceV6.encT tb) xs) := by
      intro hnone
      cases xs with
      | nil =>
        simp only [listT, List.length_append, List.length_nil, Nat.add_zero] at hend
        exact Or.inl (by omega)
      | cons y ys =>
        obtain ⟨tail, hy, hlt, hnn⟩ := SliceV6.encT_head tb (hf y (by simp))
        have hne : SliceV6.sliceId y ≠ 16 := (show _ ∧ _ from hch).1 hnone
        refine Or.inr ⟨(SliceV6.sliceId y).toNat, tail ++ listT (SliceV6.encT tb) ys, by omega, hlt, ?_⟩
        simp only [listT, hy, List.append_assoc]
    obtain ⟨e1, h'⟩ := SliceV6.dec_step tb (hwf x (by simp)) (hf x (by simp)) h hpk
    have hch' : chainOK xs := by
      cases xs with
      | nil => trivial
      | cons y ys => exact (show _ ∧ _ from hch).2
    have e2 := ih (fun s hs => hwf s (by simp [hs])) (fun s hs => hf s (by simp [hs])) hch' h'
      (by simp only [List.length_append] at hend; omega)
    simp only [List.length_cons, readCount, e1, e2, List.length_append, Nat.add_assoc]

theorem encP_eq (x : SlicesV6) : encP tb x = (encT tb x, (encT tb x).length) := by
  simp only [encP, encT]
  rw [wList_eq _ (SliceV6.encT tb) x.items (fun s _ => SliceV6.encP_eq tb s)]
  simp only [ustr_count _, wBytes_eq, wSeq_eq, List.append_assoc]

theorem dec_at_end {x : SlicesV6} (hwf : WF tb x) (hf : Fits tb x) {d : B} {p : Nat} (h : At d p (encT tb x))
    (hend : p + (encT tb x).length = d.length) : dec tb d p = .ok (x, p + (encT tb x).length) := by
  obtain ⟨w1, w2, w3⟩ := hwf
  obtain ⟨f1, f2, f3, f4⟩ := hf
  simp only [encT] at h hend ⊢
  obtain ⟨e1, h⟩ := fmt_step' (fs := SliceV6.bboxFmt) rfl f1 (fmtWF_of_plain _ _ rfl) h
  obtain ⟨e2, h⟩ := ustr_step w1 f2 h
  obtain ⟨e3, h⟩ := readU_step h f3
  have e4 := items_at tb x.items w2 f4 w3 h (by simp only [List.length_append, length_beBytes] at hend; omega)
  simp only [dec, bind, Except.bind, e1, e2, e3, e4]
  simp only [List.length_append, length_beBytes, Nat.add_assoc]

theorem rt : (codec tb).RtAtEnd := fun _ hwf hf _ _ h hend => dec_at_end tb hwf hf h hend
theorem count : (codec tb).Count := encP_eq tb

end SlicesV6

/-! ## Slices -/

namespace Slices
variable (tb : Descriptor.Tables)

theorem rt : (codec tb).RtAtEnd := by
  intro x hwf hf d p h hend
  obtain ⟨version, data⟩ := x
  obtain ⟨hv, hshape⟩ := hwf
  obtain ⟨fv, fd⟩ := hf
  simp only [codec, encT] at h hend hv fv fd ⊢
  obtain ⟨e1, h1⟩ := readU_step h fv
  cases data with
  | v6 s =>
    simp only [dataT, dataFits, length_beBytes, List.length_append] at h1 hend hshape fd ⊢
    obtain ⟨rfl, hs⟩ := hshape
    have e2 := SlicesV6.dec_at_end tb hs fd h1 (by omega)
    simp only [dec, bind, Except.bind, e1, if_pos hv, if_true, e2, consumed, Nat.add_assoc]
  | desc b =>
    simp only [dataT, dataFits] at h1 hshape fd ⊢
    obtain ⟨hne, hb⟩ := hshape
    have e2 := Descriptor.Block.dec_at (pad := 1) hb fd h1
    simp only [dec, bind, Except.bind, e1, if_pos hv, if_neg hne, e2, consumed, Nat.add_assoc]

theorem dataP_eq (x : SlicesData) : dataP tb x = (dataT tb x, (dataT tb x).length) := by
  cases x with
  | v6 s => exact SlicesV6.encP_eq tb s
  | desc b => exact Descriptor.Block.encW_eq tb 1 b

theorem count : (codec tb).Count := by
  intro x
  simp only [codec, encP, encT, dataP_eq, wBytes_eq, wSeq_eq]

end Slices

/-! ## descriptor blocks as payloads -/

theorem DescriptorResource.rt (tb : Descriptor.Tables) : (DescriptorResource.codec tb).RtAnywhere :=
  fun _ hwf hf _ _ h => Descriptor.Block.dec_at hwf hf h
theorem DescriptorResource.count (tb : Descriptor.Tables) : (DescriptorResource.codec tb).Count :=
  fun b => Descriptor.Block.encW_eq tb 1 b

theorem DescriptorPayload.rt (tb : Descriptor.Tables) (pad : Nat) : (DescriptorPayload.codec tb pad).RtAnywhere :=
  fun _ hwf hf _ _ h => Descriptor.Block.dec_at hwf hf h
theorem DescriptorPayload.count (tb : Descriptor.Tables) (pad : Nat) : (DescriptorPayload.codec tb pad).Count :=
  fun b => Descriptor.Block.encW_eq tb pad b

theorem Descriptor2Payload.rt (tb : Descriptor.Tables) (pad : Nat) : (Descriptor2Payload.codec tb pad).RtAnywhere :=
  fun _ hwf hf _ _ h => Descriptor.Block2.dec_at hwf hf h
theorem Descriptor2Payload.count (tb : Descriptor.Tables) (pad : Nat) : (Descriptor2Payload.codec tb pad).Count :=
  fun b => Descriptor.Block2.encW_eq tb pad b

end PsdVerif.Payload3
