/-
Helper lemmas for C04: the delta coder. The decoder visits the positions of the
encoder in reverse order and each decoder step undoes the encoder step at the same
position, so the round trip is a generic "fold, then fold the inverses backwards".
Core Lean only.
-/
import PsdVerif.Model.Compression
import PsdVerif.Lemmas.RleDec

namespace PsdVerif.Compression
open PsdVerif

/-- Fold of partial steps `E` over `P`, then of steps `D` over `P.reverse`, is the identity
on states satisfying an invariant, when each `D p` undoes `E p`. -/
theorem foldlM_inverse {σ : Type} (E D : σ → Nat → Except Err σ) (Good : σ → Prop) (okp : Nat → Prop)
    (hstep : ∀ a p, Good a → okp p → ∃ a', E a p = .ok a' ∧ Good a' ∧ D a' p = .ok a) :
    ∀ (P : List Nat) (a : σ), Good a → (∀ p ∈ P, okp p) →
      ∃ b, P.foldlM E a = .ok b ∧ Good b ∧ P.reverse.foldlM D b = .ok a := by
  intro P
  induction P with
  | nil => intro a ha _; exact ⟨a, rfl, ha, rfl⟩
  | cons p ps ih =>
    intro a ha hp
    obtain ⟨a', h1, h2, h3⟩ := hstep a p ha (hp p (by simp))
    obtain ⟨b, hb1, hb2, hb3⟩ := ih a' h2 (fun q hq => hp q (by simp [hq]))
    refine ⟨b, ?_, hb2, ?_⟩
    · simp only [List.foldlM_cons, h1]
      exact hb1
    · simp only [List.reverse_cons, List.foldlM_append, hb3]
      simp only [List.foldlM_cons, List.foldlM_nil]
      show (D a' p >>= fun x => pure x) = _
      rw [h3]; rfl

/-- State invariant of the delta loops: `n` items, all below the modulus. -/
def DeltaGood (m n : Nat) (a : Array Nat) : Prop := a.size = n ∧ ∀ i (h : i < a.size), a[i] < m

theorem delta_step (m n : Nat) (a : Array Nat) (p : Nat) (hg : DeltaGood m n a) (hp : p + 1 < n) :
    ∃ a', encStep m a p = .ok a' ∧ DeltaGood m n a' ∧ decStep m a' p = .ok a := by
  obtain ⟨hs, hlt⟩ := hg
  have h1 : p + 1 < a.size := by omega
  have h0 : p < a.size := by omega
  have hm : 0 < m := by have := hlt p h0; omega
  refine ⟨a.setIfInBounds (p + 1) ((a[p + 1] + (m - a[p] % m)) % m), ?_, ?_, ?_⟩
  · simp [encStep, Array.getElem?_eq_getElem h1, Array.getElem?_eq_getElem h0]
  · constructor
    · simp [hs]
    · intro i hi
      simp only [Array.size_setIfInBounds] at hi
      rw [Array.getElem_setIfInBounds]
      split
      · exact Nat.mod_lt _ hm
      · exact hlt i hi
  · have hq := hlt (p + 1) h1
    have hpv := hlt p h0
    have e1 : (a.setIfInBounds (p + 1) ((a[p + 1] + (m - a[p] % m)) % m))[p + 1]? =
        some ((a[p + 1] + (m - a[p] % m)) % m) := by
      simp [h1]
    have e0 : (a.setIfInBounds (p + 1) ((a[p + 1] + (m - a[p] % m)) % m))[p]? = some a[p] := by
      rw [Array.getElem?_setIfInBounds_ne (by omega)]
      exact Array.getElem?_eq_getElem h0
    simp only [decStep, e1, e0]
    congr 1
    have hv : ((a[p + 1] + (m - a[p] % m)) % m + a[p]) % m = a[p + 1] := by
      rw [Nat.mod_eq_of_lt hpv]
      rw [Nat.mod_add_mod]
      have : a[p + 1] + (m - a[p]) + a[p] = a[p + 1] + m := by omega
      rw [this, Nat.add_mod_right, Nat.mod_eq_of_lt hq]
    rw [hv]
    apply Array.ext_getElem?
    intro i
    by_cases hi : p + 1 = i
    · subst hi
      simp [h1]
    · rw [Array.getElem?_setIfInBounds_ne hi, Array.getElem?_setIfInBounds_ne hi]

theorem encPositions_lt (w h : Nat) : ∀ p ∈ encPositions w h, p + 1 < w * h := by
  intro p hp
  simp only [encPositions, List.mem_flatMap, List.mem_reverse, List.mem_range, List.mem_map] at hp
  obtain ⟨y, hy, x, hx, rfl⟩ := hp
  have : (y + 1) * w ≤ h * w := Nat.mul_le_mul_right w (by omega)
  rw [Nat.mul_comm w h]
  rw [Nat.add_mul] at this
  omega

theorem decPositions_eq (w h : Nat) : decPositions w h = (encPositions w h).reverse := by
  simp only [encPositions, decPositions, List.reverse_flatMap, List.reverse_reverse]
  congr 1
  funext y
  simp [List.map_reverse]

/-- The delta coder round trip on an array of `w*h` items below the modulus. -/
theorem deltaLoop_roundtrip (m w h : Nat) (a : Array Nat) (hg : DeltaGood m (w * h) a) :
    ∃ b, deltaEncode m w h a = .ok b ∧ DeltaGood m (w * h) b ∧ deltaDecode m w h b = .ok a := by
  have := foldlM_inverse (encStep m) (decStep m) (DeltaGood m (w * h)) (fun p => p + 1 < w * h)
    (fun a p hga hp => delta_step m (w * h) a p hga hp) (encPositions w h) a hg (encPositions_lt w h)
  simpa only [deltaEncode, deltaDecode, decPositions_eq] using this

end PsdVerif.Compression
