/-
Helper lemmas for C04: the 32-bit byte shuffle. `_shuffle_byte_order` scatters the
source along the index list `_shuffled_order`, `_restore_byte_order` gathers along the
same list; the list has no repetition and stays inside the buffer.
Core Lean only.
-/
import PsdVerif.Model.Compression

namespace PsdVerif.Compression
open PsdVerif

theorem scatterAux_spec (src : Array UInt8) (N : Nat) :
    ∀ (S : List Nat) (n : Nat) (arr : Array UInt8), arr.size = N → (∀ s ∈ S, s < N) →
      n + S.length ≤ src.size → S.Nodup →
      ∃ b, scatterAux src S n arr = .ok b ∧ b.size = N ∧
        (∀ j, j ∉ S → b[j]? = arr[j]?) ∧
        (∀ t (ht : t < S.length), b[S[t]]? = src[n + t]?) := by
  intro S
  induction S with
  | nil =>
    intro n arr ha _ _ _
    exact ⟨arr, rfl, ha, fun _ _ => rfl, fun t ht => absurd ht (by simp)⟩
  | cons s S ih =>
    intro n arr ha hS hn hnd
    have hsn : n < src.size := by simp at hn; omega
    have hs : s < arr.size := by rw [ha]; exact hS s (by simp)
    obtain ⟨hnot, hnd'⟩ := List.nodup_cons.mp hnd
    obtain ⟨b, hb1, hb2, hb3, hb4⟩ := ih (n + 1) (arr.setIfInBounds s src[n]) (by simp [ha])
      (fun x hx => hS x (by simp [hx])) (by simp at hn ⊢; omega) hnd'
    refine ⟨b, ?_, hb2, ?_, ?_⟩
    · simp only [scatterAux, Array.getElem?_eq_getElem hsn, hs, if_true]
      exact hb1
    · intro j hj
      have hjs : s ≠ j := fun h => hj (by simp [h])
      rw [hb3 j (fun h => hj (by simp [h])), Array.getElem?_setIfInBounds_ne hjs]
    · intro t ht
      cases t with
      | zero =>
        simp only [List.getElem_cons_zero, Nat.add_zero]
        rw [hb3 s hnot]
        simp [hs, Array.getElem?_eq_getElem hsn]
      | succ t =>
        simp only [List.getElem_cons_succ]
        have := hb4 t (by simp at ht; omega)
        rw [this]; congr 1; omega

theorem gatherAux_spec (src : Array UInt8) :
    ∀ (S : List Nat) (n : Nat) (arr : Array UInt8), (∀ s ∈ S, s < src.size) →
      n + S.length ≤ arr.size →
      ∃ r, gatherAux src S n arr = .ok r ∧ r.size = arr.size ∧
        (∀ j, j < n ∨ n + S.length ≤ j → r[j]? = arr[j]?) ∧
        (∀ t (ht : t < S.length), r[n + t]? = src[S[t]]?) := by
  intro S
  induction S with
  | nil =>
    intro n arr _ _
    exact ⟨arr, rfl, rfl, fun _ _ => rfl, fun t ht => absurd ht (by simp)⟩
  | cons s S ih =>
    intro n arr hS hn
    have hs : s < src.size := hS s (by simp)
    have hna : n < arr.size := by simp at hn; omega
    obtain ⟨r, hr1, hr2, hr3, hr4⟩ := ih (n + 1) (arr.setIfInBounds n src[s])
      (fun x hx => hS x (by simp [hx])) (by simp at hn ⊢; omega)
    refine ⟨r, ?_, by simpa using hr2, ?_, ?_⟩
    · simp only [gatherAux, Array.getElem?_eq_getElem hs, hna, if_true]
      exact hr1
    · intro j hj
      simp only [List.length_cons] at hj
      rw [hr3 j (by omega), Array.getElem?_setIfInBounds_ne (by omega)]
    · intro t ht
      cases t with
      | zero =>
        simp only [List.getElem_cons_zero, Nat.add_zero]
        rw [hr3 n (by omega)]
        simp [hna, Array.getElem?_eq_getElem hs]
      | succ t =>
        simp only [List.getElem_cons_succ]
        have := hr4 t (by simp at ht; omega)
        rw [← this]; congr 1; omega

/-! ### The index list -/

def order (w h : Nat) : List Nat :=
  (List.range h).flatMap fun i => (List.range w).flatMap fun p =>
    (List.range 4).map fun k => i * (4 * w) + p + k * w

theorem length_flatMap_const {α β : Type} (f : α → List β) (c : Nat) :
    ∀ l : List α, (∀ a ∈ l, (f a).length = c) → (l.flatMap f).length = l.length * c := by
  intro l
  induction l with
  | nil => intro _; simp
  | cons a l ih =>
    intro h
    simp only [List.flatMap_cons, List.length_append, List.length_cons]
    rw [h a (by simp), ih (fun x hx => h x (by simp [hx])), Nat.add_mul]; omega

theorem order_length (w h : Nat) : (order w h).length = 4 * w * h := by
  unfold order
  rw [length_flatMap_const _ (w * 4)]
  · simp; rw [Nat.mul_comm 4 w, Nat.mul_comm]
  · intro i _
    rw [length_flatMap_const _ 4]
    · simp
    · intro p _; simp

theorem order_mem (w h s : Nat) (hs : s ∈ order w h) :
    ∃ i p k, i < h ∧ p < w ∧ k < 4 ∧ s = i * (4 * w) + p + k * w := by
  simp only [order, List.mem_flatMap, List.mem_range, List.mem_map] at hs
  obtain ⟨i, hi, p, hp, k, hk, rfl⟩ := hs
  exact ⟨i, p, k, hi, hp, hk, rfl⟩

theorem order_lt (w h : Nat) : ∀ s ∈ order w h, s < 4 * w * h := by
  intro s hs
  obtain ⟨i, p, k, hi, hp, hk, rfl⟩ := order_mem w h s hs
  have h1 : (i + 1) * (4 * w) ≤ h * (4 * w) := Nat.mul_le_mul_right _ (by omega)
  rw [Nat.add_mul] at h1
  have h2 : 4 * w * h = h * (4 * w) := Nat.mul_comm _ _
  have : k = 0 ∨ k = 1 ∨ k = 2 ∨ k = 3 := by omega
  rcases this with rfl | rfl | rfl | rfl <;> omega

theorem pairwise_range_of_lt {R : Nat → Nat → Prop} (n : Nat)
    (h : ∀ a b, a < b → b < n → R a b) : List.Pairwise R (List.range n) := by
  rw [List.pairwise_iff_getElem]
  intro i j hi hj hij
  simp only [List.getElem_range]
  simp only [List.length_range] at hi hj
  exact h i j hij hj

theorem order_nodup (w h : Nat) : (order w h).Nodup := by
  unfold order
  rw [List.nodup_iff_pairwise_ne, List.pairwise_flatMap]
  constructor
  · intro i _
    rw [List.pairwise_flatMap]
    constructor
    · intro p _
      rw [List.pairwise_map]
      apply pairwise_range_of_lt
      intro a b hab hb
      have : a = 0 ∨ a = 1 ∨ a = 2 := by omega
      have : b = 1 ∨ b = 2 ∨ b = 3 := by omega
      have hw : 0 < w := by
        rcases Nat.eq_zero_or_pos w with h0 | h0
        · subst h0; rename_i hp; simp at hp
        · exact h0
      rcases ‹a = 0 ∨ a = 1 ∨ a = 2› with rfl | rfl | rfl <;>
        rcases ‹b = 1 ∨ b = 2 ∨ b = 3› with rfl | rfl | rfl <;> omega
    · apply pairwise_range_of_lt
      intro p p' hpp hp' x hx y hy
      simp only [List.mem_map, List.mem_range] at hx hy
      obtain ⟨k, hk, rfl⟩ := hx
      obtain ⟨k', hk', rfl⟩ := hy
      have : k = 0 ∨ k = 1 ∨ k = 2 ∨ k = 3 := by omega
      have : k' = 0 ∨ k' = 1 ∨ k' = 2 ∨ k' = 3 := by omega
      rcases ‹k = 0 ∨ k = 1 ∨ k = 2 ∨ k = 3› with rfl | rfl | rfl | rfl <;>
        rcases ‹k' = 0 ∨ k' = 1 ∨ k' = 2 ∨ k' = 3› with rfl | rfl | rfl | rfl <;> omega
  · apply pairwise_range_of_lt
    intro i i' hii hi' x hx y hy
    simp only [List.mem_flatMap, List.mem_map, List.mem_range] at hx hy
    obtain ⟨p, hp, k, hk, rfl⟩ := hx
    obtain ⟨p', hp', k', hk', rfl⟩ := hy
    have h1 : (i + 1) * (4 * w) ≤ i' * (4 * w) := Nat.mul_le_mul_right _ (by omega)
    rw [Nat.add_mul] at h1
    have : k = 0 ∨ k = 1 ∨ k = 2 ∨ k = 3 := by omega
    rcases this with rfl | rfl | rfl | rfl <;> omega

/-- `_restore_byte_order(_shuffle_byte_order(a, w, h), w, h) = a` for `4*w*h` bytes, `w > 0`. -/
theorem shuffleArr_roundtrip (w h : Nat) (a : Array UInt8) (hw : 0 < w) (ha : a.size = 4 * w * h) :
    ∃ b, shuffle a w h = .ok b ∧ b.size = a.size ∧ restore b w h = .ok a := by
  have hw' : w ≠ 0 := by omega
  have hord : shuffledOrder w h = .ok (order w h) := by simp [shuffledOrder, hw', order]
  obtain ⟨b, hb1, hb2, _, hb4⟩ := scatterAux_spec a (4 * w * h) (order w h) 0 a ha (order_lt w h)
    (by rw [order_length]; omega) (order_nodup w h)
  obtain ⟨r, hr1, hr2, _, hr4⟩ := gatherAux_spec b (order w h) 0 b
    (by rw [hb2]; exact order_lt w h) (by rw [order_length]; omega)
  refine ⟨b, ?_, by omega, ?_⟩
  · simp only [shuffle, hord]; exact hb1
  · simp only [restore, hord]
    rw [hr1]
    congr 1
    apply Array.ext_getElem?
    intro t
    by_cases ht : t < (order w h).length
    · have e1 := hr4 t ht
      have e2 := hb4 t ht
      simp only [Nat.zero_add] at e1 e2
      rw [e1, e2]
    · rw [order_length] at ht
      rw [Array.getElem?_eq_none (by omega), Array.getElem?_eq_none (by omega)]

end PsdVerif.Compression
