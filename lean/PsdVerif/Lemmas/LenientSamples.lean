/-
C02 — concrete accepted byte strings: the non-vacuity witness (a 3-layer PSD whose layer-info length field
was enlarged by 2) and the one accepted shape whose re-save is not stable (a 35-byte layer mask block holding
both feathers). Both are replayed on the real code by harness/props/C02.py (harness/corpus/C02.json holds the
same bytes).
-/
import PsdVerif.Lemmas.CodecSamples

namespace PsdVerif.Psd.Samples
open PsdVerif PsdVerif.Codec PsdVerif.Psd

def patch (bs : B) (off : Nat) (new : B) : B := bs.take off ++ new ++ bs.drop (off + new.length)

def layerRec (name : B) (len : Nat) : LayerRecord :=
  ⟨0, 0, 1, 1, [⟨0, len⟩], s8BIM, kNorm, 255, 0, flagsDefault, none, rangesDefault, name, []⟩

def threeLayers : LayerInfo :=
  ⟨3, some [layerRec [97] 3, layerRec [98, 99] 4, layerRec [] 2], some [[⟨0, [7]⟩], [⟨1, [0, 8]⟩], [⟨0, []⟩]]⟩

/-- a 1×1 RGB document with three layers, a default global layer mask info and no global tagged blocks -/
def threeLayerDoc : PSD := mk ⟨some threeLayers, some glmDefault, some []⟩ img20

/-- offset of the layer-info length field: header 26 + colour mode 4 + resources 4 + section length 4 -/
def liLenOff : Nat := 38

/-- the same file with the layer-info length field enlarged by 2 (nothing else changed): the reader seeks to the
declared end, 2 bytes into the global layer mask info; the 2 bytes left in the section are not enough for one -/
def enlargedBytes : B :=
  patch (threeLayerDoc.encT 4) liLenOff (beBytes 4 ((threeLayers.bodyT 1 4).length + 2))

/-- what the reader returns for it -/
def enlargedRead : PSD := mk ⟨some threeLayers, none, some []⟩ img20

/-! ### the 35-byte mask block -/

/-- flags = parameters_applied; user mask feather and vector mask feather, no densities, no real fields:
18 + 1 + 8 + 8 = 35 bytes -/
def m35 : MaskData := ⟨0, 0, 0, 0, 0, Flags8.ofNat 16, some ⟨none, some 1, none, some 2⟩, none⟩

def r35 : LayerRecord := ⟨0, 0, 0, 0, [⟨0, 5⟩], s8BIM, kNorm, 255, 0, flagsDefault, some m35, ⟨none, none⟩, [], []⟩

/-- the extra block of the record with the mask written as a 35-byte block (no filler) -/
def extra35 : B := beBytes 4 35 ++ m35.unpaddedT ++ (⟨none, none⟩ : BlendingRanges).encT ++ pascalT 4 []

def rec35 : B :=
  i32T 0 ++ i32T 0 ++ i32T 0 ++ i32T 0 ++ beBytes 2 1 ++ ChannelInfo.encT 1 ⟨0, 5⟩ ++ r35.fixedT ++
  beBytes 1 r35.flags.toNat ++ lenBlockT 1 4 1 extra35

def li35 : B := lenBlockT 0 4 1 (i16T 1 ++ rec35 ++ (beBytes 2 0 ++ [1, 2, 3]))

def b35 : B :=
  hdr1.encT ++ colorModeT [] ++ resourcesT [] ++ lenBlockT 0 4 1 (li35 ++ glmDefault.encT) ++ img20.encT

def v35 : PSD := mk ⟨some ⟨1, some [r35], some [[⟨0, [1, 2, 3]⟩]]⟩, some glmDefault, some []⟩ img20

end PsdVerif.Psd.Samples
