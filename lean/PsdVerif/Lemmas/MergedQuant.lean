/-
Quantisation lemmas for C17 (`Model/MergedPixels.lean`): `np.round` (half to even) moves a value by at
most one half and is monotone; the code written for a sample is monotone, 0 ↦ 0, 1 ↦ scale, at most
`scale`, within half a step of the value; flattening stays in the unit interval.
-/
import PsdVerif.Model.MergedPixels
import PsdVerif.Lemmas.CompositeTree
import Mathlib.Tactic.Linarith
import Mathlib.Tactic.Ring
import Mathlib.Tactic.NormNum
import Mathlib.Tactic.Positivity
import Mathlib.Tactic.FieldSimp
import Mathlib.Algebra.Order.Field.Rat

namespace PsdVerif.MergedPixels
open PsdVerif PsdVerif.Composite

theorem floor_le' (q : Rat) : ((q.floor : Int) : Rat) ≤ q := Rat.floor_le q
theorem lt_floor' (q : Rat) : q < ((q.floor : Int) : Rat) + 1 := by
  have := Rat.lt_floor_add_one q
  push_cast at this
  exact this

/-- `np.round` moves a value by at most one half -/
theorem roundHalfEven_bounds (q : Rat) :
    ((roundHalfEven q : Int) : Rat) - q ≤ 1 / 2 ∧ q - ((roundHalfEven q : Int) : Rat) ≤ 1 / 2 := by
  have h1 := floor_le' q
  have h2 := lt_floor' q
  unfold roundHalfEven
  simp only
  split
  · constructor <;> linarith
  · split
    · push_cast; constructor <;> linarith
    · have : q - (q.floor : Rat) = 1 / 2 := by
        rename_i a b; exact le_antisymm (not_lt.1 b) (not_lt.1 a)
      split
      · constructor <;> linarith
      · push_cast; constructor <;> linarith

theorem roundHalfEven_floor_le (q : Rat) : q.floor ≤ roundHalfEven q ∧ roundHalfEven q ≤ q.floor + 1 := by
  unfold roundHalfEven
  simp only
  split
  · omega
  · split
    · omega
    · split <;> omega

theorem roundHalfEven_mono {a b : Rat} (h : a ≤ b) : roundHalfEven a ≤ roundHalfEven b := by
  have hf := Rat.floor_monotone h
  rcases Int.lt_or_eq_of_le hf with hlt | heq
  · have := (roundHalfEven_floor_le a).2
    have := (roundHalfEven_floor_le b).1
    omega
  · unfold roundHalfEven
    simp only
    rw [heq]
    have hr : a - (b.floor : Rat) ≤ b - (b.floor : Rat) := by linarith
    repeat' split
    all_goals first | omega | (exfalso; linarith)

theorem roundHalfEven_intCast (n : Int) : roundHalfEven (n : Rat) = n := by
  unfold roundHalfEven
  simp only [Rat.floor_intCast]
  have : (n : Rat) - (n : Rat) < 1 / 2 := by norm_num
  simp


theorem clip_mono {a b : Rat} (h : a ≤ b) : clip a ≤ clip b := by
  unfold clip
  repeat' split
  all_goals linarith

theorem roundHalfEven_nonneg {q : Rat} (h : 0 ≤ q) : 0 ≤ roundHalfEven q := by
  have := roundHalfEven_mono h
  rwa [show (0 : Rat) = ((0 : Int) : Rat) by norm_num, roundHalfEven_intCast] at this

theorem scaled_nonneg (s : Nat) (v : Rat) : 0 ≤ clip v * (s : Rat) :=
  mul_nonneg (clip_unit v).1 (by positivity)

/-- the code as a rational: the rounded value itself (no truncation by `toNat`) -/
theorem code_cast (s : Nat) (v : Rat) : ((code s v : Nat) : Rat) = ((roundHalfEven (clip v * (s : Rat)) : Int) : Rat) := by
  unfold code
  have h := roundHalfEven_nonneg (scaled_nonneg s v)
  have e := Int.toNat_of_nonneg h
  have : ((Int.toNat (roundHalfEven (clip v * (s : Rat))) : Nat) : Rat)
      = (((Int.toNat (roundHalfEven (clip v * (s : Rat))) : Nat) : Int) : Rat) := (Int.cast_natCast _).symm
  rw [this, e]

theorem code_zero (s : Nat) : code s 0 = 0 := by
  unfold code
  have : clip 0 * (s : Rat) = ((0 : Int) : Rat) := by simp [clip]
  rw [this, roundHalfEven_intCast]; rfl

theorem code_one (s : Nat) : code s 1 = s := by
  unfold code
  have : clip 1 * (s : Rat) = (((s : Nat) : Int) : Rat) := by simp [clip]
  rw [this, roundHalfEven_intCast]; simp

theorem code_mono (s : Nat) {v w : Rat} (h : v ≤ w) : code s v ≤ code s w := by
  unfold code
  apply Int.toNat_le_toNat
  apply roundHalfEven_mono
  exact mul_le_mul_of_nonneg_right (clip_mono h) (by positivity)

theorem code_le (s : Nat) (v : Rat) : code s v ≤ s := by
  have h : code s v ≤ code s 1 := by
    unfold code
    apply Int.toNat_le_toNat
    apply roundHalfEven_mono
    have : clip 1 = 1 := by simp [clip]
    rw [this]
    exact mul_le_mul_of_nonneg_right (clip_unit v).2 (by positivity)
  rwa [code_one] at h

/-- the stored value is within half a step of the real value -/
theorem code_error (s : Nat) (hs : 0 < s) {v : Rat} (hv : Unit01 v) :
    decode s (code s v) - v ≤ 1 / (2 * (s : Rat)) ∧ v - decode s (code s v) ≤ 1 / (2 * (s : Rat)) := by
  have hb := roundHalfEven_bounds (clip v * (s : Rat))
  rw [clip_id hv] at hb
  unfold decode
  rw [code_cast, clip_id hv]
  have hs' : (0 : Rat) < (s : Rat) := by exact_mod_cast hs
  constructor
  · rw [div_sub' (ne_of_gt hs'), div_le_div_iff₀ hs' (by positivity)]
    nlinarith [hb.1]
  · rw [sub_div' (ne_of_gt hs'), div_le_div_iff₀ hs' (by positivity)]
    nlinarith [hb.2]

theorem flatten_unit {c a : Rat} (hc : Unit01 c) (ha : Unit01 a) : Unit01 (flatten c a) := by
  obtain ⟨c0, c1⟩ := hc; obtain ⟨a0, a1⟩ := ha
  unfold flatten Unit01
  constructor <;> nlinarith [mul_nonneg c0 a0, mul_nonneg (sub_nonneg.2 c1) a0]

end PsdVerif.MergedPixels
