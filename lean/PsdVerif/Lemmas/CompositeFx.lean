/-
Effect-carrying trees (`Model/CompositeFx.lean`): well-formedness, the sources a layer hands to
`_apply_source` as a list, and the range invariants (`Inv`, `XInv`) through the whole recursion.
-/
import PsdVerif.Model.CompositeFx
import PsdVerif.Lemmas.CompositeSpec

namespace PsdVerif.Composite

/-! ### well-formed data -/

structure OverlayOk (e : Overlay) : Prop where
  color : ColorOk e.color
  shape : Unit01 e.shape
  opacity : Unit01 e.opacity

structure StrokeFxOk (s : StrokeFx) : Prop where
  color : ColorOk s.color
  shape : ∀ V, Unit01 (s.shape V)
  opacity : Unit01 s.opacity

structure VStrokeOk (s : VStroke) : Prop where
  color : ColorOk s.color
  shape : Unit01 s.shape
  opacity : Unit01 s.opacity

structure FxOk (fx : Fx) : Prop where
  vmValue : Unit01 fx.vmValue
  overlays : ∀ e ∈ fx.overlays, OverlayOk e
  strokeFx : ∀ s ∈ fx.strokeFx, StrokeFxOk s

structure ObjSrcOk (src : ObjSrc) : Prop where
  pixColor : ColorOk src.pixColor
  pixShape : Unit01 src.pixShape
  fillColor : ColorOk src.fillColor
  fillShape : Unit01 src.fillShape

def optStrokeOk : Option VStroke → Prop
  | none => True
  | some s => VStrokeOk s

mutual
/-- well-formed effect-carrying layer data at the pixel: every stored value is in the unit interval -/
def fxNodeOk : FxNode → Prop
  | .leaf pr fx src stroke clips => PropsOk pr ∧ FxOk fx ∧ ObjSrcOk src ∧ optStrokeOk stroke ∧ fxListOk clips
  | .group pr fx _ children clips => PropsOk pr ∧ FxOk fx ∧ fxListOk children ∧ fxListOk clips
  | .adjustment _ => True
def fxListOk : List FxNode → Prop
  | [] => True
  | n :: ns => fxNodeOk n ∧ fxListOk ns
end

theorem black_ok : ColorOk black := fun _ => ⟨le_refl _, by norm_num [black]⟩

theorem fxPlain_ok (hp : Bool) : FxOk (Fx.plain hp) :=
  ⟨unit01_one, fun e he => by simp [Fx.plain] at he, fun s hs => by simp [Fx.plain] at hs⟩

/-! ### a layer's sources as a list -/

/-- one call of `_apply_source` -/
structure PSrc where
  mode : Mode
  color : Color
  shape : Rat
  alpha : Rat
  ko : Bool

def PSrc.Ok (s : PSrc) : Prop := SrcOk s.color s.shape s.alpha

def applySrcs (B : Mode → Color → Color → Color) (st : PState) : List PSrc → PState
  | [] => st
  | s :: ss => applySrcs B (applySource (B s.mode) st s.color s.shape s.alpha s.ko) ss

theorem applySrcs_append (B : Mode → Color → Color → Color) (st : PState) (a b : List PSrc) :
    applySrcs B st (a ++ b) = applySrcs B (applySrcs B st a) b := by
  induction a generalizing st with
  | nil => rfl
  | cons s a ih => simp only [List.cons_append, applySrcs]; exact ih _

def overlaySrc (V bbox : Rect) (x y : Int) (shape alpha : Rat) (e : Overlay) : PSrc :=
  { mode := e.mode, color := pasteAt V bbox x y e.color white, shape := shape * overlayShape V bbox x y e,
    alpha := alpha * overlayShape V bbox x y e * e.opacity, ko := false }

def strokeFxSrc (V bbox : Rect) (x y : Int) (lop : Rat) (s : StrokeFx) : PSrc :=
  { mode := s.mode, color := pasteAt V bbox x y s.color black, shape := pasteAt V bbox x y (s.shape V) 0,
    alpha := pasteAt V bbox x y (s.shape V) 0 * (s.opacity * lop), ko := false }

theorem applyOverlays_eq (B : Mode → Color → Color → Color) (V bbox : Rect) (x y : Int) (shape alpha : Rat) (st : PState)
    (es : List Overlay) :
    applyOverlays B V bbox x y shape alpha st es = applySrcs B st (es.map (overlaySrc V bbox x y shape alpha)) := by
  induction es generalizing st with
  | nil => rfl
  | cons e es ih => simp only [applyOverlays, List.map_cons, applySrcs, overlaySrc]; exact ih _

theorem applyStrokeFx_eq (B : Mode → Color → Color → Color) (V bbox : Rect) (x y : Int) (lop : Rat) (st : PState)
    (ss : List StrokeFx) :
    applyStrokeFx B V bbox x y lop st ss = applySrcs B st (ss.map (strokeFxSrc V bbox x y lop)) := by
  induction ss generalizing st with
  | nil => rfl
  | cons s ss ih => simp only [applyStrokeFx, List.map_cons, applySrcs, strokeFxSrc]; exact ih _

/-- the layer's shape and alpha after masks and layer opacity, before fill opacity: what the overlays are painted with -/
def maskedShape (force : Bool) (V : Rect) (x y : Int) (pr : Props) (fx : Fx) (shape : Rat) : Rat :=
  shape * (maskFactorsFx force pr fx V x y).1

def maskedAlpha (force : Bool) (V : Rect) (x y : Int) (pr : Props) (fx : Fx) (alpha : Rat) : Rat :=
  alpha * ((maskFactorsFx force pr fx V x y).1 * (maskFactorsFx force pr fx V x y).2 * pr.opacity)

/-- the layer's own source -/
def ownSrc (force : Bool) (V : Rect) (x y : Int) (pr : Props) (fx : Fx) (color : Color) (shape alpha : Rat) : PSrc :=
  { mode := pr.mode, color := color, shape := maskedShape force V x y pr fx shape * pr.fill,
    alpha := maskedAlpha force V x y pr fx alpha * pr.fill, ko := pr.knockout }

/-- the sources after the layer's own: one per overlay effect, one per stroke effect -/
def fxSrcs (force : Bool) (V : Rect) (x y : Int) (pr : Props) (fx : Fx) (shape alpha : Rat) : List PSrc :=
  fx.overlays.map (overlaySrc V pr.bbox x y (maskedShape force V x y pr fx shape) (maskedAlpha force V x y pr fx alpha))
    ++ fx.strokeFx.map (strokeFxSrc V pr.bbox x y pr.opacity)

/-- **`finishFx` is the layer's own source followed by one ordinary source per effect.** -/
theorem finishFx_eq (B : Mode → Color → Color → Color) (force : Bool) (V : Rect) (x y : Int) (st : PState) (pr : Props)
    (fx : Fx) (color : Color) (shape alpha : Rat) :
    finishFx B force V x y st pr fx color shape alpha
      = applySrcs B st (ownSrc force V x y pr fx color shape alpha :: fxSrcs force V x y pr fx shape alpha) := by
  unfold finishFx fxSrcs
  simp only [applyStrokeFx_eq, applyOverlays_eq, applySrcs, applySrcs_append, ownSrc, maskedShape, maskedAlpha]

/-! ### admissible sources -/

theorem vmaskFactor_unit (force : Bool) {fx : Fx} (h : FxOk fx) (V : Rect) (x y : Int) : Unit01 (vmaskFactor force fx V x y) := by
  unfold vmaskFactor; split
  · exact pasteAt_unit h.vmValue unit01_zero
  · exact unit01_one

theorem maskFactorsFx_unit (force : Bool) {pr : Props} {fx : Fx} (hp : PropsOk pr) (hf : FxOk fx) (V : Rect) (x y : Int) :
    Unit01 (maskFactorsFx force pr fx V x y).1 ∧ Unit01 (maskFactorsFx force pr fx V x y).2 := by
  obtain ⟨m1, m2⟩ := maskFactors_unit hp V x y
  exact ⟨unit01_mul m1 (vmaskFactor_unit force hf V x y), m2⟩

/-- masked shape and alpha: `0 ≤ alpha' ≤ shape' ≤ 1` -/
theorem masked_bounds (force : Bool) {pr : Props} {fx : Fx} (hp : PropsOk pr) (hf : FxOk fx) (V : Rect) (x y : Int)
    {shape alpha : Rat} (ha0 : 0 ≤ alpha) (has : alpha ≤ shape) (hs1 : shape ≤ 1) :
    0 ≤ maskedAlpha force V x y pr fx alpha ∧ maskedAlpha force V x y pr fx alpha ≤ maskedShape force V x y pr fx shape ∧
      maskedShape force V x y pr fx shape ≤ 1 := by
  obtain ⟨⟨m0, m1⟩, ⟨d0, d1⟩⟩ := maskFactorsFx_unit force hp hf V x y
  obtain ⟨o0, o1⟩ := hp.opacity
  unfold maskedAlpha maskedShape
  generalize (maskFactorsFx force pr fx V x y).1 = m at m0 m1
  generalize (maskFactorsFx force pr fx V x y).2 = d at d0 d1
  have hs0 : 0 ≤ shape := le_trans ha0 has
  have hdo : d * pr.opacity ≤ 1 := by
    have := mul_le_mul d1 o1 o0 (by norm_num : (0:Rat) ≤ 1); linarith
  refine ⟨mul_nonneg ha0 (mul_nonneg (mul_nonneg m0 d0) o0), ?_, ?_⟩
  · have e : alpha * (m * d * pr.opacity) = (alpha * (d * pr.opacity)) * m := by ring
    rw [e]
    apply mul_le_mul_of_nonneg_right _ m0
    calc alpha * (d * pr.opacity) ≤ alpha * 1 := mul_le_mul_of_nonneg_left hdo ha0
      _ = alpha := mul_one _
      _ ≤ shape := has
  · exact (unit01_mul ⟨hs0, hs1⟩ ⟨m0, m1⟩).2

theorem ownSrc_ok (force : Bool) {pr : Props} {fx : Fx} (hp : PropsOk pr) (hf : FxOk fx) (V : Rect) (x y : Int)
    {color : Color} {shape alpha : Rat} (hc : ColorOk color) (ha0 : 0 ≤ alpha) (has : alpha ≤ shape) (hs1 : shape ≤ 1) :
    (ownSrc force V x y pr fx color shape alpha).Ok := by
  obtain ⟨b0, b1, b2⟩ := masked_bounds force hp hf V x y ha0 has hs1
  obtain ⟨f0, f1⟩ := hp.fill
  refine ⟨mul_nonneg b0 f0, mul_le_mul_of_nonneg_right b1 f0, ?_, hc⟩
  exact (unit01_mul ⟨le_trans b0 b1, b2⟩ ⟨f0, f1⟩).2

theorem overlayShape_unit {e : Overlay} (h : OverlayOk e) (V bbox : Rect) (x y : Int) : Unit01 (overlayShape V bbox x y e) := by
  unfold overlayShape; split
  · exact pasteAt_unit h.shape unit01_zero
  · exact unit01_one

theorem overlaySrc_ok {e : Overlay} (h : OverlayOk e) (V bbox : Rect) (x y : Int) {shape alpha : Rat}
    (ha0 : 0 ≤ alpha) (has : alpha ≤ shape) (hs1 : shape ≤ 1) : (overlaySrc V bbox x y shape alpha e).Ok := by
  obtain ⟨s0, s1⟩ := overlayShape_unit h V bbox x y
  obtain ⟨o0, o1⟩ := h.opacity
  refine ⟨mul_nonneg (mul_nonneg ha0 s0) o0, ?_, ?_, pasteAt_color h.color white_ok⟩
  · show alpha * overlayShape V bbox x y e * e.opacity ≤ shape * overlayShape V bbox x y e
    calc alpha * overlayShape V bbox x y e * e.opacity ≤ alpha * overlayShape V bbox x y e * 1 :=
          mul_le_mul_of_nonneg_left o1 (mul_nonneg ha0 s0)
      _ = alpha * overlayShape V bbox x y e := mul_one _
      _ ≤ shape * overlayShape V bbox x y e := mul_le_mul_of_nonneg_right has s0
  · exact (unit01_mul ⟨le_trans ha0 has, hs1⟩ ⟨s0, s1⟩).2

theorem strokeFxSrc_ok {s : StrokeFx} (h : StrokeFxOk s) (V bbox : Rect) (x y : Int) {lop : Rat} (hl : Unit01 lop) :
    (strokeFxSrc V bbox x y lop s).Ok := by
  obtain ⟨s0, s1⟩ := pasteAt_unit (V := V) (b := bbox) (x := x) (y := y) (h.shape V) unit01_zero
  obtain ⟨o0, o1⟩ := unit01_mul h.opacity hl
  refine ⟨mul_nonneg s0 o0, ?_, s1, pasteAt_color h.color black_ok⟩
  show pasteAt V bbox x y (s.shape V) 0 * (s.opacity * lop) ≤ pasteAt V bbox x y (s.shape V) 0
  calc pasteAt V bbox x y (s.shape V) 0 * (s.opacity * lop) ≤ pasteAt V bbox x y (s.shape V) 0 * 1 :=
        mul_le_mul_of_nonneg_left o1 s0
    _ = _ := mul_one _

theorem fxSrcs_ok (force : Bool) {pr : Props} {fx : Fx} (hp : PropsOk pr) (hf : FxOk fx) (V : Rect) (x y : Int)
    {shape alpha : Rat} (ha0 : 0 ≤ alpha) (has : alpha ≤ shape) (hs1 : shape ≤ 1) :
    ∀ s ∈ fxSrcs force V x y pr fx shape alpha, s.Ok := by
  obtain ⟨b0, b1, b2⟩ := masked_bounds force hp hf V x y ha0 has hs1
  intro s hs
  unfold fxSrcs at hs
  rcases List.mem_append.1 hs with h | h
  · obtain ⟨e, he, rfl⟩ := List.mem_map.1 h
    exact overlaySrc_ok (hf.overlays e he) V pr.bbox x y b0 b1 b2
  · obtain ⟨t, ht, rfl⟩ := List.mem_map.1 h
    exact strokeFxSrc_ok (hf.strokeFx t ht) V pr.bbox x y hp.opacity

/-! ### invariants through a list of sources -/

theorem applySrcs_inv {B : Mode → Color → Color → Color} {st : PState} (h : Inv st) (ss : List PSrc) (hs : ∀ s ∈ ss, s.Ok) :
    Inv (applySrcs B st ss) := by
  induction ss generalizing st with
  | nil => exact h
  | cons s ss ih =>
    exact ih (applySource_inv h (hs s (List.mem_cons_self ..)) s.ko) (fun t ht => hs t (List.mem_cons_of_mem _ ht))

theorem applySrcs_xinv {B : Mode → Color → Color → Color} (hB : BOk B) {st : PState} (h : Inv st) (hx : XInv st)
    (ss : List PSrc) (hs : ∀ s ∈ ss, s.Ok) : XInv (applySrcs B st ss) := by
  induction ss generalizing st with
  | nil => exact hx
  | cons s ss ih =>
    have h1 := hs s (List.mem_cons_self ..)
    exact ih (applySource_inv h h1 s.ko) (applySource_xinv h hx h1 (hB s.mode) s.ko) (fun t ht => hs t (List.mem_cons_of_mem _ ht))

theorem applySrcs_a0 (B : Mode → Color → Color → Color) (st : PState) (ss : List PSrc) :
    (applySrcs B st ss).a0 = st.a0 ∧ (applySrcs B st ss).c0 = st.c0 := by
  induction ss generalizing st with
  | nil => exact ⟨rfl, rfl⟩
  | cons s ss ih => simp only [applySrcs]; rw [(ih _).1, (ih _).2]; exact ⟨rfl, rfl⟩

theorem finishFx_inv {B : Mode → Color → Color → Color} (force : Bool) {pr : Props} {fx : Fx} (hp : PropsOk pr) (hf : FxOk fx)
    (V : Rect) (x y : Int) {st : PState} (hst : Inv st) {color : Color} {shape alpha : Rat}
    (hc : ColorOk color) (ha0 : 0 ≤ alpha) (has : alpha ≤ shape) (hs1 : shape ≤ 1) :
    Inv (finishFx B force V x y st pr fx color shape alpha) := by
  rw [finishFx_eq]
  apply applySrcs_inv hst
  intro s hs
  rcases List.mem_cons.1 hs with rfl | h
  · exact ownSrc_ok force hp hf V x y hc ha0 has hs1
  · exact fxSrcs_ok force hp hf V x y ha0 has hs1 s h

theorem finishFx_xinv {B : Mode → Color → Color → Color} (hB : BOk B) (force : Bool) {pr : Props} {fx : Fx} (hp : PropsOk pr)
    (hf : FxOk fx) (V : Rect) (x y : Int) {st : PState} (hst : Inv st) (hx : XInv st) {color : Color} {shape alpha : Rat}
    (hc : ColorOk color) (ha0 : 0 ≤ alpha) (has : alpha ≤ shape) (hs1 : shape ≤ 1) :
    XInv (finishFx B force V x y st pr fx color shape alpha) := by
  rw [finishFx_eq]
  apply applySrcs_xinv hB hst hx
  intro s hs
  rcases List.mem_cons.1 hs with rfl | h
  · exact ownSrc_ok force hp hf V x y hc ha0 has hs1
  · exact fxSrcs_ok force hp hf V x y ha0 has hs1 s h

theorem finishFx_a0 (B : Mode → Color → Color → Color) (force : Bool) (V : Rect) (x y : Int) (st : PState) (pr : Props)
    (fx : Fx) (color : Color) (shape alpha : Rat) :
    (finishFx B force V x y st pr fx color shape alpha).a0 = st.a0 ∧
      (finishFx B force V x y st pr fx color shape alpha).c0 = st.c0 := by
  rw [finishFx_eq]; exact applySrcs_a0 B st _

/-! ### the object source -/

theorem leafColor_ok (force : Bool) (V : Rect) (x y : Int) (pr : Props) (fx : Fx) {src : ObjSrc} (h : ObjSrcOk src) :
    ColorOk (leafColor force V x y pr fx src) := by
  unfold leafColor; split
  · exact pasteAt_color h.fillColor white_ok
  · split
    · exact pasteAt_color h.pixColor white_ok
    · exact white_ok

theorem leafShape_unit (force : Bool) (V : Rect) (x y : Int) (pr : Props) (fx : Fx) {src : ObjSrc} (h : ObjSrcOk src) :
    Unit01 (leafShape force V x y pr fx src) := by
  unfold leafShape; split
  · exact pasteAt_unit h.fillShape unit01_zero
  · split
    · exact pasteAt_unit h.pixShape unit01_zero
    · exact unit01_zero

theorem strokeObject_ok (B : Mode → Color → Color → Color) (V : Rect) (x y : Int) {color : Color} (alpha : Rat)
    (hc : ColorOk color) (stroke : Option VStroke) : ColorOk (strokeObject B V x y color alpha stroke) := by
  cases stroke with
  | none => exact hc
  | some s => exact fun ch => clip_unit _

/-! ### the range invariant through effect-carrying trees -/

mutual
theorem applyFxNode_inv (B : Mode → Color → Color → Color) (force : Bool) (V : Rect) (x y : Int) (cc : Bool) (st : PState)
    (hst : Inv st) : (n : FxNode) → fxNodeOk n → Inv (applyFxNode B force V x y cc st n)
  | .adjustment _, _ => by unfold applyFxNode; exact hst
  | .leaf pr fx src stroke clips, hn => by
    obtain ⟨hp, hf, hsrc, _, hcl⟩ := hn
    unfold applyFxNode
    split; · exact hst
    split; · exact hst
    split; · exact hst
    have hc0 := leafColor_ok force V x y pr fx hsrc
    have hs0 := leafShape_unit force V x y pr fx hsrc
    apply finishFx_inv force hp hf V x y hst _ hs0.1 (le_refl _) hs0.2
    apply strokeObject_ok
    split
    · exact hc0
    · exact (applyFxClips_inv B force V x y _ (inv_init hc0 hs0 false) clips hcl).c
  | .group pr fx passThrough children clips, hn => by
    obtain ⟨hp, hf, hch, hcl⟩ := hn
    unfold applyFxNode
    split; · exact hst
    split; · exact hst
    split; · exact hst
    have hcb : ColorOk (if pr.knockout then st.c0 else st.c) := by split; exact hst.c0; exact hst.c
    have hab : Unit01 (if pr.knockout then st.a0 else st.a) := by split; exact hst.a0; exact hst.a
    have hsub := applyFxList_inv B force (intersect V pr.bbox) x y _ (inv_init hcb hab (!passThrough)) children hch
    simp only
    by_cases hin : (intersect V pr.bbox).contains x y = true
    · simp only [hin, if_true]
      apply finishFx_inv force hp hf V x y hst _ hsub.ag.1 hsub.ag_le hsub.sg.2
      split
      · exact fun ch => clip_unit _
      · exact (applyFxClips_inv B force V x y _ (inv_init (fun ch => clip_unit _) hsub.ag false) clips hcl).c
    · simp only [hin, Bool.false_eq_true, if_false]
      apply finishFx_inv force hp hf V x y hst _ (le_refl _) (le_refl _) (by norm_num)
      split
      · exact white_ok
      · exact (applyFxClips_inv B force V x y _ (inv_init white_ok unit01_zero false) clips hcl).c

theorem applyFxList_inv (B : Mode → Color → Color → Color) (force : Bool) (V : Rect) (x y : Int) (st : PState) (hst : Inv st) :
    (ns : List FxNode) → fxListOk ns → Inv (applyFxList B force V x y st ns)
  | [], _ => by unfold applyFxList; exact hst
  | n :: rest, h => by
    unfold applyFxList
    exact applyFxList_inv B force V x y _ (applyFxNode_inv B force V x y false st hst n h.1) rest h.2

theorem applyFxClips_inv (B : Mode → Color → Color → Color) (force : Bool) (V : Rect) (x y : Int) (st : PState) (hst : Inv st) :
    (ns : List FxNode) → fxListOk ns → Inv (applyFxClips B force V x y st ns)
  | [], _ => by unfold applyFxClips; exact hst
  | n :: rest, h => by
    unfold applyFxClips
    exact applyFxClips_inv B force V x y _ (applyFxNode_inv B force V x y true st hst n h.1) rest h.2
end

/-- the group-result invariant through one effect-carrying layer, whatever is below it -/
theorem applyFxNode_xinv {B : Mode → Color → Color → Color} (hB : BOk B) (force : Bool) (V : Rect) (x y : Int) (cc : Bool)
    (st : PState) (hst : Inv st) (hx : XInv st) : (n : FxNode) → fxNodeOk n → XInv (applyFxNode B force V x y cc st n)
  | .adjustment _, _ => by unfold applyFxNode; exact hx
  | .leaf pr fx src stroke clips, hn => by
    obtain ⟨hp, hf, hsrc, _, hcl⟩ := hn
    unfold applyFxNode
    split; · exact hx
    split; · exact hx
    split; · exact hx
    have hc0 := leafColor_ok force V x y pr fx hsrc
    have hs0 := leafShape_unit force V x y pr fx hsrc
    apply finishFx_xinv hB force hp hf V x y hst hx _ hs0.1 (le_refl _) hs0.2
    apply strokeObject_ok
    split
    · exact hc0
    · exact (applyFxClips_inv B force V x y _ (inv_init hc0 hs0 false) clips hcl).c
  | .group pr fx passThrough children clips, hn => by
    obtain ⟨hp, hf, hch, hcl⟩ := hn
    unfold applyFxNode
    split; · exact hx
    split; · exact hx
    split; · exact hx
    have hcb : ColorOk (if pr.knockout then st.c0 else st.c) := by split; exact hst.c0; exact hst.c
    have hab : Unit01 (if pr.knockout then st.a0 else st.a) := by split; exact hst.a0; exact hst.a
    have hsub := applyFxList_inv B force (intersect V pr.bbox) x y _ (inv_init hcb hab (!passThrough)) children hch
    simp only
    by_cases hin : (intersect V pr.bbox).contains x y = true
    · simp only [hin, if_true]
      apply finishFx_xinv hB force hp hf V x y hst hx _ hsub.ag.1 hsub.ag_le hsub.sg.2
      split
      · exact fun ch => clip_unit _
      · exact (applyFxClips_inv B force V x y _ (inv_init (fun ch => clip_unit _) hsub.ag false) clips hcl).c
    · simp only [hin, Bool.false_eq_true, if_false]
      apply finishFx_xinv hB force hp hf V x y hst hx _ (le_refl _) (le_refl _) (by norm_num)
      split
      · exact white_ok
      · exact (applyFxClips_inv B force V x y _ (inv_init white_ok unit01_zero false) clips hcl).c

theorem applyFxList_xinv {B : Mode → Color → Color → Color} (hB : BOk B) (force : Bool) (V : Rect) (x y : Int) (st : PState)
    (hst : Inv st) (hx : XInv st) (ns : List FxNode) (h : fxListOk ns) : XInv (applyFxList B force V x y st ns) := by
  induction ns generalizing st with
  | nil => unfold applyFxList; exact hx
  | cons n rest ih =>
    unfold applyFxList
    exact ih _ (applyFxNode_inv B force V x y false st hst n h.1) (applyFxNode_xinv hB force V x y false st hst hx n h.1) h.2

theorem applyFxClips_xinv {B : Mode → Color → Color → Color} (hB : BOk B) (force : Bool) (V : Rect) (x y : Int) (st : PState)
    (hst : Inv st) (hx : XInv st) (ns : List FxNode) (h : fxListOk ns) : XInv (applyFxClips B force V x y st ns) := by
  induction ns generalizing st with
  | nil => unfold applyFxClips; exact hx
  | cons n rest ih =>
    unfold applyFxClips
    exact ih _ (applyFxNode_inv B force V x y true st hst n h.1) (applyFxNode_xinv hB force V x y true st hst hx n h.1) h.2

/-! ### `a0`, `c0` are never touched -/

theorem applyFxNode_a0 (B : Mode → Color → Color → Color) (force : Bool) (V : Rect) (x y : Int) (cc : Bool) (st : PState) :
    (n : FxNode) → (applyFxNode B force V x y cc st n).a0 = st.a0 ∧ (applyFxNode B force V x y cc st n).c0 = st.c0
  | .adjustment _ => by unfold applyFxNode; exact ⟨rfl, rfl⟩
  | .leaf pr fx src stroke clips => by
    unfold applyFxNode
    split; · exact ⟨rfl, rfl⟩
    split; · exact ⟨rfl, rfl⟩
    split; · exact ⟨rfl, rfl⟩
    exact finishFx_a0 ..
  | .group pr fx passThrough children clips => by
    unfold applyFxNode
    split; · exact ⟨rfl, rfl⟩
    split; · exact ⟨rfl, rfl⟩
    split; · exact ⟨rfl, rfl⟩
    exact finishFx_a0 ..

theorem applyFxClips_a0 (B : Mode → Color → Color → Color) (force : Bool) (V : Rect) (x y : Int) (st : PState) (ns : List FxNode) :
    (applyFxClips B force V x y st ns).a0 = st.a0 := by
  induction ns generalizing st with
  | nil => unfold applyFxClips; rfl
  | cons n rest ih => unfold applyFxClips; rw [ih, (applyFxNode_a0 B force V x y true st n).1]

end PsdVerif.Composite
