/-
Layer-tree model: the statements about `step` and about histories, assembled from the
per-operation lemmas (used by Props/C09, C10, C14).
-/
import PsdVerif.Lemmas.TreeRefuse

namespace PsdVerif.TreeSt

theorem inv_empty (limit : Nat) : Inv (State.empty limit) where
  live := by intro c x hx; cases hx
  contOnly := by intro c h; exact absurd rfl h
  layerOnly := by intro c x hx; cases hx
  parentOk := by intro c x hx; cases hx
  psdOk := by intro c x d hx; cases hx
  nodup := by intro c; exact List.nodup_nil
  acyclic := ⟨fun _ => 0, by intro c x hx; cases hx⟩

/-- on a well-formed store "listed nowhere" only has to be checked for the live containers -/
theorem detached_of_bounded {s : State} {x : Id} (i : Inv s) (h : ∀ c, c < s.next → x ∉ s.children c) :
    Detached s x := fun c hc => h c (i.live c x hc).1 hc

theorem inv_step (s : State) (op : Op) (i : Inv s) (hg : Guard s op)
    (hne : (step .current s op).2 ≠ .error .recursionError) : Inv (step .current s op).1 := by
  have hself : Cfg.current.itemSelfCheck = true := rfl
  cases op with
  | append g x =>
    simp only [step, Op.target] at hne ⊢
    split
    · exact i
    · rename_i h; rw [if_neg h] at hne
      exact inv_opAppend i hself g x (by simpa using h) hg hne
  | extend g xs =>
    simp only [step, Op.target] at hne ⊢
    split
    · exact i
    · rename_i h; rw [if_neg h] at hne
      exact inv_opExtend i hself g xs (by simpa using h) hg.1 hg.2 hne
  | insert g k x =>
    simp only [step, Op.target] at hne ⊢
    split
    · exact i
    · rename_i h; rw [if_neg h] at hne
      exact inv_opInsert i hself g k x (by simpa using h) hg hne
  | remove g x =>
    simp only [step, Op.target]
    split
    · exact i
    · exact inv_opRemove i g x
  | pop g k =>
    simp only [step, Op.target]
    split
    · exact i
    · exact inv_opPop i g k
  | clear g =>
    simp only [step, Op.target]
    split
    · exact i
    · exact inv_opClear i g
  | setitem g k x =>
    simp only [step, Op.target] at hne ⊢
    split
    · exact i
    · rename_i h; rw [if_neg h] at hne
      exact inv_opSetitem i hself g k x (by simpa using h) hg hne
  | setslice g a b xs =>
    simp only [step, Op.target] at hne ⊢
    split
    · exact i
    · rename_i h; rw [if_neg h] at hne
      exact inv_opSetslice i hself g a b xs (by simpa using h) hg.1 hg.2 hne
  | delitem g k =>
    simp only [step, Op.target]
    split
    · exact i
    · exact inv_opDelitem i g k
  | delslice g a b =>
    simp only [step, Op.target]
    split
    · exact i
    · exact inv_opDelslice i g a b
  | deleteLayer x => exact inv_opDeleteLayer i x
  | moveToGroup x g => exact inv_opMoveToGroup i hself x g hne
  | moveUp x k => exact inv_opMoveUp i hself x k hne
  | moveDown x k => exact inv_opMoveUp i hself x (-k) hne
  | newGroup p => exact inv_opNewGroup i hself p hne
  | groupLayers xs p => exact inv_opGroupLayers i hself rfl xs p hne
  | newLayer p bx => exact inv_alloc i _ _ _
  | newDoc bx => exact inv_alloc i _ _ _
  | setVisible x v => exact inv_opSetVisible i x v
  | setLeft x v => exact inv_opSetOffset i x true v
  | setTop x v => exact inv_opSetOffset i x false v
  | setAttr x =>
    simp only [step, Op.target]
    split <;> exact i
  | setBlocks x ks =>
    simp only [step, Op.target]
    split
    · exact i
    · exact (sameTree_blocks s _).inv i
  | observe o => exact (observe_same s o).inv i


/-- a history all of whose steps satisfy the guard and stay below the recursion limit -/
def Guarded (cfg : Cfg) : State → List Op → Prop
  | _, [] => True
  | s, op :: ops => Guard s op ∧ (step cfg s op).2 ≠ .error .recursionError ∧ Guarded cfg (step cfg s op).1 ops

theorem inv_run (s : State) (ops : List Op) (i : Inv s) (h : Guarded .current s ops) :
    Inv (runState .current s ops) := by
  induction ops generalizing s with
  | nil => exact i
  | cons op ops ih =>
    obtain ⟨hg, hne, hrest⟩ := h
    exact ih _ (inv_step s op i hg hne) hrest

theorem step_ref (s : State) (op : Op) (e : Err) (i : Inv s)
    (h : (step .current s op).2 = .error e) (hne : e ≠ .recursionError) : SameTree s (step .current s op).1 := by
  have hself : Cfg.current.itemSelfCheck = true := rfl
  revert h
  cases op with
  | append g x =>
    simp only [step, Op.target]; split
    · exact fun _ => SameTree.refl s
    · exact fun h => opAppend_ref _ s g x e h hne
  | extend g xs =>
    simp only [step, Op.target]; split
    · exact fun _ => SameTree.refl s
    · exact fun h => opExtend_ref _ s g xs e h hne
  | insert g k x =>
    simp only [step, Op.target]; split
    · exact fun _ => SameTree.refl s
    · exact fun h => opInsert_ref _ s g k x e h hne
  | remove g x =>
    simp only [step, Op.target]; split
    · exact fun _ => SameTree.refl s
    · exact fun h => opRemove_ref _ s g x e h hne
  | pop g k =>
    simp only [step, Op.target]; split
    · exact fun _ => SameTree.refl s
    · exact fun h => opPop_ref _ s g k e h hne
  | clear g =>
    simp only [step, Op.target]; split
    · exact fun _ => SameTree.refl s
    · intro h; simp [opClear, finishRemove] at h
  | setitem g k x =>
    simp only [step, Op.target]; split
    · exact fun _ => SameTree.refl s
    · exact fun h => opSetitem_ref _ s g k x e h hne
  | setslice g a b xs =>
    simp only [step, Op.target]; split
    · exact fun _ => SameTree.refl s
    · exact fun h => opSetslice_ref _ s g a b xs e h hne
  | delitem g k =>
    simp only [step, Op.target]; split
    · exact fun _ => SameTree.refl s
    · exact fun h => opDelitem_ref _ s g k e h hne
  | delslice g a b =>
    simp only [step, Op.target]; split
    · exact fun _ => SameTree.refl s
    · intro h; simp [opDelslice, finishRemove] at h
  | deleteLayer x => exact fun h => opDeleteLayer_ref x e h hne
  | moveToGroup x g => exact fun h => opMoveToGroup_ref i x g e h hne
  | moveUp x k => exact fun h => opMoveUp_ref i x k e h hne
  | moveDown x k => exact fun h => opMoveUp_ref i x (-k) e h hne
  | newGroup p => exact fun h => opNewGroup_ref i p e h hne
  | groupLayers xs p => exact fun h => opGroupLayers_ref i hself rfl xs p e h hne
  | newLayer p bx => intro h; simp [step, Op.target] at h
  | newDoc bx => intro h; simp [step, Op.target] at h
  | setVisible x v => exact fun h => opSetVisible_ref _ s x v e h hne
  | setLeft x v => exact fun h => opSetOffset_ref _ s x true v e h hne
  | setTop x v => exact fun h => opSetOffset_ref _ s x false v e h hne
  | setAttr x =>
    simp only [step, Op.target]
    split <;> exact fun _ => SameTree.refl s
  | setBlocks x ks =>
    simp only [step, Op.target]
    split
    · exact fun _ => SameTree.refl s
    · exact fun _ => sameTree_blocks s _
  | observe o => exact fun _ => observe_same s o


end PsdVerif.TreeSt
