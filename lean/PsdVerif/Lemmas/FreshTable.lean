/-
C14 — the table-interpreting machine (`Model/FreshState.lean`) keeps well-formed trees with fresh caches
when every segment of the table is covered. The four covered block shapes are shown to compute exactly the
states of the primitives whose freshness was proved in `Lemmas/TreeFreshPrim.lean`.
-/
import PsdVerif.Lemmas.TreeFreshStep
import PsdVerif.Model.FreshState

namespace PsdVerif.FreshState
open PsdVerif PsdVerif.TreeSt

/-! ### traversals do not read `_psd` -/

theorem descList_psd (s : State) (p : Id → Option Id) (r r' : Id → Except Err (List Id))
    (hr : ∀ c, r' c = r c) (l : List Id) : descList r' { s with psd := p } l = descList r s l := by
  induction l with
  | nil => rfl
  | cons c cs ih => simp only [descList, hr, ih]; rfl

theorem descF_psd (s : State) (p : Id → Option Id) (f : Nat) (g : Id) : descF { s with psd := p } f g = descF s f g := by
  induction f generalizing g with
  | zero => rfl
  | succ f ih =>
    simp only [descF]
    exact descList_psd s p _ _ (fun c => ih c) _

theorem desc_psd (s : State) (p : Id → Option Id) (g : Id) : desc { s with psd := p } g = desc s g :=
  descF_psd s p _ g

/-! ### clearing caches never hurts -/

theorem good_of_cleared {s s' : State} (hs : SameTree s s') (hc : ∀ g, s'.cache g = none ∨ s'.cache g = s.cache g)
    (h : Good s) : Good s' :=
  ⟨hs.inv h.inv, fresh_of_step hs (fun g c => c.of_cleared hs (hc g)) h.fresh⟩

theorem clearCache_cache (s : State) (x g : Id) :
    (clearCache s x).cache g = none ∨ (clearCache s x).cache g = s.cache g := by
  by_cases e : g = x
  · exact .inl (by simp [clearCache, upd, e])
  · exact .inr (by simp [clearCache, upd, e])

theorem clearConts_cache' (s : State) (ds : List Id) (g : Id) :
    (clearConts s ds).cache g = none ∨ (clearConts s ds).cache g = s.cache g := by
  rw [clearConts_cache]
  split
  · exact .inl rfl
  · exact .inr rfl

theorem good_invalidate (s : State) (x : Id) (h : Good s) : Good (invalidate .toRoot s x) :=
  good_of_cleared (invUp_same _ s x) (invUp_cache _ s x) h

theorem good_resetScope (sc : Scope) (s : State) (x : Id) (h : Good s) : Good (resetScope sc s x) := by
  cases sc with
  | self =>
    simp only [resetScope]; split
    · exact good_of_cleared (clearCache_same s x) (clearCache_cache s x) h
    · exact h
  | children =>
    simp only [resetScope]; split
    · exact good_of_cleared (clearConts_same s _) (clearConts_cache' s _) h
    · exact h
  | descendants =>
    simp only [resetScope]; split
    · split
      · exact good_of_cleared (clearConts_same s _) (clearConts_cache' s _) h
      · exact h
    · exact h
  | other => exact h

theorem good_markDirty (s : State) (x : Id) (h : Good s) : Good (markDirty s x) :=
  good_of_cleared (markDirty_same s x) (fun g => .inr (by rw [markDirty_cache])) h

theorem good_read (s : State) (x : Id) (h : Good s) : Good (obsBbox s x).1 :=
  ⟨(obsBbox_same s x).inv h.inv, fresh_obsBbox x h.fresh⟩

/-- an effect that only clears (or freshly fills) caches keeps the state good, whether its tests hold or not -/
def Eff.clearing : Eff → Bool
  | .inval _ _ | .reset _ _ _ | .dirty _ _ | .read _ _ _ => true
  | _ => false

theorem good_runEff_clearing (si : SegInst) (s : State) (i : Nat) (e : Eff) (he : e.clearing = true) (h : Good s) :
    Good (runEff .toRoot si s i e) := by
  cases e with
  | inval o gs => simp only [runEff]; split; exact good_invalidate s _ h; exact h
  | reset o sc gs => simp only [runEff]; split; exact good_resetScope sc s _ h; exact h
  | dirty o gs => simp only [runEff]; split; exact good_markDirty s _ h; exact h
  | read o a gs => simp only [runEff]; split; exact good_read s _ h; exact h
  | mutate _ _ _ _ _ => cases he
  | store _ _ _ => cases he
  | other _ => cases he

/-! ### the side conditions of the raw mutations (what C09's theorems provide; cf. `Guard`) -/

/-- what is assumed about one raw mutation, in the state it is made in: members that leave were members; a
new list consists of old members and of detached layers that do not contain the container (`_check_valid_layers`),
without repetition; the recursion limit is not hit; a rectangle is moved on a plain layer only (groups, artboards
and shape layers have no `left` / `top` setter). Nothing is assumed about invalidations. -/
def MutOk (sc : Scope) (inp : Input) (adv s : State) (x : Id) : Prop :=
  match sc, inp with
  | .self, .shrink => x < s.next ∧ (adv.children x).Nodup ∧ ∀ y, y ∈ adv.children x → y ∈ s.children x
  | .self, .relist =>
    s.isGroup x = true ∧ (adv.children x).Nodup ∧
    (∀ y, y ∈ adv.children x → y ∈ s.children x ∨ (Detached s y ∧ s.isLayer y = true ∧ y ≠ x ∧ ¬ Reach s y x)) ∧
    (∃ ds, desc (setChildren s x (adv.children x)) x = .ok ds)
  | .self, .visible => s.isLayer x = true ∧ ∃ ds, desc s x = .ok ds
  | .self, .rect => x < s.next ∧ s.kind x = .leaf
  | _, _ => True

def Guarded (c : Climb) (si : SegInst) : Nat → List Eff → State → Prop
  | _, [], _ => True
  | i, e :: es, s =>
    (match e with
     | .mutate o sc inp _ gs => (gs.all si.cond && si.here o) = true → MutOk sc inp (si.adv i) s (si.obj o)
     | _ => True) ∧ Guarded c si (i + 1) es (runEff c si s i e)

def GuardedHist (t : Table) : State → List SegInst → Prop
  | _, [] => True
  | s, si :: h => Guarded t.climb si 0 (t.seg si.op si.seg) s ∧ GuardedHist t (runSeg t s si) h

theorem sub_all {gs' gs : List String} (h : sub gs' gs = true) (c : String → Bool) (hc : gs.all c = true) :
    gs'.all c = true := by
  simp only [sub, List.all_eq_true, decide_eq_true_eq] at h hc ⊢
  intro g hg
  exact hc g (h g hg)

/-! ### the four covered blocks -/

/-- members leave: `_layers.remove…`, dirty mark, climb -/
theorem good_block_shrink {s : State} (h : Good s) (k : Id) (l' : List Id) (hk : k < s.next) (hnd : l'.Nodup)
    (hsub : ∀ y, y ∈ l' → y ∈ s.children k) :
    Good (invalidate .toRoot (markDirty (setChildren s k l') k) k) := by
  have := good_shrink CacheCfg.current h k hk l' hnd hsub .none
  simpa [finishRemove, updateRecord, Cfg.current, invalidate] using this

/-- a new list: `_layers.extend…`, `_update_layer_metadata` (document pointers, caches below, parent pointers), dirty
mark, climb -/
theorem good_block_relist {s : State} (h : Good s) (adv : State) (k : Id) (l' : List Id) (hg : s.isGroup k = true)
    (hnd : l'.Nodup)
    (hmem : ∀ y, y ∈ l' → y ∈ s.children k ∨ (Detached s y ∧ s.isLayer y = true ∧ y ≠ k ∧ ¬ Reach s y k))
    (ds : List Id) (hds : desc (setChildren s k l') k = .ok ds) :
    Good (invalidate .toRoot (markDirty (applyMut .children .parent adv
      (resetScope .descendants (applyMut .descendants .psd adv (setChildren s k l') k) k) k) k) k) := by
  obtain ⟨_, hkc⟩ := isGroup_iff.mp hg
  have hcont : ∀ (m : State), m.kind = s.kind → m.cont k = true := by
    intro m hm; unfold State.cont; rw [hm]; exact hkc
  -- the machine's four steps are `metadata`
  have hm : ∃ s2, metadata Cfg.current (setChildren s k l') k = (s2, true) ∧
      applyMut .children .parent adv
        (resetScope .descendants (applyMut .descendants .psd adv (setChildren s k l') k) k) k = s2 := by
    simp only [metadata, applyMut, hds, resetScope]
    cases hD : (setChildren s k l').docOf k with
    | none =>
      simp only [hcont (setChildren s k l') rfl, if_true, hds, Cfg.current]
      exact ⟨_, rfl, rfl⟩
    | some d =>
      have hd2 : desc (setPsdAll (setChildren s k l') ds d) k = .ok ds := by
        unfold setPsdAll; rw [desc_psd]; exact hds
      simp only [hcont (setPsdAll (setChildren s k l') ds d) rfl, if_true, hd2, Cfg.current]
      exact ⟨_, rfl, rfl⟩
  obtain ⟨s2, hmeta, heq⟩ := hm
  rw [heq]
  have hfin : (finishInsert Cfg.current (setChildren s k l') k .none) = (updateRecord Cfg.current s2 k, .none) := by
    simp only [finishInsert, hmeta]
  have hne : (finishInsert Cfg.current (setChildren s k l') k .none).2 ≠ recErr := by
    rw [hfin]; intro e; cases e
  have i2 : Inv s2 := inv_metadata_relist h.inv k l' hg hnd hmem hmeta
  have f := fresh_finishInsert_relist CacheCfg.current h.inv h.fresh k l' .none hg hnd hmem hne
  rw [hfin] at f
  have e : invalidate .toRoot (markDirty s2 k) k = updateRecord Cfg.current s2 k := by
    simp [updateRecord, Cfg.current, invalidate]
  rw [e]
  exact ⟨(updateRecord_same _ s2 k).inv i2, f⟩

/-- the visibility flag: climb, caches below, then the flag -/
theorem good_block_visible {s : State} (h : Good s) (x : Id) (v : Bool) (hl : s.isLayer x = true)
    (ds : List Id) (hds : desc s x = .ok ds) :
    Good { resetScope .descendants (invalidate .toRoot s x) x with
      visible := upd (resetScope .descendants (invalidate .toRoot s x) x).visible x v } := by
  show Good { resetScope .descendants (invUp Cfg.current s x) x with
      visible := upd (resetScope .descendants (invUp Cfg.current s x) x).visible x v }
  have hs1 := invUp_same Cfg.current s x
  have hd1 : desc (invUp Cfg.current s x) x = .ok ds := by rw [desc_congr hs1]; exact hds
  have hb : Cfg.current.invalidateBelow = true := rfl
  have e : (opSetVisible Cfg.current s x v).1 =
      { resetScope .descendants (invUp Cfg.current s x) x with
        visible := upd (resetScope .descendants (invUp Cfg.current s x) x).visible x v } := by
    unfold opSetVisible
    simp only [hl, Bool.not_true, Bool.false_eq_true, if_false, hb, Bool.true_and]
    by_cases hc : (invUp Cfg.current s x).cont x = true
    · simp only [resetScope, hc, if_true, hd1]; rfl
    · simp only [resetScope, hc, if_false, Bool.false_eq_true]
  rw [← e]
  exact ⟨inv_opSetVisible h.inv x v, fresh_opSetVisible CacheCfg.current h.inv h.fresh x v⟩

/-- the rectangle of a layer: climb, then the rectangle -/
theorem good_block_rect {s : State} (h : Good s) (x : Id) (b : BBox) (hx : x < s.next) :
    Good { invalidate .toRoot s x with box := upd (invalidate .toRoot s x).box x b } := by
  refine ⟨?_, fresh_setBox CacheCfg.current h.inv h.fresh x hx b⟩
  exact SameStruct.inv (s := invUp Cfg.current s x) ⟨rfl, rfl, rfl, rfl, rfl⟩ ((invUp_same _ s x).inv h.inv)

/-! ### a covered segment keeps well-formed trees with fresh caches -/

theorem clearing_step (si : SegInst) (e : Eff) (he : e.clearing = true) (rest : List Eff)
    (ih : ∀ (i : Nat) (s : State), Good s → Guarded .toRoot si i rest s → Good (runEffs .toRoot si i rest s))
    (i : Nat) (s : State) (h : Good s) (hg : Guarded .toRoot si i (e :: rest) s) :
    Good (runEffs .toRoot si i (e :: rest) s) :=
  ih _ _ (good_runEff_clearing si s i e he h) hg.2

theorem mutate_skip (si : SegInst) (s : State) (i : Nat) (o : String) (sc : Scope) (inp : Input) (src : String)
    (gs : List String) (h : ¬ (gs.all si.cond && si.here o) = true) :
    runEff .toRoot si s i (.mutate o sc inp src gs) = s := by
  simp only [runEff, h]; rfl

theorem obsBbox_leaf (s : State) (x : Id) (hk : s.kind x = .leaf) : (obsBbox s x).1 = s := by
  simp [obsBbox, State.cont, hk, isCont]

theorem good_of_cleared_same (s : State) (x : Id) :
    SameTree s (resetScope .descendants (invalidate .toRoot s x) x) := by
  have h1 : SameTree s (invalidate .toRoot s x) := invUp_same _ s x
  refine h1.trans ?_
  simp only [resetScope]
  split
  · split
    · exact clearConts_same _ _
    · exact SameTree.refl _
  · exact SameTree.refl _

theorem runEffs_good (si : SegInst) (es : List Eff) : ∀ (i : Nat) (s : State), covered es = true → Good s →
    Guarded .toRoot si i es s → Good (runEffs .toRoot si i es s) := by
  fun_induction covered es with
  | case1 => intro i s _ h _; exact h
  | case2 o src gs o1 g1 o2 g2 rest ih =>
    intro i s hc h hg
    simp only [Bool.and_eq_true, beq_iff_eq] at hc
    obtain ⟨⟨⟨⟨e1, e2⟩, s1⟩, s2⟩, hcr⟩ := hc
    subst o1 o2
    by_cases hrun : (gs.all si.cond && si.here o) = true
    · obtain ⟨hm, _, _, hrest⟩ := hg
      have hm' := hm hrun
      simp only [MutOk] at hm'
      have hr := Bool.and_eq_true_iff.mp hrun
      have r1 : (g1.all si.cond && si.here o) = true := by rw [sub_all s1 _ hr.1, hr.2]; rfl
      have r2 : (g2.all si.cond && si.here o) = true := by rw [sub_all s2 _ hr.1, hr.2]; rfl
      simp only [runEffs, runEff, hrun, r1, r2, if_true, applyMut] at hrest ⊢
      exact ih _ _ hcr (good_block_shrink h _ _ hm'.1 hm'.2.1 hm'.2.2) hrest
    · have e0 : runEff .toRoot si s i (.mutate o .self .shrink src gs) = s := by simp only [runEff, hrun]; rfl
      obtain ⟨_, hg1⟩ := hg
      rw [e0] at hg1
      show Good (runEffs .toRoot si (i + 1) _ (runEff .toRoot si s i _))
      rw [e0]
      exact clearing_step si _ rfl _ (fun i s h hg => clearing_step si _ rfl _ (fun i s => ih i s hcr) i s h hg) _ _ h hg1
  | case3 o src gs o1 src1 g1 o2 g2 o3 src3 g3 o4 g4 o5 g5 rest ih =>
    intro i s hc h hg
    simp only [Bool.and_eq_true, beq_iff_eq] at hc
    obtain ⟨⟨⟨⟨⟨⟨⟨⟨⟨⟨e1, e2⟩, e3⟩, e4⟩, e5⟩, e6⟩, s2⟩, e7⟩, s4⟩, s5⟩, hcr⟩ := hc
    subst o1 o2 o3 o4 o5 g1 g3
    by_cases hrun : (gs.all si.cond && si.here o) = true
    · have hr := Bool.and_eq_true_iff.mp hrun
      have r2 : (g2.all si.cond && si.here o) = true := by rw [sub_all s2 _ hr.1, hr.2]; rfl
      have r4 : (g4.all si.cond && si.here o) = true := by rw [sub_all s4 _ hr.1, hr.2]; rfl
      have r5 : (g5.all si.cond && si.here o) = true := by rw [sub_all s5 _ hr.1, hr.2]; rfl
      obtain ⟨hm, _, _, _, _, _, hrest⟩ := hg
      have hm' := hm hrun
      simp only [MutOk] at hm'
      obtain ⟨hgk, hnd, hmem, ds, hds⟩ := hm'
      have key := good_block_relist h (si.adv (i + 1 + 1 + 1)) (si.obj o) _ hgk hnd hmem ds hds
      have e : runEffs .toRoot si i (Eff.mutate o .self .relist src gs :: Eff.mutate o .descendants .psd src1 gs ::
            Eff.reset o .descendants g2 :: Eff.mutate o .children .parent src3 gs :: Eff.dirty o g4 ::
            Eff.inval o g5 :: rest) s =
          runEffs .toRoot si (i + 1 + 1 + 1 + 1 + 1 + 1) rest
            (invalidate .toRoot (markDirty (applyMut .children .parent (si.adv (i + 1 + 1 + 1))
              (resetScope .descendants (applyMut .descendants .psd (si.adv (i + 1 + 1 + 1))
                (setChildren s (si.obj o) ((si.adv i).children (si.obj o))) (si.obj o)) (si.obj o)) (si.obj o))
              (si.obj o)) (si.obj o)) := by
        simp only [runEffs, runEff, hrun, r2, r4, r5, if_true, applyMut]
      rw [e]
      apply ih _ _ hcr key
      simp only [runEff, hrun, r2, r4, r5, if_true, applyMut] at hrest ⊢
      exact hrest
    · obtain ⟨_, _, _, _, _, _, hrest⟩ := hg
      have e0 := mutate_skip si s i o .self .relist src gs hrun
      have e1 := mutate_skip si s (i + 1) o .descendants .psd src1 gs hrun
      have hB := good_runEff_clearing si s (i + 1 + 1) (.reset o .descendants g2) rfl h
      have e3 := mutate_skip si (runEff .toRoot si s (i + 1 + 1) (.reset o .descendants g2)) (i + 1 + 1 + 1) o .children
        .parent src3 gs hrun
      have hC := good_runEff_clearing si _ (i + 1 + 1 + 1 + 1) (.dirty o g4) rfl hB
      have hD := good_runEff_clearing si _ (i + 1 + 1 + 1 + 1 + 1) (.inval o g5) rfl hC
      simp only [runEffs, e0, e1, e3] at hrest ⊢
      exact ih _ _ hcr hD hrest
  | case4 o g1 o1 g2 o2 src gs rest ih =>
    intro i s hc h hg
    simp only [Bool.and_eq_true, beq_iff_eq] at hc
    obtain ⟨⟨⟨⟨e1, e2⟩, s1⟩, s2⟩, hcr⟩ := hc
    subst o1 o2
    by_cases hrun : (gs.all si.cond && si.here o) = true
    · have hr := Bool.and_eq_true_iff.mp hrun
      have r1 : (g1.all si.cond && si.here o) = true := by rw [sub_all s1 _ hr.1, hr.2]; rfl
      have r2 : (g2.all si.cond && si.here o) = true := by rw [sub_all s2 _ hr.1, hr.2]; rfl
      obtain ⟨_, _, hm, hrest⟩ := hg
      simp only [runEffs, runEff, hrun, r1, r2, if_true, applyMut] at hm hrest ⊢
      have hm' := hm trivial
      simp only [MutOk] at hm'
      obtain ⟨hl, ds, hds⟩ := hm'
      have hsame : SameTree s (resetScope .descendants (invalidate .toRoot s (si.obj o)) (si.obj o)) :=
        (good_of_cleared_same s (si.obj o))
      have hl0 : s.isLayer (si.obj o) = true := by
        simpa [State.isLayer, State.live, hsame.next, hsame.kind] using hl
      have hds0 : desc s (si.obj o) = .ok ds := by rw [← desc_congr hsame]; exact hds
      exact ih _ _ hcr (good_block_visible h _ _ hl0 ds hds0) hrest
    · obtain ⟨_, _, _, hrest⟩ := hg
      have hA := good_runEff_clearing si s i (.inval o g1) rfl h
      have hB := good_runEff_clearing si _ (i + 1) (.reset o .descendants g2) rfl hA
      have e2 := mutate_skip si (runEff .toRoot si (runEff .toRoot si s i (.inval o g1)) (i + 1) (.reset o .descendants g2))
        (i + 1 + 1) o .self .visible src gs hrun
      simp only [runEffs, e2] at hrest ⊢
      exact ih _ _ hcr hB hrest
  | case5 o g1 o1 attr g2 o2 src gs rest ih =>
    intro i s hc h hg
    simp only [Bool.and_eq_true, beq_iff_eq] at hc
    obtain ⟨⟨⟨⟨e1, e2⟩, s1⟩, e3⟩, hcr⟩ := hc
    subst o1 o2 g2
    by_cases hrun : (gs.all si.cond && si.here o) = true
    · have hr := Bool.and_eq_true_iff.mp hrun
      have r1 : (g1.all si.cond && si.here o) = true := by rw [sub_all s1 _ hr.1, hr.2]; rfl
      obtain ⟨_, _, hm, hrest⟩ := hg
      simp only [runEffs, runEff, hrun, r1, if_true, applyMut] at hm hrest ⊢
      have hm' := hm trivial
      simp only [MutOk] at hm'
      obtain ⟨hx, hk⟩ := hm'
      have hsame : SameTree s (obsBbox (invalidate .toRoot s (si.obj o)) (si.obj o)).1 :=
        (show SameTree s (invalidate .toRoot s (si.obj o)) from invUp_same _ s _).trans (obsBbox_same _ _)
      have hk1 : (invalidate .toRoot s (si.obj o)).kind (si.obj o) = .leaf := by
        rw [(obsBbox_same (invalidate .toRoot s (si.obj o)) (si.obj o)).kind] at hk; exact hk
      have hread : (obsBbox (invalidate .toRoot s (si.obj o)) (si.obj o)).1 = invalidate .toRoot s (si.obj o) :=
        obsBbox_leaf _ _ hk1
      rw [hread] at hrest ⊢
      have hx0 : si.obj o < s.next := by rw [← hsame.next]; exact hx
      exact ih _ _ hcr (good_block_rect h _ _ hx0) hrest
    · obtain ⟨_, _, _, hrest⟩ := hg
      have hA := good_runEff_clearing si s i (.inval o g1) rfl h
      have hB := good_runEff_clearing si _ (i + 1) (.read o attr gs) rfl hA
      have e2 := mutate_skip si (runEff .toRoot si (runEff .toRoot si s i (.inval o g1)) (i + 1) (.read o attr gs))
        (i + 1 + 1) o .self .rect src gs hrun
      simp only [runEffs, e2] at hrest ⊢
      exact ih _ _ hcr hB hrest
  | case6 o g1 o2 src gs rest ih =>
    intro i s hc h hg
    simp only [Bool.and_eq_true, beq_iff_eq] at hc
    obtain ⟨⟨e1, s1⟩, hcr⟩ := hc
    subst o2
    by_cases hrun : (gs.all si.cond && si.here o) = true
    · have hr := Bool.and_eq_true_iff.mp hrun
      have r1 : (g1.all si.cond && si.here o) = true := by rw [sub_all s1 _ hr.1, hr.2]; rfl
      obtain ⟨_, hm, hrest⟩ := hg
      simp only [runEffs, runEff, hrun, r1, if_true, applyMut] at hm hrest ⊢
      have hm' := hm trivial
      simp only [MutOk] at hm'
      have hsame : SameTree s (invalidate .toRoot s (si.obj o)) := invUp_same _ s _
      have hx0 : si.obj o < s.next := by rw [← hsame.next]; exact hm'.1
      exact ih _ _ hcr (good_block_rect h _ _ hx0) hrest
    · obtain ⟨_, _, hrest⟩ := hg
      have hA := good_runEff_clearing si s i (.inval o g1) rfl h
      have e2 := mutate_skip si (runEff .toRoot si s i (.inval o g1)) (i + 1) o .self .rect src gs hrun
      simp only [runEffs, e2] at hrest ⊢
      exact ih _ _ hcr hA hrest
  | case7 owner gs rest _ _ _ ih => intro i s hc h hg; exact clearing_step si _ rfl _ (fun i s => ih i s hc) i s h hg
  | case8 owner sc gs rest ih => intro i s hc h hg; exact clearing_step si _ rfl _ (fun i s => ih i s hc) i s h hg
  | case9 owner gs rest ih => intro i s hc h hg; exact clearing_step si _ rfl _ (fun i s => ih i s hc) i s h hg
  | case10 owner attr gs rest ih => intro i s hc h hg; exact clearing_step si _ rfl _ (fun i s => ih i s hc) i s h hg
  | case11 => intro i s hc; cases hc

/-! ### segments and histories -/

theorem seg_covered (t : Table) (h : t.rows.all rowOk = true) (op : String) (k : Nat) : covered (t.seg op k) = true := by
  unfold Table.seg
  split
  · rename_i r hr
    have hmem := List.mem_of_find?_eq_some hr
    have hrow := List.all_eq_true.mp h r hmem
    unfold rowOk at hrow
    rw [List.getD_eq_getElem?_getD]
    cases hk : r.segs[k]? with
    | none => simp [covered]
    | some seg => exact List.all_eq_true.mp hrow seg (List.mem_of_getElem? hk)
  · simp [covered]

theorem tableOk_iff (t : Table) : tableOk t = true ↔ t.climb = .toRoot ∧ t.rows.all rowOk = true := by
  simp [tableOk]

theorem runSeg_good (t : Table) (ht : tableOk t = true) (s : State) (si : SegInst) (h : Good s)
    (hg : Guarded t.climb si 0 (t.seg si.op si.seg) s) : Good (runSeg t s si) := by
  obtain ⟨hc, hr⟩ := (tableOk_iff t).mp ht
  unfold runSeg
  rw [hc] at hg ⊢
  exact runEffs_good si _ 0 s (seg_covered t hr _ _) h hg

theorem runSegments_good (t : Table) (ht : tableOk t = true) (h : List SegInst) :
    ∀ s, Good s → GuardedHist t s h → Good (runSegments t s h) := by
  induction h with
  | nil => intro s hs _; exact hs
  | cons si h ih =>
    intro s hs hg
    exact ih _ (runSeg_good t ht s si hs hg.1) hg.2

end PsdVerif.FreshState
