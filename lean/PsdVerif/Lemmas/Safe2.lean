/-
C06 — safety of the skeleton reader, part 2: one `Good` lemma per reader of `Model/Psd.lean` that does
not seek (the minimal advance `k` is what the later cost proofs use), the three `while` loops never
exhaust their fuel.
-/
import PsdVerif.Lemmas.Safe1

namespace PsdVerif.Safe
open PsdVerif PsdVerif.Codec PsdVerif.Psd

/-! ## header, colour mode data -/

theorem header_good (d : B) (p : Nat) : Good 26 d p (Header.dec d p) := by
  unfold Header.dec
  refine Good.bind (readN_good 4 d p) fun sig p _ => ?_
  refine Good.bind (readU_good 2 d p) fun version p _ => ?_
  refine Good.bind (readN_good 6 d p) fun _ p _ => ?_
  refine Good.bind (readU_good 2 d p) fun channels p _ => ?_
  refine Good.bind (readU_good 4 d p) fun height p _ => ?_
  refine Good.bind (readU_good 4 d p) fun width p _ => ?_
  refine Good.bind (readU_good 2 d p) fun depth p _ => ?_
  refine Good.bind (readU_good 2 d p) fun cm p _ => ?_
  exact Good.ite (fun _ => Good.ok_self _) (fun _ => Good.error value_mem)

theorem colorMode_good (d : B) (p : Nat) : Good 4 d p (colorModeDec d p) :=
  (readLenBlock_good 0 4 1 d p).weaken

/-! ## image resources -/

theorem resource_good (d : B) (p : Nat) : Good 11 d p (Resource.dec d p) := by
  unfold Resource.dec
  refine Good.bind (readN_good 4 d p) fun sig p _ => ?_
  refine Good.bind (readU_good 2 d p) fun key p _ => ?_
  refine Good.bind (readPascal_good 2 d p) fun name p _ => ?_
  refine Good.bind (readLenBlock_good 0 4 2 d p) fun data p _ => ?_
  exact Good.ite (fun _ => Good.ok_self _) (fun _ => Good.error value_mem)

/-- the `while is_readable(fp, 4)` loop of `ImageResources.read` -/
theorem resourcesLoop_good (d : B) (p : Nat) : Good 0 d p (readWhile (isReadable 4) (optItem Resource.dec) d p) :=
  readWhile_good (fun _ h => isReadable_lt (by decide) h)
    (fun q => optItem_good ((resource_good d q).weaken))
    (fun q a q' h => by
      obtain ⟨a', _, h'⟩ := optItem_some h
      have := (resource_good d q).of_ok h'
      omega) p

theorem resources_good (d : B) (p : Nat) : Good 4 d p (resourcesDec d p) := by
  unfold resourcesDec
  refine Good.bind (readLenBlock_good 0 4 1 d p) fun data p _ => ?_
  refine Good.bind_nested (resourcesLoop_good data 0).errIn fun ⟨items, _⟩ _ => ?_
  exact Good.ok_self _

/-! ## tagged blocks -/

/-- `TaggedBlock.read`: a block (≥ 12 bytes, inside the stream), or `None` with the cursor restored -/
def TaggedSpec (d : B) (p : Nat) (r : Except Err (Option TaggedBlock × Nat)) : Prop :=
  match r with
  | .ok (some _, p') => p + 12 ≤ p' ∧ p' ≤ d.length
  | .ok (none, p') => p' = p
  | .error e => e ∈ ordinary

theorem tbLenW_ge4 (v : Nat) (k : B) : 4 ≤ tbLenW v k := by unfold tbLenW; split <;> omega

theorem tagged_spec (v pad : Nat) (d : B) (p : Nat) : TaggedSpec d p (TaggedBlock.dec v pad d p) := by
  unfold TaggedBlock.dec
  cases h1 : readN 4 d p with
  | error e => exact (readN_good 4 d p).errIn e h1
  | ok x =>
    obtain ⟨sig, p1⟩ := x
    have a1 := readN_ok h1
    simp only [bind, Except.bind]
    split
    · cases h2 : readN 4 d p1 with
      | error e => exact (readN_good 4 d p1).errIn e h2
      | ok y =>
        obtain ⟨key, p2⟩ := y
        have a2 := readN_ok h2
        simp only
        cases h3 : readLenBlock 0 (tbLenW v key) pad d p2 with
        | error e => exact (readLenBlock_good 0 (tbLenW v key) pad d p2).errIn e h3
        | ok z =>
          obtain ⟨data, p3⟩ := z
          have a3 := readLenBlock_ok h3
          have := tbLenW_ge4 v key
          simp only [TaggedSpec]
          omega
    · rfl

theorem tagged_good (v pad : Nat) (d : B) (p : Nat) : Good 0 d p (TaggedBlock.dec v pad d p) := by
  have s := tagged_spec v pad d p
  cases h : TaggedBlock.dec v pad d p with
  | error e => rw [h] at s; exact s
  | ok x =>
    obtain ⟨o, p'⟩ := x
    rw [h] at s
    cases o with
    | none => simp only [TaggedSpec] at s; exact ⟨by omega, by omega⟩
    | some t => simp only [TaggedSpec] at s; exact ⟨by omega, by omega⟩

theorem tagged_some (v pad : Nat) {d : B} {p : Nat} {t : TaggedBlock} {p' : Nat}
    (h : TaggedBlock.dec v pad d p = .ok (some t, p')) : p + 12 ≤ p' ∧ p' ≤ d.length := by
  have s := tagged_spec v pad d p
  rw [h] at s; exact s

/-- the `while is_readable(fp, 8) and fp.tell() < end_pos` loop of `TaggedBlocks.read` -/
theorem taggedLoop_good (v pad : Nat) (endPos : Option Nat) (d : B) (p : Nat) :
    Good 0 d p (readWhile (taggedCond endPos) (TaggedBlock.dec v pad) d p) :=
  readWhile_good (fun _ h => taggedCond_lt h) (fun q => tagged_good v pad d q)
    (fun q a q' h => by have := tagged_some v pad h; omega) p

theorem taggedBlocks_good (v pad : Nat) (endPos : Option Nat) (d : B) (p : Nat) :
    Good 0 d p (taggedBlocksDec v pad endPos d p) := by
  unfold taggedBlocksDec
  refine Good.bind (taggedLoop_good v pad endPos d p) fun items p _ => ?_
  exact Good.ok_self _

/-! ## mask data -/

theorem readOpt_good (c : Bool) (w : Nat) (d : B) (p : Nat) : Good 0 d p (readOpt c w d p) := by
  unfold readOpt
  split
  · have g := readU_good w d p
    split
    · rename_i n q hq
      exact (g.weaken (Nat.zero_le _)).of_ok hq
    · rename_i e he
      exact g.errIn e he
  · exact Good.ok_self _

theorem maskParameters_good (d : B) (p : Nat) : Good 1 d p (MaskParameters.dec d p) := by
  unfold MaskParameters.dec
  refine Good.bind (readU_good 1 d p) fun ps p _ => ?_
  refine Good.bind (readOpt_good _ 1 d p) fun a p _ => ?_
  refine Good.bind (readOpt_good _ 8 d p) fun b p _ => ?_
  refine Good.bind (readOpt_good _ 1 d p) fun c p _ => ?_
  refine Good.bind (readOpt_good _ 8 d p) fun e p _ => ?_
  exact Good.ok_self _

theorem maskReal_good (d : B) (p : Nat) : Good 18 d p (MaskReal.dec d p) := by
  unfold MaskReal.dec
  refine Good.bind (readU_good 1 d p) fun fl p _ => ?_
  refine Good.bind (readU_good 1 d p) fun bg p _ => ?_
  refine Good.bind (readI32_good d p) fun top p _ => ?_
  refine Good.bind (readI32_good d p) fun left p _ => ?_
  refine Good.bind (readI32_good d p) fun bottom p _ => ?_
  refine Good.bind (readI32_good d p) fun right p _ => ?_
  exact Good.ok_self _

theorem maskBody_good (length : Nat) (d : B) (p : Nat) : Good 18 d p (MaskData.bodyDec length d p) := by
  unfold MaskData.bodyDec
  refine Good.bind (readI32_good d p) fun top p _ => ?_
  refine Good.bind (readI32_good d p) fun left p _ => ?_
  refine Good.bind (readI32_good d p) fun bottom p _ => ?_
  refine Good.bind (readI32_good d p) fun right p _ => ?_
  refine Good.bind (readU_good 1 d p) fun bg p _ => ?_
  refine Good.bind (readU_good 1 d p) fun fl p _ => ?_
  refine Good.bind (k₁ := 0)
    (Good.ite (fun _ => optItem_good ((maskReal_good d p).weaken)) (fun _ => Good.ok_self _)) fun real p _ => ?_
  refine Good.bind (k₁ := 0)
    (Good.ite (fun _ => optItem_good ((maskParameters_good d p).weaken)) (fun _ => Good.ok_self _)) fun ps p _ => ?_
  exact Good.ok_self _

theorem mask_good (d : B) (p : Nat) : Good 4 d p (maskDec d p) := by
  unfold maskDec
  refine Good.bind (readLenBlock_good 0 4 1 d p) fun data p _ => ?_
  refine Good.ite (fun _ => Good.ok_self _) (fun _ => ?_)
  refine Good.bind_nested (maskBody_good data.length data 0).errIn fun ⟨m, _⟩ _ => ?_
  exact Good.ok_self _

/-! ## blending ranges -/

theorem range4_good (d : B) (p : Nat) : Good 8 d p (Range4.dec d p) := by
  unfold Range4.dec
  refine Good.bind (readU_good 2 d p) fun a p _ => ?_
  refine Good.bind (readU_good 2 d p) fun b p _ => ?_
  refine Good.bind (readU_good 2 d p) fun c p _ => ?_
  refine Good.bind (readU_good 2 d p) fun e p _ => ?_
  exact Good.ok_self _

/-- the `while is_readable(fp, 8)` loop of `LayerBlendingRanges.read` -/
theorem rangesLoop_good (d : B) (p : Nat) : Good 0 d p (readWhile (isReadable 8) (optItem Range4.dec) d p) :=
  readWhile_good (fun _ h => isReadable_lt (by decide) h)
    (fun q => optItem_good ((range4_good d q).weaken))
    (fun q a q' h => by
      obtain ⟨a', _, h'⟩ := optItem_some h
      have := (range4_good d q).of_ok h'
      omega) p

theorem blendingRanges_good (d : B) (p : Nat) : Good 4 d p (BlendingRanges.dec d p) := by
  unfold BlendingRanges.dec
  refine Good.bind (readLenBlock_good 0 4 1 d p) fun data p _ => ?_
  refine Good.ite (fun _ => Good.ok_self _) (fun _ => ?_)
  refine Good.bind_nested (range4_good data 0).errIn fun ⟨comp, q⟩ _ => ?_
  refine Good.bind_nested (rangesLoop_good data q).errIn fun ⟨chans, _⟩ _ => ?_
  exact Good.ok_self _

/-! ## layer records -/

theorem channelInfo_good (v : Nat) (d : B) (p : Nat) : Good 2 d p (ChannelInfo.dec v d p) := by
  unfold ChannelInfo.dec
  refine Good.bind (readI16_good d p) fun id p _ => ?_
  refine Good.bind (readU_good (secW v) d p) fun len p _ => ?_
  exact Good.ite (fun _ => Good.ok_self _ (by omega)) (fun _ => Good.error value_mem)

theorem extra_good (v : Nat) (d : B) (p : Nat) : Good 9 d p (LayerRecord.extraDec v d p) := by
  unfold LayerRecord.extraDec
  refine Good.bind (mask_good d p) fun mask p _ => ?_
  refine Good.bind (blendingRanges_good d p) fun ranges p _ => ?_
  refine Good.bind (readPascal_good 4 d p) fun name p _ => ?_
  refine Good.bind (taggedBlocks_good v 1 none d p) fun tbs p _ => ?_
  exact Good.ok_self _

theorem layerRecord_good (v : Nat) (d : B) (p : Nat) : Good 34 d p (LayerRecord.dec v d p) := by
  unfold LayerRecord.dec
  refine Good.bind (readI32_good d p) fun top p _ => ?_
  refine Good.bind (readI32_good d p) fun left p _ => ?_
  refine Good.bind (readI32_good d p) fun bottom p _ => ?_
  refine Good.bind (readI32_good d p) fun right p _ => ?_
  refine Good.bind (readU_good 2 d p) fun n p _ => ?_
  refine Good.bind (readCount_good (fun q => channelInfo_good v d q) n p) fun cis p _ => ?_
  refine Good.bind (readN_good 4 d p) fun sig p _ => ?_
  refine Good.bind (readN_good 4 d p) fun bm p _ => ?_
  refine Good.bind (readU_good 1 d p) fun opacity p _ => ?_
  refine Good.bind (readU_good 1 d p) fun clipping p _ => ?_
  refine Good.bind (readU_good 1 d p) fun fl p _ => ?_
  refine Good.bind (readLenBlock_good 1 4 1 d p) fun data p _ => ?_
  refine Good.bind_nested (extra_good v data 0).errIn fun ⟨⟨mask, ranges, name, tbs⟩, _⟩ _ => ?_
  exact Good.ite (fun _ => Good.ok_self _) (fun _ => Good.error value_mem)

/-! ## channel image data -/

theorem channelData_good (ciLength : Nat) (d : B) (p : Nat) : Good 2 d p (ChannelData.dec ciLength d p) := by
  unfold ChannelData.dec
  refine Good.bind (readU_good 2 d p) fun comp p _ => ?_
  refine Good.ite (fun _ => ?_) (fun _ => Good.error value_mem)
  refine Good.bind (readPy_good _ d p) fun data p _ => ?_
  exact Good.ok_self _

theorem channelList_good (cis : List ChannelInfo) (d : B) (p : Nat) : Good 0 d p (channelListDec cis d p) :=
  readFor_good cis (fun ci _ q => (channelData_good ci.length d q).weaken) p

theorem channelImage_good (records : List LayerRecord) (d : B) (p : Nat) : Good 0 d p (channelImageDec records d p) :=
  readFor_good records (fun r _ q => channelList_good r.channelInfo d q) p

/-! ## layer info body, global layer mask info, image data -/

theorem layerInfoBody_good (v : Nat) (d : B) (p : Nat) : Good 2 d p (LayerInfo.bodyDec v d p) := by
  unfold LayerInfo.bodyDec
  refine Good.bind (readI16_good d p) fun count p _ => ?_
  refine Good.bind (readCount_good (fun q => layerRecord_good v d q) count.natAbs p) fun records p _ => ?_
  refine Good.bind (channelImage_good records d p) fun channels p _ => ?_
  exact Good.ok_self _

/-- `GlobalLayerMaskInfo.read` rewinds to its start on a block shorter than 13 bytes: still `Good 0` -/
theorem globalMask_good (d : B) (p : Nat) : Good 0 d p (GlobalLayerMaskInfo.dec d p) := by
  unfold GlobalLayerMaskInfo.dec
  cases h1 : readLenBlock 0 4 1 d p with
  | error e => exact (readLenBlock_good 0 4 1 d p).errIn e h1
  | ok x =>
    obtain ⟨data, p1⟩ := x
    have a1 := readLenBlock_ok h1
    simp only [bind, Except.bind]
    split
    · exact ⟨by omega, by omega⟩
    · split
      · exact Good.ok_self _
      · have g0 : Good (α := List Nat) 0 data 0 (readCount (readU 2) 5 data 0) :=
          readCount_good (fun q => readU_good 2 data q) 5 0
        cases h2 : readCount (readU 2) 5 data 0 with
        | error e => exact g0.errIn e h2
        | ok y =>
          obtain ⟨cs, q⟩ := y
          simp only
          cases h3 : readU 2 data q with
          | error e => exact (readU_good 2 data q).errIn e h3
          | ok z =>
            obtain ⟨opacity, q2⟩ := z
            simp only
            cases h4 : readU 1 data q2 with
            | error e => exact (readU_good 1 data q2).errIn e h4
            | ok w =>
              obtain ⟨kind, q3⟩ := w
              simp only
              split
              · exact ⟨by omega, by omega⟩
              · exact value_mem

theorem imageData_good (d : B) (p : Nat) : Good 2 d p (ImageData.dec d p) := by
  unfold ImageData.dec
  refine Good.bind (readU_good 2 d p) fun comp p _ => ?_
  refine Good.ite (fun _ => ?_) (fun _ => Good.error value_mem)
  refine Good.bind (readAll_good d p) fun data p _ => ?_
  exact Good.ok_self _

/-- `ImageData.read` ends with `fp.read()`: the cursor is at the end of the stream -/
theorem imageData_end {d : B} {p : Nat} {v : ImageData} {p' : Nat} (h : ImageData.dec d p = .ok (v, p')) :
    p' = d.length := by
  unfold ImageData.dec at h
  cases h1 : readU 2 d p with
  | error e => rw [h1] at h; cases h
  | ok x =>
    obtain ⟨comp, p1⟩ := x
    have a1 := readU_ok h1
    rw [h1] at h
    simp only [bind, Except.bind] at h
    split at h
    · cases h2 : readAll d p1 with
      | error e => rw [h2] at h; cases h
      | ok y =>
        obtain ⟨data, p2⟩ := y
        have a2 := readAll_ok h2
        rw [h2] at h
        cases h
        omega
    · cases h

end PsdVerif.Safe
