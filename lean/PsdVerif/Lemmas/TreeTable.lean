/-
C09 / C10 — the table machine (`Model/TreeTable.lean`) against the hand-written operations of
`Model/TreeState.lean`: for ANY table whose helper descriptions are the standard ones and whose row for a mutator
is the row written here (`StdRows`, decidable), one run of the table machine IS the hand-written operation, so
every theorem about `step` transfers. The rows are compared with the regenerated table by `decide`
(`Props/C10.lean: current_table_std`).
-/
import PsdVerif.Model.TreeTable
import PsdVerif.Lemmas.TreeHistory

set_option linter.unusedSectionVars false
set_option linter.unusedSimpArgs false

namespace PsdVerif.TreeTable
open PsdVerif PsdVerif.TreeSt

theorem checkValidG_std (s : State) (g : Id) (xs : List Id) : checkValidG .std s g xs = checkValid .current s g xs := by
  induction xs with
  | nil => rfl
  | cons x xs ih =>
    simp only [checkValidG, checkValid, Check.std, Cfg.current, Bool.true_and] at ih ⊢
    rw [ih]
    rfl

theorem refreshG_std (s : State) (g : Id) : refreshG .std s g = metadata .current s g := by
  unfold refreshG metadata
  cases desc s g with
  | error e => rfl
  | ok ds =>
    simp only [Refresh.std, Cfg.current]
    cases s.docOf g <;> rfl

theorem updateRecordG_std (s : State) (g : Id) : updateRecordG .std s g = updateRecord .current s g := rfl

/-! ### the rows of the `GroupMixin` mutators as the library writes them -/

def rowAppend : Row :=
  ⟨"GroupMixin.append", [
      .line [.assert (.ne (.var "layer") (.var "self")) [] [],
        .mat "layers_1" (.single (.var "layer")) "[layer]" [],
        .validate (.var "self") (.list "layers_1") [],
        .mutate (.var "self") (.extend (.list "layers_1")) [],
        .refresh (.var "self") [],
        .dirty (.var "self") []]], ""⟩

def rowExtend : Row :=
  ⟨"GroupMixin.extend", [
      .line [.mat "layers_1" (.list "layers") "layers" [],
        .validate (.var "self") (.list "layers_1") [],
        .mutate (.var "self") (.extend (.list "layers_1")) [],
        .refresh (.var "self") [],
        .dirty (.var "self") []]], ""⟩

def rowInsert : Row :=
  ⟨"GroupMixin.insert", [
      .line [.validate (.var "self") (.single (.var "layer")) [],
        .mutate (.var "self") (.insert "index" (.var "layer")) [],
        .refresh (.var "self") [],
        .dirty (.var "self") []]], ""⟩

def rowRemove : Row :=
  ⟨"GroupMixin.remove", [
      .line [.mutate (.var "self") (.remove (.var "layer")) [],
        .dirty (.var "self") []]], "self"⟩

def rowPop : Row :=
  ⟨"GroupMixin.pop", [
      .line [.mutate (.var "self") (.pop "index") [],
        .dirty (.var "self") []]], "popped_"⟩

def rowClear : Row :=
  ⟨"GroupMixin.clear", [
      .line [.mutate (.var "self") (.clear) [],
        .dirty (.var "self") []]], ""⟩

def rowDelitem : Row :=
  ⟨"GroupMixin.__delitem__", [
      .line [.mutate (.var "self") (.delitem "key") [],
        .dirty (.var "self") []]], ""⟩

def rowSetitem : Row :=
  ⟨"GroupMixin.__setitem__", [
      .line [.test 1 (.isSlice "key") [],
        .mat "value_1" (.list "value") "value" [(1, true)],
        .validate (.var "self") (.sliceOr "key" "value_1") [],
        .mutate (.var "self") (.setitem "key" "value_1") [],
        .refresh (.var "self") [],
        .dirty (.var "self") []]], ""⟩

def stdRows : List Row := [rowAppend, rowExtend, rowInsert, rowRemove, rowPop, rowClear, rowDelitem, rowSetitem]

/-- the helpers are described as the standard ones and the rows of the `GroupMixin` mutators are the ones above -/
def StdRows (t : Table) : Bool :=
  t.check == .std && t.refresh == .std && t.dirty == .std && stdRows.all fun r => t.row r.name == some r

theorem StdRows.elim {t : Table} (h : StdRows t = true) :
    t.check = .std ∧ t.refresh = .std ∧ t.dirty = .std ∧ ∀ r, r ∈ stdRows → t.row r.name = some r := by
  simp only [StdRows, Bool.and_eq_true, beq_iff_eq, List.all_eq_true] at h
  exact ⟨h.1.1.1, h.1.1.2, h.1.2, h.2⟩

/-- the operations whose rows are compared (the list mutators of `GroupMixin`) -/
def Op.listMutator : Op → Bool
  | .append _ _ | .extend _ _ | .insert _ _ _ | .remove _ _ | .pop _ _ | .clear _ | .delitem _ _ | .delslice _ _ _ => true
  | _ => false

section
variable {t : Table} (hc : t.check = .std) (hr : t.refresh = .std) (hd : t.dirty = .std)
include hc hr hd

theorem step_eq_append (hrow : t.row "GroupMixin.append" = some rowAppend) (s : State) (g x : Id) :
    tableStep t s (.append g x) = step .current s (.append g x) := by
  simp only [tableStep, step, Op.target]
  split
  · rfl
  · by_cases hx : x = g
    · subst hx
      simp [runRow, hrow, rowAppend, runSegs, runSeg, runSteps, runStep, Env.holds, evalTest, evalObj, Env.get,
        List.lookup, vObj, refuseM, refuse, reprAll, opAppend]
    · have hb : (some x != some g) = true := by simp [hx]
      simp [runRow, hrow, rowAppend, runSegs, runSeg, runSteps, runStep, Env.holds, evalTest, evalObj, Env.get, Env.set,
        List.lookup, vObj, evalArg, readList, hc, hr, hd, checkValidG_std, refreshG_std, updateRecordG_std, refuseM, raise,
        runLOp, opAppend, opExtend, finishInsert, hx, hb]
      cases hv : checkValid Cfg.current s g [x] with
      | some r => simp
      | none =>
        cases hm : metadata Cfg.current (setChildren s g (s.children g ++ [x])) g with
        | mk s2 b => cases b <;> simp [List.lookup, hm]

theorem step_eq_extend (hrow : t.row "GroupMixin.extend" = some rowExtend) (s : State) (g : Id) (xs : List Id) :
    tableStep t s (.extend g xs) = step .current s (.extend g xs) := by
  simp only [tableStep, step, Op.target]
  split
  · rfl
  · simp [runRow, hrow, rowExtend, runSegs, runSeg, runSteps, runStep, Env.holds, evalObj, Env.get, Env.set,
      List.lookup, vObj, evalArg, readList, hc, hr, hd, checkValidG_std, refreshG_std, updateRecordG_std, refuseM, raise,
      runLOp, opExtend, finishInsert]
    cases hv : checkValid Cfg.current s g xs with
    | some r => simp
    | none =>
      cases hm : metadata Cfg.current (setChildren s g (s.children g ++ xs)) g with
      | mk s2 b => cases b <;> simp [List.lookup, hm]

theorem step_eq_insert (hrow : t.row "GroupMixin.insert" = some rowInsert) (s : State) (g : Id) (i : Int) (x : Id) :
    tableStep t s (.insert g i x) = step .current s (.insert g i x) := by
  simp only [tableStep, step, Op.target]
  split
  · rfl
  · rename_i hg
    have hgg : s.isGroup g = true := by simpa using hg
    have hchk : refuse s <$> checkSingle Cfg.current s g x = refuse s <$> checkValid Cfg.current s g [x] := by
      unfold checkSingle
      split
      · rename_i hx
        subst hx
        obtain ⟨hl, -⟩ := isGroup_iff.mp hgg
        by_cases hk : s.kind x = .doc
        · simp [checkValid, State.isLayer, hk, refuse, reprAll]
        · simp [checkValid, State.isLayer, State.live, hl, hk, Cfg.current]
      · rfl
    simp [runRow, hrow, rowInsert, runSegs, runSeg, runSteps, runStep, Env.holds, evalObj, Env.get, Env.set,
      List.lookup, vObj, evalArg, readList, hc, hr, hd, checkValidG_std, refreshG_std, updateRecordG_std, refuseM, raise,
      runLOp, opInsert, finishInsert]
    cases hv : checkValid Cfg.current s g [x] with
    | some r =>
      cases hs : checkSingle Cfg.current s g x with
      | some r' => simp [hv, hs] at hchk; simp [hchk]
      | none => simp [hv, hs] at hchk
    | none =>
      cases hs : checkSingle Cfg.current s g x with
      | some r' => simp [hv, hs] at hchk
      | none =>
        cases hm : metadata Cfg.current (setChildren s g (insertAt (s.children g) (clampIdx (s.children g).length i) x)) g with
        | mk s2 b => cases b <;> simp [List.lookup, hm]

theorem step_eq_remove (hrow : t.row "GroupMixin.remove" = some rowRemove) (s : State) (g x : Id) :
    tableStep t s (.remove g x) = step .current s (.remove g x) := by
  simp only [tableStep, step, Op.target]
  split
  · rfl
  · by_cases hx : x ∈ s.children g <;>
      simp [runRow, hrow, rowRemove, runSegs, runSeg, runSteps, runStep, Env.holds, evalObj, Env.get, Env.set,
        List.lookup, vObj, hd, updateRecordG_std, raise, runLOp, opRemove, finishRemove, hx]

theorem step_eq_clear (hrow : t.row "GroupMixin.clear" = some rowClear) (s : State) (g : Id) :
    tableStep t s (.clear g) = step .current s (.clear g) := by
  simp only [tableStep, step, Op.target]
  split
  · rfl
  · simp [runRow, hrow, rowClear, runSegs, runSeg, runSteps, runStep, Env.holds, evalObj, Env.get, Env.set,
      List.lookup, vObj, hd, updateRecordG_std, raise, runLOp, opClear, finishRemove]

theorem step_eq_pop (hrow : t.row "GroupMixin.pop" = some rowPop) (s : State) (g : Id) (i : Int) :
    tableStep t s (.pop g i) = step .current s (.pop g i) := by
  simp only [tableStep, step, Op.target]
  split
  · rfl
  · cases hn : normIdx (s.children g).length i with
    | none =>
      simp [runRow, hrow, rowPop, runSegs, runSeg, runSteps, runStep, Env.holds, evalObj, Env.get, Env.set,
        List.lookup, vObj, hd, updateRecordG_std, raise, runLOp, opPop, finishRemove, hn]
    | some j =>
      cases hl : (s.children g)[j]? <;>
        simp [runRow, hrow, rowPop, runSegs, runSeg, runSteps, runStep, Env.holds, evalObj, Env.get, Env.set,
          List.lookup, vObj, hd, updateRecordG_std, raise, runLOp, opPop, finishRemove, hn, hl]

theorem step_eq_delitem (hrow : t.row "GroupMixin.__delitem__" = some rowDelitem) (s : State) (g : Id) (i : Int) :
    tableStep t s (.delitem g i) = step .current s (.delitem g i) := by
  simp only [tableStep, step, Op.target]
  split
  · rfl
  · cases hn : normIdx (s.children g).length i <;>
      simp [runRow, hrow, rowDelitem, runSegs, runSeg, runSteps, runStep, Env.holds, evalObj, Env.get, Env.set,
        List.lookup, vObj, hd, updateRecordG_std, raise, runLOp, opDelitem, finishRemove, hn]

theorem step_eq_delslice (hrow : t.row "GroupMixin.__delitem__" = some rowDelitem) (s : State) (g : Id) (a b : Option Int) :
    tableStep t s (.delslice g a b) = step .current s (.delslice g a b) := by
  simp only [tableStep, step, Op.target]
  split
  · rfl
  · simp [runRow, hrow, rowDelitem, runSegs, runSeg, runSteps, runStep, Env.holds, evalObj, Env.get, Env.set,
      List.lookup, vObj, hd, updateRecordG_std, raise, runLOp, opDelslice, finishRemove]

end

/-- **one run of the table machine is the hand-written operation** — for any table with the standard helper
descriptions and the rows above -/
theorem tableStep_eq_step {t : Table} (h : StdRows t = true) (s : State) (op : Op) (hop : Op.listMutator op = true) :
    tableStep t s op = step .current s op := by
  obtain ⟨hc, hr, hd, hrows⟩ := StdRows.elim h
  have row : ∀ r, r ∈ stdRows → t.row r.name = some r := hrows
  cases op <;> simp only [Op.listMutator] at hop <;> try cases hop
  · exact step_eq_append hc hr hd (row rowAppend (by simp [stdRows])) s _ _
  · exact step_eq_extend hc hr hd (row rowExtend (by simp [stdRows])) s _ _
  · exact step_eq_insert hc hr hd (row rowInsert (by simp [stdRows])) s _ _ _
  · exact step_eq_remove hc hr hd (row rowRemove (by simp [stdRows])) s _ _
  · exact step_eq_pop hc hr hd (row rowPop (by simp [stdRows])) s _ _
  · exact step_eq_clear hc hr hd (row rowClear (by simp [stdRows])) s _
  · exact step_eq_delitem hc hr hd (row rowDelitem (by simp [stdRows])) s _ _
  · exact step_eq_delslice hc hr hd (row rowDelitem (by simp [stdRows])) s _ _ _

/-- histories of list mutators: the table machine and the hand-written model run in lockstep -/
theorem tableRun_eq_run {t : Table} (h : StdRows t = true) : ∀ (s : State) (ops : List Op),
    (∀ op, op ∈ ops → Op.listMutator op = true) → tableRun t s ops = run .current s ops
  | _, [], _ => rfl
  | s, op :: ops, hops => by
    have h1 := tableStep_eq_step h s op (hops op (by simp))
    have h2 := tableRun_eq_run h (step .current s op).1 ops (fun o ho => hops o (by simp [ho]))
    simp only [tableRun, run, h1, h2]

end PsdVerif.TreeTable
