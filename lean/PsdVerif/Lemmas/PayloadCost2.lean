/-
C06 — cost of the counting payload readers, part 2: the loops, and the soundness of every `CC` constructor.

`CC.Sound x`: if the shape of `x` passes `bodyProgress`, then the counting reader of `x` erases to the reader of the
codec `x.c` and `CostR x.sh.a x.sh.b x.sh.k x.decC`.
-/
import PsdVerif.Lemmas.PayloadCost1

namespace PsdVerif.PayloadCost
open PsdVerif PsdVerif.Codec PsdVerif.PsdCost PsdVerif.Payload PsdVerif.Payload3 PsdVerif.Safe PsdVerif.SafeCost

/-! ### `for _ in range(n)` -/

/-- a body that consumes ≥ 1 byte when it succeeds: the bound does not mention `n` -/
theorem readCountC_cost {α : Type} {item : RC α} {a b k : Nat} {d : B}
    (hi : ∀ p, p ≤ d.length → Cost a b k d p (item d p)) (hk : 1 ≤ k) (n : Nat) (p : Nat) (hp : p ≤ d.length) :
    Cost (a + b + 1) (b + 1) 0 d p (readCountC item n d p) := by
  induction n generalizing p with
  | zero => exact (Cost.ok _ hp).mono (Nat.zero_le _) (Nat.zero_le _) (Nat.le_refl _)
  | succ n ih =>
    unfold readCountC
    rw [bind_ok' tick_fst]
    cases h1 : (item d p).1 with
    | error e' =>
      rw [bind_err' h1]
      refine Cost.intro (fun _ _ hx => by cases hx) (fun _ hx => ?_)
      cases hx
      have i1 := (hi p hp).of_error h1
      refine ⟨i1.1, ?_⟩
      show (PsdCost.tick.2 + (item d p).2).w ≤ _
      rw [w_add, tick_w, Nat.add_mul, Nat.add_mul]
      omega
    | ok y =>
      obtain ⟨a1, p1⟩ := y
      have i1 := (hi p hp).of_ok h1
      rw [bind_ok' h1]
      dsimp only
      have hs1 : (a + b + 1) * (p1 - p) = a * (p1 - p) + b * (p1 - p) + (p1 - p) := by
        rw [Nat.add_mul, Nat.add_mul, Nat.one_mul]
      have hb1 : b ≤ b * (p1 - p) := Nat.le_mul_of_pos_right b (by omega)
      cases h2 : (readCountC item n d p1).1 with
      | error e' =>
        rw [bind_err' h2]
        refine Cost.intro (fun _ _ hx => by cases hx) (fun _ hx => ?_)
        cases hx
        have i2 := (ih p1 i1.2.1).of_error h2
        have hs := mul_split (a + b + 1) (x := p1 - p) (y := d.length - p1) (z := d.length - p) (by omega)
        refine ⟨i2.1, ?_⟩
        show (PsdCost.tick.2 + ((item d p).2 + (readCountC item n d p1).2)).w ≤ _
        rw [w_add, w_add, tick_w]
        omega
      | ok z =>
        obtain ⟨as, p2⟩ := z
        have i2 := (ih p1 i1.2.1).of_ok h2
        rw [bind_ok' h2]
        refine Cost.intro (fun vs p' hx => ?_) (fun _ hx => by cases hx)
        cases hx
        have hs := mul_split (a + b + 1) (x := p1 - p) (y := p2 - p1) (z := p2 - p) (by omega)
        refine ⟨by omega, i2.2.1, ?_⟩
        show (PsdCost.tick.2 + ((item d p).2 + ((readCountC item n d p1).2 + (CE.ok (a1 :: as, p2) : CE (List α × Nat)).2))).w ≤ _
        rw [w_add, w_add, w_add, tick_w, ok_w]
        try dsimp only
        omega

/-- any body, `n` iterations: `(b + 1) · n` is added (for a count that is a constant of the format) -/
theorem readCountC_cost_fixed {α : Type} {item : RC α} {a b k : Nat} {d : B}
    (hi : ∀ p, p ≤ d.length → Cost a b k d p (item d p)) (n : Nat) (p : Nat) (hp : p ≤ d.length) :
    Cost a ((b + 1) * n) (n * k) d p (readCountC item n d p) := by
  induction n generalizing p with
  | zero => exact (Cost.ok _ hp).mono (Nat.zero_le _) (Nat.zero_le _) (by omega)
  | succ n ih =>
    unfold readCountC
    have e1 : (b + 1) * (n + 1) = (b + 1) * n + b + 1 := by rw [Nat.mul_succ]; omega
    have e2 : (n + 1) * k = n * k + k := Nat.succ_mul n k
    rw [bind_ok' tick_fst]
    cases h1 : (item d p).1 with
    | error e' =>
      rw [bind_err' h1]
      refine Cost.intro (fun _ _ hx => by cases hx) (fun _ hx => ?_)
      cases hx
      have i1 := (hi p hp).of_error h1
      refine ⟨i1.1, ?_⟩
      show (PsdCost.tick.2 + (item d p).2).w ≤ _
      rw [w_add, tick_w]
      omega
    | ok y =>
      obtain ⟨a1, p1⟩ := y
      have i1 := (hi p hp).of_ok h1
      rw [bind_ok' h1]
      dsimp only
      cases h2 : (readCountC item n d p1).1 with
      | error e' =>
        rw [bind_err' h2]
        refine Cost.intro (fun _ _ hx => by cases hx) (fun _ hx => ?_)
        cases hx
        have i2 := (ih p1 i1.2.1).of_error h2
        have hs := mul_split a (x := p1 - p) (y := d.length - p1) (z := d.length - p) (by omega)
        refine ⟨i2.1, ?_⟩
        show (PsdCost.tick.2 + ((item d p).2 + (readCountC item n d p1).2)).w ≤ _
        rw [w_add, w_add, tick_w]
        omega
      | ok z =>
        obtain ⟨as, p2⟩ := z
        have i2 := (ih p1 i1.2.1).of_ok h2
        rw [bind_ok' h2]
        refine Cost.intro (fun vs p' hx => ?_) (fun _ hx => by cases hx)
        cases hx
        have hs := mul_split a (x := p1 - p) (y := p2 - p1) (z := p2 - p) (by omega)
        refine ⟨by omega, i2.2.1, ?_⟩
        show (PsdCost.tick.2 + ((item d p).2 + ((readCountC item n d p1).2 + (CE.ok (a1 :: as, p2) : CE (List α × Nat)).2))).w ≤ _
        rw [w_add, w_add, w_add, tick_w, ok_w]
        try dsimp only
        omega

/-! ### `while is_readable(fp, m)` -/

/-- the condition costs one read of at most `m` bytes; the body consumes ≥ 1 byte when it returns an item
(`none` ends the loop). The fuel `remaining + 1` is never exhausted. -/
theorem readWhileFuelC_cost {α : Type} {item : RC (Option α)} {a b k m : Nat} {d : B}
    (hi : ∀ p, p ≤ d.length → Cost a b k d p (item d p)) (hk : 1 ≤ k)
    (fuel : Nat) (p : Nat) (hp : p ≤ d.length) (hf : d.length - p + 1 ≤ fuel) :
    Cost (a + b + m + 2) (b + 2 * (m + 2)) 0 d p (readWhileFuelC (isReadableC m) item fuel d p) := by
  induction fuel generalizing p with
  | zero => omega
  | succ fuel ih =>
    unfold readWhileFuelC
    have hc1 : (isReadableC m d p).1 = .ok (isReadable m d p) := rfl
    have hc2 := isReadableC_w' m d p
    rw [bind_ok' tick_fst, bind_ok' hc1]
    by_cases hcond : isReadable m d p = true
    · rw [if_pos hcond]
      cases h1 : (item d p).1 with
      | error e' =>
        rw [bind_err' h1]
        refine Cost.intro (fun _ _ hx => by cases hx) (fun _ hx => ?_)
        cases hx
        have i1 := (hi p hp).of_error h1
        refine ⟨i1.1, ?_⟩
        show (PsdCost.tick.2 + ((isReadableC m d p).2 + (item d p).2)).w ≤ _
        rw [w_add, w_add, tick_w, hc2, Nat.add_mul, Nat.add_mul, Nat.add_mul]
        omega
      | ok y =>
        obtain ⟨o, p1⟩ := y
        have i1 := (hi p hp).of_ok h1
        rw [bind_ok' h1]
        dsimp only
        have hs1 : (a + b + m + 2) * (p1 - p) = a * (p1 - p) + b * (p1 - p) + m * (p1 - p) + 2 * (p1 - p) := by
          rw [Nat.add_mul, Nat.add_mul, Nat.add_mul]
        have hb1 : b ≤ b * (p1 - p) := Nat.le_mul_of_pos_right b (by omega)
        have hm1 : m ≤ m * (p1 - p) := Nat.le_mul_of_pos_right m (by omega)
        cases o with
        | none =>
          refine Cost.intro (fun vs p' hx => ?_) (fun _ hx => by cases hx)
          cases hx
          refine ⟨by omega, i1.2.1, ?_⟩
          show (PsdCost.tick.2 + ((isReadableC m d p).2 + ((item d p).2 + (CE.ok (([] : List α), p1)).2))).w ≤ _
          rw [w_add, w_add, w_add, tick_w, ok_w, hc2]
          try dsimp only
          omega
        | some a1 =>
          dsimp only
          cases h2 : (readWhileFuelC (isReadableC m) item fuel d p1).1 with
          | error e' =>
            rw [bind_err' h2]
            refine Cost.intro (fun _ _ hx => by cases hx) (fun _ hx => ?_)
            cases hx
            have i2 := (ih p1 i1.2.1 (by omega)).of_error h2
            have hs := mul_split (a + b + m + 2) (x := p1 - p) (y := d.length - p1) (z := d.length - p) (by omega)
            refine ⟨i2.1, ?_⟩
            show (PsdCost.tick.2 + ((isReadableC m d p).2 + ((item d p).2 + (readWhileFuelC (isReadableC m) item fuel d p1).2))).w ≤ _
            rw [w_add, w_add, w_add, tick_w, hc2]
            omega
          | ok z =>
            obtain ⟨as, p2⟩ := z
            have i2 := (ih p1 i1.2.1 (by omega)).of_ok h2
            rw [bind_ok' h2]
            refine Cost.intro (fun vs p' hx => ?_) (fun _ hx => by cases hx)
            cases hx
            have hs := mul_split (a + b + m + 2) (x := p1 - p) (y := p2 - p1) (z := p2 - p) (by omega)
            refine ⟨by omega, i2.2.1, ?_⟩
            show (PsdCost.tick.2 + ((isReadableC m d p).2 + ((item d p).2 + ((readWhileFuelC (isReadableC m) item fuel d p1).2 +
              (CE.ok (a1 :: as, p2) : CE (List α × Nat)).2)))).w ≤ _
            rw [w_add, w_add, w_add, w_add, tick_w, ok_w, hc2]
            try dsimp only
            omega
    · rw [if_neg hcond]
      refine Cost.intro (fun vs p' hx => ?_) (fun _ hx => by cases hx)
      cases hx
      refine ⟨by omega, hp, ?_⟩
      show (PsdCost.tick.2 + ((isReadableC m d p).2 + (CE.ok (([] : List α), p)).2)).w ≤ _
      rw [w_add, w_add, tick_w, ok_w, hc2]
      try dsimp only
      omega

theorem readWhileC_cost {α : Type} {item : RC (Option α)} {a b k : Nat} (m : Nat) {d : B}
    (hi : ∀ p, p ≤ d.length → Cost a b k d p (item d p)) (hk : 1 ≤ k) (p : Nat) (hp : p ≤ d.length) :
    Cost (a + b + m + 2) (b + 2 * (m + 2)) 0 d p (readWhileC (isReadableC m) item d p) :=
  readWhileFuelC_cost hi hk _ p hp (Nat.le_refl _)

theorem optItemC_cost {α : Type} {item : RC α} {a b k : Nat} {d : B} {p : Nat} (h : Cost a b k d p (item d p)) :
    Cost a b k d p (optItemC item d p) := by
  unfold optItemC
  exact Cost.map (g := some) h

/-! ### a nested run: `with io.BytesIO(data) as f: …` -/

/-- entering the block and running `inner` on it costs at most `(aᵢ + 1) · len(data) + bᵢ + 1` -/
theorem nested_w_le {α : Type} {inner : CE (α × Nat)} {ai bi ki : Nat} {data : B}
    (h : Cost ai bi ki data 0 inner) : inner.2.w ≤ ai * data.length + bi := by
  have := h.w_le
  simpa using this

/-! ### soundness of the constructors -/

namespace CC

def Erases {α : Type} (x : CC α) : Prop := ∀ d p, (x.decC d p).1 = x.c.dec d p

/-- what is proved of a costed codec, given that its loops make progress -/
def Sound {α : Type} (x : CC α) : Prop :=
  x.sh.bodyProgress = true → x.Erases ∧ CostR x.sh.a x.sh.b x.sh.k x.decC

theorem fmt_sound (fs : List FI) : (CC.fmt fs).Sound := fun _ =>
  ⟨fun d p => fmtDecC_fst fs d p, fun _ _ hp => fmtDecC_cost fs hp⟩

theorem tailBytes_sound : CC.tailBytes.Sound := fun _ =>
  ⟨fun d p => readAllC_fst d p, fun _ _ hp => readAllC_cost hp⟩

theorem pascal_sound (pw pr : Nat) : (CC.pascal pw pr).Sound := fun _ =>
  ⟨fun d p => readPascalC_fst pr d p, fun _ _ hp => readPascalC_cost pr hp⟩

theorem ustr_sound : CC.ustr.Sound := fun _ =>
  ⟨fun d p => readUStrC_fst 1 d p, fun _ _ hp => readUStrC_cost 1 (by decide) hp⟩

theorem padded_sound {α : Type} (pad : Nat) {x : CC α} (hx : x.Sound) : (CC.padded pad x).Sound := fun hb =>
  hx hb

theorem seq_sound {α β : Type} {x : CC α} {y : CC β} (hx : x.Sound) (hy : y.Sound) : (CC.seq x y).Sound := by
  intro hb
  have hb' : x.sh.bodyProgress = true ∧ y.sh.bodyProgress = true := by
    simpa [CC.seq, Sh.bodyProgress] using hb
  obtain ⟨ex, cx⟩ := hx hb'.1
  obtain ⟨ey, cy⟩ := hy hb'.2
  refine ⟨fun d p => ?_, fun d p hp => ?_⟩
  · show ((CC.seq x y).decC d p).1 = (Payload3.seq x.c y.c).dec d p
    unfold CC.seq Payload3.seq
    dsimp only
    refine erase_bind (ex d p) fun ⟨u, p1⟩ => ?_
    refine erase_bind (ey d p1) fun ⟨v, p2⟩ => ?_
    rfl
  · show Cost (max x.sh.a y.sh.a) (x.sh.b + y.sh.b) (x.sh.k + y.sh.k) d p _
    unfold CC.seq
    dsimp only
    apply Cost.mono
    case h =>
      cbind (cx d p hp)
      cbind (cy _ _ (by assumption))
      cdone
    cside

theorem counted_sound {α : Type} (w : Nat) {x : CC α} (hx : x.Sound) : (CC.counted w x).Sound := by
  intro hb
  have hb' : x.sh.bodyProgress = true ∧ 1 ≤ x.sh.k := by
    simpa [CC.counted, Sh.bodyProgress] using hb
  obtain ⟨ex, cx⟩ := hx hb'.1
  refine ⟨fun d p => ?_, fun d p hp => ?_⟩
  · show ((CC.counted w x).decC d p).1 = (Payload3.counted w x.c).dec d p
    unfold CC.counted Payload3.counted
    dsimp only
    refine erase_bind (readUC_fst ..) fun ⟨n, p1⟩ => ?_
    exact readCountC_fst ex n d p1
  · show Cost (x.sh.a + x.sh.b + 1) (x.sh.b + 2) w d p _
    unfold CC.counted
    dsimp only
    apply Cost.mono
    case h =>
      cbind (readUC_cost w)
      exact readCountC_cost (fun q hq => cx d q hq) hb'.2 _ _ (by assumption)
    cside

theorem exactly_sound {α : Type} (n : Nat) {x : CC α} (hx : x.Sound) : (CC.exactly n x).Sound := by
  intro hb
  have hb' : x.sh.bodyProgress = true := by simpa [CC.exactly, Sh.bodyProgress] using hb
  obtain ⟨ex, cx⟩ := hx hb'
  refine ⟨fun d p => readCountC_fst ex n d p, fun d p hp => ?_⟩
  show Cost x.sh.a ((x.sh.b + 1) * n) (n * x.sh.k) d p _
  exact readCountC_cost_fixed (fun q hq => cx d q hq) n p hp

theorem whileR_sound {α : Type} (n pad : Nat) {x : CC α} (hx : x.Sound) : (CC.whileR n pad x).Sound := by
  intro hb
  have hb' : (x.sh.bodyProgress = true ∧ 1 ≤ x.sh.k) ∧ 1 ≤ n := by
    simpa [CC.whileR, Sh.bodyProgress] using hb
  obtain ⟨ex, cx⟩ := hx hb'.1.1
  refine ⟨fun d p => ?_, fun d p hp => ?_⟩
  · exact readWhileC_fst (isReadableC_fst n) (optItemC_fst ex) d p
  · show Cost (x.sh.a + x.sh.b + n + 2) (x.sh.b + 2 * (n + 2)) 0 d p _
    exact readWhileC_cost n (fun q hq => optItemC_cost (cx d q hq)) hb'.1.2 p hp

theorem checked_sound {α : Type} {x : CC α} (hx : x.Sound) (ok : α → Prop) [DecidablePred ok] (e : Err) (he : e ≠ .other) :
    (CC.checked x ok e).Sound := by
  intro hb
  obtain ⟨ex, cx⟩ := hx hb
  refine ⟨fun d p => ?_, fun d p hp => ?_⟩
  · show ((CC.checked x ok e).decC d p).1 = (Payload3.checked x.c ok e).dec d p
    unfold CC.checked Payload3.checked
    dsimp only
    refine erase_bind (ex d p) fun ⟨v, p1⟩ => ?_
    dsimp only
    split <;> rfl
  · show Cost x.sh.a x.sh.b x.sh.k d p _
    unfold CC.checked
    dsimp only
    apply Cost.mono
    case h =>
      cbind (cx d p hp)
      apply Cost.ite_else_error (he := he)
      intro _
      exact Cost.ok _ (by assumption)
    cside

theorem blocked_sound {α : Type} (w pad : Nat) {x : CC α} (hx : x.Sound) : (CC.blocked w pad x).Sound := by
  intro hb
  obtain ⟨ex, cx⟩ := hx hb
  refine ⟨fun d p => ?_, fun d p hp => ?_⟩
  · show ((CC.blocked w pad x).decC d p).1 = (Payload3.blocked w pad x.c).dec d p
    unfold CC.blocked Payload3.blocked
    dsimp only
    refine erase_bind (readLenBlockC_fst ..) fun ⟨data, p1⟩ => ?_
    refine erase_ok (enterBlock_fst data) ?_
    refine erase_bind (ex data 0) fun ⟨v, _⟩ => ?_
    rfl
  · show Cost (x.sh.a + 2) (x.sh.b + 5) w d p _
    unfold CC.blocked
    dsimp only
    refine Cost.intro (fun v p' hxx => ?_) (fun e hxx => ?_)
    all_goals
      rw [bind_fst] at hxx
      rw [bind_snd]
      have hl := readLenBlockC_cost 0 w pad (d := d) (p := p) hp
    · cases h1 : (readLenBlockC 0 w pad d p).1 with
      | error e1 => rw [h1] at hxx; cases hxx
      | ok y =>
        obtain ⟨data, p1⟩ := y
        rw [h1] at hxx
        have l1 := hl.of_ok h1
        have l2 := readLenBlockC_ok h1
        have hin := nested_w_le (cx data 0 (Nat.zero_le _))
        dsimp only at hxx ⊢
        rw [bind_ok' (enterBlock_fst data)] at hxx ⊢
        dsimp only at hxx ⊢
        cases h2 : (x.decC data 0).1 with
        | error e2 => rw [bind_err' h2] at hxx; cases hxx
        | ok z =>
          obtain ⟨v2, q⟩ := z
          rw [bind_ok' h2] at hxx ⊢
          cases hxx
          have e1 : (x.sh.a + 2) * (p' - p) = x.sh.a * (p' - p) + 2 * (p' - p) := Nat.add_mul ..
          have e2 : x.sh.a * data.length ≤ x.sh.a * (p' - p) := Nat.mul_le_mul_left _ (by omega)
          refine ⟨by omega, l1.2.1, ?_⟩
          show ((readLenBlockC 0 w pad d p).2 + ((enterBlock data).2 + ((x.decC data 0).2 + (CE.ok (v2, p') : CE (α × Nat)).2))).w ≤ _
          rw [w_add, w_add, w_add, enterBlock_w, ok_w]
          omega
    · cases h1 : (readLenBlockC 0 w pad d p).1 with
      | error e1 =>
        rw [h1] at hxx
        cases hxx
        have l1 := hl.of_error h1
        have e1 : (x.sh.a + 2) * (d.length - p) = x.sh.a * (d.length - p) + 2 * (d.length - p) := Nat.add_mul ..
        exact ⟨l1.1, by dsimp only; omega⟩
      | ok y =>
        obtain ⟨data, p1⟩ := y
        rw [h1] at hxx
        have l1 := hl.of_ok h1
        have l2 := readLenBlockC_ok h1
        have hc := cx data 0 (Nat.zero_le _)
        have hin := nested_w_le hc
        dsimp only at hxx ⊢
        rw [bind_ok' (enterBlock_fst data)] at hxx ⊢
        dsimp only at hxx ⊢
        cases h2 : (x.decC data 0).1 with
        | ok z => obtain ⟨v2, q⟩ := z; rw [bind_ok' h2] at hxx; cases hxx
        | error e2 =>
          rw [bind_err' h2] at hxx ⊢
          cases hxx
          have e1 : (x.sh.a + 2) * (d.length - p) = x.sh.a * (d.length - p) + 2 * (d.length - p) := Nat.add_mul ..
          have e2 : x.sh.a * data.length ≤ x.sh.a * (d.length - p) := Nat.mul_le_mul_left _ (by omega)
          refine ⟨(hc.of_error h2).1, ?_⟩
          show ((readLenBlockC 0 w pad d p).2 + ((enterBlock data).2 + (x.decC data 0).2)).w ≤ _
          rw [w_add, w_add, enterBlock_w]
          omega

theorem optTail_sound {α : Type} {x : CC α} (hx : x.Sound) : (CC.optTail x).Sound := by
  intro hb
  obtain ⟨ex, cx⟩ := hx hb
  refine ⟨fun d p => ?_, fun d p hp => ?_⟩
  · show ((CC.optTail x).decC d p).1 = (Payload3.optTail x.c).dec d p
    unfold CC.optTail Payload3.optTail
    dsimp only
    refine erase_ok (isReadableC_fst 1 d p) ?_
    split
    · rw [bind_fst, ex]
      cases x.c.dec d p with
      | error e => rfl
      | ok y => rfl
    · rfl
  · show Cost (max 1 x.sh.a) (x.sh.b + 2) 0 d p _
    unfold CC.optTail
    dsimp only
    have hw : (isReadableC 1 d p).2.w ≤ 2 := by rw [isReadableC_w']; omega
    refine (Cost.step (a := max 1 x.sh.a) (b := x.sh.b) (k := 0) hw (by intro h; cases h) fun r _ => ?_).mono
      (Nat.le_refl _) (by omega) (Nat.le_refl _)
    split
    · exact (Cost.map (g := some) (cx d p hp)).mono (Nat.le_max_right ..) (Nat.le_refl _) (Nat.zero_le _)
    · exact (Cost.ok _ hp).mono (Nat.zero_le _) (Nat.zero_le _) (Nat.le_refl _)

end CC

end PsdVerif.PayloadCost
