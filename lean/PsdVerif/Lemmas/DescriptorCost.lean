/-
C06 — the counting descriptor reader: erasure, and a LINEAR bound that does not depend on the nesting depth.

Nesting does not copy (a container reads its items from the same stream), and every level pays for itself out of
its own header: with the coefficient 4 (ticks + bytes per byte consumed)

  value after its OSType    `Cost 4 10 0`                      (`ValInv`)
  OSType + value / key + OSType + value
                            cost + 1 ≤ 4 · (bytes consumed)     (`ItemInv`: the `+ 1` is the enclosing loop's tick)
  `for _ in range(count)`   cost ≤ 4 · (bytes consumed)         (`LoopInv`: whatever `count` is)

so `decWithC` maps `ValInv` for the values inside containers to `ValInv`, and the induction on the fuel closes with
the same constants at every depth.
-/
import PsdVerif.Model.DescriptorCost
import PsdVerif.Lemmas.PayloadCost2
import PsdVerif.Lemmas.Descriptor4

namespace PsdVerif.DescriptorCost
open PsdVerif PsdVerif.Codec PsdVerif.PsdCost PsdVerif.Descriptor PsdVerif.PayloadCost PsdVerif.Safe PsdVerif.SafeCost

/-! ### erasure -/

def Er {α : Type} (rc : RC α) (r : R α) : Prop := ∀ d p, (rc d p).1 = r d p

theorem Er.bind {α β : Type} {rc : RC α} {r : R α} {fc : α → RC β} {f : α → R β}
    (h : Er rc r) (hf : ∀ a, Er (fc a) (f a)) : Er (rc >>~ fc) (r >>- f) := by
  intro d p
  unfold rbindC rbind
  rw [bind_fst, h]
  cases r d p with
  | error e => rfl
  | ok x => obtain ⟨a, p1⟩ := x; exact hf a d p1

theorem Er.pure {α : Type} (a : α) : Er (rpureC a) (rpure a) := fun _ _ => rfl
theorem Er.fail {α : Type} (e : Err) : Er (rfailC e : RC α) (rfail e) := fun _ _ => rfl

theorem er_readUC (w : Nat) : Er (readUC w) (readU w) := readUC_fst w
theorem er_readNC (n : Nat) : Er (readNC n) (readN n) := readNC_fst n
theorem er_readUpToC (n : Nat) : Er (readUpToC n) (readUpTo n) := readUpToC_fst n
theorem er_readI32C : Er readI32C readI32 := readI32C_fst
theorem er_readLenBlockC (s w p : Nat) : Er (readLenBlockC s w p) (readLenBlock s w p) := readLenBlockC_fst s w p
theorem er_readStrC : Er readStrC readStr := readUStrC_fst 1
theorem er_readKeyRC (tb : Tables) : Er (readKeyRC tb) (readKeyR tb) := readKeyC_fst tb.terms
theorem er_readF64sC (n : Nat) : Er (readF64sC n) (readF64s n) := fun _ _ => rfl

theorem er_readTagC : Er readTagC readTag := by
  unfold readTagC readTag
  refine Er.bind (er_readUpToC 4) fun b => ?_
  cases Tag.ofBytes b with
  | none => exact Er.fail _
  | some t => exact Er.pure _

theorem er_readI64C : Er readI64C readI64 := Er.bind (er_readUC 8) fun _ => Er.pure _
theorem er_readBoolC : Er DescriptorCost.readBoolC Descriptor.readBool := Er.bind (er_readUC 1) fun _ => Er.pure _

theorem er_unitOfC (tb : Tables) (b : B) : Er (unitOfC tb b) (unitOf tb b) := by
  unfold unitOfC unitOf
  split
  · exact Er.pure _
  · split
    · exact Er.pure _
    · exact Er.fail _

theorem er_readCountC {α : Type} {ic : RC α} {i : R α} (h : Er ic i) (n : Nat) : Er (readCountC ic n) (readCount i n) :=
  fun d p => readCountC_fst h n d p

theorem er_taggedC {rc : Tag → RC DVal} {r : Tag → R DVal} (h : ∀ t, Er (rc t) (r t)) : Er (taggedC rc) (tagged r) :=
  Er.bind er_readTagC h

theorem er_keyedC (tb : Tables) {rc : Tag → RC DVal} {r : Tag → R DVal} (h : ∀ t, Er (rc t) (r t)) :
    Er (keyedC tb rc) (keyed tb r) :=
  Er.bind (er_readKeyRC tb) fun _ => Er.bind (er_taggedC h) fun _ => Er.pure _

theorem er_readBodyC (tb : Tables) {rc : Tag → RC DVal} {r : Tag → R DVal} (h : ∀ t, Er (rc t) (r t)) :
    Er (readBodyC tb rc) (readBody tb r) :=
  Er.bind er_readStrC fun _ => Er.bind (er_readKeyRC tb) fun _ => Er.bind (er_readUC 4) fun n =>
    Er.bind (er_readCountC (er_keyedC tb h) n) fun _ => Er.pure _

theorem er_decIntC (t : IntTag) : Er (decIntC t) (decInt t) := Er.bind er_readI32C fun _ => Er.pure _
theorem er_decClassC (tb : Tables) (t : ClassTag) : Er (decClassC tb t) (decClass tb t) :=
  Er.bind er_readStrC fun _ => Er.bind (er_readKeyRC tb) fun _ => Er.pure _
theorem er_decRawC (t : RawTag) : Er (decRawC t) (decRaw t) := Er.bind (er_readLenBlockC 0 4 1) fun _ => Er.pure _
theorem er_decListC {rc : Tag → RC DVal} {r : Tag → R DVal} (h : ∀ t, Er (rc t) (r t)) (t : ListTag) :
    Er (decListC rc t) (decList r t) :=
  Er.bind (er_readUC 4) fun n => Er.bind (er_readCountC (er_taggedC h) n) fun _ => Er.pure _
theorem er_decDescC (tb : Tables) {rc : Tag → RC DVal} {r : Tag → R DVal} (h : ∀ t, Er (rc t) (r t)) (t : DescTag) :
    Er (decDescC tb rc t) (decDesc tb r t) :=
  Er.bind (er_readBodyC tb h) fun _ => Er.pure _

theorem er_decWithC (tb : Tables) {rc : Tag → RC DVal} {r : Tag → R DVal} (h : ∀ t, Er (rc t) (r t)) (t : Tag) :
    Er (decWithC tb rc t) (decWith tb r t) := by
  cases t <;> unfold decWithC decWith
  case integer => exact er_decIntC _
  case identifier => exact er_decIntC _
  case index => exact er_decIntC _
  case largeInteger => exact Er.bind er_readI64C fun _ => Er.pure _
  case boolean => exact Er.bind er_readBoolC fun _ => Er.pure _
  case double => exact Er.bind (er_readUC 8) fun _ => Er.pure _
  case unitFloat =>
    exact Er.bind (er_readNC 4) fun _ => Er.bind (er_readUC 8) fun _ => Er.bind (er_unitOfC tb _) fun _ => Er.pure _
  case unitFloats =>
    exact Er.bind (er_readNC 4) fun _ => Er.bind (er_readUC 4) fun _ => Er.bind (er_unitOfC tb _) fun _ =>
      Er.bind (er_readF64sC _) fun _ => Er.pure _
  case string => exact Er.bind er_readStrC fun _ => Er.pure _
  case enumerated => exact Er.bind (er_readKeyRC tb) fun _ => Er.bind (er_readKeyRC tb) fun _ => Er.pure _
  case enumeratedReference =>
    exact Er.bind er_readStrC fun _ => Er.bind (er_readKeyRC tb) fun _ => Er.bind (er_readKeyRC tb) fun _ =>
      Er.bind (er_readKeyRC tb) fun _ => Er.pure _
  case class1 => exact er_decClassC tb _
  case class2 => exact er_decClassC tb _
  case class3 => exact er_decClassC tb _
  case property =>
    exact Er.bind er_readStrC fun _ => Er.bind (er_readKeyRC tb) fun _ => Er.bind (er_readKeyRC tb) fun _ => Er.pure _
  case name => exact Er.bind er_readStrC fun _ => Er.bind (er_readKeyRC tb) fun _ => Er.bind er_readStrC fun _ => Er.pure _
  case offset => exact Er.bind er_readStrC fun _ => Er.bind (er_readKeyRC tb) fun _ => Er.bind (er_readUC 4) fun _ => Er.pure _
  case rawData => exact er_decRawC _
  case alias => exact er_decRawC _
  case path => exact er_decRawC _
  case list => exact er_decListC h _
  case reference => exact er_decListC h _
  case descriptor => exact er_decDescC tb h _
  case globalObject => exact er_decDescC tb h _
  case objectArray => exact Er.bind (er_readUC 4) fun _ => Er.bind (er_readBodyC tb h) fun _ => Er.pure _

theorem er_decBodyC (tb : Tables) (fuel : Nat) (t : Tag) : Er (decBodyC tb fuel t) (decBody tb fuel t) := by
  induction fuel generalizing t with
  | zero => exact Er.fail _
  | succ fuel ih => exact er_decWithC tb ih t

theorem decC_fst (tb : Tables) (t : Tag) (d : B) (p : Nat) : (decC tb t d p).1 = dec tb t d p :=
  er_decBodyC tb _ t d p

theorem decTaggedC_fst (tb : Tables) (d : B) (p : Nat) : (decTaggedC tb d p).1 = decTagged tb d p :=
  er_taggedC (er_decBodyC tb _) d p

theorem Block.decC_fst (tb : Tables) (d : B) (p : Nat) : (Block.decC tb d p).1 = Block.dec tb d p := by
  unfold Block.decC Block.dec
  refine Er.bind (er_readUC 4) (fun ver => Er.bind (er_readBodyC tb (er_decBodyC tb _)) fun x => ?_) d p
  split
  · exact Er.pure _
  · exact Er.fail _

theorem Block2.decC_fst (tb : Tables) (d : B) (p : Nat) : (Block2.decC tb d p).1 = Block2.dec tb d p := by
  unfold Block2.decC Block2.dec
  refine Er.bind (er_readUC 4) (fun ver => Er.bind (er_readUC 4) fun dv =>
    Er.bind (er_readBodyC tb (er_decBodyC tb _)) fun x => ?_) d p
  split
  · exact Er.pure _
  · exact Er.fail _

/-! ### cost -/

/-- the cost judgement along `>>~` -/
theorem Cost.rbind {α β : Type} {a₁ a₂ b₁ b₂ k₁ k₂ : Nat} {d : B} {p : Nat} {r : RC α} {f : α → RC β}
    (hr : Cost a₁ b₁ k₁ d p (r d p))
    (hf : ∀ v p₁, (r d p).1 = .ok (v, p₁) → p₁ ≤ d.length → Cost a₂ b₂ k₂ d p₁ (f v d p₁)) :
    Cost (max a₁ a₂) (b₁ + b₂) (k₁ + k₂) d p ((r >>~ f) d p) := by
  unfold rbindC
  exact Cost.bind hr hf

theorem Cost.rpure {α : Type} {d : B} {p : Nat} (a : α) (hp : p ≤ d.length) : Cost 0 0 0 d p (rpureC a d p) :=
  Cost.ok a hp

theorem Cost.rfail {α : Type} {d : B} {p : Nat} (k : Nat) {e : Err} (he : e ≠ .other) :
    Cost 0 0 k d p ((rfailC e : RC α) d p) := Cost.error k he

/-- one more step of a `>>~` chain -/
macro "rb " t:term : tactic => `(tactic| (apply Cost.rbind $t; intro _ _ _ _))
/-- the end of a `>>~` chain -/
macro "rdone" : tactic => `(tactic| first | exact Cost.rpure _ (by assumption) | exact Cost.rfail _ (by decide))

/-- the value of an item, after its OSType was read -/
abbrev ValInv (d : B) (p : Nat) (x : CE (DVal × Nat)) : Prop := Cost 4 10 0 d p x

/-- an item of a container with the tick of the loop that reads it -/
def ItemInv {β : Type} (d : B) (p : Nat) (x : CE (β × Nat)) : Prop :=
  match x.1 with
  | .ok (_, p') => p + 4 ≤ p' ∧ p' ≤ d.length ∧ x.2.w + 1 ≤ 4 * (p' - p)
  | .error e => e ≠ .other ∧ x.2.w + 1 ≤ 4 * (d.length - p) + 16

/-- a whole `for _ in range(count)` loop over such items -/
def LoopInv {β : Type} (d : B) (p : Nat) (x : CE (β × Nat)) : Prop :=
  match x.1 with
  | .ok (_, p') => p ≤ p' ∧ p' ≤ d.length ∧ x.2.w ≤ 4 * (p' - p)
  | .error e => e ≠ .other ∧ x.2.w ≤ 4 * (d.length - p) + 16

theorem ItemInv.of_ok {β : Type} {d : B} {p : Nat} {x : CE (β × Nat)} {v : β} {p' : Nat} (h : ItemInv d p x)
    (hx : x.1 = .ok (v, p')) : p + 4 ≤ p' ∧ p' ≤ d.length ∧ x.2.w + 1 ≤ 4 * (p' - p) := by
  unfold ItemInv at h; rw [hx] at h; exact h

theorem ItemInv.of_error {β : Type} {d : B} {p : Nat} {x : CE (β × Nat)} {e : Err} (h : ItemInv d p x)
    (hx : x.1 = .error e) : e ≠ .other ∧ x.2.w + 1 ≤ 4 * (d.length - p) + 16 := by
  unfold ItemInv at h; rw [hx] at h; exact h

theorem LoopInv.of_ok {β : Type} {d : B} {p : Nat} {x : CE (β × Nat)} {v : β} {p' : Nat} (h : LoopInv d p x)
    (hx : x.1 = .ok (v, p')) : p ≤ p' ∧ p' ≤ d.length ∧ x.2.w ≤ 4 * (p' - p) := by
  unfold LoopInv at h; rw [hx] at h; exact h

theorem LoopInv.of_error {β : Type} {d : B} {p : Nat} {x : CE (β × Nat)} {e : Err} (h : LoopInv d p x)
    (hx : x.1 = .error e) : e ≠ .other ∧ x.2.w ≤ 4 * (d.length - p) + 16 := by
  unfold LoopInv at h; rw [hx] at h; exact h

/-- the loop: whatever the count, the items pay -/
theorem readCountC_loop {α : Type} {item : RC α} {d : B} (hi : ∀ p, p ≤ d.length → ItemInv d p (item d p))
    (n : Nat) (p : Nat) (hp : p ≤ d.length) : LoopInv d p (readCountC item n d p) := by
  induction n generalizing p with
  | zero =>
    unfold readCountC LoopInv
    exact ⟨Nat.le_refl _, hp, Nat.zero_le _⟩
  | succ n ih =>
    unfold readCountC
    rw [bind_ok' tick_fst]
    cases h1 : (item d p).1 with
    | error e' =>
      rw [bind_err' h1]
      have i1 := (hi p hp).of_error h1
      unfold LoopInv
      refine ⟨i1.1, ?_⟩
      show (PsdCost.tick.2 + (item d p).2).w ≤ _
      rw [w_add, tick_w]
      omega
    | ok y =>
      obtain ⟨a1, p1⟩ := y
      have i1 := (hi p hp).of_ok h1
      rw [bind_ok' h1]
      dsimp only
      cases h2 : (readCountC item n d p1).1 with
      | error e' =>
        rw [bind_err' h2]
        have i2 := (ih p1 i1.2.1).of_error h2
        unfold LoopInv
        refine ⟨i2.1, ?_⟩
        show (PsdCost.tick.2 + ((item d p).2 + (readCountC item n d p1).2)).w ≤ _
        rw [w_add, w_add, tick_w]
        omega
      | ok z =>
        obtain ⟨as, p2⟩ := z
        have i2 := (ih p1 i1.2.1).of_ok h2
        rw [bind_ok' h2]
        unfold LoopInv
        refine ⟨by dsimp only; omega, i2.2.1, ?_⟩
        show (PsdCost.tick.2 + ((item d p).2 + ((readCountC item n d p1).2 + (CE.ok (a1 :: as, p2) : CE (List α × Nat)).2))).w ≤ _
        rw [w_add, w_add, w_add, tick_w, ok_w]
        dsimp only
        omega

theorem readTagC_cost {d : B} {p : Nat} (hp : p ≤ d.length) : Cost 1 1 4 d p (readTagC d p) := by
  refine Cost.intro (fun t p' hx => ?_) (fun e hx => ?_)
  all_goals
    unfold readTagC rbindC at hx ⊢
    rw [bind_fst] at hx
    rw [bind_snd]
    have hc := readUpToC_cost 4 (d := d) (p := p) hp
  · cases h1 : (readUpToC 4 d p).1 with
    | error e1 => rw [h1] at hx; cases hx
    | ok y =>
      obtain ⟨b, p1⟩ := y
      rw [h1] at hx
      have c1 := hc.of_ok h1
      have l1 := readUpToC_ok h1
      dsimp only at hx ⊢
      cases ht : Tag.ofBytes b with
      | none => rw [ht] at hx; cases hx
      | some t' =>
        rw [ht] at hx
        cases hx
        have h4 := Tag.ofBytes_some ht
        refine ⟨by omega, c1.2.1, ?_⟩
        show ((readUpToC 4 d p).2 + (rpureC t d p').2).w ≤ _
        rw [w_add]
        have : (rpureC t d p').2.w = 0 := rfl
        omega
  · cases h1 : (readUpToC 4 d p).1 with
    | error e1 => exact absurd (h1 : readUpTo 4 d p = .error e1) (readUpTo_ne_error 4 d p e1)
    | ok y =>
      obtain ⟨b, p1⟩ := y
      rw [h1] at hx
      have c1 := hc.w_le
      dsimp only at hx ⊢
      cases ht : Tag.ofBytes b with
      | some t' => rw [ht] at hx; cases hx
      | none =>
        rw [ht] at hx
        cases hx
        refine ⟨by decide, ?_⟩
        show ((readUpToC 4 d p).2 + ((rfailC Err.valueError : RC Tag) d p1).2).w ≤ _
        rw [w_add]
        have : ((rfailC Err.valueError : RC Tag) d p1).2.w = 0 := rfl
        omega

/-- OSType, then the value -/
theorem taggedC_inv {rec : Tag → RC DVal} {d : B} (hr : ∀ t p, p ≤ d.length → ValInv d p (rec t d p))
    (p : Nat) (hp : p ≤ d.length) : ItemInv d p (taggedC rec d p) := by
  have h : Cost 4 11 4 d p (taggedC rec d p) := by
    apply Cost.mono
    case h =>
      unfold taggedC
      rb (readTagC_cost hp)
      exact hr _ _ (by assumption)
    all_goals decide
  -- sharper than `Cost`: the five units of the tag read are part of the four bytes it consumed
  unfold ItemInv
  unfold taggedC rbindC at h ⊢
  have hc := readTagC_cost (d := d) (p := p) hp
  cases h1 : (readTagC d p).1 with
  | error e1 =>
    rw [bind_err' h1]
    have c1 := hc.of_error h1
    exact ⟨c1.1, by dsimp only; omega⟩
  | ok y =>
    obtain ⟨t, p1⟩ := y
    have c1 := hc.of_ok h1
    have hv := hr t p1 c1.2.1
    rw [bind_ok' h1]
    dsimp only
    have hw1 : (readTagC d p).2.w ≤ 5 := by
      have := c1.2.2
      -- the tag is exactly four bytes: the read returned four bytes in one call
      have e4 : p1 = p + 4 := by
        have hx : (readTagC d p).1 = .ok (t, p1) := h1
        unfold readTagC rbindC at hx
        rw [bind_fst] at hx
        cases h0 : (readUpToC 4 d p).1 with
        | error e0 => rw [h0] at hx; cases hx
        | ok y0 =>
          obtain ⟨b, q⟩ := y0
          rw [h0] at hx
          dsimp only at hx
          have l0 := readUpToC_ok h0
          cases ht : Tag.ofBytes b with
          | none => rw [ht] at hx; cases hx
          | some t' =>
            rw [ht] at hx
            cases hx
            have := Tag.ofBytes_some ht
            omega
      omega
    cases h2 : (rec t d p1).1 with
    | error e2 =>
      have c2 := hv.of_error h2
      refine ⟨c2.1, ?_⟩
      show ((readTagC d p).2 + (rec t d p1).2).w + 1 ≤ _
      rw [w_add]
      omega
    | ok z =>
      obtain ⟨v, p2⟩ := z
      have c2 := hv.of_ok h2
      refine ⟨by omega, c2.2.1, ?_⟩
      show ((readTagC d p).2 + (rec t d p1).2).w + 1 ≤ _
      rw [w_add]
      omega

/-- key, OSType, value -/
theorem keyedC_inv (tb : Tables) {rec : Tag → RC DVal} {d : B} (hr : ∀ t p, p ≤ d.length → ValInv d p (rec t d p))
    (p : Nat) (hp : p ≤ d.length) : ItemInv d p (keyedC tb rec d p) := by
  unfold ItemInv
  unfold keyedC rbindC
  have hc := readKeyC_cost tb.terms (d := d) (p := p) hp
  cases h1 : (readKeyRC tb d p).1 with
  | error e1 =>
    rw [bind_err' h1]
    have c1 := hc.of_error h1
    exact ⟨c1.1, by dsimp only; have := c1.2; show (readKeyC tb.terms d p).2.w + 1 ≤ _; omega⟩
  | ok y =>
    obtain ⟨k, p1⟩ := y
    have c1 := hc.of_ok h1
    have hw1 : (readKeyRC tb d p).2.w ≤ (p1 - p) + 2 := by have := c1.2.2; show (readKeyC tb.terms d p).2.w ≤ _; omega
    have ht := taggedC_inv hr p1 c1.2.1
    rw [bind_ok' h1]
    dsimp only
    cases h2 : (taggedC rec d p1).1 with
    | error e2 =>
      rw [bind_err' h2]
      have c2 := ht.of_error h2
      refine ⟨c2.1, ?_⟩
      show ((readKeyRC tb d p).2 + (taggedC rec d p1).2).w + 1 ≤ _
      rw [w_add]
      omega
    | ok z =>
      obtain ⟨v, p2⟩ := z
      have c2 := ht.of_ok h2
      rw [bind_ok' h2]
      dsimp only
      refine ⟨by omega, c2.2.1, ?_⟩
      show ((readKeyRC tb d p).2 + ((taggedC rec d p1).2 + (rpureC (k, v) d p2).2)).w + 1 ≤ _
      rw [w_add, w_add]
      have : (rpureC (k, v) d p2).2.w = 0 := rfl
      omega

/-- a `LoopInv` step followed by a pure step, inside a `Cost` chain -/
theorem Cost.of_loop {β : Type} {d : B} {p : Nat} {x : CE (β × Nat)} (h : LoopInv d p x) : Cost 4 16 0 d p x := by
  refine Cost.intro (fun v p' hx => ?_) (fun e hx => ?_)
  · have := h.of_ok hx; exact ⟨by omega, this.2.1, by omega⟩
  · exact h.of_error hx

/-- name, class id, count, items: paid by its own header whatever the count -/
theorem readBodyC_cost (tb : Tables) {rec : Tag → RC DVal} {d : B} (hr : ∀ t p, p ≤ d.length → ValInv d p (rec t d p))
    (p : Nat) (hp : p ≤ d.length) : Cost 4 6 12 d p (readBodyC tb rec d p) := by
  refine Cost.intro (fun v p' hx => ?_) (fun e hx => ?_)
  all_goals
    unfold readBodyC rbindC at hx ⊢
    have hs := readUStrC_cost 1 (by decide) (d := d) (p := p) hp
  · cases h1 : (readStrC d p).1 with
    | error e1 => rw [bind_err' h1] at hx; cases hx
    | ok y1 =>
      obtain ⟨nm, p1⟩ := y1
      have c1 := hs.of_ok h1
      rw [bind_ok' h1] at hx ⊢
      dsimp only at hx ⊢
      have hk := readKeyC_cost tb.terms (d := d) (p := p1) c1.2.1
      cases h2 : (readKeyRC tb d p1).1 with
      | error e2 => rw [bind_err' h2] at hx; cases hx
      | ok y2 =>
        obtain ⟨cid, p2⟩ := y2
        have c2 := hk.of_ok h2
        rw [bind_ok' h2] at hx ⊢
        dsimp only at hx ⊢
        have hn := readUC_cost 4 (d := d) (p := p2)
        cases h3 : (readUC 4 d p2).1 with
        | error e3 => rw [bind_err' h3] at hx; cases hx
        | ok y3 =>
          obtain ⟨n, p3⟩ := y3
          have c3 := hn.of_ok h3
          rw [bind_ok' h3] at hx ⊢
          dsimp only at hx ⊢
          have hl := readCountC_loop (fun q hq => keyedC_inv tb hr q hq) n p3 c3.2.1
          cases h4 : (readCountC (keyedC tb rec) n d p3).1 with
          | error e4 => rw [bind_err' h4] at hx; cases hx
          | ok y4 =>
            obtain ⟨items, p4⟩ := y4
            have c4 := hl.of_ok h4
            rw [bind_ok' h4] at hx ⊢
            cases hx
            refine ⟨by omega, c4.2.1, ?_⟩
            show ((readStrC d p).2 + ((readKeyRC tb d p1).2 + ((readUC 4 d p2).2 + ((readCountC (keyedC tb rec) n d p3).2 +
              (rpureC (nm, cid, dictOf items) d p4).2)))).w ≤ _
            rw [w_add, w_add, w_add, w_add]
            have : (rpureC (nm, cid, dictOf items) d p4).2.w = 0 := rfl
            have := c1.2.2; have := c2.2.2; have := c3.2.2
            show (readUStrC 1 d p).2.w + ((readKeyC tb.terms d p1).2.w + _) ≤ _
            omega
  · cases h1 : (readStrC d p).1 with
    | error e1 =>
      rw [bind_err' h1] at hx ⊢
      cases hx
      have c1 := hs.of_error h1
      exact ⟨c1.1, by dsimp only; have := c1.2; show (readUStrC 1 d p).2.w ≤ _; omega⟩
    | ok y1 =>
      obtain ⟨nm, p1⟩ := y1
      have c1 := hs.of_ok h1
      rw [bind_ok' h1] at hx ⊢
      dsimp only at hx ⊢
      have hk := readKeyC_cost tb.terms (d := d) (p := p1) c1.2.1
      cases h2 : (readKeyRC tb d p1).1 with
      | error e2 =>
        rw [bind_err' h2] at hx ⊢
        cases hx
        have c2 := hk.of_error h2
        refine ⟨c2.1, ?_⟩
        show ((readStrC d p).2 + (readKeyRC tb d p1).2).w ≤ _
        rw [w_add]
        have := c1.2.2; have := c2.2
        show (readUStrC 1 d p).2.w + (readKeyC tb.terms d p1).2.w ≤ _
        omega
      | ok y2 =>
        obtain ⟨cid, p2⟩ := y2
        have c2 := hk.of_ok h2
        rw [bind_ok' h2] at hx ⊢
        dsimp only at hx ⊢
        have hn := readUC_cost 4 (d := d) (p := p2)
        cases h3 : (readUC 4 d p2).1 with
        | error e3 =>
          rw [bind_err' h3] at hx ⊢
          cases hx
          have c3 := hn.of_error h3
          refine ⟨c3.1, ?_⟩
          show ((readStrC d p).2 + ((readKeyRC tb d p1).2 + (readUC 4 d p2).2)).w ≤ _
          rw [w_add, w_add]
          have := c1.2.2; have := c2.2.2; have := c3.2
          show (readUStrC 1 d p).2.w + ((readKeyC tb.terms d p1).2.w + _) ≤ _
          omega
        | ok y3 =>
          obtain ⟨n, p3⟩ := y3
          have c3 := hn.of_ok h3
          rw [bind_ok' h3] at hx ⊢
          dsimp only at hx ⊢
          have hl := readCountC_loop (fun q hq => keyedC_inv tb hr q hq) n p3 c3.2.1
          cases h4 : (readCountC (keyedC tb rec) n d p3).1 with
          | ok y4 => obtain ⟨items, p4⟩ := y4; rw [bind_ok' h4] at hx; cases hx
          | error e4 =>
            rw [bind_err' h4] at hx ⊢
            cases hx
            have c4 := hl.of_error h4
            refine ⟨c4.1, ?_⟩
            show ((readStrC d p).2 + ((readKeyRC tb d p1).2 + ((readUC 4 d p2).2 + (readCountC (keyedC tb rec) n d p3).2))).w ≤ _
            rw [w_add, w_add, w_add]
            have := c1.2.2; have := c2.2.2; have := c3.2.2; have := c4.2
            show (readUStrC 1 d p).2.w + ((readKeyC tb.terms d p1).2.w + _) ≤ _
            omega

/-- count, then the items: the header pays for the constants -/
theorem decListC_inv {rec : Tag → RC DVal} {d : B} (hr : ∀ t p, p ≤ d.length → ValInv d p (rec t d p))
    (lt : ListTag) (p : Nat) (hp : p ≤ d.length) : ValInv d p (decListC rec lt d p) := by
  refine Cost.intro (fun v p' hx => ?_) (fun e hx => ?_)
  all_goals
    unfold decListC rbindC at hx ⊢
    have hn := readUC_cost 4 (d := d) (p := p)
  · cases h3 : (readUC 4 d p).1 with
    | error e3 => rw [bind_err' h3] at hx; cases hx
    | ok y3 =>
      obtain ⟨n, p3⟩ := y3
      have c3 := hn.of_ok h3
      rw [bind_ok' h3] at hx ⊢
      dsimp only at hx ⊢
      have hl := readCountC_loop (fun q hq => taggedC_inv hr q hq) n p3 c3.2.1
      cases h4 : (readCountC (taggedC rec) n d p3).1 with
      | error e4 => rw [bind_err' h4] at hx; cases hx
      | ok y4 =>
        obtain ⟨items, p4⟩ := y4
        have c4 := hl.of_ok h4
        rw [bind_ok' h4] at hx ⊢
        cases hx
        refine ⟨by omega, c4.2.1, ?_⟩
        show ((readUC 4 d p).2 + ((readCountC (taggedC rec) n d p3).2 + (rpureC (DVal.list lt items) d p4).2)).w ≤ _
        rw [w_add, w_add]
        have : (rpureC (DVal.list lt items) d p4).2.w = 0 := rfl
        have := c3.2.2
        omega
  · cases h3 : (readUC 4 d p).1 with
    | error e3 =>
      rw [bind_err' h3] at hx ⊢
      cases hx
      have c3 := hn.of_error h3
      exact ⟨c3.1, by dsimp only; have := c3.2; omega⟩
    | ok y3 =>
      obtain ⟨n, p3⟩ := y3
      have c3 := hn.of_ok h3
      rw [bind_ok' h3] at hx ⊢
      dsimp only at hx ⊢
      have hl := readCountC_loop (fun q hq => taggedC_inv hr q hq) n p3 c3.2.1
      cases h4 : (readCountC (taggedC rec) n d p3).1 with
      | ok y4 => obtain ⟨items, p4⟩ := y4; rw [bind_ok' h4] at hx; cases hx
      | error e4 =>
        rw [bind_err' h4] at hx ⊢
        cases hx
        have c4 := hl.of_error h4
        refine ⟨c4.1, ?_⟩
        show ((readUC 4 d p).2 + (readCountC (taggedC rec) n d p3).2).w ≤ _
        rw [w_add]
        have := c3.2.2; have := c4.2
        omega

theorem unitOfC_cost (tb : Tables) (b : B) {d : B} {p : Nat} (hp : p ≤ d.length) : Cost 0 0 0 d p (unitOfC tb b d p) := by
  unfold unitOfC
  split
  · exact Cost.rpure _ hp
  · split
    · exact Cost.rpure _ hp
    · exact Cost.rfail 0 (by decide)

theorem readF64s_ok {n : Nat} {d : B} {p : Nat} {v : List Nat} {p' : Nat} (h : readF64s n d p = .ok (v, p')) :
    p' = p + 8 * n ∧ p' ≤ d.length := by
  unfold readF64s at h
  split at h
  · rename_i hle
    have : ∀ (n : Nat) (p : Nat) (v : List Nat) (p' : Nat), readCount (readU 8) n d p = .ok (v, p') → p' = p + 8 * n := by
      intro n
      induction n with
      | zero => intro p v p' h; unfold readCount at h; cases h; omega
      | succ n ih =>
        intro p v p' h
        unfold readCount at h
        split at h
        · cases h
        · rename_i a p1 h1
          have := readU_ok h1
          split at h
          · cases h
          · rename_i as p2 h2
            cases h
            have := ih _ _ _ h2
            omega
    have := this n p v p' h
    omega
  · cases h

theorem readF64s_err {n : Nat} {d : B} {p : Nat} {e : Err} (h : readF64s n d p = .error e) : e = .ioError := by
  unfold readF64s at h
  split at h
  · have : ∀ (n : Nat) (p : Nat) (e : Err), readCount (readU 8) n d p = .error e → e = .ioError := by
      intro n
      induction n with
      | zero => intro p e h; unfold readCount at h; cases h
      | succ n ih =>
        intro p e h
        unfold readCount at h
        split at h
        · rename_i e1 h1; cases h; exact readU_err h1
        · split at h
          · rename_i e2 h2; cases h; exact ih _ _ h2
          · cases h
    exact this n p e h
  · cases h; rfl

theorem readF64sC_cost (n : Nat) {d : B} {p : Nat} (hp : p ≤ d.length) : Cost 1 1 0 d p (readF64sC n d p) := by
  unfold readF64sC
  refine prim_cost (fun v p' h => ?_) (fun e h => ?_)
  · have := readF64s_ok h
    exact ⟨by omega, this.2, Nat.zero_le _⟩
  · have := readF64s_err h
    subst this
    exact ⟨by decide, by omega⟩

theorem readI64C_cost {d : B} {p : Nat} (hp : p ≤ d.length) : Cost 1 1 8 d p (readI64C d p) := by
  apply Cost.mono
  case h => unfold readI64C; rb (readUC_cost 8); rdone
  all_goals decide

theorem readBoolC_cost' {d : B} {p : Nat} (hp : p ≤ d.length) : Cost 1 1 1 d p (DescriptorCost.readBoolC d p) := by
  apply Cost.mono
  case h => unfold DescriptorCost.readBoolC; rb (readUC_cost 1); rdone
  all_goals decide

/-- a value with values inside: the values inside obey `ValInv`, then so does the value -/
theorem decWithC_inv (tb : Tables) {rec : Tag → RC DVal} {d : B} (hr : ∀ t p, p ≤ d.length → ValInv d p (rec t d p))
    (t : Tag) (p : Nat) (hp : p ≤ d.length) : ValInv d p (decWithC tb rec t d p) := by
  have hint : ∀ it, ValInv d p (decIntC it d p) := fun it => by
    apply Cost.mono
    case h => unfold decIntC; rb readI32C_cost; rdone
    all_goals decide
  have hclass : ∀ ct, ValInv d p (decClassC tb ct d p) := fun ct => by
    apply Cost.mono
    case h => unfold decClassC; rb (readUStrC_cost 1); rb (readKeyC_cost tb.terms); rdone
    all_goals decide
  have hraw : ∀ rt, ValInv d p (decRawC rt d p) := fun rt => by
    apply Cost.mono
    case h => unfold decRawC; rb (readLenBlockC_cost 0 4 1); rdone
    all_goals decide
  have hlist : ∀ lt, ValInv d p (decListC rec lt d p) := fun lt => decListC_inv hr lt p hp
  have hdesc : ∀ dt, ValInv d p (decDescC tb rec dt d p) := fun dt => by
    apply Cost.mono
    case h => unfold decDescC; rb (readBodyC_cost tb hr p hp); rdone
    all_goals decide
  cases t <;> simp only [decWithC]
  case integer => exact hint _
  case identifier => exact hint _
  case index => exact hint _
  case largeInteger =>
    apply Cost.mono
    case h => rb (readI64C_cost hp); rdone
    all_goals decide
  case boolean =>
    apply Cost.mono
    case h => rb (readBoolC_cost' hp); rdone
    all_goals decide
  case double =>
    apply Cost.mono
    case h => rb (readUC_cost 8); rdone
    all_goals decide
  case unitFloat =>
    apply Cost.mono
    case h => rb (readNC_cost 4); rb (readUC_cost 8); rb (unitOfC_cost tb _ (by assumption)); rdone
    all_goals decide
  case unitFloats =>
    apply Cost.mono
    case h =>
      rb (readNC_cost 4); rb (readUC_cost 4); rb (unitOfC_cost tb _ (by assumption)); rb (readF64sC_cost _ (by assumption)); rdone
    all_goals decide
  case string =>
    apply Cost.mono
    case h => rb (readUStrC_cost 1); rdone
    all_goals decide
  case enumerated =>
    apply Cost.mono
    case h => rb (readKeyC_cost tb.terms); rb (readKeyC_cost tb.terms); rdone
    all_goals decide
  case enumeratedReference =>
    apply Cost.mono
    case h =>
      rb (readUStrC_cost 1); rb (readKeyC_cost tb.terms); rb (readKeyC_cost tb.terms); rb (readKeyC_cost tb.terms); rdone
    all_goals decide
  case class1 => exact hclass _
  case class2 => exact hclass _
  case class3 => exact hclass _
  case property =>
    apply Cost.mono
    case h => rb (readUStrC_cost 1); rb (readKeyC_cost tb.terms); rb (readKeyC_cost tb.terms); rdone
    all_goals decide
  case name =>
    apply Cost.mono
    case h => rb (readUStrC_cost 1); rb (readKeyC_cost tb.terms); rb (readUStrC_cost 1); rdone
    all_goals decide
  case offset =>
    apply Cost.mono
    case h => rb (readUStrC_cost 1); rb (readKeyC_cost tb.terms); rb (readUC_cost 4); rdone
    all_goals decide
  case rawData => exact hraw _
  case alias => exact hraw _
  case path => exact hraw _
  case list => exact hlist _
  case reference => exact hlist _
  case descriptor => exact hdesc _
  case globalObject => exact hdesc _
  case objectArray =>
    apply Cost.mono
    case h => rb (readUC_cost 4); rb (readBodyC_cost tb hr _ (by assumption)); rdone
    all_goals decide

/-- at every fuel (an exhausted fuel is `RecursionError`, which costs nothing more) -/
theorem decBodyC_inv (tb : Tables) (fuel : Nat) {d : B} (t : Tag) (p : Nat) (hp : p ≤ d.length) :
    ValInv d p (decBodyC tb fuel t d p) := by
  induction fuel generalizing t p with
  | zero => exact (Cost.rfail 0 (by decide)).mono (by decide) (by decide) (Nat.le_refl _)
  | succ fuel ih => exact decWithC_inv tb (fun t q hq => ih t q hq) t p hp

/-- `TYPES[t].read(fp)`: linear, whatever the nesting -/
theorem decC_cost (tb : Tables) (t : Tag) : CostR 4 10 0 (decC tb t) := fun _ p hp => decBodyC_inv tb _ t p hp

theorem Block.decC_cost (tb : Tables) : CostR 4 7 16 (Block.decC tb) := by
  intro d p hp
  apply Cost.mono
  case h =>
    unfold Block.decC
    rb (readUC_cost 4)
    rb (readBodyC_cost tb (fun t q hq => decBodyC_inv tb _ t q hq) _ (by assumption))
    split
    · exact Cost.rpure _ (by assumption)
    · exact Cost.rfail 0 (by decide)
  all_goals decide

theorem Block2.decC_cost (tb : Tables) : CostR 4 8 20 (Block2.decC tb) := by
  intro d p hp
  apply Cost.mono
  case h =>
    unfold Block2.decC
    rb (readUC_cost 4)
    rb (readUC_cost 4)
    rb (readBodyC_cost tb (fun t q hq => decBodyC_inv tb _ t q hq) _ (by assumption))
    split
    · exact Cost.rpure _ (by assumption)
    · exact Cost.rfail 0 (by decide)
  all_goals decide

end PsdVerif.DescriptorCost
