/-
Concrete documents used by Props/C01.lean and Props/C03.lean: a non-vacuity witness of `PSD.WF`
and one witness per (F) clause of `WF` (documents the library can build that do not survive
write → read).
-/
import PsdVerif.Model.Psd

namespace PsdVerif.Psd.Samples
open PsdVerif PsdVerif.Codec PsdVerif.Psd

def s8BIM : B := [56, 66, 73, 77]
def s8B64 : B := [56, 66, 54, 52]
def s8BPS : B := [56, 66, 80, 83]
def kNorm : B := [110, 111, 114, 109]      -- "norm"
def kPass : B := [112, 97, 115, 115]       -- "pass"
def kLsct : B := [108, 115, 99, 116]       -- "lsct" section divider
def kLnk2 : B := [108, 110, 107, 50]       -- "lnk2" (8-byte length in a PSB)
def kFMsk : B := [70, 77, 115, 107]        -- "FMsk" (8-byte length in a PSB)
def kLuni : B := [108, 117, 110, 105]      -- "luni"

def flagsDefault : LayerFlags := ⟨false, true, false, true, false, false, false, false⟩
def rangesDefault : BlendingRanges :=
  ⟨some ⟨0, 65535, 0, 65535⟩, some [⟨0, 65535, 0, 65535⟩, ⟨0, 65535, 0, 65535⟩, ⟨0, 65535, 0, 65535⟩]⟩

/-- section divider block: type (4 bytes) [+ "8BIM" + blend key] — opaque payload here -/
def divider (kind : UInt8) : TaggedBlock := ⟨s8BIM, kLsct, [0, 0, 0, kind]⟩

def groupEnd (name : B) : LayerRecord :=
  ⟨0, 0, 0, 0, [⟨0, 2⟩], s8BIM, kNorm, 255, 0, flagsDefault, none, rangesDefault, name, [divider 3]⟩

def groupOpen (name : B) : LayerRecord :=
  ⟨0, 0, 0, 0, [⟨0, 2⟩], s8BIM, kPass, 255, 0, flagsDefault, none, ⟨none, none⟩, name, [divider 1]⟩

def maskWithParameters : MaskData :=
  ⟨-1, 0, 3, 4, 255, ⟨false, true, false, false, true, false, false, false⟩,
   some ⟨some 200, some 4607182418800017408, none, some 4611686018427387904⟩,
   some ⟨⟨true, false, false, false, false, false, false, false⟩, 0, -2147483648, 1, 2, 2147483647⟩⟩

def maskedLayer : LayerRecord :=
  ⟨0, 0, 4, 4, [⟨0, 6⟩, ⟨-1, 3⟩, ⟨-2, 2⟩], s8BIM, kNorm, 128, 1, flagsDefault, some maskWithParameters,
   rangesDefault, [76, 49, 50], [⟨s8BIM, kLuni, [0, 0, 0, 1, 0, 76]⟩, ⟨s8BIM, kLnk2, [1, 2, 3, 4]⟩]⟩

def plainLayer : LayerRecord :=
  ⟨1, 1, 2, 2, [⟨0, 3⟩], s8BIM, kNorm, 255, 0, flagsDefault, some ⟨0, 0, 1, 1, 0, Flags8.ofNat 0, none, none⟩,
   rangesDefault, [], []⟩

/-- PSB; records of two nested groups (outer: masked layer + inner group with one layer); an
image resource with the odd-length name "abc"; 8-byte-length keys in the record and globally. -/
def sampleDoc : PSD :=
  { header := ⟨s8BPS, 2, 3, 4, 4, 8, 3⟩
    colorModeData := []
    resources := [⟨s8BIM, 1005, [97, 98, 99], [1, 2, 3]⟩, ⟨s8BIM, 1036, [], []⟩]
    layerAndMask :=
      { layerInfo := some
          { layerCount := -6
            records := some [groupEnd [60, 47, 111, 62], groupEnd [60, 47, 105, 62], plainLayer, groupOpen [105],
                              maskedLayer, groupOpen [111]]
            channels := some [[⟨0, []⟩], [⟨0, []⟩], [⟨1, [9]⟩], [⟨0, []⟩],
                              [⟨0, [1, 2, 3, 4]⟩, ⟨1, [5]⟩, ⟨0, []⟩], [⟨0, []⟩]] }
        globalMask := some ⟨some [0, 65535, 0, 0, 0], 50, 128⟩
        taggedBlocks := some [⟨s8B64, kFMsk, [0, 1, 2, 3, 4]⟩] }
    imageData := ⟨0, [1, 2, 3, 4, 5, 6]⟩ }

/-! ### documents excluded by an (F) clause of `WF` -/

def hdr1 : Header := ⟨s8BPS, 1, 3, 1, 1, 8, 3⟩
def img20 : ImageData := ⟨0, List.replicate 20 0⟩
def oneRecord (rg : BlendingRanges) : LayerInfo :=
  ⟨1, some [⟨0, 0, 0, 0, [⟨0, 5⟩], s8BIM, kNorm, 255, 0, flagsDefault, none, rg, [], []⟩], some [[⟨0, [1, 2, 3]⟩]]⟩
def mk (lm : LayerAndMask) (img : ImageData) : PSD := ⟨hdr1, [], [], lm, img⟩

/-- `LayerInfo(0, LayerRecords([]), ChannelImageData([]))` -/
def count0EmptyLists : PSD := mk ⟨some ⟨0, some [], some []⟩, some glmDefault, some []⟩ img20
/-- `LayerBlendingRanges(composite, None)` -/
def rangesCompositeOnly : PSD :=
  mk ⟨some (oneRecord ⟨some ⟨0, 1, 2, 3⟩, none⟩), some glmDefault, some []⟩ img20
/-- `LayerBlendingRanges(None, [])` -/
def rangesEmptyList : PSD := mk ⟨some (oneRecord ⟨none, some []⟩), some glmDefault, some []⟩ img20
/-- `GlobalLayerMaskInfo(None, opacity=7, kind=0)` -/
def glmNotStored : PSD := mk ⟨some (oneRecord rangesDefault), some ⟨none, 7, 0⟩, some []⟩ img20
/-- API-shaped section (`LayerInfo`, `GlobalLayerMaskInfo()`, `TaggedBlocks()`) followed by 5 bytes of image data -/
def glmShortTail : PSD := mk ⟨some (oneRecord rangesDefault), some glmDefault, some []⟩ ⟨0, [1, 2, 3]⟩
/-- `tagged_blocks=None` next to a layer info -/
def lamTaggedNone : PSD := mk ⟨some (oneRecord rangesDefault), some glmDefault, none⟩ img20
/-- `LayerAndMaskInformation(None, None, TaggedBlocks())` -/
def lamEmptyDictOnly : PSD := mk ⟨none, none, some []⟩ img20

/-! ### documents outside `SpecShaped` (C03) -/

def kArtd : B := [97, 114, 116, 100]       -- "artd": 8-byte length for psd-tools, not in the specification's list
def hdr2 : Header := ⟨s8BPS, 2, 3, 1, 1, 8, 3⟩

/-- a layer record with an odd-length raw tagged block (`TaggedBlock(key=b'abcd', data=b'xyz')`) -/
def oddBlockInRecord : PSD :=
  mk ⟨some ⟨1, some [⟨0, 0, 0, 0, [⟨0, 5⟩], s8BIM, kNorm, 255, 0, flagsDefault, none, rangesDefault, [],
        [⟨s8BIM, [97, 98, 99, 100], [120, 121, 122]⟩]⟩], some [[⟨0, [1, 2, 3]⟩]]⟩, some glmDefault, some []⟩ img20

/-- a PSB with a global `artd` block -/
def unconfirmedKeyPsb : PSD :=
  ⟨hdr2, [], [], ⟨some ⟨0, none, none⟩, some glmDefault, some [⟨s8BIM, kArtd, [1, 2, 3, 4]⟩]⟩, img20⟩

end PsdVerif.Psd.Samples
