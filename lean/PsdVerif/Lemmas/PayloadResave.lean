/-
C02 on the payload layer — the generic laws, proved once per combinator of Model/Payload3Base.lean.

`DecOK c` (`dec_returns_encodable` + nothing is normalised out of the domain of C01's round trip) is preserved by every
combinator; with the round-trip law `RtAtEnd` of C01 it gives `Stable c`, the three clauses of C02 for one payload
(`stable_of`). `blocked` is the one combinator with a derived length (the length field of the re-encoded block): its law is
the `…If` form, with exactly that length as the hypothesis (the analogue of `PSD.LenFits` in Props/C02.lean).
-/
import PsdVerif.Lemmas.PayloadResaveFmt

namespace PsdVerif.Payload3
open PsdVerif PsdVerif.Codec PsdVerif.Payload PsdVerif.Payload.PCodec

variable {α β : Type}

/-! ### the two forms -/

theorem DecOK.toIf {c : PCodec α} (h : DecOK c) (L : α → Prop) : DecOKIf c L :=
  fun d p v p' hd _ => h d p v p' hd

theorem DecOKIf.ofTrue {c : PCodec α} (h : DecOKIf c (fun _ => True)) : DecOK c :=
  fun d p v p' hd => h d p v p' hd trivial

theorem DecOKIf.mono {c : PCodec α} {L L' : α → Prop} (h : DecOKIf c L) (hl : ∀ v, L' v → L v) : DecOKIf c L' :=
  fun d p v p' hd l => h d p v p' hd (hl v l)

/-- `dec_returns_encodable`: whatever the reader returns, `tobytes()` succeeds on -/
theorem DecOK.encodable {c : PCodec α} (h : DecOK c) {d : B} {p : Nat} {v : α} {p' : Nat} (hd : c.dec d p = .ok (v, p')) :
    Encodable c v :=
  ⟨c.encT v, by simp only [PCodec.enc, if_pos (h d p v p' hd).2]⟩

theorem DecOKIf.encodable {c : PCodec α} {L : α → Prop} (h : DecOKIf c L) {d : B} {p : Nat} {v : α} {p' : Nat}
    (hd : c.dec d p = .ok (v, p')) (hl : L v) : Encodable c v :=
  ⟨c.encT v, by simp only [PCodec.enc, if_pos (h d p v p' hd hl).2]⟩

/-- the three clauses of the property for one payload: `DecOK` + C01's round trip -/
theorem stableIf_of {c : PCodec α} {L : α → Prop} (h : DecOKIf c L) (hr : c.RtAtEnd) : StableIf c L := by
  intro b v n hd hl
  obtain ⟨hwf, hfits⟩ := h b 0 v n hd hl
  have henc : c.enc v = .ok (c.encT v) := by simp only [PCodec.enc, if_pos hfits]
  have hrt := hr v hwf hfits (c.encT v) 0 (At.self _) (by omega)
  simp only [Nat.zero_add] at hrt
  refine ⟨c.encT v, henc, hrt, ?_⟩
  intro v' n' hd'
  rw [hrt] at hd'
  cases hd'
  exact ⟨rfl, henc⟩

theorem stable_of {c : PCodec α} (h : DecOK c) (hr : c.RtAtEnd) : Stable c := stableIf_of (h.toIf _) hr

/-! ### combinators -/

theorem rec_decOK (fs : List FI) (hok : fs.all FI.ok = true) : DecOK (rec fs) := by
  intro d p v p' hd
  obtain ⟨a, b, _⟩ := fmtDec_ok fs hok hd
  exact ⟨b, a⟩

theorem seq_decOKIf {a : PCodec α} {b : PCodec β} {La : α → Prop} {Lb : β → Prop} (ha : DecOKIf a La) (hb : DecOKIf b Lb) :
    DecOKIf (seq a b) (fun v => La v.1 ∧ Lb v.2) := by
  intro d p v p' hd
  simp only [seq, bind, Except.bind] at hd
  split at hd
  · cases hd
  · rename_i x hx
    obtain ⟨x1, q⟩ := x
    simp only at hd
    split at hd
    · cases hd
    · rename_i y hy
      obtain ⟨y1, q'⟩ := y
      cases hd
      intro l
      obtain ⟨w1, f1⟩ := ha d p x1 q hx l.1
      obtain ⟨w2, f2⟩ := hb d q y1 _ hy l.2
      exact ⟨⟨w1, w2⟩, ⟨f1, f2⟩⟩

theorem seq_decOK {a : PCodec α} {b : PCodec β} (ha : DecOK a) (hb : DecOK b) : DecOK (seq a b) :=
  ((seq_decOKIf (ha.toIf (fun _ => True)) (hb.toIf (fun _ => True))).mono (L' := fun _ => True) (fun _ _ => ⟨trivial, trivial⟩)).ofTrue

theorem items_ok {c : PCodec α} {L : α → Prop} (hc : DecOKIf c L) {d : B} {vs : List α}
    (h : ∀ x ∈ vs, FromItem c.dec d x) (hl : ∀ v ∈ vs, L v) : (∀ v ∈ vs, c.WF v) ∧ listFits c.Fits vs := by
  refine ⟨fun v hv => ?_, fun v hv => ?_⟩
  · obtain ⟨q, q', hq⟩ := h v hv; exact (hc d q v q' hq (hl v hv)).1
  · obtain ⟨q, q', hq⟩ := h v hv; exact (hc d q v q' hq (hl v hv)).2

theorem counted_decOKIf {c : PCodec α} {L : α → Prop} (w : Nat) (hc : DecOKIf c L) :
    DecOKIf (counted w c) (fun vs => ∀ v ∈ vs, L v) := by
  intro d p vs p' hd
  simp only [counted, bind, Except.bind] at hd
  split at hd
  · cases hd
  · rename_i x hx
    obtain ⟨n, q⟩ := x
    simp only at hd
    obtain ⟨hlen, hitems⟩ := readCount_ok hd
    intro hl
    obtain ⟨hw, hf⟩ := items_ok hc hitems hl
    refine ⟨hw, ⟨?_, hf⟩⟩
    rw [hlen]; exact (readU_ok hx).1

theorem counted_decOK {c : PCodec α} (w : Nat) (hc : DecOK c) : DecOK (counted w c) :=
  ((counted_decOKIf w (hc.toIf (fun _ => True))).mono (L' := fun _ => True) (fun _ _ _ _ => trivial)).ofTrue

theorem exactly_decOKIf {c : PCodec α} {L : α → Prop} (n : Nat) (hc : DecOKIf c L) :
    DecOKIf (exactly n c) (fun vs => ∀ v ∈ vs, L v) := by
  intro d p vs p' hd
  obtain ⟨hlen, hitems⟩ := readCount_ok (show readCount c.dec n d p = .ok (vs, p') from hd)
  intro hl
  obtain ⟨hw, hf⟩ := items_ok hc hitems hl
  exact ⟨⟨hlen, hw⟩, hf⟩

theorem exactly_decOK {c : PCodec α} (n : Nat) (hc : DecOK c) : DecOK (exactly n c) :=
  ((exactly_decOKIf n (hc.toIf (fun _ => True))).mono (L' := fun _ => True) (fun _ _ _ _ => trivial)).ofTrue

theorem whileR_decOKIf {c : PCodec α} {L : α → Prop} (n pad : Nat) (hc : DecOKIf c L) :
    DecOKIf (whileR n pad c) (fun vs => ∀ v ∈ vs, L v) := by
  intro d p vs p' hd
  have hitems : ∀ x ∈ vs, FromItem c.dec d x := by
    intro x hx
    obtain ⟨q, q', _, hq⟩ := readWhile_ok (show readWhile (isReadable n) (optItem c.dec) d p = .ok (vs, p') from hd) x hx
    exact ⟨q, q', optItem_some hq⟩
  exact items_ok hc hitems

theorem whileR_decOK {c : PCodec α} (n pad : Nat) (hc : DecOK c) : DecOK (whileR n pad c) :=
  ((whileR_decOKIf n pad (hc.toIf (fun _ => True))).mono (L' := fun _ => True) (fun _ _ _ _ => trivial)).ofTrue

theorem padded_decOKIf {c : PCodec α} {L : α → Prop} (pad : Nat) (hc : DecOKIf c L) : DecOKIf (padded pad c) L :=
  fun d p v p' hd => hc d p v p' hd

theorem padded_decOK {c : PCodec α} (pad : Nat) (hc : DecOK c) : DecOK (padded pad c) :=
  fun d p v p' hd => hc d p v p' hd

theorem checked_decOKIf {c : PCodec α} {L : α → Prop} {ok : α → Prop} [DecidablePred ok] {e : Err} (hc : DecOKIf c L) :
    DecOKIf (checked c ok e) L := by
  intro d p v p' hd
  simp only [checked, bind, Except.bind] at hd
  split at hd
  · cases hd
  · rename_i x hx
    obtain ⟨x1, q⟩ := x
    simp only at hd
    split at hd
    · rename_i hok
      cases hd
      intro l
      obtain ⟨w1, f1⟩ := hc d p _ _ hx l
      exact ⟨⟨w1, hok⟩, f1⟩
    · cases hd

theorem checked_decOK {c : PCodec α} {ok : α → Prop} [DecidablePred ok] {e : Err} (hc : DecOK c) : DecOK (checked c ok e) :=
  (checked_decOKIf (hc.toIf (fun _ => True))).ofTrue

theorem tailBytes_decOK : DecOK tailBytes := fun _ _ _ _ _ => ⟨trivial, trivial⟩

theorem pascal_decOK (pw pr : Nat) : DecOK (pascal pw pr) :=
  fun d p v p' hd => ⟨trivial, readPascal_ok (show readPascal pr d p = .ok (v, p') from hd)⟩

/-- the first character of what `decode("utf-16-be", "surrogatepass")` returns is the first unit or a character beyond
the BMP -/
theorem decUnits_head (u : Nat) (r : List Nat) : ∃ t, Unicode.decUnits (u :: r) = u :: t ∨
    ∃ x, Unicode.decUnits (u :: r) = x :: t ∧ 0x10000 ≤ x := by
  cases r with
  | nil => exact ⟨[], Or.inl rfl⟩
  | cons v r =>
    simp only [Unicode.decUnits]
    split
    · exact ⟨_, Or.inr ⟨_, rfl, by omega⟩⟩
    · exact ⟨_, Or.inl rfl⟩

/-- decoding never leaves a high surrogate directly before a low one: the string read is in the domain of C19's law -/
theorem decUnits_noPair : ∀ us : List Nat, Unicode.NoPair (Unicode.decUnits us) := by
  intro us
  fun_induction Unicode.decUnits us with
  | case1 => trivial
  | case2 u => trivial
  | case3 u v r hp ih =>
    cases hr : Unicode.decUnits r with
    | nil => trivial
    | cons y t =>
      rw [hr] at ih
      refine ⟨?_, ih⟩
      unfold Unicode.isHigh
      omega
  | case4 u v r hp ih =>
    obtain ⟨t, ht⟩ := decUnits_head v r
    rcases ht with ht | ⟨x, ht, hx⟩
    · rw [ht] at ih ⊢
      exact ⟨hp, ih⟩
    · rw [ht] at ih ⊢
      refine ⟨?_, ih⟩
      unfold Unicode.isLow
      omega

theorem readUStr_ok {pad : Nat} {d : B} {p : Nat} {s : Payload.Str} {p' : Nat} (h : readUStr pad d p = .ok (s, p')) :
    Unicode.PyStr s ∧ Unicode.NoPair s ∧ (Unicode.encUnits s).length < 4294967296 := by
  unfold readUStr Unicode.readUnicodeString at h
  split at h
  · cases h
  · rename_i n p1 h32
    obtain ⟨hn, _⟩ := Unicode.readU32_spec d p n p1 h32
    simp only at h
    split at h
    · cases h
    · split at h
      · cases h
      · rename_i us hus
        simp only [Except.ok.injEq, Prod.mk.injEq] at h
        obtain ⟨rfl, _⟩ := h
        obtain ⟨hlt, hlen⟩ := Unicode.unitsOfBytes_spec _ us hus
        have hsl := Unicode.slice_length_le d p1 (2 * n)
        refine ⟨Unicode.decUnits_pyStr us hlt, decUnits_noPair us, ?_⟩
        rw [Unicode.encUnits_decUnits us hlt]
        omega

theorem stringElement_decOK (pw pr : Nat) (hp : pr = 1 ∨ pr = pw) (hw : pw ≠ 0) : DecOK (StringElement.codec pw pr) := by
  intro d p s p' hd
  obtain ⟨h1, h2, h3⟩ := readUStr_ok (show readUStr pr d p = .ok (s, p') from hd)
  exact ⟨⟨h1, h2, hp, hw⟩, h3⟩

theorem ustr_decOK : DecOK ustr := stringElement_decOK 1 1 (Or.inl rfl) (by decide)

/-- the one combinator with a derived length: the length field of the re-encoded block -/
theorem blocked_decOKIf {c : PCodec α} {L : α → Prop} (w pad : Nat) (hc : DecOKIf c L) :
    DecOKIf (blocked w pad c) (fun v => L v ∧ FitsU w (c.encT v).length) := by
  intro d p v p' hd
  simp only [blocked, bind, Except.bind] at hd
  split at hd
  · cases hd
  · rename_i x hx
    obtain ⟨data, q⟩ := x
    simp only at hd
    split at hd
    · cases hd
    · rename_i y hy
      obtain ⟨v1, q'⟩ := y
      cases hd
      intro l
      obtain ⟨w1, f1⟩ := hc data 0 v1 q' hy l.1
      exact ⟨w1, ⟨f1, l.2⟩⟩

/-- ... and that hypothesis is exact: the writer accepts a decoded block iff the re-encoded body fits the length field -/
theorem blocked_fits_iff {c : PCodec α} (w pad : Nat) (v : α) (hf : c.Fits v) :
    (blocked w pad c).Fits v ↔ FitsU w (c.encT v).length :=
  ⟨fun h => h.2, fun h => ⟨hf, h⟩⟩

theorem optTail_decOKIf {c : PCodec α} {L : α → Prop} (hc : DecOKIf c L) : DecOKIf (optTail c) (optFits L) := by
  intro d p o p' hd
  simp only [optTail] at hd
  split at hd
  · split at hd
    · rename_i v q hq
      cases hd
      intro l
      exact hc d p _ _ hq l
    · cases hd
  · cases hd
    exact fun _ => ⟨trivial, trivial⟩

theorem optTail_decOK {c : PCodec α} (hc : DecOK c) : DecOK (optTail c) :=
  ((optTail_decOKIf (hc.toIf (fun _ => True))).mono (L' := fun _ => True) (fun o _ => by cases o <;> simp only [optFits])).ofTrue

/-! ### inverting hand-written readers -/

/-- invert one `match r with | .error e => .error e | .ok v => …` (or an `if` one of whose branches is an error) in `h`:
the branches that cannot produce `.ok` are closed, the hypothesis is simplified -/
syntax "ebind " ident : tactic
macro_rules
  | `(tactic| ebind $h) => `(tactic| ((split at $h:ident <;> first | (cases $h:ident; done) | skip); try simp only at $h:ident))

theorem rows_ok {fs : List FI} (hok : fs.all FI.ok = true) {d : B} {xs : List Row}
    (h : ∀ x ∈ xs, FromItem (fmtDec fs) d x) : listFits (fmtFits fs) xs ∧ ∀ x ∈ xs, fmtWF fs x := by
  refine ⟨fun x hx => ?_, fun x hx => ?_⟩
  · obtain ⟨q, q', hq⟩ := h x hx; exact (fmtDec_ok fs hok hq).1
  · obtain ⟨q, q', hq⟩ := h x hx; exact (fmtDec_ok fs hok hq).2.1

end PsdVerif.Payload3
