/-
Lemmas for C18: byte-level escaping of `String` and the end of a string token.
Core Lean only.
-/
import PsdVerif.Model.EngineData

namespace PsdVerif.EngineData

/-- One-pass escaping: a backslash in front of every byte selected by `p`. -/
def escBy (p : UInt8 → Bool) : BL → BL
  | [] => []
  | b :: t => if p b then 0x5C :: b :: escBy p t else b :: escBy p t

theorem escBy_false (v : BL) : escBy (fun _ => false) v = v := by
  induction v with
  | nil => rfl
  | cons b t ih => simp [escBy, ih]

theorem replace1_escBy (p : UInt8 → Bool) (x : UInt8) (hx : x ≠ 0x5C) (hp : p x = false) (v : BL) :
    replace1 x [0x5C, x] (escBy p v) = escBy (fun b => p b || b == x) v := by
  induction v with
  | nil => rfl
  | cons b t ih =>
    by_cases hb : p b = true
    · have hbx : b ≠ x := by intro h; rw [h, hp] at hb; cases hb
      have h5 : (0x5C : UInt8) ≠ x := fun h => hx h.symm
      simp [escBy, replace1, hb, hbx, h5, ih]
    · by_cases hbx : b = x
      · subst hbx; simp [escBy, replace1, hb, ih]
      · simp [escBy, replace1, hb, hbx, ih]

theorem escape_eq (v : BL) :
    escape v = escBy (fun b => b == 0x5C || b == 0x28 || b == 0x29) v := by
  have h1 : replace1 0x5C [0x5C, 0x5C] v = escBy (fun b => b == 0x5C) v := by
    induction v with
    | nil => rfl
    | cons b t ih => by_cases hb : b = 0x5C <;> simp [escBy, replace1, hb, ih]
  unfold escape
  rw [h1, replace1_escBy _ 0x28 (by decide) (by decide), replace1_escBy _ 0x29 (by decide) (by decide)]

theorem replace2_cons (x y : UInt8) (r : BL) (a : UInt8) (l : BL)
    (h : a ≠ x ∨ l.head? ≠ some y) : replace2 x y r (a :: l) = a :: replace2 x y r l := by
  cases l with
  | nil => simp [replace2]
  | cons b t =>
    have : ¬ (a = x ∧ b = y) := by
      rintro ⟨h1, h2⟩
      cases h with
      | inl h => exact h h1
      | inr h => simp [h2] at h
    simp [replace2, this]

theorem escBy_head (p : UInt8 → Bool) (t : BL) (y : UInt8) (h : (escBy p t).head? = some y) :
    y = 0x5C ∨ p y = false := by
  cases t with
  | nil => simp [escBy] at h
  | cons b t =>
    by_cases hb : p b = true
    · simp [escBy, hb] at h; exact Or.inl h.symm
    · simp [escBy, hb] at h; subst h; right; simpa using hb

theorem replace2_escBy (p : UInt8 → Bool) (c : UInt8) (hc : p c = true)
    (h5 : p 0x5C = true → c = 0x5C) (v : BL) :
    replace2 0x5C c [c] (escBy p v) = escBy (fun b => p b && b != c) v := by
  induction v with
  | nil => rfl
  | cons b t ih =>
    by_cases hb : p b = true
    · by_cases hbc : b = c
      · subst hbc
        simp [escBy, hb, replace2, ih]
      · have hb5 : b ≠ 0x5C := by
          intro h; subst h; exact hbc (h5 hb).symm
        have e1 : replace2 0x5C c [c] (0x5C :: b :: escBy p t) = 0x5C :: replace2 0x5C c [c] (b :: escBy p t) :=
          replace2_cons _ _ _ _ _ (Or.inr (by simp [hbc]))
        have e2 : replace2 0x5C c [c] (b :: escBy p t) = b :: replace2 0x5C c [c] (escBy p t) :=
          replace2_cons _ _ _ _ _ (Or.inl hb5)
        simp [escBy, hb, hbc, e1, e2, ih]
    · have e1 : replace2 0x5C c [c] (b :: escBy p t) = b :: replace2 0x5C c [c] (escBy p t) := by
        apply replace2_cons
        by_cases hb5 : b = 0x5C
        · right
          intro hh
          rcases escBy_head p t c hh with h | h
          · subst hb5; rw [h] at hc; exact hb hc
          · rw [hc] at h; cases h
        · exact Or.inl hb5
      simp [escBy, hb, e1, ih]

theorem unescape_escape' (b : BL) : unescape (escape b) = b := by
  rw [escape_eq]
  unfold unescape
  rw [replace2_escBy _ 0x5C (by decide) (by intro _; rfl)]
  rw [replace2_escBy _ 0x28 (by decide) (by intro h; revert h; decide)]
  rw [replace2_escBy _ 0x29 (by decide) (by intro h; revert h; decide)]
  have : (fun b : UInt8 => (((b == 0x5C || b == 0x28 || b == 0x29) && b != 0x5C) && b != 0x28) && b != 0x29)
      = fun _ => false := by
    funext b
    by_cases h1 : b = 0x5C <;> by_cases h2 : b = 0x28 <;> by_cases h3 : b = 0x29 <;> simp [h1, h2, h3]
  rw [this, escBy_false]


/-! ### The string token -/

/-- The escaping predicate of `String.write`. -/
def p3 : UInt8 → Bool := fun b => b == 0x5C || b == 0x28 || b == 0x29

theorem strScan_escBy (u rest : BL) :
    strScan (escBy p3 u ++ 0x29 :: rest) = some (escBy p3 u ++ [0x29], rest) := by
  induction u with
  | nil => rw [strScan.eq_def]; simp [escBy]
  | cons b t ih =>
    by_cases hb : p3 b = true
    · rw [strScan.eq_def]; simp [escBy, hb, ih]
    · have h1 : b ≠ 0x29 := by intro h; subst h; exact hb (by decide)
      have h2 : b ≠ 0x5C := by intro h; subst h; exact hb (by decide)
      rw [strScan.eq_def]; simp [escBy, hb, ih, h1, h2]

theorem strBytes_eq (u : BL) : strBytes u = 0x28 :: 0xFE :: 0xFF :: (escBy p3 u ++ [0x29]) := by
  unfold strBytes; rw [escape_eq]; rfl

theorem strToken_strBytes (u rest : BL) : strToken (strBytes u ++ rest) = some (strBytes u, rest) := by
  rw [strBytes_eq]
  simp [strToken, strScan_escBy]

theorem next_strBytes (u rest : BL) : next (strBytes u ++ rest) = .ok (some (strBytes u, rest)) := by
  have h := strToken_strBytes u rest
  rw [strBytes_eq] at h ⊢
  simp only [List.cons_append, List.append_assoc, List.nil_append] at h ⊢
  simp [next, strStart, h]

theorem strTail_escBy (u : BL) (prev : Bool) : strTail prev (escBy p3 u ++ [0x29]) = true := by
  induction u generalizing prev with
  | nil => simp [escBy, strTail, isEnd]
  | cons b t ih =>
    by_cases hb : p3 b = true
    · by_cases h1 : b = 0x29
      · subst h1
        have : p3 41 = true := by decide
        simp [escBy, this, strTail, ih]
      · simp [escBy, hb, strTail, ih, h1]
    · have h1 : b ≠ 0x29 := by intro h; subst h; exact hb (by decide)
      simp [escBy, hb, strTail, ih, h1]

theorem classify_strBytes (u : BL) : classify (strBytes u) = some .string := by
  rw [strBytes_eq]
  simp [classify, reArrayEnd, reArrayStart, reBoolean, reDictEnd, reDictStart, reNoop, reNumber,
    reNumberDec, reProperty, reString, stripPre, cTrue, cFalse, isEnd, optMinus, isDigit, strTail_escBy]

/-! ### UTF-16 -/

/-- The 16-bit units of one code point. -/
def cpUnits (c : Nat) : List Nat :=
  if c < 0x10000 then [c] else [0xD800 + (c - 0x10000) / 0x400, 0xDC00 + (c - 0x10000) % 0x400]

theorem units_encUnit (u : Nat) (hu : u < 65536) (rest : BL) (us : List Nat)
    (h : units true rest = .ok us) : units true (encUnit u ++ rest) = .ok (u :: us) := by
  have e : (UInt8.ofNat (u / 256)).toNat * 256 + (UInt8.ofNat (u % 256)).toNat = u := by
    simp only [UInt8.toNat_ofNat']
    omega
  simp only [encUnit, List.cons_append, List.nil_append, units, h, if_true, e]

theorem units_utf16be (s : List Nat) (hs : s.all isScalar = true) :
    units true (utf16be s) = .ok (s.flatMap cpUnits) := by
  induction s with
  | nil => rfl
  | cons c t ih =>
    simp only [List.all_cons, Bool.and_eq_true] at hs
    have ih := ih hs.2
    have hc := hs.1
    simp only [isScalar, Bool.or_eq_true, decide_eq_true_eq, Bool.and_eq_true] at hc
    simp only [utf16be, List.flatMap_cons] at ih ⊢
    unfold encodeCp cpUnits
    by_cases h : c < 0x10000
    · simp only [h, if_true]
      exact units_encUnit c h _ _ ih
    · simp only [h, if_false, List.append_assoc]
      apply units_encUnit _ (by omega)
      exact units_encUnit _ (by omega) _ _ ih

theorem decUnits_cpUnits (s : List Nat) (hs : s.all isScalar = true) :
    decUnits (s.flatMap cpUnits) = .ok s := by
  induction s with
  | nil => rfl
  | cons c t ih =>
    simp only [List.all_cons, Bool.and_eq_true] at hs
    have ih := ih hs.2
    have hc := hs.1
    simp only [isScalar, Bool.or_eq_true, decide_eq_true_eq, Bool.and_eq_true] at hc
    simp only [List.flatMap_cons]
    by_cases h : c < 0x10000
    · have h' : c < 0xD800 ∨ 0xE000 ≤ c := by omega
      have hcp : cpUnits c = [c] := by simp [cpUnits, h]
      rw [hcp, List.singleton_append, decUnits.eq_def]
      simp [h', ih]
    · have hcp : cpUnits c = [0xD800 + (c - 0x10000) / 0x400, 0xDC00 + (c - 0x10000) % 0x400] := by
        simp [cpUnits, h]
      rw [hcp]
      have a1 : ¬ (0xD800 + (c - 0x10000) / 0x400 < 0xD800 ∨ 0xE000 ≤ 0xD800 + (c - 0x10000) / 0x400) := by omega
      have a2 : 0xD800 + (c - 0x10000) / 0x400 < 0xDC00 := by omega
      have a3 : 0xDC00 ≤ 0xDC00 + (c - 0x10000) % 0x400 ∧ 0xDC00 + (c - 0x10000) % 0x400 < 0xE000 := by omega
      have a4 : 0x10000 + (0xD800 + (c - 0x10000) / 0x400 - 0xD800) * 0x400
          + (0xDC00 + (c - 0x10000) % 0x400 - 0xDC00) = c := by omega
      simp only [List.cons_append, List.nil_append, decUnits, a1, a2, a3, a4, ih, if_true, if_false, and_self]

theorem decodeUtf16_utf16be (s : List Nat) (hs : s.all isScalar = true) :
    decodeUtf16 (0xFE :: 0xFF :: utf16be s) = .ok s := by
  simp [decodeUtf16, decodeWith, units_utf16be s hs, decUnits_cpUnits s hs]

theorem unescape_bom (x : BL) : unescape (0xFE :: 0xFF :: x) = 0xFE :: 0xFF :: unescape x := by
  unfold unescape
  simp [replace2_cons]

/-- `String.frombytes(String.write(s)) = s` at the level of the token. -/
theorem valueOfToken_strBytes (s : List Nat) (hs : s.all isScalar = true) :
    valueOfToken .string (strBytes (utf16be s)) = some (.ok (.str s)) := by
  have h : ((strBytes (utf16be s)).drop 1).dropLast = 0xFE :: 0xFF :: escape (utf16be s) := by
    show (0xFE :: 0xFF :: (escape (utf16be s) ++ [0x29])).dropLast = _
    rw [show (0xFE : UInt8) :: 0xFF :: (escape (utf16be s) ++ [0x29])
          = (0xFE :: 0xFF :: escape (utf16be s)) ++ [0x29] from rfl, List.dropLast_concat]
  simp only [valueOfToken, h, unescape_bom, unescape_escape', decodeUtf16_utf16be s hs]

end PsdVerif.EngineData
