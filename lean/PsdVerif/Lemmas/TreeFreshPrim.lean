/-
C14 — the primitive mutations keep the caches of attached containers fresh.
-/
import PsdVerif.Lemmas.TreeFrame

namespace PsdVerif.TreeSt

/-- the repairs the freshness theorems need -/
structure CacheCfg (cfg : Cfg) : Prop where
  self : cfg.itemSelfCheck = true
  climb : cfg.climbToDoc = true
  edit : cfg.invalidateOnEdit = true
  below : cfg.invalidateBelow = true

theorem CacheCfg.current : CacheCfg Cfg.current := ⟨rfl, rfl, rfl, rfl⟩

theorem CacheOk.of_cleared {s s' : State} (h : SameTree s s') {g : Id}
    (hc : s'.cache g = none ∨ s'.cache g = s.cache g) (c : CacheOk s g) : CacheOk s' g := by
  rcases hc with h0 | h1
  · intro b hb; rw [h0] at hb; cases hb
  · exact c.congr h h1

theorem markDirty_cache (s : State) (g : Id) : (markDirty s g).cache = s.cache := by
  unfold markDirty; split <;> rfl

/-- after `_update_psd_record` on container `k`: a cache that survives is the old one, and it does
not belong to `k` or to a container `k` is listed below -/
theorem updateRecord_survivor {cfg : Cfg} (hc : CacheCfg cfg) {s : State} (i : Inv s) {k g : Id} {b : BBox}
    (hk : k < s.next) (hg : s.cont g = true) (h : (updateRecord cfg s k).cache g = some b) :
    s.cache g = some b ∧ ¬ (g = k ∨ Reach s g k) := by
  unfold updateRecord at h
  rw [if_pos hc.edit] at h
  constructor
  · rcases invUp_cache cfg (markDirty s k) k g with h' | h'
    · rw [h'] at h; cases h
    · rw [h', markDirty_cache] at h; exact h
  · intro hgk
    have := invUp_clears hc.climb i (markDirty_same s k) hgk hg hk
    rw [this] at h; cases h

/-! ### removing members of a list -/

theorem fresh_finishRemove_shrink {cfg : Cfg} (hc : CacheCfg cfg) {s : State} (i : Inv s) (f : Fresh s) (k : Id)
    (hk : k < s.next) (l' : List Id) (hnd : l'.Nodup) (hsub : ∀ y, y ∈ l' → y ∈ s.children k) (o : Out) :
    Fresh (finishRemove cfg (setChildren s k l') k o).1 := by
  have i1 := inv_shrink i k l' hnd hsub
  unfold finishRemove
  intro g ha hcont b hb
  have hs := updateRecord_same cfg (setChildren s k l') k
  have hcont1 : (setChildren s k l').cont g = true := by rw [← hs.cont]; exact hcont
  have ha1 : Attached (setChildren s k l') g := ha.congr hs.children.symm hs.kind.symm
  obtain ⟨hcache, hnot⟩ := updateRecord_survivor hc i1 (k := k) (g := g) hk hcont1 hb
  -- fewer memberships: attached before
  have hmono : ∀ c x, x ∈ (setChildren s k l').children c → x ∈ s.children c := by
    intro c x hx
    simp only [setChildren, upd] at hx
    split at hx
    · rename_i e; subst e; exact hsub x hx
    · exact hx
  have ha0 : Attached s g := by
    obtain ⟨d, hd, hgd⟩ := ha1
    exact ⟨d, hd, hgd.elim .inl (fun r => .inr (Reach.mono hmono r))⟩
  have hok := f g ha0 hcont1 b hcache
  rw [hs.kind, hs.box, extractBbox_congr hs]
  show if s.kind g = .artboard then b = s.box g else extractBbox (setChildren s k l') g = .ok b
  split
  · rename_i hka; simpa [hka] using hok
  · rename_i hka
    simp only [hka, if_false] at hok
    rw [← hok]
    -- base: the new tree; the only difference is the list of `k`, which is not below `g`
    symm
    apply extractBbox_frame (setChildren s k l') s rfl g
    · intro y hy
      refine ⟨?_, rfl⟩
      show s.children y = upd s.children k l' y
      unfold upd
      split
      · rename_i e; subst e; exact absurd (hy.elim (fun e => .inl e.symm) .inr) hnot
      · rfl
    · intro z y _ _
      exact ⟨rfl, rfl, rfl⟩

/-! ### re-listing + `_update_layer_metadata` -/

theorem metadata_fields {cfg : Cfg} (he : cfg.invalidateOnEdit = true) {s1 s2 : State} {k : Id}
    (h : metadata cfg s1 k = (s2, true)) :
    ∃ ds, desc s1 k = .ok ds ∧ s2.children = s1.children ∧ s2.kind = s1.kind ∧ s2.visible = s1.visible ∧
      s2.box = s1.box ∧ s2.next = s1.next ∧ s2.limit = s1.limit ∧
      (∀ y, s2.parent y = if y ∈ s1.children k then some k else s1.parent y) ∧
      (∀ y, s2.cache y = if y ∈ ds ∧ s1.cont y = true then none else s1.cache y) := by
  unfold metadata at h
  split at h
  · cases h
  · rename_i ds hds
    simp only [Prod.mk.injEq, and_true] at h
    subst h
    refine ⟨ds, hds, ?_⟩
    cases hD : s1.docOf k <;> simp [he, setParentAll, clearConts, setPsdAll, State.cont] <;> (intro y; rfl)

/-- a path that does not start at `k` and does not lead below `k` only uses lists other than `k`'s -/
theorem reach_avoiding {s s1 : State} {k : Id} (hch : ∀ c, c ≠ k → s1.children c = s.children c) {a b : Id}
    (r : Reach s1 a b) (ha : a ≠ k) (hb : ¬ Reach s1 k b) : Reach s a b := by
  induction r with
  | edge hx => exact .edge (by rw [← hch _ ha]; exact hx)
  | @step c x y hx r' ih =>
    have hxk : x ≠ k := by
      intro e; subst e; exact hb r'
    exact .step (by rw [← hch _ ha]; exact hx) (ih hxk hb)

theorem fresh_finishInsert_relist {cfg : Cfg} (hc : CacheCfg cfg) {s : State} (i : Inv s) (f : Fresh s) (k : Id)
    (l' : List Id) (out : Out) (hg : s.isGroup k = true) (hnd : l'.Nodup)
    (hmem : ∀ y, y ∈ l' → y ∈ s.children k ∨ (Detached s y ∧ s.isLayer y = true ∧ y ≠ k ∧ ¬ Reach s y k))
    (hne : (finishInsert cfg (setChildren s k l') k out).2 ≠ recErr) :
    Fresh (finishInsert cfg (setChildren s k l') k out).1 := by
  obtain ⟨hklive, hkcont⟩ := isGroup_iff.mp hg
  unfold finishInsert at hne ⊢
  split
  · rename_i s2 hm; rw [hm] at hne; exact absurd rfl hne
  · rename_i s2 hm
    have i2 : Inv s2 := inv_metadata_relist i k l' hg hnd hmem hm
    obtain ⟨ds, hds, hch, hkind, hvis, hbox, hnext, hlim, hpar, hcache⟩ := metadata_fields hc.edit hm
    have hch1 : (setChildren s k l').children k = l' := by simp [setChildren, upd]
    have hc1 : ∀ c, (setChildren s k l').children c ≠ [] → (setChildren s k l').cont c = true := by
      intro c hne'
      show s.cont c = true
      by_cases e : c = k
      · subst e; exact hkcont
      · apply i.contOnly c
        simpa [setChildren, upd, e] using hne'
    intro g ha hcont b hb
    have hs := updateRecord_same cfg s2 k
    have hcont2 : s2.cont g = true := by rw [← hs.cont]; exact hcont
    have ha2 : Attached s2 g := ha.congr hs.children.symm hs.kind.symm
    obtain ⟨hcache2, hnot⟩ := updateRecord_survivor hc i2 (k := k) (g := g) (by rw [hnext]; exact hklive) hcont2 hb
    have hcontg : s.cont g = true := by
      have : s2.cont g = s.cont g := by unfold State.cont; rw [hkind]; rfl
      rw [← this]; exact hcont2
    -- not below `k` in the new tree, and the cache is the old one
    have hnotbelow : ¬ Reach s2 k g := by
      intro r
      have r1 : Reach (setChildren s k l') k g := r.congr hch.symm
      have hmem' := (mem_desc_iff hc1 hds g).mpr r1
      rw [hcache g, if_pos ⟨hmem', hcontg⟩] at hcache2
      cases hcache2
    have hcache0 : s.cache g = some b := by
      rw [hcache g] at hcache2
      split at hcache2
      · cases hcache2
      · exact hcache2
    -- attached in the old tree
    have hchk : ∀ c, c ≠ k → s2.children c = s.children c := by
      intro c hck; rw [hch]; simp [setChildren, upd, hck]
    have ha0 : Attached s g := by
      obtain ⟨d, hd, hgd⟩ := ha2
      refine ⟨d, by rw [hkind] at hd; exact hd, ?_⟩
      rcases hgd with e | r
      · exact .inl e
      · refine .inr (reach_avoiding hchk r ?_ hnotbelow)
        intro e; subst e; exact hnotbelow r
    have hok := f g ha0 hcontg b hcache0
    have hk2 : s2.kind g = s.kind g := by rw [hkind]; rfl
    have hb2 : s2.box g = s.box g := by rw [hbox]; rfl
    rw [hs.kind, hs.box, extractBbox_congr hs, hk2, hb2]
    split
    · rename_i hka; simpa [hka] using hok
    · rename_i hka
      simp only [hka, if_false] at hok
      rw [← hok]
      symm
      -- base: the new tree `s2`
      apply extractBbox_frame s2 s (by rw [hlim]; rfl) g
      · intro y hy
        refine ⟨?_, by rw [hbox]; rfl⟩
        by_cases e : y = k
        · subst e; exact absurd (hy.elim (fun e => .inl e.symm) .inr) hnot
        · exact (hchk y e).symm
      · intro z y hz hy
        refine ⟨by rw [hkind]; rfl, by rw [hvis]; rfl, ?_⟩
        rw [hpar y, hch1]
        split
        · rename_i hyl
          -- a member of the new list that is in the dependency set of `g`: impossible unless old
          rcases hmem y hyl with hold | _
          · exact (i.parentOk k y hold)
          · exfalso
            have hyk : y ∈ s2.children k := by rw [hch, hch1]; exact hyl
            rcases dep_cases i2 hz hy with hb' | hu
            · rcases hb' with e | r
              · subst e; exact hnotbelow (.edge hyk)
              · obtain ⟨c, hc', hgc⟩ := r.last
                have := i2.unique hc' hyk
                subst this
                exact hnot (hgc.elim (fun e => .inl e.symm) .inr)
            · have := (up_is_ancestor i2 ha2 hu).1
              exact hnotbelow (.step hyk this)
        · rfl

/-! ### the `visible` and `left` / `top` setters -/

theorem clearConts_cache (s : State) (ds : List Id) (y : Id) :
    (clearConts s ds).cache y = if y ∈ ds ∧ s.cont y = true then none else s.cache y := rfl

theorem fresh_opSetVisible {cfg : Cfg} (hc : CacheCfg cfg) {s : State} (i : Inv s) (f : Fresh s) (x : Id) (v : Bool) :
    Fresh (opSetVisible cfg s x v).1 := by
  unfold opSetVisible
  by_cases hl : (!s.isLayer x) = true
  · rw [if_pos hl]; exact f
  · rw [if_neg hl]
    have hx : x < s.next := (isLayer_iff.mp (by simpa using hl)).1
    have hs1 := invUp_same cfg s x
    simp only
    -- the common argument: a surviving cache belongs to a container that neither contains `x` nor is below it
    have key : ∀ (s' : State), SameTree (invUp cfg s x) { s' with visible := (invUp cfg s x).visible } →
        s'.visible = upd (invUp cfg s x).visible x v →
        (∀ g b, s'.cache g = some b → s.cont g = true → s.cache g = some b ∧ ¬ (g = x ∨ Reach s g x) ∧ ¬ Reach s x g) →
        Fresh s' := by
      intro s' hs' hvis hsurv g ha hcont b hb
      have hk' : s'.kind = s.kind := hs'.kind.trans hs1.kind
      have hc' : s'.children = s.children := hs'.children.trans hs1.children
      have hcontg : s.cont g = true := by
        have : s'.cont g = s.cont g := by unfold State.cont; rw [hk']
        rw [← this]; exact hcont
      obtain ⟨hcache, hnot1, hnot2⟩ := hsurv g b hb hcontg
      have ha0 : Attached s g := ha.congr hc'.symm hk'.symm
      have hok := f g ha0 hcontg b hcache
      have hbox' : s'.box = s.box := hs'.box.trans hs1.box
      rw [hk', hbox']
      split
      · rename_i hka; simpa [hka] using hok
      · rename_i hka
        simp only [hka, if_false] at hok
        rw [← hok]
        apply extractBbox_frame s s' (hs'.limit.trans hs1.limit) g
        · intro y _
          exact ⟨by rw [hc'], by rw [hbox']⟩
        · intro z y hz hy
          refine ⟨by rw [hk'], ?_, by rw [show s'.parent = s.parent from hs'.parent.trans hs1.parent]⟩
          rw [hvis, show (invUp cfg s x).visible = s.visible from hs1.visible]
          unfold upd
          split
          · rename_i e
            subst e
            exfalso
            rcases dep_cases i hz hy with hb' | hu
            · exact hnot1 (hb'.elim (fun e => .inl e.symm) .inr)
            · exact hnot2 (up_is_ancestor i ha0 hu).1
          · rfl
    have surv1 : ∀ g b, (invUp cfg s x).cache g = some b → s.cont g = true →
        s.cache g = some b ∧ ¬ (g = x ∨ Reach s g x) := by
      intro g b hb hcontg
      constructor
      · rcases invUp_cache cfg s x g with h' | h'
        · rw [h'] at hb; cases hb
        · rw [h'] at hb; exact hb
      · intro hgx
        have := invUp_clears hc.climb i (SameTree.refl s) hgx hcontg hx
        rw [this] at hb; cases hb
    by_cases hcx : (invUp cfg s x).cont x = true
    · simp only [hc.below, hcx, Bool.and_self, if_true]
      cases hd : desc (invUp cfg s x) x with
      | error e => simp only; exact fresh_of_step hs1 (fun g c => c.of_cleared hs1 (invUp_cache cfg s x g)) f
      | ok ds =>
        simp only
        apply key { clearConts (invUp cfg s x) ds with visible := upd (invUp cfg s x).visible x v }
          ⟨rfl, rfl, rfl, rfl, rfl, rfl, rfl, rfl⟩ rfl
        intro g b hb hcontg
        have hb' : (clearConts (invUp cfg s x) ds).cache g = some b := hb
        rw [clearConts_cache] at hb'
        have hcg1 : (invUp cfg s x).cont g = true := by rw [hs1.cont]; exact hcontg
        split at hb'
        · cases hb'
        · rename_i hnm
          have h1 := surv1 g b hb' hcontg
          refine ⟨h1.1, h1.2, ?_⟩
          intro r
          apply hnm
          refine ⟨?_, hcg1⟩
          have hc1 : ∀ c, (invUp cfg s x).children c ≠ [] → (invUp cfg s x).cont c = true := by
            intro c; rw [hs1.children, hs1.cont]; exact i.contOnly c
          exact (mem_desc_iff hc1 hd g).mpr (r.congr hs1.children)
    · have hcx' : s.cont x ≠ true := by rw [← hs1.cont]; exact hcx
      simp only [hcx, Bool.and_false, Bool.false_eq_true, if_false]
      apply key { invUp cfg s x with visible := upd (invUp cfg s x).visible x v }
        ⟨rfl, rfl, rfl, rfl, rfl, rfl, rfl, rfl⟩ rfl
      intro g b hb hcontg
      have h1 := surv1 g b hb hcontg
      exact ⟨h1.1, h1.2, fun r => hcx' (reach_cont i.contOnly r)⟩

theorem fresh_setBox {cfg : Cfg} (hc : CacheCfg cfg) {s : State} (i : Inv s) (f : Fresh s) (x : Id) (hx : x < s.next)
    (b' : BBox) : Fresh { invUp cfg s x with box := upd (invUp cfg s x).box x b' } := by
  have hs1 := invUp_same cfg s x
  intro g ha hcont b hb
  have hcontg : s.cont g = true := by
    have : (invUp cfg s x).cont g = s.cont g := hs1.cont g
    rw [← this]; exact hcont
  have hb' : (invUp cfg s x).cache g = some b := hb
  have hcache : s.cache g = some b := by
    rcases invUp_cache cfg s x g with h' | h'
    · rw [h'] at hb'; cases hb'
    · rw [h'] at hb'; exact hb'
  have hnot : ¬ (g = x ∨ Reach s g x) := by
    intro hgx
    have := invUp_clears hc.climb i (SameTree.refl s) hgx hcontg hx
    rw [this] at hb'; cases hb'
  have ha0 : Attached s g := Attached.congr (s := { invUp cfg s x with box := upd (invUp cfg s x).box x b' })
    hs1.children.symm hs1.kind.symm ha
  have hok := f g ha0 hcontg b hcache
  have hgx : g ≠ x := fun e => hnot (.inl e)
  show if (invUp cfg s x).kind g = .artboard then b = upd (invUp cfg s x).box x b' g else _
  rw [hs1.kind]
  split
  · rename_i hka
    simp only [hka, if_true] at hok
    simp [upd, hgx, hs1.box, hok]
  · rename_i hka
    simp only [hka, if_false] at hok
    rw [← hok]
    apply extractBbox_frame s { invUp cfg s x with box := upd (invUp cfg s x).box x b' } hs1.limit g
    · intro y hy
      refine ⟨hs1.children ▸ rfl, ?_⟩
      show upd (invUp cfg s x).box x b' y = s.box y
      unfold upd
      split
      · rename_i e; subst e; exact absurd (hy.elim (fun e => .inl e.symm) .inr) hnot
      · rw [hs1.box]
    · intro z y _ _
      exact ⟨hs1.kind ▸ rfl, hs1.visible ▸ rfl, hs1.parent ▸ rfl⟩

theorem fresh_opSetOffset {cfg : Cfg} (hc : CacheCfg cfg) {s : State} (i : Inv s) (f : Fresh s) (x : Id) (h : Bool) (v : Int) :
    Fresh (opSetOffset cfg s x h v).1 := by
  unfold opSetOffset
  by_cases hl : (!(s.isLayer x && s.kind x == .leaf)) = true
  · rw [if_pos hl]; exact f
  · rw [if_neg hl]
    have hl' : s.isLayer x = true ∧ s.kind x = .leaf := by simpa using hl
    exact fresh_setBox hc i f x (isLayer_iff.mp hl'.1).1 _

theorem fresh_alloc {s : State} (i : Inv s) (f : Fresh s) (k : Kind) (p : Option Id) (bx : BBox) :
    Fresh (alloc s k p bx) := by
  have hfresh : s.children s.next = [] := by
    cases h : s.children s.next with
    | nil => rfl
    | cons a as =>
      have := (i.live s.next a (by rw [h]; exact List.mem_cons_self ..)).1
      exact absurd this (Nat.lt_irrefl _)
  have hch : ∀ c, (alloc s k p bx).children c = s.children c := by
    intro c
    simp only [alloc, upd]
    split
    · rename_i e; subst e; exact hfresh.symm
    · rfl
  have hreach : ∀ a b, Reach (alloc s k p bx) a b → Reach s a b := by
    intro a b r
    exact Reach.mono (fun c x hx => by rw [hch] at hx; exact hx) r
  intro g ha hcont b hb
  have hgn : g ≠ s.next := by
    intro e; subst e
    simp [alloc, upd] at hb
  -- attached before
  have ha0 : Attached s g := by
    obtain ⟨d, hd, hgd⟩ := ha
    have hdn : d ≠ s.next := by
      intro e; subst e
      rcases hgd with e' | r
      · exact hgn e'
      · have := hreach _ _ r
        exact no_reach_of_no_children hfresh this
    refine ⟨d, by simpa [alloc, upd, hdn] using hd, hgd.elim .inl (fun r => .inr (hreach _ _ r))⟩
  have hcontg : s.cont g = true := by simpa [alloc, State.cont, upd, hgn] using hcont
  have hcache : s.cache g = some b := by simpa [alloc, upd, hgn] using hb
  have hok := f g ha0 hcontg b hcache
  have hkg : (alloc s k p bx).kind g = s.kind g := by simp [alloc, upd, hgn]
  have hbg : (alloc s k p bx).box g = s.box g := by simp [alloc, upd, hgn]
  rw [hkg, hbg]
  split
  · rename_i hka; simpa [hka] using hok
  · rename_i hka
    simp only [hka, if_false] at hok
    rw [← hok]
    -- the new object is not in the dependency set of an attached container
    have hdep : ∀ z y, (z = g ∨ Reach s g z) → (y = z ∨ UpChain s z y) → y ≠ s.next := by
      intro z y hz hy e
      subst e
      rcases dep_cases i hz hy with hb' | hu
      · rcases hb' with e' | r
        · exact hgn e'.symm
        · obtain ⟨c, hc', _⟩ := r.last
          exact Nat.lt_irrefl _ (i.live c _ hc').2
      · exact no_reach_of_no_children hfresh (up_is_ancestor i ha0 hu).1
    apply extractBbox_frame s (alloc s k p bx) rfl g
    · intro y hy
      have hyn := hdep y y hy (.inl rfl)
      exact ⟨hch y, by simp [alloc, upd, hyn]⟩
    · intro z y hz hy
      have hyn := hdep z y hz hy
      exact ⟨by simp [alloc, upd, hyn], by simp [alloc, upd, hyn], by simp [alloc, upd, hyn]⟩

theorem updateRecord_cache (cfg : Cfg) (s : State) (k y : Id) :
    (updateRecord cfg s k).cache y = none ∨ (updateRecord cfg s k).cache y = s.cache y := by
  unfold updateRecord
  split
  · rcases invUp_cache cfg (markDirty s k) k y with h | h
    · exact .inl h
    · exact .inr (by rw [h, markDirty_cache])
  · exact .inr (by rw [markDirty_cache])

/-- bookkeeping without a change of the lists only clears caches -/
theorem fresh_updateRecord {cfg : Cfg} {s : State} (f : Fresh s) (k : Id) : Fresh (updateRecord cfg s k) :=
  fresh_of_step (updateRecord_same cfg s k)
    (fun g c => c.of_cleared (updateRecord_same cfg s k) (updateRecord_cache cfg s k g)) f

end PsdVerif.TreeSt
