/-
C11: the code model (`applyNode`, `Model/Composite.lean`) refines the published model
(`specNode`, `Model/CompositeSpec.lean`) on whole layer trees, by mutual induction.
-/
import PsdVerif.Model.CompositeSpec
import PsdVerif.Lemmas.CompositeSpec

namespace PsdVerif.Composite

/-- The state of the code and the state of the published recurrences describe the same thing: equal
shape/alpha bookkeeping, and the spec's premultiplied colours are the code's colours times their alphas.
(Colour under zero alpha is junk on the code's side — 1.0 from the `0/0` fallback or whatever was there —
and does not occur on the spec's side.) -/
structure Rel (st : PState) (σ : SState) : Prop where
  sg : σ.sg = st.sg
  ag : σ.ag = st.ag
  a : σ.a = st.a
  a0 : σ.a0 = st.a0
  P : ∀ ch, σ.P ch = st.c ch * st.a
  P0 : ∀ ch, σ.P0 ch = st.c0 ch * st.a0

theorem rel_init {color P : Color} {alpha : Rat} (iso : Bool) (hP : ∀ ch, P ch = color ch * alpha) :
    Rel (PState.init color alpha iso) (SState.init P alpha iso) := by
  unfold PState.init SState.init
  cases iso <;> simp only [Bool.false_eq_true, if_false, if_true]
  · exact ⟨rfl, rfl, rfl, rfl, hP, hP⟩
  · exact ⟨rfl, rfl, rfl, rfl, fun ch => by simp, fun ch => by simp⟩

theorem straight_eq {P c : Color} {a : Rat} (h : ∀ ch, P ch = c ch * a) (ha : a ≠ 0) : straight P a = c := by
  funext ch
  unfold straight
  rw [h ch]
  field_simp

/-- **One element**: an `_apply_source` step of the code is one step of the published recurrences on
premultiplied colour — for a knockout element with the group-alpha rule as coded (`KoRule.pdf17`). -/
theorem applySource_rel {bl : Color → Color → Color} {st : PState} {σ : SState} {color Ps : Color}
    {shape alpha : Rat} (h : Inv st) (hr : Rel st σ) (hs : SrcOk color shape alpha) (hb : BlendOk bl)
    (hP : ∀ ch, Ps ch = color ch * alpha) (ko : Bool) :
    Rel (applySource bl st color shape alpha ko) (specSource .pdf17 bl σ Ps shape alpha ko) := by
  have hag : (specSource .pdf17 bl σ Ps shape alpha ko).ag = (applySource bl st color shape alpha ko).ag := by
    unfold specSource applySource KoRule.alpha
    simp only
    rw [hr.ag, hr.a0]
  have ha : (specSource .pdf17 bl σ Ps shape alpha ko).a = (applySource bl st color shape alpha ko).a := by
    unfold specSource applySource KoRule.alpha
    simp only
    rw [hr.ag, hr.a0]
  refine ⟨?_, hag, ha, ?_, ?_, ?_⟩
  · unfold specSource; simp only [applySource_sg, hr.sg]
  · unfold specSource; simp only [applySource_a0, hr.a0]
  · intro ch
    cases ko
    · rw [applySource_mul h hs hb ch]
      unfold specSource stepNum
      simp only [Bool.false_eq_true, if_false]
      rw [hr.P ch, hr.a, hP ch]
      have hbl : st.a * alpha * bl (straight σ.P st.a) (straight Ps alpha) ch = st.a * alpha * bl st.c color ch := by
        by_cases ha0 : st.a = 0
        · rw [ha0]; ring
        · by_cases hal : alpha = 0
          · rw [hal]; ring
          · rw [straight_eq hr.P ha0, straight_eq hP hal]
      rw [hbl]; ring
    · rw [applySource_knockout_mul h hs hb ch]
      unfold specSource
      simp only [if_true]
      rw [hr.P ch, hr.P0 ch, hr.a0, hP ch]
      have hbl : st.a0 * alpha * bl (straight σ.P0 st.a0) (straight Ps alpha) ch = st.a0 * alpha * bl st.c0 color ch := by
        by_cases ha0 : st.a0 = 0
        · rw [ha0]; ring
        · by_cases hal : alpha = 0
          · rw [hal]; ring
          · rw [straight_eq hr.P0 ha0, straight_eq hP hal]
      rw [hbl]; ring
  · intro ch
    unfold specSource
    simp only [applySource_a0, applySource_c0]
    exact hr.P0 ch

/-- an object with Photoshop's factors applied enters the group the same way on both sides -/
theorem finishApply_rel {B : Mode → Color → Color → Color} (hB : BOk B) {pr : Props} (hp : PropsOk pr) (V : Rect)
    (x y : Int) {st : PState} {σ : SState} (hst : Inv st) (hr : Rel st σ) {color Pj : Color} {shape alpha : Rat}
    (hc : ColorOk color) (ha0 : 0 ≤ alpha) (has : alpha ≤ shape) (hs1 : shape ≤ 1)
    (hP : ∀ ch, Pj ch = color ch * alpha) :
    Rel (finishApply B V x y st pr color shape alpha) (specFinish .pdf17 B V x y σ pr Pj shape alpha) := by
  have hsrc := finishApply_src hp V x y hc ha0 has hs1
  show Rel (applySource (B pr.mode) st color (shape * (maskFactors pr V x y).1 * pr.fill)
      (alpha * ((maskFactors pr V x y).1 * (maskFactors pr V x y).2 * pr.opacity) * pr.fill) pr.knockout)
    (specSource .pdf17 (B pr.mode) σ
      (fun ch => ((maskFactors pr V x y).1 * (maskFactors pr V x y).2 * pr.opacity * pr.fill) * Pj ch)
      (shape * ((maskFactors pr V x y).1 * pr.fill))
      (alpha * ((maskFactors pr V x y).1 * (maskFactors pr V x y).2 * pr.opacity * pr.fill)) pr.knockout)
  have e1 : shape * ((maskFactors pr V x y).1 * pr.fill) = shape * (maskFactors pr V x y).1 * pr.fill := by ring
  have e2 : alpha * ((maskFactors pr V x y).1 * (maskFactors pr V x y).2 * pr.opacity * pr.fill)
      = alpha * ((maskFactors pr V x y).1 * (maskFactors pr V x y).2 * pr.opacity) * pr.fill := by ring
  rw [e1, e2]
  apply applySource_rel hst hr hsrc (hB pr.mode)
  intro ch
  rw [hP ch]; ring

/-- colour handed back by a clipping group: the code takes the run's straight colour `C_n`, the published
model `aj·P_n/α_n`; the same thing since the run's backdrop alpha is the base's alpha `aj` -/
theorem clipGroupColor_rel {stc : PState} {σc : SState} (hrel : Rel stc σc) (hinv : Inv stc) {aj : Rat}
    (ha0 : stc.a0 = aj) (ch : Nat) : clipGroupColor σc aj ch = stc.c ch * aj := by
  unfold clipGroupColor
  rw [hrel.P ch, hrel.a]
  by_cases h : aj = 0
  · rw [h]; ring
  · have hne : stc.a ≠ 0 := a_ne_zero_of_a0 hinv (by rw [ha0]; exact h)
    field_simp

theorem init_a0_false (c : Color) (a : Rat) : (PState.init c a false).a0 = a := by
  simp [PState.init]

mutual
/-- **The compositor refines the published model with the knockout group-alpha rule as coded** (one layer with
everything below it: masks, opacity and fill, nested isolated and pass-through groups, clip runs, knockout). -/
theorem applyNode_rel {B : Mode → Color → Color → Color} (hB : BOk B) (V : Rect) (x y : Int) (cc : Bool)
    (st : PState) (σ : SState) (hst : Inv st) (hr : Rel st σ) :
    (n : Node) → nodeOk n → Rel (applyNode B V x y cc st n) (specNode .pdf17 B V x y cc σ n)
  | .leaf pr hasPixels color shape clips, hn => by
    obtain ⟨hp, hcol, hsh, hcl⟩ := hn
    unfold applyNode specNode
    by_cases hv : (!pr.visible) = true
    · simp only [hv, if_true]; exact hr
    simp only [hv, Bool.false_eq_true, if_false]
    by_cases hz : intersect V pr.bbox = Rect.zero
    · simp only [hz, if_true]; exact hr
    simp only [hz, if_false]
    by_cases hk : (!cc && pr.clipping && pr.hasClipTarget) = true
    · simp only [hk, if_true]; exact hr
    simp only [hk, Bool.false_eq_true, if_false]
    have hc0 : ColorOk (if hasPixels = true then pasteAt V pr.bbox x y color white else white) := by
      split
      · exact pasteAt_color hcol white_ok
      · exact white_ok
    have hs0 : Unit01 (if hasPixels = true then pasteAt V pr.bbox x y shape 0 else 0) := by
      split
      · exact pasteAt_unit hsh unit01_zero
      · exact unit01_zero
    generalize (if hasPixels = true then pasteAt V pr.bbox x y color white else white) = color0 at hc0 ⊢
    generalize (if hasPixels = true then pasteAt V pr.bbox x y shape 0 else 0) = shape0 at hs0 ⊢
    have i0 := inv_init hc0 hs0 false
    by_cases he : clips.isEmpty = true
    · simp only [he, if_true]
      exact finishApply_rel hB hp V x y hst hr hc0 hs0.1 (le_refl _) hs0.2 (fun ch => by ring)
    · simp only [he, Bool.false_eq_true, if_false]
      have hrel := applyClips_rel hB V x y (PState.init color0 shape0 false)
        (SState.init (fun ch => shape0 * color0 ch) shape0 false) i0 (rel_init false (fun ch => by ring)) clips hcl
      have hinv := applyClips_inv B V x y _ i0 clips hcl
      apply finishApply_rel hB hp V x y hst hr hinv.c hs0.1 (le_refl _) hs0.2
      intro ch
      exact clipGroupColor_rel hrel hinv (by rw [applyClips_a0, init_a0_false]) ch
  | .group pr passThrough children clips, hn => by
    obtain ⟨hp, hch, hcl⟩ := hn
    unfold applyNode specNode
    by_cases hv : (!pr.visible) = true
    · simp only [hv, if_true]; exact hr
    simp only [hv, Bool.false_eq_true, if_false]
    by_cases hz : intersect V pr.bbox = Rect.zero
    · simp only [hz, if_true]; exact hr
    simp only [hz, if_false]
    by_cases hk : (!cc && pr.clipping && pr.hasClipTarget) = true
    · simp only [hk, if_true]; exact hr
    simp only [hk, Bool.false_eq_true, if_false]
    have hcb : ColorOk (if pr.knockout = true then st.c0 else st.c) := by split; exact hst.c0; exact hst.c
    have hab : Unit01 (if pr.knockout = true then st.a0 else st.a) := by split; exact hst.a0; exact hst.a
    have eab : (if pr.knockout = true then σ.a0 else σ.a) = (if pr.knockout = true then st.a0 else st.a) := by
      split; exact hr.a0; exact hr.a
    have hPb : ∀ ch, (if pr.knockout = true then σ.P0 else σ.P) ch
        = (if pr.knockout = true then st.c0 else st.c) ch * (if pr.knockout = true then st.a0 else st.a) := by
      intro ch; split; exact hr.P0 ch; exact hr.P ch
    rw [eab]
    generalize (if pr.knockout = true then st.c0 else st.c) = colorB at hcb hPb ⊢
    generalize (if pr.knockout = true then st.a0 else st.a) = alphaB at hab hPb ⊢
    generalize (if pr.knockout = true then σ.P0 else σ.P) = Pb at hPb ⊢
    have i1 := inv_init hcb hab (!passThrough)
    have hsub := applyList_inv B (intersect V pr.bbox) x y _ i1 children hch
    have hxsub := applyList_xinv hB (intersect V pr.bbox) x y _ i1 (xinv_init colorB alphaB (!passThrough)) children hch
    have hsrel := applyList_rel hB (intersect V pr.bbox) x y (PState.init colorB alphaB (!passThrough))
      (SState.init Pb alphaB (!passThrough)) i1 (rel_init (!passThrough) hPb) children hch
    have hfc : ColorOk (finishColor (applyList B (intersect V pr.bbox) x y (PState.init colorB alphaB (!passThrough)) children)) :=
      fun ch => clip_unit _
    have hgc : ∀ ch, groupColor (specList .pdf17 B (intersect V pr.bbox) x y (SState.init Pb alphaB (!passThrough)) children) ch
        = finishColor (applyList B (intersect V pr.bbox) x y (PState.init colorB alphaB (!passThrough)) children) ch
          * (applyList B (intersect V pr.bbox) x y (PState.init colorB alphaB (!passThrough)) children).ag := by
      intro ch
      rw [finishColor_mul hsub hxsub ch]
      unfold groupColor groupNum
      rw [hsrel.P ch, hsrel.P0 ch, hsrel.ag]; ring
    rw [hsrel.sg, hsrel.ag]
    generalize specList .pdf17 B (intersect V pr.bbox) x y (SState.init Pb alphaB (!passThrough)) children = σsub at hgc hsrel ⊢
    generalize applyList B (intersect V pr.bbox) x y (PState.init colorB alphaB (!passThrough)) children = sub
      at hsub hxsub hsrel hfc hgc ⊢
    by_cases hin : (intersect V pr.bbox).contains x y = true
    · simp only [hin, if_true]
      have i0 := inv_init hfc hsub.ag false
      by_cases he : clips.isEmpty = true
      · simp only [he, if_true]
        exact finishApply_rel hB hp V x y hst hr hfc hsub.ag.1 hsub.ag_le hsub.sg.2 hgc
      · simp only [he, Bool.false_eq_true, if_false]
        have hrel := applyClips_rel hB V x y (PState.init (finishColor sub) sub.ag false)
          (SState.init (groupColor σsub) sub.ag false) i0 (rel_init false hgc) clips hcl
        have hinv := applyClips_inv B V x y _ i0 clips hcl
        apply finishApply_rel hB hp V x y hst hr hinv.c hsub.ag.1 hsub.ag_le hsub.sg.2
        intro ch
        exact clipGroupColor_rel hrel hinv (by rw [applyClips_a0, init_a0_false]) ch
    · simp only [hin, Bool.false_eq_true, if_false]
      have i0 := inv_init white_ok unit01_zero false
      by_cases he : clips.isEmpty = true
      · simp only [he, if_true]
        exact finishApply_rel hB hp V x y hst hr white_ok (le_refl _) (le_refl _) (by norm_num) (fun ch => by ring)
      · simp only [he, Bool.false_eq_true, if_false]
        have hrel := applyClips_rel hB V x y (PState.init white 0 false)
          (SState.init (fun _ => 0) 0 false) i0 (rel_init false (fun ch => by ring)) clips hcl
        have hinv := applyClips_inv B V x y _ i0 clips hcl
        apply finishApply_rel hB hp V x y hst hr hinv.c (le_refl _) (le_refl _) (by norm_num)
        intro ch
        exact clipGroupColor_rel hrel hinv (by rw [applyClips_a0, init_a0_false]) ch

theorem applyList_rel {B : Mode → Color → Color → Color} (hB : BOk B) (V : Rect) (x y : Int)
    (st : PState) (σ : SState) (hst : Inv st) (hr : Rel st σ) :
    (ns : List Node) → listOk ns → Rel (applyList B V x y st ns) (specList .pdf17 B V x y σ ns)
  | [], _ => by unfold applyList specList; exact hr
  | n :: rest, h => by
    unfold applyList specList
    exact applyList_rel hB V x y _ _ (applyNode_inv B V x y false st hst n h.1)
      (applyNode_rel hB V x y false st σ hst hr n h.1) rest h.2

theorem applyClips_rel {B : Mode → Color → Color → Color} (hB : BOk B) (V : Rect) (x y : Int)
    (st : PState) (σ : SState) (hst : Inv st) (hr : Rel st σ) :
    (ns : List Node) → listOk ns → Rel (applyClips B V x y st ns) (specClips .pdf17 B V x y σ ns)
  | [], _ => by unfold applyClips specClips; exact hr
  | n :: rest, h => by
    unfold applyClips specClips
    exact applyClips_rel hB V x y _ _ (applyNode_inv B V x y true st hst n h.1)
      (applyNode_rel hB V x y true st σ hst hr n h.1) rest h.2
end

/-- **Whole documents.** -/
theorem compositeDoc_rel {B : Mode → Color → Color → Color} (hB : BOk B) (V : Rect) (x y : Int) {color : Color}
    {alpha : Rat} (hc : ColorOk color) (ha : Unit01 alpha) (layers : List Node) (hl : listOk layers) :
    (compositeDoc B V x y color alpha layers).2.1 = (specDoc .pdf17 B V x y (fun ch => alpha * color ch) alpha layers).2.1 ∧
    (compositeDoc B V x y color alpha layers).2.2 = (specDoc .pdf17 B V x y (fun ch => alpha * color ch) alpha layers).2.2 ∧
    ∀ ch, (compositeDoc B V x y color alpha layers).1 ch * (compositeDoc B V x y color alpha layers).2.2
      = (specDoc .pdf17 B V x y (fun ch => alpha * color ch) alpha layers).1 ch := by
  have i0 := inv_init hc ha false
  have hrel := applyList_rel hB V x y (PState.init color alpha false)
    (SState.init (fun ch => alpha * color ch) alpha false) i0 (rel_init false (fun ch => by ring)) layers hl
  have hinv := applyList_inv B V x y _ i0 layers hl
  have hx := applyList_xinv hB V x y _ i0 (xinv_init color alpha false) layers hl
  unfold compositeDoc specDoc
  refine ⟨hrel.sg.symm, hrel.ag.symm, ?_⟩
  intro ch
  simp only
  rw [finishColor_mul hinv hx ch]
  unfold groupColor groupNum
  rw [hrel.P ch, hrel.P0 ch, hrel.ag]; ring

end PsdVerif.Composite
