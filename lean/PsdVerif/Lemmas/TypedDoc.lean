/-
C01 (typed documents) — Model/TypedDoc.lean: the layer and mask section and the whole file with typed blocks at every level
(the proofs of Lemmas/PayloadLayerInfo2.lean / Lemmas/Payload3Typed.lean with the typed readers), the views (`flat`,
`flatD`, `flatR`) and how they commute with `refresh`.
-/
import PsdVerif.Lemmas.TypedBlocks2
import PsdVerif.Lemmas.Payload3Typed
import PsdVerif.Model.TypedDoc

namespace PsdVerif.Typed
open PsdVerif PsdVerif.Codec PsdVerif.Psd PsdVerif.Payload PsdVerif.Payload.PCodec PsdVerif.Payload3

section
variable {Q : Type} (tb : Descriptor.Tables) {K : Kit Q}

/-! ### the views -/

theorem Blk.flat_toDeep (v : Nat) (t : Blk (Pay Q)) :
    TBlock.flat v 4 (Blk.toDeep tb K v t) = Blk.flat (payKit tb K) v 4 t := by
  obtain ⟨sig, key, data⟩ := t
  cases data <;> rfl

theorem TLam.flat_flatD (v : Nat) (x : TLam Q) : (x.flatD tb K v).flat v = x.flat tb K v := by
  obtain ⟨li, g, ts⟩ := x
  cases ts with
  | none => rfl
  | some ts =>
    simp only [TLam.flatD, TLam.flat, DeepLam.flat, Option.map_some, List.map_map, LayerAndMask.mk.injEq, true_and,
      Option.some.injEq]
    apply List.map_congr_left
    intro t _
    exact Blk.flat_toDeep tb v t

theorem TPSD.flat_flatR (x : TPSD Q) : ((x.flatR tb K).flat tb).flat = x.flat tb K := by
  simp only [TPSD.flatR, ResPSD.flat, DeepPSD.flat, TPSD.flat, TLam.flat_flatD]

theorem Blk.toDeep_refresh (hK : K.Law) (v : Nat) (t : Blk (Pay Q)) :
    Blk.toDeep tb K v (Blk.refresh (payKit tb K) t) = (Blk.toDeep tb K v t).refresh := by
  obtain ⟨sig, key, data⟩ := t
  cases data with
  | raw b => rfl
  | cls c v => rfl
  | info li =>
    simp only [Blk.toDeep, Blk.refresh, payKit, Pay.refresh, Pay.toDeep, TBlock.refresh, Payload.refresh,
      Info.flat_blockRefresh hK]

end

section
variable {Q : Type} (tb : Descriptor.Tables) {K : Kit Q}

theorem TLam.flatD_refresh (hK : K.Law) (v : Nat) (x : TLam Q) :
    (x.refresh tb K).flatD tb K v = (x.flatD tb K v).refresh := by
  have hKP := payKit_law tb hK
  obtain ⟨li, g, ts⟩ := x
  simp only [TLam.refresh, TLam.flatD, DeepLam.refresh, DeepLam.mk.injEq, true_and]
  constructor
  · cases li with
    | none => rfl
    | some li => simp only [Option.map_some, Info.flat_refresh hKP]
  · cases ts with
    | none => rfl
    | some ts =>
      simp only [Option.map_some, List.map_map, Option.some.injEq]
      apply List.map_congr_left
      intro t _
      exact Blk.toDeep_refresh tb hK v t

theorem TPSD.flatR_refresh (hK : K.Law) (x : TPSD Q) : (x.refresh tb K).flatR tb K = (x.flatR tb K).refresh := by
  simp only [TPSD.refresh, TPSD.flatR, ResPSD.refresh, TLam.flatD_refresh tb hK]

/-! ### the layer and mask section -/

/-- `LayerAndMaskInformation.read` with typed blocks at every level, on the main stream -/
theorem TLam.dec_at (hK : K.Law) {v pad : Nat} {x : TLam Q} (hwf : (x.flat tb K v).WF v pad) (hty : x.Typed tb K v)
    {d : B} {p : Nat} (hat : At d p ((x.flat tb K v).encT v pad)) :
    TLam.dec tb K v d p = .ok (x.refresh tb K, p + ((x.flat tb K v).encT v pad).length) := by
  have hKP := payKit_law tb hK
  have hw := secW_pos v
  obtain ⟨⟨_, _, _, hfb⟩, hrest⟩ := hwf
  rw [LayerAndMask.length_encT]
  unfold LayerAndMask.encT lenBlockT at hat
  simp only [zeros, List.replicate_zero, List.nil_append, List.append_assoc] at hat
  obtain ⟨e1, hat⟩ := readU_step hat hfb
  have hat := hat.left
  have hno : ¬ overflows (p + secW v + ((x.flat tb K v).bodyT v pad).length) d :=
    not_overflows_of_le (by have := hat.bound; omega)
  obtain ⟨li, g, ts⟩ := x
  obtain ⟨htli, htts⟩ := hty
  simp only [TLam.flat] at hrest hat e1 hno htli htts ⊢
  cases li with
  | none =>
    obtain ⟨rfl, hts⟩ := hrest
    cases ts with
    | some ts => simp at hts
    | none =>
      simp only [Option.map_none] at hno
      simp only [TLam.dec, bind, Except.bind, e1, Option.map_none, if_neg hno]
      simp [LayerAndMask.bodyT, optT', TLam.refresh]
  | some li =>
    simp only [Option.map_some] at hrest
    obtain ⟨hli, hg, hts, hgt⟩ := hrest
    cases ts with
    | none => simp at hts
    | some ts =>
      simp only [Option.map_some] at hts hgt hat e1 hno ⊢
      simp only [optProp] at htli htts
      have hbody : LayerAndMask.bodyT v pad ⟨some (li.flat (payKit tb K) v), g, some (ts.map (Blk.flat (payKit tb K) v 4))⟩ =
          (li.flat (payKit tb K) v).encT v pad ++ (optT' GlobalLayerMaskInfo.encT g ++ blksT (payKit tb K) v 4 ts) := by
        simp only [LayerAndMask.bodyT, optT', List.append_assoc, blksT_flat]
      generalize hB : LayerAndMask.bodyT v pad ⟨some (li.flat (payKit tb K) v), g, some (ts.map (Blk.flat (payKit tb K) v 4))⟩ =
        body at *
      have hne : ¬ body.length = 0 := by
        have := (li.flat (payKit tb K) v).length_encT_ge v pad
        rw [hbody]; simp only [List.length_append]; omega
      rw [hbody] at hat
      have hblen : body.length = ((li.flat (payKit tb K) v).encT v pad).length + (optT' GlobalLayerMaskInfo.encT g).length +
          (blksT (payKit tb K) v 4 ts).length := by
        rw [hbody]; simp only [List.length_append]; omega
      obtain ⟨e2, hat⟩ := Info.dec_step hKP hli htli hat
      cases g with
      | none =>
        have hnil : ts = [] := by
          have := hgt rfl
          simpa using this
        subst hnil
        simp only [optT', blksT, listT, List.length_nil, Nat.add_zero, List.nil_append] at hat hblen
        have hgate : ¬ (p + secW v + ((li.flat (payKit tb K) v).encT v pad).length + 4 ≤ p + secW v + body.length) := by omega
        simp only [TLam.dec, TLam.bodyDec, bind, Except.bind, e1, if_neg hne, e2, if_neg hgate, if_neg hno]
        simp [TLam.refresh, Nat.add_assoc]
      | some g =>
        simp only [optProp] at hg
        simp only [optT'] at hat hblen
        have hgl := g.length_encT hg.2.1
        have hgate : p + secW v + ((li.flat (payKit tb K) v).encT v pad).length + 4 ≤ p + secW v + body.length := by
          have : 4 ≤ g.encT.length := by rw [hgl]; split <;> omega
          omega
        obtain ⟨e3, hat⟩ := GlobalLayerMaskInfo.dec_step hg hat
        have hpe : p + secW v + ((li.flat (payKit tb K) v).encT v pad).length + g.encT.length +
            (blksT (payKit tb K) v 4 ts).length = p + secW v + body.length := by omega
        have e4 : blksDec (payKit tb K) v 4 (some (p + secW v + body.length)) d
            (p + secW v + ((li.flat (payKit tb K) v).encT v pad).length + g.encT.length) =
            .ok (ts.map (Blk.refresh (payKit tb K)),
              p + secW v + ((li.flat (payKit tb K) v).encT v pad).length + g.encT.length + (blksT (payKit tb K) v 4 ts).length) := by
          apply blksDec_at hKP (Or.inr (Or.inr rfl)) hts htts (some _) hat
          · intro e he; cases he; omega
          · simp only [taggedCond, hpe]; simp
        simp only [TLam.dec, TLam.bodyDec, bind, Except.bind, e1, if_neg hne, e2, if_pos hgate, e3, e4, if_neg hno]
        simp [TLam.refresh, Nat.add_assoc]

/-! ### the whole file -/

namespace TPSD

theorem read_encT (hK : K.Law) {pad : Nat} {x : TPSD Q} (hwf : x.WF tb K pad) :
    read tb K (x.encT tb K pad) 0 = .ok (x.refresh tb K, (x.encT tb K pad).length) := by
  obtain ⟨⟨⟨hskel, _⟩, hres⟩, hty⟩ := hwf
  rw [TPSD.flat_flatR] at hskel
  obtain ⟨hh, hc, hr, hl, hi⟩ := hskel
  unfold encT
  simp only [TPSD.flat] at hh hc hr hl hi
  simp only [TPSD.flatR] at hres
  have hD0 : (x.flat tb K).encT pad = x.header.encT ++ (colorModeT x.colorModeData ++ (tresourcesT tb x.resources ++
      ((x.layerAndMask.flat tb K x.header.version).encT x.header.version pad ++ x.imageData.encT))) := by
    simp only [PSD.encT, TPSD.flat, tresourcesT, List.append_assoc]
  generalize hD : (x.flat tb K).encT pad = D at hD0 ⊢
  have hlen : D.length = x.header.encT.length + (colorModeT x.colorModeData).length + (tresourcesT tb x.resources).length +
      ((x.layerAndMask.flat tb K x.header.version).encT x.header.version pad).length + x.imageData.encT.length := by
    rw [hD0]; simp only [List.length_append]; omega
  have hat : At D 0 (x.header.encT ++ (colorModeT x.colorModeData ++ (tresourcesT tb x.resources ++
      ((x.layerAndMask.flat tb K x.header.version).encT x.header.version pad ++ x.imageData.encT)))) := by
    rw [← hD0]; exact At.self D
  have e1 := Header.dec_at hh hat.left
  have hat := hat.right
  have e2 := colorModeDec_at hc hat.left
  have hat := hat.right
  have e3 := tresourcesDec_at tb hr hres hat.left
  have hat := hat.right
  have hil := x.imageData.length_encT
  have e4 := TLam.dec_at tb hK hl hty hat.left
  have hat := hat.right
  have e5 := ImageData.dec_at_end hi hat (by omega)
  simp only [read, bind, Except.bind, e1, e2, e3, e4, e5]
  simp only [refresh]
  congr 2
  omega

theorem enc_ok {pad : Nat} {x : TPSD Q} {bs : B} (h : enc tb K pad x = .ok bs) :
    bs = x.encT tb K pad ∧ ResPSD.enc tb pad (x.flatR tb K) = .ok bs ∧ x.payloadFits tb K := by
  unfold enc at h
  split at h
  · cases h
  · rename_i bs' he
    split at h
    · cases h
      refine ⟨?_, he, ‹_›⟩
      rw [ResPSD.enc_ok tb he]
      simp only [ResPSD.encT, DeepPSD.encT, encT, TPSD.flat_flatR]
    · cases h

theorem payloadFits_refresh (hK : K.Law) (x : TPSD Q) : (x.refresh tb K).payloadFits tb K ↔ x.payloadFits tb K := by
  have hKP := payKit_law tb hK
  obtain ⟨h, c, r, ⟨li, g, ts⟩, i⟩ := x
  simp only [payloadFits, refresh, TLam.refresh, TLam.payloadFits]
  apply and_congr
  · cases li with
    | none => exact Iff.rfl
    | some li => simp only [Option.map_some, optProp, Info.payloadFits_refresh hKP]
  · cases ts with
    | none => exact Iff.rfl
    | some ts =>
      simp only [Option.map_some, optAll, List.forall_mem_map, Blk.refresh, hKP.fits_refresh]

/-- re-writing the document object as `write` left it (= as it is re-read) gives the same bytes -/
theorem enc_refresh (hK : K.Law) (pad : Nat) (x : TPSD Q) : enc tb K pad (x.refresh tb K) = enc tb K pad x := by
  unfold enc
  rw [TPSD.flatR_refresh tb hK, ResPSD.enc_refresh]
  simp only [payloadFits_refresh tb hK]

end TPSD
end

end PsdVerif.Typed
