/-
C14 — cached boxes: vocabulary (attached nodes, `CacheOk`, `Fresh`), observations are pure and
keep the caches fresh, answers computed from fresh caches are the fresh answers.
-/
import PsdVerif.Lemmas.TreeHistory

namespace PsdVerif.TreeSt

/-- `x` is a document or listed below one -/
def Attached (s : State) (x : Id) : Prop := ∃ d, s.kind d = .doc ∧ (x = d ∨ Reach s d x)

/-- the cached box of container `g`, if any, is what a fresh computation gives -/
def CacheOk (s : State) (g : Id) : Prop :=
  ∀ b, s.cache g = some b → if s.kind g = .artboard then b = s.box g else extractBbox s g = .ok b

/-- every cached box of a layer that is in a document is fresh -/
def Fresh (s : State) : Prop := ∀ g, Attached s g → s.cont g = true → CacheOk s g

/-- every cached box at all is fresh (also on detached layers) -/
def FreshAll (s : State) : Prop := ∀ g, s.cont g = true → CacheOk s g

theorem FreshAll.fresh {s : State} (h : FreshAll s) : Fresh s := fun g _ hc => h g hc

/-- everything except the caches: the tree, the dirty flags and the tagged-block key lists of the records
(what a later answer or a save can show) -/
structure SameObs (s s' : State) : Prop where
  tree : SameTree s s'
  dirty : s'.dirty = s.dirty
  blocks : s'.blocks = s.blocks

theorem SameObs.refl (s : State) : SameObs s s := ⟨SameTree.refl s, rfl, rfl⟩
theorem SameObs.trans {a b c : State} (h1 : SameObs a b) (h2 : SameObs b c) : SameObs a c :=
  ⟨h1.tree.trans h2.tree, h2.dirty.trans h1.dirty, h2.blocks.trans h1.blocks⟩

theorem sameObs_cache (s : State) (c : Id → Option BBox) : SameObs s { s with cache := c } :=
  ⟨sameTree_cache s c, rfl, rfl⟩

theorem Attached.congr {s s' : State} (h : s'.children = s.children) (hk : s'.kind = s.kind) {x : Id}
    (a : Attached s x) : Attached s' x := by
  obtain ⟨d, hd, hx⟩ := a
  refine ⟨d, by rw [hk]; exact hd, ?_⟩
  cases hx with
  | inl e => exact .inl e
  | inr r => exact .inr (r.congr h)

theorem CacheOk.congr {s s' : State} (h : SameTree s s') {g : Id} (hc : s'.cache g = s.cache g) (c : CacheOk s g) :
    CacheOk s' g := by
  intro b hb
  rw [hc] at hb
  have := c b hb
  rw [h.kind, h.box, extractBbox_congr h]
  exact this

/-! ### observations -/

theorem readCache_obs (s : State) (x : Id) : SameObs s (readCache s x).1 := by
  unfold readCache
  split
  · exact SameObs.refl s
  · split
    · exact sameObs_cache s _
    · split
      · exact SameObs.refl s
      · exact sameObs_cache s _

theorem obsBbox_obs (s : State) (x : Id) : SameObs s (obsBbox s x).1 := by
  unfold obsBbox
  split
  · exact SameObs.refl s
  · have := readCache_obs s x
    split <;> simp_all

theorem reprAll_obs (s : State) (l : List Id) : SameObs s (reprAll s l).1 := by
  induction l generalizing s with
  | nil => exact SameObs.refl s
  | cons x xs ih =>
    simp only [reprAll]
    split
    · exact ih s
    · have h := obsBbox_obs s x
      split
      · rename_i s1 e heq; rw [heq] at h; exact h
      · rename_i s1 b heq; rw [heq] at h; exact h.trans (ih s1)

theorem refuse_obs (s : State) (r : Err × List Id) : SameObs s (refuse s r).1 := by
  unfold refuse
  have h := reprAll_obs s r.2
  split <;> (rename_i heq; rw [heq] at h; exact h)

theorem touchAll_obs (s : State) (l : List Id) : SameObs s (touchAll s l).1 := by
  induction l generalizing s with
  | nil => exact SameObs.refl s
  | cons x xs ih =>
    simp only [touchAll]
    have h := obsBbox_obs s x
    split
    · rename_i s1 e heq; rw [heq] at h; exact h
    · rename_i s1 b heq; rw [heq] at h; exact h.trans (ih s1)

/-- **Observations are pure**: they change nothing but caches. -/
theorem observe_obs (s : State) (o : Obs) : SameObs s (observe s o).1 := by
  cases o with
  | bbox x =>
    simp only [observe]
    have h := obsBbox_obs s x
    split <;> (rename_i heq; rw [heq] at h; exact h)
  | size x =>
    simp only [observe]
    split
    · exact SameObs.refl s
    · have h := obsBbox_obs s x
      split <;> (rename_i heq; rw [heq] at h; exact h)
  | repr x =>
    simp only [observe]
    split
    · exact SameObs.refl s
    · have h := obsBbox_obs s x
      split <;> (rename_i heq; rw [heq] at h; exact h)
  | descendants g => simp only [observe]; split <;> exact SameObs.refl s
  | len g => exact SameObs.refl s
  | index g x =>
    simp only [observe]
    split
    · exact SameObs.refl s
    · exact refuse_obs s _
  | count g x => exact SameObs.refl s
  | getitem g i =>
    simp only [observe]
    split
    · exact SameObs.refl s
    · split <;> exact SameObs.refl s
  | contains g x => exact SameObs.refl s
  | isVisible x => simp only [observe]; split <;> exact SameObs.refl s
  | getter x => exact SameObs.refl s
  | touch xs => exact touchAll_obs s xs

/-- a read fills the cache of `x` with the fresh value, and touches no other cache -/
theorem readCache_cache (s : State) (x g : Id) :
    (readCache s x).1.cache g = s.cache g ∨
      (g = x ∧ s.cache x = none ∧
        ((s.kind x = .artboard ∧ (readCache s x).1.cache x = some (s.box x)) ∨
         (s.kind x ≠ .artboard ∧ ∃ b, extractBbox s x = .ok b ∧ (readCache s x).1.cache x = some b))) := by
  unfold readCache
  split
  · exact .inl rfl
  · rename_i hnone
    split
    · rename_i hk
      by_cases hg : g = x
      · subst hg; exact .inr ⟨rfl, hnone, .inl ⟨hk, by simp [upd]⟩⟩
      · exact .inl (by simp [upd, hg])
    · rename_i hk
      split
      · exact .inl rfl
      · rename_i b hb
        by_cases hg : g = x
        · subst hg; exact .inr ⟨rfl, hnone, .inr ⟨hk, b, hb, by simp [upd]⟩⟩
        · exact .inl (by simp [upd, hg])

theorem cacheOk_readCache {s : State} (x g : Id) (h : CacheOk s g) : CacheOk (readCache s x).1 g := by
  have hs := (readCache_obs s x).tree
  rcases readCache_cache s x g with hc | ⟨hg, _, hv⟩
  · exact h.congr hs hc
  · subst hg
    intro b hb
    rw [hs.kind, hs.box, extractBbox_congr hs]
    rcases hv with ⟨hk, hv⟩ | ⟨hk, b', hb', hv⟩
    · rw [hv] at hb; cases hb; simp [hk]
    · rw [hv] at hb; cases hb; simp [hk, hb']

theorem cacheOk_obsBbox {s : State} (x g : Id) (h : CacheOk s g) : CacheOk (obsBbox s x).1 g := by
  unfold obsBbox
  split
  · exact h
  · have := cacheOk_readCache x g h
    split <;> simp_all

/-- a predicate on states that only depends on the tree and on which caches are `CacheOk` -/
theorem fresh_of_step {s s' : State} (hs : SameTree s s') (hc : ∀ g, CacheOk s g → CacheOk s' g) (f : Fresh s) :
    Fresh s' := by
  intro g ha hcont
  have ha' : Attached s g := ha.congr hs.children.symm hs.kind.symm
  exact hc g (f g ha' (by rw [← hs.cont]; exact hcont))

theorem fresh_obsBbox {s : State} (x : Id) (f : Fresh s) : Fresh (obsBbox s x).1 :=
  fresh_of_step (obsBbox_same s x) (fun g => cacheOk_obsBbox x g) f

theorem cacheOk_reprAll {s : State} (l : List Id) (g : Id) (h : CacheOk s g) : CacheOk (reprAll s l).1 g := by
  induction l generalizing s with
  | nil => exact h
  | cons x xs ih =>
    simp only [reprAll]
    split
    · exact ih h
    · have h1 := cacheOk_obsBbox x g h
      split
      · rename_i s1 e heq; rw [heq] at h1; exact h1
      · rename_i s1 b heq; rw [heq] at h1; exact ih h1

theorem cacheOk_refuse {s : State} (r : Err × List Id) (g : Id) (h : CacheOk s g) : CacheOk (refuse s r).1 g := by
  unfold refuse
  have h1 := cacheOk_reprAll r.2 g h
  split <;> (rename_i heq; rw [heq] at h1; exact h1)

theorem fresh_refuse {s : State} (r : Err × List Id) (f : Fresh s) : Fresh (refuse s r).1 :=
  fresh_of_step (refuse_same s r) (fun g => cacheOk_refuse r g) f

theorem cacheOk_touchAll {s : State} (l : List Id) (g : Id) (h : CacheOk s g) : CacheOk (touchAll s l).1 g := by
  induction l generalizing s with
  | nil => exact h
  | cons x xs ih =>
    simp only [touchAll]
    have h1 := cacheOk_obsBbox x g h
    split
    · rename_i s1 e heq; rw [heq] at h1; exact h1
    · rename_i s1 b heq; rw [heq] at h1; exact ih h1

theorem cacheOk_observe {s : State} (o : Obs) (g : Id) (h : CacheOk s g) : CacheOk (observe s o).1 g := by
  cases o with
  | bbox x =>
    simp only [observe]
    have h1 := cacheOk_obsBbox x g h
    split <;> (rename_i heq; rw [heq] at h1; exact h1)
  | size x =>
    simp only [observe]
    split
    · exact h
    · have h1 := cacheOk_obsBbox x g h
      split <;> (rename_i heq; rw [heq] at h1; exact h1)
  | repr x =>
    simp only [observe]
    split
    · exact h
    · have h1 := cacheOk_obsBbox x g h
      split <;> (rename_i heq; rw [heq] at h1; exact h1)
  | descendants g' => simp only [observe]; split <;> exact h
  | len g' => exact h
  | index g' x =>
    simp only [observe]
    split
    · exact h
    · exact cacheOk_refuse _ g h
  | count g' x => exact h
  | getitem g' i =>
    simp only [observe]
    split
    · exact h
    · split <;> exact h
  | contains g' x => exact h
  | isVisible x => simp only [observe]; split <;> exact h
  | getter x => exact h
  | touch xs => exact cacheOk_touchAll xs g h

/-- observations keep the caches fresh -/
theorem fresh_observe {s : State} (o : Obs) (f : Fresh s) : Fresh (observe s o).1 :=
  fresh_of_step (observe_same s o) (fun g => cacheOk_observe o g) f

theorem freshAll_observe {s : State} (o : Obs) (f : FreshAll s) : FreshAll (observe s o).1 := by
  intro g hc
  have hs := observe_same s o
  exact cacheOk_observe o g (f g (by rw [← hs.cont]; exact hc))

/-! ### the answers -/

/-- `x.bbox` computed from the tree alone (no cache) -/
def bboxAnswer (s : State) (x : Id) : Except Err BBox :=
  if !s.cont x then .ok (s.box x)
  else if s.kind x = .artboard then .ok (s.box x)
  else
    match extractBbox s x with
    | .error e => .error e
    | .ok b => .ok (if s.kind x = .doc ∧ b = BBox.zero then s.box x else b)

/-- with a fresh cache `x.bbox` is the fresh answer -/
theorem obsBbox_answer {s : State} (x : Id) (h : CacheOk s x) : (obsBbox s x).2 = bboxAnswer s x := by
  unfold obsBbox bboxAnswer
  by_cases hc : (!s.cont x) = true
  · simp [hc]
  · simp only [hc, if_false]
    unfold readCache
    cases hcache : s.cache x with
    | some b =>
      have hb := h b hcache
      simp only
      by_cases hk : s.kind x = .artboard
      · simp only [hk, if_true] at hb ⊢
        subst hb
        simp
      · simp only [hk, if_false] at hb ⊢
        rw [hb]
        simp
    | none =>
      simp only
      by_cases hk : s.kind x = .artboard
      · simp [hk]
      · simp only [hk, if_false]
        cases he : extractBbox s x with
        | error e => rfl
        | ok b => rfl

end PsdVerif.TreeSt
