/-
C06 cost programme — the linear bound of `tyshRunner` (Model/TyShCost.lean): `TypeToolObjectSetting.frombytes(data)`
together with the engine-data parse it performs on `text_data[b"EngineData"].value`.

The bytes handed to the engine-data parser are a `RawData` value of the text descriptor, which `DescriptorBlock.read`
read from `data` (`Descriptor.Block.dec_rawSize_inside`, `Descriptor.findRaw_le`): they are no longer than `data`, so an
engine-data parser that is linear in its input (`A · len + Bc`) keeps the whole run linear in `len(data)`.
-/
import PsdVerif.Model.TyShCost
import PsdVerif.Lemmas.DescriptorRawSize
import PsdVerif.Lemmas.PayloadCostDesc

namespace PsdVerif.PayloadCost
open PsdVerif PsdVerif.Codec PsdVerif.PsdCost PsdVerif.Payload PsdVerif.Payload3 PsdVerif.Safe PsdVerif.SafeCost

theorem exc_bind_ok {α β : Type} {m : Except Err β} {f : β → Except Err α} {y : α} (h : (m >>= f) = .ok y) :
    ∃ x, m = .ok x ∧ f x = .ok y := by
  cases m with
  | error e => cases h
  | ok x => exact ⟨x, rfl, h⟩

/-- the raw values of the text descriptor of a `TypeToolObjectSetting` read from `d` fit in `d` -/
theorem TypeToolObjectSetting.dec_rawSize {tb : Descriptor.Tables} {d : B} {p : Nat} {v : TypeToolObjectSetting} {p' : Nat}
    (h : TypeToolObjectSetting.dec tb d p = .ok (v, p')) : Descriptor.rawSizeItems v.textData.items ≤ d.length := by
  unfold TypeToolObjectSetting.dec at h
  obtain ⟨⟨version, p1⟩, _, h⟩ := exc_bind_ok h
  dsimp only at h
  obtain ⟨⟨tr, p2⟩, _, h⟩ := exc_bind_ok h
  dsimp only at h
  obtain ⟨⟨tv, p3⟩, _, h⟩ := exc_bind_ok h
  dsimp only at h
  obtain ⟨⟨text, p4⟩, h4, h⟩ := exc_bind_ok h
  dsimp only at h
  obtain ⟨⟨wv, p5⟩, _, h⟩ := exc_bind_ok h
  dsimp only at h
  obtain ⟨⟨warp, p6⟩, _, h⟩ := exc_bind_ok h
  dsimp only at h
  obtain ⟨⟨l, p7⟩, _, h⟩ := exc_bind_ok h
  dsimp only at h
  obtain ⟨⟨t, p8⟩, _, h⟩ := exc_bind_ok h
  dsimp only at h
  obtain ⟨⟨r, p9⟩, _, h⟩ := exc_bind_ok h
  dsimp only at h
  obtain ⟨⟨b, p10⟩, _, h⟩ := exc_bind_ok h
  dsimp only at h
  have h5 := Descriptor.Block.dec_rawSize_inside h4
  split at h
  · cases h
    dsimp only
    omega
  · cases h

/-- the bytes given to the engine-data parser are no longer than the block -/
theorem TypeToolObjectSetting.engineData_le {tb : Descriptor.Tables} {d : B} {p : Nat} {v : TypeToolObjectSetting} {p' : Nat}
    {key raw : B} (h : TypeToolObjectSetting.dec tb d p = .ok (v, p'))
    (hf : Descriptor.findRaw key v.textData.items = some raw) : raw.length ≤ d.length :=
  Nat.le_trans (Descriptor.findRaw_le hf) (TypeToolObjectSetting.dec_rawSize h)

/-- the bound, for any twin of the reader that erases to it and satisfies a `CostR a b k` judgement -/
theorem tyshRunner_bound_of {tb : Descriptor.Tables} {engine : B → CE Unit} {a b k A Bc : Nat}
    (hfst : ∀ d p, (TypeToolObjectSetting.decC tb d p).1 = TypeToolObjectSetting.dec tb d p)
    (hcost : CostR a b k (TypeToolObjectSetting.decC tb))
    (he : ∀ raw, (engine raw).2.w ≤ A * raw.length + Bc) (data : B) :
    (tyshRunner tb engine data).2.w ≤ (a + 1 + A) * data.length + (b + 1 + Bc) ∧
      (tyshRunner tb engine data).1 ≠ .error .other := by
  have c := hcost data 0 (Nat.zero_le _)
  have hw : (enterBlock data).2.w = 1 + data.length := rfl
  have hexp : (a + 1 + A) * data.length = a * data.length + data.length + A * data.length := by
    rw [Nat.add_mul, Nat.add_mul, Nat.one_mul]
  unfold tyshRunner
  rw [bind_ok' (enterBlock_fst data)]
  cases hx : (TypeToolObjectSetting.decC tb data 0).1 with
  | error e =>
    have h1 := c.of_error hx
    rw [Nat.sub_zero] at h1
    rw [bind_err' hx]
    dsimp only
    rw [w_add, hw]
    refine ⟨by omega, ?_⟩
    intro hcontra
    cases hcontra
    exact h1.1 rfl
  | ok y =>
    obtain ⟨v, p'⟩ := y
    have h1 := c.of_ok hx
    rw [Nat.sub_zero] at h1
    have hd : TypeToolObjectSetting.dec tb data 0 = .ok (v, p') := by rw [← hfst]; exact hx
    have hmul : a * p' ≤ a * data.length := Nat.mul_le_mul_left a (by omega)
    rw [bind_ok' hx]
    dsimp only
    cases hf : Descriptor.findRaw engineDataKey v.textData.items with
    | none =>
      dsimp only
      rw [w_add, w_add, hw, ok_w]
      refine ⟨by omega, ?_⟩
      intro hcontra
      cases hcontra
    | some raw =>
      dsimp only
      have hr := TypeToolObjectSetting.engineData_le hd hf
      have hA : A * raw.length ≤ A * data.length := Nat.mul_le_mul_left A hr
      have := he raw
      rw [w_add, w_add, hw]
      refine ⟨by omega, ?_⟩
      intro hcontra
      cases hcontra

/-- `TypeToolObjectSetting.frombytes(data)` with an engine-data parser that costs at most `A · len + Bc`:
at most `(4 + 1 + A) · len(data) + (33 + 1 + Bc)`; it never fails with the model's catch-all error -/
theorem tyshRunner_bound {engine : B → CE Unit} {A Bc : Nat} (he : ∀ raw, (engine raw).2.w ≤ A * raw.length + Bc)
    (tb : Descriptor.Tables) (data : B) :
    (tyshRunner tb engine data).2.w ≤ (4 + 1 + A) * data.length + (33 + 1 + Bc) ∧
      (tyshRunner tb engine data).1 ≠ .error .other :=
  tyshRunner_bound_of (TypeToolObjectSetting.decC_fst tb) (TypeToolObjectSetting.decC_cost tb) he data

end PsdVerif.PayloadCost
