/-
C03 — the specification walker accepts what the model writer emits: the layer and mask section,
image data, the whole file.
-/
import PsdVerif.Lemmas.Walker3

namespace PsdVerif.Walker
open PsdVerif PsdVerif.Codec PsdVerif.Psd

theorem walkLayerAndMask_step {v pad : Nat} (hv : v = 1 ∨ v = 2) (hp : pad = 1 ∨ pad = 2 ∨ pad = 4)
    {x : LayerAndMask} (hwf : x.WF v pad) (hsh1 : optInfoShaped v x.layerInfo)
    (hsh2 : optBlocksAgree v x.taggedBlocks) {d : B} {p : Nat} {rest : B}
    (hat : At d p (x.encT v pad ++ rest)) :
    posOf (walkLayerAndMask v d p) = some (p + (x.encT v pad).length) ∧ At d (p + (x.encT v pad).length) rest := by
  refine ⟨?_, hat.right⟩
  have hat1 := hat.left
  clear hat
  have hw := secW_pos v
  have hlw := lenW_eq_secW hv
  obtain ⟨⟨_, _, _, hfb⟩, hrest⟩ := hwf
  rw [LayerAndMask.length_encT]
  unfold LayerAndMask.encT at hat1
  rw [lenBlockT_simple] at hat1
  have hb0 := hat1.bound
  simp only [List.length_append, length_beBytes] at hb0
  have hat2 := hat1.nil_right
  clear hat1
  rw [List.append_assoc] at hat2
  rw [← hlw] at hat2 hfb
  obtain ⟨e1, hat⟩ := wU_step (sect := "layer-and-mask") hat2 hfb
  clear hat2
  obtain ⟨li, g, ts⟩ := x
  simp only at hrest hsh1 hsh2
  generalize hB : LayerAndMask.bodyT v pad ⟨li, g, ts⟩ = body at *
  have e2 : skip "layer-and-mask" body.length d (p + lenW v) = .ok ((), p + lenW v + body.length) := by
    unfold skip; rw [if_pos (by omega)]
  cases li with
  | none =>
    obtain ⟨rfl, rfl⟩ := hrest
    have : body = [] := by rw [← hB]; simp [LayerAndMask.bodyT, optT']
    subst this
    simp only [List.length_nil] at e1 e2
    simp only [walkLayerAndMask, bind, Except.bind, e1, e2, if_true, posOf, List.length_nil, Option.some.injEq]
    omega
  | some li =>
    simp only at hrest
    obtain ⟨hli, hg, hts, hgt⟩ := hrest
    simp only [optInfoShaped] at hsh1
    cases ts with
    | none => simp at hts
    | some ts =>
      simp only at hts
      simp only [optBlocksAgree] at hsh2
      have hbody : body = li.encT v pad ++ (optT' GlobalLayerMaskInfo.encT g ++ (taggedBlocksT v 4 ts ++ [])) := by
        rw [← hB]; simp only [LayerAndMask.bodyT, optT', List.append_assoc, List.append_nil]
      have hlige := li.length_encT_ge v pad
      have hne : ¬ body.length = 0 := by rw [hbody]; simp only [List.length_append]; omega
      have hblen : body.length = (li.encT v pad).length + (optT' GlobalLayerMaskInfo.encT g).length +
          (taggedBlocksT v 4 ts).length := by
        rw [hbody]; simp only [List.length_append, List.length_nil]; omega
      rw [List.append_nil, hbody] at hat
      obtain ⟨e3, hat⟩ := walkLayerInfo_step hv hp hli hsh1 hat
      obtain ⟨rg, e3⟩ := posOf_ok e3
      have c1 : p + lenW v + (li.encT v pad).length ≤ p + lenW v + body.length := by omega
      cases g with
      | none =>
        have : ts = [] := by simpa using hgt rfl
        subst this
        simp only [optT', taggedBlocksT, listT, List.length_nil, Nat.add_zero] at hblen
        have c2 : ¬ p + lenW v + (li.encT v pad).length + 4 ≤ p + lenW v + body.length := by omega
        simp only [walkLayerAndMask, bind, Except.bind, e1, e2, if_neg hne, e3, check_eq, decide_eq_true_eq, if_pos c1,
          if_neg c2, posOf, Option.some.injEq]
        omega
      | some g =>
        simp only [optProp] at hg
        simp only [optT'] at hat hblen
        have hgl := g.length_encT hg.2.1
        have hgenc : g.encT = beBytes 4 g.bodyT.length ++ g.bodyT := by
          simp [GlobalLayerMaskInfo.encT, lenBlockT_simple]
        have hgb : g.encT.length = 4 + g.bodyT.length := by rw [hgenc]; simp [length_beBytes]
        have hgf : g.bodyT.length < 256 ^ 4 := by
          have : g.bodyT.length ≤ 16 := by split at hgl <;> omega
          have : (16 : Nat) < 256 ^ 4 := by decide
          omega
        rw [hgenc, List.append_assoc] at hat
        obtain ⟨e4, hat⟩ := wU_step (sect := "global-layer-mask") hat hgf
        obtain ⟨e5, hat⟩ := skip_step (sect := "global-layer-mask") hat rfl
        have hcount : ts.length < body.length + 1 := by
          have := length_listT_le (TaggedBlock.encT v 4) ts 1 (fun t _ => by have := t.length_ge v 4; omega)
          unfold taggedBlocksT at hblen; omega
        have e6 := walkBlocksLoop_at (sect := "global-tagged-blocks") (v := v) (align := 4) (even := false)
          (Or.inr (Or.inr rfl)) ts hts.1 hsh2 (fun h => by cases h) hat (p + lenW v + body.length)
          (by omega) (by omega) (body.length + 1) hcount
        obtain ⟨rg2, e6⟩ := posOf_ok e6
        have c2 : p + lenW v + (li.encT v pad).length + 4 ≤ p + lenW v + body.length := by omega
        have c3 : p + lenW v + (li.encT v pad).length + 4 + g.bodyT.length ≤ p + lenW v + body.length := by omega
        simp only [walkLayerAndMask, bind, Except.bind, e1, e2, if_neg hne, e3, check_eq, decide_eq_true_eq, if_pos c1,
          if_pos c2, e4, e5, if_pos c3, e6, posOf, Option.some.injEq]
        omega

theorem walkImageData_at_end {i : ImageData} (hwf : i.WF) {d : B} {p : Nat} (hat : At d p i.encT) :
    posOf (walkImageData d p) = some d.length := by
  have hc : ∀ x ∈ G.imageCompressions, x < 256 ^ 2 ∧ x ≤ 3 := by decide
  have hwf' : i.compression ∈ G.imageCompressions := hwf
  simp only [ImageData.encT] at hat
  obtain ⟨e1, _⟩ := wU_step (sect := "image-data") hat (hc _ hwf').1
  simp only [walkImageData, bind, Except.bind, e1, check_eq, decide_eq_true_eq, if_pos (hc _ hwf').2, posOf]

/-- the walker, run on what the model writer emits for a well-formed, specification-shaped document,
visits every section and stops exactly at the end of the file -/
theorem walk_encT {pad : Nat} (hp : pad = 1 ∨ pad = 2 ∨ pad = 4) {x : PSD} (hwf : x.WF pad) (hsh : SpecShaped x) :
    ∃ L, walk (x.encT pad) = .ok L ∧ L.stop = (x.encT pad).length := by
  obtain ⟨hh, hc, hr, hl, hi⟩ := hwf
  obtain ⟨hs1, hs2⟩ := hsh
  have hv : x.header.version = 1 ∨ x.header.version = 2 := by
    have : ∀ n ∈ G.headerVersions, n = 1 ∨ n = 2 := by decide
    exact this _ hh.2.1
  generalize hD : x.encT pad = D
  have hD' : D = x.header.encT ++ (colorModeT x.colorModeData ++ (resourcesT x.resources ++
      (x.layerAndMask.encT x.header.version pad ++ x.imageData.encT))) := by
    rw [← hD]; simp only [PSD.encT, List.append_assoc]
  have hat : At D 0 (x.header.encT ++ (colorModeT x.colorModeData ++ (resourcesT x.resources ++
      (x.layerAndMask.encT x.header.version pad ++ x.imageData.encT)))) := by
    rw [← hD']; exact At.self D
  obtain ⟨e1, hat⟩ := walkHeader_step hh hat
  obtain ⟨r0, e1⟩ := navOf_ok e1
  obtain ⟨e2, hat⟩ := walkColorMode_step hc hat
  obtain ⟨r1, e2⟩ := posOf_ok e2
  obtain ⟨e3, hat⟩ := walkResources_step hr hat
  obtain ⟨r2, e3⟩ := posOf_ok e3
  obtain ⟨e4, hat⟩ := walkLayerAndMask_step hv hp hl hs1 hs2 hat
  obtain ⟨r3, e4⟩ := posOf_ok e4
  have e5 := walkImageData_at_end hi hat
  obtain ⟨r4, e5⟩ := posOf_ok e5
  have e : walk D = .ok ⟨⟨x.header.version, x.header.channels, x.header.height, x.header.width, x.header.depth,
      x.header.colorMode⟩, r0 ++ r1 ++ r2 ++ r3 ++ r4, D.length⟩ := by
    simp only [walk, bind, Except.bind, e1, e2, e3, e4, e5]
  exact ⟨_, e, rfl⟩

end PsdVerif.Walker
