/-
Helper lemmas for C19 (string primitives): cursor arithmetic, integers, padding,
UTF-16 units, round trips in the `pre ++ bs ++ post` form. Core Lean only.
-/
import PsdVerif.Model.Unicode

namespace PsdVerif.Unicode
open PsdVerif

/-! ### slices -/

theorem slice_append (pre a rest : BL) : slice (pre ++ (a ++ rest)) pre.length a.length = a := by
  simp [slice]

theorem slice_append' (pre a rest : BL) (n : Nat) (h : n = a.length) :
    slice (pre ++ (a ++ rest)) pre.length n = a := by
  subst h; exact slice_append pre a rest

theorem slice_length_le (d : BL) (pos n : Nat) : (slice d pos n).length ≤ n := by
  simp [slice]; omega

/-! ### integers -/

theorem toNat_ofNat (x : Nat) : (UInt8.ofNat x).toNat = x % 256 := by
  simp [UInt8.toNat_ofNat']

theorem be32_length (n : Nat) : (be32 n).length = 4 := rfl
theorem be16_length (n : Nat) : (be16 n).length = 2 := rfl

theorem readU8_append (pre post : BL) (n : Nat) (h : n < 256) :
    readU8 (pre ++ ([UInt8.ofNat n] ++ post)) pre.length = .ok (n, pre.length + 1) := by
  have : slice (pre ++ ([UInt8.ofNat n] ++ post)) pre.length 1 = [UInt8.ofNat n] :=
    slice_append' pre [UInt8.ofNat n] post 1 rfl
  simp only [readU8, this, toNat_ofNat]
  congr 2; omega

theorem readU32_append (pre post : BL) (n : Nat) (h : n < 4294967296) :
    readU32 (pre ++ (be32 n ++ post)) pre.length = .ok (n, pre.length + 4) := by
  have : slice (pre ++ (be32 n ++ post)) pre.length 4 = be32 n :=
    slice_append' pre (be32 n) post 4 rfl
  unfold readU32
  rw [this]
  simp only [be32, toNat_ofNat]
  congr 2; omega

/-! ### padding -/

theorem readPadding_append (pre post : BL) (size pad : Nat) (hp : pad ≠ 0) :
    readPadding (pre ++ (List.replicate (padLen size pad) 0 ++ post)) pre.length size pad
      = .ok (pre.length + padLen size pad) := by
  have : slice (pre ++ (List.replicate (padLen size pad) (0 : UInt8) ++ post)) pre.length (padLen size pad)
      = List.replicate (padLen size pad) 0 :=
    slice_append' pre _ post _ (by simp)
  simp [readPadding, hp, this]

theorem padLen_aligned (size pad : Nat) (hp : pad ≠ 0) : (size + padLen size pad) % pad = 0 := by
  unfold padLen
  split
  · simpa
  · rename_i h
    have hlt : size % pad < pad := Nat.mod_lt _ (Nat.pos_of_ne_zero hp)
    have h1 : size + (pad - size % pad) = pad * (size / pad) + pad := by
      have := Nat.div_add_mod size pad
      omega
    rw [h1]; simp

theorem padLen_lt (size pad : Nat) (hp : pad ≠ 0) : padLen size pad < pad := by
  unfold padLen
  split
  · exact Nat.pos_of_ne_zero hp
  · have : 0 < pad := Nat.pos_of_ne_zero hp
    omega

/-! ### UTF-16 units -/

theorem unitsOfBytes_bytesOfUnits (us : List Nat) (h : ∀ u ∈ us, u < 65536) :
    unitsOfBytes (bytesOfUnits us ) = some us := by
  induction us with
  | nil => rfl
  | cons u r ih =>
    have hu : u < 65536 := h u (by simp)
    have ih' := ih (fun v hv => h v (by simp [hv]))
    simp only [bytesOfUnits, List.flatMap_cons, be16, List.cons_append, List.nil_append] at ih' ⊢
    simp only [unitsOfBytes, ih', toNat_ofNat]
    congr 2; omega

theorem bytesOfUnits_length (us : List Nat) : (bytesOfUnits us).length = 2 * us.length := by
  induction us with
  | nil => rfl
  | cons u r ih => simp only [bytesOfUnits, List.flatMap_cons, List.length_append, be16_length, List.length_cons] at ih ⊢; omega

theorem encUnits_lt (s : Str) (h : PyStr s) : ∀ u ∈ encUnits s, u < 65536 := by
  induction s with
  | nil => simp [encUnits]
  | cons c r ih =>
    have hc : c < 0x110000 := h c (by simp)
    have ih' := ih (fun v hv => h v (by simp [hv]))
    unfold encUnits
    split
    · intro u hu
      simp only [List.mem_cons] at hu
      rcases hu with h1 | h1
      · omega
      · exact ih' u h1
    · intro u hu
      simp only [List.mem_cons] at hu
      rcases hu with h1 | h1 | h1
      · omega
      · omega
      · exact ih' u h1

theorem NoPair_tail {a : Nat} {r : Str} (h : NoPair (a :: r)) : NoPair r := by
  cases r with
  | nil => trivial
  | cons b r => exact h.2

/-- The code's decoder inverts its encoder on every `str` without an adjacent
(high, low) surrogate pair. -/
theorem decUnits_encUnits (s : Str) (h : PyStr s) (hn : NoPair s) : decUnits (encUnits s) = s := by
  induction s with
  | nil => rfl
  | cons c r ih =>
    have hc : c < 0x110000 := h c (by simp)
    have ih' := ih (fun v hv => h v (by simp [hv])) (NoPair_tail hn)
    unfold encUnits
    split
    · rename_i hlt
      cases r with
      | nil => simp [encUnits, decUnits]
      | cons c2 r2 =>
        have hnp : ¬ (isHigh c ∧ isLow c2) := hn.1
        unfold encUnits at ih' ⊢
        split
        · rename_i h2
          simp only [h2, if_true] at ih'
          unfold decUnits
          rw [if_neg hnp, ih']
        · rename_i h2
          simp only [h2, if_false] at ih'
          unfold decUnits
          have : ¬ (isHigh c ∧ isLow (0xD800 + (c2 - 0x10000) / 0x400)) := by
            have hc2 : c2 < 0x110000 := h c2 (by simp)
            unfold isLow; omega
          rw [if_neg this, ih']
    · rename_i hge
      unfold decUnits
      have h1 : isHigh (0xD800 + (c - 0x10000) / 0x400) ∧ isLow (0xDC00 + (c - 0x10000) % 0x400) := by
        unfold isHigh isLow; omega
      simp only [h1, and_self, if_true, ih']
      exact congrArg (· :: r) (by omega)

/-- Re-encoding what was decoded gives the same units: files re-save identically,
unpaired surrogates included. -/
theorem encUnits_decUnits (us : List Nat) (h : ∀ u ∈ us, u < 65536) : encUnits (decUnits us) = us := by
  fun_induction decUnits us with
  | case1 => rfl
  | case2 u =>
    have : u < 65536 := h u (by simp)
    simp [encUnits]; omega
  | case3 u v r hp ih =>
    have ih' := ih (fun w hw => h w (by simp [hw]))
    unfold encUnits
    unfold isHigh isLow at hp
    have : ¬ (65536 + (u - 55296) * 1024 + (v - 56320) < 65536) := by omega
    rw [if_neg this, ih']
    have e1 : 0xD800 + (0x10000 + (u - 0xD800) * 0x400 + (v - 0xDC00) - 0x10000) / 0x400 = u := by omega
    have e2 : 0xDC00 + (0x10000 + (u - 0xD800) * 0x400 + (v - 0xDC00) - 0x10000) % 0x400 = v := by omega
    rw [e1, e2]
  | case4 u v r hp ih =>
    have hu : u < 65536 := h u (by simp)
    have ih' := ih (fun w hw => h w (by simp [hw]))
    unfold encUnits
    rw [if_pos hu, ih']

/-! ### `write_unicode_string` / `read_unicode_string` -/

/-- Layout of a written unicode string. -/
def unitsLayout (us : List Nat) (pad : Nat) : BL :=
  be32 us.length ++ bytesOfUnits us ++ List.replicate (padLen (4 + 2 * us.length) pad) 0

theorem writeUnits_eq (us : List Nat) (pad : Nat) (bs : BL) :
    writeUnits us pad = .ok bs ↔ us.length < 4294967296 ∧ pad ≠ 0 ∧ bs = unitsLayout us pad := by
  unfold writeUnits writeU32 writePadding unitsLayout
  by_cases h1 : us.length < 4294967296 <;> by_cases h2 : pad = 0 <;>
    simp [h1, h2, be32_length, bytesOfUnits_length, eq_comm]

theorem writeUnits_err (us : List Nat) (pad : Nat) (e : Err) :
    writeUnits us pad = .error e ↔
      (¬ us.length < 4294967296 ∧ e = .structError) ∨ (us.length < 4294967296 ∧ pad = 0 ∧ e = .other) := by
  unfold writeUnits writeU32 writePadding
  by_cases h1 : us.length < 4294967296 <;> by_cases h2 : pad = 0 <;> simp [h1, h2, eq_comm]

theorem unitsLayout_length (us : List Nat) (pad : Nat) :
    (unitsLayout us pad).length = 4 + 2 * us.length + padLen (4 + 2 * us.length) pad := by
  simp [unitsLayout, be32_length, bytesOfUnits_length]; omega

theorem slice_end_le (d : BL) (pos n : Nat) (h : pos ≤ d.length) : pos + (slice d pos n).length ≤ d.length := by
  simp only [slice, List.length_take, List.length_drop]; omega

/-- The reader on a written unit string, up to the padding step (reader padding `pr` may
differ from the writer's `pw`). -/
theorem readUnicodeString_layout_gen (us : List Nat) (pw pr : Nat) (pre post : BL)
    (hlen : us.length < 4294967296) (hu : ∀ u ∈ us, u < 65536) :
    readUnicodeString (pre ++ unitsLayout us pw ++ post) pre.length pr
      = match readPadding (pre ++ unitsLayout us pw ++ post) (pre.length + 4 + 2 * us.length) (4 + 2 * us.length) pr with
        | .error e => .error e
        | .ok p3 => .ok (decUnits us, p3) := by
  unfold readUnicodeString
  generalize hd : pre ++ unitsLayout us pw ++ post = d
  have e1 : d = pre ++ (be32 us.length ++ (bytesOfUnits us ++ List.replicate (padLen (4 + 2 * us.length) pw) 0 ++ post)) := by
    simp [← hd, unitsLayout, List.append_assoc]
  have r1 : readU32 d pre.length = .ok (us.length, pre.length + 4) := by
    rw [e1]; exact readU32_append pre _ us.length hlen
  have e2 : d = (pre ++ be32 us.length) ++ (bytesOfUnits us ++ (List.replicate (padLen (4 + 2 * us.length) pw) 0 ++ post)) := by
    simp [e1, List.append_assoc]
  have r2 : slice d (pre.length + 4) (2 * us.length) = bytesOfUnits us := by
    have hl : pre.length + 4 = (pre ++ be32 us.length).length := by simp [be32_length]
    rw [e2, hl]
    exact slice_append' _ (bytesOfUnits us) _ _ (bytesOfUnits_length us).symm
  rw [r1]
  simp only [r2, unitsOfBytes_bytesOfUnits us hu, bytesOfUnits_length]
  rfl

/-- Reading a written unit string from the middle of any stream, with the writer's padding. -/
theorem readUnicodeString_layout (us : List Nat) (pad : Nat) (pre post : BL)
    (hlen : us.length < 4294967296) (hp : pad ≠ 0) (hu : ∀ u ∈ us, u < 65536) :
    readUnicodeString (pre ++ unitsLayout us pad ++ post) pre.length pad
      = .ok (decUnits us, pre.length + (unitsLayout us pad).length) := by
  rw [readUnicodeString_layout_gen us pad pad pre post hlen hu]
  have e3 : pre ++ unitsLayout us pad ++ post
      = (pre ++ be32 us.length ++ bytesOfUnits us) ++ (List.replicate (padLen (4 + 2 * us.length) pad) 0 ++ post) := by
    simp [unitsLayout, List.append_assoc]
  have hl2 : pre.length + 4 + 2 * us.length = (pre ++ be32 us.length ++ bytesOfUnits us).length := by
    simp [be32_length, bytesOfUnits_length]; omega
  rw [e3, hl2, readPadding_append _ post _ pad hp]
  simp only [List.length_append, be32_length, bytesOfUnits_length, unitsLayout_length]
  congr 2; omega

/-- `rt` law of the unicode string codec (DESIGN section 3), for every `str` without an
adjacent surrogate pair, every padding, anywhere in a stream. -/
theorem readUnicodeString_write (s : Str) (pad : Nat) (bs pre post : BL) (hn : NoPair s)
    (hw : writeUnicodeString s pad = .ok bs) :
    readUnicodeString (pre ++ bs ++ post) pre.length pad = .ok (s, pre.length + bs.length) := by
  unfold writeUnicodeString at hw
  split at hw
  · rename_i hs
    obtain ⟨hlen, hp, rfl⟩ := (writeUnits_eq _ _ _).mp hw
    rw [readUnicodeString_layout _ pad pre post hlen hp (encUnits_lt s hs), decUnits_encUnits s hs hn]
  · cases hw

/-- The value read does not depend on the reader's padding (blocks written with padding 4
are read back with padding 1 from their own `BytesIO`); the cursor stays inside the stream. -/
theorem readUnicodeString_value (s : Str) (pw pr : Nat) (bs pre post : BL) (hn : NoPair s) (hpr : pr ≠ 0)
    (hw : writeUnicodeString s pw = .ok bs) :
    ∃ p, readUnicodeString (pre ++ bs ++ post) pre.length pr = .ok (s, p) ∧ p ≤ (pre ++ bs ++ post).length := by
  unfold writeUnicodeString at hw
  split at hw
  · rename_i hs
    obtain ⟨hlen, hp, rfl⟩ := (writeUnits_eq _ _ _).mp hw
    rw [readUnicodeString_layout_gen _ pw pr pre post hlen (encUnits_lt s hs), decUnits_encUnits s hs hn]
    simp only [readPadding, hpr, if_false]
    refine ⟨_, rfl, ?_⟩
    apply slice_end_le
    simp only [List.length_append, unitsLayout_length]
    omega
  · cases hw

/-! ### `write_pascal_string` / `read_pascal_string` -/

/-- Layout of a written Pascal string with encoded payload `data`. -/
def pascalLayout (data : BL) (pad : Nat) : BL :=
  UInt8.ofNat data.length :: data ++ List.replicate (padLen (1 + data.length) pad) 0

theorem pascalLayout_length (data : BL) (pad : Nat) :
    (pascalLayout data pad).length = 1 + data.length + padLen (1 + data.length) pad := by
  simp [pascalLayout]; omega

/-- The writer succeeds exactly when the string is encodable within 255 bytes (and the
padding is not 0), and then emits the whole encoded string: nothing is truncated. -/
theorem writePascalString_eq (e : Encoding) (s : Str) (pad : Nat) (bs : BL) :
    writePascalString e s pad = .ok bs ↔
      ∃ data, e.encode s = some data ∧ data.length ≤ 255 ∧ pad ≠ 0 ∧ bs = pascalLayout data pad := by
  unfold writePascalString writeU8 writePadding pascalLayout
  cases he : e.encode s with
  | none => simp
  | some data =>
    by_cases h1 : data.length < 256 <;> by_cases h2 : pad = 0 <;>
      simp [h1, h2, eq_comm, Nat.add_comm] <;> omega

theorem writePascalString_err (e : Encoding) (s : Str) (pad : Nat) (er : Err) :
    writePascalString e s pad = .error er ↔
      (e.encode s = none ∧ er = .unicodeError)
      ∨ (∃ data, e.encode s = some data ∧ 255 < data.length ∧ er = .structError)
      ∨ (∃ data, e.encode s = some data ∧ data.length ≤ 255 ∧ pad = 0 ∧ er = .other) := by
  unfold writePascalString writeU8 writePadding
  cases he : e.encode s with
  | none => simp [eq_comm]
  | some data =>
    by_cases h1 : data.length < 256
    · have h3 : ¬ 255 < data.length := by omega
      have h4 : data.length ≤ 255 := by omega
      by_cases h2 : pad = 0 <;> simp [h1, h2, h3, h4, eq_comm]
    · have h3 : 255 < data.length := by omega
      have h4 : ¬ data.length ≤ 255 := by omega
      by_cases h2 : pad = 0 <;> simp [h1, h2, h3, h4, eq_comm]

/-- The reader on a written Pascal string, up to the decoding step. -/
theorem readPascalString_layout (e : Encoding) (data : BL) (pad : Nat) (pre post : BL)
    (hlen : data.length ≤ 255) (hp : pad ≠ 0) :
    readPascalString e (pre ++ pascalLayout data pad ++ post) pre.length pad
      = match e.decode data with
        | none => .error .unicodeError
        | some s => .ok (s, pre.length + (pascalLayout data pad).length) := by
  unfold readPascalString
  generalize hd : pre ++ pascalLayout data pad ++ post = d
  have e1 : d = pre ++ ([UInt8.ofNat data.length] ++ (data ++ List.replicate (padLen (1 + data.length) pad) 0 ++ post)) := by
    simp [← hd, pascalLayout, List.append_assoc]
  have r1 : readU8 d pre.length = .ok (data.length, pre.length + 1) := by
    rw [e1]; exact readU8_append pre _ data.length (by omega)
  have e2 : d = (pre ++ [UInt8.ofNat data.length]) ++ (data ++ (List.replicate (padLen (1 + data.length) pad) 0 ++ post)) := by
    simp [e1, List.append_assoc]
  have r2 : slice d (pre.length + 1) data.length = data := by
    have hl : pre.length + 1 = (pre ++ [UInt8.ofNat data.length]).length := by simp
    rw [e2, hl]
    exact slice_append _ data _
  have e3 : d = (pre ++ [UInt8.ofNat data.length] ++ data) ++ (List.replicate (padLen (1 + data.length) pad) 0 ++ post) := by
    simp [e1, List.append_assoc]
  have r3 : readPadding d (pre.length + 1 + data.length) (pre.length + 1 + data.length - pre.length) pad
      = .ok (pre.length + 1 + data.length + padLen (1 + data.length) pad) := by
    have hl : pre.length + 1 + data.length = (pre ++ [UInt8.ofNat data.length] ++ data).length := by simp; omega
    have hs : pre.length + 1 + data.length - pre.length = 1 + data.length := by omega
    rw [hs, e3, hl]
    exact readPadding_append _ post _ pad hp
  rw [r1]
  simp only [r2, r3, ne_eq, not_true_eq_false, if_false, pascalLayout_length]
  cases e.decode data with
  | none => rfl
  | some s => simp only; congr 2; omega

/-- `rt` law of the Pascal string codec: needs the codec law on this string only. -/
theorem readPascalString_write (e : Encoding) (s : Str) (pad : Nat) (bs pre post : BL)
    (hl : ∀ b, e.encode s = some b → e.decode b = some s)
    (hw : writePascalString e s pad = .ok bs) :
    readPascalString e (pre ++ bs ++ post) pre.length pad = .ok (s, pre.length + bs.length) := by
  obtain ⟨data, he, hlen, hp, rfl⟩ := (writePascalString_eq e s pad bs).mp hw
  rw [readPascalString_layout e data pad pre post hlen hp, hl data he]

/-! ### concrete codecs satisfy the codec law -/

theorem charmap_lawful (table : List Nat) : (charmap table).Lawful := by
  intro s
  induction s with
  | nil =>
    intro b hb
    simp [charmap] at hb
    subst hb
    simp [charmap]
  | cons c r ih =>
    intro b hb
    simp only [charmap, List.mapM_cons, bind, Option.bind_eq_some_iff] at hb
    obtain ⟨x, hx, bs, hbs, hb⟩ := hb
    simp at hb
    subst hb
    have ih' := ih bs (by simpa [charmap] using hbs)
    simp only [charmap] at ih' ⊢
    split at hx
    · rename_i hi
      simp at hx
      subst hx
      have hmod : (UInt8.ofNat (List.idxOf c table)).toNat = List.idxOf c table := by
        rw [toNat_ofNat]; omega
      simp [List.mapM_cons, hmod, ih']
      have hg : table[List.idxOf c table]? = some c := by
        rw [List.getElem?_eq_getElem hi.1]
        simp [List.getElem_idxOf]
      simp [hg]
    · cases hx

theorem utf8Dec_encChar (c : Nat) (a rest : BL) (h : utf8EncChar c = some a) :
    utf8Dec (a ++ rest) = (utf8Dec rest).map (c :: ·) := by
  unfold utf8EncChar at h
  split at h
  · rename_i h1
    simp only [Option.some.injEq] at h; subst h
    have t0 : (UInt8.ofNat c).toNat = c := by rw [toNat_ofNat]; omega
    simp only [List.cons_append, List.nil_append]
    rw [utf8Dec.eq_def]
    simp only [t0, h1, if_true]
  · split at h
    · rename_i h1 h2
      simp only [Option.some.injEq] at h; subst h
      have t0 : (UInt8.ofNat (0xC0 + c / 64)).toNat = 0xC0 + c / 64 := by rw [toNat_ofNat]; omega
      have t1 : (UInt8.ofNat (0x80 + c % 64)).toNat = 0x80 + c % 64 := by rw [toNat_ofNat]; omega
      simp only [List.cons_append, List.nil_append]
      rw [utf8Dec.eq_def]
      have c1 : ¬ (0xC0 + c / 64 < 0x80) := by omega
      have c2 : ¬ (0xC0 + c / 64 < 0xC2) := by omega
      have c3 : 0xC0 + c / 64 < 0xE0 := by omega
      have c4 : isCont (UInt8.ofNat (0x80 + c % 64)) := by unfold isCont; rw [t1]; omega
      have c5 : (0xC0 + c / 64 - 0xC0) * 64 + (0x80 + c % 64 - 0x80) = c := by omega
      simp only [t0, t1, c1, c2, c3, c4, c5, if_true, if_false]
    · split at h
      · cases h
      · split at h
        · rename_i h1 h2 h3 h4
          simp only [Option.some.injEq] at h; subst h
          have t0 : (UInt8.ofNat (0xE0 + c / 4096)).toNat = 0xE0 + c / 4096 := by rw [toNat_ofNat]; omega
          have t1 : (UInt8.ofNat (0x80 + c / 64 % 64)).toNat = 0x80 + c / 64 % 64 := by rw [toNat_ofNat]; omega
          have t2 : (UInt8.ofNat (0x80 + c % 64)).toNat = 0x80 + c % 64 := by rw [toNat_ofNat]; omega
          simp only [List.cons_append, List.nil_append]
          rw [utf8Dec.eq_def]
          have c1 : ¬ (0xE0 + c / 4096 < 0x80) := by omega
          have c2 : ¬ (0xE0 + c / 4096 < 0xC2) := by omega
          have c3 : ¬ (0xE0 + c / 4096 < 0xE0) := by omega
          have c3' : 0xE0 + c / 4096 < 0xF0 := by omega
          have c4 : isCont (UInt8.ofNat (0x80 + c / 64 % 64)) := by unfold isCont; rw [t1]; omega
          have c4' : isCont (UInt8.ofNat (0x80 + c % 64)) := by unfold isCont; rw [t2]; omega
          have c5 : ((0xE0 + c / 4096 - 0xE0) * 64 + (0x80 + c / 64 % 64 - 0x80)) * 64 + (0x80 + c % 64 - 0x80) = c := by omega
          have c6 : 0x800 ≤ c := by omega
          have c7 : ¬ (0xD800 ≤ c ∧ c < 0xE000) := h3
          simp only [t0, t1, t2, c1, c2, c3, c3', c4, c4', c5, c6, c7, if_true, if_false, and_self, not_false_eq_true]
        · split at h
          · rename_i h1 h2 h3 h4 h5
            simp only [Option.some.injEq] at h; subst h
            have t0 : (UInt8.ofNat (0xF0 + c / 262144)).toNat = 0xF0 + c / 262144 := by rw [toNat_ofNat]; omega
            have t1 : (UInt8.ofNat (0x80 + c / 4096 % 64)).toNat = 0x80 + c / 4096 % 64 := by rw [toNat_ofNat]; omega
            have t2 : (UInt8.ofNat (0x80 + c / 64 % 64)).toNat = 0x80 + c / 64 % 64 := by rw [toNat_ofNat]; omega
            have t3 : (UInt8.ofNat (0x80 + c % 64)).toNat = 0x80 + c % 64 := by rw [toNat_ofNat]; omega
            simp only [List.cons_append, List.nil_append]
            rw [utf8Dec.eq_def]
            have c1 : ¬ (0xF0 + c / 262144 < 0x80) := by omega
            have c2 : ¬ (0xF0 + c / 262144 < 0xC2) := by omega
            have c3 : ¬ (0xF0 + c / 262144 < 0xE0) := by omega
            have c3' : ¬ (0xF0 + c / 262144 < 0xF0) := by omega
            have c3'' : 0xF0 + c / 262144 < 0xF5 := by omega
            have c4 : isCont (UInt8.ofNat (0x80 + c / 4096 % 64)) := by unfold isCont; rw [t1]; omega
            have c4' : isCont (UInt8.ofNat (0x80 + c / 64 % 64)) := by unfold isCont; rw [t2]; omega
            have c4'' : isCont (UInt8.ofNat (0x80 + c % 64)) := by unfold isCont; rw [t3]; omega
            have c5 : (((0xF0 + c / 262144 - 0xF0) * 64 + (0x80 + c / 4096 % 64 - 0x80)) * 64 + (0x80 + c / 64 % 64 - 0x80)) * 64 + (0x80 + c % 64 - 0x80) = c := by omega
            have c6 : 0x10000 ≤ c := by omega
            simp only [t0, t1, t2, t3, c1, c2, c3, c3', c3'', c4, c4', c4'', c5, c6, h5, if_true, if_false, and_self]
          · cases h

theorem utf8_lawful : utf8.Lawful := by
  intro s
  induction s with
  | nil => intro b hb; simp [utf8, utf8Enc] at hb; subst hb; simp [utf8, utf8Dec]
  | cons c r ih =>
    intro b hb
    simp only [utf8] at hb ih ⊢
    unfold utf8Enc at hb
    split at hb
    · rename_i a b' ha hb'
      simp only [Option.some.injEq] at hb; subst hb
      rw [utf8Dec_encChar c a b' ha, ih b' hb']; rfl
    · cases hb

/-! ### the specification (Unicode Standard) and the code's UTF-16 -/

section SpecLemmas
open Spec

theorem spec_utf16_roundtrip (s : Str) (h : ∀ c ∈ s, Scalar c) : utf16Dec (utf16Enc s) = some s := by
  induction s with
  | nil => rfl
  | cons c r ih =>
    have hc : Scalar c := h c (by simp)
    have ih' := ih (fun v hv => h v (by simp [hv]))
    unfold Scalar at hc
    unfold utf16Enc utf16EncChar
    split
    · rename_i h1
      simp only [List.cons_append, List.nil_append]
      rw [utf16Dec.eq_def]
      have c1 : c < 0xD800 ∨ (0xE000 ≤ c ∧ c < 0x10000) := by omega
      simp only [c1, if_true, ih', Option.map_some]
    · rename_i h1
      simp only [List.cons_append, List.nil_append]
      rw [utf16Dec.eq_def]
      have c1 : ¬ (0xD800 + (c / 65536 - 1) * 64 + c / 1024 % 64 < 0xD800 ∨
          (0xE000 ≤ 0xD800 + (c / 65536 - 1) * 64 + c / 1024 % 64 ∧ 0xD800 + (c / 65536 - 1) * 64 + c / 1024 % 64 < 0x10000)) := by omega
      have c2 : 0xD800 ≤ 0xD800 + (c / 65536 - 1) * 64 + c / 1024 % 64 ∧ 0xD800 + (c / 65536 - 1) * 64 + c / 1024 % 64 < 0xDC00 := by omega
      have c3 : 0xDC00 ≤ 0xDC00 + c % 1024 ∧ 0xDC00 + c % 1024 < 0xE000 := by omega
      have c4 : ((0xD800 + (c / 65536 - 1) * 64 + c / 1024 % 64 - 0xD800) / 64 + 1) * 65536
          + (0xD800 + (c / 65536 - 1) * 64 + c / 1024 % 64 - 0xD800) % 64 * 1024 + (0xDC00 + c % 1024 - 0xDC00) = c := by omega
      simp only [c1, c2, c3, c4, if_true, if_false, ih', Option.map_some, and_self]

theorem encUnits_eq_spec (s : Str) (h : ∀ c ∈ s, Scalar c) : encUnits s = utf16Enc s := by
  induction s with
  | nil => rfl
  | cons c r ih =>
    have hc : Scalar c := h c (by simp)
    have ih' := ih (fun v hv => h v (by simp [hv]))
    unfold Scalar at hc
    unfold encUnits utf16Enc utf16EncChar
    split
    · simp [ih']
    · rename_i h1
      have e1 : 0xD800 + (c - 0x10000) / 0x400 = 0xD800 + (c / 65536 - 1) * 64 + c / 1024 % 64 := by omega
      have e2 : 0xDC00 + (c - 0x10000) % 0x400 = 0xDC00 + c % 1024 := by omega
      rw [e1, e2, ih']; rfl

theorem decUnits_of_spec (us : List Nat) (s : Str) (h : utf16Dec us = some s) : decUnits us = s := by
  fun_induction utf16Dec us generalizing s with
  | case1 => simp at h; subst h; rfl
  | case2 u r hu ih =>
    cases hr : utf16Dec r with
    | none => simp [hr] at h
    | some s' =>
      simp [hr] at h; subst h
      have := ih s' hr
      subst this
      cases r with
      | nil => simp [decUnits]
      | cons v r' =>
        rw [decUnits]
        have : ¬ (isHigh u ∧ isLow v) := by unfold isHigh; omega
        simp [this]
  | case3 u hnf hh v r' hl wwww hi6 lo10 ih =>
    cases hr : utf16Dec r' with
    | none => simp [hr] at h
    | some s' =>
      simp [hr] at h; subst h
      have := ih s' hr
      subst this
      rw [decUnits]
      have hp : isHigh u ∧ isLow v := ⟨hh, hl⟩
      simp only [hp, and_self, if_true]
      refine congrArg (· :: decUnits r') ?_
      simp only [wwww, hi6, lo10]
      omega
  | case4 => simp at h
  | case5 => simp at h
  | case6 => simp at h

theorem scalar_pyStr (s : Str) (h : ∀ c ∈ s, Scalar c) : PyStr s := by
  intro c hc
  have := h c hc
  unfold Scalar at this
  omega

theorem scalar_noPair (s : Str) (h : ∀ c ∈ s, Scalar c) : NoPair s := by
  induction s with
  | nil => trivial
  | cons a r ih =>
    cases r with
    | nil => trivial
    | cons b r' =>
      refine ⟨?_, ih (fun v hv => h v (by simp [hv]))⟩
      have := h a (by simp)
      unfold Scalar at this
      unfold isHigh
      omega

end SpecLemmas

/-! ### the layer name path -/

theorem encUnits_length_le (s : Str) : (encUnits s).length ≤ 2 * s.length := by
  induction s with
  | nil => simp [encUnits]
  | cons c r ih => unfold encUnits; split <;> simp <;> omega

theorem writeUnicodeString_ok (s : Str) (pad : Nat) (hs : PyStr s) (hp : pad ≠ 0) (hlen : (encUnits s).length < 4294967296) :
    writeUnicodeString s pad = .ok (unitsLayout (encUnits s) pad) := by
  unfold writeUnicodeString
  rw [if_pos hs]
  exact (writeUnits_eq _ _ _).mpr ⟨hlen, hp, rfl⟩

/-- What `_legacy_name` returns is always writable when `'?'` is. -/
theorem legacyName_encodable (e : Encoding) (r : NameRec) (v : Str) (hl : r.luni = some v)
    (hq : ∃ b, e.encode [0x3F] = some b ∧ b.length ≤ 255) :
    ∃ b, e.encode (legacyName e r) = some b ∧ b.length ≤ 255 := by
  unfold legacyName
  rw [hl]
  simp only
  cases hb : e.encode r.legacy with
  | none => simpa using hq
  | some b =>
    simp only
    split
    · exact hq
    · exact ⟨b, hb, by omega⟩

/-- Any record that carries the unicode block — however it was made, whatever its legacy field —
is written in every codec that can write `'?'`, and read back with the block's name. -/
theorem nameRec_roundtrip (e : Encoding)
    (hd : ∀ s b, e.encode s = some b → ∃ s', e.decode b = some s')
    (hq : ∃ b, e.encode [0x3F] = some b ∧ b.length ≤ 255)
    (r1 : NameRec) (value : Str) (hl1 : r1.luni = some value)
    (hs : PyStr value) (hn : NoPair value) (hlen : value.length < 2147483648) :
    ∃ lb ub, writeName e r1 = .ok (lb, some ub) ∧
      ∀ pre post, ∃ r2, readName e (pre ++ lb ++ post) pre.length (some ub) = .ok (r2, pre.length + lb.length)
        ∧ r2.luni = some value ∧ getName r2 = value := by
  obtain ⟨b, hb, hbl⟩ := legacyName_encodable e r1 value hl1 hq
  obtain ⟨leg, hleg⟩ := hd _ b hb
  have hwp : writePascalString e (legacyName e r1) 4 = .ok (pascalLayout b 4) :=
    (writePascalString_eq _ _ _ _).mpr ⟨b, hb, hbl, by decide, rfl⟩
  have hul : (encUnits value).length < 4294967296 := by
    have := encUnits_length_le value; omega
  have hwu := writeUnicodeString_ok value 4 hs (by decide) hul
  refine ⟨pascalLayout b 4, unitsLayout (encUnits value) 4, ?_, ?_⟩
  · unfold writeName
    rw [hwp]; simp only [hl1, hwu]
  · intro pre post
    have hrp := readPascalString_layout e b 4 pre post hbl (by decide)
    rw [hleg] at hrp
    obtain ⟨p, hru, _⟩ := readUnicodeString_value value 4 1 _ [] [] hn (by decide) hwu
    simp only [List.nil_append, List.append_nil, List.length_nil] at hru
    refine ⟨{ legacy := leg, luni := some value }, ?_, rfl, rfl⟩
    unfold readName
    rw [hrp]; simp only [hru]

theorem name_roundtrip (mac e : Encoding)
    (hd : ∀ s b, e.encode s = some b → ∃ s', e.decode b = some s')
    (hq : ∃ b, e.encode [0x3F] = some b ∧ b.length ≤ 255)
    (value : Str) (hs : PyStr value) (hn : NoPair value) (hlen : value.length < 256) (r0 : NameRec) :
    ∃ r1 lb ub, setName mac value r0 = .ok r1 ∧ writeName e r1 = .ok (lb, some ub) ∧
      ∀ pre post, ∃ r2, readName e (pre ++ lb ++ post) pre.length (some ub) = .ok (r2, pre.length + lb.length)
        ∧ r2.luni = some value ∧ getName r2 = value := by
  have hset : setName mac value r0 = .ok { legacy := if (mac.encode value).isSome then value else [0x3F], luni := some value } := by
    unfold setName; rw [if_pos hlen]
  obtain ⟨lb, ub, hw, hr⟩ := nameRec_roundtrip e hd hq
    { legacy := if (mac.encode value).isSome then value else [0x3F], luni := some value } value rfl hs hn (by omega)
  exact ⟨_, lb, ub, hset, hw, hr⟩

/-- Without the unicode block nothing is substituted: an unencodable legacy name is an error. -/
theorem writeName_no_block (e : Encoding) (r : NameRec) (h : r.luni = none) :
    writeName e r = match writePascalString e r.legacy 4 with
      | .error er => .error er
      | .ok lb => .ok (lb, none) := by
  unfold writeName legacyName
  rw [h]
  cases writePascalString e r.legacy 4 <;> rfl

theorem decUnits_pyStr (us : List Nat) (h : ∀ u ∈ us, u < 65536) : PyStr (decUnits us) := by
  fun_induction decUnits us with
  | case1 => intro c hc; cases hc
  | case2 u =>
    intro c hc
    have := h u (by simp)
    simp at hc; omega
  | case3 u v r hp ih =>
    have ih' := ih (fun w hw => h w (by simp [hw]))
    intro c hc
    simp only [List.mem_cons] at hc
    rcases hc with h1 | h1
    · unfold isHigh isLow at hp; omega
    · exact ih' c h1
  | case4 u v r hp ih =>
    have ih' := ih (fun w hw => h w (by simp [hw]))
    intro c hc
    simp only [List.mem_cons] at hc
    rcases hc with h1 | h1
    · have := h u (by simp); omega
    · exact ih' c h1

/-- Writing back what was decoded from units `us` writes `us`. -/
theorem writeUnicodeString_decUnits (us : List Nat) (pad : Nat) (h : ∀ u ∈ us, u < 65536) :
    writeUnicodeString (decUnits us) pad = writeUnits us pad := by
  unfold writeUnicodeString
  rw [if_pos (decUnits_pyStr us h), encUnits_decUnits us h]

/-! ### `sound` law of the unicode string reader -/

theorem unitsOfBytes_spec (raw : BL) (us : List Nat) (h : unitsOfBytes raw = some us) :
    (∀ u ∈ us, u < 65536) ∧ raw.length = 2 * us.length := by
  fun_induction unitsOfBytes raw generalizing us with
  | case1 => simp at h; subst h; simp
  | case2 => simp at h
  | case3 a b r us' hr ih =>
    simp at h; subst h
    obtain ⟨h1, h2⟩ := ih us' hr
    refine ⟨?_, by simp [h2]; omega⟩
    intro u hu
    simp only [List.mem_cons] at hu
    rcases hu with rfl | hu
    · have := a.toNat_lt; have := b.toNat_lt; omega
    · exact h1 u hu
  | case4 a b r hr ih => simp at h

theorem readU32_spec (d : BL) (pos n p : Nat) (h : readU32 d pos = .ok (n, p)) : n < 4294967296 ∧ p = pos + 4 := by
  unfold readU32 at h
  split at h
  · rename_i a b c e _
    simp only [Except.ok.injEq, Prod.mk.injEq] at h
    have := a.toNat_lt; have := b.toNat_lt; have := c.toNat_lt; have := e.toNat_lt
    omega
  · cases h

/-- `sound` law: whatever the reader returns can be written (and the cursor moved forward). -/
theorem readUnicodeString_sound (d : BL) (pos pad : Nat) (s : Str) (p : Nat)
    (h : readUnicodeString d pos pad = .ok (s, p)) :
    (∃ bs, writeUnicodeString s pad = .ok bs) ∧ pos + 4 ≤ p := by
  unfold readUnicodeString at h
  split at h
  · cases h
  · rename_i n p1 h32
    obtain ⟨hn, hp1⟩ := readU32_spec d pos n p1 h32
    simp only at h
    split at h
    · cases h
    · rename_i p3 hpad
      split at h
      · cases h
      · rename_i us hus
        simp only [Except.ok.injEq, Prod.mk.injEq] at h
        obtain ⟨rfl, rfl⟩ := h
        obtain ⟨hlt, hlen⟩ := unitsOfBytes_spec _ us hus
        have hsl := slice_length_le d p1 (2 * n)
        unfold readPadding at hpad
        split at hpad
        · cases hpad
        · rename_i hp0
          simp only [Except.ok.injEq] at hpad
          refine ⟨⟨unitsLayout us pad, ?_⟩, by omega⟩
          rw [writeUnicodeString_decUnits us pad hlt]
          exact (writeUnits_eq us pad _).mpr ⟨by omega, hp0, rfl⟩

end PsdVerif.Unicode
