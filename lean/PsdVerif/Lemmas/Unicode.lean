/-
Helper lemmas for C19 (string primitives): cursor arithmetic, integers, padding,
UTF-16 units, round trips in the `pre ++ bs ++ post` form. Core Lean only.
-/
import PsdVerif.Model.Unicode

namespace PsdVerif.Unicode
open PsdVerif

/-! ### slices -/

theorem slice_append (pre a rest : BL) : slice (pre ++ (a ++ rest)) pre.length a.length = a := by
  simp [slice]

theorem slice_append' (pre a rest : BL) (n : Nat) (h : n = a.length) :
    slice (pre ++ (a ++ rest)) pre.length n = a := by
  subst h; exact slice_append pre a rest

theorem slice_length_le (d : BL) (pos n : Nat) : (slice d pos n).length ≤ n := by
  simp [slice]; omega

/-! ### integers -/

theorem toNat_ofNat (x : Nat) : (UInt8.ofNat x).toNat = x % 256 := by
  simp [UInt8.toNat_ofNat']

theorem be32_length (n : Nat) : (be32 n).length = 4 := rfl
theorem be16_length (n : Nat) : (be16 n).length = 2 := rfl

theorem readU8_append (pre post : BL) (n : Nat) (h : n < 256) :
    readU8 (pre ++ ([UInt8.ofNat n] ++ post)) pre.length = .ok (n, pre.length + 1) := by
  have : slice (pre ++ ([UInt8.ofNat n] ++ post)) pre.length 1 = [UInt8.ofNat n] :=
    slice_append' pre [UInt8.ofNat n] post 1 rfl
  simp only [readU8, this, toNat_ofNat]
  congr 2; omega

theorem readU32_append (pre post : BL) (n : Nat) (h : n < 4294967296) :
    readU32 (pre ++ (be32 n ++ post)) pre.length = .ok (n, pre.length + 4) := by
  have : slice (pre ++ (be32 n ++ post)) pre.length 4 = be32 n :=
    slice_append' pre (be32 n) post 4 rfl
  unfold readU32
  rw [this]
  simp only [be32, toNat_ofNat]
  congr 2; omega

/-! ### padding -/

theorem readPadding_append (pre post : BL) (size pad : Nat) (hp : pad ≠ 0) :
    readPadding (pre ++ (List.replicate (padLen size pad) 0 ++ post)) pre.length size pad
      = .ok (pre.length + padLen size pad) := by
  have : slice (pre ++ (List.replicate (padLen size pad) (0 : UInt8) ++ post)) pre.length (padLen size pad)
      = List.replicate (padLen size pad) 0 :=
    slice_append' pre _ post _ (by simp)
  simp [readPadding, hp, this]

theorem padLen_aligned (size pad : Nat) (hp : pad ≠ 0) : (size + padLen size pad) % pad = 0 := by
  unfold padLen
  split
  · simpa
  · rename_i h
    have hlt : size % pad < pad := Nat.mod_lt _ (Nat.pos_of_ne_zero hp)
    have h1 : size + (pad - size % pad) = pad * (size / pad) + pad := by
      have := Nat.div_add_mod size pad
      omega
    rw [h1]; simp

theorem padLen_lt (size pad : Nat) (hp : pad ≠ 0) : padLen size pad < pad := by
  unfold padLen
  split
  · exact Nat.pos_of_ne_zero hp
  · have : 0 < pad := Nat.pos_of_ne_zero hp
    omega

/-! ### UTF-16 units -/

theorem unitsOfBytes_bytesOfUnits (us : List Nat) (h : ∀ u ∈ us, u < 65536) :
    unitsOfBytes (bytesOfUnits us ) = some us := by
  induction us with
  | nil => rfl
  | cons u r ih =>
    have hu : u < 65536 := h u (by simp)
    have ih' := ih (fun v hv => h v (by simp [hv]))
    simp only [bytesOfUnits, List.flatMap_cons, be16, List.cons_append, List.nil_append] at ih' ⊢
    simp only [unitsOfBytes, ih', toNat_ofNat]
    congr 2; omega

theorem bytesOfUnits_length (us : List Nat) : (bytesOfUnits us).length = 2 * us.length := by
  induction us with
  | nil => rfl
  | cons u r ih => simp only [bytesOfUnits, List.flatMap_cons, List.length_append, be16_length, List.length_cons] at ih ⊢; omega

theorem encUnits_lt (s : Str) (h : PyStr s) : ∀ u ∈ encUnits s, u < 65536 := by
  induction s with
  | nil => simp [encUnits]
  | cons c r ih =>
    have hc : c < 0x110000 := h c (by simp)
    have ih' := ih (fun v hv => h v (by simp [hv]))
    unfold encUnits
    split
    · intro u hu
      simp only [List.mem_cons] at hu
      rcases hu with h1 | h1
      · omega
      · exact ih' u h1
    · intro u hu
      simp only [List.mem_cons] at hu
      rcases hu with h1 | h1 | h1
      · omega
      · omega
      · exact ih' u h1

theorem NoPair_tail {a : Nat} {r : Str} (h : NoPair (a :: r)) : NoPair r := by
  cases r with
  | nil => trivial
  | cons b r => exact h.2

/-- The code's decoder inverts its encoder on every `str` without an adjacent
(high, low) surrogate pair. -/
theorem decUnits_encUnits (s : Str) (h : PyStr s) (hn : NoPair s) : decUnits (encUnits s) = s := by
  induction s with
  | nil => rfl
  | cons c r ih =>
    have hc : c < 0x110000 := h c (by simp)
    have ih' := ih (fun v hv => h v (by simp [hv])) (NoPair_tail hn)
    unfold encUnits
    split
    · rename_i hlt
      cases r with
      | nil => simp [encUnits, decUnits]
      | cons c2 r2 =>
        have hnp : ¬ (isHigh c ∧ isLow c2) := hn.1
        unfold encUnits at ih' ⊢
        split
        · rename_i h2
          simp only [h2, if_true] at ih'
          unfold decUnits
          rw [if_neg hnp, ih']
        · rename_i h2
          simp only [h2, if_false] at ih'
          unfold decUnits
          have : ¬ (isHigh c ∧ isLow (0xD800 + (c2 - 0x10000) / 0x400)) := by
            have hc2 : c2 < 0x110000 := h c2 (by simp)
            unfold isLow; omega
          rw [if_neg this, ih']
    · rename_i hge
      unfold decUnits
      have h1 : isHigh (0xD800 + (c - 0x10000) / 0x400) ∧ isLow (0xDC00 + (c - 0x10000) % 0x400) := by
        unfold isHigh isLow; omega
      simp only [h1, and_self, if_true, ih']
      exact congrArg (· :: r) (by omega)

/-- Re-encoding what was decoded gives the same units: files re-save identically,
unpaired surrogates included. -/
theorem encUnits_decUnits (us : List Nat) (h : ∀ u ∈ us, u < 65536) : encUnits (decUnits us) = us := by
  fun_induction decUnits us with
  | case1 => rfl
  | case2 u =>
    have : u < 65536 := h u (by simp)
    simp [encUnits]; omega
  | case3 u v r hp ih =>
    have ih' := ih (fun w hw => h w (by simp [hw]))
    unfold encUnits
    unfold isHigh isLow at hp
    have : ¬ (65536 + (u - 55296) * 1024 + (v - 56320) < 65536) := by omega
    rw [if_neg this, ih']
    have e1 : 0xD800 + (0x10000 + (u - 0xD800) * 0x400 + (v - 0xDC00) - 0x10000) / 0x400 = u := by omega
    have e2 : 0xDC00 + (0x10000 + (u - 0xD800) * 0x400 + (v - 0xDC00) - 0x10000) % 0x400 = v := by omega
    rw [e1, e2]
  | case4 u v r hp ih =>
    have hu : u < 65536 := h u (by simp)
    have ih' := ih (fun w hw => h w (by simp [hw]))
    unfold encUnits
    rw [if_pos hu, ih']

/-! ### `write_unicode_string` / `read_unicode_string` -/

/-- Layout of a written unicode string. -/
def unitsLayout (us : List Nat) (pad : Nat) : BL :=
  be32 us.length ++ bytesOfUnits us ++ List.replicate (padLen (4 + 2 * us.length) pad) 0

theorem writeUnits_eq (us : List Nat) (pad : Nat) (bs : BL) :
    writeUnits us pad = .ok bs ↔ us.length < 4294967296 ∧ pad ≠ 0 ∧ bs = unitsLayout us pad := by
  unfold writeUnits writeU32 writePadding unitsLayout
  by_cases h1 : us.length < 4294967296 <;> by_cases h2 : pad = 0 <;>
    simp [h1, h2, be32_length, bytesOfUnits_length, eq_comm]

theorem writeUnits_err (us : List Nat) (pad : Nat) (e : Err) :
    writeUnits us pad = .error e ↔
      (¬ us.length < 4294967296 ∧ e = .structError) ∨ (us.length < 4294967296 ∧ pad = 0 ∧ e = .other) := by
  unfold writeUnits writeU32 writePadding
  by_cases h1 : us.length < 4294967296 <;> by_cases h2 : pad = 0 <;> simp [h1, h2, eq_comm]

theorem unitsLayout_length (us : List Nat) (pad : Nat) :
    (unitsLayout us pad).length = 4 + 2 * us.length + padLen (4 + 2 * us.length) pad := by
  simp [unitsLayout, be32_length, bytesOfUnits_length]; omega

theorem slice_end_le (d : BL) (pos n : Nat) (h : pos ≤ d.length) : pos + (slice d pos n).length ≤ d.length := by
  simp only [slice, List.length_take, List.length_drop]; omega

/-- The reader on a written unit string, up to the padding step (reader padding `pr` may
differ from the writer's `pw`). -/
theorem readUnicodeString_layout_gen (us : List Nat) (pw pr : Nat) (pre post : BL)
    (hlen : us.length < 4294967296) (hu : ∀ u ∈ us, u < 65536) :
    readUnicodeString (pre ++ unitsLayout us pw ++ post) pre.length pr
      = match readPadding (pre ++ unitsLayout us pw ++ post) (pre.length + 4 + 2 * us.length) (4 + 2 * us.length) pr with
        | .error e => .error e
        | .ok p3 => .ok (decUnits us, p3) := by
  unfold readUnicodeString
  generalize hd : pre ++ unitsLayout us pw ++ post = d
  have e1 : d = pre ++ (be32 us.length ++ (bytesOfUnits us ++ List.replicate (padLen (4 + 2 * us.length) pw) 0 ++ post)) := by
    simp [← hd, unitsLayout, List.append_assoc]
  have r1 : readU32 d pre.length = .ok (us.length, pre.length + 4) := by
    rw [e1]; exact readU32_append pre _ us.length hlen
  have e2 : d = (pre ++ be32 us.length) ++ (bytesOfUnits us ++ (List.replicate (padLen (4 + 2 * us.length) pw) 0 ++ post)) := by
    simp [e1, List.append_assoc]
  have r2 : slice d (pre.length + 4) (2 * us.length) = bytesOfUnits us := by
    have hl : pre.length + 4 = (pre ++ be32 us.length).length := by simp [be32_length]
    rw [e2, hl]
    exact slice_append' _ (bytesOfUnits us) _ _ (bytesOfUnits_length us).symm
  rw [r1]
  simp only [r2, unitsOfBytes_bytesOfUnits us hu, bytesOfUnits_length]
  rfl

/-- Reading a written unit string from the middle of any stream, with the writer's padding. -/
theorem readUnicodeString_layout (us : List Nat) (pad : Nat) (pre post : BL)
    (hlen : us.length < 4294967296) (hp : pad ≠ 0) (hu : ∀ u ∈ us, u < 65536) :
    readUnicodeString (pre ++ unitsLayout us pad ++ post) pre.length pad
      = .ok (decUnits us, pre.length + (unitsLayout us pad).length) := by
  rw [readUnicodeString_layout_gen us pad pad pre post hlen hu]
  have e3 : pre ++ unitsLayout us pad ++ post
      = (pre ++ be32 us.length ++ bytesOfUnits us) ++ (List.replicate (padLen (4 + 2 * us.length) pad) 0 ++ post) := by
    simp [unitsLayout, List.append_assoc]
  have hl2 : pre.length + 4 + 2 * us.length = (pre ++ be32 us.length ++ bytesOfUnits us).length := by
    simp [be32_length, bytesOfUnits_length]; omega
  rw [e3, hl2, readPadding_append _ post _ pad hp]
  simp only [List.length_append, be32_length, bytesOfUnits_length, unitsLayout_length]
  congr 2; omega

/-- `rt` law of the unicode string codec (DESIGN section 3), for every `str` without an
adjacent surrogate pair, every padding, anywhere in a stream. -/
theorem readUnicodeString_write (s : Str) (pad : Nat) (bs pre post : BL) (hn : NoPair s)
    (hw : writeUnicodeString s pad = .ok bs) :
    readUnicodeString (pre ++ bs ++ post) pre.length pad = .ok (s, pre.length + bs.length) := by
  unfold writeUnicodeString at hw
  split at hw
  · rename_i hs
    obtain ⟨hlen, hp, rfl⟩ := (writeUnits_eq _ _ _).mp hw
    rw [readUnicodeString_layout _ pad pre post hlen hp (encUnits_lt s hs), decUnits_encUnits s hs hn]
  · cases hw

/-- The value read does not depend on the reader's padding (blocks written with padding 4
are read back with padding 1 from their own `BytesIO`); the cursor stays inside the stream. -/
theorem readUnicodeString_value (s : Str) (pw pr : Nat) (bs pre post : BL) (hn : NoPair s) (hpr : pr ≠ 0)
    (hw : writeUnicodeString s pw = .ok bs) :
    ∃ p, readUnicodeString (pre ++ bs ++ post) pre.length pr = .ok (s, p) ∧ p ≤ (pre ++ bs ++ post).length := by
  unfold writeUnicodeString at hw
  split at hw
  · rename_i hs
    obtain ⟨hlen, hp, rfl⟩ := (writeUnits_eq _ _ _).mp hw
    rw [readUnicodeString_layout_gen _ pw pr pre post hlen (encUnits_lt s hs), decUnits_encUnits s hs hn]
    simp only [readPadding, hpr, if_false]
    refine ⟨_, rfl, ?_⟩
    apply slice_end_le
    simp only [List.length_append, unitsLayout_length]
    omega
  · cases hw

end PsdVerif.Unicode
