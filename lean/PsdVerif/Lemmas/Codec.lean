/-
Laws of the primitives of `Model/Codec.lean`, proved once.

`At d p bs` : the byte string `bs` occurs in the stream `d` at offset `p`.
Every round-trip law has the shape
  `At d p (encoding of v) → reader d p = .ok (v, p + length)`
which is the `pre ++ bs ++ post` statement of DESIGN §3 without the
re-association noise (`At.intro` converts). Readers whose behaviour depends on
what follows need in addition `p + length = d.length` ("at end").
-/
import PsdVerif.Model.Codec

namespace PsdVerif.Codec
open PsdVerif

/-! ### occurrences -/

def At (d : B) (p : Nat) (bs : B) : Prop := ∃ pre post, d = pre ++ bs ++ post ∧ pre.length = p

theorem At.intro (pre bs post : B) : At (pre ++ bs ++ post) pre.length bs := ⟨pre, post, rfl, rfl⟩

theorem At.intro_rest (pre bs post : B) : At (pre ++ bs ++ post) pre.length (bs ++ post) :=
  ⟨pre, [], by simp, rfl⟩

theorem At.self (d : B) : At d 0 d := ⟨[], [], by simp, rfl⟩

theorem At.left {d : B} {p : Nat} {a b : B} (h : At d p (a ++ b)) : At d p a := by
  obtain ⟨pre, post, rfl, rfl⟩ := h
  exact ⟨pre, b ++ post, by simp, rfl⟩

theorem At.right {d : B} {p : Nat} {a b : B} (h : At d p (a ++ b)) : At d (p + a.length) b := by
  obtain ⟨pre, post, rfl, rfl⟩ := h
  exact ⟨pre ++ a, post, by simp, by simp⟩

theorem At.bound {d : B} {p : Nat} {bs : B} (h : At d p bs) : p + bs.length ≤ d.length := by
  obtain ⟨pre, post, rfl, rfl⟩ := h
  simp only [List.length_append]; omega

theorem At.drop {d : B} {p : Nat} {bs : B} (h : At d p bs) : ∃ post, d.drop p = bs ++ post := by
  obtain ⟨pre, post, rfl, rfl⟩ := h
  exact ⟨post, by simp⟩

theorem At.drop_take {d : B} {p : Nat} {bs : B} (h : At d p bs) : (d.drop p).take bs.length = bs := by
  obtain ⟨post, hp⟩ := h.drop
  rw [hp, List.take_left]

theorem At.drop_of_end {d : B} {p : Nat} {bs : B} (h : At d p bs) (he : p + bs.length = d.length) :
    d.drop p = bs := by
  obtain ⟨pre, post, rfl, rfl⟩ := h
  have : post = [] := by
    simp only [List.length_append] at he
    exact List.eq_nil_of_length_eq_zero (by omega)
  subst this; simp

/-- shifting an occurrence: used as `(h.shift rfl)` after rewriting positions -/
theorem At.cast {d : B} {p q : Nat} {bs : B} (h : At d p bs) (e : p = q) : At d q bs := e ▸ h

/-! ### integers -/

theorem length_zeros (n : Nat) : (zeros n).length = n := by simp [zeros]

theorem length_beBytes (w n : Nat) : (beBytes w n).length = w := by
  induction w generalizing n with
  | zero => rfl
  | succ w ih => simp [beBytes, ih]

theorem beVal_append_singleton (xs : B) (b : UInt8) : beVal (xs ++ [b]) = beVal xs * 256 + b.toNat := by
  simp [beVal, List.foldl_append]

theorem beVal_beBytes (w n : Nat) (h : n < 256 ^ w) : beVal (beBytes w n) = n := by
  induction w generalizing n with
  | zero => simp [beBytes, beVal] at *; omega
  | succ w ih =>
    have h' : n / 256 < 256 ^ w := by
      rw [Nat.pow_succ] at h
      exact Nat.div_lt_of_lt_mul (by rw [Nat.mul_comm]; exact h)
    rw [beBytes, beVal_append_singleton, ih _ h']
    simp only [UInt8.toNat_ofNat']
    omega

theorem natToI16_i16ToNat (z : Int) (h : FitsI16 z) : natToI16 (i16ToNat z) = z := by
  unfold FitsI16 at h; unfold natToI16 i16ToNat; omega

theorem natToI32_i32ToNat (z : Int) (h : FitsI32 z) : natToI32 (i32ToNat z) = z := by
  unfold FitsI32 at h; unfold natToI32 i32ToNat; omega

theorem i16ToNat_lt (z : Int) : i16ToNat z < 256 ^ 2 := by unfold i16ToNat; omega
theorem i32ToNat_lt (z : Int) : i32ToNat z < 256 ^ 4 := by unfold i32ToNat; omega

theorem length_i16T (z : Int) : (i16T z).length = 2 := length_beBytes _ _
theorem length_i32T (z : Int) : (i32T z).length = 4 := length_beBytes _ _

theorem pack4s_of_length {b : B} (h : b.length = 4) : pack4s b = b := by
  unfold pack4s
  rw [List.take_append_of_le_length (by omega), ← h, List.take_length]

theorem length_pack4s (b : B) : (pack4s b).length = 4 := by
  simp [pack4s, length_zeros]

/-! ### primitive readers -/

theorem readN_at {d : B} {p : Nat} {bs : B} (h : At d p bs) : readN bs.length d p = .ok (bs, p + bs.length) := by
  unfold readN
  rw [if_pos h.bound, h.drop_take]

theorem readN_at' {d : B} {p n : Nat} {bs : B} (h : At d p bs) (hn : bs.length = n) :
    readN n d p = .ok (bs, p + n) := by subst hn; exact readN_at h

theorem readUpTo_at {d : B} {p : Nat} {bs : B} (h : At d p bs) : readUpTo bs.length d p = .ok (bs, p + bs.length) := by
  unfold readUpTo
  simp only [h.drop_take]

theorem readUpTo_at' {d : B} {p n : Nat} {bs : B} (h : At d p bs) (hn : bs.length = n) :
    readUpTo n d p = .ok (bs, p + n) := by subst hn; exact readUpTo_at h

theorem readAll_at_end {d : B} {p : Nat} {bs : B} (h : At d p bs) (he : p + bs.length = d.length) :
    readAll d p = .ok (bs, p + bs.length) := by
  unfold readAll
  simp only [h.drop_of_end he]

theorem readU_at {d : B} {p w n : Nat} (h : At d p (beBytes w n)) (hn : n < 256 ^ w) :
    readU w d p = .ok (n, p + w) := by
  unfold readU
  rw [readN_at' h (length_beBytes w n)]
  simp only [beVal_beBytes w n hn]

theorem readI16_at {d : B} {p : Nat} {z : Int} (h : At d p (i16T z)) (hz : FitsI16 z) :
    readI16 d p = .ok (z, p + 2) := by
  unfold readI16
  rw [readU_at h (i16ToNat_lt z)]
  simp only [natToI16_i16ToNat z hz]

theorem readI32_at {d : B} {p : Nat} {z : Int} (h : At d p (i32T z)) (hz : FitsI32 z) :
    readI32 d p = .ok (z, p + 4) := by
  unfold readI32
  rw [readU_at h (i32ToNat_lt z)]
  simp only [natToI32_i32ToNat z hz]

theorem isReadable_of_at {d : B} {p n : Nat} {bs : B} (h : At d p bs) (hn : n ≤ bs.length) :
    isReadable n d p = true := by
  have := h.bound
  simp only [isReadable, decide_eq_true_eq]; omega

theorem isReadable_false {d : B} {p n : Nat} (h : d.length < p + n) : isReadable n d p = false := by
  simp only [isReadable, decide_eq_false_iff_not]; omega

theorem readPadding_at {d : B} {p size divisor : Nat} (h : At d p (zeros (padAmount size divisor))) :
    readPadding size divisor d p = .ok ((), p + padAmount size divisor) := by
  unfold readPadding
  rw [readUpTo_at' h (length_zeros _)]

/-! ### padding arithmetic -/

theorem padAmount_add_mul (n k divisor : Nat) (hk : k % divisor = 0) :
    padAmount (n + k) divisor = padAmount n divisor := by
  unfold padAmount
  have : (n + k) % divisor = n % divisor := by
    rw [Nat.add_mod, hk, Nat.add_zero, Nat.mod_mod]
  rw [this]

theorem padAmount_one (n : Nat) : padAmount n 1 = 0 := by simp [padAmount, Nat.mod_one]

theorem padAmount_lt (n divisor : Nat) (h : 0 < divisor) : padAmount n divisor < divisor := by
  unfold padAmount; split <;> omega

theorem add_padAmount_mod (n divisor : Nat) (h : 0 < divisor) : (n + padAmount n divisor) % divisor = 0 := by
  unfold padAmount
  split
  · simpa using ‹n % divisor = 0›
  · have hlt := Nat.mod_lt n h
    have e : n + (divisor - n % divisor) = divisor * (n / divisor) + divisor := by
      have := Nat.div_add_mod n divisor; omega
    rw [e]; simp

/-! ### `Py_ssize_t` overflow: never for a size that is really there -/

theorem not_overflows_of_le {n : Nat} {d : B} (h : n ≤ d.length) : ¬ overflows n d := by
  unfold overflows; omega

/-! ### length blocks -/

theorem length_lenBlockT (skip w pad : Nat) (body : B) :
    (lenBlockT skip w pad body).length = skip + w + body.length + padAmount (body.length + (skip + w)) pad := by
  simp only [lenBlockT, List.length_append, length_zeros, length_beBytes]

/-- `read_length_block` returns the body of a written length block wherever it sits,
provided the prefix can hold the length and the alignment divides the prefix size
(`read_padding` aligns the body, `write_padding` the prefix + body). -/
theorem readLenBlock_at {d : B} {p skip w pad : Nat} {body : B}
    (h : At d p (lenBlockT skip w pad body)) (hw : body.length < 256 ^ w) (hp : (skip + w) % pad = 0) :
    readLenBlock skip w pad d p = .ok (body, p + (lenBlockT skip w pad body).length) := by
  unfold lenBlockT at h
  have h1 := h.left.left.left
  have h2 := h.left.left.right
  have h3 : At d (p + skip + w) body :=
    h.left.right.cast (by simp only [List.length_append, length_zeros, length_beBytes]; omega)
  have h4 : At d (p + skip + w + body.length) (zeros (padAmount (body.length + (skip + w)) pad)) :=
    h.right.cast (by simp only [List.length_append, length_zeros, length_beBytes]; omega)
  simp only [length_zeros] at h2
  unfold readLenBlock
  rw [readN_at' h1 (length_zeros _)]
  simp only
  rw [readU_at h2 hw]
  simp only
  rw [if_neg (not_overflows_of_le (by have := h3.bound; omega))]
  rw [readUpTo_at h3]
  simp only [ne_eq, not_true_eq_false, if_false]
  rw [padAmount_add_mul _ _ _ hp] at h4
  rw [readPadding_at h4, length_lenBlockT, padAmount_add_mul _ _ _ hp]
  simp only [Nat.add_assoc]

/-! ### pascal strings -/

theorem length_pascalT (pad : Nat) (s : B) :
    (pascalT pad s).length = 1 + s.length + padAmount (1 + s.length) pad := by
  simp only [pascalT, List.length_append, length_zeros, length_beBytes]

theorem readPascal_at {d : B} {p pad : Nat} {s : B}
    (h : At d p (pascalT pad s)) (hs : s.length < 256) :
    readPascal pad d p = .ok (s, p + (pascalT pad s).length) := by
  unfold pascalT at h
  have h1 := h.left.left
  have h2 := h.left.right
  have h3 : At d (p + 1 + s.length) (zeros (padAmount (1 + s.length) pad)) :=
    h.right.cast (by simp only [List.length_append, length_beBytes]; omega)
  simp only [length_beBytes] at h2
  unfold readPascal
  rw [readU_at h1 (by simpa using hs)]
  simp only
  rw [readUpTo_at h2]
  simp only [ne_eq, not_true_eq_false, if_false]
  have e : p + 1 + s.length - p = 1 + s.length := by omega
  rw [e, readPadding_at h3, length_pascalT]
  simp only [Nat.add_assoc]

/-! ### the `written` accumulators are honest -/

theorem wLenBlock_eq (skip w pad : Nat) (body : B) :
    wLenBlock skip w pad (body, body.length) =
      (lenBlockT skip w pad body, (lenBlockT skip w pad body).length) := by
  simp only [wLenBlock, wPad, wBytes, lenBlockT, List.length_append, length_zeros, length_beBytes]
  congr 1
  omega

theorem wPascal_eq (pad : Nat) (s : B) : wPascal pad s = (pascalT pad s, (pascalT pad s).length) := by
  simp only [wPascal, wPad, wBytes, W.seq, pascalT, List.length_append, length_zeros, length_beBytes]

theorem wSeq_eq (a b : B) : (a, a.length) +> (b, b.length) = (a ++ b, (a ++ b).length) := by
  simp [W.seq]

theorem wBytes_eq (a : B) : wBytes a = (a, a.length) := rfl

theorem wPad_eq (size divisor : Nat) :
    wPad size divisor = (zeros (padAmount size divisor), (zeros (padAmount size divisor)).length) := rfl

/-! ### lists -/

theorem length_listT_le {α : Type} (f : α → B) (vs : List α) (k : Nat) (hk : ∀ v ∈ vs, k ≤ (f v).length) :
    k * vs.length ≤ (listT f vs).length := by
  induction vs with
  | nil => simp [listT]
  | cons v vs ih =>
    have h1 := hk v (by simp)
    have h2 := ih (fun x hx => hk x (by simp [hx]))
    simp only [listT, List.length_cons, List.length_append, Nat.mul_succ]
    omega

theorem wList_eq {α : Type} (f : α → W) (g : α → B) (vs : List α) (h : ∀ v ∈ vs, f v = (g v, (g v).length)) :
    wList f vs = (listT g vs, (listT g vs).length) := by
  induction vs with
  | nil => rfl
  | cons v vs ih =>
    rw [wList, h v (by simp), ih (fun x hx => h x (by simp [hx])), wSeq_eq]; rfl

/-- items read one after the other, each lawful wherever it sits -/
theorem readFor_at {α β : Type} (item : β → R α) (enc : α → B) (xs : List β) (vs : List α)
    (hl : xs.length = vs.length)
    (hitem : ∀ x v, (x, v) ∈ xs.zip vs → ∀ d p, At d p (enc v) → item x d p = .ok (v, p + (enc v).length))
    {d : B} {p : Nat} (h : At d p (listT enc vs)) :
    readFor item xs d p = .ok (vs, p + (listT enc vs).length) := by
  induction xs generalizing vs p with
  | nil =>
    cases vs with
    | nil => simp [readFor, listT]
    | cons _ _ => simp at hl
  | cons x xs ih =>
    cases vs with
    | nil => simp at hl
    | cons v vs =>
      simp only [listT] at h ⊢
      simp only [readFor]
      rw [hitem x v (by simp) d p h.left]
      simp only
      rw [ih vs (by simpa using hl) (fun x' v' hm => hitem x' v' (by simp [hm])) h.right]
      simp only [List.length_append, Nat.add_assoc]

theorem readCount_at {α : Type} (item : R α) (enc : α → B) (vs : List α)
    (hitem : ∀ v ∈ vs, ∀ d p, At d p (enc v) → item d p = .ok (v, p + (enc v).length))
    {d : B} {p : Nat} (h : At d p (listT enc vs)) :
    readCount item vs.length d p = .ok (vs, p + (listT enc vs).length) := by
  induction vs generalizing p with
  | nil => simp [readCount, listT]
  | cons v vs ih =>
    simp only [listT] at h ⊢
    simp only [List.length_cons, readCount]
    rw [hitem v (by simp) d p h.left]
    simp only
    rw [ih (fun x hx => hitem x (by simp [hx])) h.right]
    simp only [List.length_append, Nat.add_assoc]

/-- The `while cond: item` loop reads back a written list when `cond` holds at the
start of every item and fails after the last one. `cond` may look at the whole
stream (that is what `is_readable` does), so the hypotheses speak about `d`. -/
theorem readWhileFuel_at {α : Type} (cond : B → Nat → Bool) (item : R (Option α)) (enc : α → B)
    (vs : List α) {d : B}
    (hitem : ∀ v ∈ vs, ∀ p, At d p (enc v) → cond d p = true ∧ item d p = .ok (some v, p + (enc v).length))
    {p : Nat} (h : At d p (listT enc vs)) (hstop : cond d (p + (listT enc vs).length) = false)
    (fuel : Nat) (hf : vs.length < fuel) :
    readWhileFuel cond item fuel d p = .ok (vs, p + (listT enc vs).length) := by
  induction vs generalizing p fuel with
  | nil =>
    cases fuel with
    | zero => omega
    | succ fuel =>
      simp only [listT, List.length_nil, Nat.add_zero] at hstop ⊢
      simp [readWhileFuel, hstop]
  | cons v vs ih =>
    cases fuel with
    | zero => omega
    | succ fuel =>
      simp only [listT] at h hstop ⊢
      obtain ⟨hc, hi⟩ := hitem v (by simp) p h.left
      simp only [readWhileFuel, hc, if_true, hi]
      rw [ih (fun x hx => hitem x (by simp [hx])) h.right
        (by simpa [List.length_append, Nat.add_assoc] using hstop) fuel (by simpa using hf)]
      simp only [List.length_append, Nat.add_assoc]

theorem readWhile_at {α : Type} (cond : B → Nat → Bool) (item : R (Option α)) (enc : α → B)
    (vs : List α) {d : B}
    (hitem : ∀ v ∈ vs, ∀ p, At d p (enc v) → cond d p = true ∧ item d p = .ok (some v, p + (enc v).length))
    (hpos : ∀ v ∈ vs, 1 ≤ (enc v).length)
    {p : Nat} (h : At d p (listT enc vs)) (hstop : cond d (p + (listT enc vs).length) = false) :
    readWhile cond item d p = .ok (vs, p + (listT enc vs).length) := by
  unfold readWhile
  apply readWhileFuel_at cond item enc vs hitem h hstop
  have h1 := length_listT_le enc vs 1 hpos
  have h2 := h.bound
  omega

/-! ### step lemmas: read the head of `x ++ rest`, keep the occurrence of `rest`

Used to walk through a right-associated encoding without position arithmetic: each step
returns the occurrence of the remainder at exactly the position the reader continues from. -/

theorem readN_step {d : B} {p n : Nat} {bs rest : B} (h : At d p (bs ++ rest)) (hl : bs.length = n) :
    readN n d p = .ok (bs, p + n) ∧ At d (p + n) rest :=
  ⟨readN_at' h.left hl, hl ▸ h.right⟩

theorem readU_step {d : B} {p w n : Nat} {rest : B} (h : At d p (beBytes w n ++ rest)) (hn : n < 256 ^ w) :
    readU w d p = .ok (n, p + w) ∧ At d (p + w) rest :=
  ⟨readU_at h.left hn, (length_beBytes w n) ▸ h.right⟩

theorem readI16_step {d : B} {p : Nat} {z : Int} {rest : B} (h : At d p (i16T z ++ rest)) (hz : FitsI16 z) :
    readI16 d p = .ok (z, p + 2) ∧ At d (p + 2) rest :=
  ⟨readI16_at h.left hz, (length_i16T z) ▸ h.right⟩

theorem readI32_step {d : B} {p : Nat} {z : Int} {rest : B} (h : At d p (i32T z ++ rest)) (hz : FitsI32 z) :
    readI32 d p = .ok (z, p + 4) ∧ At d (p + 4) rest :=
  ⟨readI32_at h.left hz, (length_i32T z) ▸ h.right⟩

theorem readLenBlock_step {d : B} {p skip w pad : Nat} {body rest : B}
    (h : At d p (lenBlockT skip w pad body ++ rest)) (hw : body.length < 256 ^ w) (hp : (skip + w) % pad = 0) :
    readLenBlock skip w pad d p = .ok (body, p + (lenBlockT skip w pad body).length) ∧
      At d (p + (lenBlockT skip w pad body).length) rest :=
  ⟨readLenBlock_at h.left hw hp, h.right⟩

theorem readPascal_step {d : B} {p pad : Nat} {s rest : B} (h : At d p (pascalT pad s ++ rest)) (hs : s.length < 256) :
    readPascal pad d p = .ok (s, p + (pascalT pad s).length) ∧ At d (p + (pascalT pad s).length) rest :=
  ⟨readPascal_at h.left hs, h.right⟩

theorem At.nil_right {d : B} {p : Nat} {bs : B} (h : At d p bs) : At d p (bs ++ []) := by simpa using h

/-! ### ordered dictionaries -/

theorem odict_foldl_of_nodup {κ α : Type} [DecidableEq κ] (key : α → κ) (acc items : List α)
    (hn : ((acc ++ items).map key).Nodup) :
    items.foldl (odictInsert key) acc = acc ++ items := by
  induction items generalizing acc with
  | nil => simp
  | cons x xs ih =>
    simp only [List.foldl_cons]
    have hx : acc.any (fun y => key y = key x) = false := by
      rw [List.any_eq_false]
      intro y hy
      simp only [decide_eq_true_eq]
      intro e
      rw [List.map_append, List.nodup_append] at hn
      exact hn.2.2 (key y) (List.mem_map_of_mem hy) (key x) (by simp) e
    have : odictInsert key acc x = acc ++ [x] := by simp [odictInsert, hx]
    rw [this, ih (acc ++ [x]) (by simpa using hn)]
    simp

theorem odict_of_nodup {κ α : Type} [DecidableEq κ] (key : α → κ) (items : List α)
    (hn : (items.map key).Nodup) : odict key items = items := by
  unfold odict
  simpa using odict_foldl_of_nodup key [] items (by simpa using hn)

end PsdVerif.Codec
