/-
C03 (`lengths_truthful`) — the regions the specification walker reports: the layer and mask section,
image data, the whole file.
-/
import PsdVerif.Lemmas.C03PixelsTrace2

namespace PsdVerif.Walker
open PsdVerif PsdVerif.Codec PsdVerif.Psd

/-- the spans of the layer and mask section: the section; the layer info with all it contains; the global
layer mask info; the document-level tagged blocks (each with its filler to a multiple of 4) -/
def layerAndMaskSpans (v pad p : Nat) (x : LayerAndMask) : List Span :=
  ⟨⟨p, (x.encT v pad).length, "layer-and-mask"⟩, x.encT v pad⟩ ::
    (match x.layerInfo with
     | none => []
     | some li =>
       layerInfoSpans v pad (p + secW v) li ++
         (match x.globalMask with
          | none => []
          | some g =>
            ⟨⟨p + secW v + (li.encT v pad).length, g.encT.length, "global-layer-mask"⟩, g.encT⟩ ::
              (match x.taggedBlocks with
               | some ts => seqSpans "tagged-block" (TaggedBlock.encT v 4)
                   (p + secW v + (li.encT v pad).length + g.encT.length) ts
               | none => [])))

theorem layerAndMaskSpans_hold (v pad : Nat) (x : LayerAndMask) {d : B} {p : Nat} {rest : B}
    (hat : At d p (x.encT v pad ++ rest)) : ∀ s ∈ layerAndMaskSpans v pad p x, s.Holds d := by
  intro s hs
  simp only [layerAndMaskSpans, List.mem_cons] at hs
  rcases hs with rfl | hs
  · exact ⟨rfl, hat.left⟩
  · obtain ⟨li, g, ts⟩ := x
    cases li with
    | none => simp at hs
    | some li =>
      simp only [List.mem_append] at hs
      unfold LayerAndMask.encT at hat
      rw [lenBlockT_simple] at hat
      simp only [LayerAndMask.bodyT, optT', List.append_assoc] at hat
      have hat := hat.right
      rw [length_beBytes] at hat
      rcases hs with hs | hs
      · exact layerInfoSpans_hold v pad li hat s hs
      · have hat := hat.right
        cases g with
        | none => simp at hs
        | some g =>
          simp only [List.mem_cons] at hs
          rcases hs with rfl | hs
          · exact ⟨rfl, hat.left⟩
          · cases ts with
            | none => simp at hs
            | some ts =>
              simp only at hs
              exact seqSpans_hold _ _ ts (by have := hat.right; unfold taggedBlocksT at this; exact this) s hs

theorem walkLayerAndMask_full {v pad : Nat} (hv : v = 1 ∨ v = 2) (hp : pad = 1 ∨ pad = 2 ∨ pad = 4)
    {x : LayerAndMask} (hwf : x.WF v pad) (hsh1 : optInfoShaped v x.layerInfo)
    (hsh2 : optBlocksAgree v x.taggedBlocks) {d : B} {p : Nat} {rest : B}
    (hat : At d p (x.encT v pad ++ rest)) :
    walkLayerAndMask v d p = .ok (regionsOf (layerAndMaskSpans v pad p x), p + (x.encT v pad).length) ∧
      At d (p + (x.encT v pad).length) rest := by
  refine ⟨?_, hat.right⟩
  have hat1 := hat.left
  clear hat
  have hw := secW_pos v
  have hlw := lenW_eq_secW hv
  obtain ⟨⟨_, _, _, hfb⟩, hrest⟩ := hwf
  unfold layerAndMaskSpans
  rw [LayerAndMask.length_encT]
  unfold LayerAndMask.encT at hat1
  rw [lenBlockT_simple] at hat1
  have hb0 := hat1.bound
  simp only [List.length_append, length_beBytes] at hb0
  have hat2 := hat1.nil_right
  clear hat1
  rw [List.append_assoc] at hat2
  rw [← hlw] at hat2 hfb
  obtain ⟨e1, hat⟩ := wU_step (sect := "layer-and-mask") hat2 hfb
  clear hat2
  obtain ⟨li, g, ts⟩ := x
  simp only at hrest hsh1 hsh2 ⊢
  generalize hB : LayerAndMask.bodyT v pad ⟨li, g, ts⟩ = body at *
  have e2 : skip "layer-and-mask" body.length d (p + lenW v) = .ok ((), p + lenW v + body.length) := by
    unfold skip; rw [if_pos (by omega)]
  cases li with
  | none =>
    obtain ⟨rfl, rfl⟩ := hrest
    have : body = [] := by rw [← hB]; simp [LayerAndMask.bodyT, optT']
    subst this
    simp only [List.length_nil] at e1 e2
    simp only [walkLayerAndMask, bind, Except.bind, e1, e2, if_true, List.length_nil, regionsOf, List.map_cons,
      List.map_nil]
    rw [hlw]
    rfl
  | some li =>
    simp only at hrest
    obtain ⟨hli, hg, hts, hgt⟩ := hrest
    simp only [optInfoShaped] at hsh1
    cases ts with
    | none => simp at hts
    | some ts =>
      simp only at hts
      simp only [optBlocksAgree] at hsh2
      have hbody : body = li.encT v pad ++ (optT' GlobalLayerMaskInfo.encT g ++ (taggedBlocksT v 4 ts ++ [])) := by
        rw [← hB]; simp only [LayerAndMask.bodyT, optT', List.append_assoc, List.append_nil]
      have hlige := li.length_encT_ge v pad
      have hne : ¬ body.length = 0 := by rw [hbody]; simp only [List.length_append]; omega
      have hblen : body.length = (li.encT v pad).length + (optT' GlobalLayerMaskInfo.encT g).length +
          (taggedBlocksT v 4 ts).length := by
        rw [hbody]; simp only [List.length_append, List.length_nil]; omega
      rw [List.append_nil, hbody] at hat
      obtain ⟨e3, hat⟩ := walkLayerInfo_full hv hp hli hsh1 hat
      have c1 : p + lenW v + (li.encT v pad).length ≤ p + lenW v + body.length := by omega
      cases g with
      | none =>
        have : ts = [] := by simpa using hgt rfl
        subst this
        simp only [optT', taggedBlocksT, listT, List.length_nil, Nat.add_zero] at hblen
        have c2 : ¬ p + lenW v + (li.encT v pad).length + 4 ≤ p + lenW v + body.length := by omega
        simp only [walkLayerAndMask, bind, Except.bind, e1, e2, if_neg hne, e3, check_eq, decide_eq_true_eq, if_pos c1,
          if_neg c2, regionsOf_cons, regionsOf_append]
        rw [hlw]
        simp only [regionsOf, List.map_nil, List.append_nil, Nat.add_assoc]
      | some g =>
        simp only [optProp] at hg
        simp only [optT'] at hat hblen
        have hgl := g.length_encT hg.2.1
        have hgenc : g.encT = beBytes 4 g.bodyT.length ++ g.bodyT := by
          simp [GlobalLayerMaskInfo.encT, lenBlockT_simple]
        have hgb : g.encT.length = 4 + g.bodyT.length := by rw [hgenc]; simp [length_beBytes]
        have hgf : g.bodyT.length < 256 ^ 4 := by
          have : g.bodyT.length ≤ 16 := by split at hgl <;> omega
          have : (16 : Nat) < 256 ^ 4 := by decide
          omega
        rw [hgenc, List.append_assoc] at hat
        obtain ⟨e4, hat⟩ := wU_step (sect := "global-layer-mask") hat hgf
        obtain ⟨e5, hat⟩ := skip_step (sect := "global-layer-mask") hat rfl
        have hcount : ts.length < body.length + 1 := by
          have := length_listT_le (TaggedBlock.encT v 4) ts 1 (fun t _ => by have := t.length_ge v 4; omega)
          unfold taggedBlocksT at hblen; omega
        have e6 := walkBlocksLoop_full (sect := "global-tagged-blocks") (v := v) (align := 4) (even := false)
          (Or.inr (Or.inr rfl)) ts hts.1 hsh2 (fun h => by cases h) hat (p + lenW v + body.length)
          (by omega) (by omega) (body.length + 1) hcount
        have c2 : p + lenW v + (li.encT v pad).length + 4 ≤ p + lenW v + body.length := by omega
        have c3 : p + lenW v + (li.encT v pad).length + 4 + g.bodyT.length ≤ p + lenW v + body.length := by omega
        simp only [walkLayerAndMask, bind, Except.bind, e1, e2, if_neg hne, e3, check_eq, decide_eq_true_eq, if_pos c1,
          if_pos c2, e4, e5, if_pos c3, e6, regionsOf_cons, regionsOf_append]
        rw [hlw, hgb]
        simp only [List.cons_append, Nat.add_assoc]

/-! ### image data, the whole file -/

theorem walkImageData_full {i : ImageData} (hwf : i.WF) {d : B} {p : Nat} (hat : At d p i.encT)
    (hend : p + i.encT.length = d.length) :
    walkImageData d p = .ok ([⟨p, i.encT.length, "image-data"⟩], d.length) := by
  have hc : ∀ x ∈ G.imageCompressions, x < 256 ^ 2 ∧ x ≤ 3 := by decide
  have hwf' : i.compression ∈ G.imageCompressions := hwf
  have hl : d.length - p = i.encT.length := by omega
  simp only [ImageData.encT] at hat
  obtain ⟨e1, _⟩ := wU_step (sect := "image-data") hat (hc _ hwf').1
  simp only [walkImageData, bind, Except.bind, e1, check_eq, decide_eq_true_eq, if_pos (hc _ hwf').2, hl]

/-- everything the walker is expected to report for a document, in its order, each region with the
encoding of the sub-value it stands for: header, colour mode data, image resources (section, blocks),
layer and mask (section, layer info, records with their tagged blocks, channel data, global layer mask
info, document-level tagged blocks), image data -/
def fileSpans (pad : Nat) (x : PSD) : List Span :=
  [⟨⟨0, 26, "header"⟩, x.header.encT⟩,
   ⟨⟨26, (colorModeT x.colorModeData).length, "color-mode-data"⟩, colorModeT x.colorModeData⟩] ++
  resourcesSpans (26 + (colorModeT x.colorModeData).length) x.resources ++
  layerAndMaskSpans x.header.version pad (26 + (colorModeT x.colorModeData).length + (resourcesT x.resources).length)
    x.layerAndMask ++
  [⟨⟨26 + (colorModeT x.colorModeData).length + (resourcesT x.resources).length +
      (x.layerAndMask.encT x.header.version pad).length, x.imageData.encT.length, "image-data"⟩, x.imageData.encT⟩]

theorem encT_assoc (pad : Nat) (x : PSD) :
    x.encT pad = x.header.encT ++ (colorModeT x.colorModeData ++ (resourcesT x.resources ++
      (x.layerAndMask.encT x.header.version pad ++ x.imageData.encT))) := by
  simp only [PSD.encT, List.append_assoc]

/-- every expected span delimits its bytes in the file — a fact about the writer alone -/
theorem fileSpans_hold (pad : Nat) (x : PSD) : ∀ s ∈ fileSpans pad x, s.Holds (x.encT pad) := by
  have hat : At (x.encT pad) 0 (x.header.encT ++ (colorModeT x.colorModeData ++ (resourcesT x.resources ++
      (x.layerAndMask.encT x.header.version pad ++ (x.imageData.encT ++ []))))) := by
    rw [List.append_nil, ← encT_assoc]; exact At.self _
  have h0 := hat.left
  have hat := hat.right
  rw [Header.length_encT, Nat.zero_add] at hat
  have h1 := hat.left
  have hat := hat.right
  have h2 := hat
  have hat := hat.right
  have h3 := hat
  have hat := hat.right
  have h4 := hat.left
  intro s hs
  simp only [fileSpans, List.mem_append, List.mem_cons, List.not_mem_nil, or_false] at hs
  rcases hs with (((rfl | rfl) | hs) | hs) | rfl
  · exact ⟨Header.length_encT _ ▸ rfl, h0⟩
  · exact ⟨rfl, h1⟩
  · exact resourcesSpans_hold _ h2 s hs
  · exact layerAndMaskSpans_hold _ _ _ h3 s hs
  · exact ⟨rfl, h4⟩

/-- the walker, run on what the model writer emits for a well-formed, specification-shaped document,
reports exactly the expected regions and stops at the end of the file -/
theorem walk_encT_full {pad : Nat} (hp : pad = 1 ∨ pad = 2 ∨ pad = 4) {x : PSD} (hwf : x.WF pad) (hsh : SpecShaped x) :
    ∃ L, walk (x.encT pad) = .ok L ∧ L.stop = (x.encT pad).length ∧ L.regions = regionsOf (fileSpans pad x) := by
  obtain ⟨hh, hc, hr, hl, hi⟩ := hwf
  obtain ⟨hs1, hs2⟩ := hsh
  have hv : x.header.version = 1 ∨ x.header.version = 2 := by
    have : ∀ n ∈ G.headerVersions, n = 1 ∨ n = 2 := by decide
    exact this _ hh.2.1
  have hDlen : (x.encT pad).length = 26 + (colorModeT x.colorModeData).length + (resourcesT x.resources).length +
      (x.layerAndMask.encT x.header.version pad).length + x.imageData.encT.length := by
    rw [encT_assoc]; simp only [List.length_append, Header.length_encT]; omega
  unfold fileSpans
  generalize hD : x.encT pad = D at *
  have hD' : D = x.header.encT ++ (colorModeT x.colorModeData ++ (resourcesT x.resources ++
      (x.layerAndMask.encT x.header.version pad ++ x.imageData.encT))) := by
    rw [← hD]; exact encT_assoc pad x
  have hat : At D 0 (x.header.encT ++ (colorModeT x.colorModeData ++ (resourcesT x.resources ++
      (x.layerAndMask.encT x.header.version pad ++ x.imageData.encT)))) := by
    rw [← hD']; exact At.self D
  obtain ⟨e1, hat⟩ := walkHeader_full hh hat
  obtain ⟨e2, hat⟩ := walkColorMode_full hc hat
  obtain ⟨e3, hat⟩ := walkResources_full hr hat
  obtain ⟨e4, hat⟩ := walkLayerAndMask_full hv hp hl hs1 hs2 hat
  have e5 := walkImageData_full hi hat (by omega)
  simp only [Nat.zero_add] at e1 e2 e3 e4 e5
  have e : walk D = .ok ⟨⟨x.header.version, x.header.channels, x.header.height, x.header.width, x.header.depth,
      x.header.colorMode⟩,
      [⟨0, 26, "header"⟩] ++ [⟨26, (colorModeT x.colorModeData).length, "color-mode-data"⟩] ++
      regionsOf (resourcesSpans (26 + (colorModeT x.colorModeData).length) x.resources) ++
      regionsOf (layerAndMaskSpans x.header.version pad
        (26 + (colorModeT x.colorModeData).length + (resourcesT x.resources).length) x.layerAndMask) ++
      [⟨26 + (colorModeT x.colorModeData).length + (resourcesT x.resources).length +
        (x.layerAndMask.encT x.header.version pad).length, x.imageData.encT.length, "image-data"⟩], D.length⟩ := by
    simp only [walk, bind, Except.bind, e1, e2, e3, e4, e5]
  refine ⟨_, e, rfl, ?_⟩
  simp only [regionsOf, List.map_append, List.map_cons, List.map_nil]
  rfl

end PsdVerif.Walker
