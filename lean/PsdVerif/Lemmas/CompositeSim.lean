/-
Indistinguishable compositor states (`Sim`) and the theorem that the viewport does not matter at a
pixel: the general form of the crop law of C13.
-/
import PsdVerif.Lemmas.CompositeView
open PsdVerif PsdVerif.Composite
namespace PsdVerif.Composite

/-- Two compositor states that no later step and no result can tell apart: equal bookkeeping,
equal colour wherever the accumulated alpha is not zero, equal backdrop colour wherever the
backdrop alpha is not zero. (The published model leaves colour under zero coverage undefined;
the code fills it with 1.0 or leaves what was there.) -/
structure Sim (s t : PState) : Prop where
  sg : s.sg = t.sg
  ag : s.ag = t.ag
  a : s.a = t.a
  a0 : s.a0 = t.a0
  c : t.a ≠ 0 → s.c = t.c
  c0 : t.a0 ≠ 0 → s.c0 = t.c0

theorem Sim.refl (s : PState) : Sim s s := ⟨rfl, rfl, rfl, rfl, fun _ => rfl, fun _ => rfl⟩

theorem Sim.symm {s t : PState} (h : Sim s t) : Sim t s :=
  ⟨h.sg.symm, h.ag.symm, h.a.symm, h.a0.symm, fun ha => (h.c (by rw [← h.a]; exact ha)).symm,
    fun ha => (h.c0 (by rw [← h.a0]; exact ha)).symm⟩

theorem Sim.trans {r s t : PState} (h1 : Sim r s) (h2 : Sim s t) : Sim r t :=
  ⟨h1.sg.trans h2.sg, h1.ag.trans h2.ag, h1.a.trans h2.a, h1.a0.trans h2.a0,
    fun ha => (h1.c (by rw [h2.a]; exact ha)).trans (h2.c ha),
    fun ha => (h1.c0 (by rw [h2.a0]; exact ha)).trans (h2.c0 ha)⟩

/-- sources that cannot be told apart: same shape and alpha, same colour where alpha is not zero -/
structure SrcSim (color color' : Color) (shape alpha : Rat) : Prop where
  c : alpha ≠ 0 → color = color'

/-- One step respects `Sim`; in fact the new colours are *equal*. -/
theorem applySource_sim (bl : Color → Color → Color) {s t : PState} (h : Sim s t)
    {color color' : Color} {shape alpha : Rat} (hc : alpha ≠ 0 → color = color') (ko : Bool) :
    Sim (applySource bl s color shape alpha ko) (applySource bl t color' shape alpha ko) := by
  have hcol : (applySource bl s color shape alpha ko).c = (applySource bl t color' shape alpha ko).c := by
    funext ch
    unfold applySource
    simp only
    rw [h.ag, h.a, h.a0]
    cases ko <;> simp only [Bool.false_eq_true, if_false, if_true]
    · -- non-knockout: everything that could differ is multiplied by a zero
      congr 2
      by_cases ha : t.a = 0
      · by_cases hal : alpha = 0
        · simp [ha, hal]
        · rw [hc hal]; simp [ha]
      · rw [h.c ha]
        by_cases hal : alpha = 0
        · simp [hal]
        · rw [hc hal]
    · congr 2
      by_cases ha : t.a = 0 <;> by_cases h0 : t.a0 = 0 <;> by_cases hal : alpha = 0
      · simp [ha, h0, hal]
      · rw [hc hal]; simp [ha, h0]
      · rw [h.c0 h0]; simp [ha, hal]
      · rw [h.c0 h0, hc hal]; simp [ha]
      · rw [h.c ha]; simp [h0, hal]
      · rw [h.c ha, hc hal]; simp [h0]
      · rw [h.c ha, h.c0 h0]; simp [hal]
      · rw [h.c ha, h.c0 h0, hc hal]
  refine ⟨by simp [h.sg], ?_, ?_, by simp [h.a0], fun _ => hcol, fun h0 => by simpa using h.c0 (by simpa using h0)⟩
  · unfold applySource; simp only; rw [h.ag, h.a0]
  · unfold applySource; simp only; rw [h.ag, h.a0]

end PsdVerif.Composite

namespace PsdVerif.Composite

/-- a zero source (knockout or not) changes nothing that can be observed -/
theorem applySource_zero_sim (bl : Color → Color → Color) (st : PState) (hst : Inv st) (color : Color) (ko : Bool) :
    Sim (applySource bl st color 0 0 ko) st := by
  cases ko
  · have h := applySource_zero bl st hst color
    exact ⟨h.sg, h.ag, h.a, h.a0, fun ha => funext (h.c ha), fun _ => rfl⟩
  · have hag : (applySource bl st color 0 0 true).ag = st.ag := by simp [applySource]
    have ha : (applySource bl st color 0 0 true).a = st.a := by
      simp only [applySource, if_true]; rw [hst.a_eq]; (congr 1; try ring)
    refine ⟨by simp, hag, ha, rfl, ?_, fun _ => rfl⟩
    intro hne
    funext ch
    simp only [applySource, if_true]
    have e : union st.a0 ((1 - 0) * st.ag + (0 - 0) * st.a0 + 0) = st.a := by rw [hst.a_eq]; (congr 1; try ring)
    rw [e]
    have e2 : (1 - 0) * st.a * st.c ch + ((0 - 0) * st.a0 * st.c0 ch + 0 * ((1 - st.a0) * color ch + st.a0 * bl st.c0 color ch))
        = st.a * st.c ch := by ring
    rw [e2]
    unfold divide
    rw [if_neg hne]
    have : st.a * st.c ch / st.a = st.c ch := by field_simp
    rw [this]; exact clip_id (hst.c ch)

/-- the value `finish` returns for a group is the same for indistinguishable states, wherever the
group painted something -/
theorem finishColor_sim {s t : PState} (h : Sim s t) (ht : Inv t) (hag : t.ag ≠ 0) :
    finishColor s = finishColor t := by
  funext ch
  unfold finishColor
  have hta : t.a ≠ 0 := by
    rw [ht.a_eq, union_eq]
    obtain ⟨z0, z1⟩ := ht.a0; obtain ⟨g0, g1⟩ := ht.ag
    have hpos : 0 < t.ag := lt_of_le_of_ne g0 (Ne.symm hag)
    have := mul_nonneg (sub_nonneg.2 g1) z0
    linarith
  rw [h.c hta, h.ag, h.a0]
  by_cases h0 : t.a0 = 0
  · simp [h0, divide, hag]
  · rw [h.c0 h0]

theorem init_sim {c c' : Color} {a : Rat} (iso : Bool) (h : a ≠ 0 → c = c') :
    Sim (PState.init c a iso) (PState.init c' a iso) := by
  unfold PState.init
  cases iso <;> simp only [Bool.false_eq_true, if_false, if_true]
  · exact ⟨rfl, rfl, rfl, rfl, h, h⟩
  · exact ⟨rfl, rfl, rfl, rfl, fun hne => absurd rfl hne, fun hne => absurd rfl hne⟩

theorem finishApply_sim (B : Mode → Color → Color → Color) (V V' : Rect) (x y : Int)
    (hV : V.contains x y = true) (hV' : V'.contains x y = true) {s t : PState} (h : Sim s t) (pr : Props)
    {color color' : Color} {shape alpha : Rat} (hc : alpha ≠ 0 → color = color') :
    Sim (finishApply B V x y s pr color shape alpha) (finishApply B V' x y t pr color' shape alpha) := by
  unfold finishApply
  rw [maskFactors_view pr V V' x y hV hV']
  apply applySource_sim (B pr.mode) h
  intro hne
  apply hc
  intro h0
  apply hne
  rw [h0]; ring

end PsdVerif.Composite

namespace PsdVerif.Composite

/-- a pixel covered by a box and by the viewport lies in their (non-empty) intersection -/
theorem intersect_ne_zero_of_contains {V b : Rect} {x y : Int} (hV : V.contains x y = true) (hb : b.contains x y = true) :
    intersect V b ≠ Rect.zero := by
  intro hz
  unfold intersect at hz
  simp only at hz
  unfold Rect.contains at hV hb
  simp only [Bool.and_eq_true, decide_eq_true_eq] at hV hb
  split at hz
  · rename_i hc; omega
  · unfold Rect.zero at hz
    simp only [Rect.mk.injEq] at hz
    omega

/-- **Skipped or applied, a layer that does not cover the pixel is invisible there.** -/
theorem applyNode_outside_sim (B : Mode → Color → Color → Color) (V : Rect) (x y : Int) (hV : V.contains x y = true)
    (cc : Bool) (st : PState) (hst : Inv st) (n : Node) (hout : n.props.bbox.contains x y = false) :
    Sim (applyNode B V x y cc st n) st := by
  cases n with
  | leaf pr hasPixels color shape clips =>
    simp only [Node.props] at hout
    unfold applyNode
    split; · exact Sim.refl st
    split; · exact Sim.refl st
    split; · exact Sim.refl st
    simp only [pasteAt_eq V _ x y hV, hout, Bool.false_eq_true, if_false]
    unfold finishApply
    have z : (if hasPixels = true then (0 : Rat) else 0) = 0 := by split <;> rfl
    simp only [z, zero_mul]
    exact applySource_zero_sim _ st hst _ _
  | group pr passThrough children clips =>
    simp only [Node.props] at hout
    have hin : (intersect V pr.bbox).contains x y = false := by
      by_cases hz : intersect V pr.bbox = Rect.zero
      · rw [hz]; exact contains_zero x y
      · rw [contains_intersect hz, hout, Bool.and_false]
    unfold applyNode
    split; · exact Sim.refl st
    split; · exact Sim.refl st
    split; · exact Sim.refl st
    simp only [hin, Bool.false_eq_true, if_false]
    unfold finishApply
    simp only [zero_mul]
    exact applySource_zero_sim _ st hst _ _

end PsdVerif.Composite

namespace PsdVerif.Composite

theorem finishApply_a0 (B : Mode → Color → Color → Color) (V : Rect) (x y : Int) (st : PState) (pr : Props)
    (color : Color) (shape alpha : Rat) :
    (finishApply B V x y st pr color shape alpha).a0 = st.a0 ∧ (finishApply B V x y st pr color shape alpha).c0 = st.c0 := by
  unfold finishApply; exact ⟨rfl, rfl⟩

mutual
theorem applyNode_a0 (B : Mode → Color → Color → Color) (V : Rect) (x y : Int) (cc : Bool) (st : PState) :
    (n : Node) → (applyNode B V x y cc st n).a0 = st.a0 ∧ (applyNode B V x y cc st n).c0 = st.c0
  | .leaf pr hasPixels color shape clips => by
    unfold applyNode
    split; · exact ⟨rfl, rfl⟩
    split; · exact ⟨rfl, rfl⟩
    split; · exact ⟨rfl, rfl⟩
    exact finishApply_a0 ..
  | .group pr passThrough children clips => by
    unfold applyNode
    split; · exact ⟨rfl, rfl⟩
    split; · exact ⟨rfl, rfl⟩
    split; · exact ⟨rfl, rfl⟩
    exact finishApply_a0 ..
end

theorem applyClips_a0 (B : Mode → Color → Color → Color) (V : Rect) (x y : Int) (st : PState) (ns : List Node) :
    (applyClips B V x y st ns).a0 = st.a0 := by
  induction ns generalizing st with
  | nil => unfold applyClips; rfl
  | cons n rest ih => unfold applyClips; rw [ih, (applyNode_a0 B V x y true st n).1]

/-- the accumulated alpha of a sub-compositor is at least its backdrop alpha -/
theorem a_ne_zero_of_a0 {st : PState} (h : Inv st) (h0 : st.a0 ≠ 0) : st.a ≠ 0 := by
  rw [h.a_eq]
  unfold union
  obtain ⟨z0, z1⟩ := h.a0; obtain ⟨g0, g1⟩ := h.ag
  have hpos : 0 < st.a0 := lt_of_le_of_ne z0 (Ne.symm h0)
  have := mul_nonneg g0 (sub_nonneg.2 z1)
  intro he
  nlinarith

end PsdVerif.Composite

namespace PsdVerif.Composite

mutual
/-- **The viewport does not matter at a pixel.** In two viewports that both contain the pixel, from
indistinguishable states, a layer (with everything below it: groups, masks, clip runs, knockout)
leads to indistinguishable states. -/
theorem applyNode_sim (B : Mode → Color → Color → Color) (V₁ V₂ : Rect) (x y : Int)
    (h₁ : V₁.contains x y = true) (h₂ : V₂.contains x y = true) (cc : Bool) (s t : PState)
    (hs : Sim s t) (is : Inv s) (it : Inv t) :
    (n : Node) → nodeOk n → Sim (applyNode B V₁ x y cc s n) (applyNode B V₂ x y cc t n)
  | .leaf pr hasPixels color shape clips, hn => by
    obtain ⟨hp, hcol, hsh, hcl⟩ := hn
    by_cases hb : pr.bbox.contains x y = true
    · have z₁ := intersect_ne_zero_of_contains h₁ hb
      have z₂ := intersect_ne_zero_of_contains h₂ hb
      unfold applyNode
      simp only [z₁, z₂, if_false]
      by_cases hv : (!pr.visible) = true
      · simp only [hv, if_true]; exact hs
      · simp only [hv, Bool.false_eq_true, if_false]
        by_cases hk : (!cc && pr.clipping && pr.hasClipTarget) = true
        · simp only [hk, if_true]; exact hs
        · simp only [hk, Bool.false_eq_true, if_false]
          rw [pasteAt_eq V₁ _ x y h₁, pasteAt_eq V₂ _ x y h₂, pasteAt_eq V₁ _ x y h₁, pasteAt_eq V₂ _ x y h₂]
          simp only [hb, if_true]
          have hc0 : ColorOk (if hasPixels = true then color else white) := by split; exact hcol; exact white_ok
          have hs0 : Unit01 (if hasPixels = true then shape else 0) := by split; exact hsh; exact unit01_zero
          apply finishApply_sim B V₁ V₂ x y h₁ h₂ hs pr
          intro hne
          by_cases he : clips.isEmpty = true
          · simp only [he, if_true]
          · simp only [he, Bool.false_eq_true, if_false]
            have i0 := inv_init hc0 hs0 false
            have hsim := applyClips_sim B V₁ V₂ x y h₁ h₂ _ _ (Sim.refl _) i0 i0 clips hcl
            have hi2 := applyClips_inv B V₂ x y _ i0 clips hcl
            apply hsim.c
            apply a_ne_zero_of_a0 hi2
            rw [applyClips_a0]
            simpa [PState.init] using hne
    · have hb' : pr.bbox.contains x y = false := by simpa using hb
      have e₁ := applyNode_outside_sim B V₁ x y h₁ cc s is (.leaf pr hasPixels color shape clips) (by simpa [Node.props] using hb')
      have e₂ := applyNode_outside_sim B V₂ x y h₂ cc t it (.leaf pr hasPixels color shape clips) (by simpa [Node.props] using hb')
      exact (e₁.trans hs).trans e₂.symm
  | .group pr passThrough children clips, hn => by
    obtain ⟨hp, hch, hcl⟩ := hn
    by_cases hb : pr.bbox.contains x y = true
    · have z₁ := intersect_ne_zero_of_contains h₁ hb
      have z₂ := intersect_ne_zero_of_contains h₂ hb
      have in₁ : (intersect V₁ pr.bbox).contains x y = true := by rw [contains_intersect z₁, h₁, hb]; rfl
      have in₂ : (intersect V₂ pr.bbox).contains x y = true := by rw [contains_intersect z₂, h₂, hb]; rfl
      unfold applyNode
      simp only [z₁, z₂, if_false]
      by_cases hv : (!pr.visible) = true
      · simp only [hv, if_true]; exact hs
      · simp only [hv, Bool.false_eq_true, if_false]
        by_cases hk : (!cc && pr.clipping && pr.hasClipTarget) = true
        · simp only [hk, if_true]; exact hs
        · simp only [hk, Bool.false_eq_true, if_false, in₁, in₂, if_true]
          -- the group's backdrop as seen by the two runs
          have hcb : ColorOk (if pr.knockout = true then s.c0 else s.c) := by split; exact is.c0; exact is.c
          have hcb' : ColorOk (if pr.knockout = true then t.c0 else t.c) := by split; exact it.c0; exact it.c
          have hab' : Unit01 (if pr.knockout = true then t.a0 else t.a) := by split; exact it.a0; exact it.a
          have eab : (if pr.knockout = true then s.a0 else s.a) = (if pr.knockout = true then t.a0 else t.a) := by
            split; exact hs.a0; exact hs.a
          rw [eab]
          have hinit : Sim (PState.init (if pr.knockout = true then s.c0 else s.c) (if pr.knockout = true then t.a0 else t.a) (!passThrough))
              (PState.init (if pr.knockout = true then t.c0 else t.c) (if pr.knockout = true then t.a0 else t.a) (!passThrough)) := by
            apply init_sim
            intro hne
            by_cases hko : pr.knockout = true
            · simp only [hko, if_true] at hne ⊢; exact hs.c0 hne
            · simp only [hko, Bool.false_eq_true, if_false] at hne ⊢; exact hs.c hne
          have i₁ := inv_init hcb hab' (!passThrough)
          have i₂ := inv_init hcb' hab' (!passThrough)
          have hsub := applyList_sim B (intersect V₁ pr.bbox) (intersect V₂ pr.bbox) x y in₁ in₂ _ _ hinit i₁ i₂ children hch
          have is₂ := applyList_inv B (intersect V₂ pr.bbox) x y _ i₂ children hch
          have is₁ := applyList_inv B (intersect V₁ pr.bbox) x y _ i₁ children hch
          rw [hsub.sg, hsub.ag]
          apply finishApply_sim B V₁ V₂ x y h₁ h₂ hs pr
          intro hne
          have hfc := finishColor_sim hsub is₂ hne
          by_cases he : clips.isEmpty = true
          · simp only [he, if_true]; exact hfc
          · simp only [he, Bool.false_eq_true, if_false]
            rw [hfc]
            have i0 := inv_init (color := finishColor (applyList B (intersect V₂ pr.bbox) x y (PState.init (if pr.knockout = true then t.c0 else t.c) (if pr.knockout = true then t.a0 else t.a) (!passThrough)) children)) (fun ch => clip_unit _) is₂.ag false
            have hsim := applyClips_sim B V₁ V₂ x y h₁ h₂ _ _ (Sim.refl _) i0 i0 clips hcl
            have hi2 := applyClips_inv B V₂ x y _ i0 clips hcl
            apply hsim.c
            apply a_ne_zero_of_a0 hi2
            rw [applyClips_a0]
            simpa [PState.init] using hne
    · have hb' : pr.bbox.contains x y = false := by simpa using hb
      have e₁ := applyNode_outside_sim B V₁ x y h₁ cc s is (.group pr passThrough children clips) (by simpa [Node.props] using hb')
      have e₂ := applyNode_outside_sim B V₂ x y h₂ cc t it (.group pr passThrough children clips) (by simpa [Node.props] using hb')
      exact (e₁.trans hs).trans e₂.symm

theorem applyList_sim (B : Mode → Color → Color → Color) (V₁ V₂ : Rect) (x y : Int)
    (h₁ : V₁.contains x y = true) (h₂ : V₂.contains x y = true) (s t : PState)
    (hs : Sim s t) (is : Inv s) (it : Inv t) :
    (ns : List Node) → listOk ns → Sim (applyList B V₁ x y s ns) (applyList B V₂ x y t ns)
  | [], _ => by unfold applyList; exact hs
  | n :: rest, h => by
    unfold applyList
    exact applyList_sim B V₁ V₂ x y h₁ h₂ _ _ (applyNode_sim B V₁ V₂ x y h₁ h₂ false s t hs is it n h.1)
      (applyNode_inv B V₁ x y false s is n h.1) (applyNode_inv B V₂ x y false t it n h.1) rest h.2

theorem applyClips_sim (B : Mode → Color → Color → Color) (V₁ V₂ : Rect) (x y : Int)
    (h₁ : V₁.contains x y = true) (h₂ : V₂.contains x y = true) (s t : PState)
    (hs : Sim s t) (is : Inv s) (it : Inv t) :
    (ns : List Node) → listOk ns → Sim (applyClips B V₁ x y s ns) (applyClips B V₂ x y t ns)
  | [], _ => by unfold applyClips; exact hs
  | n :: rest, h => by
    unfold applyClips
    exact applyClips_sim B V₁ V₂ x y h₁ h₂ _ _ (applyNode_sim B V₁ V₂ x y h₁ h₂ true s t hs is it n h.1)
      (applyNode_inv B V₁ x y true s is n h.1) (applyNode_inv B V₂ x y true t it n h.1) rest h.2
end

end PsdVerif.Composite
